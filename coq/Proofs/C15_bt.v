(* Proofs/C15_bt.v — C15, the name-Bradley-Terry table: bt_pdf (_BT_pdf / _make_pow) against the
   defining pair-product formula calc_prob (_calc_prob), for every number of candidates. *)
From VK Require Import Base Core GenValidation PrefInterval BTSpec Lib_rk Lib_sets C12_expand C15_interval.
From Coq Require Import Permutation Lia Lqa Setoid Morphisms Qpower.

(* ---------- products and ordered pairs ---------- *)

Lemma qprod_nil : qprod [] = 1.
Proof. reflexivity. Qed.

Lemma qprod_cons : forall a l, qprod (a :: l) = a * qprod l.
Proof. reflexivity. Qed.

Lemma qprod_app : forall l1 l2, qprod (l1 ++ l2) == qprod l1 * qprod l2.
Proof.
  induction l1 as [|a l1 IH]; intros l2; cbn [app].
  - rewrite qprod_nil. ring.
  - rewrite !qprod_cons, IH. ring.
Qed.

Lemma ordered_pairs_cons : forall (A : Type) (a : A) l,
  ordered_pairs (a :: l) = map (pair a) l ++ ordered_pairs l.
Proof. reflexivity. Qed.

(* (a, b) is an ordered pair of l exactly when a occurs at a position strictly before b *)
Lemma ordered_pairs_spec : forall (A : Type) (l : list A) a b,
  In (a, b) (ordered_pairs l) <-> exists l1 l2 l3, l = l1 ++ a :: l2 ++ b :: l3.
Proof.
  intros A l. induction l as [|x l IH]; intros a b.
  - cbn [ordered_pairs]. split; [intros []|]. intros (l1 & l2 & l3 & E). destruct l1; discriminate.
  - rewrite ordered_pairs_cons, in_app_iff, in_map_iff, IH. split.
    + intros [(y & E & Hy)|(l1 & l2 & l3 & ->)].
      * injection E as -> ->. apply in_split in Hy. destruct Hy as (l2 & l3 & ->).
        exists [], l2, l3. reflexivity.
      * exists (x :: l1), l2, l3. reflexivity.
    + intros (l1 & l2 & l3 & E). destruct l1 as [|y l1]; cbn [app] in E; injection E as -> ->.
      * left. exists b. split; [reflexivity|]. apply in_or_app. right. left. reflexivity.
      * right. exists l1, l2, l3. reflexivity.
Qed.

(* ---------- Qpow' ---------- *)

Lemma Qpow'_pos : forall q n, 0 < q -> 0 < Qpow' q n.
Proof.
  intros q n Hq. induction n as [|n IH]; cbn [Qpow'].
  - reflexivity.
  - apply Qmult_lt_0_compat; assumption.
Qed.

Lemma Qpow'_nonneg : forall q n, 0 <= q -> 0 <= Qpow' q n.
Proof.
  intros q n Hq. induction n as [|n IH]; cbn [Qpow'].
  - discriminate.
  - apply Qmult_le_0_compat; assumption.
Qed.

Lemma Qpow'_Qpower : forall q n, Qpow' q n == q ^ Z.of_nat n.
Proof.
  intros q n. induction n as [|n IH]; cbn [Qpow'].
  - reflexivity.
  - rewrite IH. rewrite Nat2Z.inj_succ. unfold Z.succ.
    rewrite Z.add_comm. rewrite Qpower_plus' by lia.
    assert (E : q ^ 1 == q) by reflexivity. rewrite E. reflexivity.
Qed.

(* ---------- the pair-product over a list of supports ---------- *)

Fixpoint Pfrac (x : Q) (l : list Q) : Q :=
  match l with [] => 1 | y :: l' => (x / (x + y)) * Pfrac x l' end.
Fixpoint cp (l : list Q) : Q :=
  match l with [] => 1 | x :: l' => Pfrac x l' * cp l' end.
Fixpoint Psum (x : Q) (l : list Q) : Q :=
  match l with [] => 1 | y :: l' => (x + y) * Psum x l' end.
(* D l = prod_{i<j} (l_i + l_j) *)
Fixpoint Dl (l : list Q) : Q :=
  match l with [] => 1 | x :: l' => Psum x l' * Dl l' end.

Lemma calc_prob_cp : forall d r, calc_prob d r = cp (map (lookupP d) r).
Proof.
  intros d r. induction r as [|c r IH]; cbn [calc_prob map cp]; [reflexivity|].
  rewrite IH. f_equal. clear IH. induction r as [|c' r IH]; cbn [fold_right map Pfrac]; [reflexivity|].
  rewrite IH. reflexivity.
Qed.

Lemma bt_weight_cp : forall x r, bt_weight x r == cp (map x r).
Proof.
  intros x r. unfold bt_weight. induction r as [|c r IH]; cbn [map cp]; [reflexivity|].
  rewrite ordered_pairs_cons, map_app, qprod_app, IH, map_map. cbn [fst snd].
  apply Qmult_comp; [|reflexivity]. clear IH.
  induction r as [|c' r IH]; cbn [map Pfrac]; [reflexivity|].
  rewrite qprod_cons, IH. reflexivity.
Qed.

(* c15_calc_prob_def *)
Theorem calc_prob_def : forall d r, calc_prob d r == bt_weight (lookupP d) r.
Proof. intros d r. rewrite calc_prob_cp, bt_weight_cp. reflexivity. Qed.

Theorem calc_prob_rec : forall d,
  calc_prob d [] == 1 /\
  forall c r, calc_prob d (c :: r) ==
    qprod (map (fun c' => lookupP d c / (lookupP d c + lookupP d c')) r) * calc_prob d r.
Proof.
  intros d. split; [reflexivity|]. intros c r. cbn [calc_prob].
  apply Qmult_comp; [|reflexivity].
  induction r as [|c' r IH]; cbn [fold_right map]; [reflexivity|].
  rewrite qprod_cons, IH. reflexivity.
Qed.

Definition allpos (l : list Q) : Prop := forall q, In q l -> 0 < q.

Lemma allpos_tail : forall x l, allpos (x :: l) -> allpos l.
Proof. intros x l H q Hq. apply H. right. exact Hq. Qed.

Lemma Psum_pos : forall x l, 0 < x -> allpos l -> 0 < Psum x l.
Proof.
  intros x l Hx. induction l as [|y l IH]; intros Hl; cbn [Psum].
  - reflexivity.
  - apply Qmult_lt_0_compat.
    + assert (0 < y) by (apply Hl; left; reflexivity). lra.
    + apply IH. eapply allpos_tail. exact Hl.
Qed.

Lemma Dl_pos : forall l, allpos l -> 0 < Dl l.
Proof.
  induction l as [|x l IH]; intros Hl; cbn [Dl].
  - reflexivity.
  - apply Qmult_lt_0_compat.
    + apply Psum_pos; [apply Hl; left; reflexivity|eapply allpos_tail; exact Hl].
    + apply IH. eapply allpos_tail. exact Hl.
Qed.

Lemma Pfrac_Psum : forall x l, 0 < x -> allpos l -> Pfrac x l * Psum x l == Qpow' x (length l).
Proof.
  intros x l Hx. induction l as [|y l IH]; intros Hl; cbn [Pfrac Psum length Qpow'].
  - ring.
  - assert (Hy : 0 < y) by (apply Hl; left; reflexivity).
    rewrite <- (IH (allpos_tail _ _ Hl)). field. lra.
Qed.

(* numerator / denominator split of the pair product *)
Lemma cp_Dl : forall l, allpos l -> cp l * Dl l == make_pow l.
Proof.
  induction l as [|x l IH]; intros Hl; cbn [cp Dl make_pow].
  - ring.
  - rewrite <- (IH (allpos_tail _ _ Hl)).
    rewrite <- (Pfrac_Psum x l); [ring| |eapply allpos_tail; exact Hl].
    apply Hl. left. reflexivity.
Qed.

Lemma Psum_perm : forall x l l', Permutation l l' -> Psum x l == Psum x l'.
Proof.
  intros x l l' H. induction H as [|y l l' _ IH|y z l|l l' l'' _ IH1 _ IH2]; cbn [Psum].
  - reflexivity.
  - rewrite IH. reflexivity.
  - ring.
  - rewrite IH1. exact IH2.
Qed.

(* the denominator does not depend on the order *)
Lemma Dl_perm : forall l l', Permutation l l' -> Dl l == Dl l'.
Proof.
  intros l l' H. induction H as [|y l l' Hp IH|y z l|l l' l'' _ IH1 _ IH2]; cbn [Dl].
  - reflexivity.
  - rewrite IH, (Psum_perm y l l' Hp). reflexivity.
  - cbn [Psum]. ring.
  - rewrite IH1. exact IH2.
Qed.

Lemma make_pow_pos : forall l, allpos l -> 0 < make_pow l.
Proof.
  induction l as [|x l IH]; intros Hl; cbn [make_pow].
  - reflexivity.
  - apply Qmult_lt_0_compat.
    + apply Qpow'_pos. apply Hl. left. reflexivity.
    + apply IH. eapply allpos_tail. exact Hl.
Qed.

Lemma cp_as_quotient : forall l l0, allpos l0 -> Permutation l l0 -> cp l == make_pow l / Dl l0.
Proof.
  intros l l0 H0 Hp.
  assert (Hl : allpos l).
  { intros q Hq. apply H0. eapply Permutation_in; eassumption. }
  pose proof (Dl_pos l0 H0) as HD. rewrite <- (cp_Dl l Hl), (Dl_perm l l0 Hp). field. lra.
Qed.

(* ---------- the table ---------- *)

Lemma lookupP_in : forall d c, In c (map fst d) -> In (c, lookupP d c) d.
Proof.
  intros d c H. unfold lookupP. destruct (find (fun p => Pos.eqb c (fst p)) d) as [[c' s]|] eqn:E.
  - apply find_some in E. destruct E as [Hin E]. cbn [fst] in E. apply Pos.eqb_eq in E. subst c'.
    exact Hin.
  - exfalso. apply in_map_iff in H. destruct H as (p & <- & Hp).
    pose proof (find_none _ _ E p Hp) as Hn. cbv beta in Hn. rewrite Pos.eqb_refl in Hn. discriminate.
Qed.

Lemma NoDup_keys_functional : forall (d : list (pcand * Q)) c s s',
  NoDup (map fst d) -> In (c, s) d -> In (c, s') d -> s = s'.
Proof.
  induction d as [|[c0 s0] d IH]; intros c s s' Hnd Hin Hin'; [destruct Hin|].
  cbn [map fst] in Hnd. inversion Hnd as [|x l Hx Hd]; subst.
  destruct Hin as [E|Hin]; destruct Hin' as [E'|Hin'].
  - congruence.
  - injection E as -> ->. exfalso. apply Hx. apply in_map_iff. exists (c, s'). split; [reflexivity|exact Hin'].
  - injection E' as -> ->. exfalso. apply Hx. apply in_map_iff. exists (c, s). split; [reflexivity|exact Hin].
  - eapply IH; eassumption.
Qed.

(* the model's lookup is the dictionary access *)
Theorem lookupP_spec : forall d c s, NoDup (map fst d) -> In (c, s) d -> lookupP d c = s.
Proof.
  intros d c s Hnd Hin. apply (NoDup_keys_functional d c); [exact Hnd| |exact Hin].
  apply lookupP_in. apply in_map_iff. exists (c, s). split; [reflexivity|exact Hin].
Qed.

Definition mp (d : list (pcand * Q)) (p : list pcand) : Q := make_pow (map (lookupP d) p).

Lemma bt_pdf_unfold : forall d,
  bt_pdf d =
  map (fun pw => (fst pw, Qred (snd pw / Qred (qsum (map snd
         (map (fun p => (p, Qred (mp d p))) (perms pcand (map fst d))))))))
      (map (fun p => (p, Qred (mp d p))) (perms pcand (map fst d))).
Proof. reflexivity. Qed.

Lemma raw_sum : forall d (ps : list (list pcand)),
  qsum (map snd (map (fun p => (p, Qred (mp d p))) ps)) == qsum (map (mp d) ps).
Proof.
  intros d ps. rewrite map_map. cbn [snd]. apply qsum_map_ext_in. intros a _. apply Qred_correct.
Qed.

Theorem bt_pdf_keys : forall d, map fst (bt_pdf d) = perms pcand (map fst d).
Proof.
  intros d. rewrite bt_pdf_unfold, !map_map. cbn [fst]. apply map_id.
Qed.

Lemma bt_pdf_in : forall d p v, In (p, v) (bt_pdf d) <->
  In p (perms pcand (map fst d)) /\
  v = Qred (Qred (mp d p) / Qred (qsum (map snd (map (fun p => (p, Qred (mp d p))) (perms pcand (map fst d)))))).
Proof.
  intros d p v. rewrite bt_pdf_unfold, map_map. cbn [fst snd]. rewrite in_map_iff. split.
  - intros (q & E & Hq). injection E as -> <-. split; [exact Hq|reflexivity].
  - intros [Hp ->]. exists p. split; [reflexivity|exact Hp].
Qed.

Section BT.
Variable d : list (pcand * Q).
Hypothesis Hpos : forall c s, In (c, s) d -> 0 < s.

Let keys := map fst d.
Let xs := map (lookupP d) keys.

Lemma xs_allpos : allpos xs.
Proof.
  intros q Hq. unfold xs in Hq. apply in_map_iff in Hq. destruct Hq as (c & <- & Hc).
  apply (Hpos c). apply lookupP_in. exact Hc.
Qed.

Lemma perm_xs : forall p, Permutation p keys -> Permutation (map (lookupP d) p) xs.
Proof. intros p H. unfold xs. apply Permutation_map. exact H. Qed.

Lemma mp_pos : forall p, Permutation p keys -> 0 < mp d p.
Proof.
  intros p H. unfold mp. apply make_pow_pos. intros q Hq. apply xs_allpos.
  eapply Permutation_in; [apply perm_xs; exact H|exact Hq].
Qed.

Lemma perms_nonempty : forall l : list pcand, perms pcand l <> [].
Proof.
  intros l E. assert (H : In l (perms pcand l)) by (apply perms_spec; apply Permutation_refl).
  rewrite E in H. destruct H.
Qed.

Lemma mp_total_pos : 0 < qsum (map (mp d) (perms pcand keys)).
Proof.
  apply qsum_pos_list.
  - intros q Hq. apply in_map_iff in Hq. destruct Hq as (p & <- & Hp). apply mp_pos.
    apply perms_spec. exact Hp.
  - intros E. apply map_eq_nil in E. exact (perms_nonempty _ E).
Qed.

Lemma calc_prob_quot : forall p, Permutation p keys -> calc_prob d p == mp d p / Dl xs.
Proof.
  intros p H. rewrite calc_prob_cp. unfold mp. apply cp_as_quotient; [exact xs_allpos|apply perm_xs; exact H].
Qed.

Lemma calc_total : qsum (map (calc_prob d) (perms pcand keys)) == qsum (map (mp d) (perms pcand keys)) / Dl xs.
Proof.
  rewrite <- qsum_map_div. apply qsum_map_ext_in. intros p Hp. apply calc_prob_quot.
  apply perms_spec. exact Hp.
Qed.

(* every entry of the table is the normalised make_pow numerator *)
Lemma bt_entry_mp : forall p v, In (p, v) (bt_pdf d) ->
  Permutation p keys /\ v == mp d p / qsum (map (mp d) (perms pcand keys)).
Proof.
  intros p v H. apply bt_pdf_in in H. destruct H as [Hp ->]. split; [apply perms_spec; exact Hp|].
  rewrite !Qred_correct, raw_sum. reflexivity.
Qed.

(* B1 with the model's own enumeration *)
Lemma bt_entry_calc : forall p v, In (p, v) (bt_pdf d) ->
  Permutation p keys /\ v == calc_prob d p / qsum (map (calc_prob d) (perms pcand keys)).
Proof.
  intros p v H. destruct (bt_entry_mp p v H) as [Hp Hv]. split; [exact Hp|].
  rewrite Hv, calc_total, (calc_prob_quot p Hp).
  pose proof mp_total_pos as HM. pose proof (Dl_pos xs xs_allpos) as HD.
  field. split; lra.
Qed.

(* the table sums to one, has one entry per permutation, all positive *)
Lemma bt_sum_one : qsum (map snd (bt_pdf d)) == 1.
Proof.
  rewrite bt_pdf_unfold. apply normalise_sums_to_one. rewrite raw_sum.
  pose proof mp_total_pos as HM. fold keys. intros E. rewrite E in HM. apply (Qlt_irrefl 0). exact HM.
Qed.

Lemma bt_entry_pos : forall p v, In (p, v) (bt_pdf d) -> 0 < v.
Proof.
  intros p v H. destruct (bt_entry_mp p v H) as [Hp Hv]. rewrite Hv.
  apply Qdiv_pos; [apply mp_pos; exact Hp|exact mp_total_pos].
Qed.

Hypothesis Hnd : NoDup (map fst d).

Lemma enumerates_sum : forall (f : list pcand -> Q) L, enumerates L keys ->
  qsum (map f L) == qsum (map f (perms pcand keys)).
Proof.
  intros f L [HndL HL]. apply qsum_perm. apply Permutation_map.
  apply NoDup_Permutation; [exact HndL|apply perms_NoDup; exact Hnd|].
  intros t. rewrite HL, perms_spec. reflexivity.
Qed.

Lemma bt_weight_calc : forall (x : pcand -> Q) p,
  (forall c s, In (c, s) d -> x c = s) -> Permutation p keys -> bt_weight x p == calc_prob d p.
Proof.
  intros x p Hx Hp. rewrite bt_weight_cp, calc_prob_cp.
  rewrite (map_ext_in x (lookupP d)); [reflexivity|].
  intros c Hc. apply Hx. apply lookupP_in. eapply Permutation_in; eassumption.
Qed.

End BT.

(* B1 *)
Theorem bt_pdf_correct : forall d (x : pcand -> Q) (all : list (list pcand)),
  NoDup (map fst d) ->
  (forall c s, In (c, s) d -> 0 < s) ->
  (forall c s, In (c, s) d -> x c = s) ->
  enumerates all (map fst d) ->
  (forall r, Permutation r (map fst d) -> exists v, In (r, v) (bt_pdf d)) /\
  (forall r v, In (r, v) (bt_pdf d) ->
     Permutation r (map fst d) /\
     v == bt_weight x r / qsum (map (bt_weight x) all)).
Proof.
  intros d x all Hnd Hpos Hx Hall. split.
  - intros r Hr. apply perms_spec in Hr. rewrite <- bt_pdf_keys in Hr.
    apply in_map_iff in Hr. destruct Hr as ([r' v] & E & Hin). cbn [fst] in E. subst r'.
    exists v. exact Hin.
  - intros r v Hin. destruct (bt_entry_calc d Hpos r v Hin) as [Hr Hv]. split; [exact Hr|].
    rewrite Hv, (bt_weight_calc d x r Hx Hr).
    rewrite (enumerates_sum d Hnd (bt_weight x) all Hall).
    apply Qdiv_comp; [reflexivity|]. apply qsum_map_ext_in. intros p Hp.
    symmetry. apply (bt_weight_calc d x p Hx). apply perms_spec. exact Hp.
Qed.

(* the same, phrased with the model's calc_prob and its own enumeration; no NoDup needed *)
Theorem bt_pdf_calc_prob : forall d,
  (forall c s, In (c, s) d -> 0 < s) ->
  forall r v, In (r, v) (bt_pdf d) ->
    Permutation r (map fst d) /\
    v == calc_prob d r / qsum (map (calc_prob d) (perms pcand (map fst d))).
Proof. intros d Hpos r v H. exact (bt_entry_calc d Hpos r v H). Qed.

(* B2 *)
Theorem bt_sums_to_one : forall d,
  (forall c s, In (c, s) d -> 0 < s) ->
  qsum (map snd (bt_pdf d)) == 1 /\
  map fst (bt_pdf d) = perms pcand (map fst d) /\
  length (bt_pdf d) = fact (length d) /\
  (forall r v, In (r, v) (bt_pdf d) -> 0 < v) /\
  (NoDup (map fst d) -> NoDup (map fst (bt_pdf d))).
Proof.
  intros d Hpos. split; [apply bt_sum_one; exact Hpos|]. split; [apply bt_pdf_keys|].
  split; [|split].
  - rewrite <- (map_length fst), bt_pdf_keys, perms_length, map_length. reflexivity.
  - apply bt_entry_pos. exact Hpos.
  - intros Hnd. rewrite bt_pdf_keys. apply perms_NoDup. exact Hnd.
Qed.
