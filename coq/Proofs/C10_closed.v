(* Proofs/C10_closed.v — C10: the two statements that Proofs/C10_tiebreak.v left with an extra
   premise, closed.
   (a) CondoBorda: under [untied_profile p] every dominating tier is a duplicate-free subset of the
       candidates (C06: the tiers concatenate to a permutation of [cands p]), so the recorded Borda
       tiebreak of the straddling tier is a strict order of exactly that tier.
   (b) STV (fractional / full-weight transfer): along a run from a valid profile the round context
       [step_ctx p0 p prev] holds at every round (Proofs/STV_inv.v), so the tied lowest group — a
       group of [remaining prev] — consists of candidates of the current profile, which are
       candidates of the initial one; the first-place tiebreak on the initial profile is therefore a
       strict order of the group whose last entry is eliminated. *)
From VK Require Import Base Core STV Pairwise Rules.
From VK.Spec Require Import ScoreSpec TieSpec PairwiseSpec STVSpec.
From VK.Proofs Require Import Lib_sets Elect C10_script C10_quiet C10_tiebreak C06_pairwise C06_tiers
  STV_lib STV_step STV_inv.
From Coq Require Import Permutation Lia.

Section Closed.
Variable cand : Type.
Variable ceqb : cand -> cand -> bool.
Hypothesis ceqb_spec : forall a b, reflect (a = b) (ceqb a b).

Notation cset := (cset cand).
Notation ranking := (ranking cand).
Notation profile := (profile cand).
Notation scores := (scores cand).
Notation mstate := (mstate cand).
Notation estate := (estate cand).
Notation flat := (flat cand).
Notation singletons := (singletons cand).
Notation tied_at := (tied_at cand).
Notation untied_profile := (untied_profile cand).
Notation wf_stv0 := (wf_stv0 cand).
Notation step_ctx := (step_ctx cand ceqb).

(* ------------------------------------------------------------------ *)
(** * (a) every dominating tier is a duplicate-free subset of the candidates *)

Lemma NoDup_concat_member : forall (ts : list (list cand)) g,
  NoDup (concat ts) -> In g ts -> NoDup g.
Proof.
  intros ts g Hnd Hg. apply in_split in Hg. destruct Hg as [a [b ->]].
  rewrite concat_app in Hnd. cbn [concat] in Hnd.
  apply NoDup_app_inv in Hnd. destruct Hnd as [_ [Hnd _]].
  apply NoDup_app_inv in Hnd. destruct Hnd as [Hnd _]. exact Hnd.
Qed.

Lemma tier_facts : forall (p : profile) (ts : ranking) g,
  untied_profile p -> dominating_tiers cand ceqb p = inl ts -> In g ts ->
  NoDup g /\ incl g (cands p).
Proof.
  intros p ts g Hu Hts Hg.
  destruct (c06_tiers_partition_proof cand ceqb ceqb_spec p Hu ts Hts) as [Hperm _].
  destruct Hu as [Hnd _]. split.
  - apply (NoDup_concat_member ts g); [|exact Hg].
    eapply Permutation_NoDup; [apply Permutation_sym; exact Hperm|exact Hnd].
  - intros c Hc. eapply Permutation_in; [exact Hperm|]. apply in_concat. exists g. split; assumption.
Qed.

Theorem c10_condo_closed_proof : forall m (p : profile) (s s' : mstate) s0 s1 g t,
  untied_profile p ->
  run_condo cand ceqb m p s = inl ([s0; s1], s') ->
  In (g, t) (tiebreaks s1) ->
  exists tiers pre post j l,
    dominating_tiers cand ceqb p = inl tiers /\ tiebreaks s1 = [(g, t)] /\
    tiebreak_set cand ceqb g (Some p) TBBorda s = inl (t, s') /\
    tiers = pre ++ g :: post /\ (2 <= length g)%nat /\
    (Z.of_nat (length (flat pre)) < m < Z.of_nat (length (flat pre) + length g))%Z /\
    j = (Z.to_nat m - length (flat pre))%nat /\
    elected s1 = pre ++ firstn j t /\ remaining s1 = skipn j t ++ post /\
    NoDup g /\ incl g (cands p) /\
    t = singletons l /\ Permutation l g /\ NoDup l.
Proof.
  intros m p s s' s0 s1 g t Hu H Hin.
  destruct (c10_condo_proof cand ceqb ceqb_spec m p s s' s0 s1 g t H Hin)
    as [tiers [pre [post [j [Htiers [Htb [Hset [Hsplit [Hg2 [Hm [Hj [Hel [Hrem Hlin]]]]]]]]]]]]].
  assert (Hgin : In g tiers) by (rewrite Hsplit; apply in_or_app; right; left; reflexivity).
  destruct (tier_facts p tiers g Hu Htiers Hgin) as [Hndg Hsub].
  destruct (Hlin (proj1 Hu) Hndg Hsub) as [l [Htl [Hpl Hndl]]].
  exists tiers, pre, post, j, l. repeat split; assumption || apply Hm.
Qed.

(* ------------------------------------------------------------------ *)
(** * (b) STV: the round context holds at every round of a run *)

(* what a recorded tiebreak (g, tt) of the round prev -> st means, at full strength; [t] is the
   threshold and [p0] the initial profile of the run *)
Definition stv_tie_full (cfg : stv_cfg) (t : Q) (p0 : profile) (prev st : estate)
           (g : cset) (tt : ranking) : Prop :=
  tiebreaks st = [(g, tt)] /\ (2 <= length g)%nat /\ NoDup g /\ incl g (cands p0) /\
  ((exists (pc : profile) (sa sb : mstate) post kind k,
      s_simul cfg = false /\ s_tiebreak cfg = Some kind /\ remaining prev = g :: post /\
      tied_at (escores prev) g k /\ t <= k /\ (forall c q, In (c, q) (escores prev) -> q <= k) /\
      tiebreak_set cand ceqb g (Some pc) kind sa = inl (tt, sb) /\
      elected st = firstn 1 tt /\ eliminated st = no_group cand /\
      exists l, tt = singletons l /\ Permutation l g /\ NoDup l)
   \/
   (exists (sa sb : mstate) rest x k l l',
      filter (fun q => Qle_bool t (snd q)) (escores prev) = [] /\
      rev (remaining prev) = g :: rest /\
      tied_at (escores prev) g k /\ (forall c q, In (c, q) (escores prev) -> k <= q) /\
      tiebreak_set cand ceqb g (Some p0) TBFirstPlace sa = inl (tt, sb) /\
      eliminated st = [[x]] /\ elected st = no_group cand /\
      tt = singletons l /\ Permutation l g /\ NoDup l /\ l = l' ++ [x])).

Lemma stv_step_full : forall cfg t p0 n (p : profile) prev (s s' : mstate) np st g tt,
  s_transfer cfg <> TRandom -> step_ctx p0 p prev ->
  stv_step cand ceqb cfg t p0 n p prev s = inl ((np, st), s') ->
  In (g, tt) (tiebreaks st) -> stv_tie_full cfg t p0 prev st g tt.
Proof.
  intros cfg t p0 n p prev s s' np st g tt Hk Hctx Hstep Hin.
  pose proof (ctx_rem cand ceqb p0 p prev Hctx) as Hrem.
  pose proof (ctx_keys cand ceqb p0 p prev Hctx) as Hkeys.
  pose proof (ctx_nd_cs cand ceqb p0 p prev Hctx) as Hnd.
  assert (Hnd0 : NoDup (cands p0)) by (apply (ctx_p0 cand ceqb p0 p prev Hctx)).
  assert (Hsub : forall g0, In g0 (remaining prev) -> NoDup g0 /\ incl g0 (cands p0)).
  { intros g0 Hg0. split.
    - apply (NoDup_concat_member (remaining prev) g0); [|exact Hg0].
      apply (ctx_flat_nd cand ceqb p0 p prev Hctx).
    - intros c Hc. apply (ctx_sub cand ceqb p0 p prev Hctx).
      apply (ctx_group_in cand ceqb p0 p prev Hctx g0 c Hg0 Hc). }
  destruct (c10_stv_step_proof cand ceqb ceqb_spec cfg t p0 n p prev s s' np st g tt
              Hk Hrem Hkeys Hnd Hstep Hin) as [H1 [H2 [H3|H3]]].
  - destruct H3 as [post [kind [k [Ha [Hb [Hc H3]]]]]].
    assert (Hg : In g (remaining prev)) by (rewrite Hc; left; reflexivity).
    destruct (Hsub g Hg) as [Hndg Hincl].
    split; [exact H1|]. split; [exact H2|]. split; [exact Hndg|]. split; [exact Hincl|].
    left. exists p, s, s', post, kind, k. split; [exact Ha|]. split; [exact Hb|]. split; [exact Hc|exact H3].
  - destruct H3 as [rest [x [k [Ha [Hb [Hc [Hd [He [_ [Hf [Hg Hlin]]]]]]]]]]].
    assert (Hgin : In g (remaining prev)) by (apply in_rev; rewrite Hb; left; reflexivity).
    destruct (Hsub g Hgin) as [Hndg Hincl].
    destruct (Hlin Hnd0 Hincl) as [l [l' [Htl [Hpl [Hndl Hl]]]]].
    split; [exact H1|]. split; [exact H2|]. split; [exact Hndg|]. split; [exact Hincl|].
    right. exists s, s', rest, x, k, l, l'. unfold above_quota in Ha. repeat split; assumption.
Qed.

Theorem c10_stv_closed_proof : forall cfg (p : profile) (s s' : mstate) sts,
  s_transfer cfg <> TRandom -> wf_stv0 p ->
  run_stv cand ceqb cfg p s = inl (sts, s') ->
  exists t, stv_init cand cfg p = inl t /\
  forall l1 prev st l2 g tt, sts = l1 ++ prev :: st :: l2 -> In (g, tt) (tiebreaks st) ->
    stv_tie_full cfg t p prev st g tt.
Proof.
  intros cfg p s s' sts Hk Hwf H. apply C10_quiet.run_stv_inv in H.
  destruct H as [t [s0 [newer [Ht [H0 [-> Hsteps]]]]]]. exists t. split; [exact Ht|].
  set (R := fun prev st => forall g tt, In (g, tt) (tiebreaks st) -> stv_tie_full cfg t p prev st g tt).
  assert (Hchain : chain cand R s0 newer).
  { apply (steps_chain cand ceqb cfg t p (fun pc prev => step_ctx p pc prev) R)
      with (p := p) (sts := [s0]) (s := s) (s' := s') (older := []);
      [|exact Hsteps|reflexivity|].
    - intros pc n prev sa sb np st Hctx Hstep. split.
      + intros g tt Hin. eapply stv_step_full; eassumption.
      + apply (stv_step_wf cand ceqb ceqb_spec cfg t p pc prev Hctx n sa sb np st); [|exact Hstep].
        intros Hr. contradiction.
    - destruct (initial_state_inv cand ceqb p s0 H0) as [Hst _].
      constructor; [exact Hwf|apply incl_refl|exact Hwf|exact Hst]. }
  intros l1 prev st l2 g tt Heq Hin. exact (chain_split cand R newer s0 Hchain l1 prev st l2 Heq g tt Hin).
Qed.

End Closed.
