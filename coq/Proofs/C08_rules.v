(* Proofs/C08_rules.v — property C08, anonymity / representation independence of the remaining
   rules of Model/Rules.v on their deterministic paths: elect_cands_from_set_ranking with a
   tiebreak rule, the one-shot rules with a tiebreak rule, DominatingSets, CondoBorda, the rating
   family, TopTwo and Alaska.  Built on C08_anon (measure argument), C08_stv (the STV family) and
   C08_pairwise (the pairwise layer). *)
From Coq Require Import List ZArith QArith Bool Permutation Lia Lqa Setoid Morphisms.
From VK Require Import Base Core STV Pairwise Rules.
From VK.Spec Require Import Content ScoreSpec EditSpec Anon PairwiseSpec AnonRules.
From VK.Proofs Require Import Lib_sets Lib_content Lib_condense C11_condense C04_scoring C12_edit
  C08_anon C08_stv C08_pairwise.
Import ListNotations.
Open Scope Q_scope.

(* ------------------------------------------------------------------ *)
(** * Generic list facts *)

Lemma Forall2_firstn : forall {A B} (R : A -> B -> Prop) n l l',
  Forall2 R l l' -> Forall2 R (firstn n l) (firstn n l').
Proof.
  intros A B R n. induction n as [|n IH]; intros l l' H; [constructor|].
  destruct H as [|a b l l' Hab H]; cbn [firstn]; constructor; auto.
Qed.

Lemma Forall2_skipn : forall {A B} (R : A -> B -> Prop) n l l',
  Forall2 R l l' -> Forall2 R (skipn n l) (skipn n l').
Proof.
  intros A B R n. induction n as [|n IH]; intros l l' H; [exact H|].
  destruct H as [|a b l l' Hab H]; cbn [skipn]; [constructor|auto].
Qed.

Lemma Forall2_tl : forall {A B} (R : A -> B -> Prop) l l',
  Forall2 R l l' -> Forall2 R (tl l) (tl l').
Proof. intros A B R l l' H. destruct H; cbn [tl]; [constructor|assumption]. Qed.

Section RulesAnon.
Variable cand : Type.
Variable ceqb : cand -> cand -> bool.
Hypothesis ceqb_spec : forall a b, reflect (a = b) (ceqb a b).

Notation cset := (cset cand).
Notation ranking := (ranking cand).
Notation scores := (scores cand).
Notation ballot := (ballot cand).
Notation profile := (profile cand).
Notation mstate := (mstate cand).
Notation estate := (estate cand).
Notation same := (same_content cand ceqb).
Notation wtof := (wtof cand ceqb).
Notation dist_eq := (dist_eq cand ceqb).
Notation memb := (memb cand ceqb).
Notation flat := (flat cand).
Notation nonneg_wts := (nonneg_wts cand).
Notation groups_equiv := (groups_equiv cand).
Notation scores_equiv := (scores_equiv cand).
Notation tiebreak_equiv := (tiebreak_equiv cand).
Notation state_equiv := (state_equiv cand).
Notation profile_equiv := (profile_equiv cand ceqb).
Notation wf_profile := (wf_profile cand).
Notation seteq := (seteq cand).
Notation dom := (one_shot_domain cand).
Notation stv_domain := (stv_domain cand).
Notation stv_state_ok := (stv_state_ok cand).
Notation pw_domain := (pw_domain cand).
Notation mres_equiv := (mres_equiv cand).
Notation mres_at := (mres_at cand).
Notation elect_equiv_tb := (elect_equiv_tb cand).
Notation det_tiebreak := (det_tiebreak cand).
Notation rating_domain := (rating_domain cand).
Notation rating_ballot_ok := (rating_ballot_ok cand).
Notation score_fn := (score_fn cand ceqb).
Notation remove_cand_prof := (remove_cand_prof cand ceqb).

(* ------------------------------------------------------------------ *)
(** * Score dictionaries *)

Lemma scores_eqb_equiv : forall d d' : scores, NoDup (map fst d) -> NoDup (map fst d') ->
  scores_eqb cand ceqb d d' = true -> scores_equiv d d'.
Proof.
  intros d d' Hn Hn' H. apply (scores_eqb_iff cand ceqb ceqb_spec) in H. destruct H as [H1 H2]. split.
  - apply NoDup_Permutation; try assumption. intros c. split; intros Hc.
    + destruct (in_keys_pair cand d c Hc) as [q Hq]. destruct (H1 _ Hq) as [[c' q'] [Hq' [E _]]].
      cbn [fst] in E. subst c'. apply (in_map fst) in Hq'. exact Hq'.
    + destruct (in_keys_pair cand d' c Hc) as [q Hq]. destruct (H2 _ Hq) as [[c' q'] [Hq' [E _]]].
      cbn [fst] in E. subst c'. apply (in_map fst) in Hq'. exact Hq'.
  - intros c q q' Hq Hq'. destruct (H1 _ Hq) as [[c2 q2] [Hq2 [E Hv]]]. cbn [fst snd] in E, Hv. subst c2.
    rewrite (NoDup_keys_functional cand d' c q' q2 Hn' Hq' Hq2). exact Hv.
Qed.

(* a sum over the values of a dictionary only sees the dictionary as a function *)
Lemma scores_equiv_qsum : forall (F F' : Q -> Q) (d d' : scores),
  NoDup (map fst d) -> NoDup (map fst d') -> scores_equiv d d' ->
  (forall q q', q == q' -> F q == F' q') ->
  qsum (map (fun x => F (snd x)) d) == qsum (map (fun x => F' (snd x)) d').
Proof.
  intros F F' d d' Hn Hn' He HF.
  assert (E : forall (G : Q -> Q) (e : scores), NoDup (map fst e) ->
            qsum (map (fun x => G (snd x)) e)
            = qsum (map (fun c => G (lookup0 cand ceqb c e)) (map fst e))).
  { intros G e Hne. rewrite map_map. f_equal. apply map_ext_in. intros [c q] Hin. cbn [fst snd].
    rewrite (lookup0_in cand ceqb ceqb_spec e c q Hne Hin). reflexivity. }
  rewrite (E F d Hn), (E F' d' Hn').
  transitivity (qsum (map (fun c => F (lookup0 cand ceqb c d)) (map fst d'))).
  - apply Lib_content.qsum_perm. apply Permutation_map. apply He.
  - apply qsum_map_ext_in. intros c _. apply HF.
    apply (lookup0_equiv cand ceqb ceqb_spec); assumption.
Qed.

(* ------------------------------------------------------------------ *)
(** * elect_cands_from_set_ranking with a tiebreak rule, empty draw script *)

Definition popt_ok (p p' : option profile) : Prop :=
  match p, p' with
  | Some a, Some b => wf_profile a /\ wf_profile b /\ profile_equiv a b
  | None, None => True
  | _, _ => False
  end.

Lemma tiebreak_scored_at : forall (d d' : scores) (g g' : cset) (s : mstate),
  scr s = [] -> NoDup (map fst d) -> NoDup (map fst d') -> scores_equiv d d' -> Permutation g g' ->
  mres_at s groups_equiv
    ((let d1 := filter (fun q : cand * Q => memb (fst q) g) d in
      let r := score_to_ranking cand d1 true in
      if existsb (fun x : list cand => Nat.ltb 1 (length x)) r then random_break cand ceqb r else mret r) s)
    ((let d1 := filter (fun q : cand * Q => memb (fst q) g') d' in
      let r := score_to_ranking cand d1 true in
      if existsb (fun x : list cand => Nat.ltb 1 (length x)) r then random_break cand ceqb r else mret r) s).
Proof.
  intros d d' g g' s Hs Hn Hn' H Hp. cbv zeta.
  set (d1 := filter (fun q : cand * Q => memb (fst q) g) d).
  set (d1' := filter (fun q : cand * Q => memb (fst q) g') d').
  assert (H1 : scores_equiv d1 d1').
  { apply (scores_equiv_filter cand (fun c => memb c g) (fun c => memb c g')); [|exact H].
    intros c. apply (memb_seteq cand ceqb ceqb_spec). apply perm_seteq. exact Hp. }
  pose proof (ranking_of_scores cand d1 d1' true (NoDup_keys_filter cand d _ Hn)
                (NoDup_keys_filter cand d' _ Hn') H1) as Hr.
  rewrite <- (existsb_big_equiv cand _ _ Hr).
  destruct (existsb (fun x : list cand => Nat.ltb 1 (length x)) (score_to_ranking cand d1 true)) eqn:Eb.
  - rewrite (random_break_empty cand ceqb _ s Hs Eb).
    rewrite (existsb_big_equiv cand _ _ Hr) in Eb. rewrite (random_break_empty cand ceqb _ s Hs Eb).
    exact eq_refl.
  - cbn. split; [exact Hr|split; reflexivity].
Qed.

Lemma tiebreak_set_at : forall (g g' : cset) (p p' : option profile) (k : tb_kind) (s : mstate),
  scr s = [] -> popt_ok p p' -> Permutation g g' ->
  mres_at s groups_equiv (tiebreak_set cand ceqb g p k s) (tiebreak_set cand ceqb g' p' k s).
Proof.
  intros g g' p p' k s Hs Hp Hg.
  assert (Hscored : forall (sf : profile -> res scores) (a b : profile),
            wf_profile a -> wf_profile b -> res_equiv scores_equiv (sf a) (sf b) ->
            (forall x d, sf x = inl d -> map fst d = cands x) ->
            mres_at s groups_equiv
              (mbind (mlift (sf a)) (fun d =>
                 let d' := filter (fun q : cand * Q => memb (fst q) g) d in
                 let r := score_to_ranking cand d' true in
                 if existsb (fun x : list cand => Nat.ltb 1 (length x)) r
                 then random_break cand ceqb r else mret r) s)
              (mbind (mlift (sf b)) (fun d =>
                 let d' := filter (fun q : cand * Q => memb (fst q) g') d in
                 let r := score_to_ranking cand d' true in
                 if existsb (fun x : list cand => Nat.ltb 1 (length x)) r
                 then random_break cand ceqb r else mret r) s)).
  { intros sf a b Ha Hb H Hk. unfold mbind, mlift.
    destruct (sf a) as [d|e] eqn:E; destruct (sf b) as [d'|e'] eqn:E';
      cbn [res_equiv] in H; try contradiction; [|subst e'; exact eq_refl].
    cbn [ok]. apply tiebreak_scored_at; try assumption.
    - rewrite (Hk a d E). apply Ha.
    - rewrite (Hk b d' E'). apply Hb. }
  destruct k; cbn [Core.tiebreak_set].
  - unfold mbind, Core.draw_perm, mbind, Core.next_draw. rewrite Hs. exact eq_refl.
  - destruct p as [a|]; destruct p' as [b|]; cbn [popt_ok] in Hp; try contradiction; [|exact eq_refl].
    destruct Hp as [Ha [Hb He]]. apply (Hscored (first_place_votes cand ceqb)); try assumption.
    + apply (first_place_votes_anonymous cand ceqb ceqb_spec); assumption.
    + intros x d E. apply (score_rankings_keys cand ceqb x _ d E).
  - destruct p as [a|]; destruct p' as [b|]; cbn [popt_ok] in Hp; try contradiction; [|exact eq_refl].
    destruct Hp as [Ha [Hb He]]. apply (Hscored (borda_scores cand ceqb)); try assumption.
    + apply (borda_scores_anonymous cand ceqb ceqb_spec); assumption.
    + intros x d E. apply (score_rankings_keys cand ceqb x _ d E).
  - exact eq_refl.
Qed.

Lemma elect_loop_at : forall r r', groups_equiv r r' ->
  forall need acc acc' p p' tb (s : mstate), groups_equiv acc acc' ->
  (tb = None \/ (scr s = [] /\ popt_ok p p')) ->
  mres_at s elect_equiv_tb (elect_loop cand ceqb r need acc p tb s)
                           (elect_loop cand ceqb r' need acc' p' tb s).
Proof.
  intros r r' H. induction H as [|g g' r r' Hg Hr IH]; intros need acc acc' p p' tb s Hacc Hdet.
  - destruct need as [|n]; cbn [Core.elect_loop].
    + cbn. split; [|split; reflexivity]. split; [apply Forall2_rev; exact Hacc|]. split; [constructor|exact I].
    + exact eq_refl.
  - destruct need as [|n]; cbn [Core.elect_loop].
    + cbn. split; [|split; reflexivity]. split; [apply Forall2_rev; exact Hacc|].
      split; [constructor; assumption|exact I].
    + rewrite <- (Permutation_length Hg). destruct (Nat.leb (length g) (S n)).
      * apply IH; [constructor; assumption|exact Hdet].
      * destruct tb as [k|]; [|exact eq_refl].
        destruct Hdet as [Hd|[Hs Hp]]; [discriminate|].
        apply (mbind_at cand groups_equiv).
        -- apply tiebreak_set_at; assumption.
        -- intros t t' Ht. cbn -[firstn skipn]. split; [|split; reflexivity]. split; [|split].
           ++ apply Forall2_app; [apply Forall2_rev; exact Hacc|apply Forall2_firstn; exact Ht].
           ++ apply Forall2_app; [apply Forall2_skipn; exact Ht|exact Hr].
           ++ split; cbn [fst snd]; assumption.
Qed.

Theorem elect_top_m_at : forall r r' m p p' tb (s : mstate), groups_equiv r r' ->
  (tb = None \/ (scr s = [] /\ popt_ok p p')) ->
  mres_at s elect_equiv_tb (elect_top_m cand ceqb r m p tb s) (elect_top_m cand ceqb r' m p' tb s).
Proof.
  intros r r' m p p' tb s H Hdet. unfold Core.elect_top_m, Core.ranking_size.
  rewrite <- (Permutation_length (groups_equiv_flat cand r r' H)).
  destruct (m <? 1)%Z; [exact eq_refl|].
  destruct (Z.of_nat (length (flat r)) <? m)%Z; [exact eq_refl|].
  apply elect_loop_at; [exact H|constructor|exact Hdet].
Qed.

(* the same, stated with the vocabulary of Spec/ only *)
Theorem elect_top_m_tiebreak_anonymous : forall r r' m (p p' : profile) tb (s : mstate),
  groups_equiv r r' -> scr s = [] -> wf_profile p -> wf_profile p' -> profile_equiv p p' ->
  mres_equiv elect_equiv_tb (elect_top_m cand ceqb r m (Some p) tb s)
                            (elect_top_m cand ceqb r' m (Some p') tb s).
Proof.
  intros r r' m p p' tb s Hr Hs Hw Hw' He. apply (mres_at_equiv cand s).
  apply elect_top_m_at; [exact Hr|]. right. split; [exact Hs|]. cbn [popt_ok].
  split; [exact Hw|split; [exact Hw'|exact He]].
Qed.

(* ------------------------------------------------------------------ *)
(** * One-shot rules, tiebreak rule allowed (deterministic path) *)

Lemma det_popt : forall k tb (s : mstate) p p', det_tiebreak k tb s -> dom k p -> dom k p' ->
  profile_equiv p p' -> tb = None \/ (scr s = [] /\ popt_ok (Some p) (Some p')).
Proof.
  intros k tb s p p' [H|[Hk Hs]] Hd Hd' He; [left; exact H|right].
  split; [exact Hs|]. cbn [popt_ok].
  destruct k; cbn in Hk; try contradiction;
    (split; [apply Hd|split; [apply Hd'|exact He]]).
Qed.

Definition step_rel (k : score_kind) (x y : profile * estate) : Prop :=
  profile_equiv (fst x) (fst y) /\ state_equiv (snd x) (snd y) /\ dom k (fst x) /\ dom k (fst y).

Lemma perm_flat_seteq : forall el el' : ranking, groups_equiv el el' -> seteq (flat el) (flat el').
Proof. intros el el' H. apply perm_seteq. apply (groups_equiv_flat cand). exact H. Qed.

Lemma opt_tb_list : forall t t' : option (cset * ranking), opt_tiebreak_equiv cand t t' ->
  Forall2 tiebreak_equiv (match t with Some x => [x] | None => [] end)
                         (match t' with Some x => [x] | None => [] end).
Proof.
  intros [x|] [y|] H; cbn in H; try contradiction; [constructor; [exact H|constructor]|constructor].
Qed.

Lemma one_shot_step_at : forall k m tb p p' (prev prev' : estate) (s : mstate),
  det_tiebreak k tb s -> dom k p -> dom k p' -> profile_equiv p p' ->
  groups_equiv (remaining prev) (remaining prev') ->
  mres_at s (step_rel k) (one_shot_step cand ceqb k m tb p prev s)
                         (one_shot_step cand ceqb k m tb p' prev' s).
Proof.
  intros k m tb p p' prev prev' s Hdet Hd Hd' He Hrem. unfold Rules.one_shot_step.
  apply (mbind_at cand elect_equiv_tb).
  - apply elect_top_m_at; [exact Hrem|]. apply (det_popt k); assumption.
  - intros [[el rem] t] [[el' rem'] t'] [Hel [Hrm Ht]]. cbn [fst snd] in Hel, Hrm, Ht.
    destruct (remove_cand_prof_anonymous cand ceqb ceqb_spec (flat el) (flat el') p p'
                (dom_nodup cand k p Hd) (dom_nodup cand k p' Hd')
                (dom_nonneg cand k p Hd) (dom_nonneg cand k p' Hd')
                (perm_flat_seteq el el' Hel) He) as [np [np' [Enp [Enp' Hnp]]]].
    unfold mbind, mlift. rewrite Enp, Enp'. cbn [ok].
    pose proof (dom_remove cand ceqb ceqb_spec k _ p np Hd Enp) as Hdn.
    pose proof (dom_remove cand ceqb ceqb_spec k _ p' np' Hd' Enp') as Hdn'.
    pose proof (score_fn_anonymous cand ceqb ceqb_spec k np np' Hdn Hdn' Hnp) as H2.
    destruct (score_fn k np) as [d1|e2]; destruct (score_fn k np') as [d1'|e2'];
      cbn [res_equiv] in H2; try contradiction; [|subst e2'; exact eq_refl].
    cbn. split; [|split; reflexivity].
    split; [exact Hnp|]. split; [|split; assumption].
    repeat split; cbn [rnd remaining elected eliminated tiebreaks escores];
      try apply no_group_equiv; try assumption; try apply H2.
    apply opt_tb_list. exact Ht.
Qed.

Lemma round0_anonymous : forall k p p', dom k p -> dom k p' -> profile_equiv p p' ->
  res_equiv state_equiv (round0 cand ceqb k p) (round0 cand ceqb k p').
Proof.
  intros k p p' Hd Hd' He. unfold Rules.round0.
  pose proof (score_fn_anonymous cand ceqb ceqb_spec k p p' Hd Hd' He) as H0.
  destruct (score_fn k p) as [d|e] eqn:Ed; destruct (score_fn k p') as [d'|e'] eqn:Ed';
    cbn [res_equiv] in H0; try contradiction; cbn [rbind ok res_equiv]; [|exact H0].
  assert (Hk : NoDup (map fst d)) by (rewrite (score_fn_keys cand ceqb k p d Ed); apply (dom_nodup cand k p Hd)).
  assert (Hk' : NoDup (map fst d')) by (rewrite (score_fn_keys cand ceqb k p' d' Ed'); apply (dom_nodup cand k p' Hd')).
  unfold STV.state_of_scores.
  repeat split; cbn [rnd remaining elected eliminated tiebreaks escores];
    try apply no_group_equiv; try apply H0; [|constructor].
  apply (ranking_of_scores cand); assumption.
Qed.

Definition two_states (x y : list estate) : Prop :=
  exists a0 a1 b0 b1, x = [a0; a1] /\ y = [b0; b1] /\ state_equiv a0 b0 /\ state_equiv a1 b1.

Lemma two_states_Forall2 : forall x y, two_states x y -> Forall2 state_equiv x y.
Proof.
  intros x y [a0 [a1 [b0 [b1 [-> [-> [H0 H1]]]]]]]. constructor; [exact H0|constructor; [exact H1|constructor]].
Qed.

Theorem run_one_shot_at : forall k m tb p p' (s : mstate),
  det_tiebreak k tb s -> dom k p -> dom k p' -> profile_equiv p p' ->
  mres_at s two_states (run_one_shot cand ceqb k m tb p s) (run_one_shot cand ceqb k m tb p' s).
Proof.
  intros k m tb p p' s Hdet Hd Hd' He. unfold Rules.run_one_shot.
  apply (mbind_at cand state_equiv).
  - apply mlift_at. apply round0_anonymous; assumption.
  - intros s0 s0' H0. apply (mbind_at cand (step_rel k)).
    + apply one_shot_step_at; try assumption. apply H0.
    + intros [np s1] [np' s1'] [_ [H1 _]]. cbn [fst snd] in H1. cbn. split; [|split; reflexivity].
      exists s0, s1, s0', s1'. split; [reflexivity|split; [reflexivity|split; assumption]].
Qed.

Theorem one_shot_tiebreak_anonymous : forall k m tb p p' (s : mstate),
  det_tiebreak k tb s -> dom k p -> dom k p' -> profile_equiv p p' ->
  mres_equiv (Forall2 state_equiv) (run_one_shot cand ceqb k m tb p s) (run_one_shot cand ceqb k m tb p' s).
Proof.
  intros k m tb p p' s Hdet Hd Hd' He. apply (mres_at_equiv cand s).
  pose proof (run_one_shot_at k m tb p p' s Hdet Hd Hd' He) as H.
  destruct (run_one_shot cand ceqb k m tb p s) as [[x s1]|e];
  destruct (run_one_shot cand ceqb k m tb p' s) as [[y s1']|e']; cbn in H |- *; try contradiction; [|exact H].
  destruct H as [H Hs]. split; [apply two_states_Forall2; exact H|exact Hs].
Qed.

Lemma dom_wf : forall k p, ranked_kind k -> dom k p -> wf_profile p.
Proof. intros k p Hk Hd. destruct k; cbn in Hk; try contradiction; apply Hd. Qed.

Theorem run_plurality_at : forall m tb p p' (s : mstate),
  det_tiebreak SKFpv tb s -> dom SKFpv p -> dom SKFpv p' -> profile_equiv p p' ->
  mres_at s two_states (run_plurality cand ceqb m tb p s) (run_plurality cand ceqb m tb p' s).
Proof.
  intros m tb p p' s Hdet Hd Hd' He. unfold Rules.run_plurality, mbind, mlift.
  rewrite (ranking_validate_wf cand p (proj1 (proj2 Hd))), (ranking_validate_wf cand p' (proj1 (proj2 Hd'))).
  cbn [ok]. apply run_one_shot_at; assumption.
Qed.

Lemma mres_at_weaken : forall {A} (R R' : A -> A -> Prop) (s : mstate) x y,
  (forall a b, R a b -> R' a b) -> mres_at s R x y -> mres_at s R' x y.
Proof.
  intros A R R' s x y HR H. unfold C08_stv.mres_at in *.
  destruct x as [[a s1]|e]; destruct y as [[b s2]|e']; cbn in H |- *; try contradiction; [|exact H].
  destruct H as [H Hs]. split; [apply HR; exact H|exact Hs].
Qed.

(* Plurality / SNTV and Borda as dispatched, any tiebreak rule, empty draw script *)
Theorem plurality_tiebreak_anonymous : forall m tb p p' (s : mstate),
  det_tiebreak SKFpv tb s -> dom SKFpv p -> dom SKFpv p' -> profile_equiv p p' ->
  mres_equiv (Forall2 state_equiv) (run_rule cand ceqb (RPlurality m tb) p s)
                                   (run_rule cand ceqb (RPlurality m tb) p' s).
Proof.
  intros m tb p p' s Hdet Hd Hd' He. cbn [Rules.run_rule]. apply (mres_at_equiv cand s).
  apply (mres_at_weaken two_states); [apply two_states_Forall2|]. apply run_plurality_at; assumption.
Qed.

Theorem borda_tiebreak_anonymous : forall m v tb p p' (s : mstate),
  det_tiebreak SKBorda tb s -> dom SKBorda p -> dom SKBorda p' -> profile_equiv p p' ->
  mres_equiv (Forall2 state_equiv) (run_rule cand ceqb (RBorda m v tb) p s)
                                   (run_rule cand ceqb (RBorda m v tb) p' s).
Proof.
  intros m v tb p p' s Hdet Hd Hd' He. cbn [Rules.run_rule]. unfold Rules.default_borda.
  rewrite <- (Permutation_length (proj2 He)).
  set (v' := match v with Some (x :: l) => x :: l | _ => borda_vector (length (cands p)) end).
  unfold mbind, mlift. destruct (validate_vector v') as [[]|e]; [|exact eq_refl].
  cbn [ok]. rewrite (ranking_validate_wf cand p (proj1 (proj2 Hd))), (ranking_validate_wf cand p' (proj1 (proj2 Hd'))).
  cbn [ok]. apply one_shot_tiebreak_anonymous.
  - destruct Hdet as [H|[_ H]]; [left; exact H|right; split; [exact I|exact H]].
  - split; [apply Hd|apply (proj2 Hd)].
  - split; [apply Hd'|apply (proj2 Hd')].
  - exact He.
Qed.

(* ------------------------------------------------------------------ *)
(** * DominatingSets and CondoBorda *)

Theorem dominating_anonymous : forall p p' (s : mstate),
  pw_domain p -> pw_domain p' -> profile_equiv p p' ->
  mres_equiv (Forall2 state_equiv) (run_rule cand ceqb RDominating p s) (run_rule cand ceqb RDominating p' s).
Proof.
  intros p p' s Hd Hd' He. cbn [Rules.run_rule]. apply (mres_at_equiv cand s).
  unfold Rules.run_dominating, mbind, mlift.
  rewrite (ranking_validate_wf cand p (proj1 Hd)), (ranking_validate_wf cand p' (proj1 Hd')). cbn [ok].
  pose proof (dominating_tiers_anonymous cand ceqb ceqb_spec p p' Hd Hd' He) as Ht.
  destruct (dominating_tiers cand ceqb p) as [t|e]; destruct (dominating_tiers cand ceqb p') as [t'|e'];
    cbn [res_equiv] in Ht; try contradiction; [|subst e'; exact eq_refl].
  cbn [ok]. destruct Ht as [|top top' rest rest' Htop Hrest]; [exact eq_refl|].
  rewrite (C08_anon.remove_cand_prof_ok cand ceqb ceqb_spec top p (proj1 (proj1 Hd))).
  rewrite (C08_anon.remove_cand_prof_ok cand ceqb ceqb_spec top' p' (proj1 (proj1 Hd'))).
  cbn. split; [|split; reflexivity].
  constructor; [|constructor; [|constructor]].
  - unfold Rules.all_tied_state.
    repeat split; cbn [rnd remaining elected eliminated tiebreaks escores];
      try apply no_group_equiv; try constructor; try apply perm_nil; try constructor.
    + apply He.
    + intros c q q' [].
  - repeat split; cbn [rnd remaining elected eliminated tiebreaks escores];
      try apply no_group_equiv; try assumption; try constructor; try assumption; try constructor.
    intros c q q' [].
Qed.

Theorem condo_anonymous : forall m p p' (s : mstate), scr s = [] ->
  dom SKBorda p -> dom SKBorda p' -> profile_equiv p p' ->
  mres_equiv (Forall2 state_equiv) (run_rule cand ceqb (RCondoBorda m) p s)
                                   (run_rule cand ceqb (RCondoBorda m) p' s).
Proof.
  intros m p p' s Hs Hd Hd' He. cbn [Rules.run_rule]. apply (mres_at_equiv cand s).
  assert (Hw : wf_profile p) by apply Hd. assert (Hw' : wf_profile p') by apply Hd'.
  assert (Hpw : pw_domain p) by (split; [exact Hw|apply Hd]).
  assert (Hpw' : pw_domain p') by (split; [exact Hw'|apply Hd']).
  unfold Rules.run_condo.
  unfold mbind at 1. unfold mlift at 1. unfold mbind at 2. unfold mlift at 2.
  rewrite (ranking_validate_wf cand p Hw), (ranking_validate_wf cand p' Hw'). cbn [ok].
  apply (mbind_at cand state_equiv).
  - apply mlift_at. apply round0_anonymous; assumption.
  - intros s0 s0' H0. apply (mbind_at cand (step_rel SKBorda)).
    + unfold Rules.condo_step. apply (mbind_at cand groups_equiv).
      * apply mlift_at. apply (dominating_tiers_anonymous cand ceqb ceqb_spec); assumption.
      * intros t t' Ht. apply (mbind_at cand elect_equiv_tb).
        -- apply elect_top_m_at; [exact Ht|]. right. split; [exact Hs|]. cbn [popt_ok].
           split; [exact Hw|split; [exact Hw'|exact He]].
        -- intros [[el rem] tb] [[el' rem'] tb'] [Hel [Hrm Htb]]. cbn [fst snd] in Hel, Hrm, Htb.
           destruct (remove_cand_prof_anonymous cand ceqb ceqb_spec (flat el) (flat el') p p'
                       (dom_nodup cand _ p Hd) (dom_nodup cand _ p' Hd')
                       (dom_nonneg cand _ p Hd) (dom_nonneg cand _ p' Hd')
                       (perm_flat_seteq el el' Hel) He) as [np [np' [Enp [Enp' Hnp]]]].
           unfold mbind, mlift. rewrite Enp, Enp'. cbn [ok].
           pose proof (dom_remove cand ceqb ceqb_spec SKBorda _ p np Hd Enp) as Hdn.
           pose proof (dom_remove cand ceqb ceqb_spec SKBorda _ p' np' Hd' Enp') as Hdn'.
           pose proof (borda_scores_anonymous cand ceqb ceqb_spec np np' (proj1 (proj2 Hdn)) (proj1 (proj2 Hdn')) Hnp) as H2.
           destruct (borda_scores cand ceqb np) as [d1|e2]; destruct (borda_scores cand ceqb np') as [d1'|e2'];
             cbn [res_equiv] in H2; try contradiction; [|subst e2'; exact eq_refl].
           cbn. split; [|split; reflexivity].
           split; [exact Hnp|]. split; [|split; assumption].
           repeat split; cbn [rnd remaining elected eliminated tiebreaks escores];
             try apply no_group_equiv; try assumption; try apply H2.
           apply opt_tb_list. exact Htb.
    + intros [np s1] [np' s1'] [_ [H1 _]]. cbn [fst snd] in H1. cbn. split; [|split; reflexivity].
      constructor; [exact H0|constructor; [exact H1|constructor]].
Qed.

(* ------------------------------------------------------------------ *)
(** * The rating family (GeneralRating, Rating, Limited, Cumulative, Approval, BlocPlurality) *)

Definition rcheck (L : Q) (k : option Q) (b : ballot) : res unit :=
  match sc b with
  | [] => err EType
  | d =>
      if existsb (fun q => Qlt_bool L (snd q)) d then err EType
      else if existsb (fun q => Qlt_bool (snd q) 0) d then err EType
      else match k with
           | Some k' => if Qlt_bool k' (qsum (map snd d)) then err EType else ok tt
           | None => ok tt
           end
  end.

Definition rcheckd (L : Q) (k : option Q) (d : scores) : bool :=
  negb (existsb (fun q => Qlt_bool L (snd q)) d) &&
  negb (existsb (fun q => Qlt_bool (snd q) 0) d) &&
  match k with Some k' => negb (Qlt_bool k' (qsum (map snd d))) | None => true end.

Lemma rating_validate_unfold : forall L k p,
  rating_validate cand L k p = rfirst_err (rcheck L k) (ballots p).
Proof. reflexivity. Qed.

Lemma rcheck_spec : forall L k b, sc b <> [] ->
  rcheck L k b = if rcheckd L k (sc b) then inl tt else inr EType.
Proof.
  intros L k b H. unfold rcheck, rcheckd. destruct (sc b) as [|q0 d0]; [exfalso; apply H; reflexivity|].
  destruct (existsb (fun q : cand * Q => Qlt_bool L (snd q)) (q0 :: d0)); [reflexivity|].
  destruct (existsb (fun q : cand * Q => Qlt_bool (snd q) 0) (q0 :: d0)); [reflexivity|].
  destruct k as [k'|]; [|reflexivity].
  destruct (Qlt_bool k' (qsum (map snd (q0 :: d0)))); reflexivity.
Qed.

Lemma rfirst_err_bool : forall (f : ballot -> res unit) (g : ballot -> bool) (l : list ballot),
  (forall b, In b l -> f b = if g b then inl tt else inr EType) ->
  rfirst_err f l = if forallb g l then inl tt else inr EType.
Proof.
  intros f g l. induction l as [|a l IH]; intros H; [reflexivity|].
  cbn [rfirst_err forallb]. rewrite (H a (or_introl eq_refl)).
  destruct (g a); cbn [rbind andb]; [|reflexivity].
  apply IH. intros b Hb. apply H. right. exact Hb.
Qed.

Lemma rating_validate_bool : forall L k p, wf_rated_profile cand p ->
  rating_validate cand L k p =
  if forallb (fun b => rcheckd L k (sc b)) (ballots p) then inl tt else inr EType.
Proof.
  intros L k p [_ Hb]. rewrite rating_validate_unfold. apply rfirst_err_bool.
  intros b Hin. apply rcheck_spec. rewrite Forall_forall in Hb. apply (Hb b Hin).
Qed.

Lemma existsb_scores_equiv : forall (f : Q -> bool) (d d' : scores),
  (forall q q', q == q' -> f q = f q') -> scores_equiv d d' ->
  existsb (fun x => f (snd x)) d = existsb (fun x => f (snd x)) d'.
Proof.
  assert (Hone : forall (f : Q -> bool) (d d' : scores),
            (forall q q', q == q' -> f q = f q') -> scores_equiv d d' ->
            existsb (fun x => f (snd x)) d = true -> existsb (fun x => f (snd x)) d' = true).
  { intros f d d' Hf He H. apply existsb_exists in H. destruct H as [[c q] [Hin Hq]]. cbn [snd] in Hq.
    destruct (scores_equiv_partner cand d d' c q He Hin) as [q' [Hin' Hqq]].
    apply existsb_exists. exists (c, q'). split; [exact Hin'|]. cbn [snd].
    rewrite <- (Hf q q' Hqq). exact Hq. }
  intros f d d' Hf He. apply eq_true_iff_eq. split; apply Hone; try assumption.
  apply scores_equiv_sym. exact He.
Qed.

Lemma rcheckd_equiv : forall L k (d d' : scores), NoDup (map fst d) -> NoDup (map fst d') ->
  scores_equiv d d' -> rcheckd L k d = rcheckd L k d'.
Proof.
  intros L k d d' Hn Hn' He. unfold rcheckd.
  rewrite (existsb_scores_equiv (fun q => Qlt_bool L q) d d');
    [|intros q q' Hq; apply Qlt_bool_comp; [reflexivity|exact Hq]|exact He].
  rewrite (existsb_scores_equiv (fun q => Qlt_bool q 0) d d');
    [|intros q q' Hq; apply Qlt_bool_comp; [exact Hq|reflexivity]|exact He].
  destruct k as [k'|]; [|reflexivity].
  assert (E : qsum (map snd d) == qsum (map snd d')).
  { change (map snd d) with (map (fun x : cand * Q => (fun q : Q => q) (snd x)) d).
    change (map snd d') with (map (fun x : cand * Q => (fun q : Q => q) (snd x)) d').
    apply scores_equiv_qsum; try assumption. intros q q' Hq. exact Hq. }
  rewrite (Qlt_bool_comp k' k' _ _ (Qeq_refl k') E). reflexivity.
Qed.

Lemma rcheckd_valid : forall L k b, rating_ballot_ok L k b -> rcheckd L k (sc b) = true.
Proof.
  intros L k b [Hr Hk]. unfold rcheckd.
  assert (E1 : existsb (fun q : cand * Q => Qlt_bool L (snd q)) (sc b) = false).
  { apply not_true_is_false. intros H. apply existsb_exists in H. destruct H as [[c q] [Hin Hq]].
    cbn [snd] in Hq. apply C04_scoring.Qlt_bool_iff in Hq. destruct (Hr c q Hin). lra. }
  assert (E2 : existsb (fun q : cand * Q => Qlt_bool (snd q) 0) (sc b) = false).
  { apply not_true_is_false. intros H. apply existsb_exists in H. destruct H as [[c q] [Hin Hq]].
    cbn [snd] in Hq. apply C04_scoring.Qlt_bool_iff in Hq. destruct (Hr c q Hin). lra. }
  rewrite E1, E2. cbn [negb andb]. destruct k as [k'|]; [|reflexivity].
  apply negb_true_iff. apply C04_scoring.Qlt_bool_false_iff. exact Hk.
Qed.

Lemma rating_pass_transfer : forall L k p p',
  rating_domain L k p -> rating_domain L k p' -> dist_eq (ballots p) (ballots p') ->
  forallb (fun b => rcheckd L k (sc b)) (ballots p') = true ->
  forallb (fun b => rcheckd L k (sc b)) (ballots p) = true.
Proof.
  intros L k p p' [[Hn [Hnd Hw]] Hz] [[Hn' [Hnd' Hw']] _] Hde H.
  rewrite forallb_forall in H |- *. intros b Hb.
  rewrite Forall_forall in Hz, Hw, Hw'.
  destruct (Qlt_le_dec 0 (wt b)) as [Hpos|Hle].
  - pose proof (wtof_ge_member cand ceqb b b (ballots p) Hn Hb
                  (Lib_content.same_refl cand ceqb ceqb_spec b)) as Hge.
    assert (Hp' : 0 < wtof b (ballots p')) by (rewrite <- (Hde b); lra).
    destruct (wtof_pos_member cand ceqb b (ballots p') Hn' Hp') as [x [Hx [Hs _]]].
    destruct (Hw b Hb) as [_ [_ [Hk _]]]. destruct (Hw' x Hx) as [_ [_ [Hk' _]]].
    rewrite (rcheckd_equiv L k (sc b) (sc x) Hk Hk').
    + apply H. exact Hx.
    + apply scores_eqb_equiv; try assumption. apply (same_sc cand ceqb b x Hs).
  - apply rcheckd_valid. apply (Hz b Hb).
    unfold Anon.nonneg_wts in Hn. rewrite Forall_forall in Hn. pose proof (Hn b Hb). lra.
Qed.

Theorem rating_validate_anonymous : forall L k p p',
  rating_domain L k p -> rating_domain L k p' -> profile_equiv p p' ->
  rating_validate cand L k p = rating_validate cand L k p'.
Proof.
  intros L k p p' Hd Hd' [Hde _].
  rewrite (rating_validate_bool L k p (proj2 (proj1 Hd))), (rating_validate_bool L k p' (proj2 (proj1 Hd'))).
  assert (E : forallb (fun b : ballot => rcheckd L k (sc b)) (ballots p)
            = forallb (fun b : ballot => rcheckd L k (sc b)) (ballots p')).
  { apply eq_true_iff_eq. split.
    - apply (rating_pass_transfer L k p' p); try assumption. apply (dist_eq_sym cand ceqb). exact Hde.
    - apply (rating_pass_transfer L k p p'); assumption. }
  rewrite E. reflexivity.
Qed.

Theorem run_rating_anonymous : forall m L k p p' (s : mstate),
  rating_domain L k p -> rating_domain L k p' -> profile_equiv p p' ->
  mres_equiv (Forall2 state_equiv) (run_rating cand ceqb m L k None p s) (run_rating cand ceqb m L k None p' s).
Proof.
  intros m L k p p' s Hd Hd' He. unfold Rules.run_rating, mbind, mlift.
  destruct (rating_args m L k) as [[]|e]; [|exact eq_refl]. cbn [ok].
  rewrite (rating_validate_anonymous L k p p' Hd Hd' He).
  destruct (rating_validate cand L k p') as [[]|e]; [|exact eq_refl]. cbn [ok].
  apply (one_shot_anonymous cand ceqb ceqb_spec); [apply Hd|apply Hd'|exact He].
Qed.

Theorem rating_rule_anonymous : forall m L k p p' (s : mstate),
  rating_domain L k p -> rating_domain L k p' -> profile_equiv p p' ->
  mres_equiv (Forall2 state_equiv) (run_rule cand ceqb (RRating m L k None) p s)
                                   (run_rule cand ceqb (RRating m L k None) p' s).
Proof. intros. cbn [Rules.run_rule]. apply run_rating_anonymous; assumption. Qed.

Theorem limited_rule_anonymous : forall m k p p' (s : mstate),
  rating_domain k (Some k) p -> rating_domain k (Some k) p' -> profile_equiv p p' ->
  mres_equiv (Forall2 state_equiv) (run_rule cand ceqb (RLimited m k None) p s)
                                   (run_rule cand ceqb (RLimited m k None) p' s).
Proof.
  intros. cbn [Rules.run_rule]. destruct (Qlt_bool (inject_Z m) k); [exact eq_refl|].
  apply run_rating_anonymous; assumption.
Qed.

Theorem bloc_rule_anonymous : forall m k p p' (s : mstate),
  rating_domain 1 (Some (inject_Z (bloc_limit m k))) p ->
  rating_domain 1 (Some (inject_Z (bloc_limit m k))) p' -> profile_equiv p p' ->
  mres_equiv (Forall2 state_equiv) (run_rule cand ceqb (RBloc m k None) p s)
                                   (run_rule cand ceqb (RBloc m k None) p' s).
Proof. intros. cbn [Rules.run_rule]. apply run_rating_anonymous; assumption. Qed.

(* ------------------------------------------------------------------ *)
(** * TopTwo and Alaska *)

Lemma real_groups_equiv : forall r r' : ranking, groups_equiv r r' ->
  groups_equiv (real_groups cand r) (real_groups cand r').
Proof.
  intros r r' H. destruct H as [|g g' r r' Hg Hr]; [constructor|].
  destruct Hr as [|g2 g2' r r' Hg2 Hr].
  - destruct g as [|c g].
    + apply Permutation_nil in Hg. subst g'. constructor.
    + destruct g' as [|c' g']; [apply Permutation_sym, Permutation_nil in Hg; discriminate|].
      cbn [STV.real_groups]. constructor; [exact Hg|constructor].
  - destruct g; destruct g'; cbn [STV.real_groups]; constructor; try assumption; constructor; assumption.
Qed.

(* the first stage: also records that the next profile is the current one with candidates removed *)
Definition stage_rel (p p' : profile) (x y : profile * estate) : Prop :=
  step_rel SKFpv x y /\
  (exists W, remove_cand_prof W true false p = inl (fst x)) /\
  (exists W, remove_cand_prof W true false p' = inl (fst y)).

Lemma plurality_stage_at : forall m tb p p' (prev prev' : estate) (s : mstate),
  det_tiebreak SKFpv tb s -> dom SKFpv p -> dom SKFpv p' -> profile_equiv p p' ->
  rnd prev = rnd prev' ->
  mres_at s (stage_rel p p') (plurality_stage cand ceqb m tb p prev s)
                             (plurality_stage cand ceqb m tb p' prev' s).
Proof.
  intros m tb p p' prev prev' s Hdet Hd Hd' He Hrnd. unfold Rules.plurality_stage.
  apply (mbind_at cand two_states).
  - apply run_plurality_at; assumption.
  - intros x y [a0 [a1 [b0 [b1 [-> [-> [_ H1]]]]]]].
    destruct H1 as [_ [Hrem [Hel [_ [Htb _]]]]].
    destruct (remove_cand_prof_anonymous cand ceqb ceqb_spec (flat (remaining a1)) (flat (remaining b1)) p p'
                (dom_nodup cand _ p Hd) (dom_nodup cand _ p' Hd')
                (dom_nonneg cand _ p Hd) (dom_nonneg cand _ p' Hd')
                (perm_flat_seteq _ _ Hrem) He) as [np [np' [Enp [Enp' Hnp]]]].
    unfold mbind, mlift. rewrite Enp, Enp'. cbn [ok].
    pose proof (dom_remove cand ceqb ceqb_spec SKFpv _ p np Hd Enp) as Hdn.
    pose proof (dom_remove cand ceqb ceqb_spec SKFpv _ p' np' Hd' Enp') as Hdn'.
    pose proof (first_place_votes_anonymous cand ceqb ceqb_spec np np' (proj1 (proj2 Hdn)) (proj1 (proj2 Hdn')) Hnp) as H2.
    destruct (first_place_votes cand ceqb np) as [d1|e2]; destruct (first_place_votes cand ceqb np') as [d1'|e2'];
      cbn [res_equiv] in H2; try contradiction; [|subst e2'; exact eq_refl].
    cbn. split; [|split; reflexivity].
    split; [|split; [exists (flat (remaining a1)); exact Enp|exists (flat (remaining b1)); exact Enp']].
    split; [exact Hnp|]. split; [|split; assumption].
    repeat split; cbn [rnd remaining elected eliminated tiebreaks escores];
      try apply no_group_equiv; try assumption; try apply H2.
    + rewrite Hrnd. reflexivity.
    + apply real_groups_equiv. exact Hel.
Qed.

Lemma unit_bind_at : forall {B} (R : B -> B -> Prop) (x y : res unit) (f g : unit -> M cand B) (s : mstate),
  x = y -> (x = inl tt -> mres_at s R (f tt s) (g tt s)) ->
  mres_at s R (mbind (mlift x) f s) (mbind (mlift y) g s).
Proof.
  intros B R x y f g s <- H. unfold mbind, mlift. destruct x as [[]|e]; [|exact eq_refl].
  cbn [ok]. apply H. reflexivity.
Qed.

Lemma eq_bind_at : forall {A B} (R : B -> B -> Prop) (x y : res A) (f g : A -> M cand B) (s : mstate),
  x = y -> (forall a, y = inl a -> mres_at s R (f a s) (g a s)) ->
  mres_at s R (mbind (mlift x) f s) (mbind (mlift y) g s).
Proof.
  intros A B R x y f g s <- H. unfold mbind, mlift. destruct x as [a|e]; [|exact eq_refl].
  cbn [ok]. apply H. reflexivity.
Qed.

Theorem toptwo_anonymous : forall tb p p' (s : mstate),
  det_tiebreak SKFpv tb s -> dom SKFpv p -> dom SKFpv p' -> profile_equiv p p' ->
  mres_equiv (Forall2 state_equiv) (run_rule cand ceqb (RTopTwo tb) p s) (run_rule cand ceqb (RTopTwo tb) p' s).
Proof.
  intros tb p p' s Hdet Hd Hd' He. cbn [Rules.run_rule]. apply (mres_at_equiv cand s).
  unfold Rules.run_toptwo. apply unit_bind_at.
  { rewrite (ranking_validate_wf cand p (proj1 (proj2 Hd))), (ranking_validate_wf cand p' (proj1 (proj2 Hd'))).
    reflexivity. }
  intros _. apply (mbind_at cand state_equiv).
  { apply mlift_at. apply round0_anonymous; assumption. }
  intros s0 s0' H0. apply (mbind_at cand (stage_rel p p')).
  { apply plurality_stage_at; try assumption. apply H0. }
  intros [p1 s1] [p1' s1'] [[Hp1 [Hs1 [Hd1 Hd1']]] _]. cbn [fst snd] in Hp1, Hs1, Hd1, Hd1'.
  apply (mbind_at cand two_states).
  { apply run_plurality_at; assumption. }
  intros x y [q0 [q1 [r0 [r1 [-> [-> [Hq0 Hq1]]]]]]].
  apply (mbind_at cand (step_rel SKFpv)).
  { apply one_shot_step_at; try assumption. apply Hq0. }
  intros _ _ _. cbn. split; [|split; reflexivity].
  constructor; [exact H0|constructor; [exact Hs1|constructor; [|constructor]]].
  destruct Hq1 as [_ [A [B [C [D E]]]]].
  repeat split; cbn [rnd remaining elected eliminated tiebreaks escores]; try assumption; apply E.
Qed.

(* ---- the get_profile replay that Alaska performs after its STV stage ---- *)

Lemma count_elected_cons : forall (x : estate) l,
  count_elected cand (x :: l)
  = (Z.of_nat (length (flat (real_groups cand (elected x)))) + count_elected cand l)%Z.
Proof.
  intros x l. unfold STV.count_elected. cbn [map concat].
  rewrite (flat_app cand), app_length, Nat2Z.inj_add. reflexivity.
Qed.

Lemma count_elected_perm : forall a b : list estate, Permutation a b ->
  count_elected cand a = count_elected cand b.
Proof.
  intros a b H. induction H as [|x l l' _ IH|x y l|l l' l'' _ IH1 _ IH2].
  - reflexivity.
  - rewrite !count_elected_cons, IH. reflexivity.
  - rewrite !count_elected_cons. lia.
  - congruence.
Qed.

Lemma state_equiv_refl : forall st : estate, NoDup (map fst (escores st)) -> state_equiv st st.
Proof.
  intros st H. repeat split; try apply (groups_equiv_refl cand).
  - induction (tiebreaks st) as [|t l IH]; constructor; [|exact IH].
    split; [apply Permutation_refl|apply (groups_equiv_refl cand)].
  - apply Permutation_refl.
  - intros c q q' Hq Hq'. rewrite (NoDup_keys_functional cand _ c q q' H Hq Hq'). reflexivity.
Qed.

Lemma profile_equiv_refl : forall p : profile, profile_equiv p p.
Proof. intros p. split; [apply (dist_eq_refl cand ceqb)|apply Permutation_refl]. Qed.

Lemma stv_loop_replay : forall fuel cfg t p0 (s : mstate),
  s_tiebreak cfg = None -> s_transfer cfg <> TRandom -> scr s = [] -> stv_domain p0 ->
  forall p prev l out s', stv_domain p -> stv_state_ok p prev ->
  stv_loop cand ceqb fuel cfg t p0 p (prev :: l) s = inl (out, s') ->
  s' = s /\ exists more pf, out = rev l ++ prev :: more /\
    stv_replay cand ceqb cfg t p0 (rev l) p (removelast (prev :: more)) s = inl (pf, s).
Proof.
  intros fuel cfg t p0 s Htb Htr Hs Hd0.
  assert (Hstop : forall p prev l out s',
            mret (rev (prev :: l)) s = inl (out, s') ->
            s' = s /\ exists more pf, out = rev l ++ prev :: more /\
              stv_replay cand ceqb cfg t p0 (rev l) p (removelast (prev :: more)) s = inl (pf, s)).
  { intros p prev l out s' H. unfold mret, ok in H. injection H as <- <-.
    split; [reflexivity|]. exists [], p. split; reflexivity. }
  induction fuel as [|fuel IH]; intros p prev l out s' Hd Hok H; cbn [STV.stv_loop] in H.
  - destruct (count_elected cand (prev :: l) =? s_m cfg)%Z; [apply (Hstop p); exact H|discriminate].
  - destruct (count_elected cand (prev :: l) =? s_m cfg)%Z; [apply (Hstop p); exact H|].
    unfold mbind in H.
    assert (Hkeys : NoDup (map fst (escores prev))) by (rewrite (proj1 Hok); apply Hd).
    pose proof (stv_step_at cand ceqb ceqb_spec cfg t p0 p0 (count_elected cand (prev :: l)) p p prev prev s
                  Htb Htr Hs Hd0 Hd0 (profile_equiv_refl p0) Hd Hd (profile_equiv_refl p) Hok Hok
                  (state_equiv_refl prev Hkeys)) as Hst.
    destruct (stv_step cand ceqb cfg t p0 (count_elected cand (prev :: l)) p prev s) as [[[np st] s1]|e] eqn:E;
      [|discriminate].
    cbn in Hst. destruct Hst as [[_ [_ [Hdn [_ [Hokn _]]]]] [Hs1 _]]. subst s1.
    destruct (IH np st (prev :: l) out s' Hdn Hokn H) as [-> [more [pf [Eo Hr]]]].
    split; [reflexivity|]. exists (st :: more), pf. split.
    + rewrite Eo. cbn [rev]. rewrite <- app_assoc. reflexivity.
    + change (removelast (prev :: st :: more)) with (prev :: removelast (st :: more)).
      cbn [Rules.stv_replay]. unfold mbind.
      rewrite (count_elected_perm (rev l ++ [prev]) (prev :: l)
                 (Permutation_sym (Permutation_rev (prev :: l)))), E.
      cbn [rev] in Hr. exact Hr.
Qed.

Lemma stv_run_replay : forall cfg t p (s : mstate) sts s',
  s_tiebreak cfg = None -> s_transfer cfg <> TRandom -> scr s = [] -> stv_domain p ->
  stv_init cand cfg p = inl t -> run_stv cand ceqb cfg p s = inl (sts, s') ->
  s' = s /\ exists pf, stv_replay cand ceqb cfg t p [] p (removelast sts) s = inl (pf, s).
Proof.
  intros cfg t p s sts s' Htb Htr Hs Hd Ht H. unfold STV.run_stv, mbind, mlift in H. rewrite Ht in H.
  cbn [ok] in H.
  pose proof (initial_state_anonymous cand ceqb ceqb_spec p p Hd Hd (profile_equiv_refl p)) as H0.
  destruct (initial_state cand ceqb p) as [s0|e]; [|discriminate]. cbn [res_equiv ok] in H0, H.
  destruct H0 as [_ [Hok _]].
  destruct (stv_loop_replay _ cfg t p s Htb Htr Hs Hd p s0 [] sts s' Hd Hok H) as [-> [more [pf [-> Hr]]]].
  split; [reflexivity|]. exists pf. exact Hr.
Qed.

Lemma stv_domain_remove : forall W p np, stv_domain p ->
  remove_cand_prof W true false p = inl np -> stv_domain np.
Proof.
  intros W p np Hd H. rewrite (remove_cand_prof_next cand ceqb ceqb_spec W p (proj1 Hd)) in H.
  injection H as <-. apply (next_profile_domain cand ceqb ceqb_spec); apply Hd.
Qed.

Lemma stv_domain_dom : forall p, stv_domain p -> dom SKFpv p.
Proof.
  intros p Hd. split; [apply (domain_nonneg cand p Hd)|].
  split; [apply (domain_wf cand p Hd)|apply (domain_sf cand p Hd)].
Qed.

Lemma bump_equiv : forall st st' : estate, state_equiv st st' -> state_equiv (bump cand st) (bump cand st').
Proof.
  intros st st' [A [B [C [D [E F]]]]]. unfold Rules.bump.
  repeat split; cbn [rnd remaining elected eliminated tiebreaks escores]; try assumption; try apply F.
  rewrite A. reflexivity.
Qed.

Theorem alaska_anonymous : forall m1 m2 cfg p p' (s : mstate),
  s_tiebreak cfg = None -> s_transfer cfg <> TRandom -> scr s = [] ->
  stv_domain p -> stv_domain p' -> profile_equiv p p' ->
  mres_equiv (Forall2 state_equiv) (run_rule cand ceqb (RAlaska m1 m2 cfg) p s)
                                   (run_rule cand ceqb (RAlaska m1 m2 cfg) p' s).
Proof.
  intros m1 m2 cfg p p' s Htb Htr Hs Hd Hd' He. cbn [Rules.run_rule]. apply (mres_at_equiv cand s).
  pose proof (stv_domain_dom p Hd) as Hdo. pose proof (stv_domain_dom p' Hd') as Hdo'.
  unfold Rules.run_alaska. apply unit_bind_at; [reflexivity|]. intros _.
  apply unit_bind_at.
  { rewrite (ranking_validate_wf cand p (proj1 (proj2 Hdo))), (ranking_validate_wf cand p' (proj1 (proj2 Hdo'))).
    reflexivity. }
  intros _. apply (mbind_at cand state_equiv).
  { apply mlift_at. apply round0_anonymous; assumption. }
  intros s0 s0' H0. apply (mbind_at cand (stage_rel p p')).
  { apply plurality_stage_at; try assumption; [left; exact Htb|apply H0]. }
  intros [p1 s1] [p1' s1'] [[Hp1 [Hs1 _]] [[W HW] [W' HW']]]. cbn [fst snd] in Hp1, Hs1, HW, HW'.
  pose proof (stv_domain_remove W p p1 Hd HW) as Hd1.
  pose proof (stv_domain_remove W' p' p1' Hd' HW') as Hd1'.
  cbv zeta.
  assert (Htb2 : s_tiebreak (with_m cfg m2) = None) by exact Htb.
  assert (Htr2 : s_transfer (with_m cfg m2) <> TRandom) by exact Htr.
  apply eq_bind_at.
  { apply (stv_init_anonymous cand ceqb ceqb_spec (with_m cfg m2) p1 p1' Hd1 Hd1' Hp1 (fun H => False_ind _ (Htr2 H))). }
  intros t Et.
  assert (Et1 : stv_init cand (with_m cfg m2) p1 = inl t).
  { rewrite (stv_init_anonymous cand ceqb ceqb_spec (with_m cfg m2) p1 p1' Hd1 Hd1' Hp1 (fun H => False_ind _ (Htr2 H))). exact Et. }
  pose proof (run_stv_anonymous cand ceqb ceqb_spec (with_m cfg m2) p1 p1' s Htb2 Htr2 Hs Hd1 Hd1' Hp1) as Hrun.
  unfold mbind.
  destruct (run_stv cand ceqb (with_m cfg m2) p1 s) as [[sts sa]|e] eqn:E1;
  destruct (run_stv cand ceqb (with_m cfg m2) p1' s) as [[sts' sa']|e'] eqn:E1';
    cbn in Hrun; try contradiction; [|subst e'; exact eq_refl].
  destruct Hrun as [Hsts _].
  destruct (stv_run_replay (with_m cfg m2) t p1 s sts sa Htb2 Htr2 Hs Hd1 Et1 E1) as [-> [pf R1]].
  destruct (stv_run_replay (with_m cfg m2) t p1' s sts' sa' Htb2 Htr2 Hs Hd1' Et E1') as [-> [pf' R1']].
  rewrite R1, R1'. cbn. split; [|split; reflexivity].
  constructor; [exact H0|constructor; [exact Hs1|]].
  apply (Forall2_map2 state_equiv state_equiv); [apply bump_equiv|]. apply Forall2_tl. exact Hsts.
Qed.

End RulesAnon.
