(* Proofs/C09_status.v — C09: the partition invariant [settled_once] (the hypothesis of
   c09_status_partition) holds for the records of every list of states whose queries partition a
   duplicate-free candidate list at every round — hence for the successful runs of every rule — so
   the status queries agree with the per-round records unconditionally; and the facts about
   Election.get_step (Model/Election2.v). *)
From Coq Require Import List ZArith QArith Bool Permutation Lia.
From VK Require Import Base Core STV Pairwise Rules PV Election Election2.
From VK.Spec Require Import ScoreSpec EditSpec RatingSpec STVSpec Anon TieSpec PairwiseSpec RunSpec
  QuerySpec StatusSpec.
From VK.Proofs Require Import Lib_sets C10_script C10_quiet C09_queries STV_inv STV_final C01_lib
  C01_rules C01_composite C01_dictator.
Import ListNotations.

Section Status.
Variable cand : Type.
Variable ceqb : cand -> cand -> bool.
Hypothesis ceqb_spec : forall a b, reflect (a = b) (ceqb a b).

Notation cset := (cset cand).
Notation ranking := (ranking cand).
Notation profile := (profile cand).
Notation estate := (estate cand).
Notation mstate := (mstate cand).
Notation flat := (flat cand).
Notation get_elected := (get_elected cand).
Notation get_eliminated := (get_eliminated cand).
Notation get_remaining := (get_remaining cand).
Notation get_ranking := (get_ranking cand).
Notation get_status := (get_status cand ceqb).
Notation get_profile := (get_profile cand ceqb).
Notation get_step := (get_step cand ceqb).
Notation elected_upto := (QuerySpec.elected_upto cand).
Notation eliminated_upto := (QuerySpec.eliminated_upto cand).
Notation is_sentinel := (is_sentinel cand).
Notation in_elected := (in_elected cand).
Notation in_eliminated := (in_eliminated cand).
Notation in_remaining := (in_remaining cand).
Notation touched := (touched cand).
Notation seen := (seen cand).
Notation settled_once := (settled_once cand).
Notation partitions := (partitions cand).
Notation status_agrees := (status_agrees cand ceqb).
Notation statuses_exclusive := (statuses_exclusive cand).
Notation all_settled := (all_settled cand).
Notation round0_blank := (round0_blank cand).
Notation consistent_statuses := (consistent_statuses cand ceqb).
Notation run_rule := (run_rule cand ceqb).

(* ------------------------------------------------------------------ *)
(** * lists *)

Lemma nodup3 : forall (a b c : list cand), NoDup (a ++ b ++ c) ->
  NoDup a /\ NoDup b /\ NoDup c /\
  (forall z, In z a -> ~ In z b) /\ (forall z, In z a -> ~ In z c) /\ (forall z, In z b -> ~ In z c).
Proof.
  intros a b c H. destruct (NoDup_app_inv _ _ H) as [Ha [Hbc Hd]].
  destruct (NoDup_app_inv _ _ Hbc) as [Hb [Hc Hd2]].
  split; [exact Ha|]. split; [exact Hb|]. split; [exact Hc|].
  split; [|split].
  - intros z Hz Hzb. apply (Hd z Hz). apply in_or_app. left. exact Hzb.
  - intros z Hz Hzc. apply (Hd z Hz). apply in_or_app. right. exact Hzc.
  - exact Hd2.
Qed.

Lemma nth_error_in_firstn : forall (l : list estate) j j' s, (j <= j')%nat ->
  nth_error l j = Some s -> In s (firstn (S j') l).
Proof.
  intros l j j' s Hj H. apply (nth_error_In (firstn (S j') l) j).
  rewrite nth_error_firstn_lt by lia. exact H.
Qed.

Lemma nth_error_mid : forall (l1 l2 : list estate) s, nth_error (l1 ++ s :: l2) (length l1) = Some s.
Proof. intros l1 l2 s. rewrite nth_error_app2 by lia. rewrite Nat.sub_diag. reflexivity. Qed.

(* ------------------------------------------------------------------ *)
(** * from the partition of the candidates to the invariant on the records *)

Section Partition.
Variable cs : cset.
Variable sts : list estate.
Hypothesis Hnd : NoDup cs.
Hypothesis Hpart : partitions cs sts.

Lemma part_perm : forall r s, nth_error sts r = Some s ->
  Permutation (flat (elected_upto sts r) ++ flat (remaining s) ++ flat (eliminated_upto sts r)) cs.
Proof.
  intros r s Hs. assert (Hlt : (r < length sts)%nat) by (apply nth_error_Some; congruence).
  destruct (Hpart r Hlt) as [e [m [x [[He [Hm Hx]] Hp]]]].
  rewrite (get_elected_at cand sts r Hlt) in He. rewrite (get_eliminated_at cand sts r Hlt) in Hx.
  rewrite (get_remaining_at cand sts r s Hs) in Hm.
  inversion He; inversion Hm; inversion Hx; subst. exact Hp.
Qed.

Lemma part_nodup : forall r s, nth_error sts r = Some s ->
  NoDup (flat (elected_upto sts r) ++ flat (remaining s) ++ flat (eliminated_upto sts r)).
Proof.
  intros r s Hs. eapply Permutation_NoDup; [apply Permutation_sym; exact (part_perm r s Hs)|exact Hnd].
Qed.

(* two different rounds cannot both elect (eliminate) the same candidate *)
Lemma elected_twice : forall j j' s s' c, (j < j')%nat ->
  nth_error sts j = Some s -> nth_error sts j' = Some s' ->
  in_elected c s -> in_elected c s' -> False.
Proof.
  intros j j' s s' c Hj Hs Hs' Hc Hc'. destruct j' as [|j'']; [lia|].
  destruct (nodup3 _ _ _ (part_nodup _ _ Hs')) as [HE _].
  rewrite (elected_upto_step cand sts j'' s' Hs'), flat_app in HE.
  destruct (NoDup_app_inv _ _ HE) as [_ [_ Hd]]. apply (Hd c).
  - apply in_elected_upto. exists s. split; [|exact Hc].
    apply (nth_error_in_firstn sts j j'' s); [lia|exact Hs].
  - destruct (is_sentinel (elected s')) eqn:E; [|exact Hc'].
    unfold QuerySpec.in_elected in Hc'. destruct (elected s') as [|[|a g] [|g' l]]; try discriminate.
    destruct Hc'.
Qed.

Lemma eliminated_twice : forall j j' s s' c, (j < j')%nat ->
  nth_error sts j = Some s -> nth_error sts j' = Some s' ->
  in_eliminated c s -> in_eliminated c s' -> False.
Proof.
  intros j j' s s' c Hj Hs Hs' Hc Hc'. destruct j' as [|j'']; [lia|].
  destruct (nodup3 _ _ _ (part_nodup _ _ Hs')) as [_ [_ [HX _]]].
  rewrite (eliminated_upto_step cand sts j'' s' Hs'), flat_app in HX.
  destruct (NoDup_app_inv _ _ HX) as [_ [_ Hd]]. apply (Hd c).
  - destruct (is_sentinel (eliminated s')) eqn:E.
    + unfold QuerySpec.in_eliminated in Hc'.
      destruct (eliminated s') as [|[|a g] [|g' l]]; try discriminate. destruct Hc'.
    + apply in_flat_rev. exact Hc'.
  - apply in_eliminated_upto. exists s. split; [|exact Hc].
    apply (nth_error_in_firstn sts j j'' s); [lia|exact Hs].
Qed.

(* once a round j has elected or eliminated c, no round j' >= j keeps c as remaining, and no
   later round names it at all *)
Lemma touched_then : forall j j' s s' c, (j <= j')%nat ->
  nth_error sts j = Some s -> nth_error sts j' = Some s' -> touched c s ->
  ~ in_remaining c s' /\ ((j < j')%nat -> ~ seen c s') /\
  (in_elected c s -> ~ in_eliminated c s') /\ (in_eliminated c s -> ~ in_elected c s').
Proof.
  intros j j' s s' c Hj Hs Hs' Ht.
  destruct (nodup3 _ _ _ (part_nodup _ _ Hs')) as [_ [_ [_ [Dem [Dex Dmx]]]]].
  assert (HinE : in_elected c s -> In c (flat (elected_upto sts j'))).
  { intros Hc. apply in_elected_upto. exists s. split; [|exact Hc].
    apply (nth_error_in_firstn sts j j' s); [lia|exact Hs]. }
  assert (HinX : in_eliminated c s -> In c (flat (eliminated_upto sts j'))).
  { intros Hc. apply in_eliminated_upto. exists s. split; [|exact Hc].
    apply (nth_error_in_firstn sts j j' s); [lia|exact Hs]. }
  assert (HownE : in_elected c s' -> In c (flat (elected_upto sts j'))).
  { intros Hc. apply in_elected_upto. exists s'. split; [|exact Hc].
    apply (nth_error_in_firstn sts j' j' s'); [lia|exact Hs']. }
  assert (HownX : in_eliminated c s' -> In c (flat (eliminated_upto sts j'))).
  { intros Hc. apply in_eliminated_upto. exists s'. split; [|exact Hc].
    apply (nth_error_in_firstn sts j' j' s'); [lia|exact Hs']. }
  assert (Hrem : ~ in_remaining c s').
  { intros Hr. destruct Ht as [Hc|Hc].
    - exact (Dem c (HinE Hc) Hr).
    - exact (Dmx c Hr (HinX Hc)). }
  assert (Hex : in_elected c s -> ~ in_eliminated c s').
  { intros Hc Hc'. exact (Dex c (HinE Hc) (HownX Hc')). }
  assert (Hxe : in_eliminated c s -> ~ in_elected c s').
  { intros Hc Hc'. exact (Dex c (HownE Hc') (HinX Hc)). }
  split; [exact Hrem|]. split; [|split; [exact Hex|exact Hxe]].
  intros Hlt [[He'|Hx']|Hr']; [| |exact (Hrem Hr')].
  - destruct Ht as [Hc|Hc].
    + exact (elected_twice j j' s s' c Hlt Hs Hs' Hc He').
    + exact (Hxe Hc He').
  - destruct Ht as [Hc|Hc].
    + exact (Hex Hc Hx').
    + exact (eliminated_twice j j' s s' c Hlt Hs Hs' Hc Hx').
Qed.

Theorem partition_all_settled : all_settled sts.
Proof.
  intros c l1 s l2 E Ht. destruct sts as [|s0 rest] eqn:Ests.
  { cbn [tl] in E. destruct l1; discriminate. }
  cbn [tl] in E. rewrite <- Ests in *.
  assert (Hs : nth_error sts (S (length l1)) = Some s).
  { rewrite Ests. cbn [nth_error]. rewrite E. apply nth_error_mid. }
  destruct (touched_then _ _ s s c (le_n _) Hs Hs Ht) as [Hrem [_ [Hex Hxe]]].
  split; [intros [Hc Hc']; exact (Hex Hc Hc')|]. split; [exact Hrem|].
  apply Forall_forall. intros s' Hin. apply in_split in Hin. destruct Hin as [a [b Eab]].
  assert (Hs' : nth_error sts (S (length l1) + S (length a)) = Some s').
  { rewrite Ests. replace (S (length l1) + S (length a))%nat with (S (length (l1 ++ s :: a))).
    - cbn [nth_error]. rewrite E, Eab.
      replace (l1 ++ s :: a ++ s' :: b) with ((l1 ++ s :: a) ++ s' :: b)
        by (rewrite <- app_assoc; reflexivity).
      apply nth_error_mid.
    - rewrite app_length. cbn [length]. lia. }
  destruct (touched_then (S (length l1)) (S (length l1) + S (length a)) s s' c ltac:(lia) Hs Hs' Ht)
    as [_ [Hseen _]].
  apply Hseen. lia.
Qed.

Lemma settled_firstn : forall c (l : list estate) r, settled_once c l -> settled_once c (firstn r l).
Proof.
  intros c l r H l1 s l2 E Ht.
  assert (El : l = l1 ++ s :: (l2 ++ skipn r l)).
  { rewrite <- (firstn_skipn r l) at 1. rewrite E, <- app_assoc. reflexivity. }
  destruct (H l1 s _ El Ht) as [H1 [H2 H3]]. split; [exact H1|]. split; [exact H2|].
  apply Forall_app in H3. exact (proj1 H3).
Qed.

Theorem partition_settled : forall c r, settled_once c (firstn r (tl sts)).
Proof. intros c r. apply settled_firstn. apply partition_all_settled. Qed.

Theorem partition_exclusive : statuses_exclusive sts.
Proof.
  intros r r' e x e' m' x' Hr Hr' He Hx He' Hm' Hx'.
  assert (Hlt : (r < length sts)%nat) by lia.
  destruct (nth_error sts r') as [s'|] eqn:Hs'; [|apply nth_error_None in Hs'; lia].
  rewrite (get_elected_at cand sts r Hlt) in He. rewrite (get_eliminated_at cand sts r Hlt) in Hx.
  rewrite (get_elected_at cand sts r' Hr') in He'. rewrite (get_eliminated_at cand sts r' Hr') in Hx'.
  rewrite (get_remaining_at cand sts r' s' Hs') in Hm'.
  inversion He; inversion Hx; inversion He'; inversion Hm'; inversion Hx'; subst. clear He Hx He' Hm' Hx'.
  pose proof (part_nodup r' s' Hs') as Hn. split; [exact Hn|].
  destruct (nodup3 _ _ _ Hn) as [_ [_ [_ [Dem [Dex Dmx]]]]].
  destruct (upto_monotone cand sts r r' Hr) as [[le Ee] [lx Ex]].
  split.
  - intros c Hc. assert (Hc' : In c (flat (elected_upto sts r'))).
    { rewrite Ee, flat_app. apply in_or_app. left. exact Hc. }
    split; [exact Hc'|]. split; [exact (Dem c Hc')|exact (Dex c Hc')].
  - intros c Hc. assert (Hc' : In c (flat (eliminated_upto sts r'))).
    { rewrite Ex, flat_app. apply in_or_app. right. exact Hc. }
    split; [exact Hc'|]. split.
    + intros Hm. exact (Dmx c Hm Hc').
    + intros He. exact (Dex c He Hc').
Qed.

Hypothesis H0 : round0_blank sts.

Theorem partition_status_agrees : status_agrees cs sts.
Proof.
  intros cs' i e m x t He Hm Hx Ht.
  destruct (in_range_dec (length sts) i) as [Hin|Hout].
  2:{ exfalso. destruct (out_of_range cand ceqb sts i) as [Hr _]. apply Hr in Hout. congruence. }
  destruct (cumulative_at_index cand ceqb sts i Hin) as [sr [Hsr [Ee [Ex [Em [_ Es]]]]]].
  rewrite Ee in He. rewrite Ex in Hx. rewrite Em in Hm. rewrite (Es cs') in Ht.
  inversion He; inversion Hx; inversion Hm; inversion Ht; subst. clear He Hx Hm Ht Es.
  set (r := round_of (length sts) i) in *.
  assert (Hlist : map fst
            (map (fun c => (c, status_scan cand ceqb (firstn r (tl sts)) 1%Z c (1, 0)%Z))
               (flat (filter nonempty (elected_upto sts r ++ remaining sr ++ eliminated_upto sts r))))
          = flat (elected_upto sts r) ++ flat (remaining sr) ++ flat (eliminated_upto sts r)).
  { rewrite map_map. cbn [fst]. rewrite map_id. unfold Core.flat at 1.
    rewrite concat_filter_nonempty. change (concat ?l) with (flat l). rewrite !flat_app. reflexivity. }
  split; [exact Hlist|]. split; [rewrite Hlist; exact (part_perm r sr Hsr)|].
  intros c code rd Hrow. apply in_map_iff in Hrow. destruct Hrow as [c' [Erow Hc']].
  inversion Erow; subst c'. clear Erow.
  destruct H0 as [s0 [rest [Ests [He0 Hx0]]]].
  assert (Hsr' : nth_error (s0 :: rest) r = Some sr) by (rewrite <- Ests; exact Hsr).
  assert (Hset : settled_once c (firstn r rest)).
  { pose proof (partition_settled c r) as Hs. rewrite Ests in Hs. exact Hs. }
  pose proof (status_partition cand ceqb ceqb_spec c s0 rest r sr He0 Hx0 Hsr' Hset) as P.
  cbv zeta in P. rewrite <- Ests in P. rewrite Ests in H2. cbn [tl] in H2. rewrite Ests. cbn [tl].
  rewrite <- Ests. rewrite H2 in P. cbn [fst snd] in P.
  destruct P as [P2 [P3 [Pm [P1 Pr]]]].
  unfold st_elected, st_eliminated, st_remaining.
  split; [exact P2|]. split; [exact P3|]. split; [|split].
  - split; [intros Hc; exact (P1 Hc Hc')|intros Hc; exact (proj1 (Pm Hc))].
  - intros Hc. exact (proj2 (Pm (P1 Hc Hc'))).
  - exact Pr.
Qed.

Theorem partition_consistent : consistent_statuses cs sts.
Proof.
  split; [exact H0|]. split; [exact partition_all_settled|].
  split; [exact partition_exclusive|exact partition_status_agrees].
Qed.

End Partition.

(* ------------------------------------------------------------------ *)
(** * every rule *)

Lemma round0_blank_fields : forall k (p : profile) s0, round0 cand ceqb k p = inl s0 ->
  flat (elected s0) = [] /\ flat (eliminated s0) = [].
Proof.
  intros k p s0 H. unfold Rules.round0 in H. destruct (score_fn cand ceqb k p) as [d|e]; [|discriminate].
  cbn [rbind] in H. unfold ok in H. inversion H; subst s0. split; reflexivity.
Qed.

Lemma stv_partitions : forall cfg (p : profile) (s s' : mstate) sts,
  wf_stv0 cand p -> (s_transfer cfg = TRandom -> script_ok cand s) ->
  run_stv cand ceqb cfg p s = inl (sts, s') -> partitions (cands p) sts.
Proof.
  intros cfg p s s' sts Hwf Hscr H r Hr.
  destruct (queries_upto cand sts r Hr) as [He [Hx [st [Hst Hm]]]].
  exists (STVSpec.elected_upto cand sts r), (remaining st), (STVSpec.eliminated_upto cand sts r).
  split; [split; [exact He|split; [exact Hm|exact Hx]]|].
  exact (run_stv_partition cand ceqb ceqb_spec cfg p s s' sts Hwf Hscr H r st Hst).
Qed.

Theorem rule_consistent_statuses : forall r (p : profile) (s s' : mstate) sts,
  rule_domain cand r p s -> run_rule r p s = inl (sts, s') ->
  consistent_statuses (cands p) sts.
Proof.
  intros r p s s' sts Hdom H.
  assert (Hone : forall k m tb, one_shot_kind cand r p = Some (k, m, tb) -> NoDup (cands p) ->
                 consistent_statuses (cands p) sts).
  { intros k m tb Hk Hnd.
    destruct (one_shot_rule_outcome cand ceqb ceqb_spec r p k m tb s sts s' Hk Hnd H)
      as [s0 [s1 [E [_ [_ [_ [_ [_ [_ Hp]]]]]]]]].
    destruct (run_rule_one_shot_inv cand ceqb r p k m tb s s' sts Hk H) as [q0 [np [q1 [E' [H0 _]]]]].
    apply partition_consistent; [exact Hnd|exact Hp|].
    exists q0, [q1]. split; [exact E'|exact (round0_blank_fields k p q0 H0)]. }
  destruct r; cbn [rule_domain] in Hdom.
  - (* STV *) destruct Hdom as [Hwf Hscr]. cbn [Rules.run_rule] in H.
    apply partition_consistent; [exact (proj1 Hwf)|exact (stv_partitions cfg p s s' sts Hwf Hscr H)|].
    destruct (C10_quiet.run_stv_inv cand ceqb cfg p s s' sts H) as [t [s0 [newer [_ [H0 [E _]]]]]].
    destruct (initial_state_inv cand ceqb p s0 H0) as [_ [He Hx]].
    exists s0, newer. split; [exact E|]. rewrite He, Hx. split; reflexivity.
  - exact (Hone _ _ _ eq_refl Hdom).
  - exact (Hone _ _ _ eq_refl Hdom).
  - exact (Hone _ _ _ eq_refl Hdom).
  - exact (Hone _ _ _ eq_refl Hdom).
  - exact (Hone _ _ _ eq_refl Hdom).
  - (* DominatingSets *)
    destruct (dominating_run cand ceqb ceqb_spec p s Hdom)
      as [top [rest [s0 [s1 [Ht [Hrun [_ [_ [_ [_ [_ [_ [_ Hp]]]]]]]]]]]]].
    rewrite Hrun in H. inversion H; subst sts s'. clear H.
    apply partition_consistent; [exact (proj1 Hdom)|exact Hp|].
    cbn [Rules.run_rule] in Hrun. unfold Rules.run_dominating in Hrun.
    apply mbind_lift_inv in Hrun. destruct Hrun as [u [_ Hrun]].
    apply mbind_lift_inv in Hrun. destruct Hrun as [t [Et Hrun]].
    destruct t as [|top' rest']; [discriminate|].
    apply mbind_lift_inv in Hrun. destruct Hrun as [np [_ Hrun]].
    unfold mret, ok in Hrun. inversion Hrun; subst s0 s1.
    eexists _, _. split; [reflexivity|]. split; reflexivity.
  - (* CondoBorda *)
    destruct (condoborda_run cand ceqb ceqb_spec m p s sts s' Hdom H)
      as [s0 [s1 [E [_ [_ [_ [_ [_ [_ Hp]]]]]]]]].
    cbn [Rules.run_rule] in H.
    destruct (C10_quiet.run_condo_inv cand ceqb m p s s' sts H) as [q0 [np [q1 [_ [H0 [_ E']]]]]].
    apply partition_consistent; [exact (proj1 Hdom)|exact Hp|].
    exists q0, [q1]. split; [exact E'|exact (round0_blank_fields _ p q0 H0)].
  - (* TopTwo *) cbn [Rules.run_rule] in H.
    destruct (toptwo_run_outcome cand ceqb ceqb_spec tb p s sts s' Hdom H)
      as (s0 & s1 & s2 & E & _ & _ & _ & _ & He0 & Hx0 & _ & _ & _ & _ & _ & _ & Hp).
    apply partition_consistent; [exact Hdom|exact Hp|].
    exists s0, [s1; s2]. split; [exact E|]. rewrite He0, Hx0. split; reflexivity.
  - (* Alaska *) destruct Hdom as [Hwf Hscr]. cbn [Rules.run_rule] in H.
    destruct (alaska_run_outcome cand ceqb ceqb_spec m1 m2 cfg p s sts s' Hwf Hscr H)
      as [_ [_ [_ [[s0 [s1 [rest [E [_ [He0 [Hx0 _]]]]]]] [_ Hp]]]]].
    apply partition_consistent; [exact (proj1 Hwf)|exact Hp|].
    exists s0, (s1 :: rest). split; [exact E|]. rewrite He0, Hx0. split; reflexivity.
  - (* RandomDictator *) cbn [Rules.run_rule] in H.
    destruct (dictator_run_outcome cand ceqb ceqb_spec false m p s sts s' Hdom H)
      as [_ [_ [_ [[s0 [rest [E [He0 [_ Hx]]]]] [_ Hp]]]]].
    apply partition_consistent; [exact (proj1 (proj1 Hdom))|exact Hp|].
    exists s0, rest. split; [exact E|]. rewrite E in Hx. inversion Hx as [|a l Hx0 _]; subst.
    rewrite He0, Hx0. split; reflexivity.
  - (* BoostedRandomDictator *) cbn [Rules.run_rule] in H.
    destruct (dictator_run_outcome cand ceqb ceqb_spec true m p s sts s' Hdom H)
      as [_ [_ [_ [[s0 [rest [E [He0 [_ Hx]]]]] [_ Hp]]]]].
    apply partition_consistent; [exact (proj1 (proj1 Hdom))|exact Hp|].
    exists s0, rest. split; [exact E|]. rewrite E in Hx. inversion Hx as [|a l Hx0 _]; subst.
    rewrite He0, Hx0. split; reflexivity.
Qed.

(* the wrapper classes run the rule they expand to *)
Lemma run_wrule_expand : forall w r (p : profile),
  expand w = Some r -> run_wrule cand ceqb w p = run_rule r p.
Proof.
  intros w r p H. destruct w; cbn [Election.expand] in H; try discriminate; inversion H; subst;
    reflexivity.
Qed.

Theorem wrule_consistent_statuses : forall w r (p : profile) (s s' : mstate) sts,
  expand w = Some r -> rule_domain cand r p s -> run_wrule cand ceqb w p s = inl (sts, s') ->
  consistent_statuses (cands p) sts.
Proof.
  intros w r p s s' sts Hw Hdom H. rewrite (run_wrule_expand w r p Hw) in H.
  exact (rule_consistent_statuses r p s s' sts Hdom H).
Qed.

(* ------------------------------------------------------------------ *)
(** * get_step = get_profile followed by Python indexing of the records *)

Lemma get_profile_ok_in_range : forall r (p : profile) (sts : list estate) i (s : mstate) a,
  get_profile r p sts i s = inl a -> in_range (length sts) i.
Proof.
  intros r p sts i s a H. destruct (in_range_dec (length sts) i) as [Hin|Hout]; [exact Hin|].
  destruct (out_of_range cand ceqb sts i) as [_ [_ [_ [_ [_ [Hp _]]]]]].
  rewrite (Hp Hout r p s) in H. discriminate.
Qed.

Theorem get_step_ok_iff : forall r (p : profile) (sts : list estate) i (s : mstate) np st s',
  get_step r p sts i s = inl ((np, st), s') <->
  get_profile r p sts i s = inl (np, s') /\
  nth_error sts (round_of (length sts) i) = Some st.
Proof.
  intros r p sts i s np st s'. unfold Election2.get_step. split.
  - intros H. destruct (get_profile r p sts i s) as [[np' s1]|e] eqn:Eg; [|discriminate].
    pose proof (get_profile_ok_in_range r p sts i s _ Eg) as Hin.
    destruct (norm_index_in _ _ Hin) as [En _]. rewrite En in H.
    destruct (nth_error sts (round_of (length sts) i)) as [st'|]; [|discriminate].
    inversion H; subst. split; reflexivity.
  - intros [Hg Hn]. rewrite Hg.
    destruct (norm_index_in _ _ (get_profile_ok_in_range r p sts i s _ Hg)) as [En _].
    rewrite En, Hn. reflexivity.
Qed.

Theorem get_step_err_iff : forall r (p : profile) (sts : list estate) i (s : mstate) e,
  get_step r p sts i s = inr e <-> get_profile r p sts i s = inr e.
Proof.
  intros r p sts i s e. unfold Election2.get_step. split.
  - intros H. destruct (get_profile r p sts i s) as [[np' s1]|e'] eqn:Eg; [|inversion H; reflexivity].
    exfalso. pose proof (get_profile_ok_in_range r p sts i s _ Eg) as Hin.
    destruct (norm_index_in _ _ Hin) as [En Hlt]. rewrite En in H.
    destruct (nth_error sts (round_of (length sts) i)) as [st'|] eqn:En2; [discriminate|].
    apply nth_error_None in En2. lia.
  - intros H. rewrite H. reflexivity.
Qed.

(* success of one is success of the other *)
Theorem get_step_succeeds_iff : forall r (p : profile) (sts : list estate) i (s : mstate),
  (exists x s', get_step r p sts i s = inl (x, s')) <->
  (exists np s', get_profile r p sts i s = inl (np, s')).
Proof.
  intros r p sts i s. split.
  - intros [[np st] [s' H]]. apply get_step_ok_iff in H. exists np, s'. exact (proj1 H).
  - intros [np [s' H]]. pose proof (get_profile_ok_in_range r p sts i s _ H) as Hin.
    destruct (norm_index_in _ _ Hin) as [_ Hlt].
    destruct (nth_error sts (round_of (length sts) i)) as [st|] eqn:En;
      [|apply nth_error_None in En; lia].
    exists (np, st), s'. apply get_step_ok_iff. split; [exact H|exact En].
Qed.

(* the index is normalised as in every other query *)
Lemma get_step_index_eq : forall r (p : profile) (sts : list estate) i j,
  norm_index (length sts) i = norm_index (length sts) j ->
  forall s : mstate, get_step r p sts i s = get_step r p sts j s.
Proof.
  intros r p sts i j H s. unfold Election2.get_step.
  destruct (queries_index_eq cand ceqb sts i j H) as [_ [_ [_ [_ [_ Hp]]]]].
  rewrite (Hp r p), H. reflexivity.
Qed.

Theorem get_step_negative_index : forall r (p : profile) (sts : list estate) i (s : mstate),
  (0 < i <= Z.of_nat (length sts))%Z ->
  get_step r p sts (- i) s = get_step r p sts (Z.of_nat (length sts) - i) s.
Proof. intros r p sts i s H. apply get_step_index_eq. apply norm_index_neg. exact H. Qed.

Theorem get_step_canonical_index : forall r (p : profile) (sts : list estate) i (s : mstate),
  in_range (length sts) i ->
  get_step r p sts i s = get_step r p sts (Z.of_nat (round_of (length sts) i)) s.
Proof. intros r p sts i s H. apply get_step_index_eq. apply norm_index_canon. exact H. Qed.

Theorem get_step_out_of_range : forall r (p : profile) (sts : list estate) i (s : mstate),
  (i < - Z.of_nat (length sts) \/ Z.of_nat (length sts) - 1 < i)%Z ->
  get_step r p sts i s = inr EIndex.
Proof.
  intros r p sts i s H. apply get_step_err_iff.
  destruct (out_of_range cand ceqb sts i) as [_ [_ [_ [_ [_ [Hp _]]]]]]. exact (Hp H r p s).
Qed.

(* purity, as for get_profile *)
Theorem get_step_pure : forall r (p : profile) (sts : list estate) i (s : mstate) np st s',
  get_step r p sts i s = inl ((np, st), s') ->
  (exists used calls,
     scr s = used ++ scr s' /\ lg s' = calls ++ lg s /\ length calls = length used /\
     forall (s2 : mstate) rest, scr s2 = used ++ rest ->
       get_step r p sts i s2 = inl ((np, st), mkM rest (calls ++ lg s2))) /\
  (scr s' = scr s ->
     s' = s /\ forall s2 : mstate, get_step r p sts i s2 = inl ((np, st), s2)).
Proof.
  intros r p sts i s np st s' H. apply get_step_ok_iff in H. destruct H as [Hg Hn]. split.
  - destruct (get_profile_prefix cand ceqb r p sts i s np s' Hg) as [used [calls [H1 [H2 [H3 H4]]]]].
    exists used, calls. split; [exact H1|]. split; [exact H2|]. split; [exact H3|].
    intros s2 rest Hs2. apply get_step_ok_iff. split; [exact (H4 s2 rest Hs2)|exact Hn].
  - intros Hscr. destruct (get_profile_no_draw cand ceqb r p sts i s np s' Hg Hscr) as [E Hall].
    split; [exact E|]. intros s2. apply get_step_ok_iff. split; [exact (Hall s2)|exact Hn].
Qed.

End Status.
