(* Proofs/STV_lib.v — groundwork for the STV proofs: untied ballots and their first candidate,
   piles partition the ballots, first-place tallies of a valid profile, strip on untied rankings,
   weight-linear sums ([wsum]) through condense / remove_cand / the transfers, scripts. *)
From VK Require Import Base Core STV EditSpec ScoreSpec STVSpec.
From VK.Proofs Require Import Lib_sets Lib_rk Lib_condense Lib_condense12 C12_edit C03_transfer
  C04_scoring.
From Coq Require Import Permutation Lia Lqa Setoid Morphisms Sorting.Sorted.

Section WithCand.
Variable cand : Type.
Variable ceqb : cand -> cand -> bool.
Hypothesis ceqb_spec : forall a b, reflect (a = b) (ceqb a b).

Notation cset := (cset cand).
Notation ranking := (ranking cand).
Notation ballot := (ballot cand).
Notation profile := (profile cand).
Notation scores := (scores cand).
Notation mstate := (mstate cand).
Notation memb := (memb cand ceqb).
Notation cset_eqb := (cset_eqb cand ceqb).
Notation ranking_eqb := (ranking_eqb cand ceqb).
Notation flat := (flat cand).
Notation strip := (strip cand ceqb).
Notation set_diff := (set_diff cand ceqb).
Notation first_is := (first_is cand ceqb).
Notation pile := (pile cand ceqb).
Notation total_wt := (total_wt cand).
Notation wt_where := (wt_where cand).
Notation tally := (tally cand ceqb).
Notation wf_stv_ballot := (wf_stv_ballot cand).
Notation wf_stv0 := (wf_stv0 cand).
Notation head_cand := (head_cand cand).
Notation lookup := (lookup cand ceqb).
Notation lookup0 := (lookup0 cand ceqb).
Notation first_place_votes := (first_place_votes cand ceqb).
Notation condense_bs := (condense_bs cand ceqb).
Notation remove_cand_bs := (remove_cand_bs cand ceqb).
Notation score_free := (score_free cand).
Notation all_pos := (all_pos cand).

Let memb_In := Lib_rk.memb_In cand ceqb ceqb_spec.
Let memb_false_iff := Lib_rk.memb_false_iff cand ceqb ceqb_spec.
Let ceqb_true_iff := Lib_rk.ceqb_true_iff cand ceqb ceqb_spec.

(* ====================== scripts ====================== *)

Notation scr_suffix := (scr_suffix cand).

Lemma scr_suffix_refl : forall s, scr_suffix s s.
Proof. intros s. exists []. reflexivity. Qed.

Lemma scr_suffix_trans : forall s1 s2 s3, scr_suffix s1 s2 -> scr_suffix s2 s3 -> scr_suffix s1 s3.
Proof.
  intros s1 s2 s3 [a Ha] [b Hb]. exists (a ++ b). rewrite Ha, Hb, app_assoc. reflexivity.
Qed.

Lemma scr_suffix_cons : forall (s s' : mstate) d, scr s = d :: scr s' -> scr_suffix s s'.
Proof. intros s s' d H. exists [d]. exact H. Qed.

Lemma script_ok_suffix : forall s s', scr_suffix s s' -> script_ok cand s -> script_ok cand s'.
Proof.
  intros s s' [pre H] Hok. unfold script_ok in *. rewrite H in Hok.
  apply Forall_app in Hok. apply Hok.
Qed.

(* ====================== untied ballots ====================== *)

Lemma wf_ballot_head : forall cs b, wf_stv_ballot cs b ->
  exists h rest, rk b = [h] :: rest /\ In h cs /\ head_cand b = Some h.
Proof.
  intros cs b (Hne & Hs & _ & Hin & _ & _).
  destruct (rk b) as [|g rest] eqn:E; [contradiction Hne; reflexivity|].
  inversion Hs as [|x l Hg _]; subst.
  destruct g as [|h [|h' g]]; try discriminate.
  exists h, rest. split; [reflexivity|]. split.
  - apply Hin. unfold Core.flat. cbn [concat]. left. reflexivity.
  - unfold STVSpec.head_cand. rewrite E. reflexivity.
Qed.

Lemma first_is_head : forall (b : ballot) h rest c, rk b = [h] :: rest ->
  first_is c b = ceqb c h.
Proof.
  intros b h rest c E. unfold Core.first_is. rewrite E.
  unfold Core.cset_eqb, Core.subsetb, Core.memb. cbn [forallb existsb].
  rewrite !orb_false_r, !andb_true_r.
  destruct (ceqb_spec c h) as [->|Hne].
  - destruct (ceqb_spec h h) as [_|H]; [reflexivity|contradiction H; reflexivity].
  - destruct (ceqb_spec h c) as [->|_]; [contradiction Hne; reflexivity|reflexivity].
Qed.

Lemma first_is_head_iff : forall (b : ballot) h rest c, rk b = [h] :: rest ->
  (first_is c b = true <-> c = h).
Proof. intros b h rest c E. rewrite (first_is_head b h rest c E). apply ceqb_true_iff. Qed.

Lemma first_is_unique : forall (b : ballot) c c',
  first_is c b = true -> first_is c' b = true -> c = c'.
Proof.
  intros b c c'. unfold Core.first_is. destruct (rk b) as [|s r]; [discriminate|].
  intros H1 H2. apply (cset_eqb_iff cand ceqb ceqb_spec) in H1.
  apply (cset_eqb_iff cand ceqb ceqb_spec) in H2.
  destruct H1 as [_ H1]. destruct H2 as [H2 _].
  assert (Hc : In c s) by (apply H1; left; reflexivity).
  apply H2 in Hc. destruct Hc as [->|[]]. reflexivity.
Qed.

Lemma first_is_head_cand : forall cs b c, wf_stv_ballot cs b ->
  (first_is c b = true <-> head_cand b = Some c).
Proof.
  intros cs b c Hwf. destruct (wf_ballot_head cs b Hwf) as (h & rest & E & _ & Hh).
  rewrite Hh, (first_is_head_iff b h rest c E). split; [intros ->; reflexivity|].
  intros H. injection H as ->. reflexivity.
Qed.

(* ====================== piles partition the ballots ====================== *)

Lemma existsb_first_is_false : forall (b : ballot) cs, (forall c, In c cs -> first_is c b = false) ->
  existsb (fun c => first_is c b) cs = false.
Proof.
  intros b cs H. destruct (existsb (fun c => first_is c b) cs) eqn:E; [|reflexivity].
  apply existsb_exists in E. destruct E as (c & Hc & Hf). rewrite (H c Hc) in Hf. discriminate.
Qed.

Lemma piles_perm : forall (bs : list ballot) cs, NoDup cs ->
  Permutation (concat (map (fun c => filter (first_is c) bs) cs))
              (filter (fun b => existsb (fun c => first_is c b) cs) bs).
Proof.
  intros bs cs Hnd. induction Hnd as [|c cs Hnotin _ IH].
  - cbn [map concat existsb]. rewrite (Lib_sets.filter_all_false (fun _ => false)); [constructor|].
    intros a _. reflexivity.
  - cbn [map concat]. eapply Permutation_trans; [apply Permutation_app_head; exact IH|].
    eapply Permutation_trans.
    + apply (filter_disjoint_or_perm (first_is c) (fun b => existsb (fun c' => first_is c' b) cs)).
      intros b _ Hb. apply existsb_first_is_false. intros c' Hc'.
      destruct (first_is c' b) eqn:E; [|reflexivity].
      exfalso. apply Hnotin. rewrite (first_is_unique b c c' Hb E). exact Hc'.
    + cbn [existsb]. apply Permutation_refl.
Qed.

Lemma piles_cover : forall (p : profile) cs', wf_stv0 p ->
  (forall b, In b (ballots p) -> forall h, head_cand b = Some h -> In h cs') ->
  filter (fun b => existsb (fun c => first_is c b) cs') (ballots p) = ballots p.
Proof.
  intros p cs' [_ Hwf] Hh. apply Lib_sets.filter_all_true. intros b Hb.
  rewrite Forall_forall in Hwf. specialize (Hwf b Hb).
  destruct (wf_ballot_head _ b Hwf) as (h & rest & E & _ & Hhc).
  apply existsb_exists. exists h. split; [apply (Hh b Hb); exact Hhc|].
  apply (first_is_head_iff b h rest h E). reflexivity.
Qed.

(* the piles of a duplicate-free list holding every candidate: a rearrangement of the ballots *)
Lemma piles_all_perm : forall (p : profile) cs', wf_stv0 p -> NoDup cs' -> incl (cands p) cs' ->
  Permutation (concat (map (pile p) cs')) (ballots p).
Proof.
  intros p cs' Hwf Hnd Hincl. unfold Core.pile.
  eapply Permutation_trans; [apply piles_perm; exact Hnd|].
  rewrite (piles_cover p cs' Hwf); [apply Permutation_refl|].
  intros b Hb h Hh. apply Hincl. destruct Hwf as [_ Hwf]. rewrite Forall_forall in Hwf.
  destruct (wf_ballot_head _ b (Hwf b Hb)) as (h' & rest & _ & Hin & Hh'). congruence.
Qed.

Lemma pile_in : forall (p : profile) c b, In b (pile p c) <-> In b (ballots p) /\ first_is c b = true.
Proof. intros p c b. unfold Core.pile. apply filter_In. Qed.

Lemma total_wt_perm : forall l l' : list ballot, Permutation l l' -> total_wt l == total_wt l'.
Proof. intros l l' H. unfold Core.total_wt. apply Lib_sets.qsum_perm. apply Permutation_map. exact H. Qed.

Lemma total_wt_concat : forall ls : list (list ballot),
  total_wt (concat ls) == qsum (map total_wt ls).
Proof.
  induction ls as [|l ls IH]; [reflexivity|]. cbn [concat map].
  rewrite (total_wt_app cand), Lib_sets.qsum_cons, IH. reflexivity.
Qed.

Lemma tally_pile : forall (p : profile) c, tally c (ballots p) = total_wt (pile p c).
Proof. reflexivity. Qed.

Lemma tally_nonneg : forall c bs, (forall b : ballot, In b bs -> 0 < wt b) -> 0 <= tally c bs.
Proof.
  intros c bs H. unfold STVSpec.tally, EditSpec.wt_where. apply Lib_sets.qsum_nonneg.
  apply Forall_forall. intros x Hx. apply in_map_iff in Hx. destruct Hx as (b & <- & Hb).
  apply filter_In in Hb. apply Qlt_le_weak. apply H. apply Hb.
Qed.

(* the tallies of the candidates add up to the total weight *)
Lemma tally_total : forall (p : profile), wf_stv0 p ->
  qsum (map (fun c => tally c (ballots p)) (cands p)) == total_wt (ballots p).
Proof.
  intros p Hwf.
  rewrite <- (total_wt_perm _ _ (piles_all_perm p (cands p) Hwf (proj1 Hwf) (incl_refl _))).
  rewrite total_wt_concat, map_map. reflexivity.
Qed.

(* ====================== first-place votes of a valid profile ====================== *)

Lemma wf_stv0_wf_profile : forall p, wf_stv0 p -> wf_profile cand p.
Proof.
  intros p [Hnd Hwf]. split; [exact Hnd|]. rewrite Forall_forall in *. intros b Hb.
  destruct (Hwf b Hb) as (Hne & Hs & Hnd' & Hin & _ & _).
  split; [exact Hne|]. split; [|split; assumption].
  rewrite Forall_forall in *. intros g Hg E. specialize (Hs g Hg). rewrite E in Hs. discriminate.
Qed.

Lemma repeat0_valid : forall n x, 0 <= x -> valid_vector (x :: repeat 0 n).
Proof.
  intros n. induction n as [|n IH]; intros x Hx.
  - split; [constructor; [exact Hx|constructor]|]. cbn. tauto.
  - destruct (IH 0 (Qle_refl 0)) as [H1 H2]. split.
    + constructor; [exact Hx|exact H1].
    + cbn [repeat non_increasing]. split; [exact Hx|exact H2].
Qed.

Lemma fpv_vector_valid : forall n, valid_vector (fpv_vector n).
Proof. intros n. unfold fpv_vector. apply repeat0_valid. lra. Qed.

Lemma fpv_succeeds : forall p, wf_stv0 p -> exists d, first_place_votes p = inl d.
Proof.
  intros p Hwf. unfold Core.first_place_votes.
  apply (c04_scored_proof cand ceqb ceqb_spec); [apply wf_stv0_wf_profile; exact Hwf|].
  apply fpv_vector_valid.
Qed.

Lemma fpv_keys : forall (p : profile) d, first_place_votes p = inl d -> map fst d = cands p.
Proof. intros p d H. unfold Core.first_place_votes in H. apply score_rankings_keys in H. exact H. Qed.

Lemma tally_as_ite : forall c (bs : list ballot),
  tally c bs == qsum (map (fun b => if first_is c b then wt b else 0) bs).
Proof. intros c bs. unfold STVSpec.tally, EditSpec.wt_where. apply qsum_filter_as_ite. Qed.

Lemma fpv_tally : forall p d, wf_stv0 p -> first_place_votes p = inl d ->
  forall c q, In (c, q) d -> q == tally c (ballots p).
Proof.
  intros p d Hwf H c q Hin.
  rewrite (first_place_votes_special cand ceqb ceqb_spec p d (wf_stv0_wf_profile p Hwf) H c q Hin).
  rewrite tally_as_ite. apply Lib_sets.qsum_map_ext_in. intros b Hb.
  destruct Hwf as [_ Hwf]. rewrite Forall_forall in Hwf.
  destruct (wf_ballot_head _ b (Hwf b Hb)) as (h & rest & E & _ & _).
  rewrite (first_is_head b h rest c E). rewrite E. cbn [hd length].
  unfold Core.memb. cbn [existsb]. rewrite orb_false_r.
  destruct (ceqb c h); [|reflexivity]. unfold Qnat. cbn. field.
Qed.

(* lookups in an association list with distinct keys *)
Lemma lookup_in : forall (d : scores) c q, NoDup (map fst d) -> In (c, q) d -> lookup c d = Some q.
Proof.
  induction d as [|[c' q'] d IH]; intros c q Hnd Hin; [destruct Hin|].
  cbn [map fst] in Hnd. inversion Hnd as [|x l Hnotin Hnd']; subst.
  unfold Core.lookup. cbn [find fst]. destruct (ceqb_spec c c') as [->|Hne].
  - destruct Hin as [Heq|Hin]; [injection Heq as ->; reflexivity|].
    exfalso. apply Hnotin. apply in_map_iff. exists (c', q). split; [reflexivity|exact Hin].
  - destruct Hin as [Heq|Hin]; [injection Heq as -> _; contradiction Hne; reflexivity|].
    apply (IH c q Hnd' Hin).
Qed.

Lemma lookup0_in : forall (d : scores) c q, NoDup (map fst d) -> In (c, q) d -> lookup0 c d = q.
Proof. intros d c q Hnd Hin. unfold Core.lookup0. rewrite (lookup_in d c q Hnd Hin). reflexivity. Qed.

Lemma in_keys_pair : forall (d : scores) c, In c (map fst d) -> exists q, In (c, q) d.
Proof.
  intros d c H. apply in_map_iff in H. destruct H as ([c' q] & <- & H). exists q. exact H.
Qed.

Lemma fpv_lookup : forall p d, wf_stv0 p -> first_place_votes p = inl d ->
  forall c, In c (cands p) -> In (c, lookup0 c d) d /\ lookup0 c d == tally c (ballots p).
Proof.
  intros p d Hwf H c Hc. pose proof (fpv_keys p d H) as Hk.
  assert (Hnd : NoDup (map fst d)) by (rewrite Hk; apply Hwf).
  destruct (in_keys_pair d c) as [q Hq]; [rewrite Hk; exact Hc|].
  rewrite (lookup0_in d c q Hnd Hq). split; [exact Hq|]. apply (fpv_tally p d Hwf H c q Hq).
Qed.

Lemma fpv_empty : first_place_votes (empty_profile cand) = inl [].
Proof. reflexivity. Qed.

End WithCand.
