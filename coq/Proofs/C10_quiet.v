(* Proofs/C10_quiet.v — C10, part 2: for every deterministic rule, a run none of whose states
   records a tiebreak consumed no draw (every draw happens inside a [tiebreak_set] call whose
   (set, resolution) pair is recorded in a returned state), hence by locality (C10_script.v) gives
   the identical outcome from every random script; and two runs agree on the rounds before the
   first recorded tiebreak. *)
From VK Require Import Base Core STV Pairwise Rules.
From VK.Spec Require Import ScoreSpec TieSpec.
From VK.Proofs Require Import Lib_sets Elect C10_script.
From Coq Require Import Permutation Lia.

Section Quiet.
Variable cand : Type.
Variable ceqb : cand -> cand -> bool.
Hypothesis ceqb_spec : forall a b, reflect (a = b) (ceqb a b).

Notation cset := (cset cand).
Notation ranking := (ranking cand).
Notation profile := (profile cand).
Notation scores := (scores cand).
Notation mstate := (mstate cand).
Notation estate := (estate cand).
Notation M := (M cand).
Notation flat := (flat cand).
Notation Local := (Local cand).
Notation no_tiebreak := (no_tiebreak cand).

(* ------------------------------------------------------------------ *)
(** * inversion of the monad operations *)

Lemma mbind_ok_inv : forall A B (x : M A) (f : A -> M B) s b s',
  mbind x f s = inl (b, s') -> exists a s1, x s = inl (a, s1) /\ f a s1 = inl (b, s').
Proof.
  intros A B x f s b s' H. unfold mbind in H. destruct (x s) as [[a s1]|e]; [|discriminate].
  exists a, s1. split; [reflexivity|exact H].
Qed.

Lemma mlift_ok_inv : forall A (r : res A) (s : mstate) a s',
  mlift r s = inl (a, s') -> r = inl a /\ s' = s.
Proof.
  intros A r s a s' H. unfold mlift in H. destruct r as [a0|e]; [|discriminate].
  unfold ok in H. inversion H; subst. split; reflexivity.
Qed.

Lemma mret_ok_inv : forall A (a : A) (s : mstate) b s',
  mret a s = inl (b, s') -> b = a /\ s' = s.
Proof. intros A a s b s' H. unfold mret, ok in H. inversion H; subst. split; reflexivity. Qed.

Lemma mbind_lift_inv : forall A B (r : res A) (f : A -> M B) s b s',
  mbind (mlift r) f s = inl (b, s') -> exists a, r = inl a /\ f a s = inl (b, s').
Proof.
  intros A B r f s b s' H. apply mbind_ok_inv in H. destruct H as [a [s1 [H1 H2]]].
  apply mlift_ok_inv in H1. destruct H1 as [Hr ->]. exists a. split; assumption.
Qed.

(* ------------------------------------------------------------------ *)
(** * one-shot rules *)

Lemma elect_top_m_quiet : forall r m p tb (s s' : mstate) el rem,
  elect_top_m cand ceqb r m p tb s = inl ((el, rem, None), s') -> s' = s.
Proof.
  intros r m p tb s s' el rem H.
  destruct (elect_top_m_shape cand ceqb _ _ _ _ _ _ _ _ _ H) as [_ [Hq|Hn]].
  - destruct Hq as [_ [Hs _]]. exact Hs.
  - destruct Hn as [pre [g [post [t [kind [k [_ [_ [_ [_ [_ [_ [_ [_ Hsome]]]]]]]]]]]]]]. discriminate.
Qed.

Definition tb_list (t : option (cset * ranking)) : list (cset * ranking) :=
  match t with Some x => [x] | None => [] end.

Lemma tb_list_nil : forall t, tb_list t = [] -> t = None.
Proof. intros [x|] H; [discriminate|reflexivity]. Qed.

Lemma one_shot_step_inv : forall k m tb p prev (s s' : mstate) np st,
  one_shot_step cand ceqb k m tb p prev s = inl ((np, st), s') ->
  exists el rem t d,
    elect_top_m cand ceqb (remaining prev) m (Some p) tb s = inl ((el, rem, t), s') /\
    remove_cand_prof cand ceqb (flat el) true false p = inl np /\
    score_fn cand ceqb k np = inl d /\
    st = mkState 1 rem el (no_group cand) (tb_list t) d.
Proof.
  intros k m tb p prev s s' np st H. unfold Rules.one_shot_step in H.
  apply mbind_ok_inv in H. destruct H as [[[el rem] t] [s1 [He H]]].
  apply mbind_lift_inv in H. destruct H as [np' [Hnp H]].
  apply mbind_lift_inv in H. destruct H as [d [Hd H]].
  apply mret_ok_inv in H. destruct H as [Heq ->]. inversion Heq; subst.
  exists el, rem, t, d. repeat split; assumption.
Qed.

Lemma one_shot_step_quiet : forall k m tb p prev (s s' : mstate) np st,
  one_shot_step cand ceqb k m tb p prev s = inl ((np, st), s') -> no_tiebreak st -> s' = s.
Proof.
  intros k m tb p prev s s' np st H Hq. apply one_shot_step_inv in H.
  destruct H as [el [rem [t [d [He [_ [_ ->]]]]]]]. unfold TieSpec.no_tiebreak in Hq. cbn [tiebreaks] in Hq.
  apply tb_list_nil in Hq. subst t. eapply elect_top_m_quiet. exact He.
Qed.

Lemma run_one_shot_inv : forall k m tb p (s s' : mstate) sts,
  run_one_shot cand ceqb k m tb p s = inl (sts, s') ->
  exists s0 np s1, round0 cand ceqb k p = inl s0 /\
    one_shot_step cand ceqb k m tb p s0 s = inl ((np, s1), s') /\ sts = [s0; s1].
Proof.
  intros k m tb p s s' sts H. unfold Rules.run_one_shot in H.
  apply mbind_lift_inv in H. destruct H as [s0 [H0 H]].
  apply mbind_ok_inv in H. destruct H as [[np s1] [s2 [H1 H]]].
  apply mret_ok_inv in H. destruct H as [-> ->]. exists s0, np, s1. repeat split; assumption.
Qed.

Lemma round0_no_tiebreak : forall k p s0, round0 cand ceqb k p = inl s0 -> tiebreaks s0 = [].
Proof.
  intros k p s0 H. unfold Rules.round0 in H. destruct (score_fn cand ceqb k p) as [d|e]; [|discriminate].
  cbn [rbind] in H. unfold ok in H. inversion H; subst. reflexivity.
Qed.

Lemma Forall_two : forall X (P : X -> Prop) a b, Forall P [a; b] -> P a /\ P b.
Proof.
  intros X P a b H. inversion H as [|x l Ha H']; subst. inversion H' as [|y l' Hb _]; subst.
  split; assumption.
Qed.

Lemma run_one_shot_quiet : forall k m tb p (s s' : mstate) sts,
  run_one_shot cand ceqb k m tb p s = inl (sts, s') -> Forall no_tiebreak sts -> s' = s.
Proof.
  intros k m tb p s s' sts H Hq. apply run_one_shot_inv in H.
  destruct H as [s0 [np [s1 [_ [H1 ->]]]]]. apply Forall_two in Hq. destruct Hq as [_ Hq1].
  eapply one_shot_step_quiet; eassumption.
Qed.

Lemma run_rating_inv : forall m L k tb p (s s' : mstate) sts,
  run_rating cand ceqb m L k tb p s = inl (sts, s') ->
  rating_args m L k = inl tt /\ rating_validate cand L k p = inl tt /\
  run_one_shot cand ceqb SKBallotScores m tb p s = inl (sts, s').
Proof.
  intros m L k tb p s s' sts H. unfold Rules.run_rating in H.
  apply mbind_lift_inv in H. destruct H as [[] [Ha H]].
  apply mbind_lift_inv in H. destruct H as [[] [Hv H]]. repeat split; assumption.
Qed.

Lemma run_plurality_inv : forall m tb p (s s' : mstate) sts,
  run_plurality cand ceqb m tb p s = inl (sts, s') ->
  ranking_validate cand p = inl tt /\ run_one_shot cand ceqb SKFpv m tb p s = inl (sts, s').
Proof.
  intros m tb p s s' sts H. unfold Rules.run_plurality in H.
  apply mbind_lift_inv in H. destruct H as [[] [Hv H]]. split; assumption.
Qed.

Lemma run_dominating_quiet : forall p (s s' : mstate) sts,
  run_dominating cand ceqb p s = inl (sts, s') -> s' = s.
Proof.
  intros p s s' sts H. unfold Rules.run_dominating in H.
  apply mbind_lift_inv in H. destruct H as [[] [_ H]].
  apply mbind_lift_inv in H. destruct H as [t [_ H]].
  destruct t as [|top rest]; [discriminate|].
  apply mbind_lift_inv in H. destruct H as [np [_ H]].
  apply mret_ok_inv in H. destruct H as [_ ->]. reflexivity.
Qed.

Lemma condo_step_inv : forall m p (s s' : mstate) np st,
  condo_step cand ceqb m p s = inl ((np, st), s') ->
  exists tiers el rem t d,
    dominating_tiers cand ceqb p = inl tiers /\
    elect_top_m cand ceqb tiers m (Some p) (Some TBBorda) s = inl ((el, rem, t), s') /\
    remove_cand_prof cand ceqb (flat el) true false p = inl np /\
    borda_scores cand ceqb np = inl d /\
    st = mkState 1 rem el (no_group cand) (tb_list t) d.
Proof.
  intros m p s s' np st H. unfold Rules.condo_step in H.
  apply mbind_lift_inv in H. destruct H as [tiers [Ht H]].
  apply mbind_ok_inv in H. destruct H as [[[el rem] t] [s1 [He H]]].
  apply mbind_lift_inv in H. destruct H as [np' [Hnp H]].
  apply mbind_lift_inv in H. destruct H as [d [Hd H]].
  apply mret_ok_inv in H. destruct H as [Heq ->]. inversion Heq; subst.
  exists tiers, el, rem, t, d. repeat split; assumption.
Qed.

Lemma run_condo_inv : forall m p (s s' : mstate) sts,
  run_condo cand ceqb m p s = inl (sts, s') ->
  exists s0 np s1, ranking_validate cand p = inl tt /\ round0 cand ceqb SKBorda p = inl s0 /\
    condo_step cand ceqb m p s = inl ((np, s1), s') /\ sts = [s0; s1].
Proof.
  intros m p s s' sts H. unfold Rules.run_condo in H.
  apply mbind_lift_inv in H. destruct H as [[] [Hv H]].
  apply mbind_lift_inv in H. destruct H as [s0 [H0 H]].
  apply mbind_ok_inv in H. destruct H as [[np s1] [s2 [H1 H]]].
  apply mret_ok_inv in H. destruct H as [-> ->]. exists s0, np, s1. repeat split; assumption.
Qed.

Lemma run_condo_quiet : forall m p (s s' : mstate) sts,
  run_condo cand ceqb m p s = inl (sts, s') -> Forall no_tiebreak sts -> s' = s.
Proof.
  intros m p s s' sts H Hq. apply run_condo_inv in H.
  destruct H as [s0 [np [s1 [_ [_ [H1 ->]]]]]]. apply Forall_two in Hq. destruct Hq as [_ Hq1].
  apply condo_step_inv in H1. destruct H1 as [tiers [el [rem [t [d [_ [He [_ [_ ->]]]]]]]]].
  unfold TieSpec.no_tiebreak in Hq1. cbn [tiebreaks] in Hq1. apply tb_list_nil in Hq1. subst t.
  eapply elect_top_m_quiet. exact He.
Qed.

(* ------------------------------------------------------------------ *)
(** * STV with a deterministic transfer *)

Lemma do_transfer_quiet : forall k w fpv bs t (s s' : mstate) a,
  k <> TRandom -> do_transfer cand ceqb k w fpv bs t s = inl (a, s') -> s' = s.
Proof.
  intros k w fpv bs t s s' a Hk H. destruct k; [|contradiction|]; cbn [STV.do_transfer] in H;
    apply mlift_ok_inv in H; destruct H as [_ ->]; reflexivity.
Qed.

Lemma transfer_all_quiet : forall k ws p d t (s s' : mstate) a,
  k <> TRandom -> transfer_all cand ceqb k ws p d t s = inl (a, s') -> s' = s.
Proof.
  intros k ws p d t s s' a Hk. revert s s' a. induction ws as [|w ws IH]; intros s s' a H;
    cbn [STV.transfer_all] in H.
  - apply mret_ok_inv in H. destruct H as [_ ->]. reflexivity.
  - destruct (negb (memb cand ceqb w (cands p))); [discriminate|].
    apply mbind_ok_inv in H. destruct H as [a1 [s1 [H1 H]]].
    apply mbind_ok_inv in H. destruct H as [a2 [s2 [H2 H]]].
    apply mret_ok_inv in H. destruct H as [_ ->].
    apply do_transfer_quiet in H1; [|exact Hk]. apply IH in H2. congruence.
Qed.

Lemma simultaneous_elect_quiet : forall cfg t p prev (s s' : mstate) a,
  s_transfer cfg <> TRandom -> simultaneous_elect cand ceqb cfg t p prev s = inl (a, s') -> s' = s.
Proof.
  intros cfg t p prev s s' a Hk H. unfold STV.simultaneous_elect in H.
  apply mbind_lift_inv in H. destruct H as [el [_ H]].
  apply mbind_lift_inv in H. destruct H as [[] [_ H]]. cbv zeta in H.
  apply mbind_ok_inv in H. destruct H as [moved [s1 [Hm H]]].
  apply transfer_all_quiet in Hm; [|exact Hk]. subst s1.
  destruct (negb (subsetb cand ceqb _ (cands p))); [discriminate|].
  apply mbind_lift_inv in H. destruct H as [np [_ H]].
  apply mret_ok_inv in H. destruct H as [_ ->]. reflexivity.
Qed.

(* the one-by-one election: the only draws are those of the top-1 selection, recorded in [tbs] *)
Lemma single_elect_inv : forall cfg t p prev (s s' : mstate) el tbs np,
  s_transfer cfg <> TRandom ->
  single_elect cand ceqb cfg t p prev s = inl ((el, tbs, np), s') ->
  exists rem tb,
    elect_top_m cand ceqb (remaining prev) 1 (Some p) (s_tiebreak cfg) s = inl ((el, rem, tb), s') /\
    tbs = tb_list tb.
Proof.
  intros cfg t p prev s s' el tbs np Hk H. unfold STV.single_elect in H.
  apply mbind_ok_inv in H. destruct H as [[[el0 rem] tb] [s1 [He H]]]. cbv zeta in H.
  apply mbind_lift_inv in H. destruct H as [[] [_ H]].
  destruct el0 as [|[|w g] el']; try discriminate.
  destruct (negb (memb cand ceqb w (cands p))); [discriminate|].
  apply mbind_ok_inv in H. destruct H as [moved [s2 [Hm H]]].
  apply do_transfer_quiet in Hm; [|exact Hk]. subst s2.
  destruct (negb (subsetb cand ceqb (flat rem) (cands p))); [discriminate|].
  apply mbind_lift_inv in H. destruct H as [np' [_ H]].
  apply mret_ok_inv in H. destruct H as [Heq ->]. inversion Heq; subst.
  exists rem, tb. split; [exact He|reflexivity].
Qed.

Definition above_quota (t : Q) (prev : estate) : scores :=
  filter (fun q => Qle_bool t (snd q)) (escores prev).

(* the four ways a round of STV can go, with the draws each may make *)
Lemma stv_step_inv : forall cfg t p0 n p prev (s s' : mstate) np st,
  s_transfer cfg <> TRandom ->
  stv_step cand ceqb cfg t p0 n p prev s = inl ((np, st), s') ->
  exists el elim tbs d,
    first_place_votes cand ceqb np = inl d /\
    st = state_of_scores cand (rnd prev + 1) el elim tbs d /\
    ((* simultaneous election of everybody above quota: no draw *)
     (above_quota t prev <> [] /\ s_simul cfg = true /\ elim = no_group cand /\ tbs = [] /\ s' = s /\
      simultaneous_elect cand ceqb cfg t p prev s = inl ((el, np), s))
     \/
     (* one-by-one election: top-1 selection of the ranking *)
     (above_quota t prev <> [] /\ s_simul cfg = false /\ elim = no_group cand /\
      single_elect cand ceqb cfg t p prev s = inl ((el, tbs, np), s') /\
      exists rem tb,
        elect_top_m cand ceqb (remaining prev) 1 (Some p) (s_tiebreak cfg) s = inl ((el, rem, tb), s') /\
        tbs = tb_list tb)
     \/
     (* as many candidates left as open seats: all elected, no draw *)
     (above_quota t prev = [] /\ el = remaining prev /\ elim = no_group cand /\ tbs = [] /\
      np = empty_profile cand /\ s' = s)
     \/
     (* elimination of one member of the lowest group *)
     (above_quota t prev = [] /\ el = no_group cand /\
      exists lowest rest x,
        rev (remaining prev) = lowest :: rest /\ elim = [[x]] /\
        remove_cand_prof cand ceqb [x] true false p = inl np /\
        ((lowest = [x] /\ tbs = [] /\ s' = s)
         \/
         ((2 <= length lowest)%nat /\
          exists tb g' rest',
            tiebreak_set cand ceqb lowest (Some p0) TBFirstPlace s = inl (tb, s') /\
            rev tb = (x :: g') :: rest' /\ tbs = [(lowest, tb)])))).
Proof.
  intros cfg t p0 n p prev s s' np st Hk H. unfold STV.stv_step in H. cbv zeta in H.
  fold (above_quota t prev) in H.
  apply mbind_ok_inv in H. destruct H as [[[[el elim] tbs] np0] [s1 [Hb H]]].
  apply mbind_lift_inv in H. destruct H as [d [Hd H]].
  apply mret_ok_inv in H. destruct H as [Heq ->]. inversion Heq; subst np0 st. clear Heq.
  exists el, elim, tbs, d. split; [exact Hd|]. split; [reflexivity|].
  destruct (above_quota t prev) as [|q0 above] eqn:Habove.
  - destruct (Z.eqb _ _).
    + apply mret_ok_inv in Hb. destruct Hb as [Heq ->]. inversion Heq; subst.
      right. right. left. repeat split.
    + destruct (rev (remaining prev)) as [|lowest rest] eqn:Hrev; [discriminate|].
      apply mbind_ok_inv in Hb. destruct Hb as [[x tbs0] [s2 [Hx Hb]]].
      apply mbind_lift_inv in Hb. destruct Hb as [np1 [Hnp Hb]].
      apply mret_ok_inv in Hb. destruct Hb as [Heq ->]. inversion Heq; subst. clear Heq.
      right. right. right. split; [reflexivity|]. split; [reflexivity|].
      exists lowest, rest, x. split; [reflexivity|]. split; [reflexivity|]. split; [exact Hnp|].
      destruct lowest as [|c [|c' g]]; [discriminate| |].
      * apply mret_ok_inv in Hx. destruct Hx as [Heq ->]. inversion Heq; subst.
        left. repeat split.
      * apply mbind_ok_inv in Hx. destruct Hx as [tb [s3 [Htb Hx]]].
        destruct (rev tb) as [|[|c0 g0] rest0] eqn:Hrtb; try discriminate.
        apply mret_ok_inv in Hx. destruct Hx as [Heq ->]. inversion Heq; subst.
        right. split; [cbn [length]; lia|]. exists tb, g0, rest0. split; [exact Htb|]. split; [exact Hrtb|reflexivity].
  - destruct (s_simul cfg) eqn:Hsim.
    + apply mbind_ok_inv in Hb. destruct Hb as [[el0 np1] [s2 [Hs Hb]]].
      apply mret_ok_inv in Hb. destruct Hb as [Heq ->]. inversion Heq; subst. clear Heq.
      pose proof (simultaneous_elect_quiet _ _ _ _ _ _ _ Hk Hs) as ->.
      left. repeat split; try discriminate. exact Hs.
    + apply mbind_ok_inv in Hb. destruct Hb as [[[el0 tbs0] np1] [s2 [Hs Hb]]].
      apply mret_ok_inv in Hb. destruct Hb as [Heq ->]. inversion Heq; subst. clear Heq.
      right. left. split; [discriminate|]. split; [reflexivity|]. split; [reflexivity|].
      split; [exact Hs|]. eapply single_elect_inv; eassumption.
Qed.

Lemma stv_step_quiet : forall cfg t p0 n p prev (s s' : mstate) np st,
  s_transfer cfg <> TRandom ->
  stv_step cand ceqb cfg t p0 n p prev s = inl ((np, st), s') -> no_tiebreak st -> s' = s.
Proof.
  intros cfg t p0 n p prev s s' np st Hk H Hq.
  destruct (stv_step_inv _ _ _ _ _ _ _ _ _ _ Hk H) as [el [elim [tbs [d [_ [-> Hc]]]]]].
  unfold TieSpec.no_tiebreak in Hq. cbn [STV.state_of_scores tiebreaks] in Hq. subst tbs.
  destruct Hc as [Hc|[Hc|[Hc|Hc]]].
  - destruct Hc as [_ [_ [_ [_ [Hs _]]]]]. exact Hs.
  - destruct Hc as [_ [_ [_ [_ [rem [tb [He Htb]]]]]]]. symmetry in Htb. apply tb_list_nil in Htb.
    subst tb. eapply elect_top_m_quiet. exact He.
  - destruct Hc as [_ [_ [_ [_ [_ Hs]]]]]. exact Hs.
  - destruct Hc as [_ [_ [lowest [rest [x [_ [_ [_ [Hc|Hc]]]]]]]]].
    + destruct Hc as [_ [_ Hs]]. exact Hs.
    + destruct Hc as [_ [tb [g' [rest' [_ [_ Hcontra]]]]]]. discriminate.
Qed.

(* ---------- the STV loop as a chain of rounds ---------- *)

(* [steps cfg t p0 p sts s newer s']: starting with profile [p], states [sts] (newest first) and
   monad state [s], the loop performs the rounds producing [newer] (oldest first) and stops in
   state [s'] *)
Inductive steps (cfg : stv_cfg) (t : Q) (p0 : profile)
  : profile -> list estate -> mstate -> list estate -> mstate -> Prop :=
| steps_done : forall p sts s,
    Z.eqb (count_elected cand sts) (s_m cfg) = true -> steps cfg t p0 p sts s [] s
| steps_next : forall p prev sts s np st s1 newer s',
    Z.eqb (count_elected cand (prev :: sts)) (s_m cfg) = false ->
    stv_step cand ceqb cfg t p0 (count_elected cand (prev :: sts)) p prev s = inl ((np, st), s1) ->
    steps cfg t p0 np (st :: prev :: sts) s1 newer s' ->
    steps cfg t p0 p (prev :: sts) s (st :: newer) s'.

Lemma stv_loop_steps : forall fuel cfg t p0 p sts (s s' : mstate) out,
  stv_loop cand ceqb fuel cfg t p0 p sts s = inl (out, s') ->
  exists newer, out = rev sts ++ newer /\ steps cfg t p0 p sts s newer s'.
Proof.
  induction fuel as [|fuel IH]; intros cfg t p0 p sts s s' out H; cbn [STV.stv_loop] in H.
  - destruct (Z.eqb (count_elected cand sts) (s_m cfg)) eqn:Hc; [|discriminate].
    apply mret_ok_inv in H. destruct H as [-> ->]. exists []. rewrite app_nil_r.
    split; [reflexivity|]. apply steps_done. exact Hc.
  - destruct (Z.eqb (count_elected cand sts) (s_m cfg)) eqn:Hc.
    + apply mret_ok_inv in H. destruct H as [-> ->]. exists []. rewrite app_nil_r.
      split; [reflexivity|]. apply steps_done. exact Hc.
    + destruct sts as [|prev sts]; [discriminate|].
      apply mbind_ok_inv in H. destruct H as [[np st] [s1 [Hs H]]].
      apply IH in H. destruct H as [newer [Hout Hsteps]].
      exists (st :: newer). split.
      * rewrite Hout. cbn [rev]. rewrite <- app_assoc. reflexivity.
      * eapply steps_next; eassumption.
Qed.

Lemma Forall_cons_inv : forall X (P : X -> Prop) a l, Forall P (a :: l) -> P a /\ Forall P l.
Proof. intros X P a l H. inversion H; subst. split; assumption. Qed.

Lemma steps_quiet : forall cfg t p0 p sts (s s' : mstate) newer,
  s_transfer cfg <> TRandom ->
  steps cfg t p0 p sts s newer s' -> Forall no_tiebreak newer -> s' = s.
Proof.
  intros cfg t p0 p sts s s' newer Hk H. induction H as [p sts s Hc|p prev sts s np st s1 newer s' Hc Hs Hrest IH];
    intros Hq; [reflexivity|].
  apply Forall_cons_inv in Hq. destruct Hq as [Hq1 Hq].
  rewrite (IH Hq). eapply stv_step_quiet; eassumption.
Qed.

(* two runs of the loop agree on the rounds before the first recorded tiebreak *)
Lemma steps_agree : forall cfg t p0 p sts (s s' : mstate) newer,
  s_transfer cfg <> TRandom ->
  steps cfg t p0 p sts s newer s' ->
  forall s2 s2' newer2, steps cfg t p0 p sts s2 newer2 s2' ->
  forall k, Forall no_tiebreak (firstn k newer) -> firstn k newer2 = firstn k newer.
Proof.
  intros cfg t p0 p sts s s' newer Hk H.
  induction H as [p sts s Hc|p prev sts s np st s1 newer s' Hc Hs Hrest IH];
    intros s2 s2' newer2 H2 k Hq.
  - inversion H2 as [p' sts' s0 Hc'|p' prev' sts' s0 np' st' s1' newer' s0' Hc' Hs' Hrest']; subst.
    + reflexivity.
    + congruence.
  - inversion H2 as [p' sts' s0 Hc'|p' prev' sts' s0 np' st' s1' newer' s0' Hc' Hs' Hrest']; subst.
    + congruence.
    + destruct k as [|k]; [reflexivity|]. cbn [firstn] in Hq |- *.
      apply Forall_cons_inv in Hq. destruct Hq as [Hq1 Hq].
      pose proof (stv_step_quiet _ _ _ _ _ _ _ _ _ _ Hk Hs Hq1) as ->.
      rewrite (local_no_draw_state cand _ _ (Local_stv_step cand ceqb _ _ _ _ _ _) _ _ Hs s2) in Hs'.
      inversion Hs'; subst. f_equal. eapply IH; eassumption.
Qed.

Lemma count_elected_app : forall a b : list estate,
  count_elected cand (a ++ b) = (count_elected cand a + count_elected cand b)%Z.
Proof.
  intros a b. unfold STV.count_elected, Core.flat. rewrite map_app, !concat_app, app_length. lia.
Qed.

Lemma count_elected_rev : forall l : list estate, count_elected cand (rev l) = count_elected cand l.
Proof.
  induction l as [|x l IH]; [reflexivity|]. cbn [rev]. rewrite count_elected_app, IH.
  change (x :: l) with ([x] ++ l). rewrite count_elected_app. lia.
Qed.

(* the get_profile replay of a run that consumed nothing consumes nothing either: each replayed
   round is the very call made by the run *)
Lemma steps_replay : forall cfg t p0 p sts (s s' : mstate) newer,
  s_transfer cfg <> TRandom ->
  steps cfg t p0 p sts s newer s' -> Forall no_tiebreak newer ->
  forall prev older, sts = prev :: older ->
  forall s2, exists pf,
    stv_replay cand ceqb cfg t p0 (rev older) p (removelast (prev :: newer)) s2 = inl (pf, s2).
Proof.
  intros cfg t p0 p sts s s' newer Hk H.
  induction H as [p sts s Hc|p prev0 sts s np st s1 newer s' Hc Hs Hrest IH];
    intros Hq prev older Heq s2.
  - cbn [removelast Rules.stv_replay]. exists p. reflexivity.
  - inversion Heq; subst prev0 sts. clear Heq.
    apply Forall_cons_inv in Hq. destruct Hq as [Hq1 Hq].
    pose proof (stv_step_quiet _ _ _ _ _ _ _ _ _ _ Hk Hs Hq1) as ->.
    change (removelast (prev :: st :: newer)) with (prev :: removelast (st :: newer)).
    cbn [Rules.stv_replay].
    assert (Hcount : count_elected cand (rev older ++ [prev]) = count_elected cand (prev :: older)).
    { change (rev older ++ [prev]) with (rev (prev :: older)). apply count_elected_rev. }
    rewrite Hcount. unfold mbind.
    rewrite (local_no_draw_state cand _ _ (Local_stv_step cand ceqb _ _ _ _ _ _) _ _ Hs s2).
    change (rev older ++ [prev]) with (rev (prev :: older)).
    apply (IH Hq st (prev :: older) eq_refl s2).
Qed.

Lemma initial_state_no_tiebreak : forall p s0, initial_state cand ceqb p = inl s0 -> tiebreaks s0 = [].
Proof.
  intros p s0 H. unfold STV.initial_state in H.
  destruct (first_place_votes cand ceqb p) as [d|e]; [|discriminate].
  cbn [rbind] in H. unfold ok in H. inversion H; subst. reflexivity.
Qed.

Lemma run_stv_inv : forall cfg p (s s' : mstate) out,
  run_stv cand ceqb cfg p s = inl (out, s') ->
  exists t s0 newer, stv_init cand cfg p = inl t /\ initial_state cand ceqb p = inl s0 /\
    out = s0 :: newer /\ steps cfg t p p [s0] s newer s'.
Proof.
  intros cfg p s s' out H. unfold STV.run_stv in H.
  apply mbind_lift_inv in H. destruct H as [t [Ht H]].
  apply mbind_lift_inv in H. destruct H as [s0 [H0 H]].
  apply stv_loop_steps in H. destruct H as [newer [Hout Hsteps]].
  exists t, s0, newer. repeat split; assumption.
Qed.

Lemma run_stv_quiet : forall cfg p (s s' : mstate) out,
  s_transfer cfg <> TRandom ->
  run_stv cand ceqb cfg p s = inl (out, s') -> Forall no_tiebreak out -> s' = s.
Proof.
  intros cfg p s s' out Hk H Hq. apply run_stv_inv in H.
  destruct H as [t [s0 [newer [_ [_ [-> Hsteps]]]]]].
  apply Forall_cons_inv in Hq. destruct Hq as [_ Hq]. eapply steps_quiet; eassumption.
Qed.

(* ------------------------------------------------------------------ *)
(** * TopTwo and Alaska: a Plurality stage, a second election, and a get_profile replay *)

Lemma run_one_shot_quiet2 : forall k m tb p (s s' : mstate) q0 q1,
  run_one_shot cand ceqb k m tb p s = inl ([q0; q1], s') -> tiebreaks q1 = [] -> s' = s.
Proof.
  intros k m tb p s s' q0 q1 H Hq. apply run_one_shot_inv in H.
  destruct H as [s0 [np [s1 [_ [H1 Heq]]]]]. inversion Heq; subst.
  eapply one_shot_step_quiet; eassumption.
Qed.

Lemma plurality_stage_inv : forall m tb p prev (s s' : mstate) np st,
  plurality_stage cand ceqb m tb p prev s = inl ((np, st), s') ->
  exists q0 q1 d,
    run_plurality cand ceqb m tb p s = inl ([q0; q1], s') /\
    remove_cand_prof cand ceqb (flat (remaining q1)) true false p = inl np /\
    first_place_votes cand ceqb np = inl d /\
    st = mkState (rnd prev + 1) (real_groups cand (elected q1)) (no_group cand) (remaining q1)
                 (tiebreaks q1) d.
Proof.
  intros m tb p prev s s' np st H. unfold Rules.plurality_stage in H.
  apply mbind_ok_inv in H. destruct H as [sts [s1 [Hp H]]].
  destruct sts as [|q0 [|q1 [|q2 sts]]]; try discriminate. cbv zeta in H.
  apply mbind_lift_inv in H. destruct H as [np' [Hnp H]].
  apply mbind_lift_inv in H. destruct H as [d [Hd H]].
  apply mret_ok_inv in H. destruct H as [Heq ->]. inversion Heq; subst.
  exists q0, q1, d. repeat split; assumption.
Qed.

Lemma plurality_stage_quiet : forall m tb p prev (s s' : mstate) np st,
  plurality_stage cand ceqb m tb p prev s = inl ((np, st), s') -> no_tiebreak st -> s' = s.
Proof.
  intros m tb p prev s s' np st H Hq. apply plurality_stage_inv in H.
  destruct H as [q0 [q1 [d [Hp [_ [_ ->]]]]]]. unfold TieSpec.no_tiebreak in Hq. cbn [tiebreaks] in Hq.
  apply run_plurality_inv in Hp. destruct Hp as [_ Hp]. eapply run_one_shot_quiet2; eassumption.
Qed.

Definition renumber (r : Z) (q : estate) : estate :=
  mkState r (remaining q) (elected q) (eliminated q) (tiebreaks q) (escores q).

Lemma run_toptwo_inv : forall tb p (s s' : mstate) sts,
  run_toptwo cand ceqb tb p s = inl (sts, s') ->
  exists s0 p1 s1 sa q0 q1 sb x,
    ranking_validate cand p = inl tt /\ round0 cand ceqb SKFpv p = inl s0 /\
    plurality_stage cand ceqb 2 tb p s0 s = inl ((p1, s1), sa) /\
    run_plurality cand ceqb 1 tb p1 sa = inl ([q0; q1], sb) /\
    one_shot_step cand ceqb SKFpv 1 tb p1 q0 sb = inl (x, s') /\
    sts = [s0; s1; renumber 2 q1].
Proof.
  intros tb p s s' sts H. unfold Rules.run_toptwo in H.
  apply mbind_lift_inv in H. destruct H as [[] [Hv H]].
  apply mbind_lift_inv in H. destruct H as [s0 [H0 H]].
  apply mbind_ok_inv in H. destruct H as [[p1 s1] [sa [H1 H]]].
  apply mbind_ok_inv in H. destruct H as [sts2 [sb [H2 H]]].
  destruct sts2 as [|q0 [|q1 [|q2 sts2]]]; try discriminate.
  apply mbind_ok_inv in H. destruct H as [x [sc [H3 H]]].
  apply mret_ok_inv in H. destruct H as [-> ->].
  exists s0, p1, s1, sa, q0, q1, sb, x. repeat split; assumption.
Qed.

Lemma run_toptwo_quiet : forall tb p (s s' : mstate) sts,
  run_toptwo cand ceqb tb p s = inl (sts, s') -> Forall no_tiebreak sts -> s' = s.
Proof.
  intros tb p s s' sts H Hq. apply run_toptwo_inv in H.
  destruct H as [s0 [p1 [s1 [sa [q0 [q1 [sb [x [_ [_ [H1 [H2 [H3 ->]]]]]]]]]]]]].
  apply Forall_cons_inv in Hq. destruct Hq as [_ Hq].
  apply Forall_cons_inv in Hq. destruct Hq as [Hq1 Hq].
  apply Forall_cons_inv in Hq. destruct Hq as [Hq2 _].
  unfold TieSpec.no_tiebreak, renumber in Hq2. cbn [tiebreaks] in Hq2.
  pose proof (plurality_stage_quiet _ _ _ _ _ _ _ _ H1 Hq1) as ->.
  apply run_plurality_inv in H2. destruct H2 as [_ H2].
  pose proof (run_one_shot_quiet2 _ _ _ _ _ _ _ _ H2 Hq2) as ->.
  (* the replayed step is the very call made by the second Plurality election *)
  apply run_one_shot_inv in H2. destruct H2 as [q0' [np [q1' [_ [Hstep Heq]]]]].
  inversion Heq; subst q0' q1'. rewrite Hstep in H3. inversion H3; subst. reflexivity.
Qed.

Lemma run_alaska_inv : forall m1 m2 cfg p (s s' : mstate) out,
  run_alaska cand ceqb m1 m2 cfg p s = inl (out, s') ->
  exists s0 p1 s1 sa t sts sb pf,
    alaska_args m1 m2 = inl tt /\ ranking_validate cand p = inl tt /\
    round0 cand ceqb SKFpv p = inl s0 /\
    plurality_stage cand ceqb m1 (s_tiebreak cfg) p s0 s = inl ((p1, s1), sa) /\
    stv_init cand (with_m cfg m2) p1 = inl t /\
    run_stv cand ceqb (with_m cfg m2) p1 sa = inl (sts, sb) /\
    stv_replay cand ceqb (with_m cfg m2) t p1 [] p1 (removelast sts) sb = inl (pf, s') /\
    out = s0 :: s1 :: map (bump cand) (tl sts).
Proof.
  intros m1 m2 cfg p s s' out H. unfold Rules.run_alaska in H.
  apply mbind_lift_inv in H. destruct H as [[] [Ha H]].
  apply mbind_lift_inv in H. destruct H as [[] [Hv H]].
  apply mbind_lift_inv in H. destruct H as [s0 [H0 H]].
  apply mbind_ok_inv in H. destruct H as [[p1 s1] [sa [H1 H]]]. cbv zeta in H.
  apply mbind_lift_inv in H. destruct H as [t [Ht H]].
  apply mbind_ok_inv in H. destruct H as [sts [sb [H2 H]]].
  apply mbind_ok_inv in H. destruct H as [pf [sc [H3 H]]].
  apply mret_ok_inv in H. destruct H as [-> ->].
  exists s0, p1, s1, sa, t, sts, sb, pf. repeat split; assumption.
Qed.

Lemma Forall_map_bump : forall l : list estate,
  Forall no_tiebreak (map (bump cand) l) -> Forall no_tiebreak l.
Proof.
  induction l as [|x l IH]; intros H; [constructor|]. cbn [map] in H.
  apply Forall_cons_inv in H. destruct H as [Hx Hl]. constructor; [exact Hx|apply IH; exact Hl].
Qed.

Lemma run_alaska_quiet : forall m1 m2 cfg p (s s' : mstate) out,
  s_transfer cfg <> TRandom ->
  run_alaska cand ceqb m1 m2 cfg p s = inl (out, s') -> Forall no_tiebreak out -> s' = s.
Proof.
  intros m1 m2 cfg p s s' out Hk H Hq. apply run_alaska_inv in H.
  destruct H as [s0 [p1 [s1 [sa [t [sts [sb [pf [_ [_ [_ [H1 [Ht [H2 [H3 ->]]]]]]]]]]]]]]].
  apply Forall_cons_inv in Hq. destruct Hq as [_ Hq].
  apply Forall_cons_inv in Hq. destruct Hq as [Hq1 Hq]. apply Forall_map_bump in Hq.
  pose proof (plurality_stage_quiet _ _ _ _ _ _ _ _ H1 Hq1) as ->.
  assert (Hk2 : s_transfer (with_m cfg m2) <> TRandom) by exact Hk.
  apply run_stv_inv in H2. destruct H2 as [t' [q0 [newer [Ht' [_ [-> Hsteps]]]]]].
  rewrite Ht in Ht'. inversion Ht'; subst t'. cbn [tl] in Hq.
  pose proof (steps_quiet _ _ _ _ _ _ _ _ Hk2 Hsteps Hq) as ->.
  destruct (steps_replay _ _ _ _ _ _ _ _ Hk2 Hsteps Hq q0 [] eq_refl s) as [pf' Hrep].
  cbn [rev] in Hrep. rewrite Hrep in H3. inversion H3; subst. reflexivity.
Qed.

(* ------------------------------------------------------------------ *)
(** * all deterministic rules *)

Theorem run_rule_quiet : forall r p (s s' : mstate) sts,
  deterministic r -> run_rule cand ceqb r p s = inl (sts, s') -> Forall no_tiebreak sts -> s' = s.
Proof.
  intros r p s s' sts Hdet H Hq. destruct r; cbn [Rules.run_rule TieSpec.deterministic] in *.
  - eapply run_stv_quiet; eassumption.
  - apply run_plurality_inv in H. destruct H as [_ H]. eapply run_one_shot_quiet; eassumption.
  - cbv zeta in H. apply mbind_lift_inv in H. destruct H as [[] [_ H]].
    apply mbind_lift_inv in H. destruct H as [[] [_ H]]. eapply run_one_shot_quiet; eassumption.
  - apply run_rating_inv in H. destruct H as [_ [_ H]]. eapply run_one_shot_quiet; eassumption.
  - destruct (Qlt_bool (inject_Z m) k); [discriminate|].
    apply run_rating_inv in H. destruct H as [_ [_ H]]. eapply run_one_shot_quiet; eassumption.
  - cbv zeta in H. apply run_rating_inv in H. destruct H as [_ [_ H]].
    eapply run_one_shot_quiet; eassumption.
  - eapply run_dominating_quiet; eassumption.
  - eapply run_condo_quiet; eassumption.
  - eapply run_toptwo_quiet; eassumption.
  - eapply run_alaska_quiet; eassumption.
  - contradiction.
  - contradiction.
Qed.

(* C10, first sentence: no recorded tiebreak => no draw, and the identical outcome from every
   random script *)
Theorem c10_script_irrelevant_proof : forall (r : rule) (p : profile) (s s' : mstate) (sts : list estate),
  deterministic r ->
  run_rule cand ceqb r p s = inl (sts, s') ->
  Forall no_tiebreak sts ->
  s' = s /\ draws_used cand s s' = 0%nat /\
  forall s2, run_rule cand ceqb r p s2 = inl (sts, s2).
Proof.
  intros r p s s' sts Hdet H Hq. pose proof (run_rule_quiet r p s s' sts Hdet H Hq) as ->.
  split; [reflexivity|]. split; [unfold draws_used; lia|].
  intros s2. exact (local_no_draw_state cand _ _ (Local_run_rule cand ceqb r p) s sts H s2).
Qed.

(* ------------------------------------------------------------------ *)
(** * two runs agree on the rounds before the first recorded tiebreak *)

Definition agree (x : M (list estate)) : Prop :=
  forall (s s' s2 s2' : mstate) sts sts2 k,
    x s = inl (sts, s') -> x s2 = inl (sts2, s2') ->
    Forall no_tiebreak (firstn k sts) -> firstn k sts2 = firstn k sts.

Lemma agree_lift_bind : forall A (r : res A) (f : A -> M (list estate)),
  (forall a, agree (f a)) -> agree (mbind (mlift r) f).
Proof.
  intros A r f Hf s s' s2 s2' sts sts2 k H H2 Hq.
  apply mbind_lift_inv in H. destruct H as [a [Hr H]].
  apply mbind_lift_inv in H2. destruct H2 as [a2 [Hr2 H2]].
  rewrite Hr in Hr2. inversion Hr2; subst a2. eapply Hf; eassumption.
Qed.

Lemma agree_run_one_shot : forall k m tb p, agree (run_one_shot cand ceqb k m tb p).
Proof.
  intros k m tb p s s' s2 s2' sts sts2 n H H2 Hq.
  apply run_one_shot_inv in H. destruct H as [s0 [np [s1 [H0 [H1 ->]]]]].
  apply run_one_shot_inv in H2. destruct H2 as [s0' [np' [s1' [H0' [H1' ->]]]]].
  rewrite H0 in H0'. inversion H0'; subst s0'.
  destruct n as [|[|n]]; [reflexivity|reflexivity|]. cbn [firstn] in Hq |- *.
  apply Forall_cons_inv in Hq. destruct Hq as [_ Hq].
  apply Forall_cons_inv in Hq. destruct Hq as [Hq1 _].
  pose proof (one_shot_step_quiet _ _ _ _ _ _ _ _ _ H1 Hq1) as ->.
  rewrite (local_no_draw_state cand _ _ (Local_one_shot_step cand ceqb _ _ _ _ _) _ _ H1 s2) in H1'.
  inversion H1'; subst. reflexivity.
Qed.

Lemma agree_run_rating : forall m L k tb p, agree (run_rating cand ceqb m L k tb p).
Proof.
  intros m L k tb p. unfold Rules.run_rating. apply agree_lift_bind. intros u.
  apply agree_lift_bind. intros u'. apply agree_run_one_shot.
Qed.

Lemma agree_run_plurality : forall m tb p, agree (run_plurality cand ceqb m tb p).
Proof.
  intros m tb p. unfold Rules.run_plurality. apply agree_lift_bind. intros u. apply agree_run_one_shot.
Qed.

(* a computation that never draws *)
Lemma agree_always_quiet : forall x : M (list estate), Local x ->
  (forall (s s' : mstate) sts, x s = inl (sts, s') -> s' = s) -> agree x.
Proof.
  intros x HL Hquiet s s' s2 s2' sts sts2 k H H2 _.
  pose proof (Hquiet _ _ _ H) as ->.
  rewrite (local_no_draw_state cand _ _ HL _ _ H s2) in H2. inversion H2; subst. reflexivity.
Qed.

Lemma agree_run_condo : forall m p, agree (run_condo cand ceqb m p).
Proof.
  intros m p s s' s2 s2' sts sts2 n H H2 Hq.
  apply run_condo_inv in H. destruct H as [s0 [np [s1 [_ [H0 [H1 ->]]]]]].
  apply run_condo_inv in H2. destruct H2 as [s0' [np' [s1' [_ [H0' [H1' ->]]]]]].
  rewrite H0 in H0'. inversion H0'; subst s0'.
  destruct n as [|[|n]]; [reflexivity|reflexivity|]. cbn [firstn] in Hq |- *.
  apply Forall_cons_inv in Hq. destruct Hq as [_ Hq].
  apply Forall_cons_inv in Hq. destruct Hq as [Hq1 _].
  assert (Hs : s' = s).
  { pose proof H1 as H1c. apply condo_step_inv in H1c.
    destruct H1c as [tiers [el [rem [t [d [_ [He [_ [_ Hst]]]]]]]]]. subst s1.
    unfold TieSpec.no_tiebreak in Hq1. cbn [tiebreaks] in Hq1. apply tb_list_nil in Hq1. subst t.
    eapply elect_top_m_quiet. exact He. }
  subst s'.
  rewrite (local_no_draw_state cand _ _ (Local_condo_step cand ceqb _ _) _ _ H1 s2) in H1'.
  inversion H1'; subst. reflexivity.
Qed.

Lemma agree_run_stv : forall cfg p, s_transfer cfg <> TRandom -> agree (run_stv cand ceqb cfg p).
Proof.
  intros cfg p Hk s s' s2 s2' sts sts2 n H H2 Hq.
  apply run_stv_inv in H. destruct H as [t [s0 [newer [Ht [H0 [-> Hsteps]]]]]].
  apply run_stv_inv in H2. destruct H2 as [t' [s0' [newer2 [Ht' [H0' [-> Hsteps2]]]]]].
  rewrite Ht in Ht'. inversion Ht'; subst t'. rewrite H0 in H0'. inversion H0'; subst s0'.
  destruct n as [|n]; [reflexivity|]. cbn [firstn] in Hq |- *.
  apply Forall_cons_inv in Hq. destruct Hq as [_ Hq]. f_equal.
  eapply steps_agree; eassumption.
Qed.

Lemma plurality_stage_agree : forall m tb p prev (s s' s2 s2' : mstate) np st np2 st2,
  plurality_stage cand ceqb m tb p prev s = inl ((np, st), s') ->
  plurality_stage cand ceqb m tb p prev s2 = inl ((np2, st2), s2') ->
  no_tiebreak st -> np2 = np /\ st2 = st /\ s' = s /\ s2' = s2.
Proof.
  intros m tb p prev s s' s2 s2' np st np2 st2 H H2 Hq.
  pose proof (plurality_stage_quiet _ _ _ _ _ _ _ _ H Hq) as ->.
  rewrite (local_no_draw_state cand _ _ (Local_plurality_stage cand ceqb _ _ _ _) _ _ H s2) in H2.
  inversion H2; subst. repeat split.
Qed.

Lemma agree_run_toptwo : forall tb p, agree (run_toptwo cand ceqb tb p).
Proof.
  intros tb p s s' s2 s2' sts sts2 n H H2 Hq.
  apply run_toptwo_inv in H.
  destruct H as [s0 [p1 [s1 [sa [q0 [q1 [sb [x [_ [H0 [H1 [Hp [_ ->]]]]]]]]]]]]].
  apply run_toptwo_inv in H2.
  destruct H2 as [s0' [p1' [s1' [sa' [q0' [q1' [sb' [x' [_ [H0' [H1' [Hp' [_ ->]]]]]]]]]]]]].
  rewrite H0 in H0'. inversion H0'; subst s0'.
  destruct n as [|[|n]]; [reflexivity|reflexivity|]. cbn [firstn] in Hq |- *.
  apply Forall_cons_inv in Hq. destruct Hq as [_ Hq].
  apply Forall_cons_inv in Hq. destruct Hq as [Hq1 Hq].
  destruct (plurality_stage_agree _ _ _ _ _ _ _ _ _ _ _ _ H1 H1' Hq1) as [-> [-> [-> ->]]].
  destruct n as [|n]; [reflexivity|]. cbn [firstn] in Hq |- *.
  apply Forall_cons_inv in Hq. destruct Hq as [Hq2 _].
  unfold TieSpec.no_tiebreak, renumber in Hq2. cbn [tiebreaks] in Hq2.
  pose proof Hp as Hpc. apply run_plurality_inv in Hpc. destruct Hpc as [_ Hpc].
  pose proof (run_one_shot_quiet2 _ _ _ _ _ _ _ _ Hpc Hq2) as ->.
  rewrite (local_no_draw_state cand _ _ (Local_run_plurality cand ceqb _ _ _) _ _ Hp s2) in Hp'.
  inversion Hp'; subst. reflexivity.
Qed.

Lemma firstn_map_bump : forall k (l : list estate),
  firstn k (map (bump cand) l) = map (bump cand) (firstn k l).
Proof. intros k l. apply firstn_map. Qed.

Lemma agree_run_alaska : forall m1 m2 cfg p,
  s_transfer cfg <> TRandom -> agree (run_alaska cand ceqb m1 m2 cfg p).
Proof.
  intros m1 m2 cfg p Hk s s' s2 s2' out out2 n H H2 Hq.
  apply run_alaska_inv in H.
  destruct H as [s0 [p1 [s1 [sa [t [sts [sb [pf [_ [_ [H0 [H1 [Ht [Hr [_ ->]]]]]]]]]]]]]]].
  apply run_alaska_inv in H2.
  destruct H2 as [s0' [p1' [s1' [sa' [t' [sts' [sb' [pf' [_ [_ [H0' [H1' [Ht' [Hr' [_ ->]]]]]]]]]]]]]]].
  rewrite H0 in H0'. inversion H0'; subst s0'.
  destruct n as [|[|n]]; [reflexivity|reflexivity|]. cbn [firstn] in Hq |- *.
  apply Forall_cons_inv in Hq. destruct Hq as [_ Hq].
  apply Forall_cons_inv in Hq. destruct Hq as [Hq1 Hq].
  destruct (plurality_stage_agree _ _ _ _ _ _ _ _ _ _ _ _ H1 H1' Hq1) as [-> [-> [-> ->]]].
  do 2 f_equal.
  assert (Hk2 : s_transfer (with_m cfg m2) <> TRandom) by exact Hk.
  apply run_stv_inv in Hr. destruct Hr as [t1 [q0 [newer [Ht1 [Hq0 [-> Hsteps]]]]]].
  apply run_stv_inv in Hr'. destruct Hr' as [t2 [q0' [newer2 [Ht2 [Hq0' [-> Hsteps2]]]]]].
  rewrite Hq0 in Hq0'. inversion Hq0'; subst q0'.
  (* both loops use the threshold computed by the STV object for p1 *)
  rewrite Ht1 in Ht2. inversion Ht2; subst t2. cbn [tl] in Hq |- *.
  rewrite firstn_map_bump in Hq. apply Forall_map_bump in Hq.
  rewrite !firstn_map_bump. f_equal.
  eapply steps_agree; eassumption.
Qed.

Theorem c10_agree_until_tiebreak_proof :
  forall (r : rule) (p : profile) (s s' s2 s2' : mstate) (sts sts2 : list estate) (k : nat),
  deterministic r ->
  run_rule cand ceqb r p s = inl (sts, s') ->
  run_rule cand ceqb r p s2 = inl (sts2, s2') ->
  Forall no_tiebreak (firstn k sts) -> firstn k sts2 = firstn k sts.
Proof.
  intros r p s s' s2 s2' sts sts2 k Hdet.
  assert (Hag : agree (run_rule cand ceqb r p)).
  { destruct r; cbn [Rules.run_rule TieSpec.deterministic] in *.
    - apply agree_run_stv. exact Hdet.
    - apply agree_run_plurality.
    - cbv zeta. apply agree_lift_bind. intros u. apply agree_lift_bind. intros u'.
      apply agree_run_one_shot.
    - apply agree_run_rating.
    - destruct (Qlt_bool (inject_Z m) k0).
      + intros a b c d e f g Hfail. discriminate.
      + apply agree_run_rating.
    - cbv zeta. apply agree_run_rating.
    - apply agree_always_quiet; [apply Local_run_dominating|]. intros a b c. apply run_dominating_quiet.
    - apply agree_run_condo.
    - apply agree_run_toptwo.
    - apply agree_run_alaska. exact Hdet.
    - contradiction.
    - contradiction. }
  intros H H2 Hq. eapply Hag; eassumption.
Qed.

End Quiet.
