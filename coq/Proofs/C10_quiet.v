(* Proofs/C10_quiet.v — C10, part 2: for every deterministic rule, a run none of whose states
   records a tiebreak consumed no draw (every draw happens inside a [tiebreak_set] call whose
   (set, resolution) pair is recorded in a returned state), hence by locality (C10_script.v) gives
   the identical outcome from every random script; and two runs agree on the rounds before the
   first recorded tiebreak. *)
From VK Require Import Base Core STV Pairwise Rules.
From VK.Spec Require Import ScoreSpec TieSpec.
From VK.Proofs Require Import Lib_sets Elect C10_script.
From Coq Require Import Permutation Lia.

Section Quiet.
Variable cand : Type.
Variable ceqb : cand -> cand -> bool.
Hypothesis ceqb_spec : forall a b, reflect (a = b) (ceqb a b).

Notation cset := (cset cand).
Notation ranking := (ranking cand).
Notation profile := (profile cand).
Notation scores := (scores cand).
Notation mstate := (mstate cand).
Notation estate := (estate cand).
Notation M := (M cand).
Notation flat := (flat cand).
Notation Local := (Local cand).
Notation no_tiebreak := (no_tiebreak cand).

(* ------------------------------------------------------------------ *)
(** * inversion of the monad operations *)

Lemma mbind_ok_inv : forall A B (x : M A) (f : A -> M B) s b s',
  mbind x f s = inl (b, s') -> exists a s1, x s = inl (a, s1) /\ f a s1 = inl (b, s').
Proof.
  intros A B x f s b s' H. unfold mbind in H. destruct (x s) as [[a s1]|e]; [|discriminate].
  exists a, s1. split; [reflexivity|exact H].
Qed.

Lemma mlift_ok_inv : forall A (r : res A) (s : mstate) a s',
  mlift r s = inl (a, s') -> r = inl a /\ s' = s.
Proof.
  intros A r s a s' H. unfold mlift in H. destruct r as [a0|e]; [|discriminate].
  unfold ok in H. inversion H; subst. split; reflexivity.
Qed.

Lemma mret_ok_inv : forall A (a : A) (s : mstate) b s',
  mret a s = inl (b, s') -> b = a /\ s' = s.
Proof. intros A a s b s' H. unfold mret, ok in H. inversion H; subst. split; reflexivity. Qed.

Lemma mbind_lift_inv : forall A B (r : res A) (f : A -> M B) s b s',
  mbind (mlift r) f s = inl (b, s') -> exists a, r = inl a /\ f a s = inl (b, s').
Proof.
  intros A B r f s b s' H. apply mbind_ok_inv in H. destruct H as [a [s1 [H1 H2]]].
  apply mlift_ok_inv in H1. destruct H1 as [Hr ->]. exists a. split; assumption.
Qed.

(* ------------------------------------------------------------------ *)
(** * one-shot rules *)

Lemma elect_top_m_quiet : forall r m p tb (s s' : mstate) el rem,
  elect_top_m cand ceqb r m p tb s = inl ((el, rem, None), s') -> s' = s.
Proof.
  intros r m p tb s s' el rem H.
  destruct (elect_top_m_shape cand ceqb _ _ _ _ _ _ _ _ _ H) as [_ [Hq|Hn]].
  - destruct Hq as [_ [Hs _]]. exact Hs.
  - destruct Hn as [pre [g [post [t [kind [k [_ [_ [_ [_ [_ [_ [_ [_ Hsome]]]]]]]]]]]]]]. discriminate.
Qed.

Definition tb_list (t : option (cset * ranking)) : list (cset * ranking) :=
  match t with Some x => [x] | None => [] end.

Lemma tb_list_nil : forall t, tb_list t = [] -> t = None.
Proof. intros [x|] H; [discriminate|reflexivity]. Qed.

Lemma one_shot_step_inv : forall k m tb p prev (s s' : mstate) np st,
  one_shot_step cand ceqb k m tb p prev s = inl ((np, st), s') ->
  exists el rem t d,
    elect_top_m cand ceqb (remaining prev) m (Some p) tb s = inl ((el, rem, t), s') /\
    remove_cand_prof cand ceqb (flat el) true false p = inl np /\
    score_fn cand ceqb k np = inl d /\
    st = mkState 1 rem el (no_group cand) (tb_list t) d.
Proof.
  intros k m tb p prev s s' np st H. unfold Rules.one_shot_step in H.
  apply mbind_ok_inv in H. destruct H as [[[el rem] t] [s1 [He H]]].
  apply mbind_lift_inv in H. destruct H as [np' [Hnp H]].
  apply mbind_lift_inv in H. destruct H as [d [Hd H]].
  apply mret_ok_inv in H. destruct H as [Heq ->]. inversion Heq; subst.
  exists el, rem, t, d. repeat split; assumption.
Qed.

Lemma one_shot_step_quiet : forall k m tb p prev (s s' : mstate) np st,
  one_shot_step cand ceqb k m tb p prev s = inl ((np, st), s') -> no_tiebreak st -> s' = s.
Proof.
  intros k m tb p prev s s' np st H Hq. apply one_shot_step_inv in H.
  destruct H as [el [rem [t [d [He [_ [_ ->]]]]]]]. unfold TieSpec.no_tiebreak in Hq. cbn [tiebreaks] in Hq.
  apply tb_list_nil in Hq. subst t. eapply elect_top_m_quiet. exact He.
Qed.

Lemma run_one_shot_inv : forall k m tb p (s s' : mstate) sts,
  run_one_shot cand ceqb k m tb p s = inl (sts, s') ->
  exists s0 np s1, round0 cand ceqb k p = inl s0 /\
    one_shot_step cand ceqb k m tb p s0 s = inl ((np, s1), s') /\ sts = [s0; s1].
Proof.
  intros k m tb p s s' sts H. unfold Rules.run_one_shot in H.
  apply mbind_lift_inv in H. destruct H as [s0 [H0 H]].
  apply mbind_ok_inv in H. destruct H as [[np s1] [s2 [H1 H]]].
  apply mret_ok_inv in H. destruct H as [-> ->]. exists s0, np, s1. repeat split; assumption.
Qed.

Lemma round0_no_tiebreak : forall k p s0, round0 cand ceqb k p = inl s0 -> tiebreaks s0 = [].
Proof.
  intros k p s0 H. unfold Rules.round0 in H. destruct (score_fn cand ceqb k p) as [d|e]; [|discriminate].
  cbn [rbind] in H. unfold ok in H. inversion H; subst. reflexivity.
Qed.

Lemma Forall_two : forall X (P : X -> Prop) a b, Forall P [a; b] -> P a /\ P b.
Proof.
  intros X P a b H. inversion H as [|x l Ha H']; subst. inversion H' as [|y l' Hb _]; subst.
  split; assumption.
Qed.

Lemma run_one_shot_quiet : forall k m tb p (s s' : mstate) sts,
  run_one_shot cand ceqb k m tb p s = inl (sts, s') -> Forall no_tiebreak sts -> s' = s.
Proof.
  intros k m tb p s s' sts H Hq. apply run_one_shot_inv in H.
  destruct H as [s0 [np [s1 [_ [H1 ->]]]]]. apply Forall_two in Hq. destruct Hq as [_ Hq1].
  eapply one_shot_step_quiet; eassumption.
Qed.

Lemma run_rating_inv : forall m L k tb p (s s' : mstate) sts,
  run_rating cand ceqb m L k tb p s = inl (sts, s') ->
  rating_args m L k = inl tt /\ rating_validate cand L k p = inl tt /\
  run_one_shot cand ceqb SKBallotScores m tb p s = inl (sts, s').
Proof.
  intros m L k tb p s s' sts H. unfold Rules.run_rating in H.
  apply mbind_lift_inv in H. destruct H as [[] [Ha H]].
  apply mbind_lift_inv in H. destruct H as [[] [Hv H]]. repeat split; assumption.
Qed.

Lemma run_plurality_inv : forall m tb p (s s' : mstate) sts,
  run_plurality cand ceqb m tb p s = inl (sts, s') ->
  ranking_validate cand p = inl tt /\ run_one_shot cand ceqb SKFpv m tb p s = inl (sts, s').
Proof.
  intros m tb p s s' sts H. unfold Rules.run_plurality in H.
  apply mbind_lift_inv in H. destruct H as [[] [Hv H]]. split; assumption.
Qed.

Lemma run_dominating_quiet : forall p (s s' : mstate) sts,
  run_dominating cand ceqb p s = inl (sts, s') -> s' = s.
Proof.
  intros p s s' sts H. unfold Rules.run_dominating in H.
  apply mbind_lift_inv in H. destruct H as [[] [_ H]].
  apply mbind_lift_inv in H. destruct H as [t [_ H]].
  destruct t as [|top rest]; [discriminate|].
  apply mbind_lift_inv in H. destruct H as [np [_ H]].
  apply mret_ok_inv in H. destruct H as [_ ->]. reflexivity.
Qed.

Lemma condo_step_inv : forall m p (s s' : mstate) np st,
  condo_step cand ceqb m p s = inl ((np, st), s') ->
  exists tiers el rem t d,
    dominating_tiers cand ceqb p = inl tiers /\
    elect_top_m cand ceqb tiers m (Some p) (Some TBBorda) s = inl ((el, rem, t), s') /\
    remove_cand_prof cand ceqb (flat el) true false p = inl np /\
    borda_scores cand ceqb np = inl d /\
    st = mkState 1 rem el (no_group cand) (tb_list t) d.
Proof.
  intros m p s s' np st H. unfold Rules.condo_step in H.
  apply mbind_lift_inv in H. destruct H as [tiers [Ht H]].
  apply mbind_ok_inv in H. destruct H as [[[el rem] t] [s1 [He H]]].
  apply mbind_lift_inv in H. destruct H as [np' [Hnp H]].
  apply mbind_lift_inv in H. destruct H as [d [Hd H]].
  apply mret_ok_inv in H. destruct H as [Heq ->]. inversion Heq; subst.
  exists tiers, el, rem, t, d. repeat split; assumption.
Qed.

Lemma run_condo_inv : forall m p (s s' : mstate) sts,
  run_condo cand ceqb m p s = inl (sts, s') ->
  exists s0 np s1, ranking_validate cand p = inl tt /\ round0 cand ceqb SKBorda p = inl s0 /\
    condo_step cand ceqb m p s = inl ((np, s1), s') /\ sts = [s0; s1].
Proof.
  intros m p s s' sts H. unfold Rules.run_condo in H.
  apply mbind_lift_inv in H. destruct H as [[] [Hv H]].
  apply mbind_lift_inv in H. destruct H as [s0 [H0 H]].
  apply mbind_ok_inv in H. destruct H as [[np s1] [s2 [H1 H]]].
  apply mret_ok_inv in H. destruct H as [-> ->]. exists s0, np, s1. repeat split; assumption.
Qed.

Lemma run_condo_quiet : forall m p (s s' : mstate) sts,
  run_condo cand ceqb m p s = inl (sts, s') -> Forall no_tiebreak sts -> s' = s.
Proof.
  intros m p s s' sts H Hq. apply run_condo_inv in H.
  destruct H as [s0 [np [s1 [_ [_ [H1 ->]]]]]]. apply Forall_two in Hq. destruct Hq as [_ Hq1].
  apply condo_step_inv in H1. destruct H1 as [tiers [el [rem [t [d [_ [He [_ [_ ->]]]]]]]]].
  unfold TieSpec.no_tiebreak in Hq1. cbn [tiebreaks] in Hq1. apply tb_list_nil in Hq1. subst t.
  eapply elect_top_m_quiet. exact He.
Qed.

(* ------------------------------------------------------------------ *)
(** * STV with a deterministic transfer *)

Lemma do_transfer_quiet : forall k w fpv bs t (s s' : mstate) a,
  k <> TRandom -> do_transfer cand ceqb k w fpv bs t s = inl (a, s') -> s' = s.
Proof.
  intros k w fpv bs t s s' a Hk H. destruct k; [|contradiction|]; cbn [STV.do_transfer] in H;
    apply mlift_ok_inv in H; destruct H as [_ ->]; reflexivity.
Qed.

Lemma transfer_all_quiet : forall k ws p d t (s s' : mstate) a,
  k <> TRandom -> transfer_all cand ceqb k ws p d t s = inl (a, s') -> s' = s.
Proof.
  intros k ws p d t s s' a Hk. revert s s' a. induction ws as [|w ws IH]; intros s s' a H;
    cbn [STV.transfer_all] in H.
  - apply mret_ok_inv in H. destruct H as [_ ->]. reflexivity.
  - destruct (negb (memb cand ceqb w (cands p))); [discriminate|].
    apply mbind_ok_inv in H. destruct H as [a1 [s1 [H1 H]]].
    apply mbind_ok_inv in H. destruct H as [a2 [s2 [H2 H]]].
    apply mret_ok_inv in H. destruct H as [_ ->].
    apply do_transfer_quiet in H1; [|exact Hk]. apply IH in H2. congruence.
Qed.

Lemma simultaneous_elect_quiet : forall cfg t p prev (s s' : mstate) a,
  s_transfer cfg <> TRandom -> simultaneous_elect cand ceqb cfg t p prev s = inl (a, s') -> s' = s.
Proof.
  intros cfg t p prev s s' a Hk H. unfold STV.simultaneous_elect in H.
  apply mbind_lift_inv in H. destruct H as [el [_ H]].
  apply mbind_lift_inv in H. destruct H as [[] [_ H]]. cbv zeta in H.
  apply mbind_ok_inv in H. destruct H as [moved [s1 [Hm H]]].
  apply transfer_all_quiet in Hm; [|exact Hk]. subst s1.
  destruct (negb (subsetb cand ceqb _ (cands p))); [discriminate|].
  apply mbind_lift_inv in H. destruct H as [np [_ H]].
  apply mret_ok_inv in H. destruct H as [_ ->]. reflexivity.
Qed.

(* the one-by-one election: the only draws are those of the top-1 selection, recorded in [tbs] *)
Lemma single_elect_inv : forall cfg t p prev (s s' : mstate) el tbs np,
  s_transfer cfg <> TRandom ->
  single_elect cand ceqb cfg t p prev s = inl ((el, tbs, np), s') ->
  exists rem tb,
    elect_top_m cand ceqb (remaining prev) 1 (Some p) (s_tiebreak cfg) s = inl ((el, rem, tb), s') /\
    tbs = tb_list tb.
Proof.
  intros cfg t p prev s s' el tbs np Hk H. unfold STV.single_elect in H.
  apply mbind_ok_inv in H. destruct H as [[[el0 rem] tb] [s1 [He H]]]. cbv zeta in H.
  apply mbind_lift_inv in H. destruct H as [[] [_ H]].
  destruct el0 as [|[|w g] el']; try discriminate.
  destruct (negb (memb cand ceqb w (cands p))); [discriminate|].
  apply mbind_ok_inv in H. destruct H as [moved [s2 [Hm H]]].
  apply do_transfer_quiet in Hm; [|exact Hk]. subst s2.
  destruct (negb (subsetb cand ceqb (flat rem) (cands p))); [discriminate|].
  apply mbind_lift_inv in H. destruct H as [np' [_ H]].
  apply mret_ok_inv in H. destruct H as [Heq ->]. inversion Heq; subst.
  exists rem, tb. split; [exact He|reflexivity].
Qed.

Definition above_quota (t : Q) (prev : estate) : scores :=
  filter (fun q => Qle_bool t (snd q)) (escores prev).

(* the four ways a round of STV can go, with the draws each may make *)
Lemma stv_step_inv : forall cfg t p0 n p prev (s s' : mstate) np st,
  s_transfer cfg <> TRandom ->
  stv_step cand ceqb cfg t p0 n p prev s = inl ((np, st), s') ->
  exists el elim tbs d,
    first_place_votes cand ceqb np = inl d /\
    st = state_of_scores cand (rnd prev + 1) el elim tbs d /\
    ((* simultaneous election of everybody above quota: no draw *)
     (above_quota t prev <> [] /\ s_simul cfg = true /\ elim = no_group cand /\ tbs = [] /\ s' = s /\
      simultaneous_elect cand ceqb cfg t p prev s = inl ((el, np), s))
     \/
     (* one-by-one election: top-1 selection of the ranking *)
     (above_quota t prev <> [] /\ s_simul cfg = false /\ elim = no_group cand /\
      single_elect cand ceqb cfg t p prev s = inl ((el, tbs, np), s') /\
      exists rem tb,
        elect_top_m cand ceqb (remaining prev) 1 (Some p) (s_tiebreak cfg) s = inl ((el, rem, tb), s') /\
        tbs = tb_list tb)
     \/
     (* as many candidates left as open seats: all elected, no draw *)
     (above_quota t prev = [] /\ el = remaining prev /\ elim = no_group cand /\ tbs = [] /\
      np = empty_profile cand /\ s' = s)
     \/
     (* elimination of one member of the lowest group *)
     (above_quota t prev = [] /\ el = no_group cand /\
      exists lowest rest x,
        rev (remaining prev) = lowest :: rest /\ elim = [[x]] /\
        remove_cand_prof cand ceqb [x] true false p = inl np /\
        ((lowest = [x] /\ tbs = [] /\ s' = s)
         \/
         ((2 <= length lowest)%nat /\
          exists tb g' rest',
            tiebreak_set cand ceqb lowest (Some p0) TBFirstPlace s = inl (tb, s') /\
            rev tb = (x :: g') :: rest' /\ tbs = [(lowest, tb)])))).
Proof.
  intros cfg t p0 n p prev s s' np st Hk H. unfold STV.stv_step in H. cbv zeta in H.
  fold (above_quota t prev) in H.
  apply mbind_ok_inv in H. destruct H as [[[[el elim] tbs] np0] [s1 [Hb H]]].
  apply mbind_lift_inv in H. destruct H as [d [Hd H]].
  apply mret_ok_inv in H. destruct H as [Heq ->]. inversion Heq; subst np0 st. clear Heq.
  exists el, elim, tbs, d. split; [exact Hd|]. split; [reflexivity|].
  destruct (above_quota t prev) as [|q0 above] eqn:Habove.
  - destruct (Z.eqb _ _).
    + apply mret_ok_inv in Hb. destruct Hb as [Heq ->]. inversion Heq; subst.
      right. right. left. repeat split.
    + destruct (rev (remaining prev)) as [|lowest rest] eqn:Hrev; [discriminate|].
      apply mbind_ok_inv in Hb. destruct Hb as [[x tbs0] [s2 [Hx Hb]]].
      apply mbind_lift_inv in Hb. destruct Hb as [np1 [Hnp Hb]].
      apply mret_ok_inv in Hb. destruct Hb as [Heq ->]. inversion Heq; subst. clear Heq.
      right. right. right. split; [reflexivity|]. split; [reflexivity|].
      exists lowest, rest, x. split; [reflexivity|]. split; [reflexivity|]. split; [exact Hnp|].
      destruct lowest as [|c [|c' g]]; [discriminate| |].
      * apply mret_ok_inv in Hx. destruct Hx as [Heq ->]. inversion Heq; subst.
        left. repeat split.
      * apply mbind_ok_inv in Hx. destruct Hx as [tb [s3 [Htb Hx]]].
        destruct (rev tb) as [|[|c0 g0] rest0] eqn:Hrtb; try discriminate.
        apply mret_ok_inv in Hx. destruct Hx as [Heq ->]. inversion Heq; subst.
        right. split; [cbn [length]; lia|]. exists tb, g0, rest0. repeat split. exact Htb.
  - destruct (s_simul cfg) eqn:Hsim.
    + apply mbind_ok_inv in Hb. destruct Hb as [[el0 np1] [s2 [Hs Hb]]].
      apply mret_ok_inv in Hb. destruct Hb as [Heq ->]. inversion Heq; subst. clear Heq.
      pose proof (simultaneous_elect_quiet _ _ _ _ _ _ _ Hk Hs) as ->.
      left. repeat split; try discriminate. exact Hs.
    + apply mbind_ok_inv in Hb. destruct Hb as [[[el0 tbs0] np1] [s2 [Hs Hb]]].
      apply mret_ok_inv in Hb. destruct Hb as [Heq ->]. inversion Heq; subst. clear Heq.
      right. left. split; [discriminate|]. split; [reflexivity|]. split; [reflexivity|].
      split; [exact Hs|]. eapply single_elect_inv; eassumption.
Qed.

Lemma stv_step_quiet : forall cfg t p0 n p prev (s s' : mstate) np st,
  s_transfer cfg <> TRandom ->
  stv_step cand ceqb cfg t p0 n p prev s = inl ((np, st), s') -> no_tiebreak st -> s' = s.
Proof.
  intros cfg t p0 n p prev s s' np st Hk H Hq.
  destruct (stv_step_inv _ _ _ _ _ _ _ _ _ _ Hk H) as [el [elim [tbs [d [_ [-> Hc]]]]]].
  unfold TieSpec.no_tiebreak in Hq. cbn [STV.state_of_scores tiebreaks] in Hq. subst tbs.
  destruct Hc as [Hc|[Hc|[Hc|Hc]]].
  - destruct Hc as [_ [_ [_ [_ [Hs _]]]]]. exact Hs.
  - destruct Hc as [_ [_ [_ [_ [rem [tb [He Htb]]]]]]]. symmetry in Htb. apply tb_list_nil in Htb.
    subst tb. eapply elect_top_m_quiet. exact He.
  - destruct Hc as [_ [_ [_ [_ [_ Hs]]]]]. exact Hs.
  - destruct Hc as [_ [_ [lowest [rest [x [_ [_ [_ [Hc|Hc]]]]]]]]].
    + destruct Hc as [_ [_ Hs]]. exact Hs.
    + destruct Hc as [_ [tb [g' [rest' [_ [_ Hcontra]]]]]]. discriminate.
Qed.

End Quiet.
