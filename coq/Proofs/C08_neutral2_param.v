(* Proofs/C08_neutral2_param.v — the parametricity translation (Paramcoq) of the part of the model
   that Proofs/ParamModel.v does not translate: PluralityVeto (Model/PV.v), the wrapper classes
   and the get_profile / get_step replays (Model/Election.v, Election2.v), and the line-by-line
   reading of get_condorcet_winner (Spec/CondorcetWinnerFn.v).
   Same recipe as ParamModel.v: [pv_loop] tests its stopping condition BEFORE matching on its fuel,
   a shape for which Paramcoq leaves proof obligations; we translate the variant [pv_loop_p] that
   matches on the fuel first, prove [pv_loop = pv_loop_p] pointwise, and register the transported
   free theorem as the [Realizer] of [pv_loop].  Everything else goes through Paramcoq as is.
   No axiom. *)
From Param Require Import Param.
From VK Require Import Base Core STV Pairwise Rules PV Election Election2 ParamArith ParamModel.
From VK.Spec Require Import CondorcetWinnerFn.

(* ---------- pairwise: get_condorcet_winner ---------- *)
Parametricity Recursive get_condorcet_winner.

(* ---------- get_profile / get_step for every rule ---------- *)
Parametricity Recursive replay_step.
Parametricity Recursive replay_steps.
Parametricity Recursive get_profile.
Parametricity Recursive get_step.

(* ---------- PluralityVeto ---------- *)
Parametricity Recursive pv_validate.
Parametricity Recursive has_tie.
Parametricity Recursive decondense.
Parametricity Recursive pv_scores.
Parametricity Recursive dec.
Parametricity Recursive veto_loop.
Parametricity Recursive pv_step.

Section Friendly3.
Variable cand : Type.
Variable ceqb : cand -> cand -> bool.

Fixpoint pv_loop_p (fuel : nat) (m : Z) (tb : option tb_kind) (n_cands : nat) (o : pv_obj cand)
         (p : profile cand) (sts : list (estate cand)) {struct fuel}
  : M cand (list (estate cand)) :=
  match fuel with
  | O => if (m <=? count_elected cand sts)%Z then mret (rev sts) else mfail EFuel
  | S fuel' =>
      if (m <=? count_elected cand sts)%Z then mret (rev sts)
      else
        match sts with
        | [] => mfail EOther
        | prev :: _ =>
            do! (o', np, st) := pv_step cand ceqb m tb n_cands o p prev in
            pv_loop_p fuel' m tb n_cands o' np (st :: sts)
        end
  end.
Lemma pv_loop_p_eq : forall fuel m tb n o p sts s,
  pv_loop cand ceqb fuel m tb n o p sts s = pv_loop_p fuel m tb n o p sts s.
Proof.
  induction fuel as [|fuel' IH]; intros m tb n o p sts s.
  - cbn [pv_loop pv_loop_p]. destruct (m <=? count_elected cand sts)%Z; reflexivity.
  - cbn [pv_loop pv_loop_p].
    destruct (m <=? count_elected cand sts)%Z; [reflexivity|].
    destruct sts as [|prev rest]; [reflexivity|].
    unfold mbind.
    destruct (pv_step cand ceqb m tb n o p prev s) as [[[[o' np] st] s']|e];
      [apply IH|reflexivity].
Defined.
End Friendly3.

Parametricity Recursive pv_loop_p.
Definition pv_loop_real : ltac:(retarget (@pv_loop_p) (@pv_loop) pv_loop_p_R).
Proof.
  intros. unfold M_R. intros s₁ s₂ s_R. rewrite !pv_loop_p_eq.
  apply pv_loop_p_R; assumption.
Defined.
Realizer pv_loop as pv_loop_R := pv_loop_real.

Parametricity Recursive run_pv.

(* ---------- every public election class ---------- *)
Parametricity Recursive run_wrule.
