(* Proofs/C01_pv2_veto.v — the veto pass of PluralityVeto (Model/PV.v, [veto_loop]):
   V1 [veto_hit_in]       the candidate struck out is a last-place candidate of a ballot of the pass;
   V2 [veto_none_progress] a pass that strikes nobody out handled no live ballot (counting argument);
   V3 [veto_tbs]          what the recorded tie-break is;
   V4 [veto_err]          the only way the pass fails on well-formed data is a failing tie-break. *)
From VK Require Import Base Core STV Rules PV.
From VK.Spec Require Import ScoreSpec STVSpec RunSpec.
From VK.Proofs Require Import Lib_sets C04_scoring Elect C12_edit STV_tb STV_inv C01_lib C01_pv C01_pv2_lib.
From Coq Require Import Permutation Lia Lqa.

Section Veto.
Variable cand : Type.
Variable ceqb : cand -> cand -> bool.
Hypothesis ceqb_spec : forall a b, reflect (a = b) (ceqb a b).

Notation cset := (cset cand).
Notation ranking := (ranking cand).
Notation ballot := (ballot cand).
Notation profile := (profile cand).
Notation scores := (scores cand).
Notation mstate := (mstate cand).
Notation M := (M cand).
Notation flat := (flat cand).
Notation lookup0 := (lookup0 cand ceqb).
Notation dec := (dec cand ceqb).
Notation dec_map := (dec_map cand ceqb).
Notation veto_loop := (veto_loop cand ceqb).
Notation tiebreak_set := (tiebreak_set cand ceqb).
Notation pick := (pick cand ceqb).
Notation wf_ranking := (wf_ranking cand).
Notation singletons := (singletons cand).

Lemma rev_head_in : forall {A} (r : list A) g others, rev r = g :: others -> In g r.
Proof. intros A r g others H. apply in_rev. rewrite H. left. reflexivity. Qed.

Lemma rev_nil_inv : forall {A} (r : list A), rev r = [] -> r = [].
Proof. intros A r H. rewrite <- (rev_involutive r), H. reflexivity. Qed.

Lemma NoDup_flat_group : forall (r : ranking) g, NoDup (flat r) -> In g r -> NoDup g.
Proof.
  intros r g. unfold Core.flat. induction r as [|g0 r IH]; cbn [concat]; intros Hnd Hin; [destruct Hin|].
  destruct (NoDup_app_inv _ _ Hnd) as [H1 [H2 _]]. destruct Hin as [->|Hin]; [exact H1|exact (IH H2 Hin)].
Qed.

Lemma in_group_flat : forall (r : ranking) g c, In g r -> In c g -> In c (flat r).
Proof. intros r g c Hg Hc. apply (in_concat_iff r c). exists g. split; assumption. Qed.

(* the candidate picked from a tie-broken group belongs to the group *)
Lemma tiebreak_pick_in : forall g p k (s s' : mstate) t c g0 rest,
  tiebreak_set g (Some p) k s = inl (t, s') -> rev t = (c :: g0) :: rest -> In c g.
Proof.
  intros g p k s s' t c g0 rest H Hrev.
  assert (Hin : In (c :: g0) t) by (eapply rev_head_in; exact Hrev).
  pose proof (tiebreak_set_inv cand ceqb ceqb_spec _ _ _ _ _ _ H) as Hinv.
  assert (Hsc : forall d, tb_scored cand ceqb g d t -> In c g).
  { intros d Htb. unfold tb_scored in Htb. cbv zeta in Htb.
    destruct Htb as [[_ Ht]|[_ [l [Ht Hp]]]].
    - rewrite Ht in Hin. destruct Hin as [E|[]]. discriminate.
    - rewrite Ht in Hin. unfold Core.singletons in Hin. apply in_map_iff in Hin.
      destruct Hin as [x [Ex Hx]]. injection Ex as -> _.
      apply (Permutation_in _ Hp) in Hx. apply in_map_iff in Hx. destruct Hx as [q [Eq Hq]].
      apply filter_In in Hq. destruct Hq as [_ Hm]. rewrite Eq in Hm.
      apply (memb_In cand ceqb ceqb_spec). exact Hm. }
  destruct k.
  - destruct Hinv as [l [Ht [Hp _]]]. rewrite Ht in Hin. unfold Core.singletons in Hin.
    apply in_map_iff in Hin. destruct Hin as [x [Ex Hx]]. injection Ex as -> _.
    exact (Permutation_in _ Hp Hx).
  - destruct Hinv as [pr [d [_ [_ Htb]]]]. exact (Hsc d Htb).
  - destruct Hinv as [pr [d [_ [_ Htb]]]]. exact (Hsc d Htb).
  - destruct Hinv.
Qed.

(* ------------------------------------------------------------------ *)
(** * V1: the struck-out candidate *)

Lemma veto_hit_in : forall order idx (bs : list ballot) (p : profile) tb (d : scores) tbs
                           (s s' : mstate) idx' c tbs',
  veto_loop order idx bs p tb d tbs s = inl ((idx', Some c, tbs'), s') ->
  In c (map fst d) /\
  exists i b g, In i order /\ nth_error bs i = Some b /\ In g (rk b) /\ In c g.
Proof.
  induction order as [|bi rest IH]; intros idx bs p tb d tbs s s' idx' c tbs' H.
  - cbn [PV.veto_loop] in H. apply pvm_ret_inv in H. destruct H as [H _]. discriminate.
  - rewrite (veto_cons cand ceqb) in H.
    destruct (nth_error bs bi) as [b|] eqn:Hb; [|exfalso; exact (pvm_fail_inv _ _ _ H)].
    destruct (rev (rk b)) as [|lastg others] eqn:Hrev.
    + destruct (IH _ _ _ _ _ _ _ _ _ _ _ H) as [Hk [i [b0 [g [Hi H0]]]]].
      split; [exact Hk|]. exists i, b0, g. split; [right; exact Hi|exact H0].
    + apply pvm_bind_inv in H. destruct H as [[t tbs1] [s1 [Hpick H]]]. cbv beta iota in H.
      destruct (rev t) as [|[|c0 g0] trest] eqn:Hrt;
        [exfalso; exact (pvm_fail_inv _ _ _ H)|exfalso; exact (pvm_fail_inv _ _ _ H)|].
      apply pvm_lift_bind_inv in H. destruct H as [d' [Hdec H]].
      destruct (dec_ok cand ceqb ceqb_spec _ _ _ Hdec) as [Hc0 ->].
      assert (Hc0g : In c0 lastg).
      { destruct (pick_ok_inv cand ceqb _ _ _ _ _ _ _ _ Hpick)
          as [[_ [-> _]]|[_ [k [_ [Htb _]]]]].
        - cbn [rev app] in Hrt. injection Hrt as Hlg _. rewrite Hlg. left. reflexivity.
        - eapply tiebreak_pick_in; eassumption. }
      destruct (Qle_bool (lookup0 c0 (dec_map c0 d)) 0).
      * apply pvm_ret_inv in H. destruct H as [H _]. inversion H; subst.
        split; [exact Hc0|]. exists bi, b, lastg. split; [left; reflexivity|].
        split; [exact Hb|]. split; [eapply rev_head_in; exact Hrev|exact Hc0g].
      * destruct (IH _ _ _ _ _ _ _ _ _ _ _ H) as [Hk [i [b0 [g [Hi H0]]]]].
        split; [rewrite (dec_map_keys cand ceqb) in Hk; exact Hk|].
        exists i, b0, g. split; [right; exact Hi|exact H0].
Qed.

(* ------------------------------------------------------------------ *)
(** * V2: a pass without a strike *)

Definition live_at (bs : list ballot) (i : nat) : bool :=
  match nth_error bs i with Some b => nonempty (rk b) | None => false end.
Definition nlive_order (bs : list ballot) (order : list nat) : nat :=
  length (filter (live_at bs) order).

Lemma nlive_order_cons : forall bs i rest,
  nlive_order bs (i :: rest) = ((if live_at bs i then 1 else 0) + nlive_order bs rest)%nat.
Proof. intros bs i rest. unfold nlive_order. cbn [filter]. destruct (live_at bs i); reflexivity. Qed.

Lemma veto_none_progress : forall order idx (bs : list ballot) (p : profile) tb (d : scores) tbs
                                  (s s' : mstate) idx' tbs',
  veto_loop order idx bs p tb d tbs s = inl ((idx', None, tbs'), s') ->
  NoDup (map fst d) -> Forall (fun q => 0 <= snd q) d ->
  nlive_order bs order = 0%nat \/ Qnat (nlive_order bs order) < qsum (map snd d).
Proof.
  induction order as [|bi rest IH]; intros idx bs p tb d tbs s s' idx' tbs' H Hnd Hnn.
  - left. reflexivity.
  - rewrite (veto_cons cand ceqb) in H. rewrite nlive_order_cons.
    destruct (nth_error bs bi) as [b|] eqn:Hb; [|exfalso; exact (pvm_fail_inv _ _ _ H)].
    assert (Hlive : live_at bs bi = nonempty (rk b)) by (unfold live_at; rewrite Hb; reflexivity).
    rewrite Hlive.
    destruct (rev (rk b)) as [|lastg others] eqn:Hrev.
    + rewrite (rev_nil_inv _ Hrev). cbn [nonempty]. exact (IH _ _ _ _ _ _ _ _ _ _ H Hnd Hnn).
    + assert (Hne : nonempty (rk b) = true).
      { destruct (rk b); [discriminate|reflexivity]. }
      rewrite Hne. change (1 + nlive_order bs rest)%nat with (S (nlive_order bs rest)).
      apply pvm_bind_inv in H. destruct H as [[t tbs1] [s1 [Hpick H]]]. cbv beta iota in H.
      destruct (rev t) as [|[|c0 g0] trest] eqn:Hrt;
        [exfalso; exact (pvm_fail_inv _ _ _ H)|exfalso; exact (pvm_fail_inv _ _ _ H)|].
      apply pvm_lift_bind_inv in H. destruct H as [d' [Hdec H]].
      destruct (dec_ok cand ceqb ceqb_spec _ _ _ Hdec) as [Hc0 ->].
      destruct (Qle_bool (lookup0 c0 (dec_map c0 d)) 0) eqn:Hle.
      * apply pvm_ret_inv in H. destruct H as [H _]. discriminate.
      * assert (Hpos : 0 < lookup0 c0 (dec_map c0 d)).
        { destruct (Qlt_le_dec 0 (lookup0 c0 (dec_map c0 d))) as [Hlt|Hge]; [exact Hlt|].
          apply Qle_bool_iff in Hge. congruence. }
        assert (Hnn' : Forall (fun q => 0 <= snd q) (dec_map c0 d)).
        { apply (dec_map_nonneg cand ceqb ceqb_spec); assumption. }
        assert (Hnd' : NoDup (map fst (dec_map c0 d))) by (rewrite (dec_map_keys cand ceqb); exact Hnd).
        pose proof (dec_map_sum cand ceqb ceqb_spec c0 d Hnd Hc0) as Hsum.
        right. rewrite Qnat_S.
        destruct (IH _ _ _ _ _ _ _ _ _ _ H Hnd' Hnn') as [Hz|Hlt].
        -- rewrite Hz. rewrite Qnat_0.
           assert (Hc0' : In c0 (map fst (dec_map c0 d))) by (rewrite (dec_map_keys cand ceqb); exact Hc0).
           destruct (lookup0_In_snd cand ceqb ceqb_spec c0 _ Hc0') as [q0 [Hq0 Hl]].
           pose proof (qsum_nonneg_member cand _ _ _ Hnn' Hq0) as Hmem.
           rewrite Hl in Hpos. lra.
        -- lra.
Qed.

(* ------------------------------------------------------------------ *)
(** * V3: the recorded tie-break *)

(* a recorded tie-break: a last-place group of at least two candidates of some ballot of the pass,
   with the result the tie-break function returned for it *)
Definition tb_rec_ok (bs : list ballot) (p : profile) (tb : option tb_kind) (x : cset * ranking) : Prop :=
  (2 <= length (fst x))%nat /\
  (exists b others, In b bs /\ rev (rk b) = fst x :: others) /\
  exists k s1 s2, tb = Some k /\ tiebreak_set (fst x) (Some p) k s1 = inl (snd x, s2).

Lemma veto_tbs : forall order idx (bs : list ballot) (p : profile) tb (d : scores) tbs
                        (s s' : mstate) idx' hit tbs',
  veto_loop order idx bs p tb d tbs s = inl ((idx', hit, tbs'), s') ->
  Forall (tb_rec_ok bs p tb) tbs -> (length tbs <= 1)%nat ->
  Forall (tb_rec_ok bs p tb) tbs' /\ (length tbs' <= 1)%nat.
Proof.
  induction order as [|bi rest IH]; intros idx bs p tb d tbs s s' idx' hit tbs' H Hall Hlen.
  - cbn [PV.veto_loop] in H. apply pvm_ret_inv in H. destruct H as [H _]. inversion H; subst.
    split; assumption.
  - rewrite (veto_cons cand ceqb) in H.
    destruct (nth_error bs bi) as [b|] eqn:Hb; [|exfalso; exact (pvm_fail_inv _ _ _ H)].
    destruct (rev (rk b)) as [|lastg others] eqn:Hrev; [exact (IH _ _ _ _ _ _ _ _ _ _ _ H Hall Hlen)|].
    apply pvm_bind_inv in H. destruct H as [[t tbs1] [s1 [Hpick H]]]. cbv beta iota in H.
    assert (H1 : Forall (tb_rec_ok bs p tb) tbs1 /\ (length tbs1 <= 1)%nat).
    { destruct (pick_ok_inv cand ceqb _ _ _ _ _ _ _ _ Hpick)
        as [[_ [_ [-> _]]]|[Hl2 [k [Hk [Htb ->]]]]]; [split; assumption|].
      split; [|cbn [length]; lia]. constructor; [|constructor].
      split; [exact Hl2|]. split.
      - exists b, others. split; [eapply nth_error_In; exact Hb|exact Hrev].
      - exists k, s, s1. split; [exact Hk|exact Htb]. }
    destruct H1 as [Hall1 Hlen1].
    destruct (rev t) as [|[|c0 g0] trest] eqn:Hrt;
      [exfalso; exact (pvm_fail_inv _ _ _ H)|exfalso; exact (pvm_fail_inv _ _ _ H)|].
    apply pvm_lift_bind_inv in H. destruct H as [d' [Hdec H]].
    destruct (Qle_bool (lookup0 c0 d') 0).
    + apply pvm_ret_inv in H. destruct H as [H _]. inversion H; subst. split; assumption.
    + exact (IH _ _ _ _ _ _ _ _ _ _ _ H Hall1 Hlen1).
Qed.

(* ------------------------------------------------------------------ *)
(** * V4: errors of the pass *)

(* ballots of the pass: exhausted, or a ranking over the standing candidates [S] *)
Definition okr (S : cset) (b : ballot) : Prop := rk b = [] \/ wf_ranking S (rk b).

Lemma veto_err : forall (S : cset) order idx (bs : list ballot) (p : profile) tb (d : scores) tbs
                        (s : mstate) e,
  veto_loop order idx bs p tb d tbs s = inr e ->
  (forall i, In i order -> (i < length bs)%nat) ->
  Forall (okr S) bs ->
  incl S (map fst d) ->
  (tb = None -> Forall (fun b => has_tie cand b = false) bs) ->
  (forall k, tb = Some k -> tb_profile_ok cand (Some p) (Some k) S) ->
  exists k g s1, tb = Some k /\ (2 <= length g)%nat /\ (exists b, In b bs /\ In g (rk b)) /\
                 tiebreak_set g (Some p) k s1 = inr e.
Proof.
  intros S. induction order as [|bi rest IH]; intros idx bs p tb d tbs s e H Hidx Hokb Hkeys Hties Hpok.
  - cbn [PV.veto_loop] in H. discriminate.
  - rewrite (veto_cons cand ceqb) in H.
    assert (Hidx' : forall i, In i rest -> (i < length bs)%nat) by (intros i Hi; apply Hidx; right; exact Hi).
    destruct (nth_error bs bi) as [b|] eqn:Hb.
    2:{ exfalso. apply nth_error_None in Hb. specialize (Hidx bi (or_introl eq_refl)). lia. }
    assert (Hbin : In b bs) by (eapply nth_error_In; exact Hb).
    destruct (rev (rk b)) as [|lastg others] eqn:Hrev.
    + exact (IH _ _ _ _ _ _ _ _ H Hidx' Hokb Hkeys Hties Hpok).
    + assert (Hlg : In lastg (rk b)) by (eapply rev_head_in; exact Hrev).
      rewrite Forall_forall in Hokb. destruct (Hokb b Hbin) as [Hnil|[_ [Hgroups [Hndf HinclS]]]].
      { rewrite Hnil in Hlg. destruct Hlg. }
      assert (HlgS : incl lastg S).
      { intros x Hx. apply HinclS. eapply in_group_flat; eassumption. }
      assert (Hlgne : lastg <> []) by (rewrite Forall_forall in Hgroups; exact (Hgroups _ Hlg)).
      assert (Hlgnd : NoDup lastg) by (eapply NoDup_flat_group; eassumption).
      unfold mbind in H at 1.
      destruct (pick lastg p tb tbs s) as [[[t tbs1] s1]|e0] eqn:Hpick.
      2:{ injection H as <-. destruct (pick_err_inv cand ceqb _ _ _ _ _ _ Hpick) as [Hl2 [[Hn _]|[k [Hk Htb]]]].
          - exfalso. specialize (Hties Hn). rewrite Forall_forall in Hties. specialize (Hties b Hbin).
            unfold has_tie in Hties. apply not_true_iff_false in Hties. apply Hties.
            apply existsb_exists. exists lastg. split; [exact Hlg|]. apply Nat.ltb_lt. lia.
          - exists k, lastg, s. split; [exact Hk|]. split; [exact Hl2|]. split; [|exact Htb].
            exists b. split; assumption. }
      (* the picked order ends with a single candidate of the group *)
      assert (Hshape : exists c0 g0 trest, rev t = (c0 :: g0) :: trest /\ In c0 lastg).
      { destruct (pick_ok_inv cand ceqb _ _ _ _ _ _ _ _ Hpick)
          as [[_ [-> _]]|[_ [k [Hk [Htb _]]]]].
        - destruct lastg as [|c0 g0]; [contradiction Hlgne; reflexivity|].
          exists c0, g0, []. split; [reflexivity|left; reflexivity].
        - assert (Hok : tb_profile_ok cand (Some p) (Some k) lastg).
          { eapply (tb_profile_ok_incl cand); [exact HlgS|]. apply Hpok. exact Hk. }
          destruct (tiebreak_set_linear cand ceqb ceqb_spec _ _ _ _ _ _ Hlgnd Hlgne Hok Htb)
            as [l [Ht Hp]].
          destruct (rev l) as [|c0 l'] eqn:Hrl.
          { exfalso. apply rev_nil_inv in Hrl. subst l. apply Permutation_nil in Hp. exact (Hlgne Hp). }
          exists c0, [], (singletons l'). split.
          + rewrite Ht. unfold Core.singletons. rewrite <- map_rev, Hrl. reflexivity.
          + apply (Permutation_in _ Hp). apply in_rev. rewrite Hrl. left. reflexivity. }
      destruct Hshape as [c0 [g0 [trest [Hrt Hc0]]]]. rewrite Hrt in H.
      assert (Hc0k : In c0 (map fst d)) by (apply Hkeys, HlgS; exact Hc0).
      rewrite pvm_lift_bind, (dec_total cand ceqb ceqb_spec _ _ Hc0k) in H.
      destruct (Qle_bool (lookup0 c0 (dec_map c0 d)) 0); [discriminate|].
      apply (IH _ _ _ _ _ _ _ _ H Hidx' (proj2 (Forall_forall _ _) Hokb)).
      * rewrite (dec_map_keys cand ceqb). exact Hkeys.
      * exact Hties.
      * exact Hpok.
Qed.

End Veto.
