(* Proofs/C03_transfer.v — C03, transfer rules: frac_transfer, rand_transfer, full_transfer. *)
From VK Require Import Base Core STV EditSpec Lib_rk Lib_condense12 C12_edit.
From Coq Require Import Permutation Lia Lqa Setoid Morphisms.

Section WithCand.
Variable cand : Type.
Variable ceqb : cand -> cand -> bool.
Hypothesis ceqb_spec : forall a b, reflect (a = b) (ceqb a b).

Notation cset := (cset cand).
Notation ranking := (ranking cand).
Notation ballot := (ballot cand).
Notation memb := (memb cand ceqb).
Notation ranking_eqb := (ranking_eqb cand ceqb).
Notation flat := (flat cand).
Notation strip := (strip cand ceqb).
Notation pos_wt := (pos_wt cand).
Notation first_is := (first_is cand ceqb).
Notation condense_bs := (condense_bs cand ceqb).
Notation remove_cand_bs := (remove_cand_bs cand ceqb).
Notation total_wt := (total_wt cand).
Notation wtof_rk := (wtof_rk cand ceqb).
Notation wt_where := (wt_where cand).
Notation sum_where := (sum_where cand).
Notation maps_to := (maps_to cand ceqb).
Notation exhausted := (exhausted cand ceqb).
Notation score_free := (score_free cand).
Notation all_pos := (all_pos cand).
Notation keep_ballot := (keep_ballot cand).
Notation frac_transfer := (frac_transfer cand ceqb).
Notation rand_transfer := (rand_transfer cand ceqb).
Notation full_transfer := (full_transfer cand ceqb).
Notation count_rk := (count_rk cand ceqb).
Notation units_of := (units_of cand ceqb).
Notation valid_ballot_sample := (valid_ballot_sample cand ceqb).
Notation plain_ballot := (plain_ballot cand).

(* ====================== fractional transfer ====================== *)

(* transferred weight of one ballot *)
Definition twt (w : cand) (tv : Q) (b : ballot) : Q :=
  if first_is w b then wt b * tv else wt b.

Definition mv (w : cand) (tv : Q) (b : ballot) : ballot :=
  mkBallot (strip [w] (rk b)) (twt w tv b) [] (bid b) (vs b).

Lemma rmap_mv : forall w tv bs,
  rmap (fun b : ballot =>
          match rk b with
          | [] => err EType
          | r => ok (mkBallot (strip [w] r) (if first_is w b then wt b * tv else wt b)
                              [] (bid b) (vs b))
          end) bs
  = if forallb (fun b => nonempty (rk b)) bs then inl (map (mv w tv) bs) else inr EType.
Proof.
  intros w tv bs. induction bs as [|b bs IH]; cbn [rmap forallb map].
  - reflexivity.
  - unfold mv at 1. unfold twt. destruct (rk b) as [|g r] eqn:E; cbn [nonempty andb].
    + reflexivity.
    + unfold rbind at 1. unfold ok at 1. rewrite IH.
      destruct (forallb (fun b0 => nonempty (rk b0)) bs); reflexivity.
Qed.

Theorem frac_transfer_eq : forall w fpv bs t,
  frac_transfer w fpv bs t =
  if Qeq_bool fpv 0 then inr EZeroDiv
  else if forallb (fun b => nonempty (rk b)) bs
       then inl (condense_bs (filter keep_ballot (map (mv w ((fpv - t) / fpv)) bs)))
       else inr EType.
Proof.
  intros w fpv bs t. unfold STV.frac_transfer.
  destruct (Qeq_bool fpv 0); [reflexivity|].
  rewrite rmap_mv. destruct (forallb (fun b => nonempty (rk b)) bs); reflexivity.
Qed.

Lemma forallb_nonempty_false : forall bs : list ballot,
  forallb (fun b => nonempty (rk b)) bs = false <-> exists b, In b bs /\ rk b = [].
Proof.
  intros bs. split.
  - intros H. destruct (forallb (fun b => nonempty (rk b)) bs) eqn:E; [discriminate|].
    clear H. induction bs as [|b bs IH]; [discriminate|]. cbn [forallb] in E.
    apply andb_false_iff in E. destruct E as [E|E].
    + exists b. split; [left; reflexivity|apply nonempty_false_iff; exact E].
    + destruct (IH E) as (b' & Hb' & Hr). exists b'. split; [right; exact Hb'|exact Hr].
  - intros (b & Hb & Hr). destruct (forallb (fun b => nonempty (rk b)) bs) eqn:E; [|reflexivity].
    rewrite forallb_forall in E. specialize (E b Hb). rewrite Hr in E. discriminate.
Qed.

Theorem frac_errors : forall w fpv bs t,
  (frac_transfer w fpv bs t = inr EZeroDiv <-> fpv == 0) /\
  (frac_transfer w fpv bs t = inr EType <-> (~ fpv == 0 /\ exists b, In b bs /\ rk b = [])) /\
  (forall e, frac_transfer w fpv bs t = inr e -> e = EZeroDiv \/ e = EType).
Proof.
  intros w fpv bs t. rewrite frac_transfer_eq.
  destruct (Qeq_bool fpv 0) eqn:E0.
  - apply Qeq_bool_iff in E0. split; [|split].
    + split; [intros _; exact E0|reflexivity].
    + split; [discriminate|]. intros [H _]. contradiction.
    + intros e H. injection H as <-. left. reflexivity.
  - apply Qeq_bool_false_iff in E0.
    destruct (forallb (fun b => nonempty (rk b)) bs) eqn:Ef.
    + split; [|split].
      * split; [discriminate|]. intros H. contradiction.
      * split; [discriminate|]. intros [_ Hex]. apply forallb_nonempty_false in Hex. congruence.
      * intros e H. discriminate.
    + split; [|split].
      * split; [discriminate|]. intros H. contradiction.
      * split; [|reflexivity]. intros _. split; [exact E0|].
        apply forallb_nonempty_false. exact Ef.
      * intros e H. injection H as <-. right. reflexivity.
Qed.

Lemma frac_ok_inv : forall w fpv bs t out,
  frac_transfer w fpv bs t = inl out ->
  ~ fpv == 0 /\ (forall b, In b bs -> rk b <> []) /\
  out = condense_bs (filter keep_ballot (map (mv w ((fpv - t) / fpv)) bs)).
Proof.
  intros w fpv bs t out. rewrite frac_transfer_eq.
  destruct (Qeq_bool fpv 0) eqn:E0; [discriminate|].
  destruct (forallb (fun b => nonempty (rk b)) bs) eqn:Ef; [|discriminate].
  intros H. injection H as <-. split; [apply Qeq_bool_false_iff; exact E0|].
  split; [|reflexivity]. intros b Hb. rewrite forallb_forall in Ef.
  apply nonempty_true_iff. apply Ef. exact Hb.
Qed.

Lemma keep_ballot_iff : forall b : ballot, keep_ballot b = true <-> rk b <> [] /\ 0 < wt b.
Proof.
  intros b. unfold STV.keep_ballot. rewrite andb_true_iff, nonempty_true_iff, pos_wt_iff.
  reflexivity.
Qed.

Lemma moved_sf : forall w tv (p : ballot -> bool) bs, score_free (filter p (map (mv w tv) bs)).
Proof.
  intros w tv p bs. apply filter_sf. unfold EditSpec.score_free. apply Forall_forall.
  intros b' Hb'. apply in_map_iff in Hb'. destruct Hb' as (b & <- & _). reflexivity.
Qed.

Theorem frac_no_winner : forall w fpv bs t out,
  frac_transfer w fpv bs t = inl out ->
  forall k, In k out ->
    ~ In w (flat (rk k)) /\ rk k <> [] /\ 0 < wt k /\ sc k = [] /\
    exists b, In b bs /\ rk k = strip [w] (rk b) /\ 0 < twt w ((fpv - t) / fpv) b.
Proof.
  intros w fpv bs t out H k Hk. apply frac_ok_inv in H. destruct H as (_ & _ & ->).
  set (tv := (fpv - t) / fpv) in *.
  assert (Hsf : score_free (filter keep_ballot (map (mv w tv) bs))) by apply moved_sf.
  assert (Hpos : all_pos (filter keep_ballot (map (mv w tv) bs))).
  { unfold EditSpec.all_pos. apply Forall_forall. intros x Hx. apply filter_In in Hx.
    destruct Hx as [_ Hx]. apply keep_ballot_iff in Hx. apply Hx. }
  pose proof (condense_sf cand ceqb _ Hsf) as Hsf'.
  pose proof (condense_pos cand ceqb _ Hpos) as Hpos'.
  unfold EditSpec.score_free in Hsf'. unfold EditSpec.all_pos in Hpos'.
  rewrite Forall_forall in Hsf', Hpos'.
  destruct (condense_rk_in cand ceqb _ k Hk) as (b' & Hb' & Hr).
  apply filter_In in Hb'. destruct Hb' as [Hb' Hkeep]. apply keep_ballot_iff in Hkeep.
  apply in_map_iff in Hb'. destruct Hb' as (b & <- & Hb). cbn [mv rk wt] in *.
  split; [|split; [|split; [|split]]].
  - rewrite Hr. intros Hin. apply (strip_no_removed cand ceqb ceqb_spec) in Hin.
    apply Hin. left. reflexivity.
  - rewrite Hr. apply Hkeep.
  - apply Hpos'. exact Hk.
  - apply Hsf'. exact Hk.
  - exists b. split; [exact Hb|]. split; [exact Hr|apply Hkeep].
Qed.

(* conversely, every transferable input ballot is represented in the output *)
Theorem frac_all_represented : forall w fpv bs t out,
  frac_transfer w fpv bs t = inl out ->
  forall b, In b bs -> strip [w] (rk b) <> [] -> 0 < twt w ((fpv - t) / fpv) b ->
    exists k, In k out /\ ranking_eqb (rk k) (strip [w] (rk b)) = true.
Proof.
  intros w fpv bs t out H b Hb Hne Hpos. apply frac_ok_inv in H. destruct H as (_ & _ & ->).
  set (tv := (fpv - t) / fpv) in *.
  apply (condense_rk_matched cand ceqb ceqb_spec _ (mv w tv b)).
  - apply moved_sf.
  - apply filter_In. split; [apply in_map; exact Hb|].
    apply keep_ballot_iff. cbn [mv rk wt]. split; assumption.
Qed.

(* per-ranking weights, no hypothesis on signs *)
Lemma moved_wtof : forall w tv r' bs, nonempty r' = true ->
  wtof_rk r' (filter keep_ballot (map (mv w tv) bs)) ==
  sum_where (twt w tv) (fun b => maps_to [w] r' b && Qlt_bool 0 (twt w tv b)) bs.
Proof.
  intros w tv r' bs Hne. unfold EditSpec.sum_where.
  induction bs as [|b bs IH]; cbn [map filter].
  - reflexivity.
  - unfold STV.keep_ballot at 1. unfold Core.pos_wt. cbn [mv rk wt]. unfold EditSpec.maps_to at 1.
    destruct (ranking_eqb r' (strip [w] (rk b))) eqn:Er.
    + rewrite <- (ranking_eqb_nonempty cand ceqb _ _ Er), Hne. cbn [andb].
      destruct (Qlt_bool 0 (twt w tv b)).
      * rewrite wtof_rk_cons. cbn [mv rk wt map]. rewrite Er, qsum_cons, IH. reflexivity.
      * exact IH.
    + cbn [andb]. destruct (nonempty (strip [w] (rk b)) && Qlt_bool 0 (twt w tv b)).
      * rewrite wtof_rk_cons. cbn [mv rk wt]. rewrite Er, IH. lra.
      * exact IH.
Qed.

Theorem frac_weights_gen : forall w fpv bs t out r',
  frac_transfer w fpv bs t = inl out -> nonempty r' = true ->
  wtof_rk r' out ==
  sum_where (twt w ((fpv - t) / fpv))
            (fun b => maps_to [w] r' b && Qlt_bool 0 (twt w ((fpv - t) / fpv) b)) bs.
Proof.
  intros w fpv bs t out r' H Hne. apply frac_ok_inv in H. destruct H as (_ & _ & ->).
  rewrite (condense_wtof cand ceqb ceqb_spec); [|apply moved_sf].
  apply moved_wtof. exact Hne.
Qed.

Lemma sum_where_ext_in : forall (f g : ballot -> Q) (p q : ballot -> bool) bs,
  (forall b, In b bs -> p b = q b) -> (forall b, In b bs -> p b = true -> f b == g b) ->
  sum_where f p bs == sum_where g q bs.
Proof.
  intros f g p q bs Hpq Hfg. unfold EditSpec.sum_where.
  rewrite <- (filter_ext_in _ p q bs Hpq).
  apply qsum_map_ext_eq. intros b Hb. apply filter_In in Hb. apply Hfg; apply Hb.
Qed.

Lemma sum_where_split : forall (f : ballot -> Q) (p q : ballot -> bool) bs,
  sum_where f p bs ==
  sum_where f (fun b => q b && p b) bs + sum_where f (fun b => negb (q b) && p b) bs.
Proof.
  intros f p q bs. unfold EditSpec.sum_where. induction bs as [|b bs IH]; cbn [filter map].
  - rewrite qsum_nil. lra.
  - destruct (p b), (q b); cbn [andb negb map]; rewrite ?qsum_cons; rewrite IH; lra.
Qed.

(* positive transfer value: nothing but exhausted ballots is lost *)
Theorem frac_weights_tv_pos : forall w fpv bs t out r',
  frac_transfer w fpv bs t = inl out -> all_pos bs -> 0 < (fpv - t) / fpv ->
  nonempty r' = true ->
  wtof_rk r' out ==
    sum_where (fun b => wt b * ((fpv - t) / fpv)) (fun b => first_is w b && maps_to [w] r' b) bs
  + wt_where (fun b => negb (first_is w b) && maps_to [w] r' b) bs.
Proof.
  intros w fpv bs t out r' H Hpos Htv Hne. rewrite (frac_weights_gen _ _ _ _ _ _ H Hne).
  set (tv := (fpv - t) / fpv) in *.
  unfold EditSpec.all_pos in Hpos. rewrite Forall_forall in Hpos.
  rewrite (sum_where_split (twt w tv) _ (first_is w)). unfold EditSpec.wt_where.
  fold (sum_where (@wt cand) (fun b => negb (first_is w b) && maps_to [w] r' b) bs).
  assert (Hall : forall b, In b bs -> Qlt_bool 0 (twt w tv b) = true).
  { intros b Hb. apply Qlt_bool_iff. unfold twt. specialize (Hpos b Hb).
    destruct (first_is w b); [|exact Hpos]. apply Qmult_lt_0_compat; assumption. }
  rewrite (sum_where_ext_in (twt w tv) (fun b => wt b * tv)
             (fun b => first_is w b && (maps_to [w] r' b && Qlt_bool 0 (twt w tv b)))
             (fun b => first_is w b && maps_to [w] r' b)).
  - rewrite (sum_where_ext_in (twt w tv) (@wt cand)
             (fun b => negb (first_is w b) && (maps_to [w] r' b && Qlt_bool 0 (twt w tv b)))
             (fun b => negb (first_is w b) && maps_to [w] r' b)).
    + reflexivity.
    + intros b Hb. rewrite (Hall b Hb), andb_true_r. reflexivity.
    + intros b Hb Hp. unfold twt. destruct (first_is w b); [discriminate|reflexivity].
  - intros b Hb. rewrite (Hall b Hb), andb_true_r. reflexivity.
  - intros b Hb Hp. unfold twt. destruct (first_is w b); [reflexivity|discriminate].
Qed.

Lemma tv_pos : forall fpv t, 0 < fpv -> t < fpv -> 0 < (fpv - t) / fpv.
Proof.
  intros fpv t H1 H2. unfold Qdiv. apply Qmult_lt_0_compat; [lra|].
  apply Qinv_lt_0_compat. exact H1.
Qed.

Theorem frac_weights : forall w fpv bs t out r',
  frac_transfer w fpv bs t = inl out -> all_pos bs -> 0 < fpv -> t < fpv ->
  nonempty r' = true ->
  wtof_rk r' out ==
    sum_where (fun b => wt b * ((fpv - t) / fpv)) (fun b => first_is w b && maps_to [w] r' b) bs
  + wt_where (fun b => negb (first_is w b) && maps_to [w] r' b) bs.
Proof.
  intros w fpv bs t out r' H Hpos H1 H2 Hne.
  apply frac_weights_tv_pos; try assumption. apply tv_pos; assumption.
Qed.

(* the scaled sum is the transfer value times the winner-led weight *)
Lemma sum_where_scale : forall (k : Q) (p : ballot -> bool) bs,
  sum_where (fun b => wt b * k) p bs == k * wt_where p bs.
Proof.
  intros k p bs. unfold EditSpec.sum_where, EditSpec.wt_where.
  rewrite <- qsum_map_scale. apply qsum_map_ext_eq. intros b _. ring.
Qed.

(* no surplus (t >= fpv > 0): the winner's ballots vanish, the others pass unchanged *)
Theorem frac_weights_no_surplus : forall w fpv bs t out r',
  frac_transfer w fpv bs t = inl out -> all_pos bs -> 0 < fpv -> fpv <= t ->
  nonempty r' = true ->
  wtof_rk r' out == wt_where (fun b => negb (first_is w b) && maps_to [w] r' b) bs.
Proof.
  intros w fpv bs t out r' H Hpos H1 H2 Hne. rewrite (frac_weights_gen _ _ _ _ _ _ H Hne).
  set (tv := (fpv - t) / fpv) in *.
  assert (Htv : tv <= 0).
  { unfold tv, Qdiv. setoid_replace 0 with (0 * / fpv) by ring.
    apply Qmult_le_compat_r; [lra|]. apply Qlt_le_weak. apply Qinv_lt_0_compat. exact H1. }
  unfold EditSpec.all_pos in Hpos. rewrite Forall_forall in Hpos.
  unfold EditSpec.wt_where.
  fold (sum_where (@wt cand) (fun b => negb (first_is w b) && maps_to [w] r' b) bs).
  apply sum_where_ext_in.
  - intros b Hb. specialize (Hpos b Hb). unfold twt. destruct (first_is w b); cbn [negb andb].
    + assert (Hle : wt b * tv <= 0).
      { setoid_replace 0 with (wt b * 0) by ring. apply Qmult_le_l; assumption. }
      apply Qlt_bool_false_iff in Hle. rewrite Hle. apply andb_false_r.
    + apply Qlt_bool_iff in Hpos. rewrite Hpos. apply andb_true_r.
  - intros b Hb Hp. unfold twt in *. destruct (first_is w b); [|reflexivity].
    exfalso. specialize (Hpos b Hb).
    assert (Hle : wt b * tv <= 0).
    { setoid_replace 0 with (wt b * 0) by ring. apply Qmult_le_l; assumption. }
    apply Qlt_bool_false_iff in Hle. rewrite Hle, andb_false_r in Hp. discriminate.
Qed.

(* ====================== full-weight transfer (SequentialRCV) ====================== *)

Lemma full_transfer_inv : forall w bs out,
  full_transfer w bs = inl out -> out = remove_cand_bs [w] true false bs.
Proof. intros w bs out H. unfold STV.full_transfer, ok in H. injection H as <-. reflexivity. Qed.

Theorem full_weights : forall w bs out r',
  full_transfer w bs = inl out -> score_free bs -> all_pos bs -> nonempty r' = true ->
  wtof_rk r' out == wt_where (maps_to [w] r') bs.
Proof.
  intros w bs out r' H Hsf Hpos Hne. apply full_transfer_inv in H. subst out.
  apply (remove_weights cand ceqb ceqb_spec); assumption.
Qed.

Theorem full_loss : forall w bs out,
  full_transfer w bs = inl out -> score_free bs -> all_pos bs ->
  total_wt bs - total_wt out == wt_where (exhausted [w]) bs.
Proof.
  intros w bs out H Hsf Hpos. apply full_transfer_inv in H. subst out.
  apply remove_loss; assumption.
Qed.

Theorem full_no_winner : forall w bs out k,
  full_transfer w bs = inl out -> In k out -> ~ In w (flat (rk k)).
Proof.
  intros w bs out k H Hk. apply full_transfer_inv in H. subst out.
  destruct (remove_no_removed cand ceqb ceqb_spec _ _ _ _ _ Hk) as [Hn _].
  apply Hn. left. reflexivity.
Qed.

Theorem full_never_fails : forall w bs, exists out, full_transfer w bs = inl out.
Proof. intros w bs. eexists. reflexivity. Qed.

(* ====================== random transfer ====================== *)

Definition bad_ballot (b : ballot) : bool :=
  negb (is_integral (wt b)) || negb (nonempty (rk b)).

(* winner-led ballots that still rank somebody after the winner is struck out *)
Definition transferable (w : cand) (b : ballot) : bool :=
  first_is w b && nonempty (strip [w] (rk b)).

Definition rt_pop (w : cand) (bs : list ballot) : list (ranking * Q) :=
  map (fun b => (strip [w] (rk b), wt b)) (filter (transferable w) bs).

Definition rt_avail (w : cand) (bs : list ballot) : Z :=
  fold_right Z.add 0%Z (map (fun b => Qtrunc (wt b)) (filter (transferable w) bs)).

Definition rt_others (w : cand) (bs : list ballot) : list ballot :=
  map (fun b => mkBallot (strip [w] (rk b)) (wt b) [] (bid b) (vs b))
      (filter (fun b => negb (first_is w b)) bs).

Definition rt_out (w : cand) (bs : list ballot) (l : list ranking) : list ballot :=
  condense_bs (filter keep_ballot (rt_others w bs ++ map (fun r => plain_ballot r 1) l)).

Lemma rfirst_check : forall bs : list ballot,
  rfirst_err (fun b => if negb (is_integral (wt b)) then err EType
                       else match rk b with [] => err EType | _ => ok tt end) bs
  = if existsb bad_ballot bs then inr EType else inl tt.
Proof.
  induction bs as [|b bs IH]; cbn [rfirst_err existsb].
  - reflexivity.
  - unfold bad_ballot at 1. destruct (is_integral (wt b)); cbn [negb orb].
    + destruct (rk b); cbn [nonempty negb orb rbind err ok]; [reflexivity|exact IH].
    + reflexivity.
Qed.

Lemma rt_pop_eq : forall w bs,
  filter (fun p : ranking * Q => nonempty (fst p))
         (map (fun b => (strip [w] (rk b), wt b)) (filter (first_is w) bs))
  = rt_pop w bs.
Proof.
  intros w bs. unfold rt_pop, transferable. rewrite filter_map_comm, filter_filter.
  reflexivity.
Qed.

Lemma rt_avail_eq : forall w bs,
  fold_right Z.add 0%Z (map (fun p : ranking * Q => Qtrunc (snd p)) (rt_pop w bs)) = rt_avail w bs.
Proof.
  intros w bs. unfold rt_pop, rt_avail. rewrite map_map. reflexivity.
Qed.

(* closed form of random_transfer *)
Theorem rand_transfer_eq : forall w fpv bs t s,
  rand_transfer w fpv bs t s =
  if existsb bad_ballot bs then inr EType
  else
    let k := (Qtrunc fpv - Qtrunc t)%Z in
    if ((k <? 0) || (rt_avail w bs <? k))%Z then inr EValue
    else match scr s with
         | DRanks l :: rest =>
             if valid_ballot_sample (rt_pop w bs) k l
             then inl (rt_out w bs l, mkM rest (CSampleBallots (rt_pop w bs) k :: lg s))
             else inr EScript
         | _ => inr EScript
         end.
Proof.
  intros w fpv bs t s. unfold STV.rand_transfer, mbind, mlift.
  rewrite rfirst_check. destruct (existsb bad_ballot bs); [reflexivity|].
  rewrite rt_pop_eq, rt_avail_eq. cbv zeta.
  destruct ((Qtrunc fpv - Qtrunc t <? 0)%Z || (rt_avail w bs <? Qtrunc fpv - Qtrunc t)%Z);
    [reflexivity|].
  unfold next_draw, ok, err, mret, mfail. cbv beta iota.
  destruct (scr s) as [|d rest]; [reflexivity|].
  destruct d; try reflexivity.
  destruct (valid_ballot_sample (rt_pop w bs) (Qtrunc fpv - Qtrunc t) l); reflexivity.
Qed.

Lemma existsb_bad_false : forall bs : list ballot,
  existsb bad_ballot bs = false <->
  (forall b, In b bs -> is_integral (wt b) = true /\ rk b <> []).
Proof.
  intros bs. split.
  - intros H b Hb. destruct (is_integral (wt b)) eqn:Ei, (nonempty (rk b)) eqn:En.
    + split; [reflexivity|apply nonempty_true_iff; exact En].
    + assert (Hex : existsb bad_ballot bs = true).
      { apply existsb_exists. exists b. split; [exact Hb|]. unfold bad_ballot. rewrite Ei, En. reflexivity. }
      congruence.
    + assert (Hex : existsb bad_ballot bs = true).
      { apply existsb_exists. exists b. split; [exact Hb|]. unfold bad_ballot. rewrite Ei. reflexivity. }
      congruence.
    + assert (Hex : existsb bad_ballot bs = true).
      { apply existsb_exists. exists b. split; [exact Hb|]. unfold bad_ballot. rewrite Ei. reflexivity. }
      congruence.
  - intros H. destruct (existsb bad_ballot bs) eqn:E; [|reflexivity].
    apply existsb_exists in E. destruct E as (b & Hb & Hbad).
    destruct (H b Hb) as [Hi Hr]. unfold bad_ballot in Hbad. rewrite Hi in Hbad.
    apply nonempty_true_iff in Hr. rewrite Hr in Hbad. discriminate.
Qed.

Theorem rand_ok_inv : forall w fpv bs t s out s',
  rand_transfer w fpv bs t s = inl (out, s') ->
  (forall b, In b bs -> is_integral (wt b) = true /\ rk b <> []) /\
  (0 <= Qtrunc fpv - Qtrunc t <= rt_avail w bs)%Z /\
  exists l,
    scr s = DRanks l :: scr s' /\
    lg s' = CSampleBallots (rt_pop w bs) (Qtrunc fpv - Qtrunc t) :: lg s /\
    valid_ballot_sample (rt_pop w bs) (Qtrunc fpv - Qtrunc t) l = true /\
    out = rt_out w bs l.
Proof.
  intros w fpv bs t s out s'. rewrite rand_transfer_eq.
  destruct (existsb bad_ballot bs) eqn:Eb; [discriminate|]. cbv zeta.
  destruct ((Qtrunc fpv - Qtrunc t <? 0)%Z || (rt_avail w bs <? Qtrunc fpv - Qtrunc t)%Z) eqn:Ek;
    [discriminate|].
  destruct (scr s) as [|d rest] eqn:Es; [discriminate|].
  destruct d; try discriminate.
  destruct (valid_ballot_sample (rt_pop w bs) (Qtrunc fpv - Qtrunc t) l) eqn:Ev; [|discriminate].
  intros H. injection H as <- <-. cbn [scr lg].
  split; [apply existsb_bad_false; exact Eb|]. split.
  - apply orb_false_iff in Ek. destruct Ek as [E1 E2].
    apply Z.ltb_ge in E1. apply Z.ltb_ge in E2. lia.
  - exists l. repeat split. exact Ev.
Qed.

Theorem rand_errors : forall w fpv bs t s,
  (rand_transfer w fpv bs t s = inr EType <->
     exists b, In b bs /\ (is_integral (wt b) = false \/ rk b = [])) /\
  (rand_transfer w fpv bs t s = inr EValue <->
     (forall b, In b bs -> is_integral (wt b) = true /\ rk b <> []) /\
     (Qtrunc fpv - Qtrunc t < 0 \/ rt_avail w bs < Qtrunc fpv - Qtrunc t)%Z) /\
  (forall e, rand_transfer w fpv bs t s = inr e -> e = EType \/ e = EValue \/ e = EScript).
Proof.
  intros w fpv bs t s. rewrite rand_transfer_eq. cbv zeta.
  destruct (existsb bad_ballot bs) eqn:Eb.
  - split; [|split].
    + split; [|reflexivity]. intros _. apply existsb_exists in Eb.
      destruct Eb as (b & Hb & Hbad). exists b. split; [exact Hb|].
      unfold bad_ballot in Hbad. apply orb_true_iff in Hbad. destruct Hbad as [H|H].
      * left. apply negb_true_iff. exact H.
      * right. apply nonempty_false_iff. apply negb_true_iff. exact H.
    + split; [discriminate|]. intros [H _]. apply existsb_bad_false in H. congruence.
    + intros e H. injection H as <-. left. reflexivity.
  - assert (Hgood := proj1 (existsb_bad_false bs) Eb).
    assert (HnoT : ~ exists b, In b bs /\ (is_integral (wt b) = false \/ rk b = [])).
    { intros (b & Hb & [H|H]); destruct (Hgood b Hb) as [Hi Hr]; congruence. }
    destruct ((Qtrunc fpv - Qtrunc t <? 0)%Z || (rt_avail w bs <? Qtrunc fpv - Qtrunc t)%Z) eqn:Ek.
    + split; [|split].
      * split; [discriminate|]. intros H. contradiction.
      * split; [|reflexivity]. intros _. split; [exact Hgood|].
        apply orb_true_iff in Ek. destruct Ek as [E|E]; apply Z.ltb_lt in E; [left|right]; exact E.
      * intros e H. injection H as <-. right. left. reflexivity.
    + assert (HnoV : ~ (Qtrunc fpv - Qtrunc t < 0 \/ rt_avail w bs < Qtrunc fpv - Qtrunc t)%Z).
      { apply orb_false_iff in Ek. destruct Ek as [E1 E2].
        apply Z.ltb_ge in E1. apply Z.ltb_ge in E2. lia. }
      assert (Hcase : forall (x : res (list ballot * mstate cand)),
                (x = inr EScript \/ exists y, x = inl y) ->
                (x = inr EType <-> exists b, In b bs /\ (is_integral (wt b) = false \/ rk b = [])) /\
                (x = inr EValue <->
                   (forall b, In b bs -> is_integral (wt b) = true /\ rk b <> []) /\
                   (Qtrunc fpv - Qtrunc t < 0 \/ rt_avail w bs < Qtrunc fpv - Qtrunc t)%Z) /\
                (forall e, x = inr e -> e = EType \/ e = EValue \/ e = EScript)).
      { intros x [->|(y & ->)].
        - split; [|split].
          + split; [discriminate|]. intros H. contradiction.
          + split; [discriminate|]. intros [_ H]. contradiction.
          + intros e H. injection H as <-. right. right. reflexivity.
        - split; [|split].
          + split; [discriminate|]. intros H. contradiction.
          + split; [discriminate|]. intros [_ H]. contradiction.
          + intros e H. discriminate. }
      apply Hcase.
      destruct (scr s) as [|d rest]; [left; reflexivity|].
      destruct d; try (left; reflexivity).
      destruct (valid_ballot_sample _ _ l); [right; eexists; reflexivity|left; reflexivity].
Qed.

(* ---------- what a valid sample is ---------- *)

Lemma count_rk_nonneg : forall r l, (0 <= count_rk r l)%Z.
Proof.
  intros r l. induction l as [|r0 l IH]; cbn [STV.count_rk]; [lia|].
  destruct (ranking_eqb r r0); lia.
Qed.

Lemma count_rk_in : forall r l, In r l -> (1 <= count_rk r l)%Z.
Proof.
  intros r l. induction l as [|r0 l IH]; intros H; [destruct H|]. cbn [STV.count_rk].
  destruct H as [->|H].
  - rewrite (ranking_eqb_refl cand ceqb ceqb_spec). pose proof (count_rk_nonneg r l). lia.
  - specialize (IH H). destruct (ranking_eqb r r0); lia.
Qed.

Lemma Qtrunc_integral : forall q, is_integral q = true -> inject_Z (Qtrunc q) == q.
Proof. intros q H. unfold is_integral in H. apply Qeq_bool_iff in H. exact H. Qed.

Lemma units_of_pop : forall w r bs,
  units_of r (rt_pop w bs) =
  fold_right Z.add 0%Z (map (fun b => Qtrunc (wt b))
                            (filter (fun b => transferable w b && maps_to [w] r b) bs)).
Proof.
  intros w r bs. unfold STV.units_of, rt_pop. rewrite map_map. cbn [fst snd].
  induction bs as [|b bs IH]; cbn [filter map fold_right]; [reflexivity|].
  destruct (transferable w b); cbn [andb map fold_right].
  - unfold EditSpec.maps_to at 1.
    destruct (ranking_eqb r (strip [w] (rk b))); cbn [map fold_right]; rewrite IH; reflexivity.
  - exact IH.
Qed.

(* units available for a non-empty ranking = weight of the winner-led ballots mapping to it *)
Lemma units_of_weight : forall w r bs,
  (forall b, In b bs -> is_integral (wt b) = true) -> nonempty r = true ->
  inject_Z (units_of r (rt_pop w bs)) == wt_where (fun b => first_is w b && maps_to [w] r b) bs.
Proof.
  intros w r bs Hint Hne. rewrite units_of_pop. unfold EditSpec.wt_where.
  induction bs as [|b bs IH]; cbn [filter map fold_right].
  - reflexivity.
  - assert (IH' := IH (fun b' Hb' => Hint b' (or_intror Hb'))). clear IH.
    assert (Eq : transferable w b && maps_to [w] r b = first_is w b && maps_to [w] r b).
    { unfold transferable, EditSpec.maps_to.
      destruct (ranking_eqb r (strip [w] (rk b))) eqn:E; [|rewrite !andb_false_r; reflexivity].
      rewrite <- (ranking_eqb_nonempty cand ceqb _ _ E), Hne, !andb_true_r. reflexivity. }
    rewrite Eq. destruct (first_is w b && maps_to [w] r b); cbn [map fold_right].
    + rewrite inject_Z_plus, IH', qsum_cons.
      rewrite (Qtrunc_integral _ (Hint b (or_introl eq_refl))). reflexivity.
    + exact IH'.
Qed.

Lemma units_pos_matches : forall r (pop : list (ranking * Q)),
  (units_of r pop <> 0)%Z -> exists p, In p pop /\ ranking_eqb r (fst p) = true.
Proof.
  intros r pop. unfold STV.units_of. induction pop as [|p pop IH]; cbn [map fold_right].
  - intros H. contradiction H. reflexivity.
  - destruct (ranking_eqb r (fst p)) eqn:E.
    + intros _. exists p. split; [left; reflexivity|exact E].
    + intros H. rewrite Z.add_0_l in H. destruct (IH H) as (p' & Hp' & Hr).
      exists p'. split; [right; exact Hp'|exact Hr].
Qed.

Theorem valid_sample_spec : forall w bs k l,
  valid_ballot_sample (rt_pop w bs) k l = true ->
  Z.of_nat (length l) = k /\
  (forall r, In r l -> (count_rk r l <= units_of r (rt_pop w bs))%Z) /\
  (forall r, In r l ->
     exists b, In b bs /\ first_is w b = true /\ strip [w] (rk b) <> [] /\
               ranking_eqb r (strip [w] (rk b)) = true).
Proof.
  intros w bs k l H. unfold STV.valid_ballot_sample in H. apply andb_true_iff in H.
  destruct H as [H1 H2]. apply Z.eqb_eq in H1. rewrite forallb_forall in H2.
  split; [exact H1|]. split.
  - intros r Hr. apply Z.leb_le. apply H2. exact Hr.
  - intros r Hr. specialize (H2 r Hr). apply Z.leb_le in H2.
    pose proof (count_rk_in r l Hr) as Hc.
    destruct (units_pos_matches r (rt_pop w bs)) as (p & Hp & Hm); [lia|].
    unfold rt_pop in Hp. apply in_map_iff in Hp. destruct Hp as (b & <- & Hb).
    apply filter_In in Hb. destruct Hb as [Hb Ht]. unfold transferable in Ht.
    apply andb_true_iff in Ht. destruct Ht as [Hf Hn]. cbn [fst] in Hm.
    exists b. split; [exact Hb|]. split; [exact Hf|]. split; [apply nonempty_true_iff; exact Hn|exact Hm].
Qed.

(* ---------- weights of the output ---------- *)

Lemma rt_others_sf : forall w bs, score_free (rt_others w bs).
Proof.
  intros w bs. unfold EditSpec.score_free, rt_others. apply Forall_forall.
  intros b' Hb'. apply in_map_iff in Hb'. destruct Hb' as (b & <- & _). reflexivity.
Qed.

Lemma plain_sf : forall l : list ranking, score_free (map (fun r => plain_ballot r 1) l).
Proof.
  intros l. unfold EditSpec.score_free. apply Forall_forall.
  intros b' Hb'. apply in_map_iff in Hb'. destruct Hb' as (r & <- & _). reflexivity.
Qed.

Lemma app_sf : forall l1 l2 : list ballot, score_free l1 -> score_free l2 -> score_free (l1 ++ l2).
Proof. intros l1 l2 H1 H2. unfold EditSpec.score_free in *. apply Forall_app. split; assumption. Qed.

Lemma others_wtof : forall w r' bs, nonempty r' = true ->
  wtof_rk r' (filter keep_ballot (rt_others w bs)) ==
  wt_where (fun b => negb (first_is w b) && maps_to [w] r' b && pos_wt b) bs.
Proof.
  intros w r' bs Hne. unfold rt_others, EditSpec.wt_where.
  induction bs as [|b bs IH]; cbn [filter map].
  - reflexivity.
  - destruct (first_is w b); cbn [negb andb map filter]; [exact IH|].
    unfold STV.keep_ballot at 1. unfold Core.pos_wt at 1. cbn [rk wt]. fold (pos_wt b).
    unfold EditSpec.maps_to at 1.
    destruct (ranking_eqb r' (strip [w] (rk b))) eqn:Er; cbn [andb].
    + rewrite <- (ranking_eqb_nonempty cand ceqb _ _ Er), Hne. cbn [andb].
      destruct (pos_wt b); cbn [map]; [|exact IH].
      rewrite wtof_rk_cons. cbn [rk wt]. rewrite Er, qsum_cons, IH. reflexivity.
    + destruct (nonempty (strip [w] (rk b)) && pos_wt b); [|exact IH].
      rewrite wtof_rk_cons. cbn [rk wt]. rewrite Er, IH. lra.
Qed.

Lemma Qlt_bool_0_1 : Qlt_bool 0 1 = true.
Proof. reflexivity. Qed.

Lemma sample_wtof : forall r' (l : list ranking), nonempty r' = true ->
  wtof_rk r' (filter keep_ballot (map (fun r => plain_ballot r 1) l)) == inject_Z (count_rk r' l).
Proof.
  intros r' l Hne. induction l as [|r l IH]; cbn [map filter STV.count_rk].
  - reflexivity.
  - unfold STV.keep_ballot at 1. unfold Core.pos_wt, Core.plain_ballot at 1 2. cbn [rk wt].
    rewrite Qlt_bool_0_1, andb_true_r.
    destruct (ranking_eqb r' r) eqn:Er.
    + rewrite <- (ranking_eqb_nonempty cand ceqb _ _ Er), Hne.
      rewrite wtof_rk_cons. unfold Core.plain_ballot at 1 2. cbn [rk wt]. rewrite Er, IH.
      rewrite inject_Z_plus. reflexivity.
    + rewrite Z.add_0_l. destruct (nonempty r); [|exact IH].
      rewrite wtof_rk_cons. unfold Core.plain_ballot at 1 2. cbn [rk wt]. rewrite Er, IH. lra.
Qed.

Theorem rt_out_wtof : forall w bs l r', nonempty r' = true ->
  wtof_rk r' (rt_out w bs l) ==
  inject_Z (count_rk r' l) +
  wt_where (fun b => negb (first_is w b) && maps_to [w] r' b && pos_wt b) bs.
Proof.
  intros w bs l r' Hne. unfold rt_out.
  rewrite (condense_wtof cand ceqb ceqb_spec).
  - rewrite filter_app, wtof_rk_app, others_wtof, sample_wtof by exact Hne. lra.
  - apply filter_sf. apply app_sf; [apply rt_others_sf|apply plain_sf].
Qed.

(* the output never mentions the winner; each output ranking comes from an input ballot or the
   sample *)
Theorem rt_out_no_winner : forall w bs l k, In k (rt_out w bs l) ->
  (forall r, In r l -> ~ In w (flat r)) -> ~ In w (flat (rk k)).
Proof.
  intros w bs l k Hk Hl. unfold rt_out in Hk.
  destruct (condense_rk_in cand ceqb _ k Hk) as (b' & Hb' & Hr). rewrite Hr.
  apply filter_In in Hb'. destruct Hb' as [Hb' _]. apply in_app_or in Hb'.
  destruct Hb' as [Hb'|Hb'].
  - unfold rt_others in Hb'. apply in_map_iff in Hb'. destruct Hb' as (b & <- & _). cbn [rk].
    intros Hin. apply (strip_no_removed cand ceqb ceqb_spec) in Hin. apply Hin. left. reflexivity.
  - apply in_map_iff in Hb'. destruct Hb' as (r & <- & Hrl). cbn [plain_ballot rk].
    apply Hl. exact Hrl.
Qed.

(* a valid sample never mentions the winner, PROVIDED rankings are compared as sets: a sampled
   ranking is set-equal, position by position, to a stripped ranking *)
Lemma valid_sample_no_winner : forall w bs k l,
  valid_ballot_sample (rt_pop w bs) k l = true -> forall r, In r l -> ~ In w (flat r).
Proof.
  intros w bs k l Hv r Hr. destruct (valid_sample_spec w bs k l Hv) as (_ & _ & H).
  destruct (H r Hr) as (b & _ & _ & _ & Hm).
  apply (ranking_eqb_equiv cand ceqb ceqb_spec) in Hm.
  apply (rk_equiv_flat cand) in Hm. intros Hin. apply Hm in Hin.
  apply (strip_no_removed cand ceqb ceqb_spec) in Hin. apply Hin. left. reflexivity.
Qed.

Theorem rand_submultiset : forall w fpv bs t s out s',
  rand_transfer w fpv bs t s = inl (out, s') ->
  exists l,
    scr s = DRanks l :: scr s' /\
    Z.of_nat (length l) = (Qtrunc fpv - Qtrunc t)%Z /\
    (forall r, In r l ->
       exists b, In b bs /\ first_is w b = true /\ strip [w] (rk b) <> [] /\
                 ranking_eqb r (strip [w] (rk b)) = true) /\
    (forall r, In r l ->
       inject_Z (count_rk r l) <= wt_where (fun b => first_is w b && maps_to [w] r b) bs) /\
    (forall r', nonempty r' = true ->
       wtof_rk r' out ==
       inject_Z (count_rk r' l) +
       wt_where (fun b => negb (first_is w b) && maps_to [w] r' b && pos_wt b) bs) /\
    (forall k, In k out -> ~ In w (flat (rk k))).
Proof.
  intros w fpv bs t s out s' H. apply rand_ok_inv in H.
  destruct H as (Hgood & Hk & l & Hs & Hlg & Hv & ->).
  destruct (valid_sample_spec w bs _ l Hv) as (Hlen & Hcnt & Hsrc).
  exists l. split; [exact Hs|]. split; [exact Hlen|]. split; [exact Hsrc|]. split; [|split].
  - intros r Hr.
    assert (Hne : nonempty r = true).
    { destruct (Hsrc r Hr) as (b & _ & _ & Hn & Hm).
      rewrite (ranking_eqb_nonempty cand ceqb _ _ Hm). apply nonempty_true_iff. exact Hn. }
    rewrite <- (units_of_weight w r bs (fun b Hb => proj1 (Hgood b Hb)) Hne).
    rewrite <- Zle_Qle. apply Hcnt. exact Hr.
  - intros r' Hne. apply rt_out_wtof. exact Hne.
  - intros k Hk'. apply (rt_out_no_winner w bs l k Hk').
    apply (valid_sample_no_winner w bs _ l Hv).
Qed.

Theorem rand_population : forall w fpv bs t s out s',
  rand_transfer w fpv bs t s = inl (out, s') ->
  lg s' = CSampleBallots
            (map (fun b => (strip [w] (rk b), wt b))
                 (filter (fun b => first_is w b && nonempty (strip [w] (rk b))) bs))
            (Qtrunc fpv - Qtrunc t) :: lg s.
Proof.
  intros w fpv bs t s out s' H. apply rand_ok_inv in H.
  destruct H as (_ & _ & l & _ & Hlg & _). exact Hlg.
Qed.

End WithCand.
