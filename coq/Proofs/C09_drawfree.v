(* Proofs/C09_drawfree.v — C09 with a DRAW-FREE premise instead of "no tiebreak recorded".
   Part 1: what "consumed no draw" means for a local computation (the three formulations agree),
   and the STV family: get_profile(r) of a finished STV / IRV / SequentialRCV election returns,
   from every state of the random source and leaving it untouched, the profile the run had after
   round r, whenever the run logged no call to the generator up to round r — even if tiebreaks
   were recorded (they were resolved by the scores).
   Part 2 (one-shot rules, CondoBorda, IndexError iff, round 0 of every rule): C09_drawfree_rules.v;
   part 3 (sequences of queries): C09_drawfree_seq.v. *)
From Coq Require Import List ZArith QArith Bool Permutation Lia.
From VK Require Import Base Core STV Pairwise Rules PV Election Election2.
From VK.Spec Require Import STVSpec QuerySpec TieSpec ScoreSpec ReplaySpec QuietSpec DrawFreeSpec.
From VK.Proofs Require Import Lib_sets C04_scoring Elect C10_script C10_quiet C09_queries
  STV_inv C20_validation C13_composite C09_replay C09_status C09_replay2.
Import ListNotations.

(* ------------------------------------------------------------------ *)
(** * list bookkeeping *)

Lemma last_nth_error : forall {A} (l : list A) d, l <> [] ->
  nth_error l (length l - 1) = Some (last l d).
Proof.
  intros A l d. induction l as [|a l IH]; intros Hne; [contradiction Hne; reflexivity|].
  destruct l as [|b l]; [reflexivity|].
  replace (length (a :: b :: l) - 1)%nat with (S (length (b :: l) - 1)) by (cbn [length]; lia).
  cbn [nth_error]. change (last (a :: b :: l) d) with (last (b :: l) d). apply IH. discriminate.
Qed.

Section DrawFree.
Variable cand : Type.
Variable ceqb : cand -> cand -> bool.
Hypothesis ceqb_spec : forall a b, reflect (a = b) (ceqb a b).

Notation cset := (cset cand).
Notation ranking := (ranking cand).
Notation profile := (profile cand).
Notation scores := (scores cand).
Notation estate := (estate cand).
Notation mstate := (mstate cand).
Notation M := (M cand).
Notation flat := (flat cand).
Notation Local := (Local cand).
Notation wf_stv0 := (wf_stv0 cand).
Notation state_of := (state_of cand ceqb).
Notation step_ctx := (step_ctx cand ceqb).
Notation stv_trace := (stv_trace cand ceqb).
Notation stv_init := (stv_init cand).
Notation stv_step := (stv_step cand ceqb).
Notation stv_replay := (stv_replay cand ceqb).
Notation run_stv := (run_stv cand ceqb).
Notation run_rule := (run_rule cand ceqb).
Notation run_wrule := (run_wrule cand ceqb).
Notation count_elected := (count_elected cand).
Notation first_place_votes := (first_place_votes cand ceqb).
Notation score_to_ranking := (score_to_ranking cand).
Notation get_profile := (get_profile cand ceqb).
Notation get_step := (get_step cand ceqb).
Notation no_tiebreak := (no_tiebreak cand).
Notation quiet_round := (quiet_round cand).
Notation draw_free := (draw_free cand ceqb).
Notation wdraw_free := (wdraw_free cand ceqb).
Notation draw_free_upto := (draw_free_upto cand).

(* ------------------------------------------------------------------ *)
(** * "consumed no draw", for any local computation: three formulations *)

(* no call logged <-> script untouched <-> state untouched *)
Lemma local_nodraw_forms : forall A (x : M A), Local x -> forall s a s',
  x s = inl (a, s') ->
  (lg s' = lg s <-> s' = s) /\ (scr s' = scr s <-> s' = s).
Proof.
  intros A x HL s a s' H. split; split.
  - exact (local_quiet_log cand A x HL s a s' H).
  - intros ->. reflexivity.
  - exact (local_quiet_state cand A x HL s a s' H).
  - intros ->. reflexivity.
Qed.

(* a success from an EMPTY script consumed nothing *)
Lemma local_empty_script : forall A (x : M A), Local x -> forall l0 a s',
  x (mkM [] l0) = inl (a, s') -> s' = mkM [] l0.
Proof.
  intros A x HL l0 a s' H.
  destruct (local_prefix cand A x HL _ a s' H) as [used [calls [Hu _]]]. cbn [scr] in Hu.
  symmetry in Hu. apply app_eq_nil in Hu. destruct Hu as [_ Hs'].
  apply (local_quiet_state cand A x HL _ a s' H). exact Hs'.
Qed.

(* success from an empty script <-> the same answer from EVERY state, leaving it untouched *)
Lemma local_empty_iff_all : forall A (x : M A), Local x -> forall a,
  (exists l0 s', x (mkM [] l0) = inl (a, s')) <-> (forall s2 : mstate, x s2 = inl (a, s2)).
Proof.
  intros A x HL a. split.
  - intros [l0 [s' H]]. pose proof (local_empty_script A x HL l0 a s' H) as ->.
    exact (local_no_draw_state cand A x HL _ a H).
  - intros H. exists [], (mkM [] []). apply H.
Qed.

(* a success that logged no call <-> success from an empty script *)
Lemma local_nolog_iff_empty : forall A (x : M A), Local x -> forall s a s',
  x s = inl (a, s') ->
  (lg s' = lg s <-> exists l0 s1, x (mkM [] l0) = inl (a, s1)).
Proof.
  intros A x HL s a s' H. split.
  - intros Hlg. pose proof (local_quiet_log cand A x HL s a s' H Hlg) as ->.
    apply (local_empty_iff_all A x HL a). exact (local_no_draw_state cand A x HL s a H).
  - intros He. pose proof (proj1 (local_empty_iff_all A x HL a) He) as Hall.
    rewrite (Hall s) in H. inversion H; subst. reflexivity.
Qed.

(* ---------- for the runs of every rule ---------- *)

Theorem run_draw_free_forms : forall r (p : profile) (s s' : mstate) sts,
  run_rule r p s = inl (sts, s') ->
  (lg s' = lg s <-> draw_free r p sts) /\
  (scr s' = scr s <-> draw_free r p sts) /\
  (s' = s <-> draw_free r p sts) /\
  (draw_free r p sts <-> forall s2 : mstate, run_rule r p s2 = inl (sts, s2)).
Proof.
  intros r p s s' sts H. pose proof (Local_run_rule cand ceqb r p) as HL.
  destruct (local_nodraw_forms _ _ HL s sts s' H) as [F1 F2].
  pose proof (local_nolog_iff_empty _ _ HL s sts s' H) as F3.
  unfold DrawFreeSpec.draw_free.
  split; [exact F3|]. split; [rewrite F2, <- F1; exact F3|]. split; [rewrite <- F1; exact F3|].
  exact (local_empty_iff_all _ _ HL sts).
Qed.

Lemma draw_free_all : forall r (p : profile) sts, draw_free r p sts ->
  forall s2 : mstate, run_rule r p s2 = inl (sts, s2).
Proof.
  intros r p sts H. exact (proj1 (local_empty_iff_all _ _ (Local_run_rule cand ceqb r p) sts) H).
Qed.

Lemma run_wrule_base : forall w r (p : profile), expand w = Some r ->
  run_wrule w p = run_rule r p.
Proof.
  intros w r p H. destruct w; cbn [Election.expand] in H; try discriminate;
    inversion H; subst; reflexivity.
Qed.

Lemma wdraw_free_base : forall w r (p : profile) sts, expand w = Some r ->
  (wdraw_free w p sts <-> draw_free r p sts).
Proof.
  intros w r p sts H. unfold DrawFreeSpec.wdraw_free, DrawFreeSpec.draw_free.
  rewrite (run_wrule_base w r p H). tauto.
Qed.

(* ------------------------------------------------------------------ *)
(** * STV: traces *)

(* along a trace the log only grows *)
Lemma trace_log_grows : forall cfg t (p0 : profile) sts ps ss,
  stv_trace cfg t p0 sts ps ss ->
  forall n j sj sk, nth_error ss j = Some sj -> nth_error ss (j + n) = Some sk ->
  exists calls, lg sk = calls ++ lg sj.
Proof.
  intros cfg t p0 sts ps ss [Hlp [Hls [_ Hstep]]].
  induction n as [|n IH]; intros j sj sk Hj Hk.
  - rewrite Nat.add_0_r in Hk. rewrite Hj in Hk. inversion Hk; subst. exists []. reflexivity.
  - pose proof (nth_error_lt _ _ _ Hk) as Hlt.
    destruct (nth_error_ex ss (j + n) ltac:(lia)) as [sm Hm].
    destruct (IH j sj sm Hj Hm) as [c1 Hc1].
    destruct (nth_error_ex ps (j + n) ltac:(lia)) as [pa Hpa].
    destruct (nth_error_ex sts (j + n) ltac:(lia)) as [sta Hsta].
    destruct (nth_error_ex ps (S (j + n)) ltac:(lia)) as [pb Hpb].
    destruct (nth_error_ex sts (S (j + n)) ltac:(lia)) as [stb Hstb].
    replace (j + S n)%nat with (S (j + n)) in Hk by lia.
    pose proof (Hstep (j + n)%nat pa sta sm pb stb sk Hpa Hsta Hm Hpb Hstb Hk) as Hs.
    destruct (local_prefix cand _ _ (Local_stv_step cand ceqb _ _ _ _ _ _) _ _ _ Hs)
      as [used [calls [_ [Hl _]]]].
    exists (calls ++ c1). rewrite Hl, Hc1, app_assoc. reflexivity.
Qed.

(* round-local premise <-> the random source is in its initial state after every round up to r *)
Lemma trace_drawfree_const : forall cfg t (p0 : profile) sts ps ss,
  stv_trace cfg t p0 sts ps ss ->
  forall r, draw_free_upto ss r <->
    (forall j s0 sj, (j <= r)%nat -> nth_error ss 0 = Some s0 -> nth_error ss j = Some sj -> sj = s0).
Proof.
  intros cfg t p0 sts ps ss Htr r. pose proof Htr as [Hlp [Hls [_ Hstep]]]. split.
  - intros Hdf. induction j as [|j IH]; intros s0 sj Hj H0 Hsj.
    + rewrite H0 in Hsj. inversion Hsj. reflexivity.
    + pose proof (nth_error_lt _ _ _ Hsj) as Hlt.
      destruct (nth_error_ex ss j ltac:(lia)) as [sa Hsa].
      pose proof (IH s0 sa ltac:(lia) H0 Hsa) as ->.
      destruct (nth_error_ex ps j ltac:(lia)) as [pa Hpa].
      destruct (nth_error_ex sts j ltac:(lia)) as [sta Hsta].
      destruct (nth_error_ex ps (S j) ltac:(lia)) as [pb Hpb].
      destruct (nth_error_ex sts (S j) ltac:(lia)) as [stb Hstb].
      pose proof (Hstep j pa sta s0 pb stb sj Hpa Hsta Hsa Hpb Hstb Hsj) as Hs.
      apply (local_quiet_log cand _ _ (Local_stv_step cand ceqb _ _ _ _ _ _) _ _ _ Hs).
      apply (Hdf j s0 sj); [lia|exact Hsa|exact Hsj].
  - intros Hc j sa sb Hj Hsa Hsb.
    destruct (nth_error_ex ss 0 ltac:(pose proof (nth_error_lt _ _ _ Hsa); lia)) as [s0 H0].
    rewrite (Hc j s0 sa ltac:(lia) H0 Hsa), (Hc (S j) s0 sb ltac:(lia) H0 Hsb). reflexivity.
Qed.

(* the same with the script instead of the log *)
Lemma trace_drawfree_scr : forall cfg t (p0 : profile) sts ps ss,
  stv_trace cfg t p0 sts ps ss ->
  forall r, draw_free_upto ss r <->
    (forall j sa sb, (j < r)%nat -> nth_error ss j = Some sa -> nth_error ss (S j) = Some sb ->
                     scr sb = scr sa).
Proof.
  intros cfg t p0 sts ps ss [Hlp [Hls [_ Hstep]]] r.
  assert (Hforms : forall j sa sb, nth_error ss j = Some sa -> nth_error ss (S j) = Some sb ->
            (lg sb = lg sa <-> scr sb = scr sa)).
  { intros j sa sb Hsa Hsb. pose proof (nth_error_lt _ _ _ Hsb) as Hlt.
    destruct (nth_error_ex ps j ltac:(lia)) as [pa Hpa].
    destruct (nth_error_ex sts j ltac:(lia)) as [sta Hsta].
    destruct (nth_error_ex ps (S j) ltac:(lia)) as [pb Hpb].
    destruct (nth_error_ex sts (S j) ltac:(lia)) as [stb Hstb].
    pose proof (Hstep j pa sta sa pb stb sb Hpa Hsta Hsa Hpb Hstb Hsb) as Hs.
    destruct (local_nodraw_forms _ _ (Local_stv_step cand ceqb _ _ _ _ _ _) _ _ _ Hs) as [F1 F2].
    rewrite F1, F2. tauto. }
  split; intros H j sa sb Hj Hsa Hsb.
  - apply (Hforms j sa sb Hsa Hsb). exact (H j sa sb Hj Hsa Hsb).
  - apply (Hforms j sa sb Hsa Hsb). exact (H j sa sb Hj Hsa Hsb).
Qed.

(* a run that logged no call at all is draw-free up to every round *)
Lemma trace_whole_drawfree : forall cfg t (p0 : profile) sts ps ss (s : mstate),
  stv_trace cfg t p0 sts ps ss -> nth_error ss 0 = Some s -> lg (last ss s) = lg s ->
  forall r, draw_free_upto ss r.
Proof.
  intros cfg t p0 sts ps ss s Htr H0 Hlast r j sa sb _ Hsa Hsb.
  assert (Hne : ss <> []) by (intros ->; discriminate).
  pose proof (last_nth_error ss s Hne) as Hl.
  pose proof (nth_error_lt _ _ _ Hsb) as Hlt.
  destruct (trace_log_grows cfg t p0 sts ps ss Htr j 0%nat s sa H0 Hsa) as [c1 Hc1].
  destruct (trace_log_grows cfg t p0 sts ps ss Htr 1%nat j sa sb Hsa
              ltac:(replace (j + 1)%nat with (S j) by lia; exact Hsb)) as [c2 Hc2].
  destruct (trace_log_grows cfg t p0 sts ps ss Htr (length ss - 1 - S j)%nat (S j) sb (last ss s) Hsb
              ltac:(replace (S j + (length ss - 1 - S j))%nat with (length ss - 1)%nat by lia; exact Hl))
    as [c3 Hc3].
  rewrite Hc3, Hc2, Hc1, !app_assoc in Hlast. symmetry in Hlast. apply app_self_nil in Hlast.
  apply app_eq_nil in Hlast. destruct Hlast as [Hlast _].
  apply app_eq_nil in Hlast. destruct Hlast as [_ Hc2nil]. subst c2. exact Hc2.
Qed.

(* recorded rounds without tiebreak (and, with the random transfer, without election) are
   draw-free: the draw-free premise is WEAKER than the "quiet" / "no tiebreak" premises *)
Lemma quiet_drawfree : forall cfg t (p0 : profile) sts ps ss,
  stv_trace cfg t p0 sts ps ss ->
  forall r, Forall (quiet_round cfg) (firstn (S r) sts) -> draw_free_upto ss r.
Proof.
  intros cfg t p0 sts ps ss [Hlp [Hls [_ Hstep]]] r Hq j sa sb Hj Hsa Hsb.
  pose proof (nth_error_lt _ _ _ Hsb) as Hlt.
  destruct (nth_error_ex ps j ltac:(lia)) as [pa Hpa].
  destruct (nth_error_ex sts j ltac:(lia)) as [sta Hsta].
  destruct (nth_error_ex ps (S j) ltac:(lia)) as [pb Hpb].
  destruct (nth_error_ex sts (S j) ltac:(lia)) as [stb Hstb].
  pose proof (Hstep j pa sta sa pb stb sb Hpa Hsta Hsa Hpb Hstb Hsb) as Hs.
  assert (Hqb : quiet_round cfg stb).
  { apply (Forall_firstn_nth _ sts (S r) (S j) stb Hq); [lia|exact Hstb]. }
  rewrite (stv_step_quiet_gen cand ceqb _ _ _ _ _ _ _ _ _ _ Hs Hqb). reflexivity.
Qed.

Lemma no_tiebreak_quiet : forall cfg (l : list estate), s_transfer cfg <> TRandom ->
  Forall no_tiebreak l -> Forall (quiet_round cfg) l.
Proof.
  intros cfg l Hk H. induction H as [|st l Hst _ IH]; constructor; [|exact IH].
  split; [exact Hst|]. intros E. contradiction.
Qed.

(* ------------------------------------------------------------------ *)
(** * STV: the replay *)

Lemma replay_from_df : forall cfg t (p0 : profile) sts ps ss,
  stv_trace cfg t p0 sts ps ss ->
  forall n j pj pjn,
    nth_error ps j = Some pj -> nth_error ps (j + n) = Some pjn ->
    (forall i sa sb, (j <= i < j + n)%nat ->
       nth_error ss i = Some sa -> nth_error ss (S i) = Some sb -> lg sb = lg sa) ->
    forall s2 : mstate,
      stv_replay cfg t p0 (firstn j sts) pj (firstn n (skipn j sts)) s2 = inl (pjn, s2).
Proof.
  intros cfg t p0 sts ps ss [Hlp [Hls [Hso Hstep]]].
  induction n as [|n IH]; intros j pj pjn Hpj Hpjn Hq s2.
  - rewrite Nat.add_0_r in Hpjn. rewrite Hpj in Hpjn. inversion Hpjn; subst. reflexivity.
  - pose proof (nth_error_lt _ _ _ Hpjn) as Hlt.
    destruct (nth_error_ex sts j ltac:(lia)) as [stj Hstj].
    destruct (nth_error_ex sts (S j) ltac:(lia)) as [stj1 Hstj1].
    destruct (nth_error_ex ps (S j) ltac:(lia)) as [pj1 Hpj1].
    destruct (nth_error_ex ss j ltac:(lia)) as [sa Hsa].
    destruct (nth_error_ex ss (S j) ltac:(lia)) as [sb Hsb].
    pose proof (Hstep j pj stj sa pj1 stj1 sb Hpj Hstj Hsa Hpj1 Hstj1 Hsb) as Hs.
    assert (Hlg : lg sb = lg sa) by (apply (Hq j sa sb); [lia|exact Hsa|exact Hsb]).
    pose proof (local_quiet_log cand _ _ (Local_stv_step cand ceqb _ _ _ _ _ _) _ _ _ Hs Hlg) as Esb.
    subst sb.
    rewrite (skipn_nth_error sts j stj Hstj). cbn [firstn Rules.stv_replay].
    rewrite <- (firstn_S_nth_error sts j stj Hstj).
    unfold mbind at 1.
    rewrite (local_no_draw_state cand _ _ (Local_stv_step cand ceqb _ _ _ _ _ _) _ _ Hs s2).
    apply (IH (S j) pj1 pjn Hpj1).
    + replace (S j + n)%nat with (j + S n)%nat by lia. exact Hpjn.
    + intros i sa' sb' Hi Ha Hb. apply (Hq i sa' sb'); [lia|exact Ha|exact Hb].
Qed.

(* trace level: the three content claims of C09 under the round-local draw-free premise *)
Theorem stv_replay_drawfree : forall cfg t (p : profile) sts ps ss,
  stv_init cfg p = inl t -> stv_trace cfg t p sts ps ss -> nth_error ps 0 = Some p ->
  forall i, in_range (length sts) i -> draw_free_upto ss (round_of (length sts) i) ->
  exists pr st,
    nth_error ps (round_of (length sts) i) = Some pr /\
    nth_error sts (round_of (length sts) i) = Some st /\
    (forall s2 : mstate, get_profile (RSTV cfg) p sts i s2 = inl (pr, s2)) /\
    Permutation (cands pr) (flat (remaining st)) /\
    first_place_votes pr = inl (escores st) /\
    score_to_ranking (escores st) true = remaining st.
Proof.
  intros cfg t p sts ps ss Ht Htr Hp0 i Hin Hdf.
  destruct (norm_index_in _ _ Hin) as [En Hlt]. set (r := round_of (length sts) i) in *.
  pose proof Htr as [Hlp _].
  destruct (nth_error_ex ps r ltac:(lia)) as [pr Hpr].
  destruct (nth_error_ex sts r Hlt) as [st Hst].
  exists pr, st. split; [exact Hpr|]. split; [exact Hst|]. split.
  - intros s2. unfold Election.get_profile. rewrite mbind_mlift, En. rewrite mbind_mlift, Ht.
    apply (replay_from_df cfg t p sts ps ss Htr r 0%nat p pr Hp0 Hpr).
    intros j sa sb Hj Hsa Hsb. apply (Hdf j sa sb); [lia|exact Hsa|exact Hsb].
  - destruct (stv_trace_rescoring cand ceqb cfg t p sts ps ss r pr st Htr Hpr Hst) as [Hd [Hrk Hperm]].
    split; [exact Hperm|]. split; [exact Hd|exact Hrk].
Qed.

(* run level, round-local premise: the trace is the one of the run *)
Theorem stv_get_profile_drawfree_upto : forall cfg (p : profile) (s s' : mstate) sts,
  run_stv cfg p s = inl (sts, s') ->
  exists t ps ss,
    stv_init cfg p = inl t /\ stv_trace cfg t p sts ps ss /\
    nth_error ps 0 = Some p /\ nth_error ss 0 = Some s /\ last ss s = s' /\
    forall i, in_range (length sts) i -> draw_free_upto ss (round_of (length sts) i) ->
    exists pr st,
      nth_error ps (round_of (length sts) i) = Some pr /\
      nth_error sts (round_of (length sts) i) = Some st /\
      (forall s2 : mstate, get_profile (RSTV cfg) p sts i s2 = inl (pr, s2)) /\
      (forall s2 : mstate, get_step (RSTV cfg) p sts i s2 = inl ((pr, st), s2)) /\
      Permutation (cands pr) (flat (remaining st)) /\
      first_place_votes pr = inl (escores st) /\
      score_to_ranking (escores st) true = remaining st /\
      (s_transfer cfg <> TRandom -> wf_stv0 p ->
       wf_stv0 pr /\ incl (cands pr) (cands p) /\
       (flat (remaining st) = [] -> cands pr = [] /\ ballots pr = [])).
Proof.
  intros cfg p s s' sts H.
  destruct (stv_run_trace cand ceqb cfg p s s' sts H) as [t [ps [ss [Ht [Htr [Hp0 [Hs0 Hl]]]]]]].
  exists t, ps, ss. repeat (split; [assumption|]).
  intros i Hin Hdf.
  destruct (stv_replay_drawfree cfg t p sts ps ss Ht Htr Hp0 i Hin Hdf)
    as [pr [st [Hpr [Hst [Hget [Hperm [Hd Hrk]]]]]]].
  exists pr, st. split; [exact Hpr|]. split; [exact Hst|]. split; [exact Hget|]. split.
  { intros s2. apply (get_step_ok_iff cand ceqb). split; [exact (Hget s2)|exact Hst]. }
  split; [exact Hperm|]. split; [exact Hd|]. split; [exact Hrk|].
  intros Hk Hwf.
  pose proof (trace_ctx cand ceqb ceqb_spec cfg t p sts ps ss Hk Hwf Htr Hp0 _ pr st Hpr Hst) as Hctx.
  split; [exact (ctx_p _ _ _ _ _ Hctx)|]. split; [exact (ctx_sub _ _ _ _ _ Hctx)|].
  intros Hnil. rewrite Hnil in Hperm. apply Permutation_sym, Permutation_nil in Hperm.
  split; [exact Hperm|].
  apply (wf_no_cands_no_ballots cand); [exact (ctx_p _ _ _ _ _ Hctx)|exact Hperm].
Qed.

(* run level, whole-run premise: a run that logged no call answers every valid index *)
Theorem stv_get_profile_drawfree : forall cfg (p : profile) (s s' : mstate) sts,
  run_stv cfg p s = inl (sts, s') -> lg s' = lg s ->
  s' = s /\
  forall i, in_range (length sts) i ->
  exists pr st,
    nth_error sts (round_of (length sts) i) = Some st /\
    (forall s2 : mstate, get_profile (RSTV cfg) p sts i s2 = inl (pr, s2)) /\
    (forall s2 : mstate, get_step (RSTV cfg) p sts i s2 = inl ((pr, st), s2)) /\
    Permutation (cands pr) (flat (remaining st)) /\
    first_place_votes pr = inl (escores st) /\
    score_to_ranking (escores st) true = remaining st /\
    (s_transfer cfg <> TRandom -> wf_stv0 p ->
     wf_stv0 pr /\ incl (cands pr) (cands p) /\
     (flat (remaining st) = [] -> cands pr = [] /\ ballots pr = [])).
Proof.
  intros cfg p s s' sts H Hlg.
  split; [exact (local_quiet_log cand _ _ (Local_run_stv cand ceqb cfg p) s sts s' H Hlg)|].
  destruct (stv_get_profile_drawfree_upto cfg p s s' sts H)
    as [t [ps [ss [Ht [Htr [Hp0 [Hs0 [Hl Hall]]]]]]]].
  intros i Hin.
  assert (Hdf : draw_free_upto ss (round_of (length sts) i)).
  { apply (trace_whole_drawfree cfg t p sts ps ss s Htr Hs0). rewrite Hl. exact Hlg. }
  destruct (Hall i Hin Hdf) as [pr [st [_ [Hst [Hget [Hgs [Hperm [Hd [Hrk Hwf]]]]]]]]].
  exists pr, st. repeat (split; [assumption|]). exact Hwf.
Qed.

(* the same from the "empty script" formulation *)
Theorem stv_get_profile_draw_free : forall cfg (p : profile) sts,
  draw_free (RSTV cfg) p sts ->
  forall i, in_range (length sts) i ->
  exists pr st,
    nth_error sts (round_of (length sts) i) = Some st /\
    (forall s2 : mstate, get_profile (RSTV cfg) p sts i s2 = inl (pr, s2)) /\
    (forall s2 : mstate, get_step (RSTV cfg) p sts i s2 = inl ((pr, st), s2)) /\
    Permutation (cands pr) (flat (remaining st)) /\
    first_place_votes pr = inl (escores st) /\
    score_to_ranking (escores st) true = remaining st /\
    (s_transfer cfg <> TRandom -> wf_stv0 p ->
     wf_stv0 pr /\ incl (cands pr) (cands p) /\
     (flat (remaining st) = [] -> cands pr = [] /\ ballots pr = [])).
Proof.
  intros cfg p sts Hdf.
  pose proof (draw_free_all (RSTV cfg) p sts Hdf (mkM [] [])) as H. cbn [Rules.run_rule] in H.
  exact (proj2 (stv_get_profile_drawfree cfg p _ _ sts H eq_refl)).
Qed.

(* the wrapper classes that forward to STV: IRV, SequentialRCV (and STV itself) *)
Theorem wrapper_get_profile_draw_free : forall w cfg (p : profile) sts,
  expand w = Some (RSTV cfg) -> wdraw_free w p sts ->
  forall i, in_range (length sts) i ->
  exists pr st,
    nth_error sts (round_of (length sts) i) = Some st /\
    (forall s2 : mstate, get_profile (RSTV cfg) p sts i s2 = inl (pr, s2)) /\
    (forall s2 : mstate, get_step (RSTV cfg) p sts i s2 = inl ((pr, st), s2)) /\
    Permutation (cands pr) (flat (remaining st)) /\
    first_place_votes pr = inl (escores st) /\
    score_to_ranking (escores st) true = remaining st /\
    (s_transfer cfg <> TRandom -> wf_stv0 p ->
     wf_stv0 pr /\ incl (cands pr) (cands p) /\
     (flat (remaining st) = [] -> cands pr = [] /\ ballots pr = [])).
Proof.
  intros w cfg p sts Hw Hdf. apply (wdraw_free_base w (RSTV cfg) p sts Hw) in Hdf.
  exact (stv_get_profile_draw_free cfg p sts Hdf).
Qed.

(* IRV = STV with one seat, simultaneous mode, fractional transfer *)
Theorem irv_get_profile_draw_free : forall q tb (p : profile) sts,
  wdraw_free (WIRV q tb) p sts ->
  forall i, in_range (length sts) i ->
  exists pr st,
    nth_error sts (round_of (length sts) i) = Some st /\
    (forall s2 : mstate,
       get_profile (RSTV (mkStv 1 q true TFractional tb)) p sts i s2 = inl (pr, s2)) /\
    (forall s2 : mstate,
       get_step (RSTV (mkStv 1 q true TFractional tb)) p sts i s2 = inl ((pr, st), s2)) /\
    Permutation (cands pr) (flat (remaining st)) /\
    first_place_votes pr = inl (escores st) /\
    score_to_ranking (escores st) true = remaining st /\
    (wf_stv0 p ->
     wf_stv0 pr /\ incl (cands pr) (cands p) /\
     (flat (remaining st) = [] -> cands pr = [] /\ ballots pr = [])).
Proof.
  intros q tb p sts Hdf i Hin.
  destruct (wrapper_get_profile_draw_free (WIRV q tb) (mkStv 1 q true TFractional tb) p sts eq_refl Hdf i Hin)
    as [pr [st [H1 [H2 [H3 [H4 [H5 [H6 H7]]]]]]]].
  exists pr, st. repeat (split; [assumption|]). intros Hwf. apply H7; [discriminate|exact Hwf].
Qed.

(* SequentialRCV = STV with the full-weight transfer *)
Theorem seqrcv_get_profile_draw_free : forall m q simul tb (p : profile) sts,
  wdraw_free (WSeqRCV m q simul tb) p sts ->
  forall i, in_range (length sts) i ->
  exists pr st,
    nth_error sts (round_of (length sts) i) = Some st /\
    (forall s2 : mstate,
       get_profile (RSTV (mkStv m q simul TFullWeight tb)) p sts i s2 = inl (pr, s2)) /\
    (forall s2 : mstate,
       get_step (RSTV (mkStv m q simul TFullWeight tb)) p sts i s2 = inl ((pr, st), s2)) /\
    Permutation (cands pr) (flat (remaining st)) /\
    first_place_votes pr = inl (escores st) /\
    score_to_ranking (escores st) true = remaining st /\
    (wf_stv0 p ->
     wf_stv0 pr /\ incl (cands pr) (cands p) /\
     (flat (remaining st) = [] -> cands pr = [] /\ ballots pr = [])).
Proof.
  intros m q simul tb p sts Hdf i Hin.
  destruct (wrapper_get_profile_draw_free (WSeqRCV m q simul tb) (mkStv m q simul TFullWeight tb) p sts
              eq_refl Hdf i Hin) as [pr [st [H1 [H2 [H3 [H4 [H5 [H6 H7]]]]]]]].
  exists pr, st. repeat (split; [assumption|]). intros Hwf. apply H7; [discriminate|exact Hwf].
Qed.

(* ------------------------------------------------------------------ *)
(** * a recorded tiebreak that the scores resolve draws nothing *)

(* tiebreak by first-place votes / Borda: when the scores of the tied candidates are pairwise
   different (every group of the score ranking is a singleton or empty), the answer is that
   ranking and the random source is not consulted *)
Lemma scored_tiebreak_no_draw : forall (g : cset) (pr : profile) tb (d : scores) (s s' : mstate) t,
  (tb = TBFirstPlace /\ first_place_votes pr = inl d) \/
  (tb = TBBorda /\ borda_scores cand ceqb pr = inl d) ->
  (forall grp, In grp (score_to_ranking (filter (fun q => memb cand ceqb (fst q) g) d) true) ->
               (length grp <= 1)%nat) ->
  tiebreak_set cand ceqb g (Some pr) tb s = inl (t, s') ->
  s' = s /\ t = score_to_ranking (filter (fun q => memb cand ceqb (fst q) g) d) true.
Proof.
  intros g pr tb d s s' t Hd Hsep H.
  assert (Hex : existsb (fun grp : list cand => Nat.ltb 1 (length grp))
                  (score_to_ranking (filter (fun q => memb cand ceqb (fst q) g) d) true) = false).
  { apply not_true_is_false. intros E. apply existsb_exists in E. destruct E as [grp [Hin Hl]].
    apply Nat.ltb_lt in Hl. specialize (Hsep grp Hin). lia. }
  unfold Core.tiebreak_set in H.
  destruct Hd as [[-> Hd]|[-> Hd]]; rewrite Hd in H; rewrite mbind_mlift in H; cbv zeta in H;
    rewrite Hex in H; unfold mret, ok in H; inversion H; subst; split; reflexivity.
Qed.

End DrawFree.
