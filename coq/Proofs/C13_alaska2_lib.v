(* Proofs/C13_alaska2_lib.v — C13, Alaska on the quiet path (no tiebreak needed in either stage):
   the run succeeds from every draw script, consumes nothing (the trailing get_profile replay
   included) and its winners are those of STV(m2) on the profile cut to the m1 Plurality winners.
   Both directions: from a recorded quiet run, and from quiet component runs to the Alaska run. *)
From VK Require Import Base Core STV Pairwise Rules PV Election.
From VK.Spec Require Import ScoreSpec EditSpec RatingSpec TopMSpec STVSpec Anon TieSpec RunSpec.
From VK.Proofs Require Import Lib_sets C04_scoring Elect C20_validation C13_composite STV_lib STV_inv C10_script
  C01_lib C01_rules C01_composite.
From VK.Proofs Require C10_quiet.
From Coq Require Import Permutation Lia Lqa.

Section Alaska2.
Variable cand : Type.
Variable ceqb : cand -> cand -> bool.
Hypothesis ceqb_spec : forall a b, reflect (a = b) (ceqb a b).

Notation cset := (cset cand).
Notation ranking := (ranking cand).
Notation profile := (profile cand).
Notation scores := (scores cand).
Notation estate := (estate cand).
Notation mstate := (mstate cand).
Notation flat := (flat cand).
Notation real_groups := (real_groups cand).
Notation elected_upto := (elected_upto cand).
Notation get_elected := (get_elected cand).
Notation elects_exactly := (elects_exactly cand).
Notation ranked_profile := (ranked_profile cand).
Notation straddles_seat := (straddles_seat cand).
Notation wf_stv0 := (wf_stv0 cand).
Notation no_tiebreak := (no_tiebreak cand).
Notation first_place_votes := (first_place_votes cand ceqb).
Notation score_to_ranking := (score_to_ranking cand).
Notation remove_cand_prof := (remove_cand_prof cand ceqb).
Notation elect_top_m := (elect_top_m cand ceqb).
Notation run_one_shot := (run_one_shot cand ceqb).
Notation run_plurality := (run_plurality cand ceqb).
Notation plurality_stage := (plurality_stage cand ceqb).
Notation run_alaska := (run_alaska cand ceqb).
Notation run_stv := (run_stv cand ceqb).
Notation stv_init := (stv_init cand).
Notation stv_replay := (stv_replay cand ceqb).
Notation initial_state := (initial_state cand ceqb).
Notation round0 := (round0 cand ceqb).
Notation ranking_validate := (ranking_validate cand).
Notation no_group := (no_group cand).
Notation bump := (bump cand).
Notation top_m_facts := (top_m_facts cand).

(* ------------------------------------------------------------------ *)
(** * small facts *)

Lemma tb_opt_nil : forall t : option (cset * ranking),
  (match t with Some x => [x] | None => [] end) = [] -> t = None.
Proof. intros [x|] H; [discriminate|reflexivity]. Qed.

Lemma map_rg_bump : forall l : list estate,
  map (fun s => real_groups (elected s)) (map bump l) = map (fun s => real_groups (elected s)) l.
Proof. intros l. rewrite map_map. reflexivity. Qed.

Lemma get_elected_all : forall sts : list estate, sts <> [] ->
  get_elected sts (-1) = inl (concat (map (fun s => real_groups (elected s)) sts)).
Proof.
  intros sts Hne. rewrite (get_elected_last cand ceqb sts Hne). unfold STVSpec.elected_upto.
  assert (Hlen : (0 < length sts)%nat) by (destruct sts; [contradiction Hne; reflexivity|cbn; lia]).
  replace (S (length sts - 1)) with (length sts) by lia. rewrite firstn_all. reflexivity.
Qed.

(* the winners reported by Alaska are those reported by its STV stage *)
Lemma alaska_get_elected : forall (s0 s1 q0 : estate) (more : list estate),
  elected s0 = [[]] -> elected s1 = [[]] -> elected q0 = [[]] ->
  get_elected (s0 :: s1 :: map bump more) (-1) = get_elected (q0 :: more) (-1).
Proof.
  intros s0 s1 q0 more H0 H1 Hq. rewrite !get_elected_all by discriminate.
  cbn [map concat]. rewrite H0, H1, Hq, map_rg_bump. reflexivity.
Qed.

(* without a recorded tiebreak every elected candidate strictly beats every remaining one *)
Lemma top_m_strict : forall (d : scores) m (el rem : ranking),
  top_m_facts d m el rem None ->
  forall c1 c2 q1 q2, In c1 (flat el) -> In c2 (flat rem) -> In (c1, q1) d -> In (c2, q2) d -> q2 < q1.
Proof.
  intros d m el rem [_ [_ [_ [F4 _]]]] c1 c2 q1 q2 H1 H2 Hd1 Hd2.
  unfold Core.flat in H1, H2. apply in_concat in H1. destruct H1 as [g1 [Hg1 Hc1]].
  apply in_concat in H2. destruct H2 as [g2 [Hg2 Hc2]].
  apply in_split in Hg1. destruct Hg1 as [a [b ->]]. apply in_split in Hg2. destruct Hg2 as [c [e ->]].
  destruct (F4 a g1 (b ++ c) g2 e c1 c2 q1 q2) as [Hlt|[_ [g [t [Ht _]]]]]; try assumption.
  - rewrite <- !app_assoc. reflexivity.
  - discriminate.
Qed.

(* ------------------------------------------------------------------ *)
(** * from the component runs to the Alaska run *)

(* a quiet Plurality stage and a quiet STV stage, each observed on SOME script: the Alaska run
   succeeds on EVERY script and leaves it untouched — the replay at the end cannot fail *)
Theorem alaska_quiet_success : forall m1 m2 cfg (p : profile) s0 p1 s1 ssts (sx sx' sy sy' : mstate),
  s_transfer cfg <> TRandom -> (1 <= m2 <= m1)%Z ->
  round0 SKFpv p = inl s0 ->
  plurality_stage m1 (s_tiebreak cfg) p s0 sx = inl ((p1, s1), sx') -> no_tiebreak s1 ->
  run_stv (with_m cfg m2) p1 sy = inl (ssts, sy') -> Forall no_tiebreak ssts ->
  forall s2, run_alaska m1 m2 cfg p s2 = inl (s0 :: s1 :: map bump (tl ssts), s2).
Proof.
  intros m1 m2 cfg p s0 p1 s1 ssts sx sx' sy sy' Hk Hm H0 Hst Hq1 Hrun Hq s2.
  assert (Hk2 : s_transfer (with_m cfg m2) <> TRandom) by exact Hk.
  pose proof (C10_quiet.plurality_stage_quiet cand ceqb _ _ _ _ _ _ _ _ Hst Hq1) as E. subst sx'.
  pose proof (local_no_draw_state cand _ _ (Local_plurality_stage cand ceqb _ _ _ _) _ _ Hst s2) as Hst2.
  pose proof (C10_quiet.run_stv_quiet cand ceqb _ _ _ _ _ Hk2 Hrun Hq) as E. subst sy'.
  pose proof (local_no_draw_state cand _ _ (Local_run_stv cand ceqb _ _) _ _ Hrun s2) as Hrun2.
  destruct (run_stv_numbered cand ceqb _ _ _ _ _ Hrun) as [_ [t [q0 [more [Ht _]]]]].
  destruct (alaska_replay_ok cand ceqb _ _ _ _ _ _ Hk2 Hrun Ht Hq s2) as [pf Hrep].
  apply (c13_alaska_proof cand ceqb). exists s0, p1, s1, s2, t, ssts, s2, pf.
  split.
  { unfold Rules.alaska_args. destruct (Z.leb_spec m1 0); [lia|]. destruct (Z.leb_spec m2 0); [lia|].
    destruct (Z.ltb_spec m1 m2); [lia|]. reflexivity. }
  split.
  { unfold Rules.round0 in H0. cbn [Rules.score_fn] in H0.
    destruct (first_place_votes p) as [d|e] eqn:Hd; [|discriminate].
    apply (fpv_ranking_validate cand ceqb p d Hd). }
  repeat split; assumption.
Qed.

(* the same from the input side: the top-m1 selection on the first-place ranking needs no tiebreak
   (observed on some script), the STV on the cut profile records none (on some script) *)
Theorem alaska_quiet_input : forall m1 m2 cfg (p : profile) d el rem p1 ssts (sx sx' sy sy' : mstate),
  ranked_profile p -> s_transfer cfg <> TRandom -> (1 <= m2 <= m1)%Z ->
  first_place_votes p = inl d ->
  elect_top_m (score_to_ranking d true) m1 (Some p) (s_tiebreak cfg) sx = inl ((el, rem, None), sx') ->
  remove_cand_prof (flat rem) true false p = inl p1 ->
  run_stv (with_m cfg m2) p1 sy = inl (ssts, sy') -> Forall no_tiebreak ssts ->
  exists s0 s1,
    round0 SKFpv p = inl s0 /\ escores s0 = d /\
    rnd s1 = 1%Z /\ remaining s1 = el /\ elected s1 = [[]] /\ eliminated s1 = rem /\ tiebreaks s1 = [] /\
    first_place_votes p1 = inl (escores s1) /\
    (forall s2, plurality_stage m1 (s_tiebreak cfg) p s0 s2 = inl ((p1, s1), s2)) /\
    forall s2, run_alaska m1 m2 cfg p s2 = inl (s0 :: s1 :: map bump (tl ssts), s2).
Proof.
  intros m1 m2 cfg p d el rem p1 ssts sx sx' sy sy' Hrk Hk Hm Hd Hel Hnp Hrun Hq.
  assert (Hnd : NoDup (cands p)) by (apply Hrk).
  set (s0 := state_of_scores cand 0 no_group no_group [] d).
  assert (H0 : round0 SKFpv p = inl s0).
  { unfold Rules.round0. cbn [Rules.score_fn]. rewrite Hd. reflexivity. }
  (* the Plurality election succeeds *)
  destruct (one_shot_reduce cand ceqb ceqb_spec SKFpv m1 (s_tiebreak cfg) p sx Hrk)
    as [d' [Hd' [_ [_ Hok]]]].
  cbn [Rules.score_fn] in Hd'. rewrite Hd in Hd'. inversion Hd'; subst d'.
  destruct (Hok _ _ Hel) as [sts Hone].
  pose proof Hone as Hone'.
  apply (C10_quiet.run_one_shot_inv cand ceqb) in Hone'.
  destruct Hone' as [q0 [np [q1 [Hq0 [Hstep ->]]]]].
  rewrite H0 in Hq0. inversion Hq0; subst q0.
  destruct (C10_quiet.one_shot_step_inv cand ceqb _ _ _ _ _ _ _ _ _ Hstep)
    as [el' [rem' [t' [dd [Hel' [Hnp' [Hdd Hq1]]]]]]].
  change (remaining s0) with (score_to_ranking d true) in Hel'. rewrite Hel in Hel'.
  inversion Hel'; subst el' rem' t'. clear Hel'.
  rewrite <- (run_plurality_ranked cand ceqb _ _ _ _ Hrk) in Hone.
  (* the first-place votes of the cut profile: the STV stage computed them *)
  destruct (run_stv_numbered cand ceqb _ _ _ _ _ Hrun) as [_ [t [qq [more [_ [Hqq _]]]]]].
  unfold STV.initial_state in Hqq.
  destruct (first_place_votes p1) as [d1|e1] eqn:Hd1; [|discriminate].
  assert (Hst : plurality_stage m1 (s_tiebreak cfg) p s0 sx
                = inl ((p1, mkState (rnd s0 + 1) (real_groups (elected q1)) no_group (remaining q1)
                                    (tiebreaks q1) d1), sx')).
  { apply (plurality_stage_iff cand ceqb). exists s0, q1, d1. split; [exact Hone|].
    rewrite Hq1. cbn [remaining]. split; [exact Hnp|]. split; [exact Hd1|reflexivity]. }
  set (s1 := mkState (rnd s0 + 1) (real_groups (elected q1)) no_group (remaining q1) (tiebreaks q1) d1) in *.
  destruct (plurality_stage_spec cand ceqb ceqb_spec _ _ _ _ _ _ _ _ Hnd Hst)
    as [d2 [el2 [rem2 [t2 [r0 [r1 [_ [_ [_ [_ [Hd2 [_ [Hel2 [_ [_ [_ [Hfp1 [Hr1 [Hrem1
        [Hel1 [Helim1 [Htb1 _]]]]]]]]]]]]]]]]]]]]]].
  rewrite Hd in Hd2. injection Hd2 as Ed. rewrite <- Ed in Hel2. rewrite Hel in Hel2.
  injection Hel2 as E1 E2 E3. rewrite <- E1 in Hrem1. rewrite <- E2 in Helim1. rewrite <- E3 in Htb1.
  assert (Hq1' : no_tiebreak s1) by exact Htb1.
  pose proof (C10_quiet.plurality_stage_quiet cand ceqb _ _ _ _ _ _ _ _ Hst Hq1') as E. subst sx'.
  exists s0, s1. split; [exact H0|]. split; [reflexivity|].
  split; [rewrite Hr1; reflexivity|]. split; [exact Hrem1|]. split; [exact Hel1|].
  split; [exact Helim1|]. split; [exact Htb1|]. split; [reflexivity|].
  split.
  - intros s2. exact (local_no_draw_state cand _ _ (Local_plurality_stage cand ceqb _ _ _ _) _ _ Hst s2).
  - apply (alaska_quiet_success m1 m2 cfg p s0 p1 s1 ssts sx sx sy sy'); assumption.
Qed.

(* ------------------------------------------------------------------ *)
(** * fully on the input side: the first-place ranking is separated at seat m1 *)

(* a top-m selection that recorded no tiebreak does not depend on the configured tiebreak rule *)
Lemma elect_loop_quiet_any : forall r need acc (p : option profile) tb tb' (s s' : mstate) el rem,
  elect_loop cand ceqb r need acc p tb s = inl ((el, rem, None), s') ->
  elect_loop cand ceqb r need acc p tb' s = inl ((el, rem, None), s').
Proof.
  induction r as [|g r IH]; intros need acc p tb tb' s s' el rem H.
  - destruct need; cbn [Core.elect_loop] in H |- *; [exact H|discriminate].
  - destruct need as [|n]; cbn [Core.elect_loop] in H |- *; [exact H|].
    destruct (Nat.leb (length g) (S n)); [apply (IH _ _ _ tb); exact H|].
    destruct tb as [k|]; [|discriminate]. unfold mbind in H.
    destruct (tiebreak_set cand ceqb g p k s) as [[t s1]|e]; [|discriminate].
    unfold mret, ok in H. inversion H.
Qed.

Lemma elect_top_m_quiet_any : forall r m (p : option profile) tb tb' (s s' : mstate) el rem,
  elect_top_m r m p tb s = inl ((el, rem, None), s') ->
  elect_top_m r m p tb' s = inl ((el, rem, None), s').
Proof.
  intros r m p tb tb' s s' el rem H. unfold Core.elect_top_m in H |- *.
  destruct (m <? 1)%Z; [discriminate|].
  destruct (Z.of_nat (ranking_size cand r) <? m)%Z; [discriminate|].
  apply (elect_loop_quiet_any _ _ _ _ tb). exact H.
Qed.

(* no group of the ranking straddles seat m: the top m are selected without a tiebreak, whatever
   the tiebreak rule and the script *)
Lemma top_m_separated : forall (r : ranking) m (p : option profile),
  (1 <= m <= Z.of_nat (length (flat r)))%Z -> ~ straddles_seat r m ->
  exists el rem, forall tb (s2 : mstate), elect_top_m r m p tb s2 = inl ((el, rem, None), s2).
Proof.
  intros r m p Hm Hns.
  destruct (elect_top_m r m p None (mkM [] [])) as [[[[el rem] t] s1]|e] eqn:Hel.
  - destruct (elect_top_m_shape cand ceqb _ _ _ _ _ _ _ _ _ Hel) as [_ [[-> [-> _]]|[pre [g [post [t0 [kind [j [Hc _]]]]]]]]];
      [|discriminate].
    exists el, rem. intros tb s2.
    apply (elect_top_m_quiet_any _ _ _ None tb).
    exact (local_no_draw_state cand _ _ (Local_elect_top_m cand ceqb _ _ _ _) _ _ Hel s2).
  - exfalso. pose proof (elect_top_m_none_only_EValue cand ceqb _ _ _ _ _ Hel) as ->.
    apply (elect_top_m_none_error_iff cand ceqb) in Hel.
    destruct Hel as [H|[H|H]]; [lia|lia|]. apply Hns. exact H.
Qed.

Theorem alaska_quiet_separated : forall m1 m2 cfg (p : profile) d,
  ranked_profile p -> s_transfer cfg <> TRandom ->
  (1 <= m2 <= m1)%Z -> (m1 <= Z.of_nat (length (cands p)))%Z ->
  first_place_votes p = inl d -> ~ straddles_seat (score_to_ranking d true) m1 ->
  exists el rem p1,
    (forall tb (s2 : mstate),
       elect_top_m (score_to_ranking d true) m1 (Some p) tb s2 = inl ((el, rem, None), s2)) /\
    el ++ rem = score_to_ranking d true /\ Z.of_nat (length (flat el)) = m1 /\
    remove_cand_prof (flat rem) true false p = inl p1 /\
    forall ssts (sy sy' : mstate),
      run_stv (with_m cfg m2) p1 sy = inl (ssts, sy') -> Forall no_tiebreak ssts ->
      exists s0 s1,
        round0 SKFpv p = inl s0 /\ escores s0 = d /\
        rnd s1 = 1%Z /\ remaining s1 = el /\ elected s1 = [[]] /\ eliminated s1 = rem /\
        tiebreaks s1 = [] /\ first_place_votes p1 = inl (escores s1) /\
        forall s2, run_alaska m1 m2 cfg p s2 = inl (s0 :: s1 :: map bump (tl ssts), s2).
Proof.
  intros m1 m2 cfg p d Hrk Hk Hm Hn Hd Hns.
  assert (Hlen : length (flat (score_to_ranking d true)) = length (cands p)).
  { rewrite (ranking_size_scores cand). unfold Core.first_place_votes in Hd.
    rewrite <- (score_rankings_keys cand ceqb p _ d Hd). symmetry. apply map_length. }
  destruct (top_m_separated (score_to_ranking d true) m1 (Some p)) as [el [rem Hel]];
    [rewrite Hlen; lia|exact Hns|].
  destruct (ranked_remove_ok cand ceqb ceqb_spec (flat rem) p (proj1 (proj1 Hrk))) as [p1 Hnp].
  exists el, rem, p1. split; [exact Hel|].
  destruct (elect_top_m_shape cand ceqb _ _ _ _ _ _ _ _ _ (Hel None (mkM [] [])))
    as [_ [[_ [_ [Happ Hcnt]]]|[pre [g [post [t0 [kind [j [Hc _]]]]]]]]]; [|discriminate].
  split; [exact Happ|]. split; [exact Hcnt|]. split; [exact Hnp|].
  intros ssts sy sy' Hrun Hq.
  destruct (alaska_quiet_input m1 m2 cfg p d el rem p1 ssts (mkM [] []) (mkM [] []) sy sy' Hrk Hk Hm Hd
              (Hel (s_tiebreak cfg) (mkM [] [])) Hnp Hrun Hq)
    as [s0 [s1 [H0 [He0 [Hr1 [Hrem1 [Hel1 [Helim1 [Htb1 [Hfp1 [_ Hall]]]]]]]]]]].
  exists s0, s1. repeat (split; [assumption|]). exact Hall.
Qed.

(* ------------------------------------------------------------------ *)
(** * from a recorded quiet Alaska run to its components *)

Theorem alaska_quiet_proof : forall m1 m2 cfg (p : profile) (s s' : mstate) sts,
  NoDup (cands p) -> s_transfer cfg <> TRandom ->
  run_alaska m1 m2 cfg p s = inl (sts, s') -> Forall no_tiebreak sts ->
  (forall s2, run_alaska m1 m2 cfg p s2 = inl (sts, s2)) /\
  exists s0 s1 p1 d el rem ssts,
    (1 <= m2 <= m1)%Z /\
    (* the Plurality(m1) stage: the first-place ranking splits at seat m1 without a tiebreak *)
    first_place_votes p = inl d /\ round0 SKFpv p = inl s0 /\
    (forall s2, elect_top_m (score_to_ranking d true) m1 (Some p) (s_tiebreak cfg) s2
                = inl ((el, rem, None), s2)) /\
    top_m_facts d m1 el rem None /\ el ++ rem = score_to_ranking d true /\
    (forall c1 c2 q1 q2, In c1 (flat el) -> In c2 (flat rem) -> In (c1, q1) d -> In (c2, q2) d ->
       q2 < q1) /\
    (forall s2, plurality_stage m1 (s_tiebreak cfg) p s0 s2 = inl ((p1, s1), s2)) /\
    remaining s1 = el /\ eliminated s1 = rem /\
    (* the cut profile *)
    remove_cand_prof (flat rem) true false p = inl p1 /\ Permutation (cands p1) (flat el) /\
    (* the STV(m2) stage on it *)
    (forall s2, run_stv (with_m cfg m2) p1 s2 = inl (ssts, s2)) /\ Forall no_tiebreak ssts /\
    sts = s0 :: s1 :: map bump (tl ssts) /\ length sts = S (length ssts) /\
    (* the winners *)
    get_elected sts (-1) = get_elected ssts (-1) /\
    (wf_stv0 p ->
       elects_exactly sts m2 /\
       forall e c, get_elected sts (-1) = inl e -> In c (flat e) -> In c (flat el)).
Proof.
  intros m1 m2 cfg p s s' sts Hnd Hk H Hq.
  assert (Hdet : deterministic (RAlaska m1 m2 cfg)) by exact Hk.
  destruct (C10_quiet.c10_script_irrelevant_proof cand ceqb (RAlaska m1 m2 cfg) p s s' sts Hdet H Hq)
    as [-> [_ Hall]].
  split; [exact Hall|].
  destruct (c13_alaska_states_proof cand ceqb ceqb_spec m1 m2 cfg p s sts s Hnd H)
    as [s0 [p1 [s1 [sa [ssts [sb [d [el [rem [t [Hargs [H0 [Hr0 [Hes0 [Hd [Hst [Hel [Hfacts [Hnp [Hr1
       [Hrem1 [Hel1 [Helim1 [Htb1 [Hd1 [Hperm [Hlen [Hrun [[q0 [Hq0 [Hssts Hesq0]]] [Hsts [Hnum Hlensts]]]]]]]]]]]]]]]]]]]]]]]]]]]]]]].
  assert (Hk2 : s_transfer (with_m cfg m2) <> TRandom) by exact Hk.
  (* quietness of the two stages *)
  assert (Hq1 : no_tiebreak s1 /\ Forall no_tiebreak ssts).
  { rewrite Hsts in Hq. inversion Hq as [|x y _ Hq']; subst. inversion Hq' as [|x y Hq1 Hq2]; subst.
    split; [exact Hq1|]. rewrite Hssts. constructor.
    - exact (C10_quiet.initial_state_no_tiebreak cand ceqb p1 q0 Hq0).
    - apply (C10_quiet.Forall_map_bump cand). exact Hq2. }
  destruct Hq1 as [Hq1 Hqs].
  assert (Ht : t = None) by (apply tb_opt_nil; rewrite <- Htb1; exact Hq1). subst t.
  pose proof (C10_quiet.elect_top_m_quiet cand ceqb _ _ _ _ _ _ _ _ Hel) as E. subst sa.
  pose proof (C10_quiet.run_stv_quiet cand ceqb _ _ _ _ _ Hk2 Hrun Hqs) as E. subst sb.
  exists s0, s1, p1, d, el, rem, ssts.
  split; [exact Hargs|]. split; [exact Hd|]. split; [exact H0|].
  split.
  { intros s2. exact (local_no_draw_state cand _ _ (Local_elect_top_m cand ceqb _ _ _ _) _ _ Hel s2). }
  split; [exact Hfacts|].
  split; [apply Hfacts; reflexivity|].
  split; [apply (top_m_strict d m1 el rem Hfacts)|].
  split.
  { intros s2. exact (local_no_draw_state cand _ _ (Local_plurality_stage cand ceqb _ _ _ _) _ _ Hst s2). }
  split; [exact Hrem1|]. split; [exact Helim1|]. split; [exact Hnp|]. split; [exact Hperm|].
  split.
  { intros s2. exact (local_no_draw_state cand _ _ (Local_run_stv cand ceqb _ _) _ _ Hrun s2). }
  split; [exact Hqs|]. split; [exact Hsts|]. split; [exact Hlensts|].
  assert (Hs0e : elected s0 = [[]]).
  { unfold Rules.round0 in H0. cbn [Rules.score_fn] in H0. rewrite Hd in H0. cbn [rbind] in H0.
    unfold ok in H0. inversion H0. reflexivity. }
  destruct (initial_state_fields cand ceqb p1 q0 Hq0) as [Hq0e _].
  assert (Hge : get_elected sts (-1) = get_elected ssts (-1)).
  { rewrite Hsts. rewrite Hssts at 2. apply alaska_get_elected; assumption. }
  split; [exact Hge|].
  intros Hwf.
  assert (Hscr : s_transfer cfg = TRandom -> script_ok cand s) by (intros E; contradiction).
  destruct (alaska_run_outcome cand ceqb ceqb_spec m1 m2 cfg p s sts s Hwf Hscr H)
    as [_ [_ [_ [_ [Hex _]]]]].
  split; [exact Hex|].
  intros e c He Hc. rewrite Hge in He.
  pose proof (stage_profile_wf_stv cand ceqb ceqb_spec _ _ _ Hwf Hnp) as Hwf1.
  assert (Hscr1 : s_transfer (with_m cfg m2) = TRandom -> script_ok cand s) by (intros E; contradiction).
  pose proof (run_stv_partition cand ceqb ceqb_spec _ _ _ _ _ Hwf1 Hscr1 Hrun) as Hpart.
  assert (Hne : ssts <> []) by (rewrite Hssts; discriminate).
  rewrite (get_elected_last cand ceqb ssts Hne) in He. inversion He; subst e.
  assert (Hlt : (length ssts - 1 < length ssts)%nat).
  { destruct ssts; [contradiction Hne; reflexivity|cbn [length]; lia]. }
  destruct (nth_error ssts (length ssts - 1)) as [st|] eqn:Hn;
    [|apply nth_error_None in Hn; lia].
  specialize (Hpart _ _ Hn).
  apply (Permutation_in c Hperm). apply (Permutation_in c Hpart). apply in_or_app. left. exact Hc.
Qed.

End Alaska2.
