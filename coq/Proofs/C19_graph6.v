(* Proofs/C19_graph6.v — property C19, part 2: the checker of C19_graph.v evaluated on the ballot
   graph for six candidates (1236 nodes, 3705 edges; about a minute and a half under vm_compute),
   and the node / edge / loading statements for every n from 2 to 6. *)
From VK Require Import Base Core Metrics EditSpec MetricSpec.
From VK.Proofs Require Import C19_graph.
From Coq Require Import Lia.

Local Open Scope nat_scope.

Lemma graph_ok_6 : graph_ok 6 (build_graph 6) = true.
Proof. vm_cast_no_check (eq_refl true). Qed.

Lemma graph_ok_n : forall n, 2 <= n <= 6 -> graph_ok n (build_graph n) = true.
Proof.
  intros n H. assert (E : n = 2 \/ n = 3 \/ n = 4 \/ n = 5 \/ n = 6) by lia.
  destruct E as [->|[->|[->|[->| ->]]]].
  - exact graph_ok_2.
  - exact graph_ok_3.
  - exact graph_ok_4.
  - exact graph_ok_5.
  - exact graph_ok_6.
Qed.

(* G1 *)
Theorem graph_nodes_n : forall n, 2 <= n <= 6 ->
  NoDup (g_nodes (build_graph n)) /\
  forall k, In k (g_nodes (build_graph n)) <-> valid_node n k.
Proof.
  intros n H. apply nodes_ok_sound. pose proof (graph_ok_n n H) as Hok. unfold graph_ok in Hok.
  apply andb_true_iff in Hok. apply Hok.
Qed.

(* G2 *)
Theorem graph_edges_n : forall n, 2 <= n <= 6 ->
  (forall a b, In a (g_nodes (build_graph n)) -> In b (g_nodes (build_graph n)) ->
     (has_edge (build_graph n) a b <-> spec_adjacent_prop n a b)) /\
  (forall a b, In (a, b) (g_edges (build_graph n)) ->
     In a (g_nodes (build_graph n)) /\ In b (g_nodes (build_graph n))).
Proof.
  intros n H. apply edges_ok_sound. pose proof (graph_ok_n n H) as Hok. unfold graph_ok in Hok.
  apply andb_true_iff in Hok. apply Hok.
Qed.

Theorem graph_edges_bool_n : forall n, 2 <= n <= 6 ->
  forall a b, In a (g_nodes (build_graph n)) -> In b (g_nodes (build_graph n)) ->
    (has_edge (build_graph n) a b <-> spec_adjacent n a b = true).
Proof.
  intros n Hn a b Ha Hb. rewrite spec_adjacent_spec. apply (graph_edges_n n Hn); assumption.
Qed.

(* G3 *)
Theorem load_total : forall (cand : Type) (ceqb : cand -> cand -> bool),
  (forall a b, reflect (a = b) (ceqb a b)) ->
  forall p : profile cand,
  2 <= length (cands p) <= 6 ->
  NoDup (cands p) -> Forall (linear_ballot cand (cands p)) (ballots p) ->
  exists ws, node_weights cand ceqb p true = inl ws /\
    NoDup (map fst ws) /\
    (qsum (map snd ws) == total_wt cand (ballots p))%Q /\
    (forall k, (weight_at ws k ==
                qsum (map wt (filter (fun b => node_eqb (spec_ballot_node cand ceqb (cands p) b) k)
                                     (ballots p))))%Q) /\
    (forall k, In k (map fst ws) ->
       exists b, In b (ballots p) /\ k = spec_ballot_node cand ceqb (cands p) b).
Proof.
  intros cand ceqb ceqb_spec p Hn Hcs Hbs. apply load_total_gen; try assumption.
  intros k Hk. apply (graph_nodes_n _ Hn). exact Hk.
Qed.
