(* Proofs/C11_condense.v — condense_ballots (model: [acc_add], [condense_bs]):
   per-content weight conservation, pairwise distinct output, no invented / no lost content,
   order independence, idempotence. *)
From Coq Require Import List ZArith QArith Bool Permutation Lia Setoid PeanoNat.
From VK Require Import Base Core.
From VK.Spec Require Import Content.
From VK.Proofs Require Import Lib_content.
Import ListNotations.

Section C11Condense.
Variable cand : Type.
Variable ceqb : cand -> cand -> bool.
Hypothesis ceqb_spec : forall a b, reflect (a = b) (ceqb a b).

Local Notation ballot := (Core.ballot cand).
Local Notation same := (same_content cand ceqb).
Local Notation wtof := (Content.wtof cand ceqb).
Local Notation distinct := (distinct_contents cand ceqb).
Local Notation acc_add := (Core.acc_add cand ceqb).
Local Notation condense_bs := (Core.condense_bs cand ceqb).
Local Notation anonymous := (Content.anonymous cand).

Let same_refl := same_refl cand ceqb ceqb_spec.
Let same_sym := same_sym cand ceqb.
Let same_trans := same_trans cand ceqb ceqb_spec.
Let same_congr_r := same_congr_r cand ceqb ceqb_spec.
Let same_congr_l := same_congr_l cand ceqb ceqb_spec.
Let same_ext_l := same_ext_l cand ceqb.
Let same_ext_r := same_ext_r cand ceqb.

(* ---------- wtof ---------- *)
Lemma wtof_nil k : wtof k [] = 0.
Proof. reflexivity. Qed.

Lemma wtof_cons k b bs :
  wtof k (b :: bs) = if same k b then wt b + wtof k bs else wtof k bs.
Proof. unfold Content.wtof. cbn [filter]. destruct (same k b); reflexivity. Qed.

Lemma wtof_app k l1 l2 : wtof k (l1 ++ l2) == wtof k l1 + wtof k l2.
Proof. unfold Content.wtof. rewrite filter_app, map_app. apply qsum_app. Qed.

Lemma wtof_perm k l l' : Permutation l l' -> wtof k l == wtof k l'.
Proof.
  induction 1 as [|x l l' _ IH|x y l|l l' l'' _ IH1 _ IH2].
  - reflexivity.
  - rewrite !wtof_cons. destruct (same k x); rewrite IH; reflexivity.
  - rewrite !wtof_cons. destruct (same k x); destruct (same k y); ring.
  - rewrite IH1. exact IH2.
Qed.

Lemma wtof_same k k' l : same k k' = true -> wtof k l = wtof k' l.
Proof.
  intros H. unfold Content.wtof. f_equal. f_equal. apply filter_ext.
  intros x. apply same_congr_l. exact H.
Qed.

Lemma wtof_none k l : (forall x, In x l -> same k x = false) -> wtof k l == 0.
Proof.
  induction l as [|x l IH]; intro H.
  - reflexivity.
  - rewrite wtof_cons, (H x (or_introl eq_refl)). apply IH.
    intros y Hy. apply H. right. exact Hy.
Qed.

Lemma wtof_nonzero_ex k l : ~ wtof k l == 0 -> exists x, In x l /\ same k x = true.
Proof.
  intros H. destruct (existsb (same k) l) eqn:E.
  - apply existsb_exists in E. exact E.
  - exfalso. apply H. apply wtof_none. intros x Hx.
    destruct (same k x) eqn:F; [|reflexivity].
    assert (existsb (same k) l = true) as T by (apply existsb_exists; exists x; split; assumption).
    rewrite T in E. discriminate E.
Qed.

Lemma wtof_pos k l :
  (forall b, In b l -> 0 < wt b) -> (exists x, In x l /\ same k x = true) -> 0 < wtof k l.
Proof.
  induction l as [|x l IH]; intros P [y [Hy S]].
  - destruct Hy.
  - rewrite wtof_cons. assert (0 <= wtof k l) as NN.
    { unfold Content.wtof. apply qsum_pos_nonneg. intros q Hq. apply in_map_iff in Hq as [b [<- Hb]].
      apply filter_In in Hb as [Hb _]. apply Qlt_le_weak. apply P. right. exact Hb. }
    destruct (same k x) eqn:E.
    + assert (0 < wt x) as Px by (apply P; left; reflexivity).
      rewrite <- (Qplus_0_l 0). apply Qplus_lt_le_compat; assumption.
    + apply IH.
      * intros b Hb. apply P. right. exact Hb.
      * destruct Hy as [<-|Hy]; [rewrite S in E; discriminate E|]. exists y. split; assumption.
Qed.

(* ---------- acc_add unfoldings in spec vocabulary ---------- *)
Lemma acc_add_nil b : acc_add [] b = [mkBallot (rk b) (wt b) (sc b) None None].
Proof. reflexivity. Qed.

Lemma acc_add_cons k acc b :
  acc_add (k :: acc) b =
  if same k b then mkBallot (rk k) (wt k + wt b) (sc k) None None :: acc
  else k :: acc_add acc b.
Proof. reflexivity. Qed.

(* ---------- weights ---------- *)
Lemma acc_add_wtof k acc b :
  wtof k (acc_add acc b) == wtof k acc + (if same k b then wt b else 0).
Proof.
  induction acc as [|k0 acc IH].
  - rewrite acc_add_nil, wtof_cons, wtof_nil.
    change (same k (mkBallot (rk b) (wt b) (sc b) None None)) with (same k b).
    destruct (same k b); cbn [wt]; ring.
  - rewrite acc_add_cons. destruct (same k0 b) eqn:E.
    + rewrite !wtof_cons.
      change (same k (mkBallot (rk k0) (wt k0 + wt b) (sc k0) None None)) with (same k k0).
      rewrite <- (same_congr_r k0 b k E).
      destruct (same k k0); cbn [wt]; ring.
    + rewrite !wtof_cons. destruct (same k k0); rewrite IH; ring.
Qed.

Lemma fold_wtof k bs : forall acc,
  wtof k (fold_left acc_add bs acc) == wtof k acc + wtof k bs.
Proof.
  induction bs as [|b bs IH]; intro acc; cbn [fold_left].
  - rewrite wtof_nil. ring.
  - rewrite IH, acc_add_wtof, wtof_cons. destruct (same k b); ring.
Qed.

Lemma condense_weights k bs : wtof k (condense_bs bs) == wtof k bs.
Proof. unfold Core.condense_bs. rewrite fold_wtof, wtof_nil. ring. Qed.

(* ---------- tracking contents ---------- *)
Definition kext (x y : ballot) : Prop := rk x = rk y /\ sc x = sc y.

Lemma kext_refl x : kext x x.
Proof. split; reflexivity. Qed.
Lemma kext_trans x y z : kext x y -> kext y z -> kext x z.
Proof. intros [A B] [C D]. split; congruence. Qed.
Lemma kext_same x y : kext x y -> same x y = true.
Proof. intros [A B]. rewrite (same_ext_l x y y A B). apply same_refl. Qed.
Lemma kext_same_l x y k : kext x y -> same x k = same y k.
Proof. intros [A B]. apply same_ext_l; assumption. Qed.
Lemma kext_same_r x y k : kext x y -> same k x = same k y.
Proof. intros [A B]. apply same_ext_r; assumption. Qed.

Lemma acc_add_In_inv acc b x :
  In x (acc_add acc b) -> (exists y, In y acc /\ kext x y) \/ kext x b.
Proof.
  induction acc as [|k0 acc IH].
  - rewrite acc_add_nil. intros [<-|[]]. right. split; reflexivity.
  - rewrite acc_add_cons. destruct (same k0 b).
    + intros [<-|H].
      * left. exists k0. split; [left; reflexivity | split; reflexivity].
      * left. exists x. split; [right; exact H | apply kext_refl].
    + intros [<-|H].
      * left. exists k0. split; [left; reflexivity | apply kext_refl].
      * apply IH in H as [[y [Hy K]]|K].
        -- left. exists y. split; [right; exact Hy | exact K].
        -- right. exact K.
Qed.

Lemma acc_add_old acc b y :
  In y acc -> exists x, In x (acc_add acc b) /\ kext x y.
Proof.
  induction acc as [|k0 acc IH]; intro H; [destruct H|].
  rewrite acc_add_cons. destruct (same k0 b).
  - destruct H as [<-|H].
    + eexists. split; [left; reflexivity | split; reflexivity].
    + exists y. split; [right; exact H | apply kext_refl].
  - destruct H as [<-|H].
    + exists k0. split; [left; reflexivity | apply kext_refl].
    + destruct (IH H) as [x [Hx K]]. exists x. split; [right; exact Hx | exact K].
Qed.

Lemma acc_add_new acc b : exists x, In x (acc_add acc b) /\ same x b = true.
Proof.
  induction acc as [|k0 acc IH].
  - rewrite acc_add_nil. eexists. split; [left; reflexivity|]. exact (same_refl b).
  - rewrite acc_add_cons. destruct (same k0 b) eqn:E.
    + eexists. split; [left; reflexivity|]. exact E.
    + destruct IH as [x [Hx S]]. exists x. split; [right; exact Hx | exact S].
Qed.

Definition covers (l : list ballot) (k : ballot) : Prop :=
  exists x, In x l /\ same x k = true.

Lemma covers_acc_add acc b k : covers acc k -> covers (acc_add acc b) k.
Proof.
  intros [y [Hy S]]. destruct (acc_add_old acc b y Hy) as [x [Hx K]].
  exists x. split; [exact Hx|]. rewrite (kext_same_l x y k K). exact S.
Qed.

Lemma fold_covers_old bs : forall acc k,
  covers acc k -> covers (fold_left acc_add bs acc) k.
Proof.
  induction bs as [|b bs IH]; intros acc k H; cbn [fold_left]; [exact H|].
  apply IH. apply covers_acc_add. exact H.
Qed.

Lemma fold_covers_new bs : forall acc b,
  In b bs -> covers (fold_left acc_add bs acc) b.
Proof.
  induction bs as [|a bs IH]; intros acc b H; [destruct H|].
  cbn [fold_left]. destruct H as [<-|H].
  - apply fold_covers_old. apply acc_add_new.
  - apply IH. exact H.
Qed.

Lemma fold_In_inv bs : forall acc x,
  In x (fold_left acc_add bs acc) ->
  (exists y, In y acc /\ kext x y) \/ (exists y, In y bs /\ kext x y).
Proof.
  induction bs as [|b bs IH]; intros acc x H; cbn [fold_left] in H.
  - left. exists x. split; [exact H | apply kext_refl].
  - apply IH in H as [[y [Hy K]]|[y [Hy K]]].
    + apply acc_add_In_inv in Hy as [[z [Hz K2]]|K2].
      * left. exists z. split; [exact Hz | eapply kext_trans; eassumption].
      * right. exists b. split; [left; reflexivity | eapply kext_trans; eassumption].
    + right. exists y. split; [right; exact Hy | exact K].
Qed.

Lemma condense_no_invented bs x :
  In x (condense_bs bs) -> exists y, In y bs /\ rk x = rk y /\ sc x = sc y.
Proof.
  intros H. apply fold_In_inv in H as [[y [[] _]]|H]. exact H.
Qed.

Lemma condense_covers bs b : In b bs -> covers (condense_bs bs) b.
Proof. apply fold_covers_new. Qed.

(* ---------- anonymous output ---------- *)
Lemma acc_add_anon acc b : Forall anonymous acc -> Forall anonymous (acc_add acc b).
Proof.
  induction acc as [|k0 acc IH]; intro H.
  - rewrite acc_add_nil. constructor; [split; reflexivity | constructor].
  - inversion H as [|x l Hx Hl]; subst. rewrite acc_add_cons. destruct (same k0 b).
    + constructor; [split; reflexivity | exact Hl].
    + constructor; [exact Hx | apply IH; exact Hl].
Qed.

Lemma fold_anon bs : forall acc, Forall anonymous acc -> Forall anonymous (fold_left acc_add bs acc).
Proof.
  induction bs as [|b bs IH]; intros acc H; cbn [fold_left]; [exact H|].
  apply IH. apply acc_add_anon. exact H.
Qed.

Lemma condense_anon bs : Forall anonymous (condense_bs bs).
Proof. apply fold_anon. constructor. Qed.

(* ---------- distinct contents ---------- *)
Lemma distinct_nil : distinct [].
Proof. constructor. Qed.

Lemma distinct_cons_iff a l :
  distinct (a :: l) <-> Forall (fun b => same a b = false) l /\ distinct l.
Proof.
  unfold distinct_contents. split.
  - intro H. inversion H; subst. split; assumption.
  - intros [A B]. constructor; assumption.
Qed.

Lemma distinct_spec l :
  distinct l <-> NoDup l /\ (forall x y, In x l -> In y l -> same x y = true -> x = y).
Proof.
  induction l as [|a l IH].
  - split; [|intros _; apply distinct_nil].
    intros _. split; [constructor | intros x y []].
  - rewrite distinct_cons_iff, IH, Forall_forall. split.
    + intros [F [ND U]]. split.
      * constructor; [|exact ND]. intro Ha. specialize (F a Ha).
        rewrite (same_refl a) in F. discriminate F.
      * intros x y [<-|Hx] [<-|Hy] S.
        -- reflexivity.
        -- rewrite (F y Hy) in S. discriminate S.
        -- rewrite same_sym in S. rewrite (F x Hx) in S. discriminate S.
        -- apply U; assumption.
    + intros [ND U]. inversion ND as [|x y Hn Hd]; subst. split; [|split].
      * intros x Hx. destruct (same a x) eqn:E; [|reflexivity].
        exfalso. apply Hn. rewrite (U a x (or_introl eq_refl) (or_intror Hx) E). exact Hx.
      * exact Hd.
      * intros x y Hx Hy S. apply U; [right; exact Hx | right; exact Hy | exact S].
Qed.

Lemma distinct_perm l l' : Permutation l l' -> distinct l -> distinct l'.
Proof.
  intros P. rewrite !distinct_spec. intros [ND U]. split.
  - eapply Permutation_NoDup; eassumption.
  - intros x y Hx Hy. apply U; eapply Permutation_in; try eassumption; apply Permutation_sym; exact P.
Qed.

Lemma distinct_app_inv l1 l2 :
  distinct (l1 ++ l2) ->
  distinct l1 /\ distinct l2 /\ forall x y, In x l1 -> In y l2 -> same x y = false.
Proof.
  induction l1 as [|a l1 IH]; cbn [app]; intro H.
  - split; [apply distinct_nil | split; [exact H | intros x y []]].
  - apply distinct_cons_iff in H as [F D]. apply Forall_app in F as [F1 F2].
    destruct (IH D) as [D1 [D2 X]]. split; [|split].
    + apply distinct_cons_iff. split; assumption.
    + exact D2.
    + intros x y [<-|Hx] Hy.
      * rewrite Forall_forall in F2. apply F2. exact Hy.
      * apply X; assumption.
Qed.

Lemma acc_add_distinct acc b : distinct acc -> distinct (acc_add acc b).
Proof.
  induction acc as [|k0 acc IH]; intro H.
  - rewrite acc_add_nil. apply distinct_cons_iff. split; [constructor | apply distinct_nil].
  - apply distinct_cons_iff in H as [F D]. rewrite acc_add_cons. destruct (same k0 b) eqn:E.
    + apply distinct_cons_iff. split; [|exact D]. exact F.
    + apply distinct_cons_iff. split; [|apply IH; exact D].
      rewrite Forall_forall in *. intros x Hx.
      apply acc_add_In_inv in Hx as [[y [Hy K]]|K].
      * rewrite (kext_same_r x y k0 K). apply F. exact Hy.
      * rewrite (kext_same_r x b k0 K). exact E.
Qed.

Lemma fold_distinct bs : forall acc, distinct acc -> distinct (fold_left acc_add bs acc).
Proof.
  induction bs as [|b bs IH]; intros acc H; cbn [fold_left]; [exact H|].
  apply IH. apply acc_add_distinct. exact H.
Qed.

Lemma condense_distinct bs : distinct (condense_bs bs).
Proof. apply fold_distinct. apply distinct_nil. Qed.

(* in a list of distinct contents, the weight of a content is the weight of its one ballot *)
Lemma distinct_wtof l : distinct l -> forall k a, In a l -> same k a = true -> wtof k l == wt a.
Proof.
  induction l as [|x l IH]; intros D k a Ha S; [destruct Ha|].
  apply distinct_cons_iff in D as [F D]. rewrite Forall_forall in F. rewrite wtof_cons.
  destruct Ha as [<-|Ha].
  - rewrite S. rewrite (wtof_none k l); [ring|].
    intros y Hy. rewrite (same_congr_l k x y S). apply F. exact Hy.
  - destruct (same k x) eqn:E.
    + exfalso. specialize (F a Ha). rewrite <- (same_congr_l k x a E) in F. rewrite S in F. discriminate F.
    + apply IH; assumption.
Qed.

(* ---------- idempotence: a distinct anonymous list is a fixed point ---------- *)
Lemma acc_add_fresh acc b :
  (forall x, In x acc -> same x b = false) ->
  acc_add acc b = acc ++ [mkBallot (rk b) (wt b) (sc b) None None].
Proof.
  induction acc as [|k0 acc IH]; intro H; [reflexivity|].
  rewrite acc_add_cons, (H k0 (or_introl eq_refl)). cbn [app]. f_equal.
  apply IH. intros x Hx. apply H. right. exact Hx.
Qed.

Lemma anon_eta (b : ballot) : anonymous b -> mkBallot (rk b) (wt b) (sc b) None None = b.
Proof. destruct b as [r w s i v]. unfold Content.anonymous. cbn. intros [-> ->]. reflexivity. Qed.

Lemma fold_fresh l : forall acc,
  distinct (acc ++ l) -> Forall anonymous l -> fold_left acc_add l acc = acc ++ l.
Proof.
  induction l as [|b l IH]; intros acc D N; cbn [fold_left].
  - rewrite app_nil_r. reflexivity.
  - inversion N as [|x y Nb N']; subst.
    destruct (distinct_app_inv _ _ D) as [_ [_ X]].
    rewrite acc_add_fresh, (anon_eta b Nb).
    + rewrite IH; [rewrite <- app_assoc; reflexivity | rewrite <- app_assoc; exact D | exact N'].
    + intros x Hx. apply X; [exact Hx | left; reflexivity].
Qed.

Lemma condense_fixed l : distinct l -> Forall anonymous l -> condense_bs l = l.
Proof. intros D N. apply (fold_fresh l [] D N). Qed.

Lemma condense_idem bs : condense_bs (condense_bs bs) = condense_bs bs.
Proof. apply condense_fixed; [apply condense_distinct | apply condense_anon]. Qed.

(* ---------- two distinct lists covering each other are matched by a permutation ---------- *)
Lemma Forall2_impl_In {A B} (P Q : A -> B -> Prop) l l' :
  (forall a b, In a l -> In b l' -> P a b -> Q a b) -> Forall2 P l l' -> Forall2 Q l l'.
Proof.
  intros H F. induction F as [|a b l l' Hab F IH]; constructor.
  - apply H; [left; reflexivity | left; reflexivity | exact Hab].
  - apply IH. intros x y Hx Hy. apply H; right; assumption.
Qed.

Lemma Forall2_In_l {A B} (P : A -> B -> Prop) l l' a :
  Forall2 P l l' -> In a l -> exists b, In b l' /\ P a b.
Proof.
  intros F. induction F as [|x y l l' Hxy F IH]; intros Ha; [destruct Ha|].
  destruct Ha as [<-|Ha].
  - exists y. split; [left; reflexivity | exact Hxy].
  - destruct (IH Ha) as [b [Hb Pb]]. exists b. split; [right; exact Hb | exact Pb].
Qed.

Lemma Forall2_len {A B} (P : A -> B -> Prop) l l' : Forall2 P l l' -> length l = length l'.
Proof. induction 1; cbn [length]; congruence. Qed.

Lemma distinct_match_perm l1 : forall l2,
  distinct l1 -> distinct l2 ->
  (forall x, In x l1 -> covers l2 x) -> (forall y, In y l2 -> covers l1 y) ->
  exists l2', Permutation l2 l2' /\ Forall2 (fun a b => same a b = true) l1 l2'.
Proof.
  induction l1 as [|a l1 IH]; intros l2 D1 D2 C12 C21.
  - destruct l2 as [|y l2].
    + exists []. split; constructor.
    + destruct (C21 y (or_introl eq_refl)) as [x [[] _]].
  - destruct (C12 a (or_introl eq_refl)) as [y [Hy Sya]].
    apply in_split in Hy as [l2a [l2b ->]].
    assert (distinct (y :: l2a ++ l2b)) as D2'.
    { eapply distinct_perm; [|exact D2]. apply Permutation_sym, Permutation_middle. }
    apply distinct_cons_iff in D2' as [Fy D2'']. rewrite Forall_forall in Fy.
    apply distinct_cons_iff in D1 as [Fa D1']. rewrite Forall_forall in Fa.
    destruct (IH (l2a ++ l2b) D1' D2'') as [l2' [P F]].
    + intros x Hx. destruct (C12 x (or_intror Hx)) as [z [Hz Szx]].
      exists z. split; [|exact Szx].
      apply in_app_or in Hz as [Hz|[<-|Hz]]; [apply in_or_app; left; exact Hz| |apply in_or_app; right; exact Hz].
      exfalso. specialize (Fa x Hx).
      assert (same a x = true) as T.
      { eapply same_trans; [|exact Szx]. rewrite same_sym. exact Sya. }
      rewrite T in Fa. discriminate Fa.
    + intros z Hz. assert (In z (l2a ++ y :: l2b)) as Hz'.
      { apply in_app_or in Hz as [Hz|Hz]; apply in_or_app; [left|right; right]; exact Hz. }
      destruct (C21 z Hz') as [w [[<-|Hw] Swz]].
      * exfalso. specialize (Fy z Hz).
        assert (same y z = true) as T by (eapply same_trans; eassumption).
        rewrite T in Fy. discriminate Fy.
      * exists w. split; assumption.
    + exists (y :: l2'). split.
      * eapply Permutation_trans; [apply Permutation_sym, Permutation_middle|].
        apply perm_skip. exact P.
      * constructor; [rewrite same_sym; exact Sya | exact F].
Qed.

Lemma covers_perm l l' k : Permutation l l' -> covers l k -> covers l' k.
Proof.
  intros P [x [Hx S]]. exists x. split; [eapply Permutation_in; eassumption | exact S].
Qed.

(* the general comparison principle for two "condensed-like" lists *)
Lemma distinct_lists_agree l1 l2 :
  distinct l1 -> distinct l2 ->
  (forall x, In x l1 -> covers l2 x) -> (forall y, In y l2 -> covers l1 y) ->
  (forall k, wtof k l1 == wtof k l2) ->
  length l1 = length l2 /\
  (exists l, Permutation l2 l /\ Forall2 (fun a b => same a b = true /\ wt a == wt b) l1 l) /\
  (forall a, In a l1 -> exists b, In b l2 /\ same a b = true /\ wt a == wt b /\
                                  forall b', In b' l2 -> same a b' = true -> b' = b).
Proof.
  intros D1 D2 C12 C21 W.
  destruct (distinct_match_perm l1 l2 D1 D2 C12 C21) as [l [P F]].
  assert (Forall2 (fun a b => same a b = true /\ wt a == wt b) l1 l) as F'.
  { eapply Forall2_impl_In; [|exact F]. cbv beta. intros a b Ha Hb S. split; [exact S|].
    rewrite <- (distinct_wtof l1 D1 a a Ha (same_refl a)).
    rewrite (W a), (wtof_perm a l2 l P).
    apply (distinct_wtof l (distinct_perm _ _ P D2) a b Hb S). }
  split; [|split].
  - rewrite (Forall2_len _ _ _ F). symmetry. apply Permutation_length. exact P.
  - exists l. split; assumption.
  - intros a Ha. destruct (Forall2_In_l _ _ _ a F' Ha) as [b [Hb [S Wt]]].
    assert (In b l2) as Hb2 by (eapply Permutation_in; [apply Permutation_sym; exact P | exact Hb]).
    exists b. split; [exact Hb2 | split; [exact S | split; [exact Wt|]]].
    intros b' Hb' S'. apply distinct_spec in D2 as [_ U]. apply U; try assumption.
    eapply same_trans; [|exact S]. rewrite same_sym. exact S'.
Qed.

Lemma condense_order_indep bs bs' :
  Permutation bs bs' ->
  (forall k, wtof k (condense_bs bs) == wtof k (condense_bs bs')) /\
  length (condense_bs bs) = length (condense_bs bs') /\
  (exists l, Permutation (condense_bs bs') l /\
             Forall2 (fun a b => same a b = true /\ wt a == wt b) (condense_bs bs) l) /\
  (forall a, In a (condense_bs bs) ->
     exists b, In b (condense_bs bs') /\ same a b = true /\ wt a == wt b /\
               forall b', In b' (condense_bs bs') -> same a b' = true -> b' = b).
Proof.
  intros P.
  assert (forall k, wtof k (condense_bs bs) == wtof k (condense_bs bs')) as W.
  { intro k. rewrite !condense_weights. apply wtof_perm. exact P. }
  split; [exact W|].
  apply distinct_lists_agree; try apply condense_distinct; try exact W.
  - intros x Hx. destruct (condense_no_invented bs x Hx) as [y [Hy [A B]]].
    destruct (condense_covers bs' y (Permutation_in _ P Hy)) as [z [Hz S]].
    exists z. split; [exact Hz|]. rewrite (same_ext_r x y z A B). exact S.
  - intros x Hx. destruct (condense_no_invented bs' x Hx) as [y [Hy [A B]]].
    destruct (condense_covers bs y (Permutation_in _ (Permutation_sym P) Hy)) as [z [Hz S]].
    exists z. split; [exact Hz|]. rewrite (same_ext_r x y z A B). exact S.
Qed.

Lemma condense_distinct_full bs :
  ForallOrdPairs (fun a b => same a b = false) (condense_bs bs) /\
  NoDup (condense_bs bs) /\
  (forall x, In x (condense_bs bs) -> exists y, In y bs /\ rk x = rk y /\ sc x = sc y) /\
  (forall y, In y bs -> exists x, In x (condense_bs bs) /\ same x y = true) /\
  Forall (fun x => bid x = None /\ vs x = None) (condense_bs bs).
Proof.
  split; [exact (condense_distinct bs)|]. split.
  - exact (proj1 (proj1 (distinct_spec _) (condense_distinct bs))).
  - split; [exact (condense_no_invented bs)|].
    split; [exact (condense_covers bs) | exact (condense_anon bs)].
Qed.

Lemma condense_profile_idem (p : Core.profile cand) :
  Core.condense cand ceqb (Core.condense cand ceqb p) = Core.condense cand ceqb p.
Proof. unfold Core.condense. cbn [ballots cands]. f_equal. apply condense_idem. Qed.

End C11Condense.
