(* Proofs/C14_sizes.v — C14: bloc sizes.  The number of ballots generated per bloc is the answer of the
   external oracle apportionment.compute("huntington", props, N).  Relative to the oracle's contract
   (one size per proportion, sizes add up to N — checked at run time on every recorded call) the
   per-bloc profiles returned by [finish_blocs] have exactly the apportioned total weights and the
   aggregate has total weight exactly N; the same for the crossover generators, which apportion
   over (bloc, "bloc"/"cross") voter types and pool the two types of a bloc.

   The contract is assumed for NON-EMPTY proportion lists only: no function satisfies it on the
   empty list with N > 0 ([unrestricted_contract_inconsistent]). *)
From VK Require Import Base Core GenValidation PrefInterval Generators Content GenSpec ApportionSpec.
From VK Require Import Lib_rk Lib_sets C14_wf.
From Coq Require Import Permutation Lia Lqa Setoid Morphisms.

Local Notation twt := (total_wt pcand).

(* ------------------------------------------------------------------ *)
(** * list facts *)

Lemma Forall2_nth_error_l : forall {A B} (R : A -> B -> Prop) l1 l2 i x,
  Forall2 R l1 l2 -> nth_error l1 i = Some x -> exists y, nth_error l2 i = Some y /\ R x y.
Proof.
  intros A B R l1 l2 i x H. revert i. induction H as [|a b l1 l2 Hab _ IH]; intros i Hi.
  - destruct i; discriminate.
  - destruct i as [|i]; cbn [nth_error] in Hi |- *.
    + injection Hi as <-. exists b. split; [reflexivity|exact Hab].
    + apply IH. exact Hi.
Qed.

Lemma Forall2_length_eq : forall {A B} (R : A -> B -> Prop) l1 l2, Forall2 R l1 l2 -> length l1 = length l2.
Proof. intros A B R l1 l2 H. induction H as [|a b l1 l2 _ _ IH]; cbn [length]; [reflexivity|]. rewrite IH. reflexivity. Qed.

Lemma cross_props_length : forall cp, length (cross_props cp) = (2 * length cp)%nat.
Proof.
  induction cp as [|x cp IH]; [reflexivity|]. unfold cross_props in *. cbn [map concat app length].
  rewrite IH. lia.
Qed.

Lemma cross_props_nil : forall cp, cp <> [] -> cross_props cp <> [].
Proof. intros [|x cp] H; [contradiction|discriminate]. Qed.

(* the two voter types of a bloc share out the bloc's proportion *)
Lemma cross_props_sum : forall cp, qsum (cross_props cp) == qsum (map snd cp).
Proof.
  induction cp as [|x cp IH]; [reflexivity|]. unfold cross_props in *. cbn [map concat app].
  rewrite !qsum_cons, IH. ring.
Qed.

Lemma pair_sums_facts : forall k (l : list nat), length l = (2 * k)%nat ->
  length (pair_sums l) = k /\ list_sum (pair_sums l) = list_sum l /\
  forall i, (i < k)%nat -> nth i (pair_sums l) 0%nat = (nth (2 * i) l 0%nat + nth (2 * i + 1) l 0%nat)%nat.
Proof.
  induction k as [|k IH]; intros l Hl.
  - destruct l; [|discriminate]. repeat split. intros i Hi. lia.
  - destruct l as [|a [|b l]]; try (cbn [length] in Hl; lia).
    cbn [length] in Hl. assert (Hl' : length l = (2 * k)%nat) by lia.
    destruct (IH l Hl') as (H1 & H2 & H3). cbn [pair_sums length]. split; [lia|]. split.
    { unfold list_sum in *. cbn [fold_right]. lia. }
    intros [|i] Hi.
    + reflexivity.
    + replace (2 * S i)%nat with (S (S (2 * i))) by lia.
      replace (S (S (2 * i)) + 1)%nat with (S (S (2 * i + 1))) by lia.
      cbn [nth]. apply H3. lia.
Qed.

(* ------------------------------------------------------------------ *)
(** * pools of prescribed sizes *)

Theorem finish_sizes : forall (sizes : list nat) pools by_bloc agg,
  map (fun bp : bloc * list gballot => length (snd bp)) pools = sizes ->
  (forall bp b, In bp pools -> In b (snd bp) -> wt b == 1) ->
  finish_blocs pools = inl (by_bloc, agg) ->
  length by_bloc = length sizes /\
  map fst by_bloc = map fst pools /\
  Forall2 (fun (bq : bloc * gprofile) n => twt (ballots (snd bq)) == Qnat n) by_bloc sizes /\
  twt (ballots agg) == Qnat (list_sum sizes).
Proof.
  intros sizes pools by_bloc agg Hs Hu H.
  pose proof (by_bloc_condensed pools by_bloc agg H) as HF.
  destruct (finish_total pools by_bloc agg H) as (_ & _ & Ht).
  assert (HG : map fst by_bloc = map fst pools /\
               Forall2 (fun (bq : bloc * gprofile) n => twt (ballots (snd bq)) == Qnat n) by_bloc
                       (map (fun bp : bloc * list gballot => length (snd bp)) pools)).
  { clear H Ht Hs. induction HF as [|bp bq pools by_bloc (Hn & _ & _ & _ & _ & _ & _ & H1) _ IH].
    - split; constructor.
    - destruct IH as [IH1 IH2]; [intros bp' b Hbp' Hb; apply (Hu bp' b); [right; exact Hbp'|exact Hb]|].
      cbn [map]. split; [rewrite Hn, IH1; reflexivity|]. constructor; [|exact IH2].
      apply H1. intros b Hb. apply (Hu bp b); [left; reflexivity|exact Hb]. }
  destruct HG as [HG1 HG2]. rewrite Hs in HG2.
  split; [apply (Forall2_length_eq _ _ _ HG2)|]. split; [exact HG1|]. split; [exact HG2|].
  rewrite (Ht Hu), Hs. reflexivity.
Qed.

(* ------------------------------------------------------------------ *)
(** * relative to the oracle *)

Section Apportion.
Variable apportion : list Q -> nat -> list nat.
(* TRUSTED (external package `apportionment`; checked at run time on every recorded call): for a
   non-empty list of proportions the answer has one size per proportion and the sizes add up to N *)
Hypothesis apportion_ok : forall props N, props <> [] ->
  length (apportion props N) = length props /\ fold_right Nat.add 0%nat (apportion props N) = N.

Theorem bloc_sizes_proof : forall props N pools by_bloc agg,
  props <> [] ->
  map (fun bp : bloc * list gballot => length (snd bp)) pools = apportion props N ->
  (forall bp b, In bp pools -> In b (snd bp) -> wt b == 1) ->
  finish_blocs pools = inl (by_bloc, agg) ->
  length by_bloc = length props /\
  map fst by_bloc = map fst pools /\
  (forall i bq, nth_error by_bloc i = Some bq ->
     twt (ballots (snd bq)) == Qnat (nth i (apportion props N) 0%nat)) /\
  twt (ballots agg) == Qnat N.
Proof.
  intros props N pools by_bloc agg Hne Hs Hu H.
  destruct (apportion_ok props N Hne) as [Hlen Hsum].
  destruct (finish_sizes _ pools by_bloc agg Hs Hu H) as (H1 & H2 & H3 & H4).
  split; [rewrite H1; exact Hlen|]. split; [exact H2|]. split.
  - intros i bq Hi. destruct (Forall2_nth_error_l _ _ _ i bq H3 Hi) as (n & Hn & Hq).
    rewrite (nth_error_nth _ _ 0%nat Hn). exact Hq.
  - rewrite H4. unfold list_sum. rewrite Hsum. reflexivity.
Qed.

Theorem cross_sizes_proof : forall (cp : list (Q * Q)) N pools by_bloc agg,
  cp <> [] ->
  map (fun bp : bloc * list gballot => length (snd bp)) pools
    = pair_sums (apportion (cross_props cp) N) ->
  (forall bp b, In bp pools -> In b (snd bp) -> wt b == 1) ->
  finish_blocs pools = inl (by_bloc, agg) ->
  length (apportion (cross_props cp) N) = (2 * length cp)%nat /\
  length by_bloc = length cp /\
  map fst by_bloc = map fst pools /\
  (forall i bq, nth_error by_bloc i = Some bq ->
     twt (ballots (snd bq)) ==
     Qnat (nth (2 * i) (apportion (cross_props cp) N) 0%nat +
           nth (2 * i + 1) (apportion (cross_props cp) N) 0%nat)) /\
  twt (ballots agg) == Qnat N.
Proof.
  intros cp N pools by_bloc agg Hne Hs Hu H.
  destruct (apportion_ok (cross_props cp) N (cross_props_nil cp Hne)) as [Hlen Hsum].
  rewrite cross_props_length in Hlen.
  destruct (pair_sums_facts (length cp) _ Hlen) as (P1 & P2 & P3).
  destruct (finish_sizes _ pools by_bloc agg Hs Hu H) as (H1 & H2 & H3 & H4).
  split; [exact Hlen|]. split; [rewrite H1; exact P1|]. split; [exact H2|]. split.
  - intros i bq Hi. destruct (Forall2_nth_error_l _ _ _ i bq H3 Hi) as (n & Hn & Hq).
    assert (Hik : (i < length cp)%nat).
    { rewrite <- P1. apply nth_error_Some. rewrite Hn. discriminate. }
    rewrite <- (P3 i Hik), (nth_error_nth _ _ 0%nat Hn). exact Hq.
  - rewrite H4, P2. unfold list_sum. rewrite Hsum. reflexivity.
Qed.

End Apportion.

(* why the contract is restricted to non-empty proportion lists *)
Lemma unrestricted_contract_inconsistent :
  ~ exists apportion : list Q -> nat -> list nat, forall props N,
      length (apportion props N) = length props /\ fold_right Nat.add 0%nat (apportion props N) = N.
Proof.
  intros [ap H]. destruct (H [] 1%nat) as [Hl Hs]. cbn [length] in Hl.
  destruct (ap [] 1%nat); [discriminate Hs|discriminate Hl].
Qed.

(* a function that satisfies the (restricted) contract: used for the non-vacuity examples *)
Definition first_takes_all (props : list Q) (N : nat) : list nat :=
  match props with [] => [] | _ :: rest => N :: map (fun _ => 0%nat) rest end.

Lemma first_takes_all_ok : forall props N, props <> [] ->
  length (first_takes_all props N) = length props /\
  fold_right Nat.add 0%nat (first_takes_all props N) = N.
Proof.
  intros [|q rest] N H; [contradiction|]. cbn [first_takes_all length fold_right]. rewrite map_length.
  split; [reflexivity|]. assert (E : fold_right Nat.add 0%nat (map (fun _ : Q => 0%nat) rest) = 0%nat).
  { induction rest as [|x rest IH]; [reflexivity|]. cbn [map fold_right]. rewrite IH; [reflexivity|discriminate]. }
  rewrite E. lia.
Qed.
