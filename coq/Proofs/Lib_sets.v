(* Proofs/Lib_sets.v — reusable lemmas: rational sums [qsum], [filter], [Permutation], and the
   boolean set operations of Model/Core.v ([memb], [subsetb], [cset_eqb], [ranking_eqb],
   [dedup], [has_dup], [is_perm_of], [set_diff]) versus [In] / [incl] / [NoDup] / [Permutation]. *)
From VK Require Import Base Core.
From Coq Require Import Permutation Lia Lqa Setoid Morphisms Sorting.Sorted.

(* ------------------------------------------------------------------ *)
(** * Rational sums *)

Lemma Qnat_S : forall n, Qnat (S n) == Qnat n + 1.
Proof.
  intros n. unfold Qnat. rewrite Nat2Z.inj_succ. unfold Z.succ.
  rewrite inject_Z_plus. reflexivity.
Qed.

Lemma Qnat_0 : Qnat 0 == 0.
Proof. reflexivity. Qed.

Lemma Qnat_nonneg : forall n, 0 <= Qnat n.
Proof.
  intros n. unfold Qnat. change 0 with (inject_Z 0). rewrite <- Zle_Qle. lia.
Qed.

Lemma Qnat_pos : forall n, (0 < n)%nat -> 0 < Qnat n.
Proof.
  intros n Hn. unfold Qnat. change 0 with (inject_Z 0). rewrite <- Zlt_Qlt. lia.
Qed.

Lemma Qnat_neq0 : forall n, (0 < n)%nat -> ~ Qnat n == 0.
Proof.
  intros n Hn H. pose proof (Qnat_pos n Hn) as Hp. rewrite H in Hp.
  apply (Qlt_irrefl 0). exact Hp.
Qed.

Lemma Qnat_plus : forall a b, Qnat (a + b) == Qnat a + Qnat b.
Proof.
  intros a b. unfold Qnat. rewrite Nat2Z.inj_add, inject_Z_plus. reflexivity.
Qed.

Lemma qsum_nil : qsum [] = 0.
Proof. reflexivity. Qed.

Lemma qsum_cons : forall x l, qsum (x :: l) = x + qsum l.
Proof. reflexivity. Qed.

Lemma qsum_app : forall l1 l2, qsum (l1 ++ l2) == qsum l1 + qsum l2.
Proof.
  induction l1 as [|x l1 IH]; intros l2.
  - rewrite app_nil_l, qsum_nil. ring.
  - rewrite <- app_comm_cons, !qsum_cons, IH. ring.
Qed.

Lemma qsum_Forall2 : forall l l', Forall2 Qeq l l' -> qsum l == qsum l'.
Proof.
  intros l l' H. induction H as [|x y l l' Hxy _ IH].
  - reflexivity.
  - rewrite !qsum_cons, Hxy, IH. reflexivity.
Qed.

Lemma qsum_map_ext_in : forall {A} (f g : A -> Q) l,
  (forall a, In a l -> f a == g a) -> qsum (map f l) == qsum (map g l).
Proof.
  intros A f g l. induction l as [|a l IH]; intros H.
  - reflexivity.
  - cbn [map]. rewrite !qsum_cons, (H a (or_introl eq_refl)), IH.
    + reflexivity.
    + intros b Hb. apply H. right. exact Hb.
Qed.

Lemma qsum_perm : forall l l', Permutation l l' -> qsum l == qsum l'.
Proof.
  intros l l' H. induction H as [|x l l' _ IH|x y l|l l' l'' _ IH1 _ IH2].
  - reflexivity.
  - rewrite !qsum_cons, IH. reflexivity.
  - rewrite !qsum_cons. ring.
  - rewrite IH1. exact IH2.
Qed.

Lemma qsum_map_const : forall {A} (a : Q) (l : list A),
  qsum (map (fun _ => a) l) == Qnat (length l) * a.
Proof.
  intros A a l. induction l as [|x l IH].
  - cbn [map length]. rewrite qsum_nil, Qnat_0. ring.
  - cbn [map length]. rewrite qsum_cons, IH, Qnat_S. ring.
Qed.

Lemma qsum_map_zero : forall {A} (f : A -> Q) (l : list A),
  (forall a, In a l -> f a == 0) -> qsum (map f l) == 0.
Proof.
  intros A f l H. rewrite (qsum_map_ext_in f (fun _ => 0) l H).
  rewrite qsum_map_const. ring.
Qed.

Lemma qsum_map_scal : forall {A} (k : Q) (f : A -> Q) l,
  qsum (map (fun x => k * f x) l) == k * qsum (map f l).
Proof.
  intros A k f l. induction l as [|a l IH].
  - cbn [map]. rewrite qsum_nil. ring.
  - cbn [map]. rewrite !qsum_cons, IH. ring.
Qed.

Lemma qsum_map_plus : forall {A} (f g : A -> Q) l,
  qsum (map (fun x => f x + g x) l) == qsum (map f l) + qsum (map g l).
Proof.
  intros A f g l. induction l as [|a l IH].
  - cbn [map]. rewrite qsum_nil. ring.
  - cbn [map]. rewrite !qsum_cons, IH. ring.
Qed.

(* exchanging two finite sums *)
Lemma qsum_swap : forall {A B} (f : A -> B -> Q) (la : list A) (lb : list B),
  qsum (map (fun a => qsum (map (fun b => f a b) lb)) la)
  == qsum (map (fun b => qsum (map (fun a => f a b) la)) lb).
Proof.
  intros A B f la lb. induction la as [|a la IH].
  - cbn [map]. rewrite qsum_nil. symmetry. apply qsum_map_zero. intros b _. reflexivity.
  - cbn [map]. rewrite qsum_cons, IH.
    rewrite <- qsum_map_plus. reflexivity.
Qed.

Lemma qsum_firstn_skipn : forall k (v : list Q), qsum (firstn k v) + qsum (skipn k v) == qsum v.
Proof.
  intros k v. rewrite <- qsum_app, firstn_skipn. reflexivity.
Qed.

Lemma firstn_add_skipn : forall {A} a b (v : list A),
  firstn (a + b) v = firstn a v ++ firstn b (skipn a v).
Proof.
  intros A a. induction a as [|a IH]; intros b v.
  - reflexivity.
  - destruct v as [|x v].
    + cbn [Nat.add firstn skipn]. rewrite firstn_nil. reflexivity.
    + cbn [Nat.add firstn skipn]. rewrite IH. reflexivity.
Qed.

Lemma skipn_skipn : forall {A} a b (l : list A), skipn a (skipn b l) = skipn (b + a) l.
Proof.
  intros A a b. induction b as [|b IH]; intros l.
  - reflexivity.
  - destruct l as [|x l].
    + cbn [Nat.add skipn]. apply skipn_nil.
    + cbn [Nat.add skipn]. apply IH.
Qed.

Lemma skipn_nth_cons : forall {A} (d : A) i (l : list A),
  (i < length l)%nat -> skipn i l = nth i l d :: skipn (S i) l.
Proof.
  intros A d i. induction i as [|i IH]; intros l H.
  - destruct l as [|x l]; [cbn [length] in H; lia|reflexivity].
  - destruct l as [|x l]; [cbn [length] in H; lia|].
    cbn [length] in H. cbn [skipn nth]. rewrite (IH l) by lia. reflexivity.
Qed.

Lemma firstn_skipn_seq : forall {A} (d : A) k i (l : list A),
  (i + k <= length l)%nat -> firstn k (skipn i l) = map (fun j => nth j l d) (seq i k).
Proof.
  intros A d k. induction k as [|k IH]; intros i l H.
  - reflexivity.
  - rewrite (skipn_nth_cons d i l) by lia. cbn [firstn seq map]. f_equal.
    apply IH. lia.
Qed.

Lemma qsum_nonneg : forall l, Forall (fun x => 0 <= x) l -> 0 <= qsum l.
Proof.
  intros l H. induction H as [|x l Hx _ IH].
  - rewrite qsum_nil. apply Qle_refl.
  - rewrite qsum_cons. replace 0 with (0 + 0) by reflexivity. apply Qplus_le_compat; assumption.
Qed.

(* indicator sum over a duplicate-free list *)
Lemma qsum_indicator : forall {A} (eqb : A -> A -> bool),
  (forall a b, reflect (a = b) (eqb a b)) ->
  forall (x : A) (q : Q) (l : list A), NoDup l ->
  qsum (map (fun c => if eqb c x then q else 0) l) == if existsb (fun c => eqb c x) l then q else 0.
Proof.
  intros A eqb Hspec x q l Hnd. induction Hnd as [|a l Hnotin _ IH].
  - reflexivity.
  - cbn [map existsb]. rewrite qsum_cons, IH.
    destruct (Hspec a x) as [->|Hne].
    + cbn [orb].
      assert (Hex : existsb (fun c => eqb c x) l = false).
      { apply not_true_is_false. intros Hex. apply existsb_exists in Hex.
        destruct Hex as [c [Hc Hcx]]. destruct (Hspec c x) as [->|]; [contradiction|discriminate]. }
      rewrite Hex. ring.
    + cbn [orb]. ring.
Qed.

(* ------------------------------------------------------------------ *)
(** * Lists, filter, Permutation *)

Lemma filter_all_true : forall {A} (f : A -> bool) l,
  (forall a, In a l -> f a = true) -> filter f l = l.
Proof.
  intros A f l. induction l as [|a l IH]; intros H.
  - reflexivity.
  - cbn [filter]. rewrite (H a (or_introl eq_refl)). f_equal. apply IH.
    intros b Hb. apply H. right. exact Hb.
Qed.

Lemma filter_all_false : forall {A} (f : A -> bool) l,
  (forall a, In a l -> f a = false) -> filter f l = [].
Proof.
  intros A f l. induction l as [|a l IH]; intros H.
  - reflexivity.
  - cbn [filter]. rewrite (H a (or_introl eq_refl)). apply IH.
    intros b Hb. apply H. right. exact Hb.
Qed.

Lemma filter_disjoint_or_perm : forall {A} (f g : A -> bool) l,
  (forall a, In a l -> f a = true -> g a = false) ->
  Permutation (filter f l ++ filter g l) (filter (fun a => f a || g a) l).
Proof.
  intros A f g l. induction l as [|a l IH]; intros H.
  - constructor.
  - assert (IH' : Permutation (filter f l ++ filter g l) (filter (fun a => f a || g a) l)).
    { apply IH. intros b Hb. apply H. right. exact Hb. }
    cbn [filter]. destruct (f a) eqn:Hf.
    + rewrite (H a (or_introl eq_refl) Hf). cbn [orb].
      rewrite <- app_comm_cons. constructor. exact IH'.
    + cbn [orb]. destruct (g a) eqn:Hg.
      * eapply Permutation_trans; [apply Permutation_sym, Permutation_middle|].
        constructor. exact IH'.
      * exact IH'.
Qed.

Lemma concat_map_map : forall {A B C} (f : B -> C) (g : A -> list B) (l : list A),
  concat (map (fun a => map f (g a)) l) = map f (concat (map g l)).
Proof.
  intros A B C f g l. induction l as [|a l IH].
  - reflexivity.
  - cbn [map concat]. rewrite map_app, IH. reflexivity.
Qed.

Lemma length_concat_le_one : forall {A} (l : list (list A)),
  Forall (fun g => length g = 1%nat) l -> length (concat l) = length l.
Proof.
  intros A l H. induction H as [|g l Hg _ IH].
  - reflexivity.
  - cbn [concat length]. rewrite app_length, Hg, IH. reflexivity.
Qed.

Lemma NoDup_app_inv : forall {A} (l1 l2 : list A),
  NoDup (l1 ++ l2) -> NoDup l1 /\ NoDup l2 /\ (forall a, In a l1 -> ~ In a l2).
Proof.
  intros A l1. induction l1 as [|a l1 IH]; intros l2 H.
  - repeat split; [constructor|exact H|intros a []].
  - rewrite <- app_comm_cons in H. inversion H as [|x l Hnotin Hnd]; subst.
    destruct (IH l2 Hnd) as [H1 [H2 H3]]. repeat split.
    + constructor; [|exact H1]. intros Hin. apply Hnotin. apply in_or_app. left. exact Hin.
    + exact H2.
    + intros b [<-|Hb] Hb2.
      * apply Hnotin. apply in_or_app. right. exact Hb2.
      * exact (H3 b Hb Hb2).
Qed.

Lemma NoDup_app_intro : forall {A} (l1 l2 : list A),
  NoDup l1 -> NoDup l2 -> (forall a, In a l1 -> ~ In a l2) -> NoDup (l1 ++ l2).
Proof.
  intros A l1. induction l1 as [|a l1 IH]; intros l2 H1 H2 H3.
  - exact H2.
  - rewrite <- app_comm_cons. inversion H1 as [|x l Hnotin Hnd]; subst. constructor.
    + intros Hin. apply in_app_or in Hin. destruct Hin as [Hin|Hin].
      * contradiction.
      * exact (H3 a (or_introl eq_refl) Hin).
    + apply IH; [exact Hnd|exact H2|]. intros b Hb. apply H3. right. exact Hb.
Qed.

Lemma in_concat_iff : forall {A} (l : list (list A)) a,
  In a (concat l) <-> exists g, In g l /\ In a g.
Proof.
  intros A l a. rewrite in_concat. split; intros [g [H1 H2]]; exists g; split; assumption.
Qed.

(* StronglySorted R l : every element is R-related to every later element *)
Lemma SS_app_iff : forall {A} (R : A -> A -> Prop) (a b : list A),
  StronglySorted R (a ++ b) <->
  (StronglySorted R a /\ StronglySorted R b /\ (forall x y, In x a -> In y b -> R x y)).
Proof.
  intros A R a b. induction a as [|x a IH].
  - cbn [app]. split.
    + intros H. repeat split; [constructor|exact H|intros x y []].
    + intros [_ [H _]]. exact H.
  - rewrite <- app_comm_cons. split.
    + intros H. apply StronglySorted_inv in H. destruct H as [Hs Hall].
      apply IH in Hs. destruct Hs as [Ha [Hb Hab]]. rewrite Forall_forall in Hall. repeat split.
      * constructor; [exact Ha|]. apply Forall_forall. intros y Hy. apply Hall. apply in_or_app. left. exact Hy.
      * exact Hb.
      * intros x' y [<-|Hx'] Hy; [apply Hall; apply in_or_app; right; exact Hy|apply Hab; assumption].
    + intros [Ha [Hb Hab]]. apply StronglySorted_inv in Ha. destruct Ha as [Ha Hall].
      rewrite Forall_forall in Hall. constructor.
      * apply IH. repeat split; [exact Ha|exact Hb|]. intros x' y Hx' Hy. apply Hab; [right; exact Hx'|exact Hy].
      * apply Forall_forall. intros y Hy. apply in_app_or in Hy. destruct Hy as [Hy|Hy].
        -- apply Hall. exact Hy.
        -- apply Hab; [left; reflexivity|exact Hy].
Qed.

Lemma SS_impl_in : forall {A} (R1 R2 : A -> A -> Prop) (l : list A),
  (forall x y, In x l -> In y l -> R1 x y -> R2 x y) -> StronglySorted R1 l -> StronglySorted R2 l.
Proof.
  intros A R1 R2 l H Hs. induction Hs as [|x l Hs IH Hall].
  - constructor.
  - constructor.
    + apply IH. intros a b Ha Hb. apply H; right; assumption.
    + rewrite Forall_forall in Hall |- *. intros y Hy. apply H; [left; reflexivity|right; exact Hy|].
      apply Hall. exact Hy.
Qed.

Lemma SS_map : forall {A B} (R : B -> B -> Prop) (f : A -> B) (l : list A),
  StronglySorted (fun a b => R (f a) (f b)) l -> StronglySorted R (map f l).
Proof.
  intros A B R f l H. induction H as [|x l Hs IH Hall].
  - constructor.
  - cbn [map]. constructor; [exact IH|]. rewrite Forall_forall in Hall |- *.
    intros y Hy. apply in_map_iff in Hy. destruct Hy as [a [<- Ha]]. apply Hall. exact Ha.
Qed.

Lemma SS_pair : forall {A} (R : A -> A -> Prop) pre a mid b post,
  StronglySorted R (pre ++ a :: mid ++ b :: post) -> R a b.
Proof.
  intros A R pre a mid b post H. apply SS_app_iff in H. destruct H as [_ [H _]].
  apply StronglySorted_inv in H. destruct H as [_ Hall]. rewrite Forall_forall in Hall.
  apply Hall. apply in_or_app. right. left. reflexivity.
Qed.

(* ------------------------------------------------------------------ *)
(** * Boolean set operations of the model *)

Section Sets.
Variable cand : Type.
Variable ceqb : cand -> cand -> bool.
Hypothesis ceqb_spec : forall a b, reflect (a = b) (ceqb a b).

Notation memb := (memb cand ceqb).
Notation subsetb := (subsetb cand ceqb).
Notation cset_eqb := (cset_eqb cand ceqb).
Notation ranking_eqb := (ranking_eqb cand ceqb).
Notation dedup := (dedup cand ceqb).
Notation has_dup := (has_dup cand ceqb).
Notation set_diff := (set_diff cand ceqb).
Notation is_perm_of := (is_perm_of cand ceqb).
Notation flat := (flat cand).

Lemma ceqb_refl : forall a, ceqb a a = true.
Proof. intros a. destruct (ceqb_spec a a) as [_|H]; [reflexivity|contradiction]. Qed.

Lemma ceqb_true_iff : forall a b, ceqb a b = true <-> a = b.
Proof.
  intros a b. destruct (ceqb_spec a b) as [H|H]; split; intros H'; try assumption;
    try reflexivity; try discriminate; contradiction.
Qed.

Lemma ceqb_false_iff : forall a b, ceqb a b = false <-> a <> b.
Proof.
  intros a b. destruct (ceqb_spec a b) as [H|H]; split; intros H'; try assumption;
    try reflexivity; try discriminate; contradiction.
Qed.

Lemma ceqb_sym : forall a b, ceqb a b = ceqb b a.
Proof.
  intros a b. destruct (ceqb_spec a b) as [->|H].
  - symmetry. apply ceqb_refl.
  - symmetry. apply ceqb_false_iff. intros ->. apply H. reflexivity.
Qed.

Lemma cand_eq_dec : forall a b : cand, {a = b} + {a <> b}.
Proof.
  intros a b. destruct (ceqb_spec a b) as [H|H]; [left|right]; exact H.
Qed.

Lemma memb_In : forall c s, memb c s = true <-> In c s.
Proof.
  intros c s. unfold Core.memb. rewrite existsb_exists. split.
  - intros [x [Hx Hcx]]. apply ceqb_true_iff in Hcx. subst. exact Hx.
  - intros H. exists c. split; [exact H|apply ceqb_refl].
Qed.

Lemma memb_false_iff : forall c s, memb c s = false <-> ~ In c s.
Proof.
  intros c s. rewrite <- memb_In. destruct (memb c s); split; intros H; try reflexivity;
    try discriminate; try (intros H'; discriminate). exfalso. apply H. reflexivity.
Qed.

Lemma memb_reflect : forall c s, reflect (In c s) (memb c s).
Proof.
  intros c s. destruct (memb c s) eqn:H; constructor.
  - apply memb_In. exact H.
  - apply memb_false_iff. exact H.
Qed.

Lemma subsetb_incl : forall a b, subsetb a b = true <-> incl a b.
Proof.
  intros a b. unfold Core.subsetb. rewrite forallb_forall. split.
  - intros H c Hc. apply memb_In. apply H. exact Hc.
  - intros H c Hc. apply memb_In. apply H. exact Hc.
Qed.

Lemma cset_eqb_iff : forall a b, cset_eqb a b = true <-> (incl a b /\ incl b a).
Proof.
  intros a b. unfold Core.cset_eqb. rewrite andb_true_iff, !subsetb_incl. reflexivity.
Qed.

Lemma cset_eqb_refl : forall a, cset_eqb a a = true.
Proof. intros a. apply cset_eqb_iff. split; apply incl_refl. Qed.

Lemma cset_eqb_sym : forall a b, cset_eqb a b = cset_eqb b a.
Proof. intros a b. unfold Core.cset_eqb. apply andb_comm. Qed.

Lemma cset_eqb_trans : forall a b c, cset_eqb a b = true -> cset_eqb b c = true -> cset_eqb a c = true.
Proof.
  intros a b c H1 H2. apply cset_eqb_iff in H1. apply cset_eqb_iff in H2. apply cset_eqb_iff.
  destruct H1 as [H1 H1']. destruct H2 as [H2 H2']. split; eapply incl_tran; eassumption.
Qed.

Lemma cset_eqb_memb : forall a b c, cset_eqb a b = true -> memb c a = memb c b.
Proof.
  intros a b c H. apply cset_eqb_iff in H. destruct H as [H1 H2].
  destruct (memb_reflect c a) as [Ha|Ha]; destruct (memb_reflect c b) as [Hb|Hb]; try reflexivity.
  - exfalso. apply Hb. apply H1. exact Ha.
  - exfalso. apply Ha. apply H2. exact Hb.
Qed.

Lemma cset_eqb_perm : forall a b, NoDup a -> NoDup b -> cset_eqb a b = true -> Permutation a b.
Proof.
  intros a b Ha Hb H. apply cset_eqb_iff in H. destruct H as [H1 H2].
  apply NoDup_Permutation; [exact Ha|exact Hb|]. intros x. split; [apply H1|apply H2].
Qed.

Lemma cset_eqb_length : forall a b, NoDup a -> NoDup b -> cset_eqb a b = true -> length a = length b.
Proof. intros a b Ha Hb H. apply Permutation_length. apply cset_eqb_perm; assumption. Qed.

Lemma ranking_eqb_refl : forall r, ranking_eqb r r = true.
Proof.
  induction r as [|s r IH]; [reflexivity|]. cbn [Core.ranking_eqb]. rewrite cset_eqb_refl, IH. reflexivity.
Qed.

Lemma ranking_eqb_sym : forall r1 r2, ranking_eqb r1 r2 = ranking_eqb r2 r1.
Proof.
  induction r1 as [|s1 r1 IH]; intros [|s2 r2]; try reflexivity.
  cbn [Core.ranking_eqb]. rewrite cset_eqb_sym, IH. reflexivity.
Qed.

Lemma ranking_eqb_trans : forall r1 r2 r3,
  ranking_eqb r1 r2 = true -> ranking_eqb r2 r3 = true -> ranking_eqb r1 r3 = true.
Proof.
  induction r1 as [|s1 r1 IH]; intros [|s2 r2] [|s3 r3] H1 H2; try discriminate; try reflexivity.
  cbn [Core.ranking_eqb] in *. apply andb_true_iff in H1. apply andb_true_iff in H2.
  destruct H1 as [H1 H1']. destruct H2 as [H2 H2']. apply andb_true_iff. split.
  - eapply cset_eqb_trans; eassumption.
  - eapply IH; eassumption.
Qed.

Lemma ranking_eqb_Forall2 : forall r1 r2,
  ranking_eqb r1 r2 = true <-> Forall2 (fun a b => incl a b /\ incl b a) r1 r2.
Proof.
  induction r1 as [|s1 r1 IH]; intros [|s2 r2]; cbn [Core.ranking_eqb].
  - split; [constructor|reflexivity].
  - split; [discriminate|intros H; inversion H].
  - split; [discriminate|intros H; inversion H].
  - rewrite andb_true_iff, cset_eqb_iff, IH. split.
    + intros [H1 H2]. constructor; assumption.
    + intros H. inversion H; subst. split; assumption.
Qed.

Lemma ranking_eqb_flat_incl : forall r1 r2, ranking_eqb r1 r2 = true -> incl (flat r1) (flat r2).
Proof.
  intros r1 r2 H. apply ranking_eqb_Forall2 in H. induction H as [|a b r1 r2 [Hab _] _ IH].
  - apply incl_refl.
  - unfold Core.flat in *. cbn [concat]. apply incl_app.
    + apply incl_appl. exact Hab.
    + apply incl_appr. exact IH.
Qed.

(* dedup / has_dup *)
Lemma dedup_In : forall l c, In c (dedup l) <-> In c l.
Proof.
  induction l as [|a l IH]; intros c.
  - reflexivity.
  - cbn [Core.dedup]. destruct (memb_reflect a l) as [Ha|Ha].
    + rewrite IH. split; [intros H; right; exact H|]. intros [<-|H]; assumption.
    + cbn [In]. rewrite IH. reflexivity.
Qed.

Lemma dedup_NoDup : forall l, NoDup (dedup l).
Proof.
  induction l as [|a l IH].
  - constructor.
  - cbn [Core.dedup]. destruct (memb_reflect a l) as [Ha|Ha].
    + exact IH.
    + constructor; [|exact IH]. rewrite dedup_In. exact Ha.
Qed.

Lemma dedup_length_le : forall l, (length (dedup l) <= length l)%nat.
Proof.
  induction l as [|a l IH]; [apply le_n|]. cbn [Core.dedup]. destruct (memb a l); cbn [length]; lia.
Qed.

Lemma dedup_id_iff : forall l, length (dedup l) = length l <-> NoDup l.
Proof.
  induction l as [|a l IH].
  - split; [constructor|reflexivity].
  - cbn [Core.dedup]. destruct (memb_reflect a l) as [Ha|Ha].
    + split.
      * intros H. pose proof (dedup_length_le l). cbn [length] in H. lia.
      * intros H. inversion H; subst. contradiction.
    + cbn [length]. split.
      * intros H. constructor; [exact Ha|]. apply IH. lia.
      * intros H. inversion H; subst. f_equal. apply IH. assumption.
Qed.

Lemma has_dup_false_iff : forall l, has_dup l = false <-> NoDup l.
Proof.
  intros l. unfold Core.has_dup. rewrite negb_false_iff, Nat.eqb_eq. apply dedup_id_iff.
Qed.

Lemma has_dup_true_iff : forall l, has_dup l = true <-> ~ NoDup l.
Proof.
  intros l. rewrite <- has_dup_false_iff. destruct (has_dup l); split; intros H;
    try reflexivity; try discriminate. exfalso. apply H. reflexivity.
Qed.

(* is_perm_of *)
Lemma is_perm_of_perm : forall l s, is_perm_of l s = true -> Permutation l s /\ NoDup l.
Proof.
  intros l s H. unfold Core.is_perm_of in H. rewrite !andb_true_iff in H.
  destruct H as [[[Hlen Hls] Hsl] Hnd]. apply Nat.eqb_eq in Hlen.
  apply subsetb_incl in Hls. apply subsetb_incl in Hsl.
  apply negb_true_iff in Hnd. apply has_dup_false_iff in Hnd. split; [|exact Hnd].
  apply NoDup_Permutation_bis; [exact Hnd|lia|exact Hls].
Qed.

Lemma is_perm_of_intro : forall l s, NoDup s -> Permutation l s -> is_perm_of l s = true.
Proof.
  intros l s Hnd Hp. unfold Core.is_perm_of. rewrite !andb_true_iff. repeat split.
  - apply Nat.eqb_eq. apply Permutation_length. exact Hp.
  - apply subsetb_incl. intros x Hx. eapply Permutation_in; eassumption.
  - apply subsetb_incl. intros x Hx. eapply Permutation_in; [apply Permutation_sym|]; eassumption.
  - apply negb_true_iff. apply has_dup_false_iff. eapply Permutation_NoDup; [apply Permutation_sym|]; eassumption.
Qed.

(* set_diff *)
Lemma set_diff_In : forall a b c, In c (set_diff a b) <-> In c a /\ ~ In c b.
Proof.
  intros a b c. unfold Core.set_diff. rewrite filter_In, negb_true_iff, memb_false_iff. reflexivity.
Qed.

Lemma set_diff_NoDup : forall a b, NoDup a -> NoDup (set_diff a b).
Proof. intros a b H. unfold Core.set_diff. apply NoDup_filter. exact H. Qed.

(* a duplicate-free sub-list [l] of [cs] followed by the rest of [cs] is a permutation of [cs] *)
Lemma app_set_diff_perm : forall l cs, NoDup l -> NoDup cs -> incl l cs ->
  Permutation (l ++ set_diff cs l) cs.
Proof.
  intros l cs Hl Hcs Hincl. apply NoDup_Permutation.
  - apply NoDup_app_intro; [exact Hl|apply set_diff_NoDup; exact Hcs|].
    intros a Ha Hd. apply set_diff_In in Hd. destruct Hd as [_ Hn]. contradiction.
  - exact Hcs.
  - intros x. rewrite in_app_iff, set_diff_In. split.
    + intros [H|[H _]]; [apply Hincl|]; exact H.
    + intros H. destruct (memb_reflect x l) as [Hx|Hx]; [left; exact Hx|right; split; assumption].
Qed.

Lemma flat_app : forall r1 r2, flat (r1 ++ r2) = flat r1 ++ flat r2.
Proof. intros r1 r2. unfold Core.flat. apply concat_app. Qed.

Lemma flat_cons : forall s r, flat (s :: r) = s ++ flat r.
Proof. reflexivity. Qed.

Lemma flat_singletons : forall l : list cand, flat (singletons cand l) = l.
Proof.
  induction l as [|a l IH]; [reflexivity|].
  unfold Core.singletons in *. cbn [map]. rewrite flat_cons, IH. reflexivity.
Qed.

End Sets.
