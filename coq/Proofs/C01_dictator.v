(* Proofs/C01_dictator.v — C01 at run level for RandomDictator / BoostedRandomDictator
   (Model/Rules.v: run_dictator): what a finished run looks like, which errors a run can raise and
   where they come from, and that the model's fuel never runs out. *)
From VK Require Import Base Core STV Pairwise Rules PV Election.
From VK.Spec Require Import ScoreSpec EditSpec RatingSpec TopMSpec STVSpec Anon RunSpec.
From VK.Proofs Require Import Lib_sets C04_scoring Elect C11_profile C12_edit C20_validation C05_rating
  C13_composite STV_tb STV_inv C08_anon C10_quiet C17_laws C01_lib.
From Coq Require Import Permutation Lia Lqa.

Section Dictator.
Variable cand : Type.
Variable ceqb : cand -> cand -> bool.
Hypothesis ceqb_spec : forall a b, reflect (a = b) (ceqb a b).

Notation cset := (cset cand).
Notation ranking := (ranking cand).
Notation ballot := (ballot cand).
Notation profile := (profile cand).
Notation scores := (scores cand).
Notation estate := (estate cand).
Notation mstate := (mstate cand).
Notation M := (M cand).
Notation flat := (flat cand).
Notation real_groups := (real_groups cand).
Notation elected_upto := (elected_upto cand).
Notation eliminated_upto := (eliminated_upto cand).
Notation elected_in := (elected_in cand).
Notation eliminated_in := (eliminated_in cand).
Notation all_elected := (all_elected cand).
Notation all_eliminated := (all_eliminated cand).
Notation hist_ok := (hist_ok cand).
Notation count_elected := (count_elected cand).
Notation partitions := (partitions cand).
Notation elects_exactly := (elects_exactly cand).
Notation numbered := (RunSpec.numbered cand).
Notation ranked_profile := (ranked_profile cand).
Notation wf_profile := (wf_profile cand).
Notation first_place_votes := (first_place_votes cand ceqb).
Notation score_to_ranking := (score_to_ranking cand).
Notation remove_cand_prof := (remove_cand_prof cand ceqb).
Notation total_wt := (total_wt cand).
Notation memb := (memb cand ceqb).
Notation ranking_eqb := (ranking_eqb cand ceqb).
Notation no_group := (no_group cand).
Notation state_of_scores := (state_of_scores cand).
Notation draw_ballot := (draw_ballot cand ceqb).
Notation dictator_pick := (dictator_pick cand ceqb).
Notation elect_one := (elect_one cand ceqb).
Notation rd_step := (rd_step cand ceqb).
Notation brd_step := (brd_step cand ceqb).
Notation dictator_loop := (dictator_loop cand ceqb).
Notation run_dictator := (run_dictator cand ceqb).
Notation dictator_args := (dictator_args cand).

(* ------------------------------------------------------------------ *)
(** * the pieces of one step *)

(* the first position of a ranking that is set-equal to the ranking of a ballot of a well-formed
   profile is a non-empty set of declared candidates *)
Lemma first_group_wf : forall (p : profile) (b : ballot) (r : ranking),
  wf_profile p -> In b (ballots p) -> ranking_eqb r (rk b) = true ->
  exists g r', r = g :: r' /\ g <> [] /\ incl g (cands p).
Proof.
  intros p b r [_ Hbs] Hb Hr. rewrite Forall_forall in Hbs.
  destruct (Hbs b Hb) as (Hne & Hgs & _ & Hincl).
  destruct (rk b) as [|sb rb]; [contradiction Hne; reflexivity|].
  destruct r as [|g r']; [discriminate Hr|].
  cbn [Core.ranking_eqb] in Hr. apply andb_true_iff in Hr. destruct Hr as [Hs _].
  apply (cset_eqb_iff cand ceqb ceqb_spec) in Hs. destruct Hs as [Hgs1 Hgs2].
  exists g, r'. split; [reflexivity|]. split.
  - inversion Hgs as [|x l Hsb _]; subst. intros E. subst g.
    destruct sb as [|c sb']; [contradiction Hsb; reflexivity|].
    apply (Hgs2 c). left. reflexivity.
  - intros c Hc. apply Hincl. rewrite (flat_cons cand). apply in_or_app. left. apply Hgs1. exact Hc.
Qed.

Lemma draw_ballot_err : forall (p : profile) (s : mstate) e,
  draw_ballot p s = inr e ->
  (e = EIndex /\ ballots p = []) \/
  (e = EValue /\ ballots p <> [] /\ total_wt (ballots p) <= 0) \/ e = EScript.
Proof.
  intros p s e H. unfold Rules.draw_ballot in H.
  destruct (ballots p) as [|b0 bs] eqn:Hbs.
  { unfold mfail, err in H. injection H as <-. left. split; reflexivity. }
  right. destruct (Qle_bool (total_wt (b0 :: bs)) 0) eqn:Hle.
  { unfold mfail, err in H. injection H as <-. left. split; [reflexivity|].
    split; [discriminate|]. apply Qle_bool_iff. exact Hle. }
  right. unfold mbind, Core.next_draw in H.
  destruct (scr s) as [|d rest]; [unfold err in H; injection H as <-; reflexivity|].
  unfold ok in H. destruct d as [|r0| | | |];
    try (unfold mfail, err in H; injection H as <-; reflexivity).
  destruct (existsb (fun b => ranking_eqb r0 (rk b) && pos_wt cand b) (b0 :: bs)).
  - unfold mret, ok in H. discriminate H.
  - unfold mfail, err in H. injection H as <-. reflexivity.
Qed.

(* on a non-empty first position the pick can only fail through the replay script *)
Lemma dictator_pick_err : forall (g : cset) (r' : ranking) (s : mstate) e,
  g <> [] -> dictator_pick (g :: r') s = inr e -> e = EScript.
Proof.
  intros g r' s e Hne H. cbn [Rules.dictator_pick] in H.
  destruct g as [|x [|y g']]; [contradiction Hne; reflexivity|discriminate H|].
  set (g := x :: y :: g') in *. cbn [Core.tiebreak_set] in H. unfold mbind in H.
  destruct (Core.draw_perm cand ceqb g s) as [[l s1]|e1] eqn:Hd.
  - destruct (draw_perm_inv cand ceqb ceqb_spec _ _ _ _ Hd) as (Hp & _).
    destruct l as [|c l].
    + apply Permutation_nil in Hp. discriminate Hp.
    + unfold mret, ok in H. cbn [Core.singletons map] in H. discriminate H.
  - injection H as <-. exact (draw_perm_err cand ceqb _ _ _ Hd).
Qed.

(* electing one candidate from a ranked profile always succeeds, and draws nothing *)
Lemma elect_one_total : forall w tbs (p : profile) (prev : estate), ranked_profile p ->
  exists np d, remove_cand_prof [w] true false p = inl np /\ first_place_votes np = inl d /\
    forall s : mstate, elect_one w tbs p prev s =
      inl ((np, state_of_scores (rnd prev + 1) [[w]] no_group tbs d), s).
Proof.
  intros w tbs p prev Hr.
  destruct (ranked_remove_ok cand ceqb ceqb_spec [w] p (proj1 (proj1 Hr))) as [np Hnp].
  pose proof (ranked_remove cand ceqb ceqb_spec [w] p np Hr Hnp) as Hr'.
  destruct (ranked_fpv cand ceqb ceqb_spec np (proj1 Hr')) as [d Hd].
  exists np, d. split; [exact Hnp|]. split; [exact Hd|]. intros s.
  unfold Rules.elect_one. rewrite mbind_mlift, Hnp, mbind_mlift, Hd. reflexivity.
Qed.

(* what a successful step leaves behind: a candidate [w] of the current profile is elected, the next
   profile is the current one without [w], and the new state reports its first-place tallies *)
Definition stepped (p : profile) (prev : estate) (np : profile) (st : estate) : Prop :=
  exists w tbs d, In w (cands p) /\ remove_cand_prof [w] true false p = inl np /\
    first_place_votes np = inl d /\
    st = state_of_scores (rnd prev + 1) [[w]] no_group tbs d.

Lemma elect_one_stepped : forall w tbs (p : profile) (prev : estate) (s s' : mstate) np st,
  ranked_profile p -> In w (cands p) ->
  elect_one w tbs p prev s = inl ((np, st), s') -> stepped p prev np st.
Proof.
  intros w tbs p prev s s' np st Hr Hw H.
  destruct (elect_one_total w tbs p prev Hr) as (np0 & d & Hnp & Hd & He).
  rewrite He in H. injection H as <- <- _.
  exists w, tbs, d. repeat split; assumption.
Qed.

Lemma rd_step_ok : forall (p : profile) (prev : estate) (s s' : mstate) np st,
  ranked_profile p -> rd_step p prev s = inl ((np, st), s') -> stepped p prev np st.
Proof.
  intros p prev s s' np st Hr H. unfold Rules.rd_step in H.
  apply mbind_ok_inv in H. destruct H as (r & s1 & Hd & H).
  apply mbind_ok_inv in H. destruct H as ([w tbs] & s2 & Hp & H).
  destruct (draw_ballot_inv cand ceqb _ _ _ _ Hd) as (_ & _ & b & Hb & Hrb & _).
  destruct (first_group_wf p b r (proj1 Hr) Hb Hrb) as (g & r' & -> & _ & Hincl).
  destruct (dictator_pick_inv cand ceqb ceqb_spec _ _ _ _ _ Hp) as (g0 & r0 & E & Hw & _).
  injection E as <- <-.
  apply (elect_one_stepped w tbs p prev s2 s' np st Hr (Hincl w Hw) H).
Qed.

(* D3 *)
Theorem rd_step_errors : forall (p : profile) (prev : estate) (s : mstate) e,
  ranked_profile p -> rd_step p prev s = inr e ->
  (e = EIndex /\ ballots p = []) \/
  (e = EValue /\ ballots p <> [] /\ total_wt (ballots p) <= 0) \/ e = EScript.
Proof.
  intros p prev s e Hr H. unfold Rules.rd_step, mbind in H.
  destruct (draw_ballot p s) as [[r s1]|e1] eqn:Hd.
  - destruct (draw_ballot_inv cand ceqb _ _ _ _ Hd) as (_ & _ & b & Hb & Hrb & _).
    destruct (first_group_wf p b r (proj1 Hr) Hb Hrb) as (g & r' & -> & Hne & _).
    destruct (dictator_pick (g :: r') s1) as [[[w tbs] s2]|e2] eqn:Hp.
    + destruct (elect_one_total w tbs p prev Hr) as (np0 & d & _ & _ & He).
      rewrite He in H. discriminate H.
    + injection H as <-. right. right. exact (dictator_pick_err g r' s1 e2 Hne Hp).
  - injection H as <-. exact (draw_ballot_err p s e1 Hd).
Qed.

(* ---------- the boosted step ---------- *)

(* the branch that draws the winner with numpy.random.choice from the squared tallies *)
Definition brd_np (p : profile) (prev : estate) : M (profile * estate) :=
  if Qeq_bool (total_wt (ballots p)) 0 then mfail EValue else
  if Qeq_bool (squares_mass cand (escores prev) (total_wt (ballots p))) 0 then mfail EValue else
  do! dc := next_draw cand (CNpChoice (squares cand (escores prev) (total_wt (ballots p)))) in
  match dc with
  | DCand w => if memb w (map fst (escores prev)) then elect_one w [] p prev else mfail EScript
  | _ => mfail EScript
  end.

Lemma brd_step_unfold : forall (p : profile) (prev : estate) (s : mstate),
  brd_step p prev s =
  match scr s with
  | DUnit u :: rest =>
      let s1 := mkM rest (CUniform :: lg s) in
      match cands p with
      | [c] => elect_one c [] p prev s1
      | _ => if Qle_bool u (1 / (Qnat (length (cands p)) - 1)) then brd_np p prev s1
             else rd_step p prev s1
      end
  | _ => inr EScript
  end.
Proof.
  intros p prev s. unfold Rules.brd_step, brd_np, mbind at 1, Core.next_draw at 1.
  destruct (scr s) as [|d rest]; [reflexivity|]. unfold ok.
  destruct d; try reflexivity.
  destruct (cands p) as [|c [|c' l]]; try reflexivity;
    match goal with |- context [Qle_bool ?a ?b] => destruct (Qle_bool a b) end; reflexivity.
Qed.

Lemma brd_np_ok : forall (p : profile) (prev : estate) (s s' : mstate) np st,
  ranked_profile p -> incl (map fst (escores prev)) (cands p) ->
  brd_np p prev s = inl ((np, st), s') -> stepped p prev np st.
Proof.
  intros p prev s s' np st Hr Hkeys H. unfold brd_np in H.
  destruct (Qeq_bool (total_wt (ballots p)) 0); [discriminate H|].
  destruct (Qeq_bool (squares_mass cand (escores prev) (total_wt (ballots p))) 0); [discriminate H|].
  apply mbind_ok_inv in H. destruct H as (dc & s1 & _ & H).
  destruct dc as [| | | |w|]; try discriminate H.
  destruct (memb w (map fst (escores prev))) eqn:Hm; [|discriminate H].
  apply (memb_In cand ceqb ceqb_spec) in Hm.
  apply (elect_one_stepped w [] p prev s1 s' np st Hr (Hkeys w Hm) H).
Qed.

Lemma brd_np_err : forall (p : profile) (prev : estate) (s : mstate) e,
  ranked_profile p -> brd_np p prev s = inr e ->
  (e = EValue /\ (total_wt (ballots p) <= 0 \/
                  squares_mass cand (escores prev) (total_wt (ballots p)) == 0)) \/ e = EScript.
Proof.
  intros p prev s e Hr H. unfold brd_np in H.
  destruct (Qeq_bool (total_wt (ballots p)) 0) eqn:Hz.
  { unfold mfail, err in H. injection H as <-. left. split; [reflexivity|]. left.
    apply Qeq_bool_iff in Hz. rewrite Hz. apply Qle_refl. }
  destruct (Qeq_bool (squares_mass cand (escores prev) (total_wt (ballots p))) 0) eqn:Hz2.
  { unfold mfail, err in H. injection H as <-. left. split; [reflexivity|]. right.
    apply Qeq_bool_iff in Hz2. exact Hz2. }
  right. unfold mbind, Core.next_draw in H.
  destruct (scr s) as [|d rest]; [unfold err in H; injection H as <-; reflexivity|].
  unfold ok in H. destruct d as [| | | |w|];
    try (unfold mfail, err in H; injection H as <-; reflexivity).
  destruct (memb w (map fst (escores prev))).
  - destruct (elect_one_total w [] p prev Hr) as (np0 & d & _ & _ & He).
    rewrite He in H. discriminate H.
  - unfold mfail, err in H. injection H as <-. reflexivity.
Qed.

Lemma brd_step_ok : forall (p : profile) (prev : estate) (s s' : mstate) np st,
  ranked_profile p -> incl (map fst (escores prev)) (cands p) ->
  brd_step p prev s = inl ((np, st), s') -> stepped p prev np st.
Proof.
  intros p prev s s' np st Hr Hkeys H. rewrite brd_step_unfold in H.
  destruct (scr s) as [|d rest]; [discriminate H|].
  destruct d as [| | |u| |]; try discriminate H. cbv zeta in H.
  set (s1 := mkM rest (CUniform :: lg s)) in *.
  assert (Hgen : (if Qle_bool u (1 / (Qnat (length (cands p)) - 1)) then brd_np p prev s1
                  else rd_step p prev s1) = inl ((np, st), s') -> stepped p prev np st).
  { intros G. destruct (Qle_bool u (1 / (Qnat (length (cands p)) - 1))).
    - exact (brd_np_ok p prev s1 s' np st Hr Hkeys G).
    - exact (rd_step_ok p prev s1 s' np st Hr G). }
  destruct (cands p) as [|c [|c' l]] eqn:Hc.
  - apply Hgen. exact H.
  - apply (elect_one_stepped c [] p prev s1 s' np st Hr); [|exact H].
    rewrite Hc. left. reflexivity.
  - apply Hgen. exact H.
Qed.

(* D3, boosted.  The ValueError of the squares branch (numpy: "probabilities contain NaN") has two
   causes: total weight 0, or — for a previous state whose tallies are all zero, which a run never
   passes (see [dictator_run_errors] and C17_brd.brd_step_errors_linked) — normaliser 0 *)
Theorem brd_step_errors : forall (p : profile) (prev : estate) (s : mstate) e,
  ranked_profile p -> brd_step p prev s = inr e ->
  (e = EIndex /\ ballots p = []) \/
  (e = EValue /\ (total_wt (ballots p) <= 0 \/
                  squares_mass cand (escores prev) (total_wt (ballots p)) == 0)) \/ e = EScript.
Proof.
  intros p prev s e Hr H. rewrite brd_step_unfold in H.
  destruct (scr s) as [|d rest]; [injection H as <-; right; right; reflexivity|].
  destruct d as [| | |u| |]; try (injection H as <-; right; right; reflexivity). cbv zeta in H.
  set (s1 := mkM rest (CUniform :: lg s)) in *.
  assert (Hgen : (if Qle_bool u (1 / (Qnat (length (cands p)) - 1)) then brd_np p prev s1
                  else rd_step p prev s1) = inr e ->
                 (e = EIndex /\ ballots p = []) \/
                 (e = EValue /\ (total_wt (ballots p) <= 0 \/
                    squares_mass cand (escores prev) (total_wt (ballots p)) == 0)) \/
                 e = EScript).
  { intros G. destruct (Qle_bool u (1 / (Qnat (length (cands p)) - 1))).
    - destruct (brd_np_err p prev s1 e Hr G) as [Hv| ->]; [right; left; exact Hv|right; right; reflexivity].
    - destruct (rd_step_errors p prev s1 e Hr G) as [Hi|[(Hv & _ & Ht)| ->]].
      + left. exact Hi.
      + right. left. split; [exact Hv|left; exact Ht].
      + right. right. reflexivity. }
  destruct (cands p) as [|c [|c' l]] eqn:Hc.
  - apply Hgen. exact H.
  - destruct (elect_one_total c [] p prev Hr) as (np0 & d & _ & _ & He).
    rewrite He in H. discriminate H.
  - apply Hgen. exact H.
Qed.

(* ------------------------------------------------------------------ *)
(** * the invariant of the loop *)

(* the recorded states, newest first: round numbers count down to 0, nobody is eliminated, the
   oldest state elects nobody and every later one exactly one candidate *)
Fixpoint shape (sts : list estate) : Prop :=
  match sts with
  | [] => False
  | st :: older =>
      rnd st = Z.of_nat (length older) /\ eliminated st = [[]] /\
      match older with
      | [] => elected st = [[]]
      | _ :: _ => (exists w, elected st = [[w]]) /\ shape older
      end
  end.

(* [p0] the input profile, [cur] the current profile, [sts] the states so far (newest first) *)
Record dinv (p0 cur : profile) (sts : list estate) : Prop := {
  di_ranked : ranked_profile cur;
  di_sub : incl (cands cur) (cands p0);
  di_head : exists prev older, sts = prev :: older /\
              first_place_votes cur = inl (escores prev) /\
              remaining prev = score_to_ranking (escores prev) true;
  di_hist : hist_ok p0 sts;
  di_shape : shape sts
}.

Lemma fpv_keys : forall (p : profile) d, first_place_votes p = inl d -> map fst d = cands p.
Proof.
  intros p d H. unfold Core.first_place_votes in H. exact (score_rankings_keys cand ceqb _ _ _ H).
Qed.

Lemma elected_in_none : forall st : estate, elected st = [[]] -> elected_in st = [].
Proof. intros st E. unfold STVSpec.elected_in. rewrite E. reflexivity. Qed.

Lemma elected_in_one : forall (st : estate) w, elected st = [[w]] -> elected_in st = [w].
Proof. intros st w E. unfold STVSpec.elected_in. rewrite E. reflexivity. Qed.

Lemma eliminated_in_none : forall st : estate, eliminated st = [[]] -> eliminated_in st = [].
Proof. intros st E. unfold STVSpec.eliminated_in. rewrite E. reflexivity. Qed.

Lemma shape_count : forall sts : list estate, shape sts ->
  count_elected sts = (Z.of_nat (length sts) - 1)%Z.
Proof.
  induction sts as [|st older IH]; intros H; [destruct H|].
  cbn [shape] in H. destruct H as (_ & _ & H). rewrite (count_elected_cons cand).
  destruct older as [|st1 older'].
  - rewrite (elected_in_none st H). reflexivity.
  - destruct H as ((w & Hw) & Hs). rewrite (elected_in_one st w Hw), (IH Hs).
    cbn [length]. lia.
Qed.

Lemma dinv_init : forall (p : profile) d, ranked_profile p -> first_place_votes p = inl d ->
  dinv p p [state_of_scores 0 no_group no_group [] d].
Proof.
  intros p d Hr Hd. constructor.
  - exact Hr.
  - apply incl_refl.
  - eexists. eexists. split; [reflexivity|]. split; [exact Hd|reflexivity].
  - cbn [STVSpec.hist_ok]. split; [|exact I].
    unfold STVSpec.all_elected, STVSpec.all_eliminated. cbn [map concat].
    set (s0 := state_of_scores 0 no_group no_group [] d).
    rewrite (elected_in_none s0 eq_refl), (eliminated_in_none s0 eq_refl). cbn [app].
    rewrite app_nil_r. subst s0. cbn [remaining STV.state_of_scores]. rewrite <- (fpv_keys p d Hd).
    apply (score_to_ranking_flat_perm_all cand).
  - cbn [shape length]. repeat split; reflexivity.
Qed.

Lemma dinv_step : forall (p0 cur : profile) (prev : estate) older np st,
  dinv p0 cur (prev :: older) -> stepped cur prev np st -> dinv p0 np (st :: prev :: older).
Proof.
  intros p0 cur prev older np st [Hr Hsub Hhead Hhist Hshape] (w & tbs & d & Hw & Hnp & Hd & ->).
  destruct Hhead as (prev' & older' & E & Hfpv & Hrem). injection E as <- <-.
  pose proof (ranked_remove cand ceqb ceqb_spec [w] cur np Hr Hnp) as Hr'.
  destruct (ranked_remove_cands cand ceqb ceqb_spec [w] cur np Hr Hnp) as [_ Hiff].
  constructor.
  - exact Hr'.
  - intros c Hc. apply Hsub. apply (Hiff c). exact Hc.
  - eexists. eexists. split; [reflexivity|]. split; [exact Hd|reflexivity].
  - cbn [STVSpec.hist_ok] in Hhist |- *. split; [|exact Hhist]. destruct Hhist as [Hh _].
    rewrite (all_elected_cons cand), (all_eliminated_cons cand).
    set (st := state_of_scores (rnd prev + 1) [[w]] no_group tbs d).
    rewrite (elected_in_one st w eq_refl), (eliminated_in_none st eq_refl), app_nil_l. subst st.
    apply (perm_step_el cand) with (R := flat (remaining prev)); [|exact Hh].
    cbn [remaining STV.state_of_scores]. rewrite Hrem.
    eapply Permutation_trans;
      [apply Permutation_app_head; apply (score_to_ranking_flat_perm_all cand)|].
    eapply Permutation_trans;
      [|apply Permutation_sym; apply (score_to_ranking_flat_perm_all cand)].
    rewrite (fpv_keys np d Hd), (fpv_keys cur (escores prev) Hfpv).
    apply (ranked_remove_perm cand ceqb ceqb_spec [w] cur np Hr Hnp).
    + constructor; [intros []|constructor].
    + intros c [<-|[]]. exact Hw.
  - cbn [shape] in Hshape |- *. destruct Hshape as (Hrnd & Hshape).
    split; [|split; [reflexivity|split; [exists w; reflexivity|split; [exact Hrnd|exact Hshape]]]].
    cbn [rnd STV.state_of_scores length]. rewrite Hrnd. lia.
Qed.

Lemma dinv_keys : forall (p0 cur : profile) (prev : estate) older,
  dinv p0 cur (prev :: older) -> incl (map fst (escores prev)) (cands cur).
Proof.
  intros p0 cur prev older [_ _ Hhead _ _].
  destruct Hhead as (prev' & older' & E & Hfpv & _). injection E as <- <-.
  rewrite (fpv_keys cur (escores prev) Hfpv). apply incl_refl.
Qed.

Lemma any_step_ok : forall (boosted : bool) (p0 cur : profile) (prev : estate) older (s s' : mstate) np st,
  dinv p0 cur (prev :: older) ->
  (if boosted then brd_step cur prev s else rd_step cur prev s) = inl ((np, st), s') ->
  dinv p0 np (st :: prev :: older).
Proof.
  intros boosted p0 cur prev older s s' np st Hinv H.
  apply (dinv_step p0 cur prev older np st Hinv). destruct boosted.
  - exact (brd_step_ok cur prev s s' np st (di_ranked _ _ _ Hinv) (dinv_keys _ _ _ _ Hinv) H).
  - exact (rd_step_ok cur prev s s' np st (di_ranked _ _ _ Hinv) H).
Qed.

(* a successful loop ends in a state list that satisfies the invariant and counts m winners *)
Lemma dictator_loop_ok : forall fuel (boosted : bool) m (p0 cur : profile) sts (s s' : mstate) out,
  dinv p0 cur sts -> (count_elected sts <= m)%Z ->
  dictator_loop fuel boosted m cur sts s = inl (out, s') ->
  exists curf stsf, dinv p0 curf stsf /\ out = rev stsf /\ count_elected stsf = m.
Proof.
  induction fuel as [|fuel IH]; intros boosted m p0 cur sts s s' out Hinv Hle H.
  - cbn [Rules.dictator_loop] in H. destruct (m <=? count_elected sts)%Z eqn:Hm.
    + apply Z.leb_le in Hm. unfold mret, ok in H. injection H as <- _.
      exists cur, sts. split; [exact Hinv|]. split; [reflexivity|lia].
    + discriminate H.
  - cbn [Rules.dictator_loop] in H. destruct (m <=? count_elected sts)%Z eqn:Hm.
    + apply Z.leb_le in Hm. unfold mret, ok in H. injection H as <- _.
      exists cur, sts. split; [exact Hinv|]. split; [reflexivity|lia].
    + apply Z.leb_gt in Hm. destruct sts as [|prev older]; [discriminate H|].
      apply mbind_ok_inv in H. destruct H as ([np st] & s1 & Hstep & H).
      assert (Hstep' : (if boosted then brd_step cur prev s else rd_step cur prev s) = inl ((np, st), s1)).
      { destruct boosted; exact Hstep. }
      pose proof (any_step_ok boosted p0 cur prev older s s1 np st Hinv Hstep') as Hinv'.
      apply (IH boosted m p0 np (st :: prev :: older) s1 s' out Hinv'); [|exact H].
      rewrite (shape_count _ (di_shape _ _ _ Hinv')).
      rewrite (shape_count _ (di_shape _ _ _ Hinv)) in Hm. cbn [length] in Hm |- *. lia.
Qed.

(* a failing loop fails in a step taken from a ranked profile over candidates of the input; in
   particular the fuel is never the reason *)
Lemma dictator_loop_err : forall fuel (boosted : bool) m (p0 cur : profile) sts (s : mstate) e,
  dinv p0 cur sts -> (m < Z.of_nat fuel + count_elected sts)%Z ->
  dictator_loop fuel boosted m cur sts s = inr e ->
  exists (cur' : profile) prev s1, ranked_profile cur' /\ incl (cands cur') (cands p0) /\
    first_place_votes cur' = inl (escores prev) /\
    (if boosted then brd_step cur' prev s1 else rd_step cur' prev s1) = inr e.
Proof.
  induction fuel as [|fuel IH]; intros boosted m p0 cur sts s e Hinv Hfuel H.
  - cbn [Rules.dictator_loop] in H. destruct (m <=? count_elected sts)%Z eqn:Hm.
    + discriminate H.
    + apply Z.leb_gt in Hm. lia.
  - cbn [Rules.dictator_loop] in H. destruct (m <=? count_elected sts)%Z eqn:Hm; [discriminate H|].
    apply Z.leb_gt in Hm. destruct sts as [|prev older].
    { destruct (di_shape _ _ _ Hinv). }
    unfold mbind in H.
    destruct ((if boosted then brd_step cur prev else rd_step cur prev) s) as [[[np st] s1]|e1] eqn:Hstep.
    + assert (Hstep' : (if boosted then brd_step cur prev s else rd_step cur prev s) = inl ((np, st), s1)).
      { destruct boosted; exact Hstep. }
      pose proof (any_step_ok boosted p0 cur prev older s s1 np st Hinv Hstep') as Hinv'.
      apply (IH boosted m p0 np (st :: prev :: older) s1 e Hinv'); [|exact H].
      rewrite (shape_count _ (di_shape _ _ _ Hinv')).
      rewrite (shape_count _ (di_shape _ _ _ Hinv)) in Hfuel. cbn [length] in Hfuel |- *. lia.
    + injection H as <-. exists cur, prev, s. split; [exact (di_ranked _ _ _ Hinv)|].
      split; [exact (di_sub _ _ _ Hinv)|]. split; [|destruct boosted; exact Hstep].
      destruct (di_head _ _ _ Hinv) as (prev' & older' & E & Hfpv & _). injection E as <- <-.
      exact Hfpv.
Qed.

(* ------------------------------------------------------------------ *)
(** * reading the invariant off the finished list (oldest first) *)

Lemma shape_numbered : forall sts : list estate, shape sts -> numbered (rev sts).
Proof.
  induction sts as [|st older IH]; intros H; [destruct H|].
  cbn [shape] in H. destruct H as (Hrnd & _ & H). intros i x Hn. cbn [rev] in Hn.
  destruct (Nat.lt_ge_cases i (length (rev older))) as [Hlt|Hge].
  - rewrite nth_error_app1 in Hn by exact Hlt.
    destruct older as [|st1 older']; [cbn [rev length] in Hlt; lia|].
    destruct H as (_ & Hs). exact (IH Hs i x Hn).
  - rewrite nth_error_app2 in Hn by exact Hge. rewrite rev_length in Hn, Hge.
    destruct (i - length older)%nat as [|k] eqn:E.
    + cbn [nth_error] in Hn. injection Hn as <-. rewrite Hrnd. f_equal. lia.
    + cbn [nth_error] in Hn. destruct k; discriminate Hn.
Qed.

Lemma shape_rev : forall sts : list estate, shape sts ->
  exists s0 rest, rev sts = s0 :: rest /\ elected s0 = [[]] /\
    Forall (fun st => exists w, elected st = [[w]]) rest /\
    Forall (fun st => eliminated st = [[]]) (rev sts).
Proof.
  induction sts as [|st older IH]; intros H; [destruct H|].
  cbn [shape] in H. destruct H as (_ & Hx & H). cbn [rev].
  destruct older as [|st1 older'].
  - exists st, []. cbn [rev app]. split; [reflexivity|]. split; [exact H|].
    split; [constructor|]. constructor; [exact Hx|constructor].
  - destruct H as (Hw & Hs). destruct (IH Hs) as (s0 & rest & E & He & Hall & Hxs).
    exists s0, (rest ++ [st]). split; [rewrite E; reflexivity|]. split; [exact He|]. split.
    + apply Forall_app. split; [exact Hall|]. constructor; [exact Hw|constructor].
    + apply Forall_app. split; [exact Hxs|]. constructor; [exact Hx|constructor].
Qed.

(* the run, once the argument checks are passed *)
Lemma run_dictator_start : forall (boosted : bool) m (p : profile), ranked_profile p ->
  (1 <= m <= Z.of_nat (length (cands p)))%Z ->
  exists d, first_place_votes p = inl d /\
    forall s : mstate, run_dictator boosted m p s =
      dictator_loop (length (cands p) + 2) boosted m p [state_of_scores 0 no_group no_group [] d] s.
Proof.
  intros boosted m p Hr Hm. destruct (ranked_fpv cand ceqb ceqb_spec p (proj1 Hr)) as [d Hd].
  exists d. split; [exact Hd|]. intros s. unfold Rules.run_dictator.
  rewrite mbind_mlift, (proj2 (proj2 (proj2 (dictator_args_iff cand m p))) Hm).
  rewrite mbind_mlift, (wf_profile_ranking_validate cand p (proj1 Hr)).
  rewrite mbind_mlift. unfold Rules.round0. cbn [Rules.score_fn]. rewrite Hd. reflexivity.
Qed.

Lemma run_dictator_range : forall (boosted : bool) m (p : profile) (s : mstate),
  ~ (1 <= m <= Z.of_nat (length (cands p)))%Z -> run_dictator boosted m p s = inr EValue.
Proof.
  intros boosted m p s Hm.
  apply (proj1 (run_dictator_prologue cand ceqb boosted m p s)).
  apply (proj1 (dictator_args_iff cand m p)). lia.
Qed.

(* ------------------------------------------------------------------ *)
(** * the run-level theorems *)

(* D1 *)
Theorem dictator_run_outcome : forall (boosted : bool) m (p : profile) (s : mstate) sts (s' : mstate),
  ranked_profile p -> run_dictator boosted m p s = inl (sts, s') ->
  (1 <= m <= Z.of_nat (length (cands p)))%Z /\
  length sts = S (Z.to_nat m) /\
  numbered sts /\
  (exists s0 rest, sts = s0 :: rest /\ elected s0 = [[]] /\
     Forall (fun st => exists w, elected st = [[w]]) rest /\
     Forall (fun st => eliminated st = [[]]) sts) /\
  elects_exactly sts m /\
  partitions (cands p) sts.
Proof.
  intros boosted m p s sts s' Hr H.
  assert (Hm : (1 <= m <= Z.of_nat (length (cands p)))%Z).
  { destruct (Z_le_gt_dec 1 m) as [H1|H1];
      [destruct (Z_le_gt_dec m (Z.of_nat (length (cands p)))) as [H2|H2]; [lia|]|];
      rewrite run_dictator_range in H by lia; discriminate H. }
  split; [exact Hm|].
  destruct (run_dictator_start boosted m p Hr Hm) as (d & Hd & Hrun). rewrite Hrun in H.
  pose proof (dinv_init p d Hr Hd) as Hinv0.
  destruct (dictator_loop_ok (length (cands p) + 2) boosted m p p _ s s' sts Hinv0) as (curf & stsf & Hinv & -> & Hcnt);
    [rewrite (shape_count _ (di_shape _ _ _ Hinv0)); cbn [length]; lia|exact H|].
  pose proof (di_shape _ _ _ Hinv) as Hshape. pose proof (di_hist _ _ _ Hinv) as Hhist.
  split; [|split; [|split; [|split]]].
  - rewrite rev_length. rewrite (shape_count _ Hshape) in Hcnt. lia.
  - exact (shape_numbered stsf Hshape).
  - exact (shape_rev stsf Hshape).
  - apply (elects_exactly_intro cand ceqb).
    + destruct stsf as [|st older]; [destruct Hshape|]. cbn [rev]. intros E.
      apply app_eq_nil in E. destruct E as [_ E]. discriminate E.
    + change (Z.of_nat (length (all_elected (rev stsf))) = m).
      rewrite <- (count_elected_all cand), (count_elected_rev cand). exact Hcnt.
    + change (NoDup (all_elected (rev stsf))).
      eapply Permutation_NoDup; [apply Permutation_sym, (all_elected_rev cand)|].
      apply (hist_elected_nodup cand p stsf (proj1 (proj1 Hr)) Hhist).
  - apply partitions_intro. intros r st Hn. exact (hist_partition cand p stsf r st Hhist Hn).
Qed.

(* D4 *)
Theorem dictator_run_errors : forall (boosted : bool) m (p : profile) (s : mstate) e,
  ranked_profile p -> run_dictator boosted m p s = inr e ->
  (e = EValue /\ ~ (1 <= m <= Z.of_nat (length (cands p)))%Z) \/
  (exists (cur : profile) prev s1, ranked_profile cur /\ incl (cands cur) (cands p) /\
     first_place_votes cur = inl (escores prev) /\
     (if boosted then brd_step cur prev s1 else rd_step cur prev s1) = inr e).
Proof.
  intros boosted m p s e Hr H.
  destruct (Z_le_gt_dec 1 m) as [H1|H1];
    [destruct (Z_le_gt_dec m (Z.of_nat (length (cands p)))) as [H2|H2]|].
  - right. destruct (run_dictator_start boosted m p Hr (conj H1 H2)) as (d & Hd & Hrun).
    rewrite Hrun in H. pose proof (dinv_init p d Hr Hd) as Hinv0.
    apply (dictator_loop_err (length (cands p) + 2) boosted m p p _ s e Hinv0); [|exact H].
    rewrite (shape_count _ (di_shape _ _ _ Hinv0)). cbn [length]. lia.
  - left. rewrite run_dictator_range in H by lia. injection H as <-. split; [reflexivity|lia].
  - left. rewrite run_dictator_range in H by lia. injection H as <-. split; [reflexivity|lia].
Qed.

(* the errors of a run on a ranked profile: ValueError, IndexError, or a wrong replay script; and
   IndexError only when every ballot is exhausted before the seats are filled (known finding
   "random-dictator-exhausted") *)
Corollary dictator_error_kinds : forall (boosted : bool) m (p : profile) (s : mstate) e,
  ranked_profile p -> run_dictator boosted m p s = inr e ->
  (e = EValue \/ e = EIndex \/ e = EScript) /\
  (e = EIndex -> exists cur : profile,
      ranked_profile cur /\ incl (cands cur) (cands p) /\ ballots cur = []).
Proof.
  intros boosted m p s e Hr H.
  destruct (dictator_run_errors boosted m p s e Hr H) as [[-> _]|(cur & prev & s1 & Hc & Hsub & _ & Hstep)].
  { split; [left; reflexivity|discriminate]. }
  assert (Hk : (e = EIndex /\ ballots cur = []) \/ e = EValue \/ e = EScript).
  { destruct boosted.
    - destruct (brd_step_errors cur prev s1 e Hc Hstep) as [Hi|[(Hv & _)|Hs]].
      + left. exact Hi.
      + right. left. exact Hv.
      + right. right. exact Hs.
    - destruct (rd_step_errors cur prev s1 e Hc Hstep) as [Hi|[(Hv & _ & Ht)|Hs]].
      + left. exact Hi.
      + right. left. exact Hv.
      + right. right. exact Hs. }
  destruct Hk as [[-> Hb]|[->| ->]].
  - split; [right; left; reflexivity|]. intros _. exists cur. split; [exact Hc|split; [exact Hsub|exact Hb]].
  - split; [left; reflexivity|discriminate].
  - split; [right; right; reflexivity|discriminate].
Qed.

(* D2: the model's fuel is never the reason a run stops *)
Theorem dictator_no_fuel : forall (boosted : bool) m (p : profile) (s : mstate),
  ranked_profile p -> run_dictator boosted m p s <> inr EFuel.
Proof.
  intros boosted m p s Hr H.
  destruct (proj1 (dictator_error_kinds boosted m p s EFuel Hr H)) as [E|[E|E]]; discriminate E.
Qed.

End Dictator.

(* ------------------------------------------------------------------ *)
(** * examples (candidates are positive numbers) *)

Local Open Scope positive_scope.

Local Ltac nodup_pos :=
  repeat (constructor; [let H := fresh "H" in intros H; cbn in H; intuition discriminate|]);
  constructor.
Local Ltac incl_pos :=
  let c := fresh "c" in let H := fresh "H" in intros c H; cbn in H |- *; intuition.

(* three candidates; the first ballot ties 1 and 2 for first place *)
Definition ex_dict : profile positive :=
  mkProfile [mkBallot [[1; 2]; [3]] (2#1) [] None None; mkBallot [[3]; [1]] (1#1) [] None None]
            [1; 2; 3].

Example ex_dict_ranked : ranked_profile positive ex_dict.
Proof.
  split; [split|].
  - cbn [cands ex_dict]. nodup_pos.
  - cbn [ballots cands ex_dict]. constructor; [|constructor; [|constructor]]; cbn [rk].
    + split; [discriminate|]. split; [repeat (constructor; [discriminate|]); constructor|].
      split; [cbn; nodup_pos|incl_pos].
    + split; [discriminate|]. split; [repeat (constructor; [discriminate|]); constructor|].
      split; [cbn; nodup_pos|incl_pos].
  - unfold EditSpec.score_free. cbn [ballots ex_dict]. repeat constructor.
Qed.

(* (a) RandomDictator, 2 seats: the ballot [{1,2},{3}] is drawn, the tie for its first position is
   broken in favour of 2; then the ballot [{3},{1}] is drawn and 3 is elected *)
Example ex_rd_run :
  run_dictator positive Pos.eqb false 2 ex_dict
    (mkM [DRank [[1; 2]; [3]]; DPerm [2; 1]; DRank [[3]; [1]]] []) =
  inl ([mkState 0 [[1; 2; 3]] [[]] [[]] [] [(1, 2#2); (2, 2#2); (3, 1#1)];
        mkState 1 [[1]; [3]] [[2]] [[]] [([1; 2], [[2]; [1]])] [(1, 2#1); (3, 1#1)];
        mkState 2 [[1]] [[3]] [[]] [] [(1, 3#1)]],
       mkM [] [CChoices [([[1]; [3]], 2#1); ([[3]; [1]], 1#1)]; CSample [1; 2];
               CChoices [([[1; 2]; [3]], 2#1); ([[3]; [1]], 1#1)]]).
Proof. vm_compute. reflexivity. Qed.

(* the run-level theorem applies to it *)
Example ex_rd_outcome : forall sts s',
  run_dictator positive Pos.eqb false 2 ex_dict
    (mkM [DRank [[1; 2]; [3]]; DPerm [2; 1]; DRank [[3]; [1]]] []) = inl (sts, s') ->
  elects_exactly positive sts 2 /\ partitions positive [1; 2; 3] sts.
Proof.
  intros sts s' H.
  destruct (dictator_run_outcome positive Pos.eqb Pos.eqb_spec false 2 ex_dict _ sts s'
              ex_dict_ranked H) as (_ & _ & _ & _ & He & Hp).
  split; [exact He|exact Hp].
Qed.

(* (b) BoostedRandomDictator, 2 seats: with 3 candidates the uniform draw 3/4 > 1/2 sends the first
   round to the ballot draw (the drawn ranking is matched as a ranking of sets: [{2,1},{3}]); with
   2 candidates 1/2 <= 1 sends the second round to numpy's choice over the squared tallies *)
Example ex_brd_run :
  run_dictator positive Pos.eqb true 2 ex_dict
    (mkM [DUnit (3#4); DRank [[2; 1]; [3]]; DPerm [2; 1]; DUnit (1#2); DCand 3] []) =
  inl ([mkState 0 [[1; 2; 3]] [[]] [[]] [] [(1, 2#2); (2, 2#2); (3, 1#1)];
        mkState 1 [[1]; [3]] [[2]] [[]] [([2; 1], [[2]; [1]])] [(1, 2#1); (3, 1#1)];
        mkState 2 [[1]] [[3]] [[]] [] [(1, 3#1)]],
       mkM [] [CNpChoice [(1, 324#405); (3, 81#405)]; CUniform; CSample [2; 1];
               CChoices [([[1; 2]; [3]], 2#1); ([[3]; [1]], 1#1)]; CUniform]).
Proof. vm_compute. reflexivity. Qed.

(* (c) known finding "random-dictator-exhausted": the only ballot is exhausted after the first
   winner, the second seat cannot be filled: IndexError (RandomDictator) ... *)
Definition ex_bullet : profile positive := mkProfile [mkBallot [[1]] (3#1) [] None None] [1; 2].

Example ex_bullet_ranked : ranked_profile positive ex_bullet.
Proof.
  split; [split|].
  - cbn [cands ex_bullet]. nodup_pos.
  - cbn [ballots cands ex_bullet]. constructor; [|constructor]. cbn [rk].
    split; [discriminate|]. split; [repeat (constructor; [discriminate|]); constructor|].
    split; [cbn; nodup_pos|incl_pos].
  - unfold EditSpec.score_free. cbn [ballots ex_bullet]. repeat constructor.
Qed.

Example ex_rd_exhausted :
  run_dictator positive Pos.eqb false 2 ex_bullet (mkM [DRank [[1]]] []) = inr EIndex.
Proof. vm_compute. reflexivity. Qed.

(* ... and ValueError (BoostedRandomDictator, 0/0 probabilities) when two candidates are left; with
   a single candidate left the boosted rule elects it without looking at the ballots *)
Example ex_brd_exhausted :
  run_dictator positive Pos.eqb true 2
    (mkProfile [mkBallot [[1]] (3#1) [] None None] [1; 2; 3])
    (mkM [DUnit (1#4); DCand 1; DUnit (1#2)] []) = inr EValue.
Proof. vm_compute. reflexivity. Qed.

Example ex_brd_last_candidate : exists sts s',
  run_dictator positive Pos.eqb true 2 ex_bullet (mkM [DUnit (1#4); DCand 1; DUnit (1#2)] []) =
  inl (sts, s') /\ map (@elected positive) sts = [[[]]; [[1]]; [[2]]].
Proof. eexists. eexists. split; [vm_compute; reflexivity|reflexivity]. Qed.

(* out-of-range seat counts are ValueError *)
Example ex_rd_range :
  run_dictator positive Pos.eqb false 4 ex_dict (mkM [] []) = inr EValue /\
  run_dictator positive Pos.eqb true 0 ex_dict (mkM [] []) = inr EValue.
Proof. split; vm_compute; reflexivity. Qed.
