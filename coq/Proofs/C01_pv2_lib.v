(* Proofs/C01_pv2_lib.v — building blocks for the run-level theorems about PluralityVeto
   (Model/PV.v): the history-to-queries bridge, the score dictionary under [dec], the rotation of
   the voter order, decondensed ballots, and one-ballot inversions of the veto pass. *)
From VK Require Import Base Core STV Rules PV.
From VK.Spec Require Import ScoreSpec STVSpec RunSpec.
From VK.Proofs Require Import Lib_sets C04_scoring Elect C12_edit STV_tb STV_inv C01_lib C01_pv.
From Coq Require Import Permutation Lia Lqa.

(* ------------------------------------------------------------------ *)
(** * generic list facts *)

Lemma pv2_rotate_perm : forall (l : list nat) k, Permutation (rotate l k) l.
Proof.
  intros l k. unfold rotate.
  eapply Permutation_trans; [apply Permutation_app_comm|]. rewrite firstn_skipn. apply Permutation_refl.
Qed.

Lemma pv2_nth_error_rev_split : forall {A} (hist : list A) r x,
  nth_error (rev hist) r = Some x ->
  exists newer older, hist = newer ++ x :: older /\ length older = r.
Proof.
  intros A hist r x H.
  destruct (nth_error_split _ _ H) as [l1 [l2 [Hrev Hlen]]].
  exists (rev l2), (rev l1). split.
  - rewrite <- (rev_involutive hist), Hrev, rev_app_distr. cbn [rev]. rewrite <- app_assoc. reflexivity.
  - rewrite rev_length. exact Hlen.
Qed.

Lemma pv2_firstn_rev_split : forall {A} (newer older : list A) x,
  firstn (S (length older)) (rev (newer ++ x :: older)) = rev (x :: older).
Proof.
  intros A newer older x. rewrite rev_app_distr.
  rewrite firstn_app.
  assert (Hl : length (rev (x :: older)) = S (length older)) by (rewrite rev_length; reflexivity).
  rewrite <- Hl at 1. rewrite firstn_all. rewrite Hl, Nat.sub_diag. cbn [firstn]. apply app_nil_r.
Qed.

Section Lib2.
Variable cand : Type.
Variable ceqb : cand -> cand -> bool.
Hypothesis ceqb_spec : forall a b, reflect (a = b) (ceqb a b).

Notation cset := (cset cand).
Notation ranking := (ranking cand).
Notation ballot := (ballot cand).
Notation profile := (profile cand).
Notation scores := (scores cand).
Notation estate := (estate cand).
Notation mstate := (mstate cand).
Notation M := (M cand).
Notation flat := (flat cand).
Notation real_groups := (real_groups cand).
Notation elected_in := (elected_in cand).
Notation eliminated_in := (eliminated_in cand).
Notation all_elected := (all_elected cand).
Notation all_eliminated := (all_eliminated cand).
Notation elected_upto := (elected_upto cand).
Notation eliminated_upto := (eliminated_upto cand).
Notation partitions := (partitions cand).
Notation lookup := (lookup cand ceqb).
Notation lookup0 := (lookup0 cand ceqb).
Notation dec := (dec cand ceqb).
Notation veto_loop := (veto_loop cand ceqb).
Notation tiebreak_set := (tiebreak_set cand ceqb).

(* ------------------------------------------------------------------ *)
(** * histories (newest first) and the round-by-round queries *)

Fixpoint parts (cs : cset) (hist : list estate) : Prop :=
  match hist with
  | [] => True
  | st :: older =>
      Permutation (all_elected (st :: older) ++ flat (remaining st) ++ all_eliminated (st :: older)) cs
      /\ parts cs older
  end.

Lemma parts_app : forall cs newer older, parts cs (newer ++ older) -> parts cs older.
Proof.
  intros cs newer older. induction newer as [|x newer IH]; cbn [app parts]; [tauto|].
  intros [_ H]. exact (IH H).
Qed.

Lemma parts_partitions : forall cs hist, parts cs hist -> partitions cs (rev hist).
Proof.
  intros cs hist Hp. apply (partitions_intro cand). intros r st Hn.
  destruct (pv2_nth_error_rev_split hist r st Hn) as [newer [older [-> Hlen]]].
  apply parts_app in Hp. cbn [parts] in Hp. destruct Hp as [Hp _].
  subst r.
  eapply Permutation_trans; [|exact Hp].
  apply Permutation_app.
  - rewrite (flat_elected_upto cand), pv2_firstn_rev_split.
    unfold STVSpec.all_elected. rewrite map_rev. apply concat_rev_perm.
  - apply Permutation_app_head.
    eapply Permutation_trans; [apply (flat_eliminated_upto cand)|].
    rewrite pv2_firstn_rev_split.
    unfold STVSpec.all_eliminated. rewrite map_rev. apply concat_rev_perm.
Qed.

Lemma all_elected_none : forall hist : list estate,
  Forall (fun st => elected st = [[]]) hist -> all_elected hist = [].
Proof.
  intros hist H. induction H as [|st hist Hst _ IH]; [reflexivity|].
  rewrite (all_elected_cons cand), IH. unfold STVSpec.elected_in. rewrite Hst. reflexivity.
Qed.

(* ------------------------------------------------------------------ *)
(** * the score dictionary *)

Lemma lookup_In : forall c (d : scores), In c (map fst d) -> exists q, lookup c d = Some q.
Proof.
  intros c d. unfold Core.lookup. induction d as [|[c' q'] d IH]; cbn [map In find fst]; [tauto|].
  intros [->|H].
  - rewrite (ceqb_refl cand ceqb ceqb_spec). exists q'. reflexivity.
  - destruct (ceqb c c'); [exists q'; reflexivity|exact (IH H)].
Qed.

Lemma lookup_None_iff : forall c (d : scores), lookup c d = None <-> ~ In c (map fst d).
Proof.
  intros c d. unfold Core.lookup. induction d as [|[c' q'] d IH]; cbn [map In find fst].
  - tauto.
  - destruct (ceqb_spec c c') as [->|Hne].
    + split; [discriminate|]. intros H. exfalso. apply H. left. reflexivity.
    + rewrite IH. split; [intros H [E|H']; [apply Hne; symmetry; exact E|exact (H H')]|tauto].
Qed.

Definition dec_map (c : cand) (d : scores) : scores :=
  map (fun q => if ceqb c (fst q) then (fst q, snd q - 1) else q) d.

Lemma dec_ok : forall c (d d' : scores), dec c d = inl d' -> In c (map fst d) /\ d' = dec_map c d.
Proof.
  intros c d d' H. unfold PV.dec in H. destruct (lookup c d) as [q|] eqn:E; [|discriminate].
  unfold ok in H. injection H as <-. split; [|reflexivity].
  destruct (in_dec (cand_eq_dec cand ceqb ceqb_spec) c (map fst d)) as [Hin|Hn]; [exact Hin|].
  apply lookup_None_iff in Hn. congruence.
Qed.

Lemma dec_total : forall c (d : scores), In c (map fst d) -> dec c d = inl (dec_map c d).
Proof.
  intros c d H. unfold PV.dec. destruct (lookup_In c d H) as [q ->]. reflexivity.
Qed.

Lemma dec_err : forall c (d : scores) e, dec c d = inr e -> e = EKey /\ ~ In c (map fst d).
Proof.
  intros c d e H. unfold PV.dec in H. destruct (lookup c d) as [q|] eqn:E; [discriminate|].
  injection H as <-. split; [reflexivity|]. apply lookup_None_iff. exact E.
Qed.

Lemma dec_map_keys : forall c (d : scores), map fst (dec_map c d) = map fst d.
Proof.
  intros c d. unfold dec_map. rewrite map_map. apply map_ext. intros [c' q]. cbn [fst].
  destruct (ceqb c c'); reflexivity.
Qed.

Lemma dec_map_sum : forall c (d : scores), NoDup (map fst d) -> In c (map fst d) ->
  qsum (map snd (dec_map c d)) == qsum (map snd d) - 1.
Proof.
  intros c d. unfold dec_map. induction d as [|[c' q] d IH]; cbn [map fst snd]; intros Hnd Hin.
  - destruct Hin.
  - inversion Hnd as [|x l Hnot Hnd']; subst. rewrite !Lib_sets.qsum_cons.
    destruct (ceqb_spec c c') as [->|Hne]; cbn [snd].
    + assert (Hsame : map (fun q0 : cand * Q => if ceqb c' (fst q0) then (fst q0, snd q0 - 1) else q0) d = d).
      { rewrite <- (map_id d) at 2. apply map_ext_in. intros [c2 q2] H2. cbn [fst snd].
        destruct (ceqb_spec c' c2) as [->|_]; [|reflexivity].
        exfalso. apply Hnot. apply in_map_iff. exists (c2, q2). split; [reflexivity|exact H2]. }
      rewrite Hsame. ring.
    + destruct Hin as [E|Hin]; [exfalso; apply Hne; symmetry; exact E|].
      rewrite (IH Hnd' Hin). ring.
Qed.

Lemma lookup0_dec_map_same : forall c (d : scores), In c (map fst d) ->
  lookup0 c (dec_map c d) = lookup0 c d - 1.
Proof.
  intros c d. unfold Core.lookup0, Core.lookup, dec_map.
  induction d as [|[c' q] d IH]; cbn [map fst snd find In]; [tauto|].
  intros Hin. destruct (ceqb c c') eqn:E; cbn [fst find].
  - rewrite E. reflexivity.
  - rewrite E. apply IH. destruct Hin as [H|H]; [|exact H].
    subst c'. rewrite (ceqb_refl cand ceqb ceqb_spec) in E. discriminate.
Qed.

Lemma lookup0_In_snd : forall c (d : scores), In c (map fst d) -> exists q, In (c, q) d /\ lookup0 c d = q.
Proof.
  intros c d. unfold Core.lookup0, Core.lookup.
  induction d as [|[c' q] d IH]; cbn [map fst find In]; [tauto|].
  intros Hin. destruct (ceqb_spec c c') as [->|Hne].
  - exists q. split; [left; reflexivity|reflexivity].
  - destruct Hin as [E|Hin]; [exfalso; apply Hne; symmetry; exact E|].
    destruct (IH Hin) as [q0 [H1 H2]]. exists q0. split; [right; exact H1|exact H2].
Qed.

(* all values stay non-negative when the decremented one stays positive *)
Lemma dec_map_nonneg : forall c (d : scores),
  Forall (fun q => 0 <= snd q) d -> In c (map fst d) -> NoDup (map fst d) ->
  0 < lookup0 c (dec_map c d) -> Forall (fun q => 0 <= snd q) (dec_map c d).
Proof.
  intros c d Hnn Hin Hnd Hpos. rewrite (lookup0_dec_map_same c d Hin) in Hpos.
  destruct (lookup0_In_snd c d Hin) as [q0 [Hq0 Hl]]. rewrite Hl in Hpos.
  unfold dec_map. apply Forall_forall. intros x Hx. apply in_map_iff in Hx.
  destruct Hx as [[c' q] [<- Hcq]]. rewrite Forall_forall in Hnn. cbn [fst snd].
  destruct (ceqb_spec c c') as [->|_]; cbn [fst snd].
  - assert (q = q0).
    { eapply (NoDup_keys_functional cand); eassumption. }
    subst q. lra.
  - exact (Hnn _ Hcq).
Qed.

Lemma qsum_nonneg_member : forall (d : scores) c q,
  Forall (fun x => 0 <= snd x) d -> In (c, q) d -> q <= qsum (map snd d).
Proof.
  intros d c q Hnn Hin. induction d as [|x d IH]; [destruct Hin|].
  inversion Hnn as [|y l Hx Hd]; subst. cbn [map]. rewrite Lib_sets.qsum_cons.
  destruct Hin as [->|Hin].
  - cbn [snd]. assert (0 <= qsum (map snd d)).
    { apply qsum_nonneg. apply Forall_forall. intros z Hz. apply in_map_iff in Hz.
      destruct Hz as [w [<- Hw]]. rewrite Forall_forall in Hd. exact (Hd w Hw). }
    lra.
  - specialize (IH Hd Hin). lra.
Qed.

(* ------------------------------------------------------------------ *)
(** * decondensed ballots *)

Lemma decondense_In : forall (bs : list ballot) x, In x (decondense cand bs) ->
  exists b, In b bs /\ x = plain_ballot cand (rk b) 1 /\ (1 <= Qtrunc (wt b))%Z.
Proof.
  intros bs x H. unfold decondense in H. apply in_concat in H. destruct H as [l [Hl Hx]].
  apply in_map_iff in Hl. destruct Hl as [b [<- Hb]]. apply repeat_spec in Hx as Hx'.
  exists b. split; [exact Hb|]. split; [exact Hx'|].
  destruct (Z.to_nat (Qtrunc (wt b))) eqn:E; [destruct Hx|]. lia.
Qed.

Lemma decondense_nil_iff : forall bs : list ballot,
  decondense cand bs = [] <-> forall b, In b bs -> (Qtrunc (wt b) <= 0)%Z.
Proof.
  intros bs. unfold decondense. induction bs as [|b bs IH]; cbn [map concat].
  - split; [intros _ b []|reflexivity].
  - split.
    + intros H. apply app_eq_nil in H. destruct H as [H1 H2]. intros b' [<-|Hb'].
      * destruct (Z.to_nat (Qtrunc (wt b))) eqn:E; [lia|discriminate].
      * apply IH; assumption.
    + intros H. rewrite (proj2 IH) by (intros b' Hb'; apply H; right; exact Hb').
      assert (E : Z.to_nat (Qtrunc (wt b)) = 0%nat) by (specialize (H b (or_introl eq_refl)); lia).
      rewrite E. reflexivity.
Qed.

(* ------------------------------------------------------------------ *)
(** * one ballot of the veto pass *)

(* the tie-break (if any) applied to the last-place group of a ballot *)
Definition pick (lastg : cset) (p : profile) (tb : option tb_kind) (tbs : list (cset * ranking))
  : M (ranking * list (cset * ranking)) :=
  match lastg with
  | _ :: _ :: _ =>
      match tb with
      | Some k => do! t := tiebreak_set lastg (Some p) k in mret (t, [(lastg, t)])
      | None => mfail EUnbound
      end
  | _ => mret ([lastg], tbs)
  end.

Lemma veto_cons : forall bi rest idx (bs : list ballot) (p : profile) tb (d : scores) tbs,
  veto_loop (bi :: rest) idx bs p tb d tbs =
  match nth_error bs bi with
  | None => mfail EIndex
  | Some b =>
      match rev (rk b) with
      | [] => veto_loop rest (S idx) bs p tb d tbs
      | lastg :: _ =>
          do! (t, tbs') := pick lastg p tb tbs in
          match rev t with
          | (c :: _) :: _ =>
              do! d' := mlift (dec c d) in
              if Qle_bool (lookup0 c d') 0 then mret (idx, Some c, tbs')
              else veto_loop rest (S idx) bs p tb d' tbs'
          | _ => mfail EIndex
          end
      end
  end.
Proof. reflexivity. Qed.

Lemma pick_ok_inv : forall lastg p tb tbs (s s' : mstate) t tbs',
  pick lastg p tb tbs s = inl ((t, tbs'), s') ->
  ((length lastg <= 1)%nat /\ t = [lastg] /\ tbs' = tbs /\ s' = s) \/
  ((2 <= length lastg)%nat /\ exists k, tb = Some k /\
     tiebreak_set lastg (Some p) k s = inl (t, s') /\ tbs' = [(lastg, t)]).
Proof.
  intros lastg p tb tbs s s' t tbs' H. unfold pick in H.
  destruct lastg as [|a [|b l]].
  - left. apply pvm_ret_inv in H. destruct H as [H ->]. inversion H. cbn. repeat split; lia.
  - left. apply pvm_ret_inv in H. destruct H as [H ->]. inversion H. cbn. repeat split; lia.
  - right. split; [cbn [length]; lia|]. destruct tb as [k|]; [|exfalso; exact (pvm_fail_inv _ _ _ H)].
    exists k. split; [reflexivity|].
    apply pvm_bind_inv in H. destruct H as [t0 [s1 [Ht H]]].
    apply pvm_ret_inv in H. destruct H as [H ->]. inversion H; subst. split; [exact Ht|reflexivity].
Qed.

Lemma pick_err_inv : forall lastg p tb tbs (s : mstate) e,
  pick lastg p tb tbs s = inr e ->
  (2 <= length lastg)%nat /\
  ((tb = None /\ e = EUnbound) \/ exists k, tb = Some k /\ tiebreak_set lastg (Some p) k s = inr e).
Proof.
  intros lastg p tb tbs s e H. unfold pick in H.
  destruct lastg as [|a [|b l]]; [discriminate|discriminate|].
  split; [cbn [length]; lia|]. destruct tb as [k|].
  - right. exists k. split; [reflexivity|]. unfold mbind in H.
    destruct (tiebreak_set (a :: b :: l) (Some p) k s) as [[t0 s1]|e0]; [discriminate|injection H as <-; reflexivity].
  - left. injection H as <-. split; reflexivity.
Qed.

End Lib2.
