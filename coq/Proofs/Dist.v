(* Proofs/Dist.v — general lemmas on the finite rational distributions of Model/Laws.v
   ([dist], [dret], [dbind], [mass], [prob], [dscale], [dmix], [categorical], [uniform_of]).
   Nothing here depends on the candidate type. *)
From VK Require Import Base Core Laws.
From VK.Proofs Require Import Lib_sets.
From Coq Require Import Permutation Lia Lqa Setoid Morphisms.

(* ------------------------------------------------------------------ *)
(** * Small rational-sum facts *)

Lemma qsum_map_div : forall {A} (f : A -> Q) (t : Q) (l : list A),
  qsum (map (fun a => f a / t) l) == qsum (map f l) / t.
Proof.
  intros A f t l. unfold Qdiv. induction l as [|a l IH].
  - cbn [map]. rewrite qsum_nil. ring.
  - cbn [map]. rewrite !qsum_cons, IH. ring.
Qed.

Lemma qsum_map_scal_r : forall {A} (k : Q) (f : A -> Q) (l : list A),
  qsum (map (fun a => f a * k) l) == qsum (map f l) * k.
Proof.
  intros A k f l. induction l as [|a l IH].
  - cbn [map]. rewrite qsum_nil. ring.
  - cbn [map]. rewrite !qsum_cons, IH. ring.
Qed.

Lemma qsum_map_nonneg : forall {A} (f : A -> Q) (l : list A),
  (forall a, In a l -> 0 <= f a) -> 0 <= qsum (map f l).
Proof.
  intros A f l H. apply qsum_nonneg. apply Forall_forall. intros x Hx.
  apply in_map_iff in Hx. destruct Hx as (a & <- & Ha). apply H. exact Ha.
Qed.

(* a sum of non-negative terms with one positive term is positive *)
Lemma qsum_map_pos : forall {A} (f : A -> Q) (l : list A) (a : A),
  (forall x, In x l -> 0 <= f x) -> In a l -> 0 < f a -> 0 < qsum (map f l).
Proof.
  intros A f l a Hnn Hin Hpos. induction l as [|x l IH]; [destruct Hin|].
  cbn [map]. rewrite qsum_cons.
  assert (Hrest : 0 <= qsum (map f l)).
  { apply qsum_map_nonneg. intros y Hy. apply Hnn. right. exact Hy. }
  destruct Hin as [->|Hin].
  - lra.
  - assert (0 <= f x) by (apply Hnn; left; reflexivity).
    assert (0 < qsum (map f l)).
    { apply IH; [|exact Hin]. intros y Hy. apply Hnn. right. exact Hy. }
    lra.
Qed.

(* a positive sum of non-negative terms has a positive term *)
Lemma qsum_map_pos_inv : forall {A} (f : A -> Q) (l : list A),
  0 < qsum (map f l) -> exists a, In a l /\ 0 < f a.
Proof.
  intros A f l. induction l as [|x l IH]; cbn [map].
  - rewrite qsum_nil. intros H. exfalso. apply (Qlt_irrefl 0). exact H.
  - rewrite qsum_cons. intros H. destruct (Qlt_le_dec 0 (f x)) as [Hx|Hx].
    + exists x. split; [left; reflexivity|exact Hx].
    + destruct IH as (a & Ha & Hfa); [lra|]. exists a. split; [right; exact Ha|exact Hfa].
Qed.

(* ------------------------------------------------------------------ *)
(** * mass, prob: structural facts *)

Section Dist.
Context {A : Type}.

Lemma mass_nil : mass (@nil (A * Q)) = 0.
Proof. reflexivity. Qed.

Lemma mass_cons : forall (aw : A * Q) (d : dist A), mass (aw :: d) = snd aw + mass d.
Proof. reflexivity. Qed.

Lemma mass_app : forall d1 d2 : dist A, mass (d1 ++ d2) == mass d1 + mass d2.
Proof. intros d1 d2. unfold mass. rewrite map_app. apply qsum_app. Qed.

Lemma prob_nil : forall ev : A -> bool, prob ev [] = 0.
Proof. reflexivity. Qed.

Lemma prob_cons : forall (ev : A -> bool) (aw : A * Q) (d : dist A),
  prob ev (aw :: d) == (if ev (fst aw) then snd aw else 0) + prob ev d.
Proof.
  intros ev aw d. unfold prob. cbn [filter]. destruct (ev (fst aw)).
  - cbn [map]. rewrite qsum_cons. reflexivity.
  - ring.
Qed.

Lemma prob_app : forall (ev : A -> bool) (d1 d2 : dist A),
  prob ev (d1 ++ d2) == prob ev d1 + prob ev d2.
Proof. intros ev d1 d2. unfold prob. rewrite filter_app, map_app. apply qsum_app. Qed.

(* the probability of an event is the indicator-weighted sum over all entries *)
Lemma prob_as_sum : forall (ev : A -> bool) (d : dist A),
  prob ev d == qsum (map (fun aw => if ev (fst aw) then snd aw else 0) d).
Proof.
  intros ev d. induction d as [|aw d IH].
  - reflexivity.
  - rewrite prob_cons, IH. cbn [map]. rewrite qsum_cons. reflexivity.
Qed.

Lemma prob_true : forall d : dist A, prob (fun _ => true) d == mass d.
Proof.
  intros d. induction d as [|aw d IH].
  - reflexivity.
  - rewrite prob_cons, IH, mass_cons. reflexivity.
Qed.

(* only the values of the event on the support matter *)
Lemma prob_ext_in : forall (ev ev' : A -> bool) (d : dist A),
  (forall a w, In (a, w) d -> ev a = ev' a) -> prob ev d == prob ev' d.
Proof.
  intros ev ev' d H. rewrite !prob_as_sum. apply qsum_map_ext_in.
  intros [a w] Haw. cbn [fst snd]. rewrite (H a w Haw). reflexivity.
Qed.

(* complementary events share the mass *)
Lemma prob_compl : forall (ev : A -> bool) (d : dist A),
  prob ev d + prob (fun a => negb (ev a)) d == mass d.
Proof.
  intros ev d. induction d as [|aw d IH].
  - reflexivity.
  - rewrite !prob_cons, mass_cons, <- IH. destruct (ev (fst aw)); cbn [negb]; ring.
Qed.

(* with non-negative weights: 0 <= prob <= mass *)
Definition nonneg_dist (d : dist A) : Prop := forall a w, In (a, w) d -> 0 <= w.

Lemma prob_nonneg : forall (ev : A -> bool) (d : dist A), nonneg_dist d -> 0 <= prob ev d.
Proof.
  intros ev d H. rewrite prob_as_sum. apply qsum_map_nonneg. intros [a w] Haw. cbn [fst snd].
  destruct (ev a); [exact (H a w Haw)|apply Qle_refl].
Qed.

Lemma prob_le_mass : forall (ev : A -> bool) (d : dist A), nonneg_dist d -> prob ev d <= mass d.
Proof.
  intros ev d H. rewrite <- (prob_compl ev d).
  pose proof (prob_nonneg (fun a => negb (ev a)) d H). lra.
Qed.

(* positive probability <-> a positive-weight outcome satisfies the event *)
Lemma prob_pos_intro : forall (ev : A -> bool) (d : dist A) a w,
  nonneg_dist d -> In (a, w) d -> ev a = true -> 0 < w -> 0 < prob ev d.
Proof.
  intros ev d a w Hnn Hin Hev Hw. rewrite prob_as_sum.
  apply (qsum_map_pos (fun aw : A * Q => if ev (fst aw) then snd aw else 0) d (a, w)).
  - intros [x q] Hx. cbn [fst snd]. destruct (ev x); [exact (Hnn x q Hx)|apply Qle_refl].
  - exact Hin.
  - cbn [fst snd]. rewrite Hev. exact Hw.
Qed.

Lemma prob_pos_inv : forall (ev : A -> bool) (d : dist A),
  0 < prob ev d -> exists a w, In (a, w) d /\ ev a = true /\ 0 < w.
Proof.
  intros ev d H. rewrite prob_as_sum in H. apply qsum_map_pos_inv in H.
  destruct H as ([a w] & Hin & Hpos). cbn [fst snd] in Hpos. exists a, w. split; [exact Hin|].
  destruct (ev a); [split; [reflexivity|exact Hpos]|].
  exfalso. apply (Qlt_irrefl 0). exact Hpos.
Qed.

(* an event as a finite disjoint union: if on the support the indicator of [ev] is the sum of
   the indicators of [evs j], j in [js], the probabilities add up *)
Lemma prob_sum_events : forall {J} (ev : A -> bool) (evs : J -> A -> bool) (js : list J) (d : dist A),
  (forall a w, In (a, w) d ->
     (if ev a then 1 else 0) == qsum (map (fun j => if evs j a then 1 else 0) js)) ->
  prob ev d == qsum (map (fun j => prob (evs j) d) js).
Proof.
  intros J ev evs js d H.
  transitivity (qsum (map (fun aw : A * Q =>
                  qsum (map (fun j => if evs j (fst aw) then snd aw else 0) js)) d)).
  - rewrite prob_as_sum. apply qsum_map_ext_in. intros [a w] Haw. cbn [fst snd].
    transitivity (w * (if ev a then 1 else 0)); [destruct (ev a); ring|].
    rewrite (H a w Haw), <- qsum_map_scal. apply qsum_map_ext_in. intros j _.
    destruct (evs j a); ring.
  - rewrite qsum_swap. apply qsum_map_ext_in. intros j _. rewrite prob_as_sum. reflexivity.
Qed.

(* ------------------------------------------------------------------ *)
(** * dret *)

Lemma mass_dret : forall a : A, mass (dret a) == 1.
Proof. intros a. unfold mass, dret. cbn [map snd]. rewrite qsum_cons, qsum_nil. ring. Qed.

Lemma prob_dret : forall (ev : A -> bool) (a : A), prob ev (dret a) == if ev a then 1 else 0.
Proof. intros ev a. unfold dret. rewrite prob_cons, prob_nil. cbn [fst snd]. ring. Qed.

(* ------------------------------------------------------------------ *)
(** * dscale, dmix *)

Lemma mass_dscale : forall (k : Q) (d : dist A), mass (dscale k d) == k * mass d.
Proof.
  intros k d. unfold mass, dscale. rewrite map_map. cbn [snd]. apply qsum_map_scal.
Qed.

Lemma prob_dscale : forall (ev : A -> bool) (k : Q) (d : dist A),
  prob ev (dscale k d) == k * prob ev d.
Proof.
  intros ev k d. rewrite !prob_as_sum. unfold dscale. rewrite map_map. cbn [fst snd].
  rewrite <- qsum_map_scal. apply qsum_map_ext_in. intros [a w] _. cbn [fst snd].
  destruct (ev a); ring.
Qed.

Lemma mass_dmix : forall (lam : Q) (d1 d2 : dist A),
  mass (dmix lam d1 d2) == lam * mass d1 + (1 - lam) * mass d2.
Proof. intros lam d1 d2. unfold dmix. rewrite mass_app, !mass_dscale. reflexivity. Qed.

Lemma prob_dmix : forall (ev : A -> bool) (lam : Q) (d1 d2 : dist A),
  prob ev (dmix lam d1 d2) == lam * prob ev d1 + (1 - lam) * prob ev d2.
Proof. intros ev lam d1 d2. unfold dmix. rewrite prob_app, !prob_dscale. reflexivity. Qed.

Corollary mass_dmix_one : forall (lam : Q) (d1 d2 : dist A),
  mass d1 == 1 -> mass d2 == 1 -> mass (dmix lam d1 d2) == 1.
Proof. intros lam d1 d2 H1 H2. rewrite mass_dmix, H1, H2. ring. Qed.

Lemma nonneg_dscale : forall (k : Q) (d : dist A), 0 <= k -> nonneg_dist d -> nonneg_dist (dscale k d).
Proof.
  intros k d Hk H a w Hin. unfold dscale in Hin. apply in_map_iff in Hin.
  destruct Hin as ([a' w'] & E & Hin). cbn [fst snd] in E. injection E as <- <-.
  apply Qmult_le_0_compat; [exact Hk|exact (H a' w' Hin)].
Qed.

Lemma nonneg_app : forall d1 d2 : dist A, nonneg_dist d1 -> nonneg_dist d2 -> nonneg_dist (d1 ++ d2).
Proof.
  intros d1 d2 H1 H2 a w Hin. apply in_app_or in Hin. destruct Hin as [Hin|Hin];
    [exact (H1 a w Hin)|exact (H2 a w Hin)].
Qed.

Lemma nonneg_dmix : forall (lam : Q) (d1 d2 : dist A), 0 <= lam -> lam <= 1 ->
  nonneg_dist d1 -> nonneg_dist d2 -> nonneg_dist (dmix lam d1 d2).
Proof.
  intros lam d1 d2 H0 H1 Hd1 Hd2. unfold dmix. apply nonneg_app; apply nonneg_dscale; auto. lra.
Qed.

(* ------------------------------------------------------------------ *)
(** * categorical *)

Lemma mass_categorical : forall pop : list (A * Q),
  ~ qsum (map snd pop) == 0 -> mass (categorical pop) == 1.
Proof.
  intros pop H. unfold mass, categorical. rewrite map_map. cbn [snd].
  rewrite qsum_map_div. field. exact H.
Qed.

(* P(event) = (weight of the entries satisfying the event) / (total weight) *)
Lemma prob_categorical : forall (ev : A -> bool) (pop : list (A * Q)),
  prob ev (categorical pop) ==
  qsum (map snd (filter (fun aw => ev (fst aw)) pop)) / qsum (map snd pop).
Proof.
  intros ev pop. fold (prob ev pop). rewrite (prob_as_sum ev pop), prob_as_sum.
  unfold categorical. rewrite map_map. cbn [fst snd]. rewrite <- qsum_map_div.
  apply qsum_map_ext_in. intros [a w] _. cbn [fst snd]. destruct (ev a); [reflexivity|].
  unfold Qdiv. ring.
Qed.

(* P(the outcome is a) = (sum of the weights of the entries equal to a) / total *)
Lemma prob_categorical_point : forall (eqb : A -> A -> bool),
  (forall a b, reflect (a = b) (eqb a b)) ->
  forall (a : A) (pop : list (A * Q)),
  prob (eqb a) (categorical pop) ==
  qsum (map (fun bw => if eqb a (fst bw) then snd bw else 0) pop) / qsum (map snd pop).
Proof.
  intros eqb _ a pop. rewrite prob_categorical. fold (prob (eqb a) pop).
  rewrite prob_as_sum. reflexivity.
Qed.

Lemma nonneg_categorical : forall pop : list (A * Q),
  (forall a w, In (a, w) pop -> 0 <= w) -> nonneg_dist (categorical pop).
Proof.
  intros pop H a w Hin. unfold categorical in Hin. apply in_map_iff in Hin.
  destruct Hin as ([a' w'] & E & Hin). cbn [fst snd] in E. injection E as <- <-.
  assert (Ht : 0 <= qsum (map snd pop)).
  { apply qsum_map_nonneg. intros [x q] Hx. cbn [snd]. exact (H x q Hx). }
  pose proof (H a' w' Hin) as Hw. unfold Qdiv.
  apply Qmult_le_0_compat; [exact Hw|]. apply Qinv_le_0_compat. exact Ht.
Qed.

(* ------------------------------------------------------------------ *)
(** * uniform_of *)

Lemma prob_const_weight : forall (ev : A -> bool) (w : Q) (l : list A),
  prob ev (map (fun a => (a, w)) l) == Qnat (length (filter ev l)) * w.
Proof.
  intros ev w l. induction l as [|a l IH].
  - cbn [map filter length]. rewrite prob_nil, Qnat_0. ring.
  - cbn [map filter]. rewrite prob_cons, IH. cbn [fst snd]. destruct (ev a).
    + cbn [length]. rewrite Qnat_S. ring.
    + ring.
Qed.

Lemma mass_uniform_of : forall l : list A, l <> [] -> mass (uniform_of l) == 1.
Proof.
  intros l Hl. unfold mass, uniform_of. rewrite map_map. cbn [snd].
  rewrite qsum_map_const. field. apply Qnat_neq0. destruct l; [contradiction|cbn [length]; lia].
Qed.

(* P(event) = (number of elements satisfying the event) / (number of elements) *)
Lemma prob_uniform_of : forall (ev : A -> bool) (l : list A),
  prob ev (uniform_of l) == Qnat (length (filter ev l)) / Qnat (length l).
Proof.
  intros ev l. unfold uniform_of. rewrite prob_const_weight. unfold Qdiv. ring.
Qed.

Lemma prob_uniform_of_sum : forall (ev : A -> bool) (l : list A),
  prob ev (uniform_of l) == qsum (map (fun a => if ev a then 1 / Qnat (length l) else 0) l).
Proof.
  intros ev l. rewrite prob_as_sum. unfold uniform_of. rewrite map_map. cbn [fst snd]. reflexivity.
Qed.

Lemma nonneg_uniform_of : forall l : list A, nonneg_dist (uniform_of l).
Proof.
  intros l a w Hin. unfold uniform_of in Hin. apply in_map_iff in Hin.
  destruct Hin as (x & E & _). injection E as _ <-. unfold Qdiv. rewrite Qmult_1_l.
  apply Qinv_le_0_compat. apply Qnat_nonneg.
Qed.

Lemma uniform_of_support : forall (l : list A) a w, In (a, w) (uniform_of l) -> In a l.
Proof.
  intros l a w Hin. unfold uniform_of in Hin. apply in_map_iff in Hin.
  destruct Hin as (x & E & Hx). injection E as <- _. exact Hx.
Qed.

(* uniform choice from a duplicate-free list: each element has probability 1/length *)
Lemma filter_eqb_NoDup_length : forall (eqb : A -> A -> bool),
  (forall a b, reflect (a = b) (eqb a b)) ->
  forall (x : A) (l : list A), NoDup l ->
  length (filter (eqb x) l) = if existsb (eqb x) l then 1%nat else 0%nat.
Proof.
  intros eqb Hspec x l Hnd. induction Hnd as [|a l Hnotin _ IH].
  - reflexivity.
  - cbn [filter existsb]. destruct (Hspec x a) as [<-|Hne]; cbn [orb length].
    + rewrite IH.
      assert (Hex : existsb (eqb x) l = false).
      { apply not_true_is_false. intros Hex. apply existsb_exists in Hex.
        destruct Hex as (c & Hc & Hxc). destruct (Hspec x c) as [->|]; [contradiction|discriminate]. }
      rewrite Hex. reflexivity.
    + exact IH.
Qed.

Lemma prob_uniform_of_point : forall (eqb : A -> A -> bool),
  (forall a b, reflect (a = b) (eqb a b)) ->
  forall (x : A) (l : list A), NoDup l ->
  prob (eqb x) (uniform_of l) == if existsb (eqb x) l then 1 / Qnat (length l) else 0.
Proof.
  intros eqb Hspec x l Hnd. rewrite prob_uniform_of, (filter_eqb_NoDup_length eqb Hspec x l Hnd).
  destruct (existsb (eqb x) l).
  - change (Qnat 1) with 1. reflexivity.
  - rewrite Qnat_0. unfold Qdiv. ring.
Qed.

End Dist.

(* ------------------------------------------------------------------ *)
(** * dbind *)

Section Bind.
Context {A B : Type}.

Lemma dbind_nil : forall f : A -> dist B, dbind [] f = [].
Proof. reflexivity. Qed.

Lemma dbind_cons : forall (aw : A * Q) (d : dist A) (f : A -> dist B),
  dbind (aw :: d) f = dscale (snd aw) (f (fst aw)) ++ dbind d f.
Proof. reflexivity. Qed.

(* mass (d >>= f) = sum over the entries (a, w) of d of w * mass (f a) *)
Lemma mass_dbind : forall (d : dist A) (f : A -> dist B),
  mass (dbind d f) == qsum (map (fun aw => snd aw * mass (f (fst aw))) d).
Proof.
  intros d f. induction d as [|aw d IH].
  - reflexivity.
  - rewrite dbind_cons, mass_app, mass_dscale, IH. cbn [map]. rewrite qsum_cons. reflexivity.
Qed.

(* P_{d >>= f}(ev) = sum over the entries (a, w) of d of w * P_{f a}(ev) *)
Lemma prob_dbind : forall (ev : B -> bool) (d : dist A) (f : A -> dist B),
  prob ev (dbind d f) == qsum (map (fun aw => snd aw * prob ev (f (fst aw))) d).
Proof.
  intros ev d f. induction d as [|aw d IH].
  - reflexivity.
  - rewrite dbind_cons, prob_app, prob_dscale, IH. cbn [map]. rewrite qsum_cons. reflexivity.
Qed.

(* if every continuation is a probability distribution the mass is unchanged *)
Lemma mass_dbind_one : forall (d : dist A) (f : A -> dist B),
  (forall a w, In (a, w) d -> mass (f a) == 1) -> mass (dbind d f) == mass d.
Proof.
  intros d f H. rewrite mass_dbind. unfold mass. apply qsum_map_ext_in.
  intros [a w] Haw. cbn [fst snd]. rewrite (H a w Haw). ring.
Qed.

(* pushing a distribution forward through a function *)
Lemma prob_dbind_dret : forall (ev : B -> bool) (d : dist A) (g : A -> B),
  prob ev (dbind d (fun a => dret (g a))) == prob (fun a => ev (g a)) d.
Proof.
  intros ev d g. rewrite prob_dbind, prob_as_sum. apply qsum_map_ext_in.
  intros [a w] _. cbn [fst snd]. rewrite prob_dret. destruct (ev (g a)); ring.
Qed.

Lemma nonneg_dbind : forall (d : dist A) (f : A -> dist B),
  nonneg_dist d -> (forall a w, In (a, w) d -> nonneg_dist (f a)) -> nonneg_dist (dbind d f).
Proof.
  intros d f Hd Hf. induction d as [|[a w] d IH].
  - intros b q [].
  - rewrite dbind_cons. cbn [fst snd]. apply nonneg_app.
    + apply nonneg_dscale; [apply (Hd a w); left; reflexivity|apply (Hf a w); left; reflexivity].
    + apply IH.
      * intros x q Hx. apply (Hd x q). right. exact Hx.
      * intros x q Hx. apply (Hf x q). right. exact Hx.
Qed.

(* the support of a bind *)
Lemma dbind_support : forall (d : dist A) (f : A -> dist B) b q,
  In (b, q) (dbind d f) -> exists a w q', In (a, w) d /\ In (b, q') (f a) /\ q = w * q'.
Proof.
  intros d f b q. induction d as [|[a w] d IH]; [intros []|].
  rewrite dbind_cons. cbn [fst snd]. intros Hin. apply in_app_or in Hin. destruct Hin as [Hin|Hin].
  - unfold dscale in Hin. apply in_map_iff in Hin. destruct Hin as ([b' q'] & E & Hin).
    cbn [fst snd] in E. injection E as <- <-. exists a, w, q'.
    split; [left; reflexivity|]. split; [exact Hin|reflexivity].
  - destruct (IH Hin) as (a' & w' & q' & H1 & H2 & H3). exists a', w', q'.
    split; [right; exact H1|]. split; assumption.
Qed.

End Bind.
