(* Proofs/C01_hare.v — C01, STV family beyond "Droop quota + quota-preserving transfer": the
   exhaustive list of the exceptions of [run_stv] for EVERY quota (Hare included) and EVERY
   transfer rule (SequentialRCV's full-weight transfer included) with a necessary condition for
   each; sufficient conditions for the absence of over-election (one-by-one mode; Hare quota with
   N < (m+1) floor(N/m); threshold above half of the votes); the Hare arithmetic. *)
From VK Require Import Base Core STV Rules EditSpec ScoreSpec.
From VK.Spec Require Import STVSpec STVErrSpec.
From VK.Proofs Require Import Lib_sets Lib_rk Lib_condense Lib_condense12 C12_edit C03_transfer
  C04_scoring Elect STV_lib STV_wsum STV_tb STV_step STV_round STV_threshold STV_weights STV_inv
  STV_cases STV_final C01_hare_lib.
From Coq Require Import Permutation Lia Lqa Setoid Morphisms Qround.

(* ====================== Hare arithmetic ====================== *)

Lemma hare_quota_int : forall n m, (1 <= m)%Z -> hare_quota (inject_Z n) m = (n / m)%Z.
Proof.
  intros n m Hm. unfold hare_quota. destruct m as [|m|m]; try lia.
  unfold Qfloor, Qdiv, Qinv, Qmult, inject_Z. cbn [Qnum Qden].
  rewrite Z.mul_1_r. reflexivity.
Qed.

(* (m+1) floor(n/m) <= n  iff  floor(n/m) <= n mod m *)
Lemma hare_overelection_arith : forall n m, (1 <= m)%Z ->
  ((m + 1) * (n / m) <= n <-> n / m <= n mod m)%Z.
Proof.
  intros n m Hm. pose proof (Z.div_mod n m ltac:(lia)) as E. split; intros H; nia.
Qed.

Lemma hare_quota_zero : forall N m, 0 <= N -> (1 <= m)%Z ->
  (hare_quota N m = 0%Z <-> N < inject_Z m).
Proof.
  intros N m HN Hm. unfold hare_quota.
  assert (Hp : 0 < inject_Z m) by (apply inject_Z_pos; lia).
  assert (E : inject_Z m * (N / inject_Z m) == N) by (field; lra).
  split; intros H.
  - pose proof (Qlt_floor (N / inject_Z m)) as Hlt. rewrite H in Hlt. change (inject_Z (0 + 1)) with 1 in Hlt.
    apply (Qmult_lt_l _ _ _ Hp) in Hlt. rewrite E in Hlt. lra.
  - apply Qfloor_unique.
    + change (inject_Z 0) with 0. apply Qdiv_nonneg; assumption.
    + change (inject_Z (0 + 1)) with 1. apply (Qmult_lt_l _ _ _ Hp). rewrite E. lra.
Qed.

Section WithCand.
Variable cand : Type.
Variable ceqb : cand -> cand -> bool.
Hypothesis ceqb_spec : forall a b, reflect (a = b) (ceqb a b).

Notation cset := (cset cand).
Notation ranking := (ranking cand).
Notation ballot := (ballot cand).
Notation profile := (profile cand).
Notation scores := (scores cand).
Notation mstate := (mstate cand).
Notation estate := (estate cand).
Notation flat := (flat cand).
Notation total_wt := (total_wt cand).
Notation tally := (tally cand ceqb).
Notation wf_stv0 := (wf_stv0 cand).
Notation step_ctx := (step_ctx cand ceqb).
Notation script_ok := (script_ok cand).
Notation reaches := (reaches cand ceqb).
Notation count_elected := (count_elected cand).
Notation all_elected := (all_elected cand).
Notation elected_upto := (elected_upto cand).
Notation eliminated_upto := (eliminated_upto cand).
Notation stv_inv := (STVSpec.stv_inv cand ceqb).
Notation stv_step := (stv_step cand ceqb).
Notation stv_init := (stv_init cand).
Notation run_stv := (run_stv cand ceqb).
Notation initial_state := (initial_state cand ceqb).
Notation round_failure := (round_failure cand ceqb).
Notation overelecting_round := (overelecting_round cand ceqb).
Notation good_outcome := (good_outcome cand).

(* ====================== (a) the exact description of a failing run ====================== *)

(* the extra invariant: at most m elected, unless an over-electing round has been met *)
Definition oe_inv (cfg : stv_cfg) (p0 : profile) (t : Q) (pr : profile) (sts : list estate) : Prop :=
  (count_elected sts <= s_m cfg)%Z \/
  (s_simul cfg = true /\ overelecting_round cfg t (total_wt (ballots p0)) p0).

Lemma oe_inv_step : forall cfg (p0 : profile) t (pr : profile) prev older (s1 s' : mstate) np st,
  stv_inv cfg t (total_wt (ballots p0)) p0 pr (prev :: older) -> oe_inv cfg p0 t pr (prev :: older) ->
  (s_transfer cfg = TRandom -> script_ok s1) ->
  count_elected (prev :: older) <> s_m cfg ->
  stv_step cfg t p0 (count_elected (prev :: older)) pr prev s1 = inl ((np, st), s') ->
  oe_inv cfg p0 t np (st :: prev :: older).
Proof.
  intros cfg p0 t pr prev older s1 s' np st Hinv [Hle|Hoe] Hscr Hne Hstep; [|right; exact Hoe].
  assert (Hlt : (count_elected (prev :: older) < s_m cfg)%Z) by lia.
  destruct (step_count_cases cand ceqb ceqb_spec cfg t _ p0 pr prev older s1 s' np st Hinv Hscr Hlt Hstep)
    as [H|(Hsim & W & Hnd & HW & Hgt)].
  - left. exact H.
  - right. split; [exact Hsim|]. exists pr, prev, older, W.
    split; [exact Hinv|]. split; [exact Hlt|]. split; [exact Hnd|]. split; [exact HW|exact Hgt].
Qed.

(* an over-electing round under a quota-preserving transfer: (m+1) t <= N *)
Lemma overelecting_bound : forall cfg t N (p0 : profile),
  overelecting_round cfg t N p0 -> s_transfer cfg <> TFullWeight ->
  inject_Z (s_m cfg + 1) * t <= N.
Proof.
  intros cfg t N p0 (pr & prev & older & W & Hinv & Hlt & Hnd & HW & Hgt) Hk.
  assert (Hne : W <> []).
  { intros E. rewrite E in Hgt. cbn [length] in Hgt. lia. }
  assert (Hb : t * inject_Z (Z.of_nat (length W) + count_elected (prev :: older)) <= N).
  { apply (reachers_bound cand ceqb ceqb_spec cfg t N p0 pr (prev :: older) W Hinv Hk Hnd); [|exact Hne|].
    - intros w Hw. apply (proj1 (HW w)) in Hw. apply Hw.
    - intros w Hw. apply (proj1 (HW w)) in Hw. apply Hw. }
  pose proof (inv_t_nonneg _ _ _ _ _ _ _ _ Hinv) as Ht0.
  assert (Hz : inject_Z (s_m cfg + 1) <= inject_Z (Z.of_nat (length W) + count_elected (prev :: older))).
  { rewrite <- Zle_Qle. lia. }
  eapply Qle_trans; [|exact Hb]. rewrite (Qmult_comm t). apply Qmult_le_compat_r; assumption.
Qed.

Theorem run_errors_exact : forall cfg (p : profile) (s : mstate) e,
  wf_stv0 p -> (s_transfer cfg = TRandom -> script_ok s) ->
  run_stv cfg p s = inr e ->
  let N := total_wt (ballots p) in
  (e = EValue /\ (~ (1 <= s_m cfg <= Z.of_nat (length (cands p)))%Z \/ s_quota cfg = QBad)) \/
  (e = EType /\ s_transfer cfg = TRandom /\ ~ integral_weights cand p) \/
  exists t, stv_init cfg p = inl t /\
    (exists (pr : profile) prev older (s1 : mstate),
       stv_inv cfg t N p pr (prev :: older) /\ count_elected (prev :: older) <> s_m cfg /\
       round_failure cfg t p pr prev older s1 e) /\
    (e = EIndex -> s_simul cfg = true /\ overelecting_round cfg t N p /\
       (s_transfer cfg <> TFullWeight -> s_quota cfg = QHare /\ inject_Z (s_m cfg + 1) * t <= N)) /\
    (e = EZeroDiv -> s_transfer cfg = TFractional /\ s_quota cfg = QHare /\ t == 0 /\
       N < inject_Z (s_m cfg)).
Proof.
  intros cfg p s e Hwf Hscr H. cbv zeta.
  destruct (run_error_round cand ceqb ceqb_spec cfg p s e (oe_inv cfg p) Hwf Hscr) as [Hl|[Hty|Hr]].
  - intros t s0 Ei E0. left. rewrite (count_elected_initial cand ceqb p s0 E0).
    destruct (stv_init_inv cand cfg p t Ei) as (_ & Hm & _). lia.
  - intros t pr prev older s1 s' np st _. apply oe_inv_step.
  - exact H.
  - left. exact Hl.
  - right. left. exact Hty.
  - right. right. destruct Hr as (t & pr & prev & older & s1 & Ei & Hinv & HI & Hscr1 & Hne & Hstep).
    exists t. split; [exact Ei|].
    pose proof (step_failure cand ceqb ceqb_spec cfg t _ p pr prev older s1 e Hinv Hscr1 Hstep) as Hf.
    pose proof (threshold_value cand cfg p t Ei (total_wt_nonneg cand p Hwf)) as [Hm Hqv].
    cbv zeta in Hm, Hqv.
    split; [exists pr, prev, older, s1; split; [exact Hinv|split; [exact Hne|exact Hf]]|]. split.
    + intros ->. apply round_failure_index in Hf. destruct Hf as (_ & _ & Hgt).
      destruct HI as [Hle|[Hsim Hoe]]; [lia|]. split; [exact Hsim|]. split; [exact Hoe|].
      intros Hk. pose proof (overelecting_bound cfg t _ p Hoe Hk) as Hb.
      split; [|exact Hb]. destruct (s_quota cfg); [|reflexivity|destruct Hqv].
      destruct Hqv as (_ & HN & _). lra.
    + intros ->. apply round_failure_zerodiv in Hf. destruct Hf as (_ & Hk & Ht & _).
      split; [exact Hk|]. destruct (s_quota cfg); [|split; [reflexivity|]|destruct Hqv].
      * destruct Hqv as (_ & _ & H1). lra.
      * split; [exact Ht|]. destruct Hqv as (Hteq & _ & _). rewrite Hteq in Ht.
        apply (hare_quota_zero _ _ (total_wt_nonneg cand p Hwf) (proj1 Hm)).
        unfold Qeq in Ht. cbn [inject_Z Qnum Qden] in Ht. lia.
Qed.

(* the flat, configuration-level list *)
Theorem run_error_list : forall cfg (p : profile) (s : mstate) e,
  wf_stv0 p -> (s_transfer cfg = TRandom -> script_ok s) ->
  run_stv cfg p s = inr e ->
  let N := total_wt (ballots p) in
  let m := s_m cfg in
  (e = EValue /\ (~ (1 <= m <= Z.of_nat (length (cands p)))%Z \/ s_quota cfg = QBad)) \/
  (e = EValue /\ s_simul cfg = false /\ (s_tiebreak cfg = None \/ s_tiebreak cfg = Some TBInvalid)) \/
  (e = EValue /\ s_transfer cfg = TRandom) \/
  (e = EType /\ s_transfer cfg = TRandom) \/
  (e = EZeroDiv /\ s_transfer cfg = TFractional /\ s_quota cfg = QHare /\ N < inject_Z m) \/
  (e = EIndex /\ s_simul cfg = true /\
     (s_transfer cfg = TFullWeight \/
      (s_quota cfg = QHare /\ inject_Z (m + 1) * inject_Z (hare_quota N m) <= N))) \/
  e = EScript.
Proof.
  intros cfg p s e Hwf Hscr H. cbv zeta.
  destruct (run_errors_exact cfg p s e Hwf Hscr H)
    as [Hl|[(-> & Hty & _)|(t & Ei & (pr & prev & older & s1 & _ & _ & Hf) & HI & HZ)]];
    [left; exact Hl|do 3 right; left; split; [reflexivity|exact Hty]|]. cbv zeta in HI, HZ. right.
  pose proof (threshold_value cand cfg p t Ei (total_wt_nonneg cand p Hwf)) as [_ Hqv]. cbv zeta in Hqv.
  destruct Hf as [Hf|[Hf|[Hf|[Hf|Hf]]]].
  - destruct Hf as (Hsim & g & rest & _ & _ & _ & [[-> Htb]|[-> _]]).
    + left. split; [reflexivity|]. split; [exact Hsim|exact Htb].
    + do 5 right. reflexivity.
  - destruct Hf as (-> & _). do 3 right. left. destruct (HZ eq_refl) as (Hk & Hq & _ & HN).
    split; [reflexivity|]. split; [exact Hk|]. split; [exact Hq|exact HN].
  - destruct Hf as (Hk & w & _ & [[-> _]|[[-> _]| ->]]).
    + right. right. left. split; [reflexivity|exact Hk].
    + right. left. split; [reflexivity|exact Hk].
    + do 5 right. reflexivity.
  - destruct Hf as (-> & _). do 5 right. reflexivity.
  - destruct Hf as (-> & _). do 4 right. left. destruct (HI eq_refl) as (Hsim & _ & Hq).
    split; [reflexivity|]. split; [exact Hsim|].
    destruct (s_transfer cfg) eqn:Ek; [right|right|left; reflexivity].
    + destruct (Hq ltac:(discriminate)) as [Eq Hb]. split; [exact Eq|].
      rewrite Eq in Hqv. destruct Hqv as (<- & _). exact Hb.
    + destruct (Hq ltac:(discriminate)) as [Eq Hb]. split; [exact Eq|].
      rewrite Eq in Hqv. destruct Hqv as (<- & _). exact Hb.
Qed.

Theorem run_error_kinds : forall cfg (p : profile) (s : mstate) e,
  wf_stv0 p -> (s_transfer cfg = TRandom -> script_ok s) ->
  run_stv cfg p s = inr e -> stv_error_kind e.
Proof.
  intros cfg p s e Hwf Hscr H. unfold stv_error_kind.
  destruct (run_error_list cfg p s e Hwf Hscr H) as [[-> _]|[[-> _]|[[-> _]|[[-> _]|[[-> _]|[[-> _]| ->]]]]]];
    auto 6.
Qed.

(* ====================== (b) sufficient conditions ====================== *)

(* one-by-one mode never over-elects: no IndexError, whatever the quota and the transfer *)
Theorem one_by_one_no_index : forall cfg (p : profile) (s : mstate),
  wf_stv0 p -> (s_transfer cfg = TRandom -> script_ok s) -> s_simul cfg = false ->
  run_stv cfg p s <> inr EIndex.
Proof.
  intros cfg p s Hwf Hscr Hsim H.
  destruct (run_errors_exact cfg p s EIndex Hwf Hscr H) as [[E _]|[[E _]|(t & _ & _ & HI & _)]];
    [discriminate|discriminate|].
  destruct (HI eq_refl) as (Hs & _). congruence.
Qed.

Lemma run_good_outcome : forall cfg (p : profile) (s s' : mstate) out,
  wf_stv0 p -> (s_transfer cfg = TRandom -> script_ok s) ->
  run_stv cfg p s = inl (out, s') -> good_outcome cfg p out.
Proof.
  intros cfg p s s' out Hwf Hscr H.
  destruct (run_stv_outcome cand ceqb ceqb_spec cfg p s s' out Hwf Hscr H) as (H1 & H2 & H3).
  split; [exact H2|]. split; [exact H3|exact H1].
Qed.

(* SequentialRCV (full-weight transfer), one by one: a correct outcome, or the documented
   ValueError (m out of range / unbroken tie for a seat), or an unserved random choice *)
Theorem seqrcv_one_by_one : forall cfg (p : profile) (s : mstate),
  wf_stv0 p -> s_transfer cfg = TFullWeight -> s_simul cfg = false -> s_quota cfg <> QBad ->
  match run_stv cfg p s with
  | inl (out, _) => good_outcome cfg p out
  | inr e =>
      (e = EValue /\ ~ (1 <= s_m cfg <= Z.of_nat (length (cands p)))%Z) \/
      (e = EValue /\ (s_tiebreak cfg = None \/ s_tiebreak cfg = Some TBInvalid)) \/
      e = EScript
  end.
Proof.
  intros cfg p s Hwf Hk Hsim Hq.
  assert (Hscr : s_transfer cfg = TRandom -> script_ok s) by (intros E; congruence).
  destruct (run_stv cfg p s) as [[out s']|e] eqn:H.
  - apply (run_good_outcome cfg p s s' out Hwf Hscr H).
  - destruct (run_error_list cfg p s e Hwf Hscr H)
      as [[-> [Hm|Hb]]|[[-> [_ Htb]]|[[_ E]|[[_ E]|[(_ & E & _)|[(_ & E & _)| ->]]]]]]; try congruence.
    + left. split; [reflexivity|exact Hm].
    + right. left. split; [reflexivity|exact Htb].
    + right. right. reflexivity.
Qed.

(* a threshold t with 0 < t and N < (m+1) t (every Droop quota; the Hare quota exactly when
   1 <= floor(N/m) and N < (m+1) floor(N/m)) and a quota-preserving transfer: no IndexError, no
   ZeroDivisionError *)
Theorem safe_quota_errors : forall cfg (p : profile) (s : mstate) e t,
  wf_stv0 p -> s_transfer cfg <> TFullWeight -> (s_transfer cfg = TRandom -> script_ok s) ->
  stv_init cfg p = inl t -> 0 < t -> total_wt (ballots p) < inject_Z (s_m cfg + 1) * t ->
  run_stv cfg p s = inr e ->
  e = EScript \/
  (e = EValue /\ s_simul cfg = false /\ (s_tiebreak cfg = None \/ s_tiebreak cfg = Some TBInvalid)) \/
  (s_transfer cfg = TRandom /\ (e = EType \/ e = EValue)).
Proof.
  intros cfg p s e t Hwf Hk Hscr Ei Ht HN H.
  destruct (run_errors_exact cfg p s e Hwf Hscr H)
    as [[_ Hl]|[(-> & Hty & _)|(t' & Ei' & (pr & prev & older & s1 & _ & _ & Hf) & HI & HZ)]].
  - exfalso. destruct (stv_init_inv cand cfg p t Ei) as (_ & Hm & Hth).
    destruct Hl as [Hl|Hl]; [apply Hl; exact Hm|]. rewrite Hl in Hth. discriminate.
  - right. right. split; [exact Hty|left; reflexivity].
  - assert (t' = t) by congruence. subst t'. cbv zeta in HI, HZ.
    destruct Hf as [Hf|[Hf|[Hf|[Hf|Hf]]]].
    + destruct Hf as (Hsim & g & rest & _ & _ & _ & [[-> Htb]|[-> _]]).
      * right. left. split; [reflexivity|]. split; [exact Hsim|exact Htb].
      * left. reflexivity.
    + exfalso. destruct Hf as (-> & _). destruct (HZ eq_refl) as (_ & _ & Hz & _). lra.
    + destruct Hf as (Ek & w & _ & [[-> _]|[[-> _]| ->]]).
      * right. right. split; [exact Ek|left; reflexivity].
      * right. right. split; [exact Ek|right; reflexivity].
      * left. reflexivity.
    + destruct Hf as (-> & _). left. reflexivity.
    + exfalso. destruct Hf as (-> & _). destruct (HI eq_refl) as (_ & _ & Hq).
      destruct (Hq Hk) as [_ Hb]. lra.
Qed.

(* the same for the Hare quota, the condition stated on the input *)
Theorem hare_safe_outcome : forall cfg (p : profile) (s : mstate),
  wf_stv0 p -> s_quota cfg = QHare -> s_transfer cfg <> TFullWeight ->
  (s_transfer cfg = TRandom -> script_ok s) ->
  (1 <= s_m cfg <= Z.of_nat (length (cands p)))%Z ->
  let N := total_wt (ballots p) in
  let q := hare_quota N (s_m cfg) in
  (1 <= q)%Z -> N < inject_Z (s_m cfg + 1) * inject_Z q ->
  match run_stv cfg p s with
  | inl (out, _) => good_outcome cfg p out
  | inr e =>
      e = EScript \/
      (e = EValue /\ s_simul cfg = false /\ (s_tiebreak cfg = None \/ s_tiebreak cfg = Some TBInvalid)) \/
      (s_transfer cfg = TRandom /\ (e = EType \/ e = EValue))
  end.
Proof.
  intros cfg p s Hwf Hq Hk Hscr Hm N q Hq1 HN.
  destruct (run_stv cfg p s) as [[out s']|e] eqn:H.
  - apply (run_good_outcome cfg p s s' out Hwf Hscr H).
  - destruct (stv_init cfg p) as [t|e0] eqn:Ei.
    + pose proof (threshold_value cand cfg p t Ei (total_wt_nonneg cand p Hwf)) as [_ Hqv].
      cbv zeta in Hqv. rewrite Hq in Hqv. destruct Hqv as (Ht & _ & _).
      apply (safe_quota_errors cfg p s e t Hwf Hk Hscr Ei); [| |exact H].
      * rewrite Ht. change 0 with (inject_Z 0). rewrite <- Zlt_Qlt. fold N q. lia.
      * rewrite Ht. exact HN.
    + rewrite (run_stv_unfold cand ceqb), Ei in H. injection H as <-.
      destruct (stv_init_err_gen cand cfg p e0 Hwf Ei) as [(-> & Hty & _)|(_ & _ & [Hc|Hc])].
      * right. right. split; [exact Hty|left; reflexivity].
      * exfalso. apply Hc. exact Hm.
      * exfalso. rewrite Hq in Hc. discriminate.
Qed.

(* a threshold above half of the votes (every single-winner Droop count): at most one candidate
   reaches it per round, so no over-election, whatever the transfer *)
Definition half_inv (cfg : stv_cfg) (p0 : profile) (t : Q) (pr : profile) (sts : list estate) : Prop :=
  (count_elected sts <= s_m cfg)%Z /\ total_wt (ballots pr) <= total_wt (ballots p0).

Lemma reachers_total : forall (p : profile) t (W : cset), wf_stv0 p ->
  NoDup W -> (forall w, In w W -> reaches t p w) ->
  t * Qnat (length W) <= total_wt (ballots p).
Proof.
  intros p t W Hwf Hnd HW.
  assert (Hincl : incl W (cands p)) by (intros w Hw; apply (HW w Hw)).
  pose proof (app_set_diff_perm cand ceqb ceqb_spec W (cands p) Hnd (proj1 Hwf) Hincl) as Hperm.
  pose proof (tally_total cand ceqb ceqb_spec p Hwf) as Htot.
  rewrite <- (Lib_sets.qsum_perm _ _ (Permutation_map (fun c => tally c (ballots p)) Hperm)) in Htot.
  rewrite map_app, Lib_sets.qsum_app in Htot.
  assert (H0 : 0 <= qsum (map (fun c => tally c (ballots p)) (set_diff cand ceqb (cands p) W))).
  { apply Lib_sets.qsum_nonneg. apply Forall_forall. intros x Hx. apply in_map_iff in Hx.
    destruct Hx as (c & <- & _). apply (tally_nonneg cand ceqb). intros b Hb.
    destruct Hwf as [_ Hb']. rewrite Forall_forall in Hb'. apply (Hb' b Hb). }
  pose proof (qsum_ge_const (fun c => tally c (ballots p)) t W (fun w Hw => proj2 (HW w Hw))) as HWs.
  lra.
Qed.

Theorem majority_threshold_no_index : forall cfg (p : profile) (s : mstate) t,
  wf_stv0 p -> (s_transfer cfg = TRandom -> script_ok s) ->
  stv_init cfg p = inl t -> total_wt (ballots p) < 2 * t ->
  run_stv cfg p s <> inr EIndex.
Proof.
  intros cfg p s t Hwf Hscr Ei Hhalf H.
  destruct (run_error_round cand ceqb ceqb_spec cfg p s EIndex (half_inv cfg p) Hwf Hscr)
    as [[E _]|[[E _]|(t' & pr & prev & older & s1 & Ei' & Hinv & [Hle _] & Hscr1 & Hne & Hstep)]].
  - intros t0 s0 Ei0 E0. split; [|apply Qle_refl]. rewrite (count_elected_initial cand ceqb p s0 E0).
    destruct (stv_init_inv cand cfg p t0 Ei0) as (_ & Hm & _). lia.
  - intros t0 pr prev older s1 s' np st Ei0 Hinv [Hle Hw] Hscr1 Hne Hstep.
    assert (t0 = t) by congruence. subst t0.
    pose proof (inv_ctx_head cand ceqb _ _ _ _ _ _ _ Hinv) as Hctx.
    split.
    + assert (Hlt : (count_elected (prev :: older) < s_m cfg)%Z) by lia.
      destruct (step_count_cases cand ceqb ceqb_spec cfg t _ p pr prev older s1 s' np st Hinv Hscr1 Hlt Hstep)
        as [Hc|(_ & W & Hnd & HW & Hgt)]; [exact Hc|]. exfalso.
      pose proof (reachers_total pr t W (ctx_wf cand ceqb p pr prev Hctx) Hnd (fun w Hw => proj1 (HW w) Hw)) as Hb.
      assert (H2 : (2 <= Z.of_nat (length W))%Z) by lia.
      assert (H2q : 2 <= Qnat (length W)).
      { unfold Qnat. change 2 with (inject_Z 2). rewrite <- Zle_Qle. exact H2. }
      pose proof (inv_t_nonneg _ _ _ _ _ _ _ _ Hinv) as Ht0.
      assert (t * 2 <= t * Qnat (length W)).
      { rewrite !(Qmult_comm t). apply Qmult_le_compat_r; assumption. }
      lra.
    + eapply Qle_trans; [|exact Hw].
      apply (round_monotone cand ceqb ceqb_spec cfg t p pr prev _ s1 s' np st Hctx Hstep
               (inv_t_nonneg _ _ _ _ _ _ _ _ Hinv)).
      intros E. split; [apply Hscr1; exact E|apply (inv_t_int _ _ _ _ _ _ _ _ Hinv)].
  - exact H.
  - discriminate.
  - discriminate.
  - pose proof (step_failure cand ceqb ceqb_spec cfg t' _ p pr prev older s1 EIndex Hinv Hscr1 Hstep) as Hf.
    apply round_failure_index in Hf. destruct Hf as (_ & _ & Hgt). lia.
Qed.

End WithCand.
