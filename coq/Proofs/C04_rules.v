(* Proofs/C04_rules.v — C04 at the level of [run_rule]: Plurality / SNTV and Borda (and every
   one-shot rule) elect m candidates none of whom has a lower score than a non-elected one, in
   descending score order with ties grouped; the round-0 scores are the first-place / positional
   scores of the profile; a first_place / borda tiebreak orders the split group by that score. *)
From VK Require Import Base Core STV Pairwise Rules PV Election.
From VK.Spec Require Import ScoreSpec EditSpec RatingSpec TopMSpec Anon TieSpec RunSpec OneShotSpec.
From VK.Proofs Require Import Lib_sets C04_scoring Elect C11_profile C12_edit C20_validation C05_rating
  C10_script C10_quiet C10_tiebreak.
From Coq Require Import Permutation Lia Lqa.

Section C04Rules.
Variable cand : Type.
Variable ceqb : cand -> cand -> bool.
Hypothesis ceqb_spec : forall a b, reflect (a = b) (ceqb a b).

Notation cset := (cset cand).
Notation ranking := (ranking cand).
Notation ballot := (ballot cand).
Notation profile := (profile cand).
Notation scores := (scores cand).
Notation estate := (estate cand).
Notation mstate := (mstate cand).
Notation flat := (flat cand).
Notation singletons := (singletons cand).
Notation memb := (memb cand ceqb).
Notation wf_profile := (wf_profile cand).
Notation first_place_votes := (first_place_votes cand ceqb).
Notation borda_scores := (borda_scores cand ceqb).
Notation score_rankings := (score_rankings cand ceqb).
Notation score_to_ranking := (score_to_ranking cand).
Notation remove_cand_prof := (remove_cand_prof cand ceqb).
Notation tiebreak_set := (tiebreak_set cand ceqb).
Notation score_fn := (score_fn cand ceqb).
Notation run_one_shot := (run_one_shot cand ceqb).
Notation run_rule := (run_rule cand ceqb).
Notation run_wrule := (run_wrule cand ceqb).
Notation one_shot_params := (one_shot_params cand).
Notation top_m_facts := (top_m_facts cand).
Notation top_m_by := (top_m_by cand).
Notation fpv_score := (fpv_score cand ceqb).
Notation positional_score := (positional_score cand ceqb).
Notation no_group := (no_group cand).
Notation big := (big cand).
Notation rebuild := (rebuild cand).

(* ------------------------------------------------------------------ *)
(** * from facts about a score list to facts about a scoring function *)

Definition tbl (t : option (cset * ranking)) : list (cset * ranking) :=
  match t with Some x => [x] | None => [] end.

Lemma tbl_some : forall (t : option (cset * ranking)) g t0, t = Some (g, t0) <-> tbl t = [(g, t0)].
Proof. intros [[g' t']|] g t0; split; intros E; inversion E; reflexivity. Qed.

Lemma top_m_by_intro : forall (f : cand -> Q) (d : scores) (cs : cset) m el rem t,
  map fst d = cs -> (forall c q, In (c, q) d -> q == f c) ->
  top_m_facts d m el rem t ->
  top_m_by f cs m (score_to_ranking d true) el rem (tbl t).
Proof.
  intros f d cs m el rem t Hkeys Hf [F1 [F2 [F3 [F4 [F5 [F6 [F7 F8]]]]]]].
  assert (Hin_d : forall c, In c cs -> exists q, In (c, q) d /\ q == f c).
  { intros c Hc. rewrite <- Hkeys in Hc. apply in_map_iff in Hc. destruct Hc as [[c' q] [E Hin]].
    cbn [fst] in E. subst c'. exists q. split; [exact Hin|apply Hf; exact Hin]. }
  assert (Hcands : forall c, In c (flat el ++ flat rem) -> In c cs).
  { intros c Hc. rewrite <- Hkeys. eapply Permutation_in; eassumption. }
  assert (Hgrp : forall g c, In g (el ++ rem) -> In c g -> In c cs).
  { intros g c Hg Hc. apply Hcands. rewrite <- (flat_app cand). apply in_concat_iff.
    exists g. split; assumption. }
  split; [exact F1|]. split; [rewrite <- Hkeys; exact F2|].
  split; [|split; [|split; [|split; [|split]]]].
  - intros c1 c2 H1 H2.
    destruct (Hin_d c1 (Hcands c1 (in_or_app _ _ _ (or_introl H1)))) as [q1 [I1 E1]].
    destruct (Hin_d c2 (Hcands c2 (in_or_app _ _ _ (or_intror H2)))) as [q2 [I2 E2]].
    rewrite <- E1, <- E2. exact (F3 c1 c2 q1 q2 H1 H2 I1 I2).
  - intros pre g1 mid g2 post c1 c2 Heq Hc1 Hc2.
    assert (Hg1 : In g1 (el ++ rem)) by (rewrite Heq; apply in_or_app; right; left; reflexivity).
    assert (Hg2 : In g2 (el ++ rem)).
    { rewrite Heq. apply in_or_app. right. right. apply in_or_app. right. left. reflexivity. }
    destruct (Hin_d c1 (Hgrp g1 c1 Hg1 Hc1)) as [q1 [I1 E1]].
    destruct (Hin_d c2 (Hgrp g2 c2 Hg2 Hc2)) as [q2 [I2 E2]].
    destruct (F4 pre g1 mid g2 post c1 c2 q1 q2 Heq Hc1 Hc2 I1 I2) as [Hlt|[Heq' [g [t0 [Ht [Ha Hb]]]]]].
    + left. rewrite <- E1, <- E2. exact Hlt.
    + right. split; [rewrite <- E1, <- E2; exact Heq'|]. exists g, t0.
      split; [apply tbl_some; exact Ht|]. split; assumption.
  - intros g c1 c2 Hg Hc1 Hc2.
    destruct (Hin_d c1 (Hgrp g c1 Hg Hc1)) as [q1 [I1 E1]].
    destruct (Hin_d c2 (Hgrp g c2 Hg Hc2)) as [q2 [I2 E2]].
    rewrite <- E1, <- E2. exact (F5 g c1 c2 q1 q2 Hg Hc1 Hc2 I1 I2).
  - intros c1 c2 Hc1 Hc2 Heq.
    destruct (Hin_d c1 Hc1) as [q1 [I1 E1]]. destruct (Hin_d c2 Hc2) as [q2 [I2 E2]].
    assert (Hq : q1 == q2) by (rewrite E1, E2; exact Heq).
    destruct (F6 c1 c2 q1 q2 I1 I2 Hq) as [Hl|[g [t0 [Ht [Ha Hb]]]]].
    + left. exact Hl.
    + right. exists g, t0. split; [apply tbl_some; exact Ht|]. split; assumption.
  - intros Ht. apply F7. destruct t; [discriminate|reflexivity].
  - intros g t0 Hin. destruct t as [[g' t']|]; [|destruct Hin].
    destruct Hin as [Heq|[]]. inversion Heq; subst g' t'. split; [reflexivity|].
    apply F8. reflexivity.
Qed.

(* ------------------------------------------------------------------ *)
(** * every one-shot rule, in terms of its round-0 score list *)

Theorem one_shot_rule_top_m : forall r (p : profile) k m tb (s : mstate) sts s',
  one_shot_params r p = Some (k, m, tb) -> NoDup (cands p) ->
  run_rule r p s = inl (sts, s') ->
  exists d s0 s1, sts = [s0; s1] /\
    score_fn k p = inl d /\ map fst d = cands p /\
    rnd s0 = 0%Z /\ elected s0 = [[]] /\ eliminated s0 = [[]] /\ tiebreaks s0 = [] /\
    escores s0 = d /\ remaining s0 = score_to_ranking d true /\
    rnd s1 = 1%Z /\ eliminated s1 = [[]] /\
    (1 <= m <= Z.of_nat (length (cands p)))%Z /\
    (exists tbi, tiebreaks s1 = match tbi with Some x => [x] | None => [] end /\
                 top_m_facts d m (elected s1) (remaining s1) tbi) /\
    (exists np, remove_cand_prof (flat (elected s1)) true false p = inl np /\
                score_fn k np = inl (escores s1)).
Proof.
  intros r p k m tb s sts s' Hp Hnd H.
  apply (one_shot_rule_run cand ceqb r p k m tb s s' sts Hp) in H.
  destruct (one_shot_spec cand ceqb ceqb_spec _ _ _ _ _ _ _ Hnd H)
    as [d [el [rem [t [np [d1 [Hd [Hkeys [Hne [Hel [Hnp [Hd1 [Hsts [Hrange Hfacts]]]]]]]]]]]]]].
  exists d. eexists. eexists. split; [exact Hsts|].
  cbn [rnd elected eliminated tiebreaks escores remaining state_of_scores].
  split; [exact Hd|]. split; [exact Hkeys|].
  repeat (split; [reflexivity|]). split; [exact Hrange|]. split.
  - exists t. split; [reflexivity|exact Hfacts].
  - exists np. split; assumption.
Qed.

(* ------------------------------------------------------------------ *)
(** * Plurality / SNTV *)

Lemma run_plurality_ok_inv : forall m tb (p : profile) s x,
  run_rule (RPlurality m tb) p s = inl x -> run_one_shot SKFpv m tb p s = inl x.
Proof.
  intros m tb p s [sts s'] H. cbn [Rules.run_rule] in H.
  apply (run_plurality_inv cand ceqb) in H. destruct H as [_ H]. exact H.
Qed.

Definition two_rounds (p : profile) (f : cand -> Q) (m : Z) (s0 s1 : estate) : Prop :=
  map fst (escores s0) = cands p /\
  (forall c q, In (c, q) (escores s0) -> q == f c) /\
  rnd s0 = 0%Z /\ elected s0 = [[]] /\ eliminated s0 = [[]] /\ tiebreaks s0 = [] /\
  remaining s0 = score_to_ranking (escores s0) true /\
  rnd s1 = 1%Z /\ eliminated s1 = [[]] /\
  (1 <= m <= Z.of_nat (length (cands p)))%Z /\
  top_m_by f (cands p) m (remaining s0) (elected s1) (remaining s1) (tiebreaks s1).

Lemma one_shot_two_rounds : forall k m tb (p : profile) (f : cand -> Q) s sts s',
  NoDup (cands p) ->
  (forall d, score_fn k p = inl d -> forall c q, In (c, q) d -> q == f c) ->
  run_one_shot k m tb p s = inl (sts, s') ->
  exists s0 s1 np, sts = [s0; s1] /\ score_fn k p = inl (escores s0) /\ two_rounds p f m s0 s1 /\
    remove_cand_prof (flat (elected s1)) true false p = inl np /\
    score_fn k np = inl (escores s1).
Proof.
  intros k m tb p f s sts s' Hnd Hf H.
  destruct (one_shot_spec cand ceqb ceqb_spec _ _ _ _ _ _ _ Hnd H)
    as [d [el [rem [t [np [d1 [Hd [Hkeys [Hne [Hel [Hnp [Hd1 [Hsts [Hrange Hfacts]]]]]]]]]]]]]].
  eexists. eexists. exists np. split; [exact Hsts|].
  cbn [rnd elected eliminated tiebreaks escores remaining state_of_scores].
  split; [exact Hd|]. split; [|split; assumption].
  unfold two_rounds. cbn [rnd elected eliminated tiebreaks escores remaining state_of_scores].
  split; [exact Hkeys|]. split; [exact (Hf d Hd)|].
  repeat (split; [reflexivity|]). split; [exact Hrange|].
  apply (top_m_by_intro f d (cands p) m el rem t Hkeys (Hf d Hd) Hfacts).
Qed.

Theorem plurality_top_m : forall m tb (p : profile) s sts s',
  wf_profile p -> run_rule (RPlurality m tb) p s = inl (sts, s') ->
  exists s0 s1, sts = [s0; s1] /\
    first_place_votes p = inl (escores s0) /\
    map fst (escores s0) = cands p /\
    (forall c q, In (c, q) (escores s0) -> q == fpv_score p c) /\
    rnd s0 = 0%Z /\ elected s0 = [[]] /\ eliminated s0 = [[]] /\ tiebreaks s0 = [] /\
    remaining s0 = score_to_ranking (escores s0) true /\
    rnd s1 = 1%Z /\ eliminated s1 = [[]] /\
    (1 <= m <= Z.of_nat (length (cands p)))%Z /\
    top_m_by (fpv_score p) (cands p) m (remaining s0) (elected s1) (remaining s1) (tiebreaks s1) /\
    (exists np, remove_cand_prof (flat (elected s1)) true false p = inl np /\
                first_place_votes np = inl (escores s1)).
Proof.
  intros m tb p s sts s' Hwf H. apply run_plurality_ok_inv in H.
  destruct (one_shot_two_rounds SKFpv m tb p (fpv_score p) s sts s' (proj1 Hwf)) as
    [s0 [s1 [np [Hsts [Hd [[T1 [T2 [T3 [T4 [T5 [T6 [T7 [T8 [T9 [T10 T11]]]]]]]]]] [Hnp Hd1]]]]]]].
  - intros d Hd c q Hin. cbn [Rules.score_fn] in Hd.
    destruct (c04_fpv_special_proof cand ceqb ceqb_spec p d Hwf Hd) as [_ [_ Hq]].
    exact (Hq c q Hin).
  - exact H.
  - exists s0, s1. split; [exact Hsts|]. split; [exact Hd|].
    repeat (split; [assumption|]). exists np. split; assumption.
Qed.

Lemma sntv_is_plurality : forall m tb (p : profile),
  run_wrule (WSNTV m tb) p = run_rule (RPlurality m tb) p /\
  expand (WSNTV m tb) = Some (RPlurality m tb).
Proof. intros m tb p. split; reflexivity. Qed.

(* ------------------------------------------------------------------ *)
(** * Borda *)

Lemma run_borda_ok_inv : forall m v tb (p : profile) s x,
  run_rule (RBorda m v tb) p s = inl x ->
  validate_vector (borda_vec cand v p) = inl tt /\
  run_one_shot (SKVector (borda_vec cand v p)) m tb p s = inl x.
Proof.
  intros m v tb p s [sts s'] H. rewrite (run_borda_prologue cand ceqb) in H.
  destruct (validate_vector (borda_vec cand v p)) as [[]|e] eqn:Hv; [|discriminate].
  destruct (ranking_validate cand p) as [[]|e] eqn:Hr; [|discriminate].
  split; [reflexivity|exact H].
Qed.

Theorem borda_top_m : forall m v tb (p : profile) s sts s',
  wf_profile p -> run_rule (RBorda m v tb) p s = inl (sts, s') ->
  let vec := match v with Some (x :: l) => x :: l | _ => default_borda cand p end in
  exists s0 s1, sts = [s0; s1] /\
    valid_vector vec /\
    score_rankings p vec = inl (escores s0) /\
    map fst (escores s0) = cands p /\
    (forall c q, In (c, q) (escores s0) -> q == positional_score p vec c) /\
    rnd s0 = 0%Z /\ elected s0 = [[]] /\ eliminated s0 = [[]] /\ tiebreaks s0 = [] /\
    remaining s0 = score_to_ranking (escores s0) true /\
    rnd s1 = 1%Z /\ eliminated s1 = [[]] /\
    (1 <= m <= Z.of_nat (length (cands p)))%Z /\
    top_m_by (positional_score p vec) (cands p) m (remaining s0) (elected s1) (remaining s1)
             (tiebreaks s1) /\
    (exists np, remove_cand_prof (flat (elected s1)) true false p = inl np /\
                score_rankings np vec = inl (escores s1)).
Proof.
  intros m v tb p s sts s' Hwf H vec. apply run_borda_ok_inv in H. destruct H as [Hv H].
  change (borda_vec cand v p) with vec in Hv, H.
  destruct (one_shot_two_rounds (SKVector vec) m tb p (positional_score p vec) s sts s' (proj1 Hwf)) as
    [s0 [s1 [np [Hsts [Hd [[T1 [T2 [T3 [T4 [T5 [T6 [T7 [T8 [T9 [T10 T11]]]]]]]]]] [Hnp Hd1]]]]]]].
  - intros d Hd c q Hin. cbn [Rules.score_fn] in Hd.
    destruct (c04_definition_proof cand ceqb ceqb_spec p vec d Hwf Hd) as [_ Hq].
    exact (Hq c q Hin).
  - exact H.
  - exists s0, s1. split; [exact Hsts|].
    split; [apply (validate_vector_iff vec); exact Hv|]. split; [exact Hd|].
    repeat (split; [assumption|]). exists np. split; assumption.
Qed.

(* ------------------------------------------------------------------ *)
(** * the order inside the split group under a first_place / borda tiebreak *)

Definition tb_scores (kind : tb_kind) (p : profile) : res scores :=
  match kind with TBBorda => borda_scores p | _ => first_place_votes p end.

Theorem one_shot_scored_tiebreak : forall r (p : profile) k m kind (s s' : mstate) s0 s1 g t,
  NoDup (cands p) -> one_shot_params r p = Some (k, m, Some kind) ->
  kind = TBFirstPlace \/ kind = TBBorda ->
  run_rule r p s = inl ([s0; s1], s') -> In (g, t) (tiebreaks s1) ->
  exists dtb l,
    match kind with TBBorda => borda_scores p | _ => first_place_votes p end = inl dtb /\
    In g (remaining s0) /\ t = singletons l /\ Permutation l g /\ NoDup l /\
    (* a strictly higher tiebreak score comes first *)
    (forall pre a mid b post qa qb, l = pre ++ a :: mid ++ b :: post ->
       In (a, qa) dtb -> In (b, qb) dtb -> qb <= qa) /\
    (* draws only inside the sub-groups still tied on the tiebreak score *)
    let r2 := score_to_ranking (filter (fun q => memb (fst q) g) dtb) true in
    exists ls : list (list cand),
      scr s = map DPerm ls ++ scr s' /\
      lg s' = rev (map CSample (filter big r2)) ++ lg s /\
      Forall2 (fun l0 sg => Permutation l0 sg /\ NoDup l0) ls (filter big r2) /\
      t = rebuild r2 ls.
Proof.
  intros r p k m kind s s' s0 s1 g t Hnd Hp Hkind H Hin.
  destruct (c10_one_shot_rule_proof cand ceqb ceqb_spec _ _ _ _ _ _ _ _ Hnd Hp H) as [s0' [s1' [Heq [_ Hall]]]].
  inversion Heq; subst s0' s1'.
  destruct (Hall g t Hin)
    as [pre [post [kind' [j [l [Hk [_ [Hts [Hr0 [_ [_ [_ [_ [Ht [Hpl [Hndl _]]]]]]]]]]]]]]]].
  inversion Hk; subst kind'.
  pose proof (tiebreak_set_inv cand ceqb ceqb_spec _ _ _ _ _ _ Hts) as Hinv.
  assert (Hd : exists dtb, match kind with TBBorda => borda_scores p | _ => first_place_votes p end = inl dtb /\
             ((kind = TBFirstPlace /\ first_place_votes p = inl dtb) \/
              (kind = TBBorda /\ borda_scores p = inl dtb))).
  { destruct Hkind as [-> | ->]; destruct Hinv as [pr [d [Hpr [Hsc _]]]]; inversion Hpr; subst pr;
      exists d; (split; [exact Hsc|]); [left|right]; split; [reflexivity|exact Hsc|reflexivity|exact Hsc]. }
  destruct Hd as [dtb [Hd1 Hd2]]. exists dtb, l. split; [exact Hd1|].
  split; [rewrite Hr0; apply in_or_app; right; left; reflexivity|].
  split; [exact Ht|]. split; [exact Hpl|]. split; [exact Hndl|]. split.
  - intros pre0 a mid b post0 qa qb Hl Ha Hb.
    exact (tiebreak_set_order cand ceqb ceqb_spec g p kind s s' t dtb Hd2 Hnd Hts l pre0 a mid b post0 qa qb Ht Hl Ha Hb).
  - exact (c10_scored_trace_proof cand ceqb ceqb_spec g p kind dtb s s' t Hd2 Hts).
Qed.

End C04Rules.
