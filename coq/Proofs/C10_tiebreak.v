(* Proofs/C10_tiebreak.v — C10, parts 3 and 4: every recorded tiebreak concerns a whole group of
   the deciding ranking (members tied on the deciding tally), of size >= 2, cut by the seat
   boundary / the elimination end; its resolution is a strict order of exactly that set which
   the round's elected / eliminated / remaining groups obey; scored tiebreaks order by the score
   of the tiebreak profile and draw only inside the sub-groups still tied on it. *)
From VK Require Import Base Core STV Pairwise Rules.
From VK.Spec Require Import ScoreSpec TieSpec.
From VK.Proofs Require Import Lib_sets C04_scoring Elect C10_script C10_quiet.
From Coq Require Import Permutation Lia Sorting.Sorted.

Section Tiebreak.
Variable cand : Type.
Variable ceqb : cand -> cand -> bool.
Hypothesis ceqb_spec : forall a b, reflect (a = b) (ceqb a b).

Notation cset := (cset cand).
Notation ranking := (ranking cand).
Notation profile := (profile cand).
Notation scores := (scores cand).
Notation mstate := (mstate cand).
Notation estate := (estate cand).
Notation M := (M cand).
Notation flat := (flat cand).
Notation singletons := (singletons cand).
Notation score_to_ranking := (score_to_ranking cand).
Notation tied_at := (tied_at cand).
Notation tied_on := (tied_on cand).
Notation tb_profile_ok := (tb_profile_ok cand).

(* ------------------------------------------------------------------ *)
(** * groups of a score ranking are tied on the score *)

Lemma group_tied_at : forall (d : scores) g, d <> [] -> In g (score_to_ranking d true) ->
  exists k, In k (map snd d) /\ tied_at d g k.
Proof.
  intros d g Hd Hg. destruct (score_to_ranking_group_inv cand d g Hd Hg) as [k [Hk ->]].
  exists k. split; [exact Hk|]. intros c Hc. apply in_map_iff in Hc.
  destruct Hc as [[c' q] [Hcc Hin]]. cbn [fst] in Hcc. subst c'. unfold class_of in Hin.
  apply filter_In in Hin. destruct Hin as [Hin Hq]. cbn [snd] in Hq. exists q. split; [exact Hin|].
  apply Qeq_bool_iff. exact Hq.
Qed.

(* the first group carries the largest score *)
Lemma top_group_max : forall (d : scores) g post, d <> [] -> score_to_ranking d true = g :: post ->
  exists k, tied_at d g k /\ forall c q, In (c, q) d -> q <= k.
Proof.
  intros d g post Hd Hr. rewrite score_to_ranking_unfold in Hr by exact Hd.
  pose proof (distinct_desc_sorted (map snd d)) as Hs.
  destruct (distinct_desc (map snd d)) as [|k keys] eqn:Hkeys; [discriminate|].
  cbn [map] in Hr. inversion Hr as [[Hg Hpost]]. exists k. split.
  - intros c Hc. apply in_map_iff in Hc.
    destruct Hc as [[c' q] [Hcc Hin]]. cbn [fst] in Hcc. subst c'. unfold class_of in Hin.
    apply filter_In in Hin. destruct Hin as [Hin Hq]. cbn [snd] in Hq. exists q. split; [exact Hin|].
    apply Qeq_bool_iff. exact Hq.
  - intros c q Hin.
    destruct (distinct_desc_covers (map snd d) q (in_map snd d (c, q) Hin)) as [y [Hy Hqy]].
    rewrite Hkeys in Hy. rewrite Hqy. destruct Hy as [<-|Hy]; [apply Qle_refl|].
    apply Qlt_le_weak. unfold sdesc in Hs. apply StronglySorted_inv in Hs. destruct Hs as [_ Hall].
    rewrite Forall_forall in Hall. apply Hall. exact Hy.
Qed.

Lemma score_fn_keys : forall k (p : profile) d, score_fn cand ceqb k p = inl d -> map fst d = cands p.
Proof.
  intros k p d H. destruct k; cbn [Rules.score_fn] in H.
  - unfold Core.first_place_votes in H. eapply score_rankings_keys. exact H.
  - unfold Core.borda_scores in H. eapply score_rankings_keys. exact H.
  - eapply score_rankings_keys. exact H.
  - unfold Core.score_from_scores in H.
    destruct (existsb _ (ballots p)); [discriminate|]. destruct (negb _); [discriminate|].
    unfold ok in H. inversion H. rewrite map_map. cbn [fst]. apply map_id.
Qed.

Lemma round0_inv : forall k (p : profile) s0, round0 cand ceqb k p = inl s0 ->
  exists d, score_fn cand ceqb k p = inl d /\
    s0 = state_of_scores cand 0 (no_group cand) (no_group cand) [] d.
Proof.
  intros k p s0 H. unfold Rules.round0 in H. destruct (score_fn cand ceqb k p) as [d|e]; [|discriminate].
  cbn [rbind] in H. unfold ok in H. inversion H. exists d. split; reflexivity.
Qed.

(* ------------------------------------------------------------------ *)
(** * a recorded tiebreak of the top-m selection *)

Lemma elect_recorded : forall r m p tb (s s' : mstate) el rem g t,
  elect_top_m cand ceqb r m p tb s = inl ((el, rem, Some (g, t)), s') ->
  exists pre post kind j,
    tb = Some kind /\ tiebreak_set cand ceqb g p kind s = inl (t, s') /\
    r = pre ++ g :: post /\ (2 <= length g)%nat /\
    (Z.of_nat (length (flat pre)) < m < Z.of_nat (length (flat pre) + length g))%Z /\
    j = (Z.to_nat m - length (flat pre))%nat /\ (0 < j < length g)%nat /\
    el = pre ++ firstn j t /\ rem = skipn j t ++ post.
Proof.
  intros r m p tb s s' el rem g t H.
  destruct (elect_top_m_shape cand ceqb _ _ _ _ _ _ _ _ _ H) as [_ [Hq|Hn]].
  - destruct Hq as [Hnone _]. discriminate.
  - destruct Hn as [pre [g0 [post [t0 [kind [k [Htb [Hr [Hk [Hk0 [Hkg [Ht [Hel [Hrem Hsome]]]]]]]]]]]]]].
    inversion Hsome; subst g0 t0.
    assert (Hj : k = (Z.to_nat m - length (flat pre))%nat) by lia.
    exists pre, post, kind, k. repeat split; try assumption; try lia.
Qed.

Lemma tb_list_in : forall (tbi : option (cset * ranking)) g t,
  In (g, t) (tb_list cand tbi) -> tbi = Some (g, t).
Proof. intros [x|] g t H; [|destruct H]. destruct H as [->|[]]. reflexivity. Qed.

(* ------------------------------------------------------------------ *)
(** * one-shot rules (Plurality/SNTV, Borda, the rating family) *)

Theorem c10_one_shot_proof : forall k m tb (p : profile) (s s' : mstate) s0 s1 g t,
  NoDup (cands p) ->
  run_one_shot cand ceqb k m tb p s = inl ([s0; s1], s') ->
  In (g, t) (tiebreaks s1) ->
  exists pre post kind j l,
    tb = Some kind /\ tiebreaks s1 = [(g, t)] /\
    tiebreak_set cand ceqb g (Some p) kind s = inl (t, s') /\
    (* genuine: a whole group of the round-0 ranking, tied on the round-0 scores *)
    remaining s0 = pre ++ g :: post /\ tied_on (escores s0) g /\ (2 <= length g)%nat /\
    (* the seat boundary falls strictly inside it *)
    (Z.of_nat (length (flat pre)) < m < Z.of_nat (length (flat pre) + length g))%Z /\
    j = (Z.to_nat m - length (flat pre))%nat /\
    (* the resolution is a strict order of exactly that set *)
    t = singletons l /\ Permutation l g /\ NoDup l /\
    (* obeyed by the elected and remaining groups *)
    elected s1 = pre ++ firstn j t /\ remaining s1 = skipn j t ++ post.
Proof.
  intros k m tb p s s' s0 s1 g t Hnd H Hin.
  apply run_one_shot_inv in H. destruct H as [s0' [np [s1' [H0 [H1 Heq]]]]].
  inversion Heq; subst s0' s1'. clear Heq.
  apply round0_inv in H0. destruct H0 as [d [Hd ->]].
  apply one_shot_step_inv in H1. destruct H1 as [el [rem [tbi [d1 [He [_ [_ ->]]]]]]].
  cbn [tiebreaks] in Hin. apply tb_list_in in Hin. subst tbi.
  cbn [STV.state_of_scores remaining escores elected tiebreaks tb_list] in *.
  destruct (elect_recorded _ _ _ _ _ _ _ _ _ _ He)
    as [pre [post [kind [j [Htb [Ht [Hr [Hg2 [Hm [Hj [Hjg [Hel Hrem]]]]]]]]]]]].
  pose proof (score_fn_keys _ _ _ Hd) as Hkeys.
  assert (Hgin : In g (score_to_ranking d true)).
  { rewrite Hr. apply in_or_app. right. left. reflexivity. }
  assert (Hdne : d <> []).
  { intros ->. cbn in Hgin. destruct Hgin as [<-|[]]. cbn [length] in Hg2. lia. }
  assert (Hndk : NoDup (map fst d)) by (rewrite Hkeys; exact Hnd).
  assert (Hndr : NoDup (flat (score_to_ranking d true))) by (apply score_to_ranking_NoDup; assumption).
  assert (Hgsub : incl g (cands p)).
  { intros c Hc. rewrite <- Hkeys. eapply Permutation_in; [apply score_to_ranking_flat_perm; exact Hdne|].
    unfold Core.flat. apply in_concat_iff. exists g. split; assumption. }
  assert (Hndg : NoDup g).
  { rewrite Hr, flat_app, flat_cons in Hndr. apply NoDup_app_inv in Hndr. destruct Hndr as [_ [Hndr _]].
    apply NoDup_app_inv in Hndr. destruct Hndr as [Hndr _]. exact Hndr. }
  assert (Hlin : exists l, t = singletons l /\ Permutation l g).
  { apply (tiebreak_set_linear cand ceqb ceqb_spec g (Some p) kind s s' t Hndg).
    - destruct g; [cbn [length] in Hg2; lia|discriminate].
    - destruct kind; cbn [ScoreSpec.tb_profile_ok]; try exact I;
        intros pr Hpr; inversion Hpr; subst pr; split; assumption.
    - exact Ht. }
  destruct Hlin as [l [Htl Hpl]].
  exists pre, post, kind, j, l. split; [exact Htb|]. split; [reflexivity|]. split; [exact Ht|].
  split; [exact Hr|]. split.
  { destruct (group_tied_at d g Hdne Hgin) as [k0 [_ Hk0]]. exists k0. exact Hk0. }
  split; [exact Hg2|]. split; [exact Hm|]. split; [exact Hj|]. split; [exact Htl|].
  split; [exact Hpl|]. split; [eapply Permutation_NoDup; [apply Permutation_sym; exact Hpl|exact Hndg]|].
  split; assumption.
Qed.

(* ------------------------------------------------------------------ *)
(** * CondoBorda: the ranking is the list of dominating tiers, the tiebreak is Borda *)

Theorem c10_condo_proof : forall m (p : profile) (s s' : mstate) s0 s1 g t,
  run_condo cand ceqb m p s = inl ([s0; s1], s') ->
  In (g, t) (tiebreaks s1) ->
  exists tiers pre post j,
    dominating_tiers cand ceqb p = inl tiers /\ tiebreaks s1 = [(g, t)] /\
    tiebreak_set cand ceqb g (Some p) TBBorda s = inl (t, s') /\
    tiers = pre ++ g :: post /\ (2 <= length g)%nat /\
    (Z.of_nat (length (flat pre)) < m < Z.of_nat (length (flat pre) + length g))%Z /\
    j = (Z.to_nat m - length (flat pre))%nat /\
    elected s1 = pre ++ firstn j t /\ remaining s1 = skipn j t ++ post /\
    (NoDup (cands p) -> NoDup g -> incl g (cands p) ->
     exists l, t = singletons l /\ Permutation l g /\ NoDup l).
Proof.
  intros m p s s' s0 s1 g t H Hin.
  apply run_condo_inv in H. destruct H as [s0' [np [s1' [_ [_ [H1 Heq]]]]]].
  inversion Heq; subst s0' s1'. clear Heq.
  apply condo_step_inv in H1. destruct H1 as [tiers [el [rem [tbi [d1 [Htiers [He [_ [_ ->]]]]]]]]].
  cbn [tiebreaks] in Hin. apply tb_list_in in Hin. subst tbi.
  cbn [remaining elected tiebreaks tb_list] in *.
  destruct (elect_recorded _ _ _ _ _ _ _ _ _ _ He)
    as [pre [post [kind [j [Htb [Ht [Hr [Hg2 [Hm [Hj [Hjg [Hel Hrem]]]]]]]]]]]].
  inversion Htb; subst kind.
  exists tiers, pre, post, j. repeat split; try assumption; try lia.
  intros Hnd Hndg Hsub.
  destruct (tiebreak_set_linear cand ceqb ceqb_spec g (Some p) TBBorda s s' t Hndg) as [l [Htl Hpl]].
  - destruct g; [cbn [length] in Hg2; lia|discriminate].
  - cbn [ScoreSpec.tb_profile_ok]. intros pr Hpr. inversion Hpr; subst pr. split; assumption.
  - exact Ht.
  - exists l. split; [exact Htl|]. split; [exact Hpl|].
    eapply Permutation_NoDup; [apply Permutation_sym; exact Hpl|exact Hndg].
Qed.

(* ------------------------------------------------------------------ *)
(** * STV (fractional or full-weight transfer): one round *)

(* the last group carries the smallest score *)
Lemma bottom_group_min : forall (d : scores) g rest, d <> [] ->
  rev (score_to_ranking d true) = g :: rest ->
  exists k, tied_at d g k /\ forall c q, In (c, q) d -> k <= q.
Proof.
  intros d g rest Hd Hr. rewrite score_to_ranking_unfold in Hr by exact Hd.
  pose proof (distinct_desc_sorted (map snd d)) as Hs. rewrite <- map_rev in Hr.
  destruct (rev (distinct_desc (map snd d))) as [|k keys] eqn:Hkeys; [discriminate|].
  cbn [map] in Hr. inversion Hr as [[Hg Hrest]]. exists k. split.
  - intros c Hc. apply in_map_iff in Hc.
    destruct Hc as [[c' q] [Hcc Hin]]. cbn [fst] in Hcc. subst c'. unfold class_of in Hin.
    apply filter_In in Hin. destruct Hin as [Hin Hq]. cbn [snd] in Hq. exists q. split; [exact Hin|].
    apply Qeq_bool_iff. exact Hq.
  - intros c q Hin.
    destruct (distinct_desc_covers (map snd d) q (in_map snd d (c, q) Hin)) as [y [Hy Hqy]].
    rewrite Hqy. apply (f_equal (@rev Q)) in Hkeys. rewrite rev_involutive in Hkeys. cbn [rev] in Hkeys.
    rewrite Hkeys in Hy, Hs. apply in_app_or in Hy. destruct Hy as [Hy|[<-|[]]]; [|apply Qle_refl].
    apply Qlt_le_weak. unfold sdesc in Hs. apply SS_app_iff in Hs. destruct Hs as [_ [_ Hcross]].
    apply Hcross; [exact Hy|left; reflexivity].
Qed.

Lemma flat_nil_nonempty_groups : forall pre : ranking,
  Forall (fun g => g <> []) pre -> length (flat pre) = 0%nat -> pre = [].
Proof.
  intros [|g pre] Hne Hlen; [reflexivity|]. apply Forall_cons_inv in Hne. destruct Hne as [Hg _].
  rewrite flat_cons, app_length in Hlen. destruct g; [contradiction|]. cbn [length] in Hlen. lia.
Qed.

Theorem c10_stv_step_proof : forall cfg t p0 n (p : profile) prev (s s' : mstate) np st g tt,
  s_transfer cfg <> TRandom ->
  remaining prev = score_to_ranking (escores prev) true ->
  map fst (escores prev) = cands p -> NoDup (cands p) ->
  stv_step cand ceqb cfg t p0 n p prev s = inl ((np, st), s') ->
  In (g, tt) (tiebreaks st) ->
  tiebreaks st = [(g, tt)] /\ (2 <= length g)%nat /\
  ((* tie for the single seat of a one-by-one election: g is the top group, whose tally reaches
      the threshold; the first of the recorded order is elected *)
   (exists post kind k,
      s_simul cfg = false /\ s_tiebreak cfg = Some kind /\ remaining prev = g :: post /\
      tied_at (escores prev) g k /\ t <= k /\ (forall c q, In (c, q) (escores prev) -> q <= k) /\
      tiebreak_set cand ceqb g (Some p) kind s = inl (tt, s') /\
      elected st = firstn 1 tt /\ eliminated st = no_group cand /\
      exists l, tt = singletons l /\ Permutation l g /\ NoDup l)
   \/
   (* tie for elimination: g is the last group, nobody reaches the threshold; the last of the
      recorded order (by first-place votes of the initial profile) is eliminated *)
   (exists rest x k,
      above_quota cand t prev = [] /\ rev (remaining prev) = g :: rest /\
      tied_at (escores prev) g k /\ (forall c q, In (c, q) (escores prev) -> k <= q) /\
      tiebreak_set cand ceqb g (Some p0) TBFirstPlace s = inl (tt, s') /\
      (exists g' rest', rev tt = (x :: g') :: rest') /\
      eliminated st = [[x]] /\ elected st = no_group cand /\
      (NoDup (cands p0) -> incl g (cands p0) ->
       exists l l', tt = singletons l /\ Permutation l g /\ NoDup l /\ l = l' ++ [x]))).
Proof.
  intros cfg t p0 n p prev s s' np st g tt Hk Hrem Hkeys Hnd H Hin.
  destruct (stv_step_inv cand ceqb _ _ _ _ _ _ _ _ _ _ Hk H) as [el [elim [tbs [d [_ [-> Hc]]]]]].
  cbn [STV.state_of_scores tiebreaks elected eliminated] in *.
  set (d0 := escores prev) in *.
  assert (Hgroups : forall g0, In g0 (remaining prev) -> (2 <= length g0)%nat ->
            d0 <> [] /\ NoDup g0 /\ incl g0 (cands p)).
  { intros g0 Hg0 Hlen. rewrite Hrem in Hg0.
    assert (Hdne : d0 <> []).
    { intros Hd0. rewrite Hd0 in Hg0. cbn in Hg0. destruct Hg0 as [<-|[]]. cbn [length] in Hlen. lia. }
    split; [exact Hdne|].
    assert (Hndk : NoDup (map fst d0)) by (rewrite Hkeys; exact Hnd).
    pose proof (score_to_ranking_NoDup cand d0 Hdne Hndk) as Hndr.
    apply in_split in Hg0. destruct Hg0 as [a [b Hab]]. split.
    - rewrite Hab, flat_app, flat_cons in Hndr. apply NoDup_app_inv in Hndr.
      destruct Hndr as [_ [Hndr _]]. apply NoDup_app_inv in Hndr. destruct Hndr as [Hndr _]. exact Hndr.
    - intros c Hc0. rewrite <- Hkeys.
      eapply Permutation_in; [apply score_to_ranking_flat_perm; exact Hdne|].
      rewrite Hab, flat_app, flat_cons. apply in_or_app. right. apply in_or_app. left. exact Hc0. }
  destruct Hc as [Hc|[Hc|[Hc|Hc]]].
  - destruct Hc as [_ [_ [_ [-> _]]]]. destruct Hin.
  - destruct Hc as [Habove [Hsim [-> [_ [rem [tb [He ->]]]]]]].
    apply tb_list_in in Hin. subst tb. cbn [tb_list].
    destruct (elect_recorded _ _ _ _ _ _ _ _ _ _ He)
      as [pre [post [kind [j [Htb [Ht [Hr [Hg2 [Hm [Hj [Hjg [Hel Hrm]]]]]]]]]]]].
    assert (Hgin : In g (remaining prev)) by (rewrite Hr; apply in_or_app; right; left; reflexivity).
    destruct (Hgroups g Hgin Hg2) as [Hdne [Hndg Hsub]].
    assert (Hpre : pre = []).
    { apply flat_nil_nonempty_groups; [|lia]. apply Forall_forall. intros g0 Hg0.
      apply (score_to_ranking_nonempty_groups cand d0 g0 Hdne). rewrite <- Hrem, Hr.
      apply in_or_app. left. exact Hg0. }
    subst pre. cbn [app Core.flat concat length] in *.
    assert (Hj1 : j = 1%nat) by lia. subst j.
    split; [reflexivity|]. split; [exact Hg2|]. left.
    rewrite Hrem in Hr. destruct (top_group_max d0 g post Hdne Hr) as [k [Hk1 Hk2]].
    exists post, kind, k. split; [exact Hsim|]. split; [exact Htb|]. split; [rewrite Hrem; exact Hr|].
    split; [exact Hk1|]. split.
    { unfold above_quota in Habove. fold d0 in Habove.
      destruct (filter (fun q => Qle_bool t (snd q)) d0) as [|[c q] ab] eqn:Hf; [contradiction|].
      assert (Hcq : In (c, q) (filter (fun q => Qle_bool t (snd q)) d0)) by (rewrite Hf; left; reflexivity).
      apply filter_In in Hcq. destruct Hcq as [Hcq Hle]. cbn [snd] in Hle. apply Qle_bool_iff in Hle.
      eapply Qle_trans; [exact Hle|]. eapply Hk2. exact Hcq. }
    split; [exact Hk2|]. split; [exact Ht|]. split; [exact Hel|]. split; [reflexivity|].
    destruct (tiebreak_set_linear cand ceqb ceqb_spec g (Some p) kind s s' tt Hndg) as [l [Htl Hpl]].
    + destruct g; [cbn [length] in Hg2; lia|discriminate].
    + destruct kind; cbn [ScoreSpec.tb_profile_ok]; try exact I;
        intros pr Hpr; inversion Hpr; subst pr; split; assumption.
    + exact Ht.
    + exists l. split; [exact Htl|]. split; [exact Hpl|].
      eapply Permutation_NoDup; [apply Permutation_sym; exact Hpl|exact Hndg].
  - destruct Hc as [_ [_ [_ [-> _]]]]. destruct Hin.
  - destruct Hc as [Habove [-> [lowest [rest [x [Hrev [-> [_ [Hc|Hc]]]]]]]]].
    + destruct Hc as [_ [-> _]]. destruct Hin.
    + destruct Hc as [Hlen [tb [g' [rest' [Htb [Hrtb ->]]]]]].
      destruct Hin as [Heq|[]]. inversion Heq; subst lowest tb. clear Heq.
      split; [reflexivity|]. split; [exact Hlen|]. right.
      assert (Hgin : In g (remaining prev)).
      { apply in_rev. rewrite Hrev. left. reflexivity. }
      destruct (Hgroups g Hgin Hlen) as [Hdne [Hndg Hsub]].
      rewrite Hrem in Hrev. destruct (bottom_group_min d0 g rest Hdne Hrev) as [k [Hk1 Hk2]].
      exists rest, x, k. split; [exact Habove|]. split; [rewrite Hrem; exact Hrev|].
      split; [exact Hk1|]. split; [exact Hk2|]. split; [exact Htb|].
      split; [exists g', rest'; exact Hrtb|]. split; [reflexivity|]. split; [reflexivity|].
      intros Hnd0 Hsub0.
      destruct (tiebreak_set_linear cand ceqb ceqb_spec g (Some p0) TBFirstPlace s s' tt Hndg) as [l [Htl Hpl]].
      * destruct g; [cbn [length] in Hlen; lia|discriminate].
      * cbn [ScoreSpec.tb_profile_ok]. intros pr Hpr. inversion Hpr; subst pr. split; assumption.
      * exact Htb.
      * subst tt. unfold Core.singletons in Hrtb. rewrite <- map_rev in Hrtb.
        destruct (rev l) as [|y rl] eqn:Hrl; [discriminate|]. cbn [map] in Hrtb.
        inversion Hrtb; subst y g'.
        exists l, (rev rl). split; [reflexivity|]. split; [exact Hpl|]. split.
        -- eapply Permutation_NoDup; [apply Permutation_sym; exact Hpl|exact Hndg].
        -- apply (f_equal (@rev cand)) in Hrl. rewrite rev_involutive in Hrl. exact Hrl.
Qed.

(* ------------------------------------------------------------------ *)
(** * STV: every round of a run *)

(* what a recorded tiebreak (g, tt) of the round prev -> st means; [t] is the threshold and [p0]
   the initial profile of the run *)
Definition stv_tie_facts (cfg : stv_cfg) (t : Q) (p0 : profile) (prev st : estate)
           (g : cset) (tt : ranking) : Prop :=
  tiebreaks st = [(g, tt)] /\ (2 <= length g)%nat /\
  ((exists (p : profile) (sa sb : mstate) post kind k,
      s_simul cfg = false /\ s_tiebreak cfg = Some kind /\ remaining prev = g :: post /\
      tied_at (escores prev) g k /\ t <= k /\ (forall c q, In (c, q) (escores prev) -> q <= k) /\
      tiebreak_set cand ceqb g (Some p) kind sa = inl (tt, sb) /\
      elected st = firstn 1 tt /\ eliminated st = no_group cand /\
      exists l, tt = singletons l /\ Permutation l g /\ NoDup l)
   \/
   (exists (sa sb : mstate) rest x k,
      above_quota cand t prev = [] /\ rev (remaining prev) = g :: rest /\
      tied_at (escores prev) g k /\ (forall c q, In (c, q) (escores prev) -> k <= q) /\
      tiebreak_set cand ceqb g (Some p0) TBFirstPlace sa = inl (tt, sb) /\
      (exists g' rest', rev tt = (x :: g') :: rest') /\
      eliminated st = [[x]] /\ elected st = no_group cand /\
      (NoDup (cands p0) -> incl g (cands p0) ->
       exists l l', tt = singletons l /\ Permutation l g /\ NoDup l /\ l = l' ++ [x]))).

Lemma c10_stv_step_facts : forall cfg t p0 n (p : profile) prev (s s' : mstate) np st g tt,
  s_transfer cfg <> TRandom ->
  remaining prev = score_to_ranking (escores prev) true ->
  map fst (escores prev) = cands p -> NoDup (cands p) ->
  stv_step cand ceqb cfg t p0 n p prev s = inl ((np, st), s') ->
  In (g, tt) (tiebreaks st) -> stv_tie_facts cfg t p0 prev st g tt.
Proof.
  intros cfg t p0 n p prev s s' np st g tt Hk Hrem Hkeys Hnd H Hin.
  destruct (c10_stv_step_proof _ _ _ _ _ _ _ _ _ _ _ _ Hk Hrem Hkeys Hnd H Hin) as [H1 [H2 [H3|H3]]];
    (split; [exact H1|]); (split; [exact H2|]).
  - left. destruct H3 as [post [kind [k H3]]]. exists p, s, s', post, kind, k. exact H3.
  - right. destruct H3 as [rest [x [k H3]]]. exists s, s', rest, x, k. exact H3.
Qed.

Fixpoint chain (R : estate -> estate -> Prop) (a : estate) (l : list estate) : Prop :=
  match l with
  | [] => True
  | b :: l' => R a b /\ chain R b l'
  end.

Lemma chain_split : forall R l a, chain R a l ->
  forall l1 x y l2, a :: l = l1 ++ x :: y :: l2 -> R x y.
Proof.
  intros R. induction l as [|b l IH]; intros a Hch l1 x y l2 Heq.
  - destruct l1 as [|z [|z' l1]]; discriminate.
  - cbn [chain] in Hch. destruct Hch as [Hab Hch]. destruct l1 as [|z l1].
    + cbn [app] in Heq. inversion Heq; subst. exact Hab.
    + cbn [app] in Heq. inversion Heq as [[Hz Hrest]]. eapply IH; eassumption.
Qed.

Lemma steps_chain : forall cfg t p0 (I : profile -> estate -> Prop) (R : estate -> estate -> Prop),
  (forall p n prev (sa sb : mstate) np st, I p prev ->
     stv_step cand ceqb cfg t p0 n p prev sa = inl ((np, st), sb) -> R prev st /\ I np st) ->
  forall p sts (s s' : mstate) newer, steps cand ceqb cfg t p0 p sts s newer s' ->
  forall prev older, sts = prev :: older -> I p prev -> chain R prev newer.
Proof.
  intros cfg t p0 I R Hstep p sts s s' newer H.
  induction H as [p sts s Hc|p prev0 sts s np st s1 newer s' Hc Hs Hrest IH]; intros prev older Heq HI.
  - exact Logic.I.
  - inversion Heq; subst prev0 sts. destruct (Hstep _ _ _ _ _ _ _ HI Hs) as [HR HI'].
    cbn [chain]. split; [exact HR|]. eapply IH; [reflexivity|exact HI'].
Qed.

Lemma mk_profile_NoDup : forall bs cs (np : profile), mk_profile cand ceqb bs cs = inl np -> NoDup (cands np).
Proof.
  intros bs cs np H. unfold Core.mk_profile in H. destruct (has_dup cand ceqb cs) eqn:Hd; [discriminate|].
  unfold ok in H. inversion H; subst np. cbn [cands]. destruct cs as [|c cs].
  - unfold Core.cast_cands. apply (dedup_NoDup cand ceqb ceqb_spec).
  - apply (has_dup_false_iff cand ceqb ceqb_spec). exact Hd.
Qed.

Lemma stv_step_np_NoDup : forall cfg t p0 n (p : profile) prev (s s' : mstate) np st,
  s_transfer cfg <> TRandom ->
  stv_step cand ceqb cfg t p0 n p prev s = inl ((np, st), s') -> NoDup (cands np).
Proof.
  intros cfg t p0 n p prev s s' np st Hk H.
  destruct (stv_step_inv cand ceqb _ _ _ _ _ _ _ _ _ _ Hk H) as [el [elim [tbs [d [_ [_ Hc]]]]]].
  destruct Hc as [Hc|[Hc|[Hc|Hc]]].
  - destruct Hc as [_ [_ [_ [_ [_ Hs]]]]]. unfold STV.simultaneous_elect in Hs.
    apply mbind_lift_inv in Hs. destruct Hs as [el0 [_ Hs]].
    apply mbind_lift_inv in Hs. destruct Hs as [[] [_ Hs]]. cbv zeta in Hs.
    apply mbind_ok_inv in Hs. destruct Hs as [moved [s1 [_ Hs]]].
    destruct (negb (subsetb cand ceqb _ (cands p))); [discriminate|].
    apply mbind_lift_inv in Hs. destruct Hs as [np0 [Hmk Hs]].
    apply mret_ok_inv in Hs. destruct Hs as [Heq _]. inversion Heq; subst.
    eapply mk_profile_NoDup. exact Hmk.
  - destruct Hc as [_ [_ [_ [Hs _]]]]. unfold STV.single_elect in Hs.
    apply mbind_ok_inv in Hs. destruct Hs as [[[el0 rem] tb] [s1 [_ Hs]]]. cbv zeta in Hs.
    apply mbind_lift_inv in Hs. destruct Hs as [[] [_ Hs]].
    destruct el0 as [|[|w g] el']; try discriminate.
    destruct (negb (memb cand ceqb w (cands p))); [discriminate|].
    apply mbind_ok_inv in Hs. destruct Hs as [moved [s2 [_ Hs]]].
    destruct (negb (subsetb cand ceqb (flat rem) (cands p))); [discriminate|].
    apply mbind_lift_inv in Hs. destruct Hs as [np0 [Hmk Hs]].
    apply mret_ok_inv in Hs. destruct Hs as [Heq _]. inversion Heq; subst.
    eapply mk_profile_NoDup. exact Hmk.
  - destruct Hc as [_ [_ [_ [_ [-> _]]]]]. constructor.
  - destruct Hc as [_ [_ [lowest [rest [x [_ [_ [Hnp _]]]]]]]].
    unfold Core.remove_cand_prof in Hnp. eapply mk_profile_NoDup. exact Hnp.
Qed.

(* the invariant linking the current profile and the latest state *)
Definition stv_inv (p : profile) (prev : estate) : Prop :=
  remaining prev = score_to_ranking (escores prev) true /\
  map fst (escores prev) = cands p /\ NoDup (cands p).

Theorem c10_stv_run_proof : forall cfg (p : profile) (s s' : mstate) sts,
  s_transfer cfg <> TRandom -> NoDup (cands p) ->
  run_stv cand ceqb cfg p s = inl (sts, s') ->
  exists t, stv_init cand cfg p = inl t /\
  forall l1 prev st l2 g tt, sts = l1 ++ prev :: st :: l2 -> In (g, tt) (tiebreaks st) ->
    stv_tie_facts cfg t p prev st g tt.
Proof.
  intros cfg p s s' sts Hk Hnd H. apply run_stv_inv in H.
  destruct H as [t [s0 [newer [Ht [H0 [-> Hsteps]]]]]]. exists t. split; [exact Ht|].
  set (R := fun prev st => forall g tt, In (g, tt) (tiebreaks st) -> stv_tie_facts cfg t p prev st g tt).
  assert (Hchain : chain R s0 newer).
  { apply (steps_chain cfg t p stv_inv R) with (p := p) (sts := [s0]) (s := s) (s' := s') (older := []);
      [|exact Hsteps|reflexivity|].
    - intros pc n prev sa sb np st [Hrem [Hkeys Hndc]] Hstep. split.
      + intros g tt Hin. eapply c10_stv_step_facts; eassumption.
      + pose proof (stv_step_np_NoDup _ _ _ _ _ _ _ _ _ _ Hk Hstep) as Hndn.
        destruct (stv_step_inv cand ceqb _ _ _ _ _ _ _ _ _ _ Hk Hstep) as [el [elim [tbs [d [Hd [-> _]]]]]].
        cbn [STV.state_of_scores remaining escores]. split; [reflexivity|]. split; [|exact Hndn].
        unfold Core.first_place_votes in Hd. eapply score_rankings_keys. exact Hd.
    - unfold STV.initial_state in H0. destruct (first_place_votes cand ceqb p) as [d|e] eqn:Hd; [|discriminate].
      cbn [rbind] in H0. unfold ok in H0. inversion H0; subst s0.
      cbn [STV.state_of_scores remaining escores]. split; [reflexivity|]. split; [|exact Hnd].
      unfold Core.first_place_votes in Hd. eapply score_rankings_keys. exact Hd. }
  intros l1 prev st l2 g tt Heq Hin. exact (chain_split R newer s0 Hchain l1 prev st l2 Heq g tt Hin).
Qed.

(* ------------------------------------------------------------------ *)
(** * Part 4: what a tiebreak consumes from the script *)

Notation big := (big cand).
Notation rebuild := (rebuild cand).

Lemma rebuild_nil : forall r : ranking, rebuild r [] = r.
Proof.
  induction r as [|g r IH]; [reflexivity|]. cbn [TieSpec.rebuild]. rewrite IH.
  destruct (big g); reflexivity.
Qed.

(* [random_break]: one [random.sample] per group of two or more, in ranking order, each answer a
   permutation of its group; all other groups are kept *)
Lemma random_break_trace : forall (r : ranking) (s s' : mstate) t,
  random_break cand ceqb r s = inl (t, s') ->
  exists ls : list (list cand),
    scr s = map DPerm ls ++ scr s' /\
    lg s' = rev (map CSample (filter big r)) ++ lg s /\
    Forall2 (fun l g => Permutation l g /\ NoDup l) ls (filter big r) /\
    t = rebuild r ls.
Proof.
  induction r as [|g r IH]; intros s s' t H.
  - cbn [Core.random_break] in H. apply mret_ok_inv in H. destruct H as [-> ->].
    exists []. repeat split. constructor.
  - cbn [Core.random_break] in H.
    assert (Hsmall : big g = false ->
              (do! rest := random_break cand ceqb r in mret (g :: rest)) s = inl (t, s') ->
              exists ls, scr s = map DPerm ls ++ scr s' /\
                lg s' = rev (map CSample (filter big (g :: r))) ++ lg s /\
                Forall2 (fun l g0 => Permutation l g0 /\ NoDup l) ls (filter big (g :: r)) /\
                t = rebuild (g :: r) ls).
    { intros Hb Hr. apply mbind_ok_inv in Hr. destruct Hr as [rest [s1 [Hr Hret]]].
      apply mret_ok_inv in Hret. destruct Hret as [-> ->].
      destruct (IH _ _ _ Hr) as [ls [H1 [H2 [H3 H4]]]]. exists ls.
      cbn [filter TieSpec.rebuild]. rewrite Hb. repeat split; try assumption. rewrite H4. reflexivity. }
    destruct g as [|c [|c' g']]; [apply Hsmall; [reflexivity|exact H]|apply Hsmall; [reflexivity|exact H]|].
    clear Hsmall. apply mbind_ok_inv in H. destruct H as [l [s1 [Hd H]]].
    apply mbind_ok_inv in H. destruct H as [rest [s2 [Hr H]]].
    apply mret_ok_inv in H. destruct H as [-> ->].
    destruct (draw_perm_inv cand ceqb ceqb_spec _ _ _ _ Hd) as [Hpl [Hndl [rest0 [Hscr ->]]]].
    destruct (IH _ _ _ Hr) as [ls [H1 [H2 [H3 H4]]]]. cbn [scr lg] in H1, H2.
    exists (l :: ls).
    assert (Hb : big (c :: c' :: g') = true) by reflexivity.
    cbn [filter TieSpec.rebuild]. rewrite Hb. cbn [map rev]. split.
    + rewrite Hscr, H1. reflexivity.
    + split; [rewrite H2, <- app_assoc; reflexivity|]. split.
      * constructor; [split; assumption|exact H3].
      * rewrite H4. reflexivity.
Qed.

Lemma filter_big_nil : forall r : ranking,
  existsb (fun g => Nat.ltb 1 (length g)) r = false -> filter big r = [].
Proof.
  induction r as [|g r IH]; intros H; [reflexivity|]. cbn [existsb] in H.
  apply orb_false_iff in H. destruct H as [Hg Hr]. cbn [filter]. unfold TieSpec.big at 1.
  rewrite Hg. apply IH. exact Hr.
Qed.

(* first_place / borda tiebreak: the tied candidates are grouped by that score of the tiebreak
   profile; draws are made only for the groups still tied on it *)
Theorem c10_scored_trace_proof : forall g (pr : profile) kind (d : scores) (s s' : mstate) t,
  (kind = TBFirstPlace /\ first_place_votes cand ceqb pr = inl d) \/
  (kind = TBBorda /\ borda_scores cand ceqb pr = inl d) ->
  tiebreak_set cand ceqb g (Some pr) kind s = inl (t, s') ->
  let r := score_to_ranking (filter (fun q => memb cand ceqb (fst q) g) d) true in
  exists ls : list (list cand),
    scr s = map DPerm ls ++ scr s' /\
    lg s' = rev (map CSample (filter big r)) ++ lg s /\
    Forall2 (fun l sg => Permutation l sg /\ NoDup l) ls (filter big r) /\
    t = rebuild r ls.
Proof.
  intros g pr kind d s s' t Hkind H r.
  assert (Hcore : (if existsb (fun g0 => Nat.ltb 1 (length g0)) r
                   then random_break cand ceqb r else mret r) s = inl (t, s')).
  { destruct Hkind as [[-> Hsc]|[-> Hsc]]; cbn [Core.tiebreak_set] in H;
      apply mbind_lift_inv in H; destruct H as [d0 [Hd0 H]]; rewrite Hsc in Hd0;
      inversion Hd0; subst d0; exact H. }
  destruct (existsb (fun g0 => Nat.ltb 1 (length g0)) r) eqn:Hex.
  - apply random_break_trace. exact Hcore.
  - apply mret_ok_inv in Hcore. destruct Hcore as [-> ->]. exists [].
    rewrite (filter_big_nil r Hex), rebuild_nil. repeat split. constructor.
Qed.

(* the groups of that ranking are exactly the classes of equal tiebreak score, in strictly
   descending order of the score *)
Theorem c10_scored_groups_proof : forall g (d : scores),
  NoDup (map fst d) -> NoDup g -> g <> [] -> incl g (map fst d) ->
  let r := score_to_ranking (filter (fun q => memb cand ceqb (fst q) g) d) true in
  Permutation (flat r) g /\
  (forall sg, In sg r -> sg <> []) /\
  (forall c1 c2 q1 q2, In c1 g -> In c2 g -> In (c1, q1) d -> In (c2, q2) d ->
     ((exists sg, In sg r /\ In c1 sg /\ In c2 sg) <-> q1 == q2)) /\
  (forall pre g1 mid g2 post c1 c2 q1 q2,
     r = pre ++ g1 :: mid ++ g2 :: post ->
     In c1 g1 -> In c2 g2 -> In (c1, q1) d -> In (c2, q2) d -> q2 < q1).
Proof.
  intros g d Hnd Hndg Hne Hincl r. set (d' := filter (fun q => memb cand ceqb (fst q) g) d) in *.
  assert (Hkeys : Permutation (map fst d') g).
  { unfold d'. rewrite map_fst_filter_memb. apply NoDup_Permutation.
    - apply NoDup_filter. exact Hnd.
    - exact Hndg.
    - intros x. rewrite filter_In, (memb_In cand ceqb ceqb_spec). split.
      + intros [_ Hx]. exact Hx.
      + intros Hx. split; [apply Hincl; exact Hx|exact Hx]. }
  assert (Hd'ne : d' <> []).
  { intros Hnil. rewrite Hnil in Hkeys. cbn [map] in Hkeys. apply Permutation_nil in Hkeys. contradiction. }
  assert (Hnd' : NoDup (map fst d')).
  { unfold d'. rewrite map_fst_filter_memb. apply NoDup_filter. exact Hnd. }
  assert (Hin' : forall c q, In c g -> In (c, q) d -> In (c, q) d').
  { intros c q Hc Hcq. unfold d'. apply filter_In. split; [exact Hcq|]. cbn [fst].
    apply (memb_In cand ceqb ceqb_spec). exact Hc. }
  assert (Hsub : forall c q, In (c, q) d' -> In c g /\ In (c, q) d).
  { intros c q Hcq. unfold d' in Hcq. apply filter_In in Hcq. destruct Hcq as [Hcq Hm]. cbn [fst] in Hm.
    apply (memb_In cand ceqb ceqb_spec) in Hm. split; assumption. }
  destruct (c04_ranking_groups_proof cand d' Hd'ne Hnd') as [Hp [Hnon [Hsame Hord]]]. fold r in Hp, Hnon, Hsame, Hord.
  split; [eapply Permutation_trans; eassumption|]. split; [exact Hnon|]. split.
  - intros c1 c2 q1 q2 Hc1 Hc2 H1 H2. apply Hsame; apply Hin'; assumption.
  - intros pre g1 mid g2 post c1 c2 q1 q2 Hr Hc1 Hc2 H1 H2.
    assert (Hg : forall c sg, In sg r -> In c sg -> In c g).
    { intros c sg Hsg Hc. eapply Permutation_in; [exact (Permutation_trans Hp Hkeys)|].
      unfold Core.flat. apply in_concat_iff. exists sg. split; assumption. }
    apply (Hord pre g1 mid g2 post c1 c2 q1 q2 Hr Hc1 Hc2); apply Hin'; try assumption.
    + apply (Hg c1 g1); [rewrite Hr; apply in_or_app; right; left; reflexivity|exact Hc1].
    + apply (Hg c2 g2); [|exact Hc2]. rewrite Hr. apply in_or_app. right. right.
      apply in_or_app. right. left. reflexivity.
Qed.

(* a random tiebreak: exactly one draw, a permutation of the whole set *)
Theorem c10_random_trace_proof : forall g (p : option profile) (s s' : mstate) t,
  tiebreak_set cand ceqb g p TBRandom s = inl (t, s') ->
  exists l, scr s = DPerm l :: scr s' /\ lg s' = CSample g :: lg s /\
    t = singletons l /\ Permutation l g /\ NoDup l.
Proof.
  intros g p s s' t H. cbn [Core.tiebreak_set] in H.
  apply mbind_ok_inv in H. destruct H as [l [s1 [Hd H]]].
  apply mret_ok_inv in H. destruct H as [-> ->].
  destruct (draw_perm_inv cand ceqb ceqb_spec _ _ _ _ Hd) as [Hpl [Hndl [rest0 [Hscr ->]]]].
  exists l. cbn [scr lg]. repeat split; assumption.
Qed.

(* ------------------------------------------------------------------ *)
(** * the one-shot theorem at the level of rules *)

Lemma one_shot_rule_run : forall r (p : profile) k m tb (s s' : mstate) sts,
  one_shot_params cand r p = Some (k, m, tb) ->
  run_rule cand ceqb r p s = inl (sts, s') ->
  run_one_shot cand ceqb k m tb p s = inl (sts, s').
Proof.
  intros r p k m tb s s' sts Hp H.
  destruct r; cbn [TieSpec.one_shot_params] in Hp; try discriminate; inversion Hp; subst;
    cbn [Rules.run_rule] in H.
  - apply run_plurality_inv in H. destruct H as [_ H]. exact H.
  - cbv zeta in H. apply mbind_lift_inv in H. destruct H as [[] [_ H]].
    apply mbind_lift_inv in H. destruct H as [[] [_ H]]. exact H.
  - apply run_rating_inv in H. destruct H as [_ [_ H]]. exact H.
  - destruct (Qlt_bool (inject_Z m) k0); [discriminate|].
    apply run_rating_inv in H. destruct H as [_ [_ H]]. exact H.
  - cbv zeta in H. apply run_rating_inv in H. destruct H as [_ [_ H]]. exact H.
Qed.

Theorem c10_one_shot_rule_proof : forall r (p : profile) k m tb (s s' : mstate) sts,
  NoDup (cands p) ->
  one_shot_params cand r p = Some (k, m, tb) ->
  run_rule cand ceqb r p s = inl (sts, s') ->
  exists s0 s1, sts = [s0; s1] /\ tiebreaks s0 = [] /\
  forall g t, In (g, t) (tiebreaks s1) ->
  exists pre post kind j l,
    tb = Some kind /\ tiebreaks s1 = [(g, t)] /\
    tiebreak_set cand ceqb g (Some p) kind s = inl (t, s') /\
    remaining s0 = pre ++ g :: post /\ tied_on (escores s0) g /\ (2 <= length g)%nat /\
    (Z.of_nat (length (flat pre)) < m < Z.of_nat (length (flat pre) + length g))%Z /\
    j = (Z.to_nat m - length (flat pre))%nat /\
    t = singletons l /\ Permutation l g /\ NoDup l /\
    elected s1 = pre ++ firstn j t /\ remaining s1 = skipn j t ++ post.
Proof.
  intros r p k m tb s s' sts Hnd Hp H. pose proof (one_shot_rule_run _ _ _ _ _ _ _ _ Hp H) as Hrun.
  pose proof Hrun as Hinv. apply run_one_shot_inv in Hinv.
  destruct Hinv as [s0 [np [s1 [H0 [_ ->]]]]]. exists s0, s1. split; [reflexivity|].
  split; [eapply round0_no_tiebreak; exact H0|].
  intros g t Hin. eapply c10_one_shot_proof; eassumption.
Qed.

(* the three clauses separately *)
Corollary c10_tiebreak_genuine_proof : forall r (p : profile) k m tb (s s' : mstate) s0 s1 g t,
  NoDup (cands p) -> one_shot_params cand r p = Some (k, m, tb) ->
  run_rule cand ceqb r p s = inl ([s0; s1], s') -> In (g, t) (tiebreaks s1) ->
  exists pre post,
    remaining s0 = pre ++ g :: post /\ tied_on (escores s0) g /\ (2 <= length g)%nat /\
    (Z.of_nat (length (flat pre)) < m < Z.of_nat (length (flat pre) + length g))%Z.
Proof.
  intros r p k m tb s s' s0 s1 g t Hnd Hp H Hin.
  destruct (c10_one_shot_rule_proof _ _ _ _ _ _ _ _ Hnd Hp H) as [s0' [s1' [Heq [_ Hall]]]].
  inversion Heq; subst s0' s1'.
  destruct (Hall g t Hin) as [pre [post [kind [j [l [_ [_ [_ [H1 [H2 [H3 [H4 _]]]]]]]]]]]].
  exists pre, post. repeat split; assumption || lia.
Qed.

Corollary c10_resolution_strict_proof : forall r (p : profile) k m tb (s s' : mstate) s0 s1 g t,
  NoDup (cands p) -> one_shot_params cand r p = Some (k, m, tb) ->
  run_rule cand ceqb r p s = inl ([s0; s1], s') -> In (g, t) (tiebreaks s1) ->
  exists l, t = singletons l /\ Permutation l g /\ NoDup l.
Proof.
  intros r p k m tb s s' s0 s1 g t Hnd Hp H Hin.
  destruct (c10_one_shot_rule_proof _ _ _ _ _ _ _ _ Hnd Hp H) as [s0' [s1' [Heq [_ Hall]]]].
  inversion Heq; subst s0' s1'.
  destruct (Hall g t Hin) as [pre [post [kind [j [l [_ [_ [_ [_ [_ [_ [_ [_ [H1 [H2 [H3 _]]]]]]]]]]]]]]]].
  exists l. repeat split; assumption.
Qed.

Corollary c10_obeyed_proof : forall r (p : profile) k m tb (s s' : mstate) s0 s1 g t,
  NoDup (cands p) -> one_shot_params cand r p = Some (k, m, tb) ->
  run_rule cand ceqb r p s = inl ([s0; s1], s') -> In (g, t) (tiebreaks s1) ->
  exists pre post j,
    remaining s0 = pre ++ g :: post /\ j = (Z.to_nat m - length (flat pre))%nat /\
    (0 < j < length g)%nat /\
    elected s1 = pre ++ firstn j t /\ remaining s1 = skipn j t ++ post.
Proof.
  intros r p k m tb s s' s0 s1 g t Hnd Hp H Hin.
  destruct (c10_one_shot_rule_proof _ _ _ _ _ _ _ _ Hnd Hp H) as [s0' [s1' [Heq [_ Hall]]]].
  inversion Heq; subst s0' s1'.
  destruct (Hall g t Hin)
    as [pre [post [kind [j [l [_ [_ [_ [H1 [_ [_ [H4 [H5 [_ [_ [_ [H6 H7]]]]]]]]]]]]]]]]].
  exists pre, post, j. repeat split; try assumption; lia.
Qed.

End Tiebreak.
