(* Proofs/C02_elim.v — C02, the elimination-tie rule on its own: in an elimination round the
   candidate removed has the lowest current tally; among the candidates sharing it, the lowest
   first-place tally of the INITIAL profile; among those still tied, it is the last of one recorded
   random permutation consumed from the script — whatever the configured tiebreak option.  And the
   converse: a shared lowest tally always leaves exactly one recorded tiebreak keyed by the tied set,
   an unshared one leaves none.
   Route: [stv_step_ok_inv] (STV_round.v) for the shape of the round, [step_tie] (C10_stv2.v) for the
   recorded tiebreak and its [scored_resolution], the C10 facts on the groups of a scored tiebreak
   (C10_tiebreak.v: c10_scored_groups_proof) for the last group; [run_trace_inv] (C02_run.v) for the
   run. *)
From Coq Require Import List ZArith QArith Bool Permutation Lia Lqa.
From VK Require Import Base Core STV Rules EditSpec.
From VK.Spec Require Import STVSpec ScoreSpec TieSpec ReplaySpec STVRunSpec.
From VK.Proofs Require Import Lib_sets Elect C10_quiet C10_tiebreak C10_closed C09_replay
  STV_lib STV_tb STV_step STV_round STV_weights STV_inv STV_cases C02_run C10_stv2.
Import ListNotations.

Section ElimTie.
Variable cand : Type.
Variable ceqb : cand -> cand -> bool.
Hypothesis ceqb_spec : forall a b, reflect (a = b) (ceqb a b).

Notation cset := (cset cand).
Notation ranking := (ranking cand).
Notation profile := (profile cand).
Notation scores := (scores cand).
Notation estate := (estate cand).
Notation mstate := (mstate cand).
Notation flat := (flat cand).
Notation singletons := (singletons cand).
Notation tally := (tally cand ceqb).
Notation wf_stv0 := (wf_stv0 cand).
Notation step_ctx := (step_ctx cand ceqb).
Notation script_ok := (script_ok cand).
Notation stv_trace := (stv_trace cand ceqb).
Notation stv_init := (stv_init cand).
Notation stv_step := (stv_step cand ceqb).
Notation run_stv := (run_stv cand ceqb).
Notation tiebreak_set := (tiebreak_set cand ceqb).
Notation first_place_votes := (first_place_votes cand ceqb).
Notation scored_resolution := (scored_resolution cand ceqb).
Notation stv_tie := (stv_tie cand ceqb).
Notation min_tally := (min_tally cand ceqb).
Notation tied_with := (tied_with cand ceqb).
Notation sorted_by_tally := (sorted_by_tally cand ceqb).
Notation big := (big cand).
Notation rebuild := (rebuild cand).

(* ---------- lists ---------- *)

Lemma rebuild_app : forall (P : list cand -> cset -> Prop) (r1 r2 : ranking) ls1 ls2,
  Forall2 P ls1 (filter big r1) ->
  rebuild (r1 ++ r2) (ls1 ++ ls2) = rebuild r1 ls1 ++ rebuild r2 ls2.
Proof.
  intros P. induction r1 as [|h r1 IH]; intros r2 ls1 ls2 HF.
  - cbn [filter] in HF. inversion HF; subst. reflexivity.
  - cbn [filter] in HF. cbn [app TieSpec.rebuild]. destruct (big h) eqn:Eh.
    + inversion HF as [|l1 sg ls1' sgs _ HF']; subst. cbn [app].
      rewrite (IH r2 ls1' ls2 HF'). apply app_assoc.
    + rewrite (IH r2 ls1 ls2 HF). reflexivity.
Qed.

Lemma Forall2_in_l : forall (A B : Type) (P : A -> B -> Prop) l1 l2 a,
  Forall2 P l1 l2 -> In a l1 -> exists b, In b l2 /\ P a b.
Proof.
  intros A B P l1 l2 a H. induction H as [|x y l1 l2 Hxy _ IH]; intros Hin; [destruct Hin|].
  destruct Hin as [E|Hin].
  - subst x. exists y. split; [left; reflexivity|exact Hxy].
  - destruct (IH Hin) as [b [Hb Hp]]. exists b. split; [right; exact Hb|exact Hp].
Qed.

Lemma singletons_snoc : forall l (x : cand), singletons (l ++ [x]) = singletons l ++ [[x]].
Proof. intros l x. unfold Core.singletons. rewrite map_app. reflexivity. Qed.

(* ---------- the last group of a first_place resolution ---------- *)

(* a first_place tiebreak of the set g on profile q whose recorded order ends in x: x has the
   lowest tally of q among g; low0 = the candidates of g sharing it; the draws consumed are
   permutations [pre] of candidates of g with strictly larger tallies, followed — exactly when low0
   has two or more members — by one duplicate-free permutation of low0, the tail of the recorded
   order, whose last member is x *)
Lemma last_group_resolution : forall (q : profile) (g : cset) (tt : ranking) (sa sb : mstate) l x,
  wf_stv0 q -> NoDup g -> incl g (cands q) -> g <> [] ->
  scored_resolution TBFirstPlace q g tt sa sb ->
  tt = singletons (l ++ [x]) ->
  exists (low0 : cset) (pre : list (list cand)),
    (forall c, In c g -> tally x (ballots q) <= tally c (ballots q)) /\
    (forall c, In c low0 <-> In c g /\ tally c (ballots q) == tally x (ballots q)) /\
    NoDup low0 /\
    Forall (fun lp => forall c, In c lp -> In c g /\ tally x (ballots q) < tally c (ballots q)) pre /\
    ((low0 = [x] /\ scr sa = map (fun lp => DPerm lp) pre ++ scr sb)
     \/
     ((2 <= length low0)%nat /\ exists lx hd,
        scr sa = map (fun lp => DPerm lp) pre ++ DPerm (lx ++ [x]) :: scr sb /\
        Permutation (lx ++ [x]) low0 /\ NoDup (lx ++ [x]) /\
        tt = hd ++ singletons (lx ++ [x]))).
Proof.
  intros q g tt sa sb l x Hwf Hnd Hincl Hne Hres Ett.
  destruct Hres as (d & Hkind & _ & Hrest).
  destruct Hkind as [[_ Hd]|[E _]]; [|discriminate E].
  cbv zeta in Hrest. destruct Hrest as (ls & Hscr & HF & Htt).
  pose proof (fpv_keys cand ceqb q d Hd) as Hk.
  assert (Hndk : NoDup (map fst d)) by (rewrite Hk; apply Hwf).
  assert (Hincl' : incl g (map fst d)) by (rewrite Hk; exact Hincl).
  destruct (c10_scored_groups_proof cand ceqb ceqb_spec g d Hndk Hnd Hne Hincl')
    as (Hperm & Hgne & Hsame & Hstrict).
  cbv zeta in Hperm, Hgne, Hsame, Hstrict.
  set (r := score_to_ranking cand (filter (fun y => memb cand ceqb (fst y) g) d) true) in *.
  assert (Hq : forall c, In c g ->
            In (c, lookup0 cand ceqb c d) d /\ lookup0 cand ceqb c d == tally c (ballots q)).
  { intros c Hc. apply (fpv_lookup cand ceqb ceqb_spec q d Hwf Hd c). apply Hincl. exact Hc. }
  assert (Hflat : forall sg c, In sg r -> In c sg -> In c g).
  { intros sg c Hsg Hc. eapply Permutation_in; [exact Hperm|]. unfold Core.flat.
    apply in_concat. exists sg. split; assumption. }
  assert (Hrne : r <> []).
  { intros E. rewrite E in Hperm. apply Hne. apply Permutation_nil. exact Hperm. }
  destruct (exists_last Hrne) as (r1 & low0 & Er).
  assert (Hl0 : In low0 r) by (rewrite Er; apply in_or_app; right; left; reflexivity).
  assert (Hl0ne : low0 <> []) by (apply Hgne; exact Hl0).
  assert (Hndr : NoDup (flat r)).
  { eapply Permutation_NoDup; [apply Permutation_sym; exact Hperm|exact Hnd]. }
  assert (Hnd0 : NoDup low0).
  { rewrite Er, (Lib_sets.flat_app cand), (Lib_sets.flat_cons cand) in Hndr.
    destruct (Lib_sets.NoDup_app_inv _ _ Hndr) as (_ & H2 & _).
    apply (Lib_sets.NoDup_app_inv _ _ H2). }
  rewrite Er, filter_app in HF.
  apply Forall2_app_inv_r in HF. destruct HF as (ls1 & ls2 & HF1 & HF2 & Els).
  rewrite Er, Els, (rebuild_app _ r1 [low0] ls1 ls2 HF1) in Htt.
  rewrite Ett in Htt.
  (* the two shapes of the last group *)
  assert (Hcase : In x low0 /\
    ((low0 = [x] /\ ls2 = []) \/
     ((2 <= length low0)%nat /\ exists lx, ls2 = [lx ++ [x]] /\ Permutation (lx ++ [x]) low0 /\
        NoDup (lx ++ [x]) /\
        singletons (l ++ [x]) = rebuild r1 ls1 ++ singletons (lx ++ [x])))).
  { destruct (big low0) eqn:Hb.
    - cbn [filter] in HF2. rewrite Hb in HF2.
      inversion HF2 as [|l2 sg ls2' sgs [Hp2 Hnd2] HF2']; subst. inversion HF2'; subst.
      cbn [TieSpec.rebuild] in Htt. rewrite Hb in Htt. cbn [TieSpec.rebuild] in Htt.
      rewrite app_nil_r in Htt.
      assert (Hl2 : l2 <> []).
      { intros E. subst l2. apply Permutation_nil in Hp2. apply Hl0ne. exact Hp2. }
      destruct (exists_last Hl2) as (lx & x2 & El2). subst l2.
      pose proof Htt as Htt'.
      rewrite singletons_snoc, singletons_snoc, app_assoc in Htt'.
      apply app_inj_tail in Htt'. destruct Htt' as [_ Ex]. injection Ex as Ex. subst x2.
      split.
      + eapply Permutation_in; [exact Hp2|]. apply in_or_app. right. left. reflexivity.
      + right. split; [unfold TieSpec.big in Hb; apply Nat.ltb_lt in Hb; lia|].
        exists lx. repeat split; assumption.
    - cbn [filter] in HF2. rewrite Hb in HF2. inversion HF2; subst.
      cbn [TieSpec.rebuild] in Htt. rewrite Hb in Htt. cbn [TieSpec.rebuild] in Htt.
      unfold TieSpec.big in Hb. apply Nat.ltb_ge in Hb.
      destruct low0 as [|y [|z low0']]; [contradiction Hl0ne; reflexivity| |cbn [length] in Hb; lia].
      rewrite singletons_snoc in Htt. apply app_inj_tail in Htt.
      destruct Htt as [_ Ex]. injection Ex as Ex. subst y.
      split; [left; reflexivity|]. left. split; reflexivity. }
  destruct Hcase as [Hx0 Hcase].
  assert (Hxg : In x g) by (apply (Hflat low0 x Hl0 Hx0)).
  destruct (Hq x Hxg) as [Hxd Hxq].
  (* earlier groups carry strictly larger scores *)
  assert (Hearlier : forall sg c, In sg r1 -> In c sg ->
            tally x (ballots q) < tally c (ballots q)).
  { intros sg c Hsg Hc. apply in_split in Hsg. destruct Hsg as (a & b & Ea).
    assert (Hcg : In c g).
    { apply (Hflat sg c); [|exact Hc]. rewrite Er, Ea. apply in_or_app. left.
      apply in_or_app. right. left. reflexivity. }
    destruct (Hq c Hcg) as [Hcd Hcq].
    assert (Erg : r = a ++ sg :: b ++ low0 :: []).
    { rewrite Er, Ea, <- app_assoc. reflexivity. }
    pose proof (Hstrict a sg b low0 [] c x _ _ Erg Hc Hx0 Hcd Hxd) as Hlt.
    rewrite <- Hxq, <- Hcq. exact Hlt. }
  (* membership of the last group *)
  assert (Hlow0 : forall c, In c low0 <-> In c g /\ tally c (ballots q) == tally x (ballots q)).
  { intros c. split.
    - intros Hc. assert (Hcg : In c g) by (apply (Hflat low0 c Hl0 Hc)). split; [exact Hcg|].
      destruct (Hq c Hcg) as [Hcd Hcq]. rewrite <- Hcq, <- Hxq.
      apply (Hsame c x _ _ Hcg Hxg Hcd Hxd). exists low0. repeat split; assumption.
    - intros [Hcg Heq]. destruct (Hq c Hcg) as [Hcd Hcq].
      assert (Hqq : lookup0 cand ceqb c d == lookup0 cand ceqb x d) by (rewrite Hcq, Hxq; exact Heq).
      destruct (proj2 (Hsame c x _ _ Hcg Hxg Hcd Hxd) Hqq) as (sg & Hsg & Hcs & Hxs).
      rewrite Er in Hsg. apply in_app_or in Hsg. destruct Hsg as [Hsg|[E|[]]].
      + exfalso. pose proof (Hearlier sg x Hsg Hxs) as Hlt. apply (Qlt_irrefl _ Hlt).
      + subst sg. exact Hcs. }
  assert (Hmin : forall c, In c g -> tally x (ballots q) <= tally c (ballots q)).
  { intros c Hcg.
    assert (Hin : In c (flat r)) by (eapply Permutation_in; [apply Permutation_sym; exact Hperm|exact Hcg]).
    unfold Core.flat in Hin. apply in_concat in Hin. destruct Hin as (sg & Hsg & Hcs).
    rewrite Er in Hsg. apply in_app_or in Hsg. destruct Hsg as [Hsg|[E|[]]].
    - apply Qlt_le_weak. apply (Hearlier sg c Hsg Hcs).
    - subst sg. destruct (proj1 (Hlow0 c) Hcs) as [_ Heq]. rewrite Heq. apply Qle_refl. }
  assert (Hpre : Forall (fun lp => forall c, In c lp ->
                    In c g /\ tally x (ballots q) < tally c (ballots q)) ls1).
  { apply Forall_forall. intros lp Hlp c Hc.
    destruct (Forall2_in_l _ _ _ ls1 (filter big r1) lp HF1 Hlp) as (sg & Hsg & Hp & _).
    apply filter_In in Hsg. destruct Hsg as [Hsg _].
    assert (Hcs : In c sg) by (eapply Permutation_in; [exact Hp|exact Hc]).
    split; [|apply (Hearlier sg c Hsg Hcs)].
    apply (Hflat sg c); [|exact Hcs]. rewrite Er. apply in_or_app. left. exact Hsg. }
  exists low0, ls1. split; [exact Hmin|]. split; [exact Hlow0|]. split; [exact Hnd0|].
  split; [exact Hpre|].
  destruct Hcase as [[E0 E2]|(Hlen & lx & E2 & Hp & Hndl & Htl)].
  - left. split; [exact E0|]. rewrite Hscr, Els, E2, app_nil_r. reflexivity.
  - right. split; [exact Hlen|]. exists lx, (rebuild r1 ls1).
    split; [|split; [exact Hp|split; [exact Hndl|rewrite Ett; exact Htl]]].
    rewrite Hscr, Els, E2, map_app, <- app_assoc. reflexivity.
Qed.

(* ---------- the outcome of an elimination round ---------- *)

(* what an elimination round from profile p (initial profile p0, random source s) leaves in the
   record st and the random source s'; it mentions neither the configuration nor the threshold *)
Definition elim_outcome (p0 p : profile) (st : estate) (s s' : mstate) : Prop :=
  exists (x : cand) (low low0 : cset),
    eliminated st = [[x]] /\ elected st = [[]] /\
    min_tally p x /\ tied_with p x low /\ NoDup low /\
    (forall c, In c low -> tally x (ballots p0) <= tally c (ballots p0)) /\
    (forall c, In c low0 <-> In c low /\ tally c (ballots p0) == tally x (ballots p0)) /\
    NoDup low0 /\
    ((low = [x] /\ tiebreaks st = [] /\ s' = s)
     \/
     ((2 <= length low)%nat /\
      exists (tt : ranking) (l : list cand) (pre : list (list cand)),
        tiebreaks st = [(low, tt)] /\
        tt = singletons (l ++ [x]) /\ Permutation (l ++ [x]) low /\
        sorted_by_tally p0 (l ++ [x]) /\
        tiebreak_set low (Some p0) TBFirstPlace s = inl (tt, s') /\
        Forall (fun lp => forall c, In c lp ->
                  In c low /\ tally x (ballots p0) < tally c (ballots p0)) pre /\
        ((low0 = [x] /\ scr s = map (fun lp => DPerm lp) pre ++ scr s')
         \/
         ((2 <= length low0)%nat /\ exists lx hd,
            scr s = map (fun lp => DPerm lp) pre ++ DPerm (lx ++ [x]) :: scr s' /\
            Permutation (lx ++ [x]) low0 /\ NoDup (lx ++ [x]) /\
            tt = hd ++ singletons (lx ++ [x]))))).

Theorem elim_step_rule : forall cfg t (p0 p : profile) prev n (s s' : mstate) np st,
  step_ctx p0 p prev -> (s_transfer cfg = TRandom -> script_ok s) ->
  stv_step cfg t p0 n p prev s = inl ((np, st), s') ->
  (forall c, In c (cands p) -> tally c (ballots p) < t) ->
  Z.of_nat (length (cands p)) <> (s_m cfg - n)%Z ->
  elim_outcome p0 p st s s'.
Proof.
  intros cfg t p0 p prev n s s' np st Hctx Hscr Hstep Hnone Hcnt.
  pose proof (ctx_p0 cand ceqb p0 p prev Hctx) as Hwf0.
  destruct (stv_step_ok_inv cand ceqb ceqb_spec cfg t p0 p prev Hctx n s s' np st Hscr Hstep)
    as [[(c & Hc & Hct) _]|[(_ & Hd & _)|(_ & _ & x & Hx)]].
  { exfalso. apply (Qlt_not_le _ _ (Hnone c Hc)). exact Hct. }
  { exfalso. apply Hcnt. exact Hd. }
  destruct Hx as [_ (pre & low & Hrem & Hxl & Hcase) _ HxEl HxElim _ _ _ _].
  assert (Hg0 : In low (remaining prev)) by (rewrite Hrem; apply in_or_app; right; left; reflexivity).
  assert (Hndl : NoDup low).
  { apply (NoDup_concat_member cand (remaining prev) low); [|exact Hg0].
    apply (ctx_flat_nd cand ceqb p0 p prev Hctx). }
  assert (Hinc : incl low (cands p0)).
  { intros c Hc. apply (ctx_sub cand ceqb p0 p prev Hctx).
    apply (ctx_group_in cand ceqb p0 p prev Hctx low c Hg0 Hc). }
  destruct (last_group_tied cand ceqb ceqb_spec p0 p prev Hctx pre low x Hrem Hxl) as [Hmin Htw].
  destruct Hcase as [(El & Htb & Es)|(Hlen & l & Htb & Hperm & Htie)].
  - (* the lowest tally is not shared *)
    exists x, low, [x]. split; [exact HxElim|]. split; [exact HxEl|]. split; [exact Hmin|].
    split; [exact Htw|]. split; [exact Hndl|].
    split; [intros c Hc; rewrite El in Hc; destruct Hc as [E|[]]; subst c; apply Qle_refl|].
    split.
    { intros c. rewrite El. split.
      - intros [E|[]]. subst c. split; [left; reflexivity|reflexivity].
      - intros [Hc _]. exact Hc. }
    split; [constructor; [intros []|constructor]|].
    left. split; [exact El|]. split; assumption.
  - (* shared: recorded first_place tiebreak on the initial profile *)
    assert (Hne : low <> []) by (intros E; rewrite E in Hlen; cbn in Hlen; lia).
    pose proof (resolution_of cand ceqb ceqb_spec TBFirstPlace p0 low _ s s' Hwf0 Htie) as Hres.
    cbn [STVRunSpec.resolution] in Hres.
    destruct (last_group_resolution p0 low (singletons (l ++ [x])) s s' l x Hwf0 Hndl Hinc Hne
                Hres eq_refl) as (low0 & pre0 & Hm0 & Hl0 & Hnd0 & Hpre & Hlast).
    exists x, low, low0. split; [exact HxElim|]. split; [exact HxEl|]. split; [exact Hmin|].
    split; [exact Htw|]. split; [exact Hndl|]. split; [exact Hm0|]. split; [exact Hl0|].
    split; [exact Hnd0|]. right. split; [exact Hlen|].
    exists (singletons (l ++ [x])), l, pre0. split; [exact Htb|]. split; [reflexivity|].
    split; [exact Hperm|]. split.
    { apply (tiebreak_sorted cand ceqb ceqb_spec low p0 s s' (l ++ [x]) Hwf0); [|exact Htie].
      intros c Hc. apply Hinc. eapply Permutation_in; [exact Hperm|exact Hc]. }
    split; [exact Htie|]. split; [exact Hpre|exact Hlast].
Qed.

(* ---------- the configured tiebreak option is not consulted ---------- *)

(* a round in which nobody reaches the threshold depends on the configuration only through the
   seat count: quota name, mode, transfer rule and tiebreak option can be changed at will *)
Theorem below_threshold_round_cfg : forall cfg cfg' t (p0 p : profile) prev n (s : mstate),
  step_ctx p0 p prev ->
  (forall c, In c (cands p) -> tally c (ballots p) < t) ->
  s_m cfg' = s_m cfg ->
  stv_step cfg' t p0 n p prev s = stv_step cfg t p0 n p prev s.
Proof.
  intros cfg cfg' t p0 p prev n s Hctx Hnone Hm.
  assert (Ea : above cand t (escores prev) = []).
  { apply (above_nil_iff cand ceqb ceqb_spec p0 p prev Hctx t). exact Hnone. }
  destruct (Z.eqb (Z.of_nat (length (cands p))) (s_m cfg - n)) eqn:En.
  - rewrite (stv_step_default cand ceqb cfg t p0 n p prev s Ea En).
    rewrite <- Hm in En. rewrite (stv_step_default cand ceqb cfg' t p0 n p prev s Ea En). reflexivity.
  - rewrite (stv_step_elim cand ceqb cfg t p0 n p prev s Ea En).
    rewrite <- Hm in En. rewrite (stv_step_elim cand ceqb cfg' t p0 n p prev s Ea En). reflexivity.
Qed.

(* ---------- ties for elimination are always broken and recorded ---------- *)

Theorem elim_tie_recorded : forall cfg t (p0 p : profile) prev n (s s' : mstate) np st,
  step_ctx p0 p prev -> (s_transfer cfg = TRandom -> script_ok s) ->
  stv_step cfg t p0 n p prev s = inl ((np, st), s') ->
  (forall c, In c (cands p) -> tally c (ballots p) < t) ->
  Z.of_nat (length (cands p)) <> (s_m cfg - n)%Z ->
  forall g : cset, NoDup g -> (forall c, In c g <-> min_tally p c) ->
  ((2 <= length g)%nat ->
     exists key tt l x, tiebreaks st = [(key, tt)] /\ Permutation key g /\
       tt = singletons (l ++ [x]) /\ Permutation (l ++ [x]) g /\ eliminated st = [[x]]) /\
  ((length g < 2)%nat ->
     tiebreaks st = [] /\ s' = s /\ exists x, g = [x] /\ eliminated st = [[x]]).
Proof.
  intros cfg t p0 p prev n s s' np st Hctx Hscr Hstep Hnone Hcnt g Hndg Hg.
  destruct (elim_step_rule cfg t p0 p prev n s s' np st Hctx Hscr Hstep Hnone Hcnt)
    as (x & low & low0 & HxElim & _ & Hmin & Htw & Hndl & _ & _ & _ & Hcase).
  assert (Hpg : Permutation low g).
  { apply NoDup_Permutation; [exact Hndl|exact Hndg|]. intros c. rewrite (Hg c), (Htw c).
    destruct Hmin as [Hxc Hxmin]. split.
    - intros [Hc Heq]. split; [exact Hc|]. intros c' Hc'. rewrite Heq. apply Hxmin. exact Hc'.
    - intros [Hc Hcmin]. split; [exact Hc|].
      apply Qle_antisym; [apply Hcmin; exact Hxc|apply Hxmin; exact Hc]. }
  pose proof (Permutation_length Hpg) as Hlen.
  destruct Hcase as [(El & Htb & Es)|(Hl2 & tt & l & pre & Htb & Ett & Hperm & _)].
  - split.
    + intros H2. exfalso. rewrite El in Hlen. cbn [length] in Hlen. lia.
    + intros _. split; [exact Htb|]. split; [exact Es|]. exists x. split; [|exact HxElim].
      rewrite El in Hpg. apply Permutation_length_1_inv in Hpg. exact Hpg.
  - split.
    + intros _. exists low, tt, l, x. split; [exact Htb|]. split; [exact Hpg|].
      split; [exact Ett|]. split; [|exact HxElim].
      eapply Permutation_trans; [exact Hperm|exact Hpg].
    + intros H1. exfalso. lia.
Qed.

(* ---------- elimination rounds recognised from the record, and along the run ---------- *)

(* a round whose record names an eliminated candidate is an elimination round *)
Theorem elim_step_observed : forall cfg t (p0 p : profile) prev n (s s' : mstate) np st,
  step_ctx p0 p prev -> (s_transfer cfg = TRandom -> script_ok s) ->
  stv_step cfg t p0 n p prev s = inl ((np, st), s') ->
  eliminated st <> [[]] ->
  (forall c, In c (cands p) -> tally c (ballots p) < t) /\
  Z.of_nat (length (cands p)) <> (s_m cfg - n)%Z /\
  elim_outcome p0 p st s s'.
Proof.
  intros cfg t p0 p prev n s s' np st Hctx Hscr Hstep Hel.
  destruct (stv_step_ok_inv cand ceqb ceqb_spec cfg t p0 p prev Hctx n s s' np st Hscr Hstep)
    as [[_ (W & others & mvs & s1 & Hr)]|[(_ & _ & _ & Hd)|(Hnone & Hcnt & _)]].
  - exfalso. destruct Hr as [_ _ _ _ _ _ HrElim _ _ _ _ _ _ _]. apply Hel. exact HrElim.
  - exfalso. destruct Hd as [_ _ Helim _ _ _ _]. apply Hel. exact Helim.
  - split; [exact Hnone|]. split; [exact Hcnt|].
    apply (elim_step_rule cfg t p0 p prev n s s' np st Hctx Hscr Hstep Hnone Hcnt).
Qed.

Theorem elim_run_rule : forall cfg (p : profile) (s s' : mstate) sts,
  wf_stv0 p -> (s_transfer cfg = TRandom -> script_ok s) ->
  run_stv cfg p s = inl (sts, s') ->
  exists t ps ss,
    stv_init cfg p = inl t /\ stv_trace cfg t p sts ps ss /\
    nth_error ps 0 = Some p /\ nth_error ss 0 = Some s /\ last ss s = s' /\
    (forall st0, nth_error sts 0 = Some st0 -> eliminated st0 = [[]]) /\
    forall r pr st sa sb,
      nth_error ps r = Some pr -> nth_error ss r = Some sa ->
      nth_error sts (S r) = Some st -> nth_error ss (S r) = Some sb ->
      eliminated st <> [[]] ->
      (forall c, In c (cands pr) -> tally c (ballots pr) < t) /\
      Z.of_nat (length (cands pr)) <> (s_m cfg - count_elected cand (firstn (S r) sts))%Z /\
      elim_outcome p pr st sa sb.
Proof.
  intros cfg p s s' sts Hwf Hscr H.
  destruct (run_trace_inv cand ceqb ceqb_spec cfg p s s' sts Hwf Hscr H)
    as [t [ps [ss [s0 [Ht [Htr [Hp0 [Hs0 [Hlast [H0 [Hst0 Hall]]]]]]]]]]].
  exists t, ps, ss. split; [exact Ht|]. split; [exact Htr|]. split; [exact Hp0|].
  split; [exact Hs0|]. split; [exact Hlast|]. split.
  { intros st0 E. rewrite Hst0 in E. injection E as <-.
    unfold STV.initial_state in H0.
    destruct (Core.first_place_votes cand ceqb p) as [d|e]; [|discriminate H0].
    injection H0 as <-. reflexivity. }
  pose proof Htr as [Hlp [Hls [Hso Hstep]]].
  intros r pr st sa sb Hp Hsa Hr' Hsb Hel.
  pose proof (nth_error_lt _ _ _ Hr') as Hlt.
  destruct (nth_error_ex ps (S r) ltac:(lia)) as [pr' Hp'].
  destruct (nth_error_ex sts r ltac:(lia)) as [prev Hr].
  destruct (Hall r pr prev sa Hp Hr Hsa) as [_ [Hctx Hscra]].
  pose proof (Hstep r pr prev sa pr' st sb Hp Hr Hsa Hp' Hr' Hsb) as Hs.
  exact (elim_step_observed cfg t p pr prev _ sa sb pr' st Hctx Hscra Hs Hel).
Qed.

End ElimTie.
