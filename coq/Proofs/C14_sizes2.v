(* Proofs/C14_sizes2.v — property C14, slate_PlackettLuce: the [sizes] argument of the type loop tied
   to the preference intervals.  If, slate by slate, [size_of sizes b] is the number of supported
   (non-zero-support) candidates of the voter bloc's interval for slate b ([length (pi_int iv)]),
   then the size premises of [gen_slate_pl_wf] follow, the run is well-formed, and every ballot is
   complete over the intervals' candidates with the zero-support ones as one final tied group. *)
From VK Require Import Base Core GenValidation PrefInterval Generators Generators2 Laws.
From VK.Spec Require Import Content GenSpec Gen2Spec BTSpec GenLaws TypesPushSpec GenRunSpec.
From VK.Proofs Require Import Lib_rk Lib_sets C12_expand C15_interval C15_bt C15_slate C14_wf C14_kernels
     C14_types C14_sizes C14_gen2 C16_types_push C14_runs C14_runs_slate.
From Coq Require Import Permutation Lia Lqa Setoid Morphisms.

(* ------------------------------------------------------------------ *)
(** * vocabulary (repeated verbatim in Properties/C14_sizes2.v) *)

Definition slate_zero_p (ivs : list (bloc * pinterval)) : list pcand :=
  concat (map (fun x : bloc * pinterval => pi_zero (snd x)) ivs).
Definition slate_cands_p (ivs : list (bloc * pinterval)) : list pcand :=
  concat (map (fun x : bloc * pinterval => pi_cands (snd x)) ivs).

Definition iv_complete_shape_p (ivs : list (bloc * pinterval)) (r : ranking pcand) (s : list (pcand * Q)) : Prop :=
  s = [] /\
  exists order tail,
    Permutation order (slate_nz ivs) /\ Permutation tail (slate_zero_p ivs) /\
    r = singletons pcand order ++ (match tail with [] => [] | _ => [tail] end) /\
    (slate_zero_p ivs = [] -> r = singletons pcand order) /\
    flat pcand r = order ++ tail /\
    Permutation (flat pcand r) (slate_cands_p ivs) /\
    (NoDup (slate_cands_p ivs) -> NoDup (flat pcand r)).

(* ------------------------------------------------------------------ *)
(** * sizes listed slate by slate in the order of the intervals: the list premise of slate_params_ok *)

Lemma size_of_cons_same : forall b n rest, size_of ((b, n) :: rest) b = n.
Proof. intros b n rest. unfold size_of. cbn [find fst snd]. rewrite Pos.eqb_refl. reflexivity. Qed.

Lemma size_of_cons_other : forall b b0 n rest, b <> b0 -> size_of ((b0, n) :: rest) b = size_of rest b.
Proof.
  intros b b0 n rest Hne. unfold size_of. cbn [find fst snd].
  destruct (Pos.eqb_spec b b0) as [E|_]; [contradiction|reflexivity].
Qed.

Lemma sizes_list_of_tied : forall (ivs : list (bloc * pinterval)) (sizes : list (bloc * nat)),
  NoDup (map fst ivs) -> map fst sizes = map fst ivs ->
  (forall bl iv, In (bl, iv) ivs -> size_of sizes bl = length (pi_int iv)) ->
  sizes = map (fun x : bloc * pinterval => (fst x, length (pi_int (snd x)))) ivs.
Proof.
  induction ivs as [|[b0 iv0] ivs IH]; intros sizes Hnd Hk Ht.
  - destruct sizes; [reflexivity|discriminate].
  - destruct sizes as [|[b1 n1] sizes]; [discriminate|].
    cbn [map fst snd] in Hk |- *. injection Hk as -> Hk.
    cbn [map fst] in Hnd. inversion Hnd as [|y l Hnotin Hnd']; subst.
    pose proof (Ht b0 iv0 (or_introl eq_refl)) as E0. rewrite size_of_cons_same in E0. subst n1.
    f_equal. apply IH; [exact Hnd'|exact Hk|].
    intros bl iv Hin. rewrite <- (Ht bl iv (or_intror Hin)). symmetry. apply size_of_cons_other.
    intros ->. apply Hnotin. apply in_map_iff. exists (b0, iv). split; [reflexivity|exact Hin].
Qed.

Theorem sizes_tied_params : forall x : spl_in,
  map fst (spl_sizes x) = map fst (spl_ivs x) ->
  (forall bl iv, In (bl, iv) (spl_ivs x) -> size_of (spl_sizes x) bl = length (pi_int iv)) ->
  NoDup (map fst (spl_ivs x)) ->
  (forall bl iv, In (bl, iv) (spl_ivs x) -> (1 <= length (pi_int iv))%nat) ->
  NoDup (slate_nz (spl_ivs x)) ->
  coh_row_ok (spl_ivs x) (spl_coh x) ->
  spl_params_ok x.
Proof.
  intros x Hk Ht Hnd H1 Hdis Hc. split; [|exact Hc].
  split; [exact Hnd|]. split; [apply sizes_list_of_tied; assumption|]. split; assumption.
Qed.

(* ------------------------------------------------------------------ *)
(** * one flip per supported candidate *)

Lemma list_sum_perm : forall l l' : list nat, Permutation l l' -> list_sum l = list_sum l'.
Proof. intros l l' P. induction P; simpl; lia. Qed.

Lemma tied_sum_list : forall (sizes : list (bloc * nat)) (l : list (bloc * pinterval)),
  (forall bl iv, In (bl, iv) l -> size_of sizes bl = length (pi_int iv)) ->
  list_sum (map (size_of sizes) (map fst l)) = length (slate_nz l).
Proof.
  intros sizes. induction l as [|[b iv] l IH]; intros Ht; [reflexivity|].
  unfold slate_nz. cbn [map fst snd concat list_sum]. rewrite app_length, map_length.
  fold (slate_nz l). rewrite (Ht b iv (or_introl eq_refl)).
  change (list_sum (length (pi_int iv) :: map (size_of sizes) (map fst l)))
    with (length (pi_int iv) + list_sum (map (size_of sizes) (map fst l)))%nat.
  f_equal. apply IH. intros bl iv' Hin. apply Ht. right. exact Hin.
Qed.

Lemma tied_flip_count : forall ivs sizes coh,
  NoDup (map fst ivs) ->
  (forall bl iv, In (bl, iv) ivs -> size_of sizes bl = length (pi_int iv)) ->
  coh_row_ok ivs coh ->
  list_sum (map (size_of sizes) (map fst coh)) = length (slate_nz ivs).
Proof.
  intros ivs sizes coh Hnd Ht (Hndc & Hkeys & _).
  assert (P : Permutation (map fst coh) (map fst ivs)) by (apply NoDup_Permutation; assumption).
  rewrite (list_sum_perm _ _ (Permutation_map (size_of sizes) P)). apply tied_sum_list. exact Ht.
Qed.

(* the draw-shape premise in interval terms gives the one of Spec/GenRunSpec.v *)
Lemma tied_draw_shape : forall (x : spl_in) (d : spl_draw),
  NoDup (map fst (spl_ivs x)) ->
  (forall bl iv, In (bl, iv) (spl_ivs x) -> size_of (spl_sizes x) bl = length (pi_int iv)) ->
  coh_row_ok (spl_ivs x) (spl_coh x) ->
  (length (fst (fst d)) = length (slate_nz (spl_ivs x)) /\
   forall t calls,
     type_loop (fst (fst d)) (map fst (spl_coh x)) (map snd (spl_coh x)) (spl_sizes x) [] (snd (fst d))
       = inl (t, calls) ->
     forall pop, In (GShuffle pop) calls -> exists s, snd (fst d) = Some s /\ Permutation s pop) ->
  spl_draw_shape_ok x d.
Proof.
  intros x d Hnd Ht Hc (Hfl & Hsh). split; [|exact Hsh].
  rewrite Hfl. symmetry. apply tied_flip_count; assumption.
Qed.

(* ------------------------------------------------------------------ *)
(** * the type has the multiplicities of the intervals *)

Lemma spl_type_counts_tied : forall (x : spl_in) (d : spl_draw) t calls,
  NoDup (map fst (spl_ivs x)) ->
  (forall bl iv, In (bl, iv) (spl_ivs x) -> size_of (spl_sizes x) bl = length (pi_int iv)) ->
  (forall bl iv, In (bl, iv) (spl_ivs x) -> (1 <= length (pi_int iv))%nat) ->
  coh_row_ok (spl_ivs x) (spl_coh x) ->
  spl_draw_shape_ok x d ->
  type_loop (fst (fst d)) (map fst (spl_coh x)) (map snd (spl_coh x)) (spl_sizes x) [] (snd (fst d))
    = inl (t, calls) ->
  (forall y, In y t -> In y (map fst (spl_ivs x))) /\
  (forall bl iv, In (bl, iv) (spl_ivs x) -> count_bloc bl t = length (pi_int iv)).
Proof.
  intros x d t calls Hnd Ht H1 (Hndc & Hkeys & Hnn) (Hfl & Hsh) H.
  assert (Hsz : forall b, In b (map fst (spl_coh x)) -> (1 <= size_of (spl_sizes x) b)%nat).
  { intros b Hb. apply Hkeys in Hb. apply in_map_iff in Hb. destruct Hb as ([bl iv] & Hbl & Hbi).
    cbn [fst] in Hbl. subst bl. rewrite (Ht b iv Hbi). apply (H1 b iv Hbi). }
  destruct (type_loop_arrangement (spl_sizes x) (fst (fst d)) (map fst (spl_coh x)) (map snd (spl_coh x))
              (snd (fst d)) t calls Hndc ltac:(rewrite !map_length; reflexivity) Hnn Hsz Hfl (Hsh t calls H) H)
    as (C1 & C2 & _ & _).
  split.
  - intros y Hy. apply Hkeys. destruct (in_dec Pos.eq_dec y (map fst (spl_coh x))) as [Hin|Hnin]; [exact Hin|].
    exfalso. specialize (C2 y Hnin). apply in_split in Hy. destruct Hy as (l1 & l2 & ->).
    rewrite count_bloc_app, count_bloc_cons_same in C2. lia.
  - intros bl iv Hbi. rewrite C1.
    + apply (Ht bl iv Hbi).
    + apply Hkeys. apply in_map_iff. exists (bl, iv). split; [reflexivity|exact Hbi].
Qed.

(* ------------------------------------------------------------------ *)
(** * complete over the intervals' candidates *)

Lemma concat_map_app_perm : forall (A B : Type) (f g : A -> list B) (l : list A),
  Permutation (concat (map (fun y => f y ++ g y) l)) (concat (map f l) ++ concat (map g l)).
Proof.
  intros A B f g. induction l as [|a l IH]; [constructor|].
  cbn [map concat]. rewrite <- !app_assoc. apply Permutation_app_head.
  eapply Permutation_trans; [apply Permutation_app_head; exact IH|].
  rewrite !app_assoc. apply Permutation_app_tail. apply Permutation_app_comm.
Qed.

Lemma slate_cands_perm : forall ivs, Permutation (slate_cands_p ivs) (slate_nz ivs ++ slate_zero_p ivs).
Proof.
  intros ivs. unfold slate_cands_p, slate_nz, slate_zero_p, pi_cands.
  apply (concat_map_app_perm _ _ (fun x : bloc * pinterval => map fst (pi_int (snd x)))
                                 (fun x : bloc * pinterval => pi_zero (snd x))).
Qed.

Lemma complete_shape_intervals : forall ivs zero r s,
  Permutation zero (slate_zero_p ivs) ->
  complete_shape (slate_nz ivs) zero r s -> iv_complete_shape_p ivs r s.
Proof.
  intros ivs zero r s Pz (Hs & order & tail & Po & Pt & Hr & Hf & Hp & Hn).
  split; [exact Hs|]. exists order, tail.
  assert (Pt' : Permutation tail (slate_zero_p ivs)) by (eapply Permutation_trans; eassumption).
  assert (Pall : Permutation (flat pcand r) (slate_cands_p ivs)).
  { rewrite Hf. eapply Permutation_trans; [|apply Permutation_sym; apply slate_cands_perm].
    apply Permutation_app; assumption. }
  split; [exact Po|]. split; [exact Pt'|]. split; [exact Hr|]. split.
  { intros Ez. rewrite Ez in Pt'. apply Permutation_sym, Permutation_nil in Pt'. subst tail.
    rewrite Hr. apply app_nil_r. }
  split; [exact Hf|]. split; [exact Pall|].
  intros Hnd. apply (Permutation_NoDup (Permutation_sym Pall) Hnd).
Qed.

(* ------------------------------------------------------------------ *)
(** * the pool of one bloc, and the run *)

Lemma spl_pool_ok_tied : forall x p,
  NoDup (map fst (spl_ivs x)) ->
  (forall bl iv, In (bl, iv) (spl_ivs x) -> size_of (spl_sizes x) bl = length (pi_int iv)) ->
  (forall bl iv, In (bl, iv) (spl_ivs x) -> (1 <= length (pi_int iv))%nat) ->
  NoDup (slate_nz (spl_ivs x)) ->
  coh_row_ok (spl_ivs x) (spl_coh x) ->
  (forall d, In d (spl_ballots x) -> spl_draw_shape_ok x d) ->
  spl_pool x = inl p ->
  pool_ok spl_id spl_size spl_shape_of x (fst p, fst (snd p)).
Proof.
  intros x p Hnd Ht H1 Hdis Hc Hd H. apply spl_pool_inv in H. destruct H as (bs & Hr & E1 & E2).
  unfold pool_ok. cbn [fst snd]. rewrite E1, E2. apply rmap_ok_inv in Hr.
  split; [reflexivity|]. split; [rewrite map_length; symmetry; apply (Forall2_len _ _ _ _ _ Hr)|].
  intros b Hb. apply in_map_iff in Hb. destruct Hb as (y & <- & Hy).
  destruct (Forall2_In_r _ _ _ _ _ _ Hr Hy) as (d & Hdin & Hone).
  apply spl_one_inv in Hone. destruct Hone as (t & c1 & b & c2 & Htl & Hb & ->). cbn [fst].
  destruct (spl_type_counts_tied x d t c1 Hnd Ht H1 Hc (Hd d Hdin) Htl) as (T1 & T2).
  apply (slate_ballot_complete _ _ _ _ _ _ Hnd Hdis T1 T2 Hb).
Qed.

Lemma pool_ok_shape_impl : forall (X : Type) (bid : X -> bloc) (size : X -> nat)
    (shape shape' : X -> ranking pcand -> list (pcand * Q) -> Prop) x bp,
  (forall r s, shape x r s -> shape' x r s) ->
  pool_ok bid size shape x bp -> pool_ok bid size shape' x bp.
Proof.
  intros X bid size shape shape' x bp Himp (A & B & C). split; [exact A|]. split; [exact B|].
  intros b Hb. destruct (C b Hb) as (W & S). split; [exact W|apply Himp; exact S].
Qed.

(* (i) well-formedness under the interval-based hypothesis on sizes (pointwise: the order and the
   extra entries of [sizes] do not matter) *)
Theorem gen_slate_pl_wf_tied : forall blocs by_bloc agg calls,
  (forall x, In x blocs ->
     (forall bl iv, In (bl, iv) (spl_ivs x) -> size_of (spl_sizes x) bl = length (pi_int iv)) /\
     NoDup (map fst (spl_ivs x)) /\
     (forall bl iv, In (bl, iv) (spl_ivs x) -> (1 <= length (pi_int iv))%nat) /\
     NoDup (slate_nz (spl_ivs x)) /\
     coh_row_ok (spl_ivs x) (spl_coh x) /\
     forall d, In d (spl_ballots x) ->
       length (fst (fst d)) = length (slate_nz (spl_ivs x)) /\
       forall t calls,
         type_loop (fst (fst d)) (map fst (spl_coh x)) (map snd (spl_coh x)) (spl_sizes x) [] (snd (fst d))
           = inl (t, calls) ->
         forall pop, In (GShuffle pop) calls -> exists s, snd (fst d) = Some s /\ Permutation s pop) ->
  gen_slate_pl_run blocs = inl (by_bloc, agg, calls) ->
  run_wf spl_id spl_size spl_shape_of blocs by_bloc agg.
Proof.
  intros blocs by_bloc agg calls Hok H.
  apply (bloc_run_wf spl_pool spl_id spl_size spl_shape_of blocs by_bloc agg calls); [|exact H].
  intros x p Hx Hp. destruct (Hok x Hx) as (Ht & Hnd & H1 & Hdis & Hc & Hd).
  apply spl_pool_ok_tied; try assumption.
  intros d Hdin. apply tied_draw_shape; try assumption. apply (Hd d Hdin).
Qed.

(* (ii) completeness over the intervals *)
Theorem gen_slate_pl_complete_tied : forall blocs by_bloc agg calls,
  (forall x, In x blocs ->
     (forall bl iv, In (bl, iv) (spl_ivs x) -> size_of (spl_sizes x) bl = length (pi_int iv)) /\
     Permutation (spl_zero x) (slate_zero_p (spl_ivs x)) /\
     NoDup (map fst (spl_ivs x)) /\
     (forall bl iv, In (bl, iv) (spl_ivs x) -> (1 <= length (pi_int iv))%nat) /\
     NoDup (slate_nz (spl_ivs x)) /\
     coh_row_ok (spl_ivs x) (spl_coh x) /\
     forall d, In d (spl_ballots x) ->
       length (fst (fst d)) = length (slate_nz (spl_ivs x)) /\
       forall t calls,
         type_loop (fst (fst d)) (map fst (spl_coh x)) (map snd (spl_coh x)) (spl_sizes x) [] (snd (fst d))
           = inl (t, calls) ->
         forall pop, In (GShuffle pop) calls -> exists s, snd (fst d) = Some s /\ Permutation s pop) ->
  gen_slate_pl_run blocs = inl (by_bloc, agg, calls) ->
  run_wf spl_id spl_size (fun x => iv_complete_shape_p (spl_ivs x)) blocs by_bloc agg.
Proof.
  intros blocs by_bloc agg calls Hok H.
  apply (bloc_run_wf spl_pool spl_id spl_size (fun x => iv_complete_shape_p (spl_ivs x))
                     blocs by_bloc agg calls); [|exact H].
  intros x p Hx Hp. destruct (Hok x Hx) as (Ht & Pz & Hnd & H1 & Hdis & Hc & Hd).
  apply (pool_ok_shape_impl spl_in spl_id spl_size spl_shape_of).
  - intros r s Hs. apply (complete_shape_intervals (spl_ivs x) (spl_zero x) r s Pz Hs).
  - apply spl_pool_ok_tied; try assumption.
    intros d Hdin. apply tied_draw_shape; try assumption. apply (Hd d Hdin).
Qed.

(* ------------------------------------------------------------------ *)
(** * intervals built by PreferenceInterval(...): pi_int = the candidates of positive support *)

Theorem mk_interval_support_count : forall d iv, mk_interval d = inl iv ->
  length (pi_int iv) = length (filter (fun p : pcand * Q => Qlt_bool 0 (snd p)) d) /\
  map fst (pi_int iv) = map fst (filter (fun p : pcand * Q => Qlt_bool 0 (snd p)) d) /\
  pi_zero iv = map fst (filter (fun p : pcand * Q => Qeq_bool (snd p) 0) d).
Proof.
  intros d iv H. destruct (mk_interval_inl d iv H) as (_ & Ez & Ei).
  rewrite Ei, Ez. split; [apply map_length|]. split; [|reflexivity].
  rewrite map_map. reflexivity.
Qed.

(* ------------------------------------------------------------------ *)
(** * the hypothesis is needed: sizes that undercount a slate give an incomplete ballot *)

Theorem gen_slate_pl_wrong_sizes_refuted :
  exists (x : spl_in) by_bloc agg calls,
    NoDup (map fst (spl_ivs x)) /\ NoDup (slate_nz (spl_ivs x)) /\ coh_row_ok (spl_ivs x) (spl_coh x) /\
    map fst (spl_sizes x) = map fst (spl_ivs x) /\
    gen_slate_pl_run [x] = inl (by_bloc, agg, calls) /\
    exists b, In b (ballots agg) /\ ~ complete_shape (slate_nz (spl_ivs x)) (spl_zero x) (rk b) (sc b).
Proof.
  exists (mkSPL 1%positive
            [(1%positive, mkPI [(11%positive, 1#2); (12%positive, 1#2)] []);
             (2%positive, mkPI [(21%positive, 1%Q)] [22%positive])]
            [(1%positive, 1%nat); (2%positive, 1%nat)] [(1%positive, 3#4); (2%positive, 1#4)] [22%positive]
            [([1#2; 9#10]%Q, None, [(1%positive, [12%positive; 11%positive]); (2%positive, [21%positive])])]).
  do 3 eexists. cbn [spl_ivs spl_coh spl_sizes spl_zero].
  split; [apply pnodup_NoDup; reflexivity|]. split; [apply pnodup_NoDup; reflexivity|].
  split.
  { split; [apply pnodup_NoDup; reflexivity|]. split; [intros b; cbn; tauto|].
    repeat constructor; discriminate. }
  split; [reflexivity|]. split; [vm_compute; reflexivity|].
  eexists. split; [left; reflexivity|]. cbn [rk sc].
  intros (_ & order & tail & _ & _ & _ & _ & P & _). apply Permutation_length in P. discriminate P.
Qed.
