(* Proofs/STV_round.v — the transfers of an election round, and the two inversion theorems on
   [stv_step]: what a successful round looks like (election / default election / elimination), and
   which errors a round can raise from a valid profile. *)
From VK Require Import Base Core STV EditSpec ScoreSpec STVSpec.
From VK.Proofs Require Import Lib_sets Lib_rk Lib_condense Lib_condense12 C12_edit C03_transfer
  C04_scoring Elect STV_lib STV_wsum STV_tb STV_step.
From Coq Require Import Permutation Lia Lqa Setoid Morphisms.

Section WithCand.
Variable cand : Type.
Variable ceqb : cand -> cand -> bool.
Hypothesis ceqb_spec : forall a b, reflect (a = b) (ceqb a b).

Notation cset := (cset cand).
Notation ranking := (ranking cand).
Notation ballot := (ballot cand).
Notation profile := (profile cand).
Notation scores := (scores cand).
Notation mstate := (mstate cand).
Notation estate := (estate cand).
Notation memb := (memb cand ceqb).
Notation subsetb := (subsetb cand ceqb).
Notation cset_eqb := (cset_eqb cand ceqb).
Notation ranking_eqb := (ranking_eqb cand ceqb).
Notation flat := (flat cand).
Notation strip := (strip cand ceqb).
Notation set_diff := (set_diff cand ceqb).
Notation first_is := (first_is cand ceqb).
Notation pile := (pile cand ceqb).
Notation total_wt := (total_wt cand).
Notation tally := (tally cand ceqb).
Notation wf_stv_ballot := (wf_stv_ballot cand).
Notation wf_stv0 := (wf_stv0 cand).
Notation state_of := (state_of cand ceqb).
Notation step_ctx := (step_ctx cand ceqb).
Notation script_ok := (script_ok cand).
Notation lookup0 := (lookup0 cand ceqb).
Notation first_place_votes := (first_place_votes cand ceqb).
Notation score_to_ranking := (score_to_ranking cand).
Notation condense_bs := (condense_bs cand ceqb).
Notation remove_cand_bs := (remove_cand_bs cand ceqb).
Notation remove_cand_prof := (remove_cand_prof cand ceqb).
Notation mk_profile := (mk_profile cand ceqb).
Notation score_free := (score_free cand).
Notation all_pos := (all_pos cand).
Notation tiebreak_set := (tiebreak_set cand ceqb).
Notation elect_top_m := (elect_top_m cand ceqb).
Notation singletons := (singletons cand).
Notation frac_transfer := (frac_transfer cand ceqb).
Notation rand_transfer := (rand_transfer cand ceqb).
Notation full_transfer := (full_transfer cand ceqb).
Notation do_transfer := (do_transfer cand ceqb).
Notation transfer_all := (transfer_all cand ceqb).
Notation quota_groups := (quota_groups cand ceqb).
Notation simultaneous_elect := (simultaneous_elect cand ceqb).
Notation single_elect := (single_elect cand ceqb).
Notation stv_step := (stv_step cand ceqb).
Notation state_of_scores := (state_of_scores cand).
Notation no_group := (no_group cand).
Notation empty_profile := (empty_profile cand).
Notation has_ranking := (has_ranking cand).
Notation scr_suffix := (scr_suffix cand).
Notation above := (above cand).
Notation pick_elim := (pick_elim cand ceqb).

Let memb_In := Lib_rk.memb_In cand ceqb ceqb_spec.
Let memb_false_iff := Lib_rk.memb_false_iff cand ceqb ceqb_spec.

(* ====================== one transfer returns untied ballots ====================== *)

Lemma ranking_eqb_single_eq : forall a b : ranking,
  Forall (fun g => length g = 1%nat) a -> Forall (fun g => length g = 1%nat) b ->
  ranking_eqb a b = true -> a = b.
Proof.
  induction a as [|g a IH]; intros [|g' b] Ha Hb H; try discriminate; [reflexivity|].
  inversion Ha as [|x l Hg Ha']; subst. inversion Hb as [|x l Hg' Hb']; subst.
  cbn [Core.ranking_eqb] in H. apply andb_true_iff in H. destruct H as [H1 H2].
  destruct g as [|c [|c2 g]]; try discriminate. destruct g' as [|c' [|c2' g']]; try discriminate.
  apply (Lib_sets.cset_eqb_iff cand ceqb ceqb_spec) in H1. destruct H1 as [H1 _].
  destruct (H1 c (or_introl eq_refl)) as [->|[]]. f_equal. apply IH; assumption.
Qed.

Lemma wf_ballot_stripped : forall cs w (b k : ballot), wf_stv_ballot cs b ->
  rk k = strip [w] (rk b) -> rk k <> [] -> 0 < wt k -> sc k = [] -> wf_stv_ballot cs k.
Proof.
  intros cs w b k Hb Hr Hne Hw Hsc.
  apply (wf_ballot_weaken cand (set_diff cs [w]) cs).
  - intros c Hc. apply (Lib_rk.set_diff_In cand ceqb ceqb_spec) in Hc. apply Hc.
  - apply (wf_ballot_strip cand ceqb ceqb_spec cs [w] b k); assumption.
Qed.

Lemma wf_ballots_sf : forall cs (bs : list ballot), Forall (wf_stv_ballot cs) bs -> score_free bs.
Proof.
  intros cs bs H. unfold EditSpec.score_free. rewrite Forall_forall in *. intros b Hb. apply (H b Hb).
Qed.

Lemma wf_ballots_pos : forall cs (bs : list ballot), Forall (wf_stv_ballot cs) bs -> all_pos bs.
Proof.
  intros cs bs H. unfold EditSpec.all_pos. rewrite Forall_forall in *. intros b Hb. apply (H b Hb).
Qed.

Lemma do_transfer_wf : forall k w fpv (bs : list ballot) t (s s' : mstate) out cs,
  do_transfer k w fpv bs t s = inl (out, s') ->
  (k = TRandom -> script_ok s) ->
  Forall (wf_stv_ballot cs) bs ->
  Forall (wf_stv_ballot cs) out /\ scr_suffix s s'.
Proof.
  intros k w fpv bs t s s' out cs H Hscr Hwf. rewrite Forall_forall in Hwf.
  destruct k; cbn [STV.do_transfer] in H.
  - (* fractional *)
    unfold mlift in H. destruct (frac_transfer w fpv bs t) as [a|e] eqn:E; [|discriminate].
    injection H as <- <-. split; [|apply scr_suffix_refl]. apply Forall_forall. intros k Hk.
    destruct (frac_no_winner cand ceqb ceqb_spec w fpv bs t a E k Hk)
      as (_ & Hne & Hpos & Hsc & b & Hb & Hr & _).
    apply (wf_ballot_stripped cs w b k (Hwf b Hb)); assumption.
  - (* random *)
    destruct (rand_submultiset cand ceqb ceqb_spec w fpv bs t s out s' H)
      as (l & Hs & _ & Hsrc & _ & _ & _).
    pose proof (rand_ok_inv cand ceqb w fpv bs t s out s' H) as (_ & _ & l' & Hs' & _ & _ & Hout).
    assert (l' = l) by congruence. subst l'.
    split; [|apply (scr_suffix_cons cand s s' (DRanks l) Hs)].
    specialize (Hscr eq_refl). unfold STVSpec.script_ok in Hscr. rewrite Hs in Hscr.
    inversion Hscr as [|x y Hl _]; subst. cbn [STVSpec.draw_ok] in Hl. rewrite Forall_forall in Hl.
    apply Forall_forall. intros k Hk. unfold rt_out in Hk.
    set (pre := filter (keep_ballot cand) (rt_others cand ceqb w bs ++ map (fun r => plain_ballot cand r 1) l)) in *.
    assert (Hsf : score_free pre).
    { apply (filter_sf cand). apply (app_sf cand); [apply rt_others_sf|apply plain_sf]. }
    assert (Hpos : all_pos pre).
    { unfold EditSpec.all_pos. apply Forall_forall. intros x Hx. apply filter_In in Hx.
      destruct Hx as [_ Hx]. apply (keep_ballot_iff cand) in Hx. apply Hx. }
    pose proof (condense_sf cand ceqb _ Hsf) as H1. pose proof (condense_pos cand ceqb _ Hpos) as H2.
    unfold EditSpec.score_free in H1. unfold EditSpec.all_pos in H2. rewrite Forall_forall in H1, H2.
    destruct (condense_rk_in cand ceqb _ k Hk) as (b' & Hb' & Hr).
    apply filter_In in Hb'. destruct Hb' as [Hb' Hkeep]. apply (keep_ballot_iff cand) in Hkeep.
    apply in_app_or in Hb'. destruct Hb' as [Hb'|Hb'].
    + unfold rt_others in Hb'. apply in_map_iff in Hb'. destruct Hb' as (b & <- & Hb).
      apply filter_In in Hb. destruct Hb as [Hb _]. cbn [rk wt] in *.
      apply (wf_ballot_stripped cs w b k (Hwf b Hb)); [exact Hr|rewrite Hr; apply Hkeep|apply H2; exact Hk|apply H1; exact Hk].
    + apply in_map_iff in Hb'. destruct Hb' as (r0 & <- & Hr0). cbn [plain_ballot rk wt] in *.
      destruct (Hsrc r0 Hr0) as (b & Hb & _ & Hne & Heq).
      assert (E : r0 = strip [w] (rk b)).
      { apply ranking_eqb_single_eq; [apply Hl; exact Hr0| |exact Heq].
        apply (strip_single cand ceqb). apply (Hwf b Hb). }
      apply (wf_ballot_stripped cs w b k (Hwf b Hb)); [congruence|rewrite Hr; apply Hkeep|apply H2; exact Hk|apply H1; exact Hk].
  - (* full weight *)
    unfold mlift, STV.full_transfer, ok in H. injection H as <- <-.
    split; [|apply scr_suffix_refl]. apply Forall_forall. intros k Hk.
    assert (Hsf : score_free bs) by (apply (wf_ballots_sf cs); apply Forall_forall; exact Hwf).
    destruct (remove_cand_bs_out cand ceqb ceqb_spec [w] bs k Hsf Hk) as (Hsc & Hpos & Hne & b & Hb & Hr).
    apply (wf_ballot_stripped cs w b k (Hwf b Hb)); assumption.
Qed.

(* ====================== the transfers of all winners of a round ====================== *)

Inductive transfers (k : transfer_kind) (p : profile) (d : scores) (t : Q)
  : list cand -> mstate -> list (list ballot) -> mstate -> Prop :=
| tr_nil : forall s, transfers k p d t [] s [] s
| tr_cons : forall w ws s a s1 mvs s2,
    In w (cands p) ->
    do_transfer k w (lookup0 w d) (pile p w) t s = inl (a, s1) ->
    transfers k p d t ws s1 mvs s2 ->
    transfers k p d t (w :: ws) s (a :: mvs) s2.

Lemma transfer_all_inv : forall k ws p d t (s s' : mstate) out,
  transfer_all k ws p d t s = inl (out, s') ->
  exists mvs, transfers k p d t ws s mvs s' /\ out = concat mvs.
Proof.
  intros k ws p d t. induction ws as [|w ws IH]; intros s s' out H.
  - cbn [STV.transfer_all] in H. injection H as <- <-. exists []. split; [constructor|reflexivity].
  - cbn [STV.transfer_all] in H. destruct (memb w (cands p)) eqn:Em; [|discriminate].
    cbn [negb] in H. unfold mbind at 1 in H.
    destruct (do_transfer k w (lookup0 w d) (pile p w) t s) as [[a s1]|e] eqn:E1; [|discriminate].
    unfold mbind in H. destruct (transfer_all k ws p d t s1) as [[rest s2]|e] eqn:E2; [|discriminate].
    injection H as <- <-. destruct (IH _ _ _ E2) as (mvs & Htr & ->).
    exists (a :: mvs). split; [|reflexivity].
    econstructor; [apply memb_In; exact Em|exact E1|exact Htr].
Qed.

Lemma transfer_all_err : forall k ws p d t (s : mstate) e,
  transfer_all k ws p d t s = inr e ->
  (e = EKey /\ exists w, In w ws /\ ~ In w (cands p)) \/
  (exists pre w post mvs s1, ws = pre ++ w :: post /\ transfers k p d t pre s mvs s1 /\
     do_transfer k w (lookup0 w d) (pile p w) t s1 = inr e).
Proof.
  intros k ws p d t. induction ws as [|w ws IH]; intros s e H.
  - discriminate.
  - cbn [STV.transfer_all] in H. destruct (memb w (cands p)) eqn:Em.
    + cbn [negb] in H. unfold mbind at 1 in H.
      destruct (do_transfer k w (lookup0 w d) (pile p w) t s) as [[a s1]|e'] eqn:E1.
      * unfold mbind in H. destruct (transfer_all k ws p d t s1) as [[rest s2]|e''] eqn:E2; [discriminate|].
        injection H as <-. destruct (IH _ _ E2) as [[-> (w' & Hw' & Hn)]|(pre & w' & post & mvs & s2 & -> & Htr & Herr)].
        -- left. split; [reflexivity|]. exists w'. split; [right; exact Hw'|exact Hn].
        -- right. exists (w :: pre), w', post, (a :: mvs), s2. split; [reflexivity|]. split; [|exact Herr].
           econstructor; [apply memb_In; exact Em|exact E1|exact Htr].
      * injection H as <-. right. exists [], w, ws, [], s. split; [reflexivity|]. split; [constructor|exact E1].
    + cbn [negb] in H. injection H as <-. left. split; [reflexivity|]. exists w.
      split; [left; reflexivity|apply memb_false_iff; exact Em].
Qed.

Lemma pile_wf : forall p c, wf_stv0 p -> Forall (wf_stv_ballot (cands p)) (pile p c).
Proof.
  intros p c [_ H]. rewrite Forall_forall in *. intros b Hb. apply pile_in in Hb. apply H. apply Hb.
Qed.

Lemma transfers_wf : forall k p d t ws (s s' : mstate) mvs,
  transfers k p d t ws s mvs s' -> wf_stv0 p -> (k = TRandom -> script_ok s) ->
  Forall (Forall (wf_stv_ballot (cands p))) mvs /\ scr_suffix s s' /\ length mvs = length ws.
Proof.
  intros k p d t ws s s' mvs H Hwf. induction H as [s|w ws s a s1 mvs s2 Hw Hd _ IH]; intros Hscr.
  - split; [constructor|]. split; [apply scr_suffix_refl|reflexivity].
  - destruct (do_transfer_wf k w _ _ t s s1 a (cands p) Hd Hscr (pile_wf p w Hwf)) as [Ha Hsuf].
    destruct IH as (IH1 & IH2 & IH3).
    { intros Hk. apply (script_ok_suffix cand s s1 Hsuf). apply Hscr. exact Hk. }
    split; [constructor; assumption|]. split; [eapply scr_suffix_trans; eassumption|].
    cbn [length]. rewrite IH3. reflexivity.
Qed.

(* ====================== the profile after an election ====================== *)

Lemma bbfc_ok : forall p, wf_stv0 p -> ballots_by_first_check cand ceqb p = inl tt.
Proof.
  intros p [_ Hwf]. unfold Core.ballots_by_first_check. apply rfirst_err_ok_inv. intros b Hb.
  rewrite Forall_forall in Hwf.
  destruct (wf_ballot_head cand (cands p) b (Hwf b Hb)) as (h & rest & E & Hin & _).
  rewrite E. apply memb_In in Hin. rewrite Hin. reflexivity.
Qed.

Lemma concat_Forall : forall {A} (P : A -> Prop) (ls : list (list A)),
  Forall (Forall P) ls -> Forall P (concat ls).
Proof.
  intros A P ls H. induction H as [|l ls Hl _ IH]; [constructor|]. cbn [concat].
  apply Forall_app. split; assumption.
Qed.

Lemma piles_wf : forall p cs', wf_stv0 p -> Forall (wf_stv_ballot (cands p)) (concat (map (pile p) cs')).
Proof.
  intros p cs' Hwf. apply concat_Forall. apply Forall_forall. intros l Hl.
  apply in_map_iff in Hl. destruct Hl as (c & <- & _). apply pile_wf. exact Hwf.
Qed.

Lemma has_ranking_all : forall cs (bs : list ballot), Forall (wf_stv_ballot cs) bs ->
  filter has_ranking bs = bs.
Proof.
  intros cs bs H. apply Lib_sets.filter_all_true. intros b Hb. rewrite Forall_forall in H.
  unfold STV.has_ranking. apply nonempty_true_iff. apply (H b Hb).
Qed.

(* ballots of the old profile (or transferred ones) with the candidates W struck out *)
Lemma removed_wf : forall cs W (bs : list ballot), Forall (wf_stv_ballot cs) bs ->
  Forall (wf_stv_ballot (set_diff cs W)) (remove_cand_bs W true false bs).
Proof.
  intros cs W bs H. apply Forall_forall. intros k Hk.
  destruct (remove_cand_bs_out cand ceqb ceqb_spec W bs k (wf_ballots_sf cs bs H) Hk)
    as (Hsc & Hpos & Hne & b & Hb & Hr).
  rewrite Forall_forall in H.
  apply (wf_ballot_strip cand ceqb ceqb_spec cs W b k (H b Hb)); assumption.
Qed.

Lemma next_profile_ok : forall cs W (bs : list ballot), NoDup cs -> Forall (wf_stv_ballot cs) bs ->
  mk_profile (remove_cand_bs W true false bs) (set_diff cs W)
    = inl (mkProfile (remove_cand_bs W true false bs) (set_diff cs W)) /\
  wf_stv0 (mkProfile (remove_cand_bs W true false bs) (set_diff cs W)).
Proof.
  intros cs W bs Hnd H. apply (mk_profile_wf cand ceqb ceqb_spec).
  - apply (Lib_rk.set_diff_NoDup cand ceqb). exact Hnd.
  - apply removed_wf. exact H.
Qed.

Lemma fpv_state : forall np, wf_stv0 np -> exists d', first_place_votes np = inl d'.
Proof. intros np H. apply (fpv_succeeds cand ceqb ceqb_spec np H). Qed.

Lemma state_of_scores_state : forall np rn el elim tbs d', first_place_votes np = inl d' ->
  state_of np (state_of_scores rn el elim tbs d').
Proof. intros np rn el elim tbs d' H. split; [exact H|reflexivity]. Qed.

(* ====================== shape of a successful election round ====================== *)

(* simultaneous: the leading groups of the previous ranking, i.e. everybody who reaches t *)
Definition simul_choice (cfg : stv_cfg) (t : Q) (p : profile) (prev st : estate)
           (others : cset) (s s1 : mstate) : Prop :=
  s_simul cfg = true /\ s1 = s /\ tiebreaks st = [] /\
  exists rest, remaining prev = elected st ++ rest /\ others = flat rest /\
    (forall c, In c (flat rest) -> tally c (ballots p) < t).

(* one by one: one candidate w of the first group; a first group of two or more is broken by the
   configured tie-break (run on the current profile), recorded, and w is its first candidate *)
Definition single_choice (cfg : stv_cfg) (p : profile) (prev st : estate)
           (others : cset) (s s1 : mstate) : Prop :=
  s_simul cfg = false /\
  exists w g rest, remaining prev = g :: rest /\ In w g /\ elected st = [[w]] /\
    ((g = [w] /\ tiebreaks st = [] /\ s1 = s /\ others = flat rest) \/
     ((2 <= length g)%nat /\ exists kind l, s_tiebreak cfg = Some kind /\
        tiebreaks st = [(g, singletons (w :: l))] /\ Permutation (w :: l) g /\
        tiebreak_set g (Some p) kind s = inl (singletons (w :: l), s1) /\
        others = l ++ flat rest)).

Record elect_round (cfg : stv_cfg) (t : Q) (p : profile) (prev st : estate) (np : profile)
       (s s' : mstate) (W others : cset) (mvs : list (list ballot)) (s1 : mstate) : Prop := {
  er_W : flat (elected st) = W;
  er_groups : Forall (fun g => g <> []) (elected st);
  er_ne : W <> [];
  er_nd : NoDup W;
  er_part : Permutation (W ++ others) (cands p);
  er_reach : forall w, In w W -> t <= tally w (ballots p);
  er_elim : eliminated st = no_group;
  er_choice : simul_choice cfg t p prev st others s s1 \/ single_choice cfg p prev st others s s1;
  er_suf : scr_suffix s s1;
  er_tr : transfers (s_transfer cfg) p (escores prev) t W s1 mvs s';
  er_np : np = mkProfile (remove_cand_bs W true false (concat mvs ++ concat (map (pile p) others)))
                         (set_diff (cands p) W);
  er_wf : wf_stv0 np;
  er_st : state_of np st;
  er_rnd : rnd st = (rnd prev + 1)%Z
}.

Lemma set_diff_app_l : forall a b : cset, NoDup (a ++ b) -> set_diff (a ++ b) a = b.
Proof.
  intros a b H. destruct (NoDup_app_inv a b H) as (_ & _ & Hdis).
  unfold Core.set_diff. rewrite filter_app.
  rewrite (Lib_sets.filter_all_false _ a), (Lib_sets.filter_all_true _ b); [reflexivity| |].
  - intros c Hc. apply negb_true_iff. apply memb_false_iff. intros Ha. apply (Hdis c Ha Hc).
  - intros c Hc. apply negb_false_iff. apply memb_In. exact Hc.
Qed.

Section Round.
Variable cfg : stv_cfg.
Variable t : Q.
Variables p0 p : profile.
Variable prev : estate.
Hypothesis Hctx : step_ctx p0 p prev.

Let d := escores prev.
Let r := remaining prev.
Let cs := cands p.
Let bs := ballots p.
Let k := s_transfer cfg.

Let Hwf : wf_stv0 p := ctx_wf cand ceqb p0 p prev Hctx.

Lemma simultaneous_elect_inv : forall (s s' : mstate) el np, cs <> [] ->
  (k = TRandom -> script_ok s) ->
  simultaneous_elect cfg t p prev s = inl ((el, np), s') ->
  exists rest mvs, r = el ++ rest /\
    (forall c, In c (flat el) -> t <= tally c bs) /\
    (forall c, In c (flat rest) -> tally c bs < t) /\
    transfers k p d t (flat el) s mvs s' /\
    np = mkProfile (remove_cand_bs (flat el) true false (concat mvs ++ concat (map (pile p) (flat rest))))
                   (set_diff cs (flat el)) /\
    wf_stv0 np.
Proof.
  intros s s' el np Hne Hscr H.
  destruct (quota_groups_sem cand ceqb ceqb_spec p0 p prev Hctx t Hne)
    as (el0 & rest & Hq & Hr & Hreach & Hun).
  unfold STV.simultaneous_elect in H. unfold mbind at 1, mlift at 1 in H.
  fold d r in Hq, Hr. fold bs in Hreach, Hun. change (remaining prev) with r in H.
  change (escores prev) with d in H. rewrite Hq in H. cbn [ok] in H.
  unfold mbind at 1, mlift at 1 in H. rewrite (bbfc_ok p Hwf) in H.
  unfold ok at 1 in H. cbv beta iota in H. unfold mbind at 1 in H. fold k in H.
  destruct (transfer_all k (flat el0) p d t s) as [[moved s1]|e] eqn:Etr; [|discriminate].
  assert (Hnd : NoDup (flat el0 ++ flat rest)).
  { rewrite <- (flat_app cand), <- Hr. apply (ctx_flat_nd cand ceqb p0 p prev Hctx). }
  assert (Hoth : set_diff (flat r) (flat el0) = flat rest).
  { rewrite Hr, (flat_app cand). apply set_diff_app_l. exact Hnd. }
  rewrite Hoth in H.
  assert (Hsub : subsetb (flat rest) (cands p) = true).
  { apply (Lib_rk.subsetb_incl cand ceqb ceqb_spec). intros c Hc.
    apply (ctx_flat_in cand ceqb p0 p prev Hctx). fold r. rewrite Hr, (flat_app cand).
    apply in_or_app. right. exact Hc. }
  rewrite Hsub in H. cbn [negb] in H.
  destruct (transfer_all_inv k _ p d t s s1 moved Etr) as (mvs & Htr & ->).
  destruct (transfers_wf k p d t _ s s1 mvs Htr Hwf Hscr) as (Hmv & _ & _).
  assert (HB : Forall (wf_stv_ballot cs) (concat mvs ++ concat (map (pile p) (flat rest)))).
  { apply Forall_app. split; [apply concat_Forall; exact Hmv|apply piles_wf; exact Hwf]. }
  rewrite (has_ranking_all cs _ HB) in H.
  destruct (next_profile_ok cs (flat el0) _ (proj1 Hwf) HB) as [Hmk Hwfn].
  unfold mbind, mlift in H. fold cs in H. rewrite Hmk in H. unfold ok, mret in H.
  cbv beta iota in H. injection H as <- <- <-. exists rest, mvs.
  split; [exact Hr|]. split; [exact Hreach|]. split; [exact Hun|]. split; [exact Htr|].
  split; [reflexivity|exact Hwfn].
Qed.

Lemma ctx_r_cons : cs <> [] -> exists g rest, r = g :: rest /\ g <> [] /\ NoDup g /\ incl g cs.
Proof.
  intros Hne. pose proof (ctx_groups_ne cand ceqb p0 p prev Hctx Hne) as Hg. fold r in Hg.
  pose proof (ctx_flat_perm cand ceqb p0 p prev Hctx) as Hp. fold r cs in Hp.
  destruct r as [|g rest] eqn:Er.
  - exfalso. apply Hne. apply Permutation_nil. exact Hp.
  - exists g, rest. split; [reflexivity|]. inversion Hg as [|x l Hgne _]; subst.
    split; [exact Hgne|]. split.
    + pose proof (ctx_flat_nd cand ceqb p0 p prev Hctx) as Hnd. fold r in Hnd. rewrite Er in Hnd.
      unfold Core.flat in Hnd. cbn [concat] in Hnd. apply (NoDup_app_inv g _ Hnd).
    + intros c Hc. apply (ctx_group_in cand ceqb p0 p prev Hctx g c); [|exact Hc].
      fold r. rewrite Er. left. reflexivity.
Qed.

Lemma single_elect_inv : forall (s s' : mstate) el tbs np, cs <> [] ->
  (k = TRandom -> script_ok s) ->
  single_elect cfg t p prev s = inl ((el, tbs, np), s') ->
  exists w g rest others mvs s1, r = g :: rest /\ In w g /\ el = [[w]] /\
    ((g = [w] /\ tbs = [] /\ s1 = s /\ others = flat rest) \/
     ((2 <= length g)%nat /\ exists kind l, s_tiebreak cfg = Some kind /\
        tbs = [(g, singletons (w :: l))] /\ Permutation (w :: l) g /\
        tiebreak_set g (Some p) kind s = inl (singletons (w :: l), s1) /\
        others = l ++ flat rest)) /\
    scr_suffix s s1 /\
    transfers k p d t [w] s1 mvs s' /\
    np = mkProfile (remove_cand_bs [w] true false (concat mvs ++ concat (map (pile p) others)))
                   (set_diff cs [w]) /\
    wf_stv0 np.
Proof.
  intros s s' el tbs np Hne Hscr H.
  destruct (ctx_r_cons Hne) as (g & rest & Hr & Hgne & Hgnd & Hgin).
  assert (Hrest_in : incl (flat rest) cs).
  { intros c Hc. apply (ctx_flat_in cand ceqb p0 p prev Hctx). fold r. rewrite Hr.
    unfold Core.flat. cbn [concat]. apply in_or_app. right. exact Hc. }
  unfold STV.single_elect in H. unfold mbind at 1 in H. change (remaining prev) with r in H.
  rewrite Hr, (elect_top_1_eq cand ceqb g rest (Some p) (s_tiebreak cfg) s Hgne) in H.
  (* common tail, once the winner w, the remaining ranking and the script state are known *)
  assert (Htail : forall w (rem : ranking) s1, In w cs -> incl (flat rem) cs -> scr_suffix s s1 ->
    (do! _ := mlift (ballots_by_first_check cand ceqb p) in
     if negb (memb w (cands p)) then mfail EKey else
     do! moved := do_transfer (s_transfer cfg) w (lookup0 w (escores prev)) (pile p w) t in
     if negb (subsetb (flat rem) (cands p)) then mfail EKey else
     do! np0 := mlift (mk_profile
        (remove_cand_bs [w] true false (filter has_ranking (moved ++ concat (map (pile p) (flat rem)))))
        (set_diff (cands p) (flat [[w]]))) in mret ([[w]], tbs, np0)) s1 = inl ((el, tbs, np), s') ->
    exists mvs, el = [[w]] /\ transfers k p d t [w] s1 mvs s' /\
      np = mkProfile (remove_cand_bs [w] true false (concat mvs ++ concat (map (pile p) (flat rem))))
                     (set_diff cs [w]) /\ wf_stv0 np).
  { intros w rem s1 Hw Hrem Hsuf HT.
    unfold mbind at 1, mlift at 1 in HT. rewrite (bbfc_ok p Hwf) in HT.
    unfold ok at 1 in HT. cbv beta iota in HT.
    rewrite (proj2 (memb_In w (cands p)) Hw) in HT. cbn [negb] in HT.
    unfold mbind at 1 in HT. fold k d in HT.
    destruct (do_transfer k w (lookup0 w d) (pile p w) t s1) as [[moved s2]|e] eqn:Etr; [|discriminate].
    rewrite (proj2 (Lib_rk.subsetb_incl cand ceqb ceqb_spec (flat rem) (cands p)) Hrem) in HT. cbn [negb] in HT.
    assert (Hscr1 : k = TRandom -> script_ok s1).
    { intros Hk. apply (script_ok_suffix cand s s1 Hsuf). apply Hscr. exact Hk. }
    destruct (do_transfer_wf k w _ _ t s1 s2 moved cs Etr Hscr1 (pile_wf p w Hwf)) as [Hmv _].
    assert (HB : Forall (wf_stv_ballot cs) (moved ++ concat (map (pile p) (flat rem)))).
    { apply Forall_app. split; [exact Hmv|apply piles_wf; exact Hwf]. }
    rewrite (has_ranking_all cs _ HB) in HT.
    destruct (next_profile_ok cs [w] _ (proj1 Hwf) HB) as [Hmk Hwfn].
    change (flat [[w]]) with [w] in HT.
    unfold mbind, mlift in HT. fold cs in HT. rewrite Hmk in HT. unfold ok, mret in HT.
    cbv beta iota in HT. injection HT as <- <- <-.
    exists [moved]. split; [reflexivity|]. split.
    - econstructor; [exact Hw|exact Etr|constructor].
    - cbn [concat]. rewrite app_nil_r. split; [reflexivity|exact Hwfn]. }
  destruct (Nat.leb (length g) 1) eqn:El.
  - (* an untied first group *)
    apply Nat.leb_le in El. destruct g as [|w [|w2 g']]; [contradiction Hgne; reflexivity| |cbn in El; lia].
    cbv beta iota in H.
    assert (Hw : In w cs) by (apply Hgin; left; reflexivity).
    assert (tbs = []).
    { unfold mbind at 1, mlift at 1 in H. rewrite (bbfc_ok p Hwf) in H.
      unfold ok at 1 in H. cbv beta iota in H.
      rewrite (proj2 (memb_In w (cands p)) Hw) in H. cbn [negb] in H.
      unfold mbind at 1 in H.
      destruct (do_transfer (s_transfer cfg) w (lookup0 w (escores prev)) (pile p w) t s) as [[mv s2]|e];
        [|discriminate].
      destruct (negb (subsetb (flat rest) (cands p))); [discriminate|].
      unfold mbind, mlift in H.
      destruct (mk_profile _ _) as [np0|e]; [|discriminate]. unfold ok, mret in H.
      cbv beta iota in H. injection H as _ <- _ _. reflexivity. }
    subst tbs.
    destruct (Htail w rest s Hw Hrest_in (scr_suffix_refl cand s) H) as (mvs & -> & Htr & -> & Hwfn).
    exists w, [w], rest, (flat rest), mvs, s. split; [exact Hr|]. split; [left; reflexivity|].
    split; [reflexivity|]. split; [left; repeat split; reflexivity|].
    split; [apply scr_suffix_refl|]. split; [exact Htr|]. split; [reflexivity|exact Hwfn].
  - (* a tied first group *)
    apply Nat.leb_gt in El.
    destruct (s_tiebreak cfg) as [kind|] eqn:Etb; [|discriminate].
    destruct (tiebreak_set g (Some p) kind s) as [[t0 s1]|e] eqn:Etie; [|discriminate].
    destruct (tiebreak_set_wf cand ceqb ceqb_spec g p kind s s1 t0 Hwf Hgnd Hgne Hgin Etie)
      as (l0 & -> & Hperm).
    destruct l0 as [|w l].
    { exfalso. apply Hgne. apply Permutation_nil. exact Hperm. }
    cbv beta iota in H. change (firstn 1 (singletons (w :: l))) with [[w]] in H.
    change (skipn 1 (singletons (w :: l))) with (singletons l) in H.
    assert (Hwg : In w g) by (eapply Permutation_in; [exact Hperm|left; reflexivity]).
    assert (Hw : In w cs) by (apply Hgin; exact Hwg).
    assert (Hflat : flat (singletons l ++ rest) = l ++ flat rest).
    { rewrite (flat_app cand), (flat_singletons cand). reflexivity. }
    assert (Hrem : incl (flat (singletons l ++ rest)) cs).
    { rewrite Hflat. intros c Hc. apply in_app_or in Hc. destruct Hc as [Hc|Hc].
      - apply Hgin. eapply Permutation_in; [exact Hperm|right; exact Hc].
      - apply Hrest_in. exact Hc. }
    pose proof (tiebreak_set_suffix cand ceqb ceqb_spec g (Some p) kind s s1 _ Etie) as Hsuf.
    assert (tbs = [(g, singletons (w :: l))]).
    { unfold mbind at 1, mlift at 1 in H. rewrite (bbfc_ok p Hwf) in H.
      unfold ok at 1 in H. cbv beta iota in H.
      rewrite (proj2 (memb_In w (cands p)) Hw) in H. cbn [negb] in H.
      unfold mbind at 1 in H.
      destruct (do_transfer (s_transfer cfg) w (lookup0 w (escores prev)) (pile p w) t s1) as [[mv s2]|e];
        [|discriminate].
      destruct (negb (subsetb _ (cands p))); [discriminate|].
      unfold mbind, mlift in H.
      destruct (mk_profile _ _) as [np0|e]; [|discriminate]. unfold ok, mret in H.
      cbv beta iota in H. injection H as _ <- _ _. reflexivity. }
    subst tbs.
    destruct (Htail w (singletons l ++ rest) s1 Hw Hrem Hsuf H) as (mvs & -> & Htr & -> & Hwfn).
    exists w, g, rest, (l ++ flat rest), mvs, s1. split; [exact Hr|]. split; [exact Hwg|].
    split; [reflexivity|]. split.
    { right. split; [lia|]. exists kind, l. repeat split; try reflexivity; assumption. }
    split; [exact Hsuf|]. split; [exact Htr|]. rewrite Hflat. split; [reflexivity|].
    rewrite <- Hflat. exact Hwfn.
Qed.

(* ---------- elimination ---------- *)

Lemma pick_elim_inv : forall (lowest : cset) (s s1 : mstate) x tbs,
  NoDup lowest -> incl lowest (cands p0) ->
  pick_elim p0 lowest s = inl ((x, tbs), s1) ->
  In x lowest /\ scr_suffix s s1 /\
  ((lowest = [x] /\ tbs = [] /\ s1 = s) \/
   ((2 <= length lowest)%nat /\ exists l, tbs = [(lowest, singletons (l ++ [x]))] /\
      Permutation (l ++ [x]) lowest /\
      tiebreak_set lowest (Some p0) TBFirstPlace s = inl (singletons (l ++ [x]), s1))).
Proof.
  intros lowest s s1 x tbs Hnd Hincl H.
  destruct lowest as [|a [|b rest]].
  - discriminate.
  - cbn [STV_step.pick_elim] in H. injection H as <- <- <-.
    split; [left; reflexivity|]. split; [apply scr_suffix_refl|]. left. repeat split.
  - set (low := a :: b :: rest) in *.
    assert (Hpe : pick_elim p0 low s =
                  (do! tb := tiebreak_set low (Some p0) TBFirstPlace in
                   match rev tb with
                   | (c :: _) :: _ => mret (c, [(low, tb)])
                   | _ => mfail EIndex
                   end) s) by reflexivity.
    rewrite Hpe in H. clear Hpe. unfold mbind in H.
    destruct (tiebreak_set low (Some p0) TBFirstPlace s) as [[t0 s2]|e] eqn:Etie; [|discriminate].
    assert (Hlne : low <> []) by discriminate.
    destruct (tiebreak_set_wf cand ceqb ceqb_spec low p0 TBFirstPlace s s2 t0
                (ctx_p0 cand ceqb p0 p prev Hctx) Hnd Hlne Hincl Etie) as (l0 & -> & Hperm).
    rewrite (rev_singletons cand) in H.
    destruct (rev l0) as [|c rl] eqn:Erev.
    + discriminate.
    + change (singletons (c :: rl)) with ([c] :: singletons rl) in H.
      injection H as <- <- <-.
      assert (El0 : l0 = rev rl ++ [c]).
      { rewrite <- (rev_involutive l0), Erev. reflexivity. }
      rewrite El0 in *. split.
      * eapply Permutation_in; [exact Hperm|]. apply in_or_app. right. left. reflexivity.
      * split; [apply (tiebreak_set_suffix cand ceqb ceqb_spec _ _ _ _ _ _ Etie)|].
        right. split; [cbn [low length]; lia|]. exists (rev rl). repeat split; assumption.
Qed.

Record elim_round (p0' p' : profile) (prev' st : estate) (np : profile) (s s' : mstate) (x : cand)
  : Prop := {
  xr_in : In x (cands p');
  xr_low : exists pre lowest, remaining prev' = pre ++ [lowest] /\ In x lowest /\
     ((lowest = [x] /\ tiebreaks st = [] /\ s' = s) \/
      ((2 <= length lowest)%nat /\ exists l, tiebreaks st = [(lowest, singletons (l ++ [x]))] /\
         Permutation (l ++ [x]) lowest /\
         tiebreak_set lowest (Some p0') TBFirstPlace s = inl (singletons (l ++ [x]), s')));
  xr_suf : scr_suffix s s';
  xr_el : elected st = no_group;
  xr_elim : eliminated st = [[x]];
  xr_np : np = mkProfile (remove_cand_bs [x] true false (ballots p')) (set_diff (cands p') [x]);
  xr_wf : wf_stv0 np;
  xr_st : state_of np st;
  xr_rnd : rnd st = (rnd prev' + 1)%Z
}.

Record default_round (prev' st : estate) (np : profile) : Prop := {
  dr_np : np = empty_profile;
  dr_el : elected st = remaining prev';
  dr_elim : eliminated st = no_group;
  dr_tb : tiebreaks st = [];
  dr_sc : escores st = [];
  dr_rem : remaining st = [[]];
  dr_rnd : rnd st = (rnd prev' + 1)%Z
}.

Lemma remove_cand_prof_ok : forall x,
  remove_cand_prof [x] true false p
    = inl (mkProfile (remove_cand_bs [x] true false bs) (set_diff cs [x])) /\
  wf_stv0 (mkProfile (remove_cand_bs [x] true false bs) (set_diff cs [x])).
Proof.
  intros x. unfold Core.remove_cand_prof. apply next_profile_ok; apply Hwf.
Qed.

Lemma ctx_r_last : cs <> [] -> exists pre lowest, r = pre ++ [lowest] /\ NoDup lowest /\ incl lowest cs.
Proof.
  intros Hne. destruct (ctx_r_cons Hne) as (g & rest & Hr & _).
  assert (Hrne : r <> []) by (rewrite Hr; discriminate).
  destruct (exists_last Hrne) as (pre & lowest & E). exists pre, lowest. split; [exact E|].
  split.
  - pose proof (ctx_flat_nd cand ceqb p0 p prev Hctx) as Hnd. fold r in Hnd. rewrite E in Hnd.
    rewrite (flat_app cand) in Hnd. apply NoDup_app_inv in Hnd. destruct Hnd as (_ & Hnd & _).
    unfold Core.flat in Hnd. cbn [concat] in Hnd. rewrite app_nil_r in Hnd. exact Hnd.
  - intros c Hc. apply (ctx_group_in cand ceqb p0 p prev Hctx lowest c); [|exact Hc].
    fold r. rewrite E. apply in_or_app. right. left. reflexivity.
Qed.

(* ====================== a successful round ====================== *)

Theorem stv_step_ok_inv : forall n (s s' : mstate) np st,
  (k = TRandom -> script_ok s) ->
  stv_step cfg t p0 n p prev s = inl ((np, st), s') ->
  ((exists c, In c cs /\ t <= tally c bs) /\
   exists W others mvs s1, elect_round cfg t p prev st np s s' W others mvs s1) \/
  ((forall c, In c cs -> tally c bs < t) /\ Z.of_nat (length cs) = (s_m cfg - n)%Z /\ s' = s /\
   default_round prev st np) \/
  ((forall c, In c cs -> tally c bs < t) /\ Z.of_nat (length cs) <> (s_m cfg - n)%Z /\
   exists x, elim_round p0 p prev st np s s' x).
Proof.
  intros n s s' np st Hscr H.
  destruct (above t d) as [|a0 l0] eqn:Ea.
  - (* nobody reaches the threshold *)
    pose proof (proj1 (above_nil_iff cand ceqb ceqb_spec p0 p prev Hctx t) Ea) as Hnone.
    fold cs bs in Hnone. right.
    destruct (Z.eqb (Z.of_nat (length (cands p))) (s_m cfg - n)) eqn:En.
    + left. rewrite (stv_step_default cand ceqb cfg t p0 n p prev s Ea En) in H.
      injection H as <- <- <-. split; [exact Hnone|]. split; [apply Z.eqb_eq; exact En|].
      split; [reflexivity|]. constructor; reflexivity.
    + right. split; [exact Hnone|]. split; [apply Z.eqb_neq; exact En|].
      rewrite (stv_step_elim cand ceqb cfg t p0 n p prev s Ea En) in H.
      destruct (rev (remaining prev)) as [|lowest rr] eqn:Erev; [discriminate|].
      destruct (pick_elim p0 lowest s) as [[[x tbs] s1]|e] eqn:Epick; [|discriminate].
      destruct (remove_cand_prof_ok x) as [Hrm Hwfn]. rewrite Hrm in H.
      destruct (fpv_state _ Hwfn) as [d' Hd']. rewrite Hd' in H. injection H as <- <- <-.
      assert (Hrl : remaining prev = rev rr ++ [lowest]).
      { rewrite <- (rev_involutive (remaining prev)), Erev. reflexivity. }
      destruct (list_eq_dec (cand_eq_dec cand ceqb ceqb_spec) cs []) as [Ecs|Hne].
      { (* no candidates: the lowest group is empty *)
        destruct (ctx_d_nil cand ceqb p0 p prev Hctx Ecs) as [_ Hr1].
        rewrite Hr1 in Erev. injection Erev as <- <-. discriminate. }
      destruct (ctx_r_last Hne) as (pre & low' & Hr' & Hlnd & Hlin).
      fold r in Hrl. rewrite Hrl in Hr'. apply app_inj_tail in Hr'. destruct Hr' as [_ <-].
      assert (Hlin0 : incl lowest (cands p0)).
      { intros c Hc. apply (ctx_sub cand ceqb p0 p prev Hctx). apply Hlin. exact Hc. }
      destruct (pick_elim_inv lowest s s1 x tbs Hlnd Hlin0 Epick) as (Hx & Hsuf & Hcase).
      exists x. constructor.
      * apply Hlin. exact Hx.
      * exists (rev rr), lowest. split; [exact Hrl|]. split; [exact Hx|exact Hcase].
      * exact Hsuf.
      * reflexivity.
      * reflexivity.
      * reflexivity.
      * exact Hwfn.
      * apply state_of_scores_state. exact Hd'.
      * reflexivity.
  - (* somebody reaches the threshold *)
    assert (Hab : above t d <> []) by (rewrite Ea; discriminate).
    pose proof (proj1 (above_ne_iff cand ceqb ceqb_spec p0 p prev Hctx t) Hab) as Hsome.
    fold cs bs in Hsome. left. split; [exact Hsome|].
    destruct Hsome as (c0 & Hc0 & Hc0t).
    assert (Hne : cs <> []) by (intros E; rewrite E in Hc0; destruct Hc0).
    destruct (s_simul cfg) eqn:Esim.
    + rewrite (stv_step_simul cand ceqb cfg t p0 n p prev s Hab Esim) in H.
      destruct (simultaneous_elect cfg t p prev s) as [[[el np1] s1]|e] eqn:Esel; [|discriminate].
      destruct (simultaneous_elect_inv s s1 el np1 Hne Hscr Esel)
        as (rest & mvs & Hr & Hreach & Hun & Htr & Hnp & Hwfn).
      destruct (fpv_state _ Hwfn) as [d' Hd']. rewrite Hd' in H. injection H as <- <- <-.
      pose proof (ctx_flat_nd cand ceqb p0 p prev Hctx) as Hnd. fold r in Hnd.
      rewrite Hr, (flat_app cand) in Hnd.
      exists (flat el), (flat rest), mvs, s. constructor.
      * reflexivity.
      * cbn [elected state_of_scores]. apply Forall_forall. intros g Hg.
        pose proof (ctx_groups_ne cand ceqb p0 p prev Hctx Hne) as Hgs. fold r in Hgs.
        rewrite Forall_forall in Hgs. apply Hgs. rewrite Hr. apply in_or_app. left. exact Hg.
      * intros E. apply (ctx_flat_in cand ceqb p0 p prev Hctx) in Hc0. fold r in Hc0.
        rewrite Hr, (flat_app cand), E in Hc0. cbn [app] in Hc0.
        apply (Qlt_not_le _ _ (Hun c0 Hc0)). exact Hc0t.
      * apply (NoDup_app_inv _ _ Hnd).
      * rewrite <- (flat_app cand), <- Hr. apply (ctx_flat_perm cand ceqb p0 p prev Hctx).
      * exact Hreach.
      * reflexivity.
      * left. split; [exact Esim|]. split; [reflexivity|]. split; [reflexivity|].
        exists rest. cbn [elected state_of_scores]. split; [exact Hr|]. split; [reflexivity|exact Hun].
      * apply scr_suffix_refl.
      * exact Htr.
      * exact Hnp.
      * exact Hwfn.
      * apply state_of_scores_state. exact Hd'.
      * reflexivity.
    + rewrite (stv_step_single cand ceqb cfg t p0 n p prev s Hab Esim) in H.
      destruct (single_elect cfg t p prev s) as [[[[el tbs] np1] s2]|e] eqn:Esel; [|discriminate].
      destruct (single_elect_inv s s2 el tbs np1 Hne Hscr Esel)
        as (w & g & rest & others & mvs & s1 & Hr & Hwg & -> & Hcase & Hsuf & Htr & Hnp & Hwfn).
      destruct (fpv_state _ Hwfn) as [d' Hd']. rewrite Hd' in H. injection H as <- <- <-.
      pose proof (ctx_flat_perm cand ceqb p0 p prev Hctx) as Hperm. fold r cs in Hperm.
      rewrite Hr in Hperm. unfold Core.flat in Hperm. cbn [concat] in Hperm. fold (flat rest) in Hperm.
      exists [w], others, mvs, s1. constructor.
      * reflexivity.
      * constructor; [discriminate|constructor].
      * discriminate.
      * constructor; [intros []|constructor].
      * destruct Hcase as [(-> & _ & _ & ->)|(_ & kind & l & _ & _ & Hpl & _ & ->)].
        -- exact Hperm.
        -- eapply Permutation_trans; [|exact Hperm]. cbn [app].
           change (w :: l ++ flat rest) with ((w :: l) ++ flat rest).
           apply Permutation_app_tail. exact Hpl.
      * intros w' [<-|[]]. eapply Qle_trans; [exact Hc0t|].
        apply (ctx_first_max cand ceqb ceqb_spec p0 p prev Hctx g rest w c0 Hr Hwg Hc0).
      * reflexivity.
      * right. split; [exact Esim|]. exists w, g, rest. split; [exact Hr|]. split; [exact Hwg|].
        split; [reflexivity|]. exact Hcase.
      * exact Hsuf.
      * exact Htr.
      * exact Hnp.
      * exact Hwfn.
      * apply state_of_scores_state. exact Hd'.
      * reflexivity.
Qed.

(* ====================== a failing round ====================== *)

Lemma simultaneous_elect_err : forall (s : mstate) e, cs <> [] ->
  (k = TRandom -> script_ok s) ->
  simultaneous_elect cfg t p prev s = inr e ->
  exists el, incl (flat el) cs /\ (forall c, In c (flat el) -> t <= tally c bs) /\
    transfer_all k (flat el) p d t s = inr e.
Proof.
  intros s e Hne Hscr H.
  destruct (quota_groups_sem cand ceqb ceqb_spec p0 p prev Hctx t Hne)
    as (el0 & rest & Hq & Hr & Hreach & Hun).
  unfold STV.simultaneous_elect in H. unfold mbind at 1, mlift at 1 in H.
  fold d r in Hq, Hr. fold bs in Hreach, Hun. change (remaining prev) with r in H.
  change (escores prev) with d in H. rewrite Hq in H. cbn [ok] in H.
  unfold mbind at 1, mlift at 1 in H. rewrite (bbfc_ok p Hwf) in H.
  unfold ok at 1 in H. cbv beta iota in H. unfold mbind at 1 in H. fold k in H.
  assert (Hin : incl (flat el0) cs).
  { intros c Hc. apply (ctx_flat_in cand ceqb p0 p prev Hctx). fold r. rewrite Hr, (flat_app cand).
    apply in_or_app. left. exact Hc. }
  exists el0. split; [exact Hin|]. split; [exact Hreach|].
  destruct (transfer_all k (flat el0) p d t s) as [[moved s1]|e'] eqn:Etr; [|injection H as ->; reflexivity].
  exfalso.
  assert (Hnd : NoDup (flat el0 ++ flat rest)).
  { rewrite <- (flat_app cand), <- Hr. apply (ctx_flat_nd cand ceqb p0 p prev Hctx). }
  assert (Hoth : set_diff (flat r) (flat el0) = flat rest).
  { rewrite Hr, (flat_app cand). apply set_diff_app_l. exact Hnd. }
  rewrite Hoth in H.
  assert (Hsub : subsetb (flat rest) (cands p) = true).
  { apply (Lib_rk.subsetb_incl cand ceqb ceqb_spec). intros c Hc.
    apply (ctx_flat_in cand ceqb p0 p prev Hctx). fold r. rewrite Hr, (flat_app cand).
    apply in_or_app. right. exact Hc. }
  rewrite Hsub in H. cbn [negb] in H.
  destruct (transfer_all_inv k _ p d t s s1 moved Etr) as (mvs & Htr & ->).
  destruct (transfers_wf k p d t _ s s1 mvs Htr Hwf Hscr) as (Hmv & _ & _).
  assert (HB : Forall (wf_stv_ballot cs) (concat mvs ++ concat (map (pile p) (flat rest)))).
  { apply Forall_app. split; [apply concat_Forall; exact Hmv|apply piles_wf; exact Hwf]. }
  rewrite (has_ranking_all cs _ HB) in H.
  destruct (next_profile_ok cs (flat el0) _ (proj1 Hwf) HB) as [Hmk Hwfn].
  unfold mbind, mlift in H. fold cs in H. rewrite Hmk in H. discriminate.
Qed.

Lemma single_elect_err : forall (s : mstate) e, cs <> [] ->
  (k = TRandom -> script_ok s) ->
  single_elect cfg t p prev s = inr e ->
  exists g rest, r = g :: rest /\
    (((2 <= length g)%nat /\
      ((s_tiebreak cfg = None /\ e = EValue) \/
       (exists kind, s_tiebreak cfg = Some kind /\ tiebreak_set g (Some p) kind s = inr e))) \/
     (exists w s1, In w g /\ scr_suffix s s1 /\
        do_transfer k w (lookup0 w d) (pile p w) t s1 = inr e)).
Proof.
  intros s e Hne Hscr H.
  destruct (ctx_r_cons Hne) as (g & rest & Hr & Hgne & Hgnd & Hgin).
  exists g, rest. split; [exact Hr|].
  assert (Hrest_in : incl (flat rest) cs).
  { intros c Hc. apply (ctx_flat_in cand ceqb p0 p prev Hctx). fold r. rewrite Hr.
    unfold Core.flat. cbn [concat]. apply in_or_app. right. exact Hc. }
  unfold STV.single_elect in H. unfold mbind at 1 in H. change (remaining prev) with r in H.
  rewrite Hr, (elect_top_1_eq cand ceqb g rest (Some p) (s_tiebreak cfg) s Hgne) in H.
  assert (Htail : forall w (rem : ranking) (tbs : list (cset * ranking)) s1, In w cs -> incl (flat rem) cs -> scr_suffix s s1 ->
    (do! _ := mlift (ballots_by_first_check cand ceqb p) in
     if negb (memb w (cands p)) then mfail EKey else
     do! moved := do_transfer (s_transfer cfg) w (lookup0 w (escores prev)) (pile p w) t in
     if negb (subsetb (flat rem) (cands p)) then mfail EKey else
     do! np0 := mlift (mk_profile
        (remove_cand_bs [w] true false (filter has_ranking (moved ++ concat (map (pile p) (flat rem)))))
        (set_diff (cands p) (flat [[w]]))) in mret ([[w]], tbs, np0)) s1 = inr e ->
    do_transfer k w (lookup0 w d) (pile p w) t s1 = inr e).
  { intros w rem tbs s1 Hw Hrem Hsuf HT.
    unfold mbind at 1, mlift at 1 in HT. rewrite (bbfc_ok p Hwf) in HT.
    unfold ok at 1 in HT. cbv beta iota in HT.
    rewrite (proj2 (memb_In w (cands p)) Hw) in HT. cbn [negb] in HT.
    unfold mbind at 1 in HT. fold k d in HT.
    destruct (do_transfer k w (lookup0 w d) (pile p w) t s1) as [[moved s2]|e'] eqn:Etr; [|injection HT as ->; reflexivity].
    exfalso.
    rewrite (proj2 (Lib_rk.subsetb_incl cand ceqb ceqb_spec (flat rem) (cands p)) Hrem) in HT.
    cbn [negb] in HT.
    assert (Hscr1 : k = TRandom -> script_ok s1).
    { intros Hk. apply (script_ok_suffix cand s s1 Hsuf). apply Hscr. exact Hk. }
    destruct (do_transfer_wf k w _ _ t s1 s2 moved cs Etr Hscr1 (pile_wf p w Hwf)) as [Hmv _].
    assert (HB : Forall (wf_stv_ballot cs) (moved ++ concat (map (pile p) (flat rem)))).
    { apply Forall_app. split; [exact Hmv|apply piles_wf; exact Hwf]. }
    rewrite (has_ranking_all cs _ HB) in HT.
    destruct (next_profile_ok cs [w] _ (proj1 Hwf) HB) as [Hmk Hwfn].
    change (flat [[w]]) with [w] in HT.
    unfold mbind, mlift in HT. fold cs in HT. rewrite Hmk in HT. discriminate. }
  destruct (Nat.leb (length g) 1) eqn:El.
  - apply Nat.leb_le in El. destruct g as [|w [|w2 g']]; [contradiction Hgne; reflexivity| |cbn in El; lia].
    cbv beta iota in H. right. exists w, s. split; [left; reflexivity|]. split; [apply scr_suffix_refl|].
    apply (Htail w rest [] s); [apply Hgin; left; reflexivity|exact Hrest_in|apply scr_suffix_refl|exact H].
  - apply Nat.leb_gt in El.
    destruct (s_tiebreak cfg) as [kind|] eqn:Etb.
    + destruct (tiebreak_set g (Some p) kind s) as [[t0 s1]|e'] eqn:Etie.
      * destruct (tiebreak_set_wf cand ceqb ceqb_spec g p kind s s1 t0 Hwf Hgnd Hgne Hgin Etie)
          as (l0 & -> & Hperm).
        destruct l0 as [|w l].
        { exfalso. apply Hgne. apply Permutation_nil. exact Hperm. }
        cbv beta iota in H. change (firstn 1 (singletons (w :: l))) with [[w]] in H.
        change (skipn 1 (singletons (w :: l))) with (singletons l) in H.
        assert (Hwg : In w g) by (eapply Permutation_in; [exact Hperm|left; reflexivity]).
        assert (Hflat : flat (singletons l ++ rest) = l ++ flat rest).
        { rewrite (flat_app cand), (flat_singletons cand). reflexivity. }
        assert (Hrem : incl (flat (singletons l ++ rest)) cs).
        { rewrite Hflat. intros c Hc. apply in_app_or in Hc. destruct Hc as [Hc|Hc].
          - apply Hgin. eapply Permutation_in; [exact Hperm|right; exact Hc].
          - apply Hrest_in. exact Hc. }
        pose proof (tiebreak_set_suffix cand ceqb ceqb_spec g (Some p) kind s s1 _ Etie) as Hsuf.
        right. exists w, s1. split; [exact Hwg|]. split; [exact Hsuf|].
        apply (Htail w (singletons l ++ rest) [(g, singletons (w :: l))] s1);
          [apply Hgin; exact Hwg|exact Hrem|exact Hsuf|exact H].
      * injection H as <-. left. split; [lia|]. right. exists kind. split; [reflexivity|exact Etie].
    + injection H as <-. left. split; [lia|]. left. split; reflexivity.
Qed.

Lemma pick_elim_err : forall (lowest : cset) (s : mstate) e,
  NoDup lowest -> incl lowest (cands p0) -> lowest <> [] ->
  pick_elim p0 lowest s = inr e ->
  (2 <= length lowest)%nat /\ tiebreak_set lowest (Some p0) TBFirstPlace s = inr e.
Proof.
  intros lowest s e Hnd Hincl Hne H.
  destruct lowest as [|a [|b rest]]; [contradiction Hne; reflexivity|discriminate|].
  set (low := a :: b :: rest) in *.
  assert (Hpe : pick_elim p0 low s =
                (do! tb := tiebreak_set low (Some p0) TBFirstPlace in
                 match rev tb with
                 | (c :: _) :: _ => mret (c, [(low, tb)])
                 | _ => mfail EIndex
                 end) s) by reflexivity.
  rewrite Hpe in H. clear Hpe. unfold mbind in H. split; [cbn [low length]; lia|].
  destruct (tiebreak_set low (Some p0) TBFirstPlace s) as [[t0 s2]|e'] eqn:Etie; [|injection H as ->; reflexivity].
  exfalso.
  destruct (tiebreak_set_wf cand ceqb ceqb_spec low p0 TBFirstPlace s s2 t0
              (ctx_p0 cand ceqb p0 p prev Hctx) Hnd Hne Hincl Etie) as (l0 & -> & Hperm).
  rewrite (rev_singletons cand) in H.
  destruct (rev l0) as [|c rl] eqn:Erev.
  - apply Hne. apply Permutation_nil. rewrite <- (rev_involutive l0), Erev in Hperm. exact Hperm.
  - discriminate.
Qed.

(* which errors a round can raise from a valid profile *)
Theorem stv_step_err_inv : forall n (s : mstate) e,
  (k = TRandom -> script_ok s) ->
  stv_step cfg t p0 n p prev s = inr e ->
  (* a tie for the single seat of a one-by-one election round that cannot be broken *)
  ((exists c, In c cs /\ t <= tally c bs) /\ s_simul cfg = false /\
   exists g rest, r = g :: rest /\ (2 <= length g)%nat /\
     ((s_tiebreak cfg = None /\ e = EValue) \/
      (exists kind, s_tiebreak cfg = Some kind /\ tiebreak_set g (Some p) kind s = inr e))) \/
  (* the transfer of a winner's pile fails *)
  (exists w s1, In w cs /\ t <= tally w bs /\ scr_suffix s s1 /\
     do_transfer k w (lookup0 w d) (pile p w) t s1 = inr e) \/
  (* the tie-break for elimination fails *)
  ((forall c, In c cs -> tally c bs < t) /\
   exists lowest, tiebreak_set lowest (Some p0) TBFirstPlace s = inr e) \/
  (* nobody is left although seats remain to be filled (or too many are filled) *)
  ((forall c, In c cs -> tally c bs < t) /\ e = EIndex /\ cs = [] /\ (s_m cfg - n <> 0)%Z).
Proof.
  intros n s e Hscr H.
  destruct (above t d) as [|a0 l0] eqn:Ea.
  - pose proof (proj1 (above_nil_iff cand ceqb ceqb_spec p0 p prev Hctx t) Ea) as Hnone.
    fold cs bs in Hnone.
    destruct (Z.eqb (Z.of_nat (length (cands p))) (s_m cfg - n)) eqn:En.
    + rewrite (stv_step_default cand ceqb cfg t p0 n p prev s Ea En) in H. discriminate.
    + rewrite (stv_step_elim cand ceqb cfg t p0 n p prev s Ea En) in H.
      destruct (list_eq_dec (cand_eq_dec cand ceqb ceqb_spec) cs []) as [Ecs|Hne].
      { right. right. right. split; [exact Hnone|].
        destruct (ctx_d_nil cand ceqb p0 p prev Hctx Ecs) as [_ Hr1]. rewrite Hr1 in H.
        cbn [rev app] in H. cbn in H. injection H as <-. split; [reflexivity|]. split; [exact Ecs|].
        apply Z.eqb_neq in En. fold cs in En. rewrite Ecs in En. cbn in En. lia. }
      destruct (ctx_r_last Hne) as (pre & low & Hr' & Hlnd & Hlin).
      fold r in H. rewrite Hr', rev_app_distr in H. cbn [rev app] in H.
      assert (Hlne : low <> []).
      { pose proof (ctx_groups_ne cand ceqb p0 p prev Hctx Hne) as Hg. fold r in Hg. rewrite Hr' in Hg.
        rewrite Forall_forall in Hg. apply Hg. apply in_or_app. right. left. reflexivity. }
      assert (Hlin0 : incl low (cands p0)).
      { intros c Hc. apply (ctx_sub cand ceqb p0 p prev Hctx). apply Hlin. exact Hc. }
      destruct (pick_elim p0 low s) as [[[x tbs] s1]|e'] eqn:Epick.
      * exfalso. destruct (remove_cand_prof_ok x) as [Hrm Hwfn]. rewrite Hrm in H.
        destruct (fpv_state _ Hwfn) as [d' Hd']. rewrite Hd' in H. discriminate.
      * injection H as <-. right. right. left. split; [exact Hnone|]. exists low.
        apply (pick_elim_err low s e' Hlnd Hlin0 Hlne Epick).
  - assert (Hab : above t d <> []) by (rewrite Ea; discriminate).
    pose proof (proj1 (above_ne_iff cand ceqb ceqb_spec p0 p prev Hctx t) Hab) as Hsome.
    fold cs bs in Hsome. destruct Hsome as (c0 & Hc0 & Hc0t).
    assert (Hne : cs <> []) by (intros E; rewrite E in Hc0; destruct Hc0).
    destruct (s_simul cfg) eqn:Esim.
    + rewrite (stv_step_simul cand ceqb cfg t p0 n p prev s Hab Esim) in H.
      destruct (simultaneous_elect cfg t p prev s) as [[[el np1] s1]|e'] eqn:Esel.
      * exfalso.
        destruct (simultaneous_elect_inv s s1 el np1 Hne Hscr Esel) as (_ & _ & _ & _ & _ & _ & _ & Hwfn).
        destruct (fpv_state _ Hwfn) as [d' Hd']. rewrite Hd' in H. discriminate.
      * injection H as <-. right. left.
        destruct (simultaneous_elect_err s e' Hne Hscr Esel) as (el & Hin & Hreach & Herr).
        destruct (transfer_all_err k _ p d t s e' Herr)
          as [[_ (w & Hw & Hn)]|(pre & w & post & mvs & s1 & Hel & Htr & Hd)].
        -- exfalso. apply Hn. apply Hin. exact Hw.
        -- assert (Hw : In w (flat el)) by (rewrite Hel; apply in_or_app; right; left; reflexivity).
           exists w, s1. split; [apply Hin; exact Hw|]. split; [apply Hreach; exact Hw|].
           split; [|exact Hd]. apply (transfers_wf k p d t pre s s1 mvs Htr Hwf Hscr).
    + rewrite (stv_step_single cand ceqb cfg t p0 n p prev s Hab Esim) in H.
      destruct (single_elect cfg t p prev s) as [[[[el tbs] np1] s2]|e'] eqn:Esel.
      * exfalso.
        destruct (single_elect_inv s s2 el tbs np1 Hne Hscr Esel)
          as (_ & _ & _ & _ & _ & _ & _ & _ & _ & _ & _ & _ & _ & Hwfn).
        destruct (fpv_state _ Hwfn) as [d' Hd']. rewrite Hd' in H. discriminate.
      * injection H as <-.
        destruct (single_elect_err s e' Hne Hscr Esel) as (g & rest & Hr & [[Hlen Hcase]|(w & s1 & Hwg & Hsuf & Hd)]).
        -- left. split; [exists c0; split; assumption|]. split; [reflexivity|].
           exists g, rest. split; [exact Hr|]. split; [exact Hlen|exact Hcase].
        -- right. left. exists w, s1.
           assert (Hw : In w cs).
           { apply (ctx_group_in cand ceqb p0 p prev Hctx g w); [fold r; rewrite Hr; left; reflexivity|exact Hwg]. }
           split; [exact Hw|]. split; [|split; [exact Hsuf|exact Hd]].
           eapply Qle_trans; [exact Hc0t|].
           apply (ctx_first_max cand ceqb ceqb_spec p0 p prev Hctx g rest w c0 Hr Hwg Hc0).
Qed.

End Round.

End WithCand.
