(* Proofs/C19_lp.v — property C19, part 1: the Lp distance between two profiles is the p-norm of
   the difference of their normalised ranking-weight distributions; symmetry, identity of
   indiscernibles, invariances, triangle inequality (p = 1, inf). *)
From VK Require Import Base Core Metrics EditSpec MetricSpec.
From VK.Proofs Require Import Lib_sets Lib_rk Lib_condense.
From Coq Require Import Permutation Lia Lqa Setoid Morphisms Qabs Qpower.

(* ------------------------------------------------------------------ *)
(** * Sums over lists without repetition up to a boolean equivalence *)

Section ClassSum.
Variable A : Type.
Variable eqb : A -> A -> bool.
Hypothesis eqb_refl : forall a, eqb a a = true.
Hypothesis eqb_sym : forall a b, eqb a b = eqb b a.
Hypothesis eqb_trans : forall a b c, eqb a b = true -> eqb b c = true -> eqb a c = true.

Definition distinct (l : list A) : Prop := ForallOrdPairs (fun a b => eqb a b = false) l.

Lemma distinct_nil : distinct [].
Proof. constructor. Qed.

Lemma distinct_cons_iff : forall a l,
  distinct (a :: l) <-> (forall b, In b l -> eqb a b = false) /\ distinct l.
Proof.
  intros a l. split.
  - intros H. inversion H as [|x l' Hf Hd]; subst. split; [|exact Hd].
    rewrite Forall_forall in Hf. exact Hf.
  - intros [Hf Hd]. constructor; [|exact Hd]. apply Forall_forall. exact Hf.
Qed.

Lemma distinct_app : forall l1 l2,
  distinct l1 -> distinct l2 -> (forall a b, In a l1 -> In b l2 -> eqb a b = false) ->
  distinct (l1 ++ l2).
Proof.
  induction l1 as [|x l1 IH]; intros l2 H1 H2 Hx; cbn [app].
  - exact H2.
  - apply distinct_cons_iff in H1. destruct H1 as [Hf Hd]. apply distinct_cons_iff. split.
    + intros b Hb. apply in_app_or in Hb. destruct Hb as [Hb|Hb].
      * apply Hf. exact Hb.
      * apply Hx; [left; reflexivity|exact Hb].
    + apply IH; [exact Hd|exact H2|]. intros a b Ha Hb. apply Hx; [right; exact Ha|exact Hb].
Qed.

Lemma distinct_filter : forall (p : A -> bool) l, distinct l -> distinct (filter p l).
Proof.
  intros p l. induction l as [|x l IH]; intros H; cbn [filter].
  - constructor.
  - apply distinct_cons_iff in H. destruct H as [Hf Hd]. destruct (p x).
    + apply distinct_cons_iff. split; [|apply IH; exact Hd].
      intros b Hb. apply filter_In in Hb. apply Hf. apply Hb.
    + apply IH. exact Hd.
Qed.

Fixpoint nub (l : list A) : list A :=
  match l with
  | [] => []
  | a :: l' => a :: filter (fun b => negb (eqb a b)) (nub l')
  end.

Lemma nub_distinct : forall l, distinct (nub l).
Proof.
  induction l as [|a l IH]; cbn [nub].
  - constructor.
  - apply distinct_cons_iff. split.
    + intros b Hb. apply filter_In in Hb. destruct Hb as [_ Hb]. apply negb_true_iff in Hb. exact Hb.
    + apply distinct_filter. exact IH.
Qed.

Lemma nub_covers : forall l x, In x l -> exists y, In y (nub l) /\ eqb y x = true.
Proof.
  induction l as [|a l IH]; intros x Hx.
  - destruct Hx.
  - cbn [nub]. destruct Hx as [<-|Hx].
    + exists a. split; [left; reflexivity|apply eqb_refl].
    + destruct (IH x Hx) as [y [Hy Hyx]]. destruct (eqb a y) eqn:Eay.
      * exists a. split; [left; reflexivity|]. eapply eqb_trans; eassumption.
      * exists y. split; [|exact Hyx]. right. apply filter_In. split; [exact Hy|].
        rewrite Eay. reflexivity.
Qed.

Lemma nub_incl : forall l x, In x (nub l) -> In x l.
Proof.
  induction l as [|a l IH]; intros x Hx.
  - destruct Hx.
  - cbn [nub] in Hx. destruct Hx as [<-|Hx]; [left; reflexivity|].
    apply filter_In in Hx. right. apply IH. apply Hx.
Qed.

Section Pick.
Variable f : A -> Q.
Hypothesis f_class : forall a b, eqb a b = true -> f a == f b.

Lemma pick_none : forall a l, (forall b, In b l -> eqb a b = false) ->
  qsum (map (fun b => if eqb a b then f b else 0) l) == 0.
Proof.
  intros a l H. apply qsum_map_zero. intros b Hb. rewrite (H b Hb). reflexivity.
Qed.

Lemma pick_one : forall a l b, distinct l -> In b l -> eqb a b = true ->
  qsum (map (fun b => if eqb a b then f b else 0) l) == f b.
Proof.
  intros a l. induction l as [|x l IH]; intros b Hd Hb Hab.
  - destruct Hb.
  - apply distinct_cons_iff in Hd. destruct Hd as [Hf Hd]. cbn [map]. rewrite qsum_cons.
    destruct Hb as [->|Hb].
    + rewrite Hab. rewrite pick_none; [ring|].
      intros c Hc. destruct (eqb a c) eqn:Eac; [|reflexivity].
      rewrite <- (Hf c Hc). symmetry. apply eqb_trans with a; [|exact Eac].
      rewrite eqb_sym. exact Hab.
    + destruct (eqb a x) eqn:Eax.
      * exfalso. assert (Hxb : eqb x b = true).
        { apply eqb_trans with a; [rewrite eqb_sym; exact Eax|exact Hab]. }
        rewrite (Hf b Hb) in Hxb. discriminate.
      * rewrite (IH b Hd Hb Hab). ring.
Qed.

(* the class of a is met at most once in a distinct list; if it is not met, f vanishes there *)
Lemma inner_sum : forall a l, distinct l ->
  (~ f a == 0 -> exists b, In b l /\ eqb a b = true) ->
  qsum (map (fun b => if eqb a b then f b else 0) l) == f a.
Proof.
  intros a l Hd Hc. destruct (Qeq_dec (f a) 0) as [Hz|Hnz].
  - rewrite Hz. apply qsum_map_zero. intros b _. destruct (eqb a b) eqn:E; [|reflexivity].
    rewrite <- (f_class a b E). exact Hz.
  - destruct (Hc Hnz) as [b [Hb Hab]]. rewrite (pick_one a l b Hd Hb Hab).
    symmetry. apply f_class. exact Hab.
Qed.

(* the sum of a class function over a distinct list depends only on which classes with a
   non-zero value the list meets *)
Lemma sum_indep : forall ks ks', distinct ks -> distinct ks' ->
  (forall a, In a ks -> ~ f a == 0 -> exists b, In b ks' /\ eqb a b = true) ->
  (forall b, In b ks' -> ~ f b == 0 -> exists a, In a ks /\ eqb b a = true) ->
  qsum (map f ks) == qsum (map f ks').
Proof.
  intros ks ks' Hd Hd' H1 H2.
  transitivity (qsum (map (fun a => qsum (map (fun b => if eqb a b then f b else 0) ks')) ks)).
  - apply qsum_map_ext_in. intros a Ha. symmetry. apply inner_sum; [exact Hd'|].
    intros Hnz. apply H1; assumption.
  - rewrite (qsum_swap (fun a b => if eqb a b then f b else 0) ks ks').
    apply qsum_map_ext_in. intros b Hb.
    transitivity (qsum (map (fun a => if eqb b a then f a else 0) ks)).
    + apply qsum_map_ext_in. intros a _. rewrite (eqb_sym a b).
      destruct (eqb b a) eqn:E; [|reflexivity]. apply f_class. exact E.
    + apply inner_sum; [exact Hd|]. intros Hnz. apply H2; assumption.
Qed.

End Pick.
End ClassSum.

(* ------------------------------------------------------------------ *)
(** * Rational helpers: the model's absolute value, power and maximum *)

Lemma Qabs'_Qabs : forall q, Qabs' q == Qabs q.
Proof.
  intros q. unfold Qabs'. destruct (Qle_bool 0 q) eqn:E.
  - apply Qle_bool_iff in E. symmetry. apply Qabs_pos. exact E.
  - symmetry. apply Qabs_neg. apply Qlt_le_weak. apply Qnot_le_lt. intros H.
    apply Qle_bool_iff in H. congruence.
Qed.

Lemma Qpow_S : forall q n, Qpow q (S n) = q * Qpow q n.
Proof. reflexivity. Qed.

Lemma Qpow_compat : forall n x y, x == y -> Qpow x n == Qpow y n.
Proof.
  induction n as [|n IH]; intros x y H.
  - reflexivity.
  - rewrite !Qpow_S. rewrite (IH x y H), H. reflexivity.
Qed.

Global Instance Qpow_Proper : Proper (Qeq ==> eq ==> Qeq) Qpow.
Proof. intros x y H n m <-. apply Qpow_compat. exact H. Qed.

Lemma Qpow_Qpower : forall q n, Qpow q n == q ^ Z.of_nat n.
Proof.
  intros q n. induction n as [|n IH].
  - reflexivity.
  - rewrite Qpow_S, IH. rewrite Nat2Z.inj_succ. unfold Z.succ.
    rewrite Qpower_plus'; [|lia]. change (q ^ 1) with q. ring.
Qed.

Lemma Qpow_nonneg : forall n x, 0 <= x -> 0 <= Qpow x n.
Proof.
  induction n as [|n IH]; intros x H.
  - cbn [Qpow]. lra.
  - rewrite Qpow_S. apply Qmult_le_0_compat; [exact H|apply IH; exact H].
Qed.

Lemma Qpow_zero_inv : forall n x, Qpow x n == 0 -> x == 0.
Proof.
  induction n as [|n IH]; intros x H.
  - cbn [Qpow] in H. exfalso. revert H. apply Q_apart_0_1.
  - rewrite Qpow_S in H. apply Qmult_integral in H. destruct H as [H|H]; [exact H|].
    apply IH. exact H.
Qed.

Lemma Qpow_zero : forall n x, (1 <= n)%nat -> x == 0 -> Qpow x n == 0.
Proof.
  intros [|n] x Hn H; [lia|]. rewrite Qpow_S, H. ring.
Qed.

Lemma Qpow_1 : forall x, Qpow x 1 == x.
Proof. intros x. cbn [Qpow]. ring. Qed.

Lemma Qmax'_cases : forall a b, (Qmax' a b = a /\ b <= a) \/ (Qmax' a b = b /\ a <= b).
Proof.
  intros a b. unfold Qmax'. destruct (Qle_bool a b) eqn:E.
  - right. split; [reflexivity|]. apply Qle_bool_iff. exact E.
  - left. split; [reflexivity|]. apply Qlt_le_weak. apply Qnot_le_lt. intros H.
    apply Qle_bool_iff in H. congruence.
Qed.

Lemma fold_Qmax'_is_max : forall l x, is_max (fold_left Qmax' l x) (x :: l).
Proof.
  induction l as [|y l IH]; intros x; cbn [fold_left].
  - split.
    + exists x. split; [left; reflexivity|reflexivity].
    + intros z [<-|[]]. apply Qle_refl.
  - destruct (IH (Qmax' x y)) as [[z [Hz Hmz]] Hub]. split.
    + destruct Hz as [<-|Hz].
      * destruct (Qmax'_cases x y) as [[E _]|[E _]]; rewrite E in Hmz |- *.
        -- exists x. split; [left; reflexivity|exact Hmz].
        -- exists y. split; [right; left; reflexivity|exact Hmz].
      * exists z. split; [right; right; exact Hz|exact Hmz].
    + intros u Hu.
      assert (Hm : Qmax' x y <= fold_left Qmax' l (Qmax' x y)) by (apply Hub; left; reflexivity).
      destruct Hu as [<-|[<-|Hu]].
      * eapply Qle_trans; [|exact Hm].
        destruct (Qmax'_cases x y) as [[E Hle]|[E Hle]]; rewrite E; [apply Qle_refl|exact Hle].
      * eapply Qle_trans; [|exact Hm].
        destruct (Qmax'_cases x y) as [[E Hle]|[E Hle]]; rewrite E; [exact Hle|apply Qle_refl].
      * apply Hub. right. exact Hu.
Qed.

Lemma qsum_nonneg_zero : forall l, (forall x, In x l -> 0 <= x) -> qsum l == 0 ->
  forall x, In x l -> x == 0.
Proof.
  induction l as [|a l IH]; intros Hp Hs x Hx.
  - destruct Hx.
  - rewrite qsum_cons in Hs.
    assert (Ha : 0 <= a) by (apply Hp; left; reflexivity).
    assert (Hl : 0 <= qsum l).
    { apply qsum_nonneg. apply Forall_forall. intros y Hy. apply Hp. right. exact Hy. }
    destruct Hx as [<-|Hx].
    + lra.
    + apply IH; [intros y Hy; apply Hp; right; exact Hy|lra|exact Hx].
Qed.

Lemma qsum_le : forall {A} (f g : A -> Q) l, (forall a, In a l -> f a <= g a) ->
  qsum (map f l) <= qsum (map g l).
Proof.
  intros A f g l. induction l as [|a l IH]; intros H; cbn [map].
  - rewrite qsum_nil. lra.
  - rewrite !qsum_cons. specialize (H a (or_introl eq_refl)) as Ha.
    assert (Hl : qsum (map f l) <= qsum (map g l)).
    { apply IH. intros b Hb. apply H. right. exact Hb. }
    lra.
Qed.

(* ------------------------------------------------------------------ *)
(** * The ranking dictionary *)

Section WithCand.
Variable cand : Type.
Variable ceqb : cand -> cand -> bool.
Hypothesis ceqb_spec : forall a b, reflect (a = b) (ceqb a b).

Notation ranking := (ranking cand).
Notation ballot := (ballot cand).
Notation profile := (profile cand).
Notation req := (ranking_eqb cand ceqb).
Notation rke := (rk_or_empty cand).
Notation rwt := (rwt cand ceqb).
Notation ndist := (ndist cand ceqb).
Notation covers := (covers cand ceqb).
Notation cast_in := (cast_in cand ceqb).
Notation distinct_keys := (distinct_keys cand ceqb).
Notation absdiff := (absdiff cand ceqb).
Notation lp_pow_sum := (lp_pow_sum cand ceqb).
Notation degenerate := (degenerate cand).
Notation rd_add := (rd_add cand ceqb).
Notation rd_lookup := (rd_lookup cand ceqb).
Notation key_union := (key_union cand ceqb).
Notation to_ranking_dict := (to_ranking_dict cand ceqb).
Notation diff_vector := (diff_vector cand ceqb).
Notation lp_sum := (lp_sum cand ceqb).
Notation linf := (linf cand ceqb).
Notation total_wt := (total_wt cand).

Let req_refl := ranking_eqb_refl cand ceqb ceqb_spec.
Let req_sym := ranking_eqb_sym cand ceqb ceqb_spec.
Lemma req_trans : forall a b c, req a b = true -> req b c = true -> req a c = true.
Proof.
  intros a b c H1 H2. rewrite (ranking_eqb_compat_r cand ceqb ceqb_spec a c b).
  - exact H1.
  - rewrite req_sym. exact H2.
Qed.

Lemma distinct_keys_is : forall ks, distinct_keys ks <-> distinct ranking req ks.
Proof. intros ks. reflexivity. Qed.

(* ---------- lookup after insertion ---------- *)

Lemma rd_lookup_cons : forall k v d r,
  rd_lookup ((k, v) :: d) r = if req k r then v else rd_lookup d r.
Proof.
  intros k v d r. unfold Metrics.rd_lookup. cbn [find fst snd]. destruct (req k r); reflexivity.
Qed.

Lemma rd_lookup_nil : forall r, rd_lookup [] r = 0.
Proof. reflexivity. Qed.

Lemma rd_lookup_rd_add : forall d r w r',
  rd_lookup (rd_add d r w) r' == rd_lookup d r' + (if req r r' then w else 0).
Proof.
  induction d as [|[k v] d IH]; intros r w r'.
  - cbn [Metrics.rd_add]. rewrite rd_lookup_cons, !rd_lookup_nil. destruct (req r r'); lra.
  - cbn [Metrics.rd_add]. destruct (req k r) eqn:Ekr.
    + rewrite !rd_lookup_cons.
      assert (E : req k r' = req r r').
      { apply (ranking_eqb_compat_l cand ceqb ceqb_spec). exact Ekr. }
      rewrite E. destruct (req r r'); lra.
    + rewrite !rd_lookup_cons. destruct (req k r') eqn:Ekr'.
      * destruct (req r r') eqn:Err'; [|lra].
        exfalso. assert (H : req k r = true).
        { apply req_trans with r'; [exact Ekr'|]. rewrite req_sym. exact Err'. }
        congruence.
      * apply IH.
Qed.

Lemma fold_rd_lookup : forall (g : ballot -> Q) bs d r,
  rd_lookup (fold_left (fun acc b => rd_add acc (rke b) (g b)) bs d) r ==
  rd_lookup d r + qsum (map g (filter (fun b => req r (rke b)) bs)).
Proof.
  intros g bs. induction bs as [|b bs IH]; intros d r; cbn [fold_left filter].
  - cbn [map]. rewrite qsum_nil. lra.
  - rewrite IH, rd_lookup_rd_add. rewrite (req_sym (rke b) r).
    destruct (req r (rke b)); cbn [map]; rewrite ?qsum_cons; lra.
Qed.

(* ---------- the keys of the dictionary ---------- *)

Lemma rd_add_keys : forall d r w,
  map fst (rd_add d r w) =
  if existsb (fun k => req k r) (map fst d) then map fst d else map fst d ++ [r].
Proof.
  induction d as [|[k v] d IH]; intros r w.
  - reflexivity.
  - cbn [Metrics.rd_add map fst existsb]. destruct (req k r) eqn:E; cbn [orb map fst].
    + reflexivity.
    + rewrite IH. destruct (existsb (fun k0 => req k0 r) (map fst d)); reflexivity.
Qed.

Lemma rd_add_keys_distinct : forall d r w,
  distinct_keys (map fst d) -> distinct_keys (map fst (rd_add d r w)).
Proof.
  intros d r w H. rewrite rd_add_keys.
  destruct (existsb (fun k => req k r) (map fst d)) eqn:E; [exact H|].
  apply (distinct_app ranking req); [exact H|apply distinct_cons_iff; split; [intros b []|constructor]|].
  intros a b Ha [<-|[]].
  destruct (req a r) eqn:Ea; [|reflexivity].
  assert (Hex : existsb (fun k => req k r) (map fst d) = true).
  { apply existsb_exists. exists a. split; assumption. }
  congruence.
Qed.

Lemma rd_add_keys_old : forall d r w k, In k (map fst d) -> In k (map fst (rd_add d r w)).
Proof.
  intros d r w k H. rewrite rd_add_keys.
  destruct (existsb (fun k0 => req k0 r) (map fst d)); [exact H|].
  apply in_or_app. left. exact H.
Qed.

Lemma rd_add_keys_new : forall d r w, exists k, In k (map fst (rd_add d r w)) /\ req k r = true.
Proof.
  intros d r w. rewrite rd_add_keys.
  destruct (existsb (fun k0 => req k0 r) (map fst d)) eqn:E.
  - apply existsb_exists in E. exact E.
  - exists r. split; [apply in_or_app; right; left; reflexivity|apply req_refl].
Qed.

Lemma rd_add_keys_inv : forall d r w k, In k (map fst (rd_add d r w)) -> In k (map fst d) \/ k = r.
Proof.
  intros d r w k H. rewrite rd_add_keys in H.
  destruct (existsb (fun k0 => req k0 r) (map fst d)); [left; exact H|].
  apply in_app_or in H. destruct H as [H|[<-|[]]]; [left; exact H|right; reflexivity].
Qed.

Section Fold.
Variable g : ballot -> Q.
Let step := fun acc b => rd_add acc (rke b) (g b).

Lemma fold_keys_distinct : forall bs d,
  distinct_keys (map fst d) -> distinct_keys (map fst (fold_left step bs d)).
Proof.
  induction bs as [|b bs IH]; intros d H; cbn [fold_left]; [exact H|].
  apply IH. apply rd_add_keys_distinct. exact H.
Qed.

Lemma fold_keys_old : forall bs d k, In k (map fst d) -> In k (map fst (fold_left step bs d)).
Proof.
  induction bs as [|b bs IH]; intros d k H; cbn [fold_left]; [exact H|].
  apply IH. apply rd_add_keys_old. exact H.
Qed.

Lemma fold_keys_cover : forall bs d b, In b bs ->
  exists k, In k (map fst (fold_left step bs d)) /\ req k (rke b) = true.
Proof.
  induction bs as [|x bs IH]; intros d b Hb; [destruct Hb|].
  cbn [fold_left]. destruct Hb as [->|Hb].
  - destruct (rd_add_keys_new d (rke b) (g b)) as [k [Hk Hkr]].
    exists k. split; [|exact Hkr]. apply fold_keys_old. exact Hk.
  - apply IH. exact Hb.
Qed.

Lemma fold_keys_inv : forall bs d k, In k (map fst (fold_left step bs d)) ->
  In k (map fst d) \/ exists b, In b bs /\ k = rke b.
Proof.
  induction bs as [|x bs IH]; intros d k H; cbn [fold_left] in H; [left; exact H|].
  destruct (IH _ k H) as [H1|[b [Hb Hk]]].
  - apply rd_add_keys_inv in H1. destruct H1 as [H1|H1]; [left; exact H1|].
    right. exists x. split; [left; reflexivity|exact H1].
  - right. exists b. split; [right; exact Hb|exact Hk].
Qed.
End Fold.

(* ---------- to_ranking_dict ---------- *)

Definition std_dict (p : profile) : list (ranking * Q) :=
  fold_left (fun acc b => rd_add acc (rke b) (wt b / total_wt (ballots p))) (ballots p) [].

Lemma nonempty_iff : forall (A : Type) (l : list A), nonempty l = true <-> l <> [].
Proof. intros A [|a l]; cbn; split; congruence. Qed.

Lemma to_ranking_dict_cases : forall p,
  (degenerate p /\ to_ranking_dict p true = inr EZeroDiv) \/
  (~ degenerate p /\ to_ranking_dict p true = inl (std_dict p)).
Proof.
  intros p. unfold Metrics.to_ranking_dict, MetricSpec.degenerate. cbn [andb].
  destruct (Qeq_bool (total_wt (ballots p)) 0) eqn:Et; cbn [andb].
  - apply Qeq_bool_iff in Et. destruct (nonempty (ballots p)) eqn:En.
    + left. split; [|reflexivity]. split; [apply nonempty_iff; exact En|exact Et].
    + right. split; [|reflexivity]. intros [Hne _]. apply nonempty_iff in Hne. congruence.
  - right. split; [|reflexivity]. intros [_ Hz]. apply Qeq_bool_iff in Hz. congruence.
Qed.

Lemma std_dict_lookup : forall p r, rd_lookup (std_dict p) r == ndist p r.
Proof.
  intros p r. unfold std_dict. rewrite fold_rd_lookup, rd_lookup_nil.
  unfold MetricSpec.ndist, MetricSpec.rwt. set (t := total_wt (ballots p)).
  rewrite (qsum_map_ext_in (fun b => wt b / t) (fun b => / t * wt b)).
  - rewrite qsum_map_scal. unfold Qdiv. ring.
  - intros b _. unfold Qdiv. ring.
Qed.

Lemma std_dict_keys_distinct : forall p, distinct_keys (map fst (std_dict p)).
Proof. intros p. unfold std_dict. apply fold_keys_distinct. constructor. Qed.

Lemma std_dict_covers : forall p, covers (map fst (std_dict p)) p.
Proof. intros p b Hb. unfold std_dict. apply fold_keys_cover. exact Hb. Qed.

Lemma std_dict_keys_cast : forall p k, In k (map fst (std_dict p)) -> cast_in p k.
Proof.
  intros p k H. unfold std_dict in H. apply fold_keys_inv in H. destruct H as [[]|[b [Hb ->]]].
  exists b. split; [exact Hb|apply req_refl].
Qed.

(* ---------- key_union ---------- *)

Lemma key_union_distinct : forall d1 d2,
  distinct_keys (map fst d1) -> distinct_keys (map fst d2) -> distinct_keys (key_union d1 d2).
Proof.
  intros d1 d2 H1 H2. unfold Metrics.key_union.
  apply (distinct_app ranking req); [exact H1|apply distinct_filter; exact H2|].
  intros a b Ha Hb. apply filter_In in Hb. destruct Hb as [_ Hb]. apply negb_true_iff in Hb.
  destruct (req a b) eqn:E; [|reflexivity].
  assert (Hex : existsb (fun r' => req r' b) (map fst d1) = true).
  { apply existsb_exists. exists a. split; assumption. }
  congruence.
Qed.

Lemma key_union_covers_l : forall d1 d2 p, covers (map fst d1) p -> covers (key_union d1 d2) p.
Proof.
  intros d1 d2 p H b Hb. destruct (H b Hb) as [k [Hk Hkr]]. exists k. split; [|exact Hkr].
  unfold Metrics.key_union. apply in_or_app. left. exact Hk.
Qed.

Lemma key_union_covers_r : forall d1 d2 p, covers (map fst d2) p -> covers (key_union d1 d2) p.
Proof.
  intros d1 d2 p H b Hb. destruct (H b Hb) as [k [Hk Hkr]]. unfold Metrics.key_union.
  destruct (existsb (fun r' => req r' k) (map fst d1)) eqn:E.
  - apply existsb_exists in E. destruct E as [k' [Hk' Hkk]]. exists k'. split.
    + apply in_or_app. left. exact Hk'.
    + eapply req_trans; eassumption.
  - exists k. split; [|exact Hkr]. apply in_or_app. right. apply filter_In. split; [exact Hk|].
    rewrite E. reflexivity.
Qed.

Lemma key_union_inv : forall d1 d2 k, In k (key_union d1 d2) -> In k (map fst d1) \/ In k (map fst d2).
Proof.
  intros d1 d2 k H. unfold Metrics.key_union in H. apply in_app_or in H.
  destruct H as [H|H]; [left; exact H|]. apply filter_In in H. right. apply H.
Qed.

(* ---------- diff_vector ---------- *)

Definition std_keys (p1 p2 : profile) : list ranking := key_union (std_dict p1) (std_dict p2).
Definition std_diff (p1 p2 : profile) (r : ranking) : Q :=
  Qabs' (rd_lookup (std_dict p1) r - rd_lookup (std_dict p2) r).

Lemma std_diff_absdiff : forall p1 p2 r, std_diff p1 p2 r == absdiff p1 p2 r.
Proof.
  intros p1 p2 r. unfold std_diff, MetricSpec.absdiff. rewrite Qabs'_Qabs, !std_dict_lookup.
  reflexivity.
Qed.

Lemma std_keys_distinct : forall p1 p2, distinct_keys (std_keys p1 p2).
Proof. intros p1 p2. apply key_union_distinct; apply std_dict_keys_distinct. Qed.

Lemma std_keys_covers_l : forall p1 p2, covers (std_keys p1 p2) p1.
Proof. intros p1 p2. apply key_union_covers_l. apply std_dict_covers. Qed.

Lemma std_keys_covers_r : forall p1 p2, covers (std_keys p1 p2) p2.
Proof. intros p1 p2. apply key_union_covers_r. apply std_dict_covers. Qed.

Lemma std_keys_cast : forall p1 p2 k, In k (std_keys p1 p2) -> cast_in p1 k \/ cast_in p2 k.
Proof.
  intros p1 p2 k H. apply key_union_inv in H.
  destruct H as [H|H]; [left|right]; apply std_dict_keys_cast; exact H.
Qed.

Lemma diff_vector_cases : forall p1 p2,
  ((degenerate p1 \/ degenerate p2) /\ diff_vector p1 p2 = inr EZeroDiv) \/
  (~ degenerate p1 /\ ~ degenerate p2 /\
   diff_vector p1 p2 = inl (map (std_diff p1 p2) (std_keys p1 p2))).
Proof.
  intros p1 p2. unfold Metrics.diff_vector.
  destruct (to_ranking_dict_cases p1) as [[Hd1 E1]|[Hd1 E1]]; rewrite E1; unfold rbind.
  - left. split; [left; exact Hd1|reflexivity].
  - destruct (to_ranking_dict_cases p2) as [[Hd2 E2]|[Hd2 E2]]; rewrite E2.
    + left. split; [right; exact Hd2|reflexivity].
    + right. split; [exact Hd1|]. split; [exact Hd2|reflexivity].
Qed.

(* ---------- the distribution ---------- *)

Lemma ndist_compat : forall p r r', req r r' = true -> ndist p r == ndist p r'.
Proof.
  intros p r r' H. unfold MetricSpec.ndist, MetricSpec.rwt.
  rewrite (filter_ext_in _ (fun b => req r (rke b)) (fun b => req r' (rke b))); [reflexivity|].
  intros b _. apply (ranking_eqb_compat_l cand ceqb ceqb_spec). exact H.
Qed.

Lemma cast_in_dec : forall p r, {cast_in p r} + {forall b, In b (ballots p) -> req r (rke b) = false}.
Proof.
  intros p r. destruct (existsb (fun b => req r (rke b)) (ballots p)) eqn:E.
  - left. apply existsb_exists in E. exact E.
  - right. intros b Hb. destruct (req r (rke b)) eqn:Er; [|reflexivity].
    assert (H : existsb (fun b => req r (rke b)) (ballots p) = true).
    { apply existsb_exists. exists b. split; assumption. }
    congruence.
Qed.

Lemma ndist_not_cast : forall p r,
  (forall b, In b (ballots p) -> req r (rke b) = false) -> ndist p r == 0.
Proof.
  intros p r H. unfold MetricSpec.ndist, MetricSpec.rwt.
  rewrite (Lib_sets.filter_all_false _ (ballots p)).
  - cbn [map]. rewrite qsum_nil. unfold Qdiv. ring.
  - exact H.
Qed.

Lemma cast_covered : forall ks p r, covers ks p -> cast_in p r ->
  exists k, In k ks /\ req r k = true.
Proof.
  intros ks p r Hc [b [Hb Hr]]. destruct (Hc b Hb) as [k [Hk Hkr]]. exists k. split; [exact Hk|].
  apply req_trans with (rke b); [exact Hr|]. rewrite req_sym. exact Hkr.
Qed.

Lemma absdiff_compat : forall p1 p2 r r', req r r' = true -> absdiff p1 p2 r == absdiff p1 p2 r'.
Proof.
  intros p1 p2 r r' H. unfold MetricSpec.absdiff.
  rewrite (ndist_compat p1 r r' H), (ndist_compat p2 r r' H). reflexivity.
Qed.

Lemma absdiff_nonneg : forall p1 p2 r, 0 <= absdiff p1 p2 r.
Proof. intros p1 p2 r. apply Qabs_nonneg. Qed.

Lemma absdiff_sym : forall p1 p2 r, absdiff p1 p2 r == absdiff p2 p1 r.
Proof. intros p1 p2 r. unfold MetricSpec.absdiff. rewrite Qabs_Qminus. reflexivity. Qed.

Lemma Qabs_zero_inv : forall x, Qabs x == 0 -> x == 0.
Proof.
  intros x H. pose proof (Qle_Qabs x) as H1. pose proof (Qle_Qabs (- x)) as H2.
  rewrite Qabs_opp in H2. lra.
Qed.

Lemma absdiff_zero_iff : forall p1 p2 r, absdiff p1 p2 r == 0 <-> ndist p1 r == ndist p2 r.
Proof.
  intros p1 p2 r. unfold MetricSpec.absdiff. split.
  - intros H. apply Qabs_zero_inv in H. lra.
  - intros H. rewrite H. setoid_replace (ndist p2 r - ndist p2 r) with 0 by ring. reflexivity.
Qed.

Lemma absdiff_outside : forall p1 p2 r,
  (forall b, In b (ballots p1 ++ ballots p2) -> req r (rke b) = false) -> absdiff p1 p2 r == 0.
Proof.
  intros p1 p2 r H. apply absdiff_zero_iff. rewrite !ndist_not_cast; [reflexivity| |].
  - intros b Hb. apply H. apply in_or_app. right. exact Hb.
  - intros b Hb. apply H. apply in_or_app. left. exact Hb.
Qed.

Lemma absdiff_nonzero_cast : forall p1 p2 r,
  ~ absdiff p1 p2 r == 0 -> cast_in p1 r \/ cast_in p2 r.
Proof.
  intros p1 p2 r H. destruct (cast_in_dec p1 r) as [H1|H1]; [left; exact H1|].
  destruct (cast_in_dec p2 r) as [H2|H2]; [right; exact H2|].
  exfalso. apply H. apply absdiff_zero_iff. rewrite (ndist_not_cast p1 r H1), (ndist_not_cast p2 r H2).
  reflexivity.
Qed.

Lemma absdiff_triangle : forall p1 p2 p3 r,
  absdiff p1 p3 r <= absdiff p1 p2 r + absdiff p2 p3 r.
Proof.
  intros p1 p2 p3 r. unfold MetricSpec.absdiff.
  setoid_replace (ndist p1 r - ndist p3 r)
    with ((ndist p1 r - ndist p2 r) + (ndist p2 r - ndist p3 r)) by ring.
  apply Qabs_triangle.
Qed.

Lemma absdiff_ext_l : forall p p' q r,
  ndist p r == ndist p' r -> absdiff p q r == absdiff p' q r.
Proof. intros p p' q r H. unfold MetricSpec.absdiff. rewrite H. reflexivity. Qed.

(* ---------- sums of powers over key lists ---------- *)

Definition psum (p1 p2 : profile) (n : nat) (ks : list ranking) : Q :=
  qsum (map (fun r => Qpow (absdiff p1 p2 r) n) ks).

Lemma lp_pow_sum_psum : forall p1 p2 n ks, lp_pow_sum p1 p2 n ks == psum p1 p2 n ks.
Proof.
  intros p1 p2 n ks. unfold MetricSpec.lp_pow_sum, psum. apply qsum_map_ext_in.
  intros r _. symmetry. apply Qpow_Qpower.
Qed.

Lemma psum_indep : forall p1 p2 n ks ks', (1 <= n)%nat ->
  distinct_keys ks -> distinct_keys ks' ->
  covers ks p1 -> covers ks p2 -> covers ks' p1 -> covers ks' p2 ->
  psum p1 p2 n ks == psum p1 p2 n ks'.
Proof.
  intros p1 p2 n ks ks' Hn Hd Hd' H1 H2 H1' H2'. unfold psum.
  assert (Hcov : forall K, covers K p1 -> covers K p2 -> forall a,
            ~ Qpow (absdiff p1 p2 a) n == 0 -> exists b, In b K /\ req a b = true).
  { intros K HK1 HK2 a Hnz.
    assert (Ha : ~ absdiff p1 p2 a == 0).
    { intros Hz. apply Hnz. apply Qpow_zero; assumption. }
    destruct (absdiff_nonzero_cast p1 p2 a Ha) as [Hc|Hc].
    - apply (cast_covered K p1 a HK1 Hc).
    - apply (cast_covered K p2 a HK2 Hc). }
  apply (sum_indep ranking req req_sym req_trans).
  - intros a b Hab. rewrite (absdiff_compat p1 p2 a b Hab). reflexivity.
  - exact Hd.
  - exact Hd'.
  - intros a _. apply Hcov; assumption.
  - intros b _. apply Hcov; assumption.
Qed.

Lemma lp_pow_sum_indep : forall p1 p2 n ks ks', (1 <= n)%nat ->
  distinct_keys ks -> distinct_keys ks' ->
  covers ks p1 -> covers ks p2 -> covers ks' p1 -> covers ks' p2 ->
  lp_pow_sum p1 p2 n ks == lp_pow_sum p1 p2 n ks'.
Proof.
  intros p1 p2 n ks ks' Hn Hd Hd' H1 H2 H1' H2'. rewrite !lp_pow_sum_psum.
  apply psum_indep; assumption.
Qed.

Lemma psum_sym : forall p1 p2 n ks, psum p1 p2 n ks == psum p2 p1 n ks.
Proof.
  intros p1 p2 n ks. unfold psum. apply qsum_map_ext_in. intros r _.
  rewrite (absdiff_sym p1 p2 r). reflexivity.
Qed.

Lemma psum_ext_l : forall p p' q n ks, (forall r, ndist p r == ndist p' r) ->
  psum p q n ks == psum p' q n ks.
Proof.
  intros p p' q n ks H. unfold psum. apply qsum_map_ext_in. intros r _.
  rewrite (absdiff_ext_l p p' q r (H r)). reflexivity.
Qed.

(* a duplicate-free key list covering any finite family of profiles *)
Lemma common_keys : forall ps : list profile,
  exists K, distinct_keys K /\ forall p, In p ps -> covers K p.
Proof.
  intros ps. exists (nub ranking req (map rke (concat (map ballots ps)))). split.
  - apply nub_distinct.
  - intros p Hp b Hb.
    apply (nub_covers ranking req req_refl req_trans). apply in_map.
    apply in_concat. exists (ballots p). split; [apply in_map; exact Hp|exact Hb].
Qed.

(* ---------- lp_sum ---------- *)

Lemma lp_sum_std : forall p1 p2 n s, lp_sum p1 p2 n = inl s ->
  (1 <= n)%nat /\ ~ degenerate p1 /\ ~ degenerate p2 /\ s == psum p1 p2 n (std_keys p1 p2).
Proof.
  intros p1 p2 n s H. unfold Metrics.lp_sum in H.
  destruct (diff_vector_cases p1 p2) as [[_ E]|[Hd1 [Hd2 E]]]; rewrite E in H; unfold rbind in H.
  - discriminate.
  - destruct n as [|n]; [discriminate|]. injection H as <-.
    split; [lia|]. split; [exact Hd1|]. split; [exact Hd2|].
    rewrite map_map. unfold psum. apply qsum_map_ext_in. intros r _.
    rewrite (std_diff_absdiff p1 p2 r). reflexivity.
Qed.

Lemma lp_sum_ok : forall p1 p2 n, ~ degenerate p1 -> ~ degenerate p2 -> (1 <= n)%nat ->
  exists s, lp_sum p1 p2 n = inl s.
Proof.
  intros p1 p2 n Hd1 Hd2 Hn. unfold Metrics.lp_sum.
  destruct (diff_vector_cases p1 p2) as [[[Hd|Hd] _]|[_ [_ E]]]; [contradiction|contradiction|].
  rewrite E. unfold rbind. destruct n as [|n]; [lia|]. eexists. reflexivity.
Qed.

Lemma lp_sum_err : forall p1 p2 n e,
  lp_sum p1 p2 n = inr e <-> e = EZeroDiv /\ (degenerate p1 \/ degenerate p2 \/ n = 0%nat).
Proof.
  intros p1 p2 n e. unfold Metrics.lp_sum.
  destruct (diff_vector_cases p1 p2) as [[Hd E]|[Hd1 [Hd2 E]]]; rewrite E; unfold rbind.
  - split.
    + intros H. injection H as <-. split; [reflexivity|]. destruct Hd as [Hd|Hd]; auto.
    + intros [-> _]. reflexivity.
  - destruct n as [|n].
    + split.
      * intros H. injection H as <-. split; [reflexivity|]. right. right. reflexivity.
      * intros [-> _]. reflexivity.
    + split; [discriminate|]. intros [_ [H|[H|H]]]; [contradiction|contradiction|discriminate].
Qed.

Lemma lp_sum_any_keys : forall p1 p2 n s, lp_sum p1 p2 n = inl s ->
  forall ks, distinct_keys ks -> covers ks p1 -> covers ks p2 -> s == psum p1 p2 n ks.
Proof.
  intros p1 p2 n s H ks Hd H1 H2. destruct (lp_sum_std p1 p2 n s H) as [Hn [_ [_ Hs]]].
  rewrite Hs. apply psum_indep; try assumption.
  - apply std_keys_distinct.
  - apply std_keys_covers_l.
  - apply std_keys_covers_r.
Qed.

Lemma pos_not_degenerate : forall p, 0 < total_wt (ballots p) -> ~ degenerate p.
Proof. intros p H [_ Hz]. rewrite Hz in H. apply (Qlt_irrefl 0). exact H. Qed.

Lemma pos_has_ballot : forall p, 0 < total_wt (ballots p) -> exists b, In b (ballots p).
Proof.
  intros p H. destruct (ballots p) as [|b bs] eqn:E.
  - unfold Core.total_wt in H. cbn [map] in H. rewrite qsum_nil in H. exfalso. apply (Qlt_irrefl 0). exact H.
  - exists b. left. reflexivity.
Qed.

(* L1 *)
Theorem lp_def : forall p1 p2 n s, lp_sum p1 p2 n = inl s ->
  (1 <= n)%nat /\
  (exists keys, distinct_keys keys /\ covers keys p1 /\ covers keys p2 /\
                (forall k, In k keys -> cast_in p1 k \/ cast_in p2 k)) /\
  (forall keys, distinct_keys keys -> covers keys p1 -> covers keys p2 ->
                s == lp_pow_sum p1 p2 n keys).
Proof.
  intros p1 p2 n s H. split; [apply (lp_sum_std p1 p2 n s H)|]. split.
  - exists (std_keys p1 p2). split; [apply std_keys_distinct|].
    split; [apply std_keys_covers_l|]. split; [apply std_keys_covers_r|apply std_keys_cast].
  - intros keys Hd H1 H2. rewrite lp_pow_sum_psum. apply (lp_sum_any_keys p1 p2 n s H); assumption.
Qed.

(* ---------- linf ---------- *)

Lemma std_keys_nil_iff : forall p1 p2, std_keys p1 p2 = [] <-> ballots p1 = [] /\ ballots p2 = [].
Proof.
  intros p1 p2. split.
  - intros H. split.
    + destruct (ballots p1) as [|b bs] eqn:E; [reflexivity|].
      destruct (std_keys_covers_l p1 p2 b) as [k [Hk _]]; [rewrite E; left; reflexivity|].
      rewrite H in Hk. destruct Hk.
    + destruct (ballots p2) as [|b bs] eqn:E; [reflexivity|].
      destruct (std_keys_covers_r p1 p2 b) as [k [Hk _]]; [rewrite E; left; reflexivity|].
      rewrite H in Hk. destruct Hk.
  - intros [H1 H2]. unfold std_keys, std_dict. rewrite H1, H2. reflexivity.
Qed.

Lemma is_max_transfer : forall p1 p2 m ks,
  is_max m (map (std_diff p1 p2) (std_keys p1 p2)) ->
  covers ks p1 -> covers ks p2 -> is_max m (map (absdiff p1 p2) ks).
Proof.
  intros p1 p2 m ks [[x [Hx Hmx]] Hub] H1 H2.
  apply in_map_iff in Hx. destruct Hx as [k0 [<- Hk0]].
  rewrite std_diff_absdiff in Hmx. split.
  - assert (Hc : exists k, In k ks /\ req k0 k = true).
    { destruct (std_keys_cast p1 p2 k0 Hk0) as [Hc|Hc];
        [apply (cast_covered ks p1 k0 H1 Hc)|apply (cast_covered ks p2 k0 H2 Hc)]. }
    destruct Hc as [k [Hk Hkk]]. exists (absdiff p1 p2 k). split; [apply in_map; exact Hk|].
    rewrite Hmx. apply absdiff_compat. exact Hkk.
  - intros y Hy. apply in_map_iff in Hy. destruct Hy as [k [<- Hk]].
    destruct (Qeq_dec (absdiff p1 p2 k) 0) as [Hz|Hnz].
    + rewrite Hz, Hmx. apply absdiff_nonneg.
    + assert (Hc : exists k', In k' (std_keys p1 p2) /\ req k k' = true).
      { destruct (absdiff_nonzero_cast p1 p2 k Hnz) as [Hc|Hc].
        - apply (cast_covered _ p1 k (std_keys_covers_l p1 p2) Hc).
        - apply (cast_covered _ p2 k (std_keys_covers_r p1 p2) Hc). }
      destruct Hc as [k' [Hk' Hkk']]. rewrite (absdiff_compat p1 p2 k k' Hkk').
      rewrite <- std_diff_absdiff. apply Hub. apply in_map. exact Hk'.
Qed.

Lemma linf_std : forall p1 p2 m, linf p1 p2 = inl m ->
  ~ degenerate p1 /\ ~ degenerate p2 /\ is_max m (map (std_diff p1 p2) (std_keys p1 p2)).
Proof.
  intros p1 p2 m H. unfold Metrics.linf in H.
  destruct (diff_vector_cases p1 p2) as [[_ E]|[Hd1 [Hd2 E]]]; rewrite E in H; unfold rbind in H.
  - discriminate.
  - split; [exact Hd1|]. split; [exact Hd2|].
    destruct (map (std_diff p1 p2) (std_keys p1 p2)) as [|x l]; [discriminate|].
    injection H as <-. apply fold_Qmax'_is_max.
Qed.

Lemma linf_ok : forall p1 p2, ~ degenerate p1 -> ~ degenerate p2 ->
  (ballots p1 <> [] \/ ballots p2 <> []) -> exists m, linf p1 p2 = inl m.
Proof.
  intros p1 p2 Hd1 Hd2 Hne. unfold Metrics.linf.
  destruct (diff_vector_cases p1 p2) as [[[Hd|Hd] _]|[_ [_ E]]]; [contradiction|contradiction|].
  rewrite E. unfold rbind. destruct (std_keys p1 p2) as [|k ks] eqn:Ek.
  - apply std_keys_nil_iff in Ek. destruct Ek as [E1 E2]. destruct Hne as [Hne|Hne]; contradiction.
  - cbn [map]. eexists. reflexivity.
Qed.

Lemma linf_err : forall p1 p2 e,
  linf p1 p2 = inr e <->
  (e = EZeroDiv /\ (degenerate p1 \/ degenerate p2)) \/
  (e = EValue /\ ballots p1 = [] /\ ballots p2 = []).
Proof.
  intros p1 p2 e. unfold Metrics.linf.
  destruct (diff_vector_cases p1 p2) as [[Hd E]|[Hd1 [Hd2 E]]]; rewrite E; unfold rbind.
  - split.
    + intros H. injection H as <-. left. split; [reflexivity|exact Hd].
    + intros [[-> _]|[_ [H1 H2]]]; [reflexivity|].
      exfalso. destruct Hd as [[Hne _]|[Hne _]]; contradiction.
  - destruct (std_keys p1 p2) as [|k ks] eqn:Ek.
    + apply std_keys_nil_iff in Ek. cbn [map]. split.
      * intros H. injection H as <-. right. split; [reflexivity|exact Ek].
      * intros [[_ [H|H]]|[-> _]]; [contradiction|contradiction|reflexivity].
    + cbn [map]. split; [discriminate|].
      intros [[_ [H|H]]|[_ H]]; [contradiction|contradiction|].
      apply std_keys_nil_iff in H. congruence.
Qed.

(* L1, maximum *)
Theorem linf_def : forall p1 p2 m, linf p1 p2 = inl m ->
  (exists keys, distinct_keys keys /\ covers keys p1 /\ covers keys p2 /\
                (forall k, In k keys -> cast_in p1 k \/ cast_in p2 k)) /\
  (forall keys, covers keys p1 -> covers keys p2 -> is_max m (map (absdiff p1 p2) keys)).
Proof.
  intros p1 p2 m H. split.
  - exists (std_keys p1 p2). split; [apply std_keys_distinct|].
    split; [apply std_keys_covers_l|]. split; [apply std_keys_covers_r|apply std_keys_cast].
  - intros keys H1 H2. apply is_max_transfer; [|exact H1|exact H2]. apply (linf_std p1 p2 m H).
Qed.

Lemma is_max_ext : forall (A : Type) (f g : A -> Q) l m m',
  (forall a, f a == g a) -> is_max m (map f l) -> is_max m' (map g l) -> m == m'.
Proof.
  intros A f g l m m' Hfg [[x [Hx Hmx]] Hub] [[y [Hy Hmy]] Hub'].
  apply in_map_iff in Hx. destruct Hx as [a [<- Ha]].
  apply in_map_iff in Hy. destruct Hy as [b [<- Hb]].
  apply Qle_antisym.
  - rewrite Hmx, (Hfg a). apply Hub'. apply in_map. exact Ha.
  - rewrite Hmy, <- (Hfg b). apply Hub. apply in_map. exact Hb.
Qed.

(* ---------- L2: symmetry ---------- *)

Theorem lp_symmetric : forall p1 p2 n,
  match lp_sum p1 p2 n, lp_sum p2 p1 n with
  | inl a, inl b => a == b
  | inr e, inr e' => e = e'
  | _, _ => False
  end.
Proof.
  intros p1 p2 n.
  destruct (lp_sum p1 p2 n) as [a|e] eqn:E1; destruct (lp_sum p2 p1 n) as [b|e'] eqn:E2.
  - rewrite (lp_sum_any_keys p2 p1 n b E2 (std_keys p1 p2)).
    + rewrite psum_sym. apply (lp_sum_std p1 p2 n a E1).
    + apply std_keys_distinct.
    + apply std_keys_covers_r.
    + apply std_keys_covers_l.
  - destruct (lp_sum_std p1 p2 n a E1) as [Hn [Hd1 [Hd2 _]]].
    apply lp_sum_err in E2. destruct E2 as [_ [H|[H|H]]]; [contradiction|contradiction|lia].
  - destruct (lp_sum_std p2 p1 n b E2) as [Hn [Hd1 [Hd2 _]]].
    apply lp_sum_err in E1. destruct E1 as [_ [H|[H|H]]]; [contradiction|contradiction|lia].
  - apply lp_sum_err in E1. apply lp_sum_err in E2. destruct E1 as [-> _]. destruct E2 as [-> _].
    reflexivity.
Qed.

Theorem linf_symmetric : forall p1 p2,
  match linf p1 p2, linf p2 p1 with
  | inl a, inl b => a == b
  | inr e, inr e' => e = e'
  | _, _ => False
  end.
Proof.
  intros p1 p2.
  destruct (linf p1 p2) as [a|e] eqn:E1; destruct (linf p2 p1) as [b|e'] eqn:E2.
  - destruct (linf_def p1 p2 a E1) as [_ Ha]. destruct (linf_def p2 p1 b E2) as [_ Hb].
    apply (is_max_ext ranking (absdiff p1 p2) (absdiff p2 p1) (std_keys p1 p2)).
    + intros r. apply absdiff_sym.
    + apply Ha; [apply std_keys_covers_l|apply std_keys_covers_r].
    + apply Hb; [apply std_keys_covers_r|apply std_keys_covers_l].
  - destruct (linf_std p1 p2 a E1) as [Hd1 [Hd2 _]].
    apply linf_err in E2. destruct E2 as [[_ [H|H]]|[_ [H2 H1]]]; [contradiction|contradiction|].
    assert (Hk : std_keys p1 p2 = []) by (apply std_keys_nil_iff; split; assumption).
    unfold Metrics.linf in E1.
    destruct (diff_vector_cases p1 p2) as [[_ E]|[_ [_ E]]]; rewrite E in E1; unfold rbind in E1;
      [discriminate|]. rewrite Hk in E1. discriminate.
  - destruct (linf_std p2 p1 b E2) as [Hd1 [Hd2 _]].
    apply linf_err in E1. destruct E1 as [[_ [H|H]]|[_ [H2 H1]]]; [contradiction|contradiction|].
    assert (Hk : std_keys p2 p1 = []) by (apply std_keys_nil_iff; split; assumption).
    unfold Metrics.linf in E2.
    destruct (diff_vector_cases p2 p1) as [[_ E]|[_ [_ E]]]; rewrite E in E2; unfold rbind in E2;
      [discriminate|]. rewrite Hk in E2. discriminate.
  - apply linf_err in E1. apply linf_err in E2.
    destruct E1 as [[-> H1]|[-> [H1 H1']]]; destruct E2 as [[-> H2]|[-> [H2 H2']]]; try reflexivity.
    + exfalso. destruct H1 as [[Hne _]|[Hne _]]; contradiction.
    + exfalso. destruct H2 as [[Hne _]|[Hne _]]; contradiction.
Qed.

(* ---------- L3: zero exactly for equal distributions ---------- *)

Lemma psum_zero_iff : forall p1 p2 n ks, (1 <= n)%nat -> covers ks p1 -> covers ks p2 ->
  (psum p1 p2 n ks == 0 <-> forall r, ndist p1 r == ndist p2 r).
Proof.
  intros p1 p2 n ks Hn H1 H2. split.
  - intros Hs r. apply absdiff_zero_iff.
    destruct (Qeq_dec (absdiff p1 p2 r) 0) as [Hz|Hnz]; [exact Hz|].
    exfalso.
    assert (Hc : exists k, In k ks /\ req r k = true).
    { destruct (absdiff_nonzero_cast p1 p2 r Hnz) as [Hc|Hc];
        [apply (cast_covered ks p1 r H1 Hc)|apply (cast_covered ks p2 r H2 Hc)]. }
    destruct Hc as [k [Hk Hrk]]. apply Hnz. rewrite (absdiff_compat p1 p2 r k Hrk).
    apply (Qpow_zero_inv n).
    apply (qsum_nonneg_zero (map (fun r => Qpow (absdiff p1 p2 r) n) ks)).
    + intros x Hx. apply in_map_iff in Hx. destruct Hx as [r' [<- _]].
      apply Qpow_nonneg. apply absdiff_nonneg.
    + exact Hs.
    + apply (in_map (fun r => Qpow (absdiff p1 p2 r) n)). exact Hk.
  - intros H. unfold psum. apply qsum_map_zero. intros r _. apply Qpow_zero; [exact Hn|].
    apply absdiff_zero_iff. apply H.
Qed.

Theorem lp_zero_iff_same_distribution : forall p1 p2 n,
  0 < total_wt (ballots p1) -> 0 < total_wt (ballots p2) -> (1 <= n)%nat ->
  exists s, lp_sum p1 p2 n = inl s /\ (s == 0 <-> forall r, ndist p1 r == ndist p2 r).
Proof.
  intros p1 p2 n Hp1 Hp2 Hn.
  destruct (lp_sum_ok p1 p2 n (pos_not_degenerate p1 Hp1) (pos_not_degenerate p2 Hp2) Hn) as [s Hs].
  exists s. split; [exact Hs|].
  destruct (lp_sum_std p1 p2 n s Hs) as [_ [_ [_ Heq]]]. rewrite Heq.
  apply psum_zero_iff; [exact Hn|apply std_keys_covers_l|apply std_keys_covers_r].
Qed.

Theorem linf_zero_iff_same_distribution : forall p1 p2,
  0 < total_wt (ballots p1) -> 0 < total_wt (ballots p2) ->
  exists m, linf p1 p2 = inl m /\ (m == 0 <-> forall r, ndist p1 r == ndist p2 r).
Proof.
  intros p1 p2 Hp1 Hp2.
  destruct (linf_ok p1 p2 (pos_not_degenerate p1 Hp1) (pos_not_degenerate p2 Hp2)) as [m Hm].
  { left. destruct (pos_has_ballot p1 Hp1) as [b Hb]. intros E. rewrite E in Hb. destruct Hb. }
  exists m. split; [exact Hm|].
  destruct (linf_def p1 p2 m Hm) as [_ Hmax].
  destruct (Hmax (std_keys p1 p2) (std_keys_covers_l p1 p2) (std_keys_covers_r p1 p2))
    as [[x [Hx Hmx]] Hub].
  apply in_map_iff in Hx. destruct Hx as [k0 [<- Hk0]].
  rewrite <- (psum_zero_iff p1 p2 1 (std_keys p1 p2) (le_n 1)
               (std_keys_covers_l p1 p2) (std_keys_covers_r p1 p2)).
  split.
  - intros Hz. unfold psum. apply qsum_map_zero. intros r Hr. rewrite Qpow_1.
    apply Qle_antisym; [|apply absdiff_nonneg]. rewrite <- Hz. apply Hub. apply in_map. exact Hr.
  - intros Hs. rewrite Hmx. rewrite <- (Qpow_1 (absdiff p1 p2 k0)).
    apply (qsum_nonneg_zero (map (fun r => Qpow (absdiff p1 p2 r) 1) (std_keys p1 p2))).
    + intros x Hx. apply in_map_iff in Hx. destruct Hx as [r' [<- _]].
      apply Qpow_nonneg. apply absdiff_nonneg.
    + exact Hs.
    + apply (in_map (fun r => Qpow (absdiff p1 p2 r) 1)). exact Hk0.
Qed.

(* ---------- L4: reordering, condensing, rescaling ---------- *)

Lemma rwt_ite : forall r bs,
  rwt r bs == qsum (map (fun b => if req r (rke b) then wt b else 0) bs).
Proof. intros r bs. unfold MetricSpec.rwt. apply qsum_filter_as_ite. Qed.

Lemma rwt_perm : forall r bs bs', Permutation bs bs' -> rwt r bs == rwt r bs'.
Proof.
  intros r bs bs' H. rewrite !rwt_ite. apply qsum_perm. apply Permutation_map. exact H.
Qed.

Lemma total_wt_perm : forall bs bs', Permutation bs bs' -> total_wt bs == total_wt bs'.
Proof. intros bs bs' H. unfold Core.total_wt. apply qsum_perm. apply Permutation_map. exact H. Qed.

Lemma ndist_perm : forall p p' r, Permutation (ballots p) (ballots p') -> ndist p' r == ndist p r.
Proof.
  intros p p' r H. unfold MetricSpec.ndist.
  rewrite (rwt_perm r _ _ H), (total_wt_perm _ _ H). reflexivity.
Qed.

Definition rke' (r : ranking) : ranking := match r with [] => [[]] | _ => r end.

Lemma rke_rke' : forall b : ballot, rke b = rke' (rk b).
Proof. intros b. unfold Metrics.rk_or_empty, rke'. destruct (rk b); reflexivity. Qed.

Lemma rke'_compat : forall r1 r2, req r1 r2 = true -> req (rke' r1) (rke' r2) = true.
Proof.
  intros [|s1 r1] [|s2 r2] H; cbn [rke']; try exact H; try discriminate.
Qed.

Lemma rwt_condense : forall r bs, rwt r (condense_bs cand ceqb bs) == rwt r bs.
Proof.
  intros r bs.
  pose proof (condense_bs_wsum cand ceqb (fun _ _ => True)
                (fun rr _ => if req r (rke' rr) then 1 else 0)) as H.
  unfold wsum in H.
  assert (Hm : forall l : list ballot,
            rwt r l == qsum (map (fun b => wt b * (if req r (rke' (rk b)) then 1 else 0)) l)).
  { intros l. rewrite rwt_ite. apply qsum_map_ext_in. intros b _. rewrite rke_rke'.
    destruct (req r (rke' (rk b))); ring. }
  rewrite !Hm. apply H.
  - intros k b _ _ Hk. unfold Core.key_match in Hk. apply andb_true_iff in Hk. destruct Hk as [Hk _].
    rewrite (ranking_eqb_compat_r cand ceqb ceqb_spec r _ _ (rke'_compat _ _ Hk)). reflexivity.
  - apply Forall_forall. intros x _. exact I.
Qed.

Lemma ndist_condense : forall p p' r,
  ballots p' = condense_bs cand ceqb (ballots p) -> ndist p' r == ndist p r.
Proof.
  intros p p' r H. unfold MetricSpec.ndist. rewrite H, rwt_condense, condense_bs_total_wt.
  reflexivity.
Qed.

Lemma rwt_rescaled : forall c r bs bs', rescaled cand c bs bs' -> rwt r bs' == c * rwt r bs.
Proof.
  intros c r bs bs' H. rewrite !rwt_ite. induction H as [|b b' bs bs' [Hrk Hwt] _ IH]; cbn [map].
  - rewrite qsum_nil. ring.
  - rewrite !qsum_cons, IH. rewrite !rke_rke', Hrk.
    destruct (req r (rke' (rk b))); rewrite ?Hwt; ring.
Qed.

Lemma total_wt_rescaled : forall c bs bs', rescaled cand c bs bs' -> total_wt bs' == c * total_wt bs.
Proof.
  intros c bs bs' H. unfold Core.total_wt. induction H as [|b b' bs bs' [Hrk Hwt] _ IH]; cbn [map].
  - rewrite qsum_nil. ring.
  - rewrite !qsum_cons, IH, Hwt. ring.
Qed.

Lemma ndist_rescaled : forall c p p' r, 0 < c -> 0 < total_wt (ballots p) ->
  rescaled cand c (ballots p) (ballots p') -> ndist p' r == ndist p r.
Proof.
  intros c p p' r Hc Ht H. unfold MetricSpec.ndist.
  rewrite (rwt_rescaled c r _ _ H), (total_wt_rescaled c _ _ H).
  field. split; intros Hz; [rewrite Hz in Ht|rewrite Hz in Hc]; apply (Qlt_irrefl 0); assumption.
Qed.

Lemma lp_sum_ext_l : forall p p' q n s s', (forall r, ndist p' r == ndist p r) ->
  lp_sum p q n = inl s -> lp_sum p' q n = inl s' -> s' == s.
Proof.
  intros p p' q n s s' H Hs Hs'.
  destruct (common_keys [p; p'; q]) as [K [Hd Hc]].
  assert (Hp : covers K p) by (apply Hc; cbn; auto).
  assert (Hp' : covers K p') by (apply Hc; cbn; auto).
  assert (Hq : covers K q) by (apply Hc; cbn; auto).
  rewrite (lp_sum_any_keys p q n s Hs K Hd Hp Hq), (lp_sum_any_keys p' q n s' Hs' K Hd Hp' Hq).
  apply psum_ext_l. exact H.
Qed.

Lemma linf_ext_l : forall p p' q m m', (forall r, ndist p' r == ndist p r) ->
  linf p q = inl m -> linf p' q = inl m' -> m' == m.
Proof.
  intros p p' q m m' H Hm Hm'.
  destruct (common_keys [p; p'; q]) as [K [Hd Hc]].
  assert (Hp : covers K p) by (apply Hc; cbn; auto).
  assert (Hp' : covers K p') by (apply Hc; cbn; auto).
  assert (Hq : covers K q) by (apply Hc; cbn; auto).
  destruct (linf_def p q m Hm) as [_ Hmax]. destruct (linf_def p' q m' Hm') as [_ Hmax'].
  apply (is_max_ext ranking (absdiff p' q) (absdiff p q) K).
  - intros r. apply absdiff_ext_l. apply H.
  - apply Hmax'; assumption.
  - apply Hmax; assumption.
Qed.

Theorem same_distribution_same_distance : forall p p' q n,
  (forall r, ndist p' r == ndist p r) ->
  0 < total_wt (ballots p) -> 0 < total_wt (ballots p') -> 0 < total_wt (ballots q) ->
  (1 <= n)%nat ->
  (exists s s', lp_sum p q n = inl s /\ lp_sum p' q n = inl s' /\ s' == s) /\
  (exists m m', linf p q = inl m /\ linf p' q = inl m' /\ m' == m).
Proof.
  intros p p' q n H Hp Hp' Hq Hn.
  pose proof (pos_not_degenerate p Hp) as Dp. pose proof (pos_not_degenerate p' Hp') as Dp'.
  pose proof (pos_not_degenerate q Hq) as Dq.
  split.
  - destruct (lp_sum_ok p q n Dp Dq Hn) as [s Hs]. destruct (lp_sum_ok p' q n Dp' Dq Hn) as [s' Hs'].
    exists s, s'. split; [exact Hs|]. split; [exact Hs'|]. apply (lp_sum_ext_l p p' q n); assumption.
  - assert (Hne : ballots q <> []).
    { destruct (pos_has_ballot q Hq) as [b Hb]. intros E. rewrite E in Hb. destruct Hb. }
    destruct (linf_ok p q Dp Dq (or_intror Hne)) as [m Hm].
    destruct (linf_ok p' q Dp' Dq (or_intror Hne)) as [m' Hm'].
    exists m, m'. split; [exact Hm|]. split; [exact Hm'|]. apply (linf_ext_l p p' q); assumption.
Qed.

Theorem invariant_reorder_condense_rescale : forall p p' q n,
  (Permutation (ballots p) (ballots p') \/
   ballots p' = condense_bs cand ceqb (ballots p) \/
   exists c, 0 < c /\ rescaled cand c (ballots p) (ballots p')) ->
  0 < total_wt (ballots p) -> 0 < total_wt (ballots q) -> (1 <= n)%nat ->
  (forall r, ndist p' r == ndist p r) /\
  0 < total_wt (ballots p') /\
  (exists s s', lp_sum p q n = inl s /\ lp_sum p' q n = inl s' /\ s' == s) /\
  (exists m m', linf p q = inl m /\ linf p' q = inl m' /\ m' == m).
Proof.
  intros p p' q n H Hp Hq Hn.
  assert (Hboth : (forall r, ndist p' r == ndist p r) /\ 0 < total_wt (ballots p')).
  { destruct H as [H|[H|[c [Hc H]]]].
    - split; [intros r; apply ndist_perm; exact H|]. rewrite <- (total_wt_perm _ _ H). exact Hp.
    - split; [intros r; apply ndist_condense; exact H|]. rewrite H, condense_bs_total_wt. exact Hp.
    - split; [intros r; apply (ndist_rescaled c); assumption|].
      rewrite (total_wt_rescaled c _ _ H). apply Qmult_lt_0_compat; assumption. }
  destruct Hboth as [Hnd Hp']. split; [exact Hnd|]. split; [exact Hp'|].
  apply same_distribution_same_distance; assumption.
Qed.

(* ---------- L5: triangle inequality, p = 1 and p = inf ---------- *)

Theorem triangle_p1 : forall p1 p2 p3,
  0 < total_wt (ballots p1) -> 0 < total_wt (ballots p2) -> 0 < total_wt (ballots p3) ->
  exists s13 s12 s23,
    lp_sum p1 p3 1 = inl s13 /\ lp_sum p1 p2 1 = inl s12 /\ lp_sum p2 p3 1 = inl s23 /\
    s13 <= s12 + s23.
Proof.
  intros p1 p2 p3 H1 H2 H3.
  pose proof (pos_not_degenerate p1 H1) as D1. pose proof (pos_not_degenerate p2 H2) as D2.
  pose proof (pos_not_degenerate p3 H3) as D3.
  destruct (lp_sum_ok p1 p3 1 D1 D3 (le_n 1)) as [s13 E13].
  destruct (lp_sum_ok p1 p2 1 D1 D2 (le_n 1)) as [s12 E12].
  destruct (lp_sum_ok p2 p3 1 D2 D3 (le_n 1)) as [s23 E23].
  exists s13, s12, s23. repeat (split; [assumption|]).
  destruct (common_keys [p1; p2; p3]) as [K [Hd Hc]].
  assert (C1 : covers K p1) by (apply Hc; cbn; auto).
  assert (C2 : covers K p2) by (apply Hc; cbn; auto).
  assert (C3 : covers K p3) by (apply Hc; cbn; auto).
  rewrite (lp_sum_any_keys p1 p3 1 s13 E13 K Hd C1 C3), (lp_sum_any_keys p1 p2 1 s12 E12 K Hd C1 C2),
          (lp_sum_any_keys p2 p3 1 s23 E23 K Hd C2 C3).
  unfold psum. rewrite <- qsum_map_plus. apply qsum_le. intros r _. rewrite !Qpow_1.
  apply absdiff_triangle.
Qed.

Theorem triangle_inf : forall p1 p2 p3,
  0 < total_wt (ballots p1) -> 0 < total_wt (ballots p2) -> 0 < total_wt (ballots p3) ->
  exists m13 m12 m23,
    linf p1 p3 = inl m13 /\ linf p1 p2 = inl m12 /\ linf p2 p3 = inl m23 /\
    m13 <= m12 + m23.
Proof.
  intros p1 p2 p3 H1 H2 H3.
  pose proof (pos_not_degenerate p1 H1) as D1. pose proof (pos_not_degenerate p2 H2) as D2.
  pose proof (pos_not_degenerate p3 H3) as D3.
  assert (N1 : ballots p1 <> []).
  { destruct (pos_has_ballot p1 H1) as [b Hb]. intros E. rewrite E in Hb. destruct Hb. }
  assert (N2 : ballots p2 <> []).
  { destruct (pos_has_ballot p2 H2) as [b Hb]. intros E. rewrite E in Hb. destruct Hb. }
  destruct (linf_ok p1 p3 D1 D3 (or_introl N1)) as [m13 E13].
  destruct (linf_ok p1 p2 D1 D2 (or_introl N1)) as [m12 E12].
  destruct (linf_ok p2 p3 D2 D3 (or_introl N2)) as [m23 E23].
  exists m13, m12, m23. repeat (split; [assumption|]).
  destruct (common_keys [p1; p2; p3]) as [K [Hd Hc]].
  assert (C1 : covers K p1) by (apply Hc; cbn; auto).
  assert (C2 : covers K p2) by (apply Hc; cbn; auto).
  assert (C3 : covers K p3) by (apply Hc; cbn; auto).
  destruct (linf_def p1 p3 m13 E13) as [_ M13]. destruct (M13 K C1 C3) as [[x [Hx Hmx]] _].
  destruct (linf_def p1 p2 m12 E12) as [_ M12]. destruct (M12 K C1 C2) as [_ U12].
  destruct (linf_def p2 p3 m23 E23) as [_ M23]. destruct (M23 K C2 C3) as [_ U23].
  apply in_map_iff in Hx. destruct Hx as [k [<- Hk]]. rewrite Hmx.
  eapply Qle_trans; [apply (absdiff_triangle p1 p2 p3 k)|].
  apply Qplus_le_compat; [apply U12|apply U23]; apply in_map; exact Hk.
Qed.

(* ---------- the distribution in terms of [wtof_rk] when every ballot has a ranking ---------- *)

Lemma ndist_wtof_rk : forall p r, Forall (fun b => rk b <> []) (ballots p) ->
  ndist p r == wtof_rk cand ceqb r (ballots p) / total_wt (ballots p).
Proof.
  intros p r H. unfold MetricSpec.ndist, MetricSpec.rwt, EditSpec.wtof_rk.
  rewrite (filter_ext_in _ (fun b => req r (rke b)) (fun b => req r (rk b))); [reflexivity|].
  intros b Hb. rewrite Forall_forall in H. specialize (H b Hb). rewrite rke_rke'.
  destruct (rk b); [contradiction H; reflexivity|reflexivity].
Qed.

(* ---------- L6 (p = 2): Cauchy-Schwarz and the squared triangle inequality ---------- *)

Section CauchySchwarz.
Variable A : Type.
Variables f g : A -> Q.
Variable K : list A.

Let SA := qsum (map (fun k => f k * f k) K).
Let SB := qsum (map (fun k => g k * g k) K).
Let SC := qsum (map (fun k => f k * g k) K).

Lemma quad_expand : forall t,
  qsum (map (fun k => (f k * t + g k) * (f k * t + g k)) K) == t * t * SA + 2 * t * SC + SB.
Proof.
  intros t. unfold SA, SB, SC. clear SA SB SC. induction K as [|k l IH]; cbn [map].
  - rewrite !qsum_nil. ring.
  - rewrite !qsum_cons, IH. ring.
Qed.

Lemma quad_nonneg : forall t, 0 <= t * t * SA + 2 * t * SC + SB.
Proof.
  intros t. rewrite <- quad_expand. apply qsum_nonneg. apply Forall_forall. intros x Hx.
  apply in_map_iff in Hx. destruct Hx as [k [<- _]].
  destruct (Qlt_le_dec (f k * t + g k) 0) as [Hneg|Hpos].
  - setoid_replace ((f k * t + g k) * (f k * t + g k))
      with ((- (f k * t + g k)) * (- (f k * t + g k))) by ring.
    apply Qmult_le_0_compat; lra.
  - apply Qmult_le_0_compat; exact Hpos.
Qed.

Lemma SA_nonneg : 0 <= SA.
Proof.
  pose proof (quad_nonneg 1) as H1. pose proof (quad_nonneg (-1)) as H2.
  unfold SA. apply qsum_nonneg. apply Forall_forall. intros x Hx.
  apply in_map_iff in Hx. destruct Hx as [k [<- _]].
  destruct (Qlt_le_dec (f k) 0) as [Hneg|Hpos].
  - setoid_replace (f k * f k) with ((- f k) * (- f k)) by ring. apply Qmult_le_0_compat; lra.
  - apply Qmult_le_0_compat; exact Hpos.
Qed.

Theorem cauchy_schwarz : SC * SC <= SA * SB.
Proof.
  destruct (Qeq_dec SA 0) as [Hz|Hnz].
  - assert (Hc : SC == 0).
    { destruct (Qeq_dec SC 0) as [Hc|Hc]; [exact Hc|]. exfalso.
      pose proof (quad_nonneg (- (SB + 1) / (2 * SC))) as H. rewrite Hz in H.
      setoid_replace (- (SB + 1) / (2 * SC) * (- (SB + 1) / (2 * SC)) * 0
                      + 2 * (- (SB + 1) / (2 * SC)) * SC + SB) with (- (1)) in H by (field; exact Hc).
      lra. }
    rewrite Hc, Hz. lra.
  - assert (Hpos : 0 < SA).
    { pose proof SA_nonneg as H. destruct (Qlt_le_dec 0 SA) as [Hp|Hn]; [exact Hp|].
      exfalso. apply Hnz. lra. }
    pose proof (quad_nonneg (- SC / SA)) as H.
    setoid_replace (- SC / SA * (- SC / SA) * SA + 2 * (- SC / SA) * SC + SB)
      with (SB - SC * SC / SA) in H by (field; exact Hnz).
    assert (H' : SC * SC / SA <= SB) by lra.
    setoid_replace (SC * SC) with (SC * SC / SA * SA) by (field; exact Hnz).
    rewrite (Qmult_comm SA SB). apply Qmult_le_compat_r; [exact H'|lra].
Qed.

End CauchySchwarz.

Lemma Qpow_2 : forall x, Qpow x 2 == x * x.
Proof. intros x. cbn [Qpow]. ring. Qed.

Lemma Qsq_le : forall x y, 0 <= x -> x <= y -> x * x <= y * y.
Proof.
  intros x y Hx Hxy. apply Qle_trans with (x * y).
  - setoid_replace (x * y) with (y * x) by ring. apply Qmult_le_compat_r; assumption.
  - apply Qmult_le_compat_r; [exact Hxy|lra].
Qed.

Lemma psum_2 : forall p1 p2 ks,
  psum p1 p2 2 ks == qsum (map (fun r => absdiff p1 p2 r * absdiff p1 p2 r) ks).
Proof. intros p1 p2 ks. unfold psum. apply qsum_map_ext_in. intros r _. apply Qpow_2. Qed.

(* sqrt S13 <= sqrt S12 + sqrt S23, squared twice so that no root is needed *)
Theorem triangle_p2 : forall p1 p2 p3,
  0 < total_wt (ballots p1) -> 0 < total_wt (ballots p2) -> 0 < total_wt (ballots p3) ->
  exists s13 s12 s23,
    lp_sum p1 p3 2 = inl s13 /\ lp_sum p1 p2 2 = inl s12 /\ lp_sum p2 p3 2 = inl s23 /\
    (s12 + s23 <= s13 -> (s13 - s12 - s23) * (s13 - s12 - s23) <= 4 * s12 * s23).
Proof.
  intros p1 p2 p3 H1 H2 H3.
  pose proof (pos_not_degenerate p1 H1) as D1. pose proof (pos_not_degenerate p2 H2) as D2.
  pose proof (pos_not_degenerate p3 H3) as D3.
  assert (Hn : (1 <= 2)%nat) by lia.
  destruct (lp_sum_ok p1 p3 2 D1 D3 Hn) as [s13 E13].
  destruct (lp_sum_ok p1 p2 2 D1 D2 Hn) as [s12 E12].
  destruct (lp_sum_ok p2 p3 2 D2 D3 Hn) as [s23 E23].
  exists s13, s12, s23. repeat (split; [assumption|]).
  destruct (common_keys [p1; p2; p3]) as [K [Hd Hc]].
  assert (C1 : covers K p1) by (apply Hc; cbn; auto).
  assert (C2 : covers K p2) by (apply Hc; cbn; auto).
  assert (C3 : covers K p3) by (apply Hc; cbn; auto).
  rewrite (lp_sum_any_keys p1 p3 2 s13 E13 K Hd C1 C3), (lp_sum_any_keys p1 p2 2 s12 E12 K Hd C1 C2),
          (lp_sum_any_keys p2 p3 2 s23 E23 K Hd C2 C3).
  rewrite !psum_2.
  set (a := absdiff p1 p2). set (b := absdiff p2 p3). set (c := absdiff p1 p3).
  set (S13 := qsum (map (fun r => c r * c r) K)).
  set (S12 := qsum (map (fun r => a r * a r) K)).
  set (S23 := qsum (map (fun r => b r * b r) K)).
  set (SC := qsum (map (fun r => a r * b r) K)).
  assert (Hup : S13 <= S12 + 2 * SC + S23).
  { pose proof (quad_expand ranking a b K 1) as Hq. fold S12 S23 SC in Hq.
    setoid_replace (S12 + 2 * SC + S23) with (1 * 1 * S12 + 2 * 1 * SC + S23) by ring.
    rewrite <- Hq. unfold S13. apply qsum_le. intros r _. apply Qsq_le.
    - apply absdiff_nonneg.
    - pose proof (absdiff_triangle p1 p2 p3 r) as Ht. fold a b c in Ht. lra. }
  assert (Hsc : 0 <= SC).
  { unfold SC. apply qsum_nonneg. apply Forall_forall. intros x Hx. apply in_map_iff in Hx.
    destruct Hx as [r [<- _]]. apply Qmult_le_0_compat; apply absdiff_nonneg. }
  pose proof (cauchy_schwarz ranking a b K) as Hcs. fold S12 S23 SC in Hcs.
  intros Hge.
  assert (HD : (S13 - S12 - S23) * (S13 - S12 - S23) <= (2 * SC) * (2 * SC)).
  { apply Qsq_le; lra. }
  setoid_replace (2 * SC * (2 * SC)) with (4 * (SC * SC)) in HD by ring.
  setoid_replace (4 * S12 * S23) with (4 * (S12 * S23)) by ring. lra.
Qed.

End WithCand.
