(* Proofs/C05_tiebreaks.v — what each tiebreak option does in the one-shot rules (Plurality / SNTV,
   Borda, GeneralRating, Limited, BlocPlurality): it is consulted exactly when a group of the
   round-0 ranking straddles seat m; then the run is decided by [tiebreak_set] on that group —
   a random draw of the whole group, the first_place / borda scores of the profile (which need
   rankings: TypeError on rated ballots), or ValueError for an unknown name.
   Also: a scored candidate that is not a candidate of the profile is a KeyError (C05). *)
From VK Require Import Base Core STV Pairwise Rules PV Election.
From VK.Spec Require Import ScoreSpec EditSpec RatingSpec TopMSpec STVSpec Anon TieSpec RunSpec OneShotSpec.
From VK.Proofs Require Import Lib_sets C04_scoring Elect C11_profile C12_edit C20_validation C05_rating
  C10_script C10_quiet C10_tiebreak STV_tb C08_anon C01_lib C01_rules.
From Coq Require Import Permutation Lia Lqa.

Section Tiebreaks.
Variable cand : Type.
Variable ceqb : cand -> cand -> bool.
Hypothesis ceqb_spec : forall a b, reflect (a = b) (ceqb a b).

Notation cset := (cset cand).
Notation ranking := (ranking cand).
Notation ballot := (ballot cand).
Notation profile := (profile cand).
Notation scores := (scores cand).
Notation estate := (estate cand).
Notation mstate := (mstate cand).
Notation flat := (flat cand).
Notation singletons := (singletons cand).
Notation memb := (memb cand ceqb).
Notation wf_profile := (wf_profile cand).
Notation ranked_profile := (ranked_profile cand).
Notation wf_rated_profile := (wf_rated_profile cand).
Notation straddles_seat := (straddles_seat cand).
Notation score_ballot_ok := (score_ballot_ok cand).
Notation first_place_votes := (first_place_votes cand ceqb).
Notation borda_scores := (borda_scores cand ceqb).
Notation score_rankings := (score_rankings cand ceqb).
Notation score_from_scores := (score_from_scores cand ceqb).
Notation score_to_ranking := (score_to_ranking cand).
Notation remove_cand_prof := (remove_cand_prof cand ceqb).
Notation draw_perm := (draw_perm cand ceqb).
Notation random_break := (random_break cand ceqb).
Notation tiebreak_set := (tiebreak_set cand ceqb).
Notation elect_loop := (elect_loop cand ceqb).
Notation elect_top_m := (elect_top_m cand ceqb).
Notation score_fn := (score_fn cand ceqb).
Notation run_one_shot := (run_one_shot cand ceqb).
Notation run_rating := (run_rating cand ceqb).
Notation run_rule := (run_rule cand ceqb).
Notation one_shot_params := (one_shot_params cand).
Notation one_shot_valid := (one_shot_valid cand).
Notation shot_dom := (shot_dom cand).
Notation no_group := (no_group cand).
Notation big := (big cand).
Notation rebuild := (rebuild cand).

(* ------------------------------------------------------------------ *)
(** * the top-m selection when no group straddles the last seat *)

Lemma elect_loop_none_some : forall r need acc p tb (s : mstate) x,
  elect_loop r need acc p None s = inl x -> elect_loop r need acc p tb s = inl x.
Proof.
  induction r as [|g r IH]; intros need acc p tb s x H.
  - destruct need as [|n]; cbn [Core.elect_loop] in *; [exact H|discriminate].
  - destruct need as [|n]; cbn [Core.elect_loop] in *; [exact H|].
    destruct (Nat.leb (length g) (S n)); [apply IH; exact H|discriminate].
Qed.

Lemma elect_top_m_none_some : forall r m p tb (s : mstate) x,
  elect_top_m r m p None s = inl x -> elect_top_m r m p tb s = inl x.
Proof.
  intros r m p tb s x H. unfold Core.elect_top_m in *.
  destruct (m <? 1)%Z; [discriminate|].
  destruct (Z.of_nat (ranking_size cand r) <? m)%Z; [discriminate|].
  apply elect_loop_none_some. exact H.
Qed.

(* in range and nothing straddles: the first groups hold exactly m candidates, whatever the
   tiebreak option; no draw *)
Lemma elect_top_m_clean : forall r m p tb (s : mstate),
  (1 <= m <= Z.of_nat (length (flat r)))%Z -> ~ straddlesZ cand r m ->
  exists el rem, elect_top_m r m p tb s = inl ((el, rem, None), s) /\ el ++ rem = r /\
                 Z.of_nat (length (flat el)) = m.
Proof.
  intros r m p tb s Hrange Hns.
  destruct (elect_top_m r m p None s) as [[[[el rem] t] s1]|e] eqn:E.
  - destruct (elect_top_m_shape cand ceqb _ _ _ _ _ _ _ _ _ E) as [_ [[-> [-> [Hr Hlen]]]|Hx]].
    + exists el, rem. split; [apply elect_top_m_none_some; exact E|]. split; assumption.
    + destruct Hx as [pre [g [post [t0 [kind [k [Hk _]]]]]]]. discriminate.
  - exfalso. pose proof (elect_top_m_none_only_EValue cand ceqb _ _ _ _ _ E) as ->.
    apply (elect_top_m_none_error_iff cand ceqb) in E. destruct E as [E|[E|E]]; [lia|lia|exact (Hns E)].
Qed.

(* ------------------------------------------------------------------ *)
(** * what [tiebreak_set] returns, kind by kind *)

Lemma perm_NoDup_r : forall (l g : list cand), Permutation l g -> NoDup l -> NoDup g.
Proof. intros l g Hp Hnd. eapply Permutation_NoDup; eassumption. Qed.

Lemma draw_perm_run : forall g l rest lg0,
  Permutation l g -> NoDup l ->
  draw_perm g (mkM (DPerm l :: rest) lg0) = inl (l, mkM rest (CSample g :: lg0)).
Proof.
  intros g l rest lg0 Hp Hnd. unfold Core.draw_perm, mbind, Core.next_draw. cbn [scr lg].
  unfold ok. rewrite (is_perm_of_intro cand ceqb ceqb_spec l g (perm_NoDup_r l g Hp Hnd) Hp). reflexivity.
Qed.

Lemma draw_perm_fail : forall g (s : mstate),
  ~ (exists l rest, scr s = DPerm l :: rest /\ Permutation l g /\ NoDup l) ->
  draw_perm g s = inr EScript.
Proof.
  intros g s Hno. destruct (draw_perm g s) as [[l s1]|e] eqn:E.
  - exfalso. destruct (draw_perm_inv cand ceqb ceqb_spec _ _ _ _ E) as [Hp [Hnd [rest [Hscr _]]]].
    apply Hno. exists l, rest. repeat split; assumption.
  - rewrite (draw_perm_err cand ceqb _ _ _ E). reflexivity.
Qed.

Lemma tiebreak_random_run : forall g p l rest lg0,
  Permutation l g -> NoDup l ->
  tiebreak_set g p TBRandom (mkM (DPerm l :: rest) lg0)
  = inl (singletons l, mkM rest (CSample g :: lg0)).
Proof.
  intros g p l rest lg0 Hp Hnd. cbn [Core.tiebreak_set]. unfold mbind.
  rewrite (draw_perm_run g l rest lg0 Hp Hnd). reflexivity.
Qed.

Lemma tiebreak_random_fail : forall g p (s : mstate),
  ~ (exists l rest, scr s = DPerm l :: rest /\ Permutation l g /\ NoDup l) ->
  tiebreak_set g p TBRandom s = inr EScript.
Proof.
  intros g p s Hno. cbn [Core.tiebreak_set]. unfold mbind. rewrite (draw_perm_fail g s Hno). reflexivity.
Qed.

(* random_break on a script that supplies one order per group of two or more *)
Lemma random_break_run : forall (r : ranking) (ls : list (list cand)) rest lg0,
  Forall2 (fun l g => Permutation l g /\ NoDup l) ls (filter big r) ->
  random_break r (mkM (map DPerm ls ++ rest) lg0)
  = inl (rebuild r ls, mkM rest (rev (map CSample (filter big r)) ++ lg0)).
Proof.
  induction r as [|g r IH]; intros ls rest lg0 HF.
  - cbn [filter] in HF. inversion HF; subst. reflexivity.
  - cbn [Core.random_break].
    assert (Hsmall : big g = false ->
      (do! rest0 := random_break r in mret (g :: rest0)) (mkM (map DPerm ls ++ rest) lg0)
      = inl (rebuild (g :: r) ls, mkM rest (rev (map CSample (filter big (g :: r))) ++ lg0))).
    { intros Hb. cbn [filter TieSpec.rebuild] in *. rewrite Hb in *. unfold mbind.
      rewrite (IH ls rest lg0 HF). reflexivity. }
    destruct g as [|c [|c' g']]; [apply Hsmall; reflexivity|apply Hsmall; reflexivity|].
    clear Hsmall. assert (Hb : big (c :: c' :: g') = true) by reflexivity.
    cbn [filter] in HF. rewrite Hb in HF. inversion HF as [|l g0 ls' gs' [Hp Hnd] HF']; subst.
    cbn [map app]. unfold mbind at 1. rewrite (draw_perm_run _ l _ lg0 Hp Hnd).
    unfold mbind at 1. rewrite (IH ls' rest _ HF').
    cbn [filter TieSpec.rebuild]. rewrite Hb. cbn [map rev]. unfold mret, ok.
    rewrite <- app_assoc. reflexivity.
Qed.

Definition tb_scores (kind : tb_kind) (p : profile) : res scores :=
  match kind with TBBorda => borda_scores p | _ => first_place_votes p end.

Lemma tiebreak_scored_unfold : forall g (p : profile) kind (s : mstate),
  kind = TBFirstPlace \/ kind = TBBorda ->
  tiebreak_set g (Some p) kind s =
  match tb_scores kind p with
  | inr e => inr e
  | inl d =>
      let r := score_to_ranking (filter (fun q => memb (fst q) g) d) true in
      if existsb (fun g0 => Nat.ltb 1 (length g0)) r then random_break r s else inl (r, s)
  end.
Proof.
  intros g p kind s [-> | ->]; cbn [Core.tiebreak_set tb_scores]; unfold mbind, mlift.
  - destruct (first_place_votes p) as [d|e]; [|reflexivity]. unfold ok. cbv zeta.
    destruct (existsb (fun g0 => Nat.ltb 1 (length g0)) (score_to_ranking (filter (fun q => memb (fst q) g) d) true)); reflexivity.
  - destruct (borda_scores p) as [d|e]; [|reflexivity]. unfold ok. cbv zeta.
    destruct (existsb (fun g0 => Nat.ltb 1 (length g0)) (score_to_ranking (filter (fun q => memb (fst q) g) d) true)); reflexivity.
Qed.

Lemma existsb_big_filter : forall r : ranking,
  existsb (fun g => Nat.ltb 1 (length g)) r = true -> filter big r <> [].
Proof.
  induction r as [|g r IH]; intros H; [discriminate|]. cbn [existsb] in H. cbn [filter].
  unfold TieSpec.big at 1. destruct (Nat.ltb 1 (length g)); [discriminate|]. apply IH. exact H.
Qed.

(* a first_place / borda tiebreak whose scores exist, on a script that supplies the orders of the
   sub-groups still tied *)
Lemma tiebreak_scored_run : forall g (p : profile) kind d (ls : list (list cand)) rest lg0,
  kind = TBFirstPlace \/ kind = TBBorda -> tb_scores kind p = inl d ->
  let r := score_to_ranking (filter (fun q => memb (fst q) g) d) true in
  Forall2 (fun l sg => Permutation l sg /\ NoDup l) ls (filter big r) ->
  tiebreak_set g (Some p) kind (mkM (map DPerm ls ++ rest) lg0)
  = inl (rebuild r ls, mkM rest (rev (map CSample (filter big r)) ++ lg0)).
Proof.
  intros g p kind d ls rest lg0 Hkind Hd r HF.
  rewrite (tiebreak_scored_unfold g p kind _ Hkind), Hd. cbv zeta. fold r.
  destruct (existsb (fun g0 => Nat.ltb 1 (length g0)) r) eqn:Hex.
  - apply random_break_run. exact HF.
  - rewrite (filter_big_nil cand r Hex) in *. inversion HF; subst.
    rewrite (rebuild_nil cand). reflexivity.
Qed.

(* its only possible failures: the scores do not exist, or the script is wrong *)
Lemma tiebreak_scored_err : forall g (p : profile) kind (s : mstate) e,
  kind = TBFirstPlace \/ kind = TBBorda ->
  tiebreak_set g (Some p) kind s = inr e ->
  tb_scores kind p = inr e \/ ((exists d, tb_scores kind p = inl d) /\ e = EScript).
Proof.
  intros g p kind s e Hkind H. rewrite (tiebreak_scored_unfold g p kind _ Hkind) in H.
  destruct (tb_scores kind p) as [d|e0]; [|left; inversion H; reflexivity]. right. split; [exists d; reflexivity|].
  cbv zeta in H.
  destruct (existsb (fun g0 => Nat.ltb 1 (length g0)) (score_to_ranking (filter (fun q => memb (fst q) g) d) true)); [|discriminate].
  apply (random_break_err cand ceqb _ _ _ H).
Qed.

(* the scores used by the first_place / borda tiebreak: they exist on a well-formed ranked profile
   and on a profile without ballots; they fail with TypeError as soon as the first ballot has no
   ranking *)
Lemma tb_scores_wf : forall kind (p : profile), wf_profile p -> exists d, tb_scores kind p = inl d.
Proof.
  intros kind p Hwf. destruct kind; cbn [tb_scores];
    try apply (ranked_fpv cand ceqb ceqb_spec p Hwf). apply (ranked_borda cand ceqb ceqb_spec p Hwf).
Qed.

Lemma score_rankings_no_ballots : forall (p : profile) v, valid_vector v -> ballots p = [] ->
  exists d, score_rankings p v = inl d.
Proof.
  intros p v Hv Hb. unfold Core.score_rankings.
  rewrite (proj2 (validate_vector_iff v) Hv). cbn [rbind].
  unfold Core.add_missing. rewrite Hb. cbn [rmap rbind ok ballots cands existsb].
  unfold Core.condense_bs. cbn [fold_left existsb Core.all_known forallb negb]. eexists. reflexivity.
Qed.

Lemma tb_scores_no_ballots : forall kind (p : profile), ballots p = [] -> exists d, tb_scores kind p = inl d.
Proof.
  intros kind p Hb. destruct kind; cbn [tb_scores]; unfold Core.first_place_votes, Core.borda_scores;
    apply score_rankings_no_ballots; try exact Hb;
    try apply fpv_vector_valid_vector; apply borda_vector_valid.
Qed.

Lemma score_rankings_unranked : forall (p : profile) v b bs, valid_vector v ->
  ballots p = b :: bs -> rk b = [] -> score_rankings p v = inr EType.
Proof.
  intros p v b bs Hv Hb Hrk. unfold Core.score_rankings.
  rewrite (proj2 (validate_vector_iff v) Hv). cbn [rbind].
  unfold Core.add_missing. rewrite Hb. cbn [rmap]. unfold Core.add_missing_ballot at 1. rewrite Hrk.
  reflexivity.
Qed.

Lemma tb_scores_unranked : forall kind (p : profile) b bs,
  ballots p = b :: bs -> rk b = [] -> tb_scores kind p = inr EType.
Proof.
  intros kind p b bs Hb Hrk. destruct kind; cbn [tb_scores]; unfold Core.first_place_votes, Core.borda_scores;
    apply (score_rankings_unranked p _ b bs); try assumption;
    try apply fpv_vector_valid_vector; apply borda_vector_valid.
Qed.

(* ------------------------------------------------------------------ *)
(** * the one-shot rules on valid input *)

Lemma one_shot_valid_run : forall r (p : profile) k m tb,
  one_shot_params r p = Some (k, m, tb) -> one_shot_valid r p ->
  shot_dom k p /\ forall s, run_rule r p s = run_one_shot k m tb p s.
Proof.
  intros r p k m tb Hp Hv.
  destruct r; cbn [TieSpec.one_shot_params] in Hp; try discriminate; inversion Hp; subst;
    cbn [OneShotSpec.one_shot_valid] in Hv.
  - split; [exact Hv|]. intros s. cbn [Rules.run_rule]. apply (run_plurality_ranked cand ceqb). exact Hv.
  - destruct Hv as [Hr Hvec]. split; [split; assumption|]. intros s.
    apply (run_borda_ranked cand ceqb m v tb p s Hr). exact Hvec.
  - destruct Hv as [Ha [Hb Hw]]. split; [exact Hw|]. intros s. cbn [Rules.run_rule].
    apply (run_rating_accepted cand ceqb); assumption.
  - destruct Hv as [Hk [Ha [Hb Hw]]]. split; [exact Hw|]. intros s. cbn [Rules.run_rule].
    assert (Hg : Qlt_bool (inject_Z m) k0 = false).
    { unfold Qlt_bool. apply negb_false_iff. apply Qle_bool_iff. exact Hk. }
    rewrite Hg. apply (run_rating_accepted cand ceqb); assumption.
  - destruct Hv as [Ha [Hb Hw]]. split; [exact Hw|]. intros s. cbn [Rules.run_rule]. cbv zeta.
    apply (run_rating_accepted cand ceqb); assumption.
Qed.

Lemma one_shot_valid_run_eq : forall r (p : profile) k m tb,
  one_shot_params r p = Some (k, m, tb) -> one_shot_valid r p ->
  forall s, run_rule r p s = run_one_shot k m tb p s.
Proof. intros r p k m tb Hp Hv. exact (proj2 (one_shot_valid_run r p k m tb Hp Hv)). Qed.

Definition tbl (t : option (cset * ranking)) : list (cset * ranking) :=
  match t with Some x => [x] | None => [] end.

Lemma one_shot_elect_ok : forall k m tb (p : profile) s d el rem t s1,
  shot_dom k p -> score_fn k p = inl d ->
  elect_top_m (score_to_ranking d true) m (Some p) tb s = inl ((el, rem, t), s1) ->
  exists np d1, remove_cand_prof (flat el) true false p = inl np /\ score_fn k np = inl d1 /\
    run_one_shot k m tb p s =
    inl ([state_of_scores cand 0 no_group no_group [] d; mkState 1 rem el no_group (tbl t) d1], s1).
Proof.
  intros k m tb p s d el rem t s1 Hdom Hd Hel.
  destruct (ranked_remove_ok cand ceqb ceqb_spec (flat el) p (shot_dom_nodup cand k p Hdom)) as [np Hnp].
  destruct (shot_dom_score cand ceqb ceqb_spec k np (shot_dom_remove cand ceqb ceqb_spec k _ p np Hdom Hnp)) as [d1 Hd1].
  exists np, d1. split; [exact Hnp|]. split; [exact Hd1|].
  apply (run_one_shot_intro cand ceqb k m tb p s s1 d el rem t np d1); assumption.
Qed.

Lemma one_shot_elect_err : forall k m tb (p : profile) s d e,
  score_fn k p = inl d ->
  elect_top_m (score_to_ranking d true) m (Some p) tb s = inr e -> run_one_shot k m tb p s = inr e.
Proof.
  intros k m tb p s d e Hd Hel. rewrite (run_one_shot_unfold cand ceqb), Hd, Hel. reflexivity.
Qed.

Lemma scores_ranking_len : forall k (p : profile) d, score_fn k p = inl d ->
  length (flat (score_to_ranking d true)) = length (cands p).
Proof.
  intros k p d Hd. rewrite (ranking_size_scores cand), <- (C20_validation.score_fn_keys cand ceqb k p d Hd).
  symmetry. apply map_length.
Qed.

(* the three situations of the seat count with respect to a ranking *)
Lemma seat_cases : forall (r0 : ranking) m,
  (m < 1 \/ Z.of_nat (length (flat r0)) < m)%Z \/
  ((1 <= m <= Z.of_nat (length (flat r0)))%Z /\ ~ straddlesZ cand r0 m) \/
  ((1 <= m <= Z.of_nat (length (flat r0)))%Z /\ straddlesZ cand r0 m).
Proof.
  intros r0 m.
  destruct (Z_lt_le_dec m 1) as [H1|H1]; [left; left; exact H1|].
  destruct (Z_lt_le_dec (Z.of_nat (length (flat r0))) m) as [H2|H2]; [left; right; exact H2|].
  right. destruct (elect_top_m r0 m None None (mkM [] [])) as [x|e] eqn:E.
  - left. split; [lia|]. intros Hs.
    assert (Hx : elect_top_m r0 m None None (mkM [] []) = inr EValue).
    { apply (elect_top_m_none_error_iff cand ceqb). right. right. exact Hs. }
    rewrite Hx in E. discriminate.
  - right. split; [lia|]. pose proof (elect_top_m_none_only_EValue cand ceqb _ _ _ _ _ E) as ->.
    apply (elect_top_m_none_error_iff cand ceqb) in E. destruct E as [E|[E|E]]; [lia|lia|exact E].
Qed.

(* (a) the tiebreak option is not consulted when no group straddles the last seat: the run
   succeeds, draws nothing and records no tiebreak — even for an unknown tiebreak name *)
Theorem one_shot_tiebreak_unused : forall r (p : profile) k m tb d (s : mstate),
  one_shot_params r p = Some (k, m, tb) -> one_shot_valid r p -> score_fn k p = inl d ->
  (1 <= m <= Z.of_nat (length (cands p)))%Z -> ~ straddles_seat (score_to_ranking d true) m ->
  exists s0 s1, run_rule r p s = inl ([s0; s1], s) /\
    escores s0 = d /\ remaining s0 = score_to_ranking d true /\ tiebreaks s1 = [] /\
    elected s1 ++ remaining s1 = remaining s0 /\ Z.of_nat (length (flat (elected s1))) = m.
Proof.
  intros r p k m tb d s Hp Hv Hd Hrange Hns.
  destruct (one_shot_valid_run r p k m tb Hp Hv) as [Hdom Hrun].
  pose proof (scores_ranking_len k p d Hd) as Hlen.
  destruct (elect_top_m_clean (score_to_ranking d true) m (Some p) tb s) as [el [rem [Hel [Hr Hm]]]].
  - rewrite Hlen. exact Hrange.
  - exact Hns.
  - destruct (one_shot_elect_ok k m tb p s d el rem None s Hdom Hd Hel) as [np [d1 [_ [_ Hx]]]].
    eexists. eexists. split; [rewrite Hrun; exact Hx|].
    cbn [escores remaining tiebreaks elected state_of_scores tbl]. repeat split; assumption.
Qed.

(* (b) a group straddling the last seat: [tiebreak_set] on that group decides *)
Theorem one_shot_tiebreak_decides : forall r (p : profile) k m kind d pre g post (s : mstate),
  one_shot_params r p = Some (k, m, Some kind) -> one_shot_valid r p -> score_fn k p = inl d ->
  score_to_ranking d true = pre ++ g :: post ->
  (Z.of_nat (length (flat pre)) < m < Z.of_nat (length (flat pre) + length g))%Z ->
  let j := (Z.to_nat m - length (flat pre))%nat in
  (forall e, tiebreak_set g (Some p) kind s = inr e -> run_rule r p s = inr e) /\
  (forall t s', tiebreak_set g (Some p) kind s = inl (t, s') ->
     exists s0 s1, run_rule r p s = inl ([s0; s1], s') /\
       escores s0 = d /\ remaining s0 = pre ++ g :: post /\
       elected s1 = pre ++ firstn j t /\ remaining s1 = skipn j t ++ post /\
       tiebreaks s1 = [(g, t)]).
Proof.
  intros r p k m kind d pre g post s Hp Hv Hd Hr Hm j.
  destruct (one_shot_valid_run r p k m (Some kind) Hp Hv) as [Hdom Hrun].
  pose proof (elect_top_m_straddle_some cand ceqb pre g post m (Some p) kind s (proj1 Hm) (proj2 Hm)) as Hel.
  split.
  - intros e Ht. rewrite Ht in Hel. rewrite Hrun. apply (one_shot_elect_err k m (Some kind) p s d e Hd).
    rewrite Hr. exact Hel.
  - intros t s' Ht. rewrite Ht in Hel. cbv zeta in Hel.
    assert (Hel' : elect_top_m (score_to_ranking d true) m (Some p) (Some kind) s
                   = inl ((pre ++ firstn j t, skipn j t ++ post, Some (g, t)), s')).
    { rewrite Hr. exact Hel. }
    destruct (one_shot_elect_ok k m (Some kind) p s d _ _ _ s' Hdom Hd Hel') as [np [d1 [_ [_ Hx]]]].
    eexists. eexists. split; [rewrite Hrun; exact Hx|].
    cbn [escores remaining tiebreaks elected state_of_scores tbl]. rewrite Hr. repeat split.
Qed.

(* (c) the random tiebreak on a straddling group: a script whose next draw is an order of exactly
   that group makes the run succeed and elect along that order; any other script is rejected *)
Theorem one_shot_random_tiebreak : forall r (p : profile) k m d pre g post (s : mstate),
  one_shot_params r p = Some (k, m, Some TBRandom) -> one_shot_valid r p -> score_fn k p = inl d ->
  score_to_ranking d true = pre ++ g :: post ->
  (Z.of_nat (length (flat pre)) < m < Z.of_nat (length (flat pre) + length g))%Z ->
  let j := (Z.to_nat m - length (flat pre))%nat in
  (forall l rest, scr s = DPerm l :: rest -> Permutation l g -> NoDup l ->
     exists s0 s1, run_rule r p s = inl ([s0; s1], mkM rest (CSample g :: lg s)) /\
       escores s0 = d /\ remaining s0 = pre ++ g :: post /\
       elected s1 = pre ++ singletons (firstn j l) /\
       remaining s1 = singletons (skipn j l) ++ post /\
       tiebreaks s1 = [(g, singletons l)]) /\
  (~ (exists l rest, scr s = DPerm l :: rest /\ Permutation l g /\ NoDup l) ->
     run_rule r p s = inr EScript).
Proof.
  intros r p k m d pre g post s Hp Hv Hd Hr Hm j.
  destruct (one_shot_tiebreak_decides r p k m TBRandom d pre g post s Hp Hv Hd Hr Hm) as [Herr Hok].
  split.
  - intros l rest Hscr Hpl Hnd.
    assert (Ht : tiebreak_set g (Some p) TBRandom s = inl (singletons l, mkM rest (CSample g :: lg s))).
    { rewrite <- (mstate_eta cand s) at 1. rewrite Hscr. apply tiebreak_random_run; assumption. }
    destruct (Hok _ _ Ht) as [s0 [s1 [H1 [H2 [H3 [H4 [H5 H6]]]]]]].
    exists s0, s1. split; [exact H1|]. split; [exact H2|]. split; [exact H3|].
    fold j in H4, H5. rewrite (firstn_singletons cand) in H4. rewrite (skipn_singletons cand) in H5.
    repeat split; assumption.
  - intros Hno. apply Herr. apply tiebreak_random_fail. exact Hno.
Qed.

(* (d) an unknown tiebreak name: ValueError exactly when the tiebreak is consulted (or the seat
   count is out of range); otherwise the run succeeds as if no tiebreak had been requested *)
Theorem one_shot_invalid_tiebreak : forall r (p : profile) k m d (s : mstate),
  one_shot_params r p = Some (k, m, Some TBInvalid) -> one_shot_valid r p -> score_fn k p = inl d ->
  (run_rule r p s = inr EValue <->
     (m < 1 \/ Z.of_nat (length (cands p)) < m)%Z \/ straddles_seat (score_to_ranking d true) m) /\
  (forall e, run_rule r p s = inr e -> e = EValue) /\
  ((exists sts, run_rule r p s = inl (sts, s)) \/ run_rule r p s = inr EValue).
Proof.
  intros r p k m d s Hp Hv Hd.
  destruct (one_shot_valid_run r p k m (Some TBInvalid) Hp Hv) as [Hdom Hrun].
  pose proof (scores_ranking_len k p d Hd) as Hlen.
  assert (Hbad : (m < 1 \/ Z.of_nat (length (cands p)) < m)%Z -> run_rule r p s = inr EValue).
  { intros Hm. rewrite Hrun, (c20_elect_m_range_proof cand ceqb k m _ p s Hm), Hd. reflexivity. }
  assert (Hstr : straddles_seat (score_to_ranking d true) m -> run_rule r p s = inr EValue).
  { intros [pre [g [post [Hr [H1 H2]]]]].
    destruct (one_shot_tiebreak_decides r p k m TBInvalid d pre g post s Hp Hv Hd Hr (conj H1 H2)) as [Herr _].
    apply Herr. reflexivity. }
  destruct (seat_cases (score_to_ranking d true) m) as [Hc|[[Hc Hns]|[Hc Hs]]]; rewrite Hlen in Hc.
  - pose proof (Hbad Hc) as E. rewrite E. split; [split; [intros _; left; exact Hc|reflexivity]|].
    split; [intros e He; inversion He; reflexivity|right; reflexivity].
  - destruct (one_shot_tiebreak_unused r p k m _ d s Hp Hv Hd Hc Hns) as [s0 [s1 [E _]]].
    rewrite E. split; [split; [discriminate|]|split; [discriminate|left; eexists; reflexivity]].
    intros [Hm|Hs]; [lia|contradiction (Hns Hs)].
  - pose proof (Hstr Hs) as E. rewrite E. split; [split; [intros _; right; exact Hs|reflexivity]|].
    split; [intros e He; inversion He; reflexivity|right; reflexivity].
Qed.

(* (e) the first_place / borda tiebreak on a profile whose rankings are well formed: the split
   group is ordered by that score of the profile; a script supplying one order per sub-group still
   tied on it makes the run succeed; the only possible failure is a wrong script *)
Theorem one_shot_scored_tiebreak_run : forall r (p : profile) k m kind d pre g post,
  one_shot_params r p = Some (k, m, Some kind) -> one_shot_valid r p -> wf_profile p ->
  kind = TBFirstPlace \/ kind = TBBorda -> score_fn k p = inl d ->
  score_to_ranking d true = pre ++ g :: post ->
  (Z.of_nat (length (flat pre)) < m < Z.of_nat (length (flat pre) + length g))%Z ->
  exists dtb, match kind with TBBorda => borda_scores p | _ => first_place_votes p end = inl dtb /\
    let r2 := score_to_ranking (filter (fun q => memb (fst q) g) dtb) true in
    let j := (Z.to_nat m - length (flat pre))%nat in
    (forall (s : mstate) ls rest, scr s = map DPerm ls ++ rest ->
       Forall2 (fun l sg => Permutation l sg /\ NoDup l) ls (filter big r2) ->
       exists s0 s1,
         run_rule r p s = inl ([s0; s1], mkM rest (rev (map CSample (filter big r2)) ++ lg s)) /\
         escores s0 = d /\ remaining s0 = pre ++ g :: post /\
         elected s1 = pre ++ firstn j (rebuild r2 ls) /\
         remaining s1 = skipn j (rebuild r2 ls) ++ post /\
         tiebreaks s1 = [(g, rebuild r2 ls)]) /\
    (filter big r2 = [] -> forall s : mstate,
       exists s0 s1, run_rule r p s = inl ([s0; s1], s) /\
         elected s1 = pre ++ firstn j r2 /\ remaining s1 = skipn j r2 ++ post /\
         tiebreaks s1 = [(g, r2)]) /\
    (forall (s : mstate) e, run_rule r p s = inr e -> e = EScript).
Proof.
  intros r p k m kind d pre g post Hp Hv Hwf Hkind Hd Hr Hm.
  destruct (tb_scores_wf kind p Hwf) as [dtb Hdtb]. exists dtb.
  split; [exact Hdtb|]. cbv zeta.
  set (r2 := score_to_ranking (filter (fun q => memb (fst q) g) dtb) true).
  set (j := (Z.to_nat m - length (flat pre))%nat).
  assert (Hgen : forall (s : mstate) ls rest, scr s = map DPerm ls ++ rest ->
       Forall2 (fun l sg => Permutation l sg /\ NoDup l) ls (filter big r2) ->
       exists s0 s1,
         run_rule r p s = inl ([s0; s1], mkM rest (rev (map CSample (filter big r2)) ++ lg s)) /\
         escores s0 = d /\ remaining s0 = pre ++ g :: post /\
         elected s1 = pre ++ firstn j (rebuild r2 ls) /\
         remaining s1 = skipn j (rebuild r2 ls) ++ post /\
         tiebreaks s1 = [(g, rebuild r2 ls)]).
  { intros s ls rest Hscr HF.
    destruct (one_shot_tiebreak_decides r p k m kind d pre g post s Hp Hv Hd Hr Hm) as [_ Hok].
    apply Hok. rewrite <- (mstate_eta cand s) at 1. rewrite Hscr.
    apply (tiebreak_scored_run g p kind dtb ls rest (lg s) Hkind Hdtb). exact HF. }
  split; [exact Hgen|]. split.
  - intros Hnil s. destruct (Hgen s [] (scr s) eq_refl) as [s0 [s1 [H1 [_ [_ [H4 [H5 H6]]]]]]].
    { rewrite Hnil. constructor. }
    rewrite Hnil in H1. cbn [map rev app] in H1. rewrite (mstate_eta cand) in H1.
    rewrite (rebuild_nil cand) in H4, H5, H6. exists s0, s1. repeat split; assumption.
  - intros s e He.
    destruct (one_shot_tiebreak_decides r p k m kind d pre g post s Hp Hv Hd Hr Hm) as [Herr Hok].
    destruct (tiebreak_set g (Some p) kind s) as [[t s']|e0] eqn:Ht.
    + destruct (Hok t s' eq_refl) as [s0 [s1 [H1 _]]]. rewrite H1 in He. discriminate.
    + rewrite (Herr e0 eq_refl) in He. inversion He; subst e0.
      destruct (tiebreak_scored_err g p kind s e Hkind Ht) as [Hx|[_ Hx]]; [|exact Hx].
      rewrite Hdtb in Hx. discriminate.
Qed.

(* (f) the same tiebreaks in the rating family: rated ballots carry no ranking, so computing the
   first-place / Borda scores raises TypeError — exactly when the tiebreak is consulted and the
   profile has a ballot *)
Theorem rated_scored_tiebreak : forall r (p : profile) k m kind d (s : mstate),
  one_shot_params r p = Some (k, m, Some kind) -> one_shot_valid r p -> rating_rule r ->
  kind = TBFirstPlace \/ kind = TBBorda -> score_fn k p = inl d ->
  (run_rule r p s = inr EType <->
     (1 <= m <= Z.of_nat (length (cands p)))%Z /\ straddles_seat (score_to_ranking d true) m /\
     ballots p <> []).
Proof.
  intros r p k m kind d s Hp Hv Hrr Hkind Hd.
  destruct (one_shot_valid_run r p k m (Some kind) Hp Hv) as [Hdom Hrun].
  pose proof (scores_ranking_len k p d Hd) as Hlen.
  assert (Hrated : wf_rated_profile p).
  { destruct r; cbn [OneShotSpec.rating_rule] in Hrr; try contradiction;
      cbn [OneShotSpec.one_shot_valid] in Hv; tauto. }
  assert (Hnork : forall b, In b (ballots p) -> rk b = []).
  { intros b Hb. destruct Hrated as [_ Hall]. rewrite Forall_forall in Hall. apply (Hall b Hb). }
  destruct (seat_cases (score_to_ranking d true) m) as [Hc|[[Hc Hns]|[Hc Hs]]]; rewrite Hlen in Hc.
  - assert (E : run_rule r p s = inr EValue).
    { rewrite Hrun, (c20_elect_m_range_proof cand ceqb k m _ p s Hc), Hd. reflexivity. }
    rewrite E. split; [discriminate|]. intros [Hm _]. lia.
  - destruct (one_shot_tiebreak_unused r p k m _ d s Hp Hv Hd Hc Hns) as [s0 [s1 [E _]]].
    rewrite E. split; [discriminate|]. intros [_ [Hs _]]. contradiction (Hns Hs).
  - pose proof Hs as [pre [g [post [Hr [H1 H2]]]]].
    destruct (one_shot_tiebreak_decides r p k m kind d pre g post s Hp Hv Hd Hr (conj H1 H2)) as [Herr Hok].
    destruct (ballots p) as [|b bs] eqn:Hbs.
    + split; [|intros [_ [_ Hne]]; contradiction Hne; reflexivity].
      intros He. exfalso. destruct (tb_scores_no_ballots kind p Hbs) as [dtb Hdtb].
      destruct (tiebreak_set g (Some p) kind s) as [[t s']|e0] eqn:Ht.
      * destruct (Hok t s' eq_refl) as [s0 [s1 [Hx _]]]. rewrite Hx in He. discriminate.
      * rewrite (Herr e0 eq_refl) in He. inversion He; subst e0.
        destruct (tiebreak_scored_err g p kind s EType Hkind Ht) as [Hx|[_ Hx]]; [|discriminate].
        rewrite Hdtb in Hx. discriminate.
    + split; [intros _; split; [exact Hc|split; [exact Hs|discriminate]]|]. intros _.
      apply Herr. rewrite (tiebreak_scored_unfold g p kind s Hkind).
      rewrite (tb_scores_unranked kind p b bs Hbs); [reflexivity|].
      apply Hnork. left. reflexivity.
Qed.

(* ------------------------------------------------------------------ *)
(** * C05: a scored candidate that is not a candidate of the profile *)

Lemma forallb_false_exists : forall {A} (f : A -> bool) l,
  forallb f l = false -> exists x, In x l /\ f x = false.
Proof.
  intros A f l. induction l as [|a l IH]; intros H; [discriminate|]. cbn [forallb] in H.
  destruct (f a) eqn:Ha.
  - destruct (IH H) as [x [Hx Hfx]]. exists x. split; [right; exact Hx|exact Hfx].
  - exists a. split; [left; reflexivity|exact Ha].
Qed.

Lemma scored_nonempty : forall L k (p : profile), Forall (score_ballot_ok L k) (ballots p) ->
  existsb (fun b : ballot => negb (nonempty (sc b))) (ballots p) = false.
Proof.
  intros L k p Hbs. apply not_true_is_false. intros Hex. apply existsb_exists in Hex.
  destruct Hex as [b [Hb Hn]]. rewrite Forall_forall in Hbs. destruct (Hbs b Hb) as [Hne _].
  destruct (sc b); [contradiction Hne; reflexivity|discriminate].
Qed.

Lemma strip_scores_keys : forall W (d : scores) c,
  In c (map fst (strip_scores cand ceqb W d)) -> In c (map fst d) /\ ~ In c W.
Proof.
  intros W d c H. apply in_map_iff in H. destruct H as [[c' q] [E Hin]]. cbn [fst] in E. subst c'.
  unfold Core.strip_scores in Hin. apply filter_In in Hin. destruct Hin as [Hin Hm]. cbn [fst] in Hm.
  split; [apply in_map_iff; exists (c, q); split; [reflexivity|exact Hin]|].
  intros HW. apply (memb_In cand ceqb ceqb_spec) in HW. rewrite HW in Hm. discriminate.
Qed.

Theorem rating_unknown_candidate : forall m L k tb (p : profile) (s : mstate),
  rating_args_ok m L k -> Forall (score_ballot_ok L k) (ballots p) ->
  ((exists b c, In b (ballots p) /\ In c (map fst (sc b)) /\ ~ In c (cands p)) ->
     run_rating m L k tb p s = inr EKey) /\
  (NoDup (cands p) -> tb = None \/ tb = Some TBRandom \/ tb = Some TBInvalid ->
   run_rating m L k tb p s = inr EKey ->
     exists b c, In b (ballots p) /\ In c (map fst (sc b)) /\ ~ In c (cands p)).
Proof.
  intros m L k tb p s Ha Hbs.
  pose proof (run_rating_accepted cand ceqb m L k tb p s Ha Hbs) as Hrun.
  pose proof (scored_nonempty L k p Hbs) as Hne.
  destruct (forallb (fun b => subsetb cand ceqb (map fst (sc b)) (cands p)) (ballots p)) eqn:Hall.
  - (* every scored candidate is known: no KeyError *)
    assert (Hknown : forall b, In b (ballots p) -> incl (map fst (sc b)) (cands p)).
    { intros b Hb. rewrite forallb_forall in Hall. apply (subsetb_incl cand ceqb ceqb_spec). apply Hall. exact Hb. }
    split.
    + intros [b [c [Hb [Hc Hn]]]]. exfalso. apply Hn. apply (Hknown b Hb). exact Hc.
    + intros Hnd Htb He. exfalso. rewrite Hrun, (run_one_shot_unfold cand ceqb) in He.
      cbn [Rules.score_fn] in He. unfold Core.score_from_scores at 1 in He. rewrite Hne, Hall in He.
      cbn [negb] in He. unfold ok in He.
      match type of He with context [elect_top_m ?rr m (Some p) tb s] =>
        destruct (elect_top_m rr m (Some p) tb s) as [[[[el rem] t] s1]|e] eqn:Hel end.
      * destruct (remove_prof_cands cand ceqb ceqb_spec (flat el) true false p Hnd)
          as [np [Hnp [Hbnp [Hc1 Hc2]]]].
        rewrite Hnp in He.
        destruct (score_from_scores np) as [d1|e] eqn:Hd1; [discriminate|]. inversion He; subst e.
        unfold Core.score_from_scores in Hd1.
        destruct (existsb (fun b => negb (nonempty (sc b))) (ballots np)); [discriminate|].
        destruct (forallb (fun b => subsetb cand ceqb (map fst (sc b)) (cands np)) (ballots np)) eqn:Hall';
          cbn [negb] in Hd1; [discriminate|].
        apply forallb_false_exists in Hall'. destruct Hall' as [kb [Hkb Hsub]].
        assert (Hincl : incl (map fst (sc kb)) (cands np)).
        { intros c Hc. rewrite Hbnp in Hkb.
          destruct (remove_member cand ceqb (flat el) (ballots p) kb Hkb) as [b [Hb [_ [Hsc _]]]].
          rewrite Hsc in Hc. apply strip_scores_keys in Hc. destruct Hc as [Hc HnW].
          assert (Hin : In c (set_diff cand ceqb (cands p) (flat el))).
          { apply (set_diff_In cand ceqb ceqb_spec). split; [apply (Hknown b Hb); exact Hc|exact HnW]. }
          destruct Hc1 as [Hc1 _]; [intros E; rewrite E in Hin; destruct Hin|].
          rewrite Hc1. exact Hin. }
        apply (subsetb_incl cand ceqb ceqb_spec) in Hincl. rewrite Hincl in Hsub. discriminate.
      * inversion He; subst e. apply (elect_top_m_err cand ceqb) in Hel.
        destruct Hel as [[Hx _]|[[Hx _]|[kind [g [Hk [_ Ht]]]]]]; try discriminate.
        destruct Htb as [->|[->| ->]]; [discriminate| |]; inversion Hk; subst kind.
        -- cbn [Core.tiebreak_set] in Ht. unfold mbind in Ht.
           destruct (draw_perm g s) as [[l s1]|e'] eqn:E; [discriminate|].
           inversion Ht; subst e'. pose proof (draw_perm_err cand ceqb _ _ _ E). discriminate.
        -- discriminate.
  - split.
    + intros _. rewrite Hrun, (run_one_shot_unfold cand ceqb). cbn [Rules.score_fn].
      unfold Core.score_from_scores. rewrite Hne, Hall. reflexivity.
    + intros _ _ _. apply forallb_false_exists in Hall. destruct Hall as [b [Hb Hsub]].
      unfold Core.subsetb in Hsub. apply forallb_false_exists in Hsub. destruct Hsub as [c [Hc Hm]].
      exists b, c. split; [exact Hb|]. split; [exact Hc|].
      intros Hin. apply (memb_In cand ceqb ceqb_spec) in Hin. rewrite Hin in Hm. discriminate.
Qed.

End Tiebreaks.
