(* Proofs/C06_condo.v — C06: the forward (success) direction for CondoBorda, on ranked ballots that may
   have tied positions and weight-zero ballots ([tied_profile], Spec/PairwiseTiedSpec.v):
   - seat m between two dominating tiers: success, no draw, every script, whole tiers elected;
   - seat m inside a tier: exact equation for the run in terms of the Borda tie-break of that tier;
     no Borda tie inside the tier: success, no draw, every script; boundary separated: the elected SET
     is script-independent; a Borda tie inside the tier and an empty script: EScript;
   - seat range and classification of all errors;
   - ballots of weight zero change nothing.
   Builds on Elect (elect_top_m), C06_tied, C08_scripts (anonymity of CondoBorda). *)
From VK Require Import Base Core STV Pairwise Rules.
From VK.Spec Require Import PairwiseSpec ScoreSpec EditSpec Anon AnonRules PairwiseTiedSpec.
From VK.Proofs Require Import C12_expand Lib_rk Lib_sets C04_scoring Elect C06_pairwise C06_tiers
  C08_pairwise C08_anon C08_scripts C01_lib C10_composite C06_tied.
From Coq Require Import Permutation Lia Lqa Setoid Morphisms Relations.

Section Condo.
Variable cand : Type.
Variable ceqb : cand -> cand -> bool.
Hypothesis ceqb_spec : forall a b, reflect (a = b) (ceqb a b).

Notation cset := (cset cand).
Notation ranking := (ranking cand).
Notation ballot := (ballot cand).
Notation profile := (profile cand).
Notation scores := (scores cand).
Notation estate := (estate cand).
Notation mstate := (mstate cand).
Notation memb := (memb cand ceqb).
Notation flat := (flat cand).
Notation singletons := (singletons cand).
Notation tied_profile := (tied_profile cand).
Notation score_free := (score_free cand).
Notation spref_weight := (spref_weight cand ceqb).
Notation tie_weight := (tie_weight cand ceqb).
Notation positive_ballots := (positive_ballots cand).
Notation score_gt := (score_gt cand).
Notation dominating_tiers := (dominating_tiers cand ceqb).
Notation borda_scores := (borda_scores cand ceqb).
Notation remove_cand_prof := (remove_cand_prof cand ceqb).
Notation tiebreak_set := (tiebreak_set cand ceqb).
Notation random_break := (random_break cand ceqb).
Notation elect_top_m := (elect_top_m cand ceqb).
Notation elect_loop := (elect_loop cand ceqb).
Notation run_condo := (run_condo cand ceqb).
Notation run_dominating := (run_dominating cand ceqb).
Notation score_to_ranking := (score_to_ranking cand).
Notation ng := (no_group cand).

Local Notation memb_In := (Lib_sets.memb_In cand ceqb ceqb_spec).
Local Notation flat_cons := (Lib_sets.flat_cons cand).
Local Notation flat_app := (Lib_sets.flat_app cand).
Local Notation flat_singletons := (Lib_sets.flat_singletons cand).

(* ------------------------------------------------------------------ *)
(** * elect_cands_from_set_ranking when the seat count falls between two groups *)

Lemma elect_loop_exact : forall (pre rest : ranking) need acc po tb (s : mstate),
  Forall (fun g => g <> []) pre -> length (flat pre) = need ->
  elect_loop (pre ++ rest) need acc po tb s = inl ((rev acc ++ pre, rest, None), s).
Proof.
  induction pre as [|g pre IH]; intros rest need acc po tb s Hne Hlen.
  - cbn in Hlen. subst need. cbn [app]. rewrite app_nil_r. destruct rest; reflexivity.
  - inversion Hne as [|? ? Hg Hne']; subst. rewrite flat_cons, app_length.
    destruct g as [|c g]; [congruence|].
    rewrite <- app_comm_cons. cbn [length plus Core.elect_loop].
    assert (Hle : Nat.leb (S (length g)) (S (length g + length (flat pre))) = true)
      by (apply Nat.leb_le; lia).
    rewrite Hle. rewrite (IH rest _ ((c :: g) :: acc) po tb s Hne'); [|lia].
    cbn [rev]. rewrite <- app_assoc. reflexivity.
Qed.

Lemma elect_top_m_exact : forall (pre rest : ranking) m po tb (s : mstate),
  Forall (fun g => g <> []) pre -> (1 <= m)%Z -> Z.of_nat (length (flat pre)) = m ->
  elect_top_m (pre ++ rest) m po tb s = inl ((pre, rest, None), s).
Proof.
  intros pre rest m po tb s Hne H1 Hm.
  rewrite (elect_top_m_unfold cand ceqb); [|exact H1|rewrite flat_app, app_length; lia].
  rewrite (elect_loop_exact pre rest (Z.to_nat m) [] po tb s Hne); [reflexivity|lia].
Qed.

(* every seat count in range falls between two groups or strictly inside one *)
Lemma seat_split : forall (ts : ranking) (m : nat), (1 <= m <= length (flat ts))%nat ->
  (exists pre rest, ts = pre ++ rest /\ length (flat pre) = m) \/
  (exists pre g post, ts = pre ++ g :: post /\
     (length (flat pre) < m)%nat /\ (m < length (flat pre) + length g)%nat).
Proof.
  induction ts as [|g ts IH]; intros m Hm.
  - cbn in Hm. lia.
  - rewrite flat_cons, app_length in Hm.
    destruct (Nat.lt_trichotomy m (length g)) as [Hlt|[Heq|Hgt]].
    + right. exists [], g, ts. split; [reflexivity|]. cbn. lia.
    + left. exists [g], ts. split; [reflexivity|]. rewrite flat_cons. cbn. rewrite app_nil_r. lia.
    + destruct (IH (m - length g)%nat) as [[pre [rest [-> Hl]]]|[pre [g0 [post [-> [H1 H2]]]]]]; [lia| |].
      * left. exists (g :: pre), rest. split; [reflexivity|]. rewrite flat_cons, app_length. lia.
      * right. exists (g :: pre), g0, post. split; [reflexivity|]. rewrite flat_cons, app_length. lia.
Qed.

(* ------------------------------------------------------------------ *)
(** * the random part of a scored tie-break *)

Lemma draw_perm_err : forall (g : cset) (s : mstate) e, draw_perm cand ceqb g s = inr e -> e = EScript.
Proof.
  intros g s e H. unfold Core.draw_perm, mbind, next_draw in H. destruct (scr s) as [|d rest].
  - unfold err in H. injection H as <-. reflexivity.
  - unfold ok in H. destruct d; try (unfold mfail, err in H; injection H as <-; reflexivity).
    destruct (is_perm_of cand ceqb l g); [discriminate|].
    unfold mfail, err in H. injection H as <-. reflexivity.
Qed.

Lemma random_break_err : forall (r : ranking) (s : mstate) e, random_break r s = inr e -> e = EScript.
Proof.
  induction r as [|g r IH]; intros s e H; [discriminate|].
  cbn [Core.random_break] in H. destruct g as [|c [|c' g']].
  - unfold mbind in H. destruct (random_break r s) as [[rest s1]|e1] eqn:Hr; [discriminate|].
    injection H as <-. eapply IH. exact Hr.
  - unfold mbind in H. destruct (random_break r s) as [[rest s1]|e1] eqn:Hr; [discriminate|].
    injection H as <-. eapply IH. exact Hr.
  - unfold mbind in H. destruct (draw_perm cand ceqb (c :: c' :: g') s) as [[l s1]|e1] eqn:Hd.
    + destruct (random_break r s1) as [[rest s2]|e2] eqn:Hr; [discriminate|].
      injection H as <-. eapply IH. exact Hr.
    + injection H as <-. eapply draw_perm_err. exact Hd.
Qed.

(* with no draw left, a ranking that still has a tied group cannot be broken *)
Lemma random_break_noscript : forall (r : ranking) lg0,
  (exists g, In g r /\ (1 < length g)%nat) -> random_break r (mkM [] lg0) = inr EScript.
Proof.
  induction r as [|g r IH]; intros lg0 [g0 [Hg0 Hl]]; [destruct Hg0|].
  cbn [Core.random_break]. destruct g as [|c [|c' g']].
  - unfold mbind. rewrite IH; [reflexivity|]. exists g0. split; [|exact Hl].
    destruct Hg0 as [<-|H]; [cbn in Hl; lia|exact H].
  - unfold mbind. rewrite IH; [reflexivity|]. exists g0. split; [|exact Hl].
    destruct Hg0 as [<-|H]; [cbn in Hl; lia|exact H].
  - reflexivity.
Qed.

Section TieBreak.
Variable p : profile.
Variable d0 : scores.
Variable g : cset.
Hypothesis Hb : borda_scores p = inl d0.
Hypothesis Hnd : NoDup (cands p).

Local Notation d' := (filter (fun q : cand * Q => memb (fst q) g) d0).
Local Notation r := (score_to_ranking d' true).

Lemma d0_keys : NoDup (map fst d0).
Proof. rewrite (borda_keys cand ceqb p d0 Hb). exact Hnd. Qed.

Lemma d'_keys : NoDup (map fst d').
Proof. rewrite (map_fst_filter_memb cand ceqb). apply NoDup_filter. exact d0_keys. Qed.

Lemma tiebreak_borda_unfold : forall s : mstate,
  tiebreak_set g (Some p) TBBorda s =
  (if existsb (fun g0 : cset => Nat.ltb 1 (length g0)) r then random_break r else mret r) s.
Proof.
  intros s. cbn [Core.tiebreak_set]. unfold mbind, mlift. rewrite Hb. unfold ok. reflexivity.
Qed.

Lemma NoDup_concat_in : forall (l : list (list cand)) x, NoDup (concat l) -> In x l -> NoDup x.
Proof.
  induction l as [|y l IH]; intros x Hn Hx; [destruct Hx|].
  cbn [concat] in Hn. destruct (Lib_sets.NoDup_app_inv _ _ Hn) as [H1 [H2 _]].
  destruct Hx as [<-|Hx]; [exact H1|apply IH; assumption].
Qed.

Lemma group_members : forall g0 c, d' <> [] -> In g0 r -> In c g0 ->
  exists q, In (c, q) d0 /\ In (c, q) d' /\ In c g.
Proof.
  intros g0 c Hne Hg0 Hc. destruct (score_to_ranking_group_inv cand d' g0 Hne Hg0) as [k [_ ->]].
  apply (in_class_of cand d' k c d'_keys) in Hc. destruct Hc as [q [Hq _]].
  exists q. pose proof Hq as Hq'. apply filter_In in Hq'. destruct Hq' as [H1 H2].
  cbn [fst] in H2. apply memb_In in H2. repeat split; assumption.
Qed.

(* no two members of the set have the same Borda score: nothing is left to chance *)
Lemma no_big_group :
  (forall a b qa qb, In a g -> In b g -> a <> b -> In (a, qa) d0 -> In (b, qb) d0 -> ~ qa == qb) ->
  existsb (fun g0 : cset => Nat.ltb 1 (length g0)) r = false.
Proof.
  intros Hdist.
  assert (Hcase : d' = [] \/ d' <> []) by (destruct d'; [left; reflexivity|right; discriminate]).
  destruct Hcase as [Ed|Hne].
  - rewrite Ed. reflexivity.
  -
    apply not_true_is_false. intros H. apply existsb_exists in H. destruct H as [g0 [Hg0 Hl]].
    apply Nat.ltb_lt in Hl. destruct g0 as [|c1 [|c2 g1]]; cbn [length] in Hl; try lia.
    assert (Hn0 : NoDup (c1 :: c2 :: g1)).
    { apply (NoDup_concat_in r); [|exact Hg0]. apply (score_to_ranking_NoDup cand d' Hne d'_keys). }
    assert (Hne12 : c1 <> c2).
    { intros ->. inversion Hn0 as [|? ? Hx _]; subst. apply Hx. left. reflexivity. }
    destruct (group_members _ c1 Hne Hg0 (or_introl eq_refl)) as [q1 [H1 [H1' G1]]].
    destruct (group_members _ c2 Hne Hg0 (or_intror (or_introl eq_refl))) as [q2 [H2 [H2' G2]]].
    apply (Hdist c1 c2 q1 q2 G1 G2 Hne12 H1 H2).
    apply (score_to_ranking_same_group_iff cand d' c1 c2 q1 q2 Hne d'_keys H1' H2').
    exists (c1 :: c2 :: g1). split; [exact Hg0|]. split; [left; reflexivity|right; left; reflexivity].
Qed.

(* two members with the same Borda score: a group of the sorted ranking has two members *)
Lemma big_group : forall a b qa qb, In a g -> In b g -> a <> b ->
  In (a, qa) d0 -> In (b, qb) d0 -> qa == qb ->
  exists g0, In g0 r /\ (1 < length g0)%nat.
Proof.
  intros a b qa qb Ha Hbg Hab Hqa Hqb Heq.
  assert (Ha' : In (a, qa) d').
  { apply filter_In. split; [exact Hqa|]. cbn [fst]. apply memb_In. exact Ha. }
  assert (Hb' : In (b, qb) d').
  { apply filter_In. split; [exact Hqb|]. cbn [fst]. apply memb_In. exact Hbg. }
  assert (Hne : d' <> []) by (intros E; rewrite E in Ha'; destruct Ha').
  destruct (proj2 (score_to_ranking_same_group_iff cand d' a b qa qb Hne d'_keys Ha' Hb') Heq)
    as [g0 [Hg0 [Hag Hbg0]]].
  exists g0. split; [exact Hg0|].
  destruct g0 as [|c1 [|c2 g1]]; [destruct Hag| |cbn [length]; lia].
  destruct Hag as [<-|[]]. destruct Hbg0 as [E|[]]. congruence.
Qed.

Lemma tiebreak_borda_nodraw :
  (forall a b qa qb, In a g -> In b g -> a <> b -> In (a, qa) d0 -> In (b, qb) d0 -> ~ qa == qb) ->
  forall s : mstate, tiebreak_set g (Some p) TBBorda s = inl (r, s).
Proof. intros Hdist s. rewrite tiebreak_borda_unfold, (no_big_group Hdist). reflexivity. Qed.

Lemma tiebreak_borda_noscript : forall a b qa qb, In a g -> In b g -> a <> b ->
  In (a, qa) d0 -> In (b, qb) d0 -> qa == qb ->
  forall lg0, tiebreak_set g (Some p) TBBorda (mkM [] lg0) = inr EScript.
Proof.
  intros a b qa qb Ha Hbg Hab Hqa Hqb Heq lg0.
  pose proof (big_group a b qa qb Ha Hbg Hab Hqa Hqb Heq) as Hbig.
  rewrite tiebreak_borda_unfold.
  assert (Hex : existsb (fun g0 : cset => Nat.ltb 1 (length g0)) r = true).
  { destruct Hbig as [g0 [Hg0 Hl]]. apply existsb_exists. exists g0. split; [exact Hg0|].
    apply Nat.ltb_lt. exact Hl. }
  rewrite Hex. apply random_break_noscript. exact Hbig.
Qed.

Lemma tiebreak_borda_err : forall (s : mstate) e, tiebreak_set g (Some p) TBBorda s = inr e -> e = EScript.
Proof.
  intros s e H. rewrite tiebreak_borda_unfold in H.
  destruct (existsb (fun g0 : cset => Nat.ltb 1 (length g0)) r).
  - eapply random_break_err. exact H.
  - discriminate.
Qed.

End TieBreak.

(* ------------------------------------------------------------------ *)
(** * the first k of an order that never puts a non-member of H before a member of H *)

Lemma top_k_set : forall (l H : list cand), NoDup l -> NoDup H -> incl H l ->
  (forall x a y b z, l = x ++ a :: y ++ b :: z -> In b H -> In a H) ->
  Permutation (firstn (length H) l) H.
Proof.
  induction l as [|c l IH]; intros H Hl HH Hincl Hup.
  - destruct H as [|h H]; [constructor|]. destruct (Hincl h (or_introl eq_refl)).
  - destruct H as [|h H]; [constructor|].
    assert (Hc : In c (h :: H)).
    { destruct (Hincl h (or_introl eq_refl)) as [E|Hin]; [left; symmetry; exact E|].
      apply in_split in Hin. destruct Hin as [y [z Hyz]].
      apply (Hup [] c y h z); [rewrite Hyz; reflexivity|left; reflexivity]. }
    apply in_split in Hc. destruct Hc as [H1 [H2 EH]].
    assert (Hperm : Permutation (h :: H) (c :: H1 ++ H2)).
    { rewrite EH. apply Permutation_sym, Permutation_middle. }
    assert (HH' : NoDup (c :: H1 ++ H2)) by (eapply Permutation_NoDup; eassumption).
    inversion HH' as [|? ? Hc12 Hn12]; subst. inversion Hl as [|? ? Hcl Hnl]; subst.
    assert (Hlen : length (h :: H) = S (length (H1 ++ H2))).
    { rewrite (Permutation_length Hperm). reflexivity. }
    rewrite Hlen. cbn [firstn]. eapply Permutation_trans; [|apply Permutation_sym; exact Hperm].
    apply perm_skip. apply IH.
    + exact Hnl.
    + exact Hn12.
    + intros x Hx. assert (Hx' : In x (h :: H)).
      { eapply Permutation_in; [apply Permutation_sym; exact Hperm|right; exact Hx]. }
      destruct (Hincl x Hx') as [E|Hin]; [|exact Hin]. subst x. contradiction.
    + intros x a y b z El Hbin.
      assert (Ha : In a (h :: H)).
      { apply (Hup (c :: x) a y b z); [rewrite El; reflexivity|].
        eapply Permutation_in; [apply Permutation_sym; exact Hperm|right; exact Hbin]. }
      apply (Permutation_in _ Hperm) in Ha. destruct Ha as [E|Ha]; [|exact Ha].
      subst a. exfalso. apply Hcl. rewrite El. apply in_or_app. right. left. reflexivity.
Qed.

(* ------------------------------------------------------------------ *)
(** * CondoBorda on a tied profile *)

Section Run.
Variable p : profile.
Hypothesis Hp : tied_profile p.

Lemma rp_wf : wf_profile cand p.
Proof. apply (tied_wf cand). exact Hp. Qed.

Lemma rp_borda : exists d0, borda_scores p = inl d0.
Proof. apply (ranked_borda cand ceqb ceqb_spec). exact rp_wf. Qed.

Lemma rp_after : score_free (ballots p) -> forall W : cset,
  exists np d1, remove_cand_prof W true false p = inl np /\ borda_scores np = inl d1.
Proof.
  intros Hsf W. destruct (ranked_remove_ok cand ceqb ceqb_spec W p (proj1 Hp)) as [np Hnp].
  destruct (remove_wf_ranked cand ceqb ceqb_spec W p np rp_wf Hsf Hnp) as [Hwf' _].
  destruct (ranked_borda cand ceqb ceqb_spec np Hwf') as [d1 Hd1]. exists np, d1. split; assumption.
Qed.

Lemma rp_tiers : forall ts, dominating_tiers p = inl ts ->
  Permutation (flat ts) (cands p) /\ Forall (fun g => g <> []) ts /\ NoDup (flat ts).
Proof.
  intros ts Ht. destruct (tied_tiers_partition cand ceqb ceqb_spec p Hp ts Ht) as [Hperm [Hne _]].
  split; [exact Hperm|]. split; [apply Forall_forall; exact Hne|].
  eapply Permutation_NoDup; [apply Permutation_sym; exact Hperm|apply Hp].
Qed.

(* seat count out of range *)
Theorem condo_range_error : forall m (s : mstate),
  (m < 1 \/ Z.of_nat (length (cands p)) < m)%Z -> run_condo m p s = inr EValue.
Proof.
  intros m s Hm. destruct rp_borda as [d0 Hb].
  destruct (tied_tiers_top_exists cand ceqb ceqb_spec p Hp) as [T0 [rest Ht]].
  destruct (rp_tiers _ Ht) as [Hperm _].
  unfold Rules.run_condo, mbind, mlift. rewrite (tied_ranking_validate cand p Hp).
  unfold round0, score_fn, rbind. rewrite Hb. unfold ok. cbv beta iota.
  unfold condo_step, mbind, mlift. rewrite Ht. unfold ok. cbv beta iota.
  rewrite (elect_top_m_range cand ceqb); [reflexivity|].
  rewrite (Permutation_length Hperm). exact Hm.
Qed.

(* seat m between two tiers *)
Theorem condo_whole_run : forall m (s : mstate) ts pre rest d0 np d1,
  dominating_tiers p = inl ts -> ts = pre ++ rest -> (1 <= m)%Z ->
  Z.of_nat (length (flat pre)) = m -> borda_scores p = inl d0 ->
  remove_cand_prof (flat pre) true false p = inl np -> borda_scores np = inl d1 ->
  run_condo m p s =
    inl ([state_of_scores cand 0 ng ng [] d0; mkState 1 rest pre ng [] d1], s).
Proof.
  intros m s ts pre rest d0 np d1 Ht Hts H1 Hm Hb Hnp Hd1.
  destruct (rp_tiers _ Ht) as [_ [Hne _]]. rewrite Hts in Hne. apply Forall_app in Hne.
  unfold Rules.run_condo, mbind, mlift. rewrite (tied_ranking_validate cand p Hp).
  unfold round0, score_fn, rbind. rewrite Hb. unfold ok. cbv beta iota.
  unfold condo_step, mbind, mlift. rewrite Ht. unfold ok. cbv beta iota.
  rewrite Hts, (elect_top_m_exact pre rest m (Some p) (Some TBBorda) s (proj1 Hne) H1 Hm).
  rewrite Hnp, Hd1. reflexivity.
Qed.

(* seat m strictly inside the tier g: the run is the Borda tie-break of g, then bookkeeping *)
Theorem condo_straddle_run : forall m (s : mstate) ts (pre : ranking) (g : list cand) (post : list (list cand)) d0,
  dominating_tiers p = inl ts -> ts = pre ++ g :: post ->
  (Z.of_nat (length (flat pre)) < m)%Z -> (m < Z.of_nat (length (flat pre) + length g))%Z ->
  borda_scores p = inl d0 ->
  run_condo m p s =
  match tiebreak_set g (Some p) TBBorda s with
  | inl (t, s') =>
      let k := (Z.to_nat m - length (flat pre))%nat in
      match remove_cand_prof (flat (pre ++ firstn k t)) true false p with
      | inl np =>
          match borda_scores np with
          | inl d1 => inl ([state_of_scores cand 0 ng ng [] d0;
                            mkState 1 (skipn k t ++ post) (pre ++ firstn k t) ng [(g, t)] d1], s')
          | inr e => inr e
          end
      | inr e => inr e
      end
  | inr e => inr e
  end.
Proof.
  intros m s ts pre g post d0 Ht Hts H1 H2 Hb.
  unfold Rules.run_condo, mbind, mlift. rewrite (tied_ranking_validate cand p Hp).
  unfold round0, score_fn, rbind. rewrite Hb. unfold ok. cbv beta iota.
  unfold condo_step, mbind, mlift. rewrite Ht. unfold ok. cbv beta iota.
  rewrite Hts, (elect_top_m_straddle_some cand ceqb pre g post m (Some p) TBBorda s H1 H2).
  destruct (tiebreak_set g (Some p) TBBorda s) as [[t s']|e]; [|reflexivity]. cbv zeta.
  unfold Core.cset, Core.ranking.
  destruct (Core.remove_cand_prof cand ceqb _ true false p) as [np|e]; [|reflexivity].
  destruct (borda_scores np) as [d1|e]; reflexivity.
Qed.

(* the tie-break of a tier answers with a linear order of the tier, never a lower Borda score first *)
Lemma tier_tiebreak_order : forall ts pre g post d0 (s s' : mstate) t,
  dominating_tiers p = inl ts -> ts = pre ++ g :: post -> borda_scores p = inl d0 ->
  tiebreak_set g (Some p) TBBorda s = inl (t, s') ->
  exists l, t = singletons l /\ Permutation l g /\
    forall x a y b z qa qb, l = x ++ a :: y ++ b :: z -> In (a, qa) d0 -> In (b, qb) d0 -> qb <= qa.
Proof.
  intros ts pre g post d0 s s' t Ht Hts Hb Htb.
  destruct (rp_tiers _ Ht) as [Hperm [Hne Hnd]]. rewrite Hts in Hne, Hnd, Hperm.
  assert (Hg : NoDup g).
  { rewrite flat_app, flat_cons in Hnd. apply Lib_sets.NoDup_app_inv in Hnd.
    destruct Hnd as [_ [Hnd _]]. apply Lib_sets.NoDup_app_inv in Hnd. tauto. }
  assert (Hgne : g <> []).
  { apply Forall_app in Hne. destruct Hne as [_ Hne]. inversion Hne; assumption. }
  assert (Hok : tb_profile_ok cand (Some p) (Some TBBorda) g).
  { cbn [tb_profile_ok]. intros pr Hpr. injection Hpr as <-. split; [apply Hp|].
    intros c Hc. eapply Permutation_in; [exact Hperm|]. rewrite flat_app, flat_cons.
    apply in_or_app. right. apply in_or_app. left. exact Hc. }
  destruct (tiebreak_set_linear cand ceqb ceqb_spec g (Some p) TBBorda s s' t Hg Hgne Hok Htb) as [l [Htl Hpl]].
  exists l. split; [exact Htl|]. split; [exact Hpl|].
  intros x a y b z qa qb Hl Ha Hbq.
  exact (tiebreak_set_order cand ceqb ceqb_spec g p TBBorda s s' t d0
           (or_intror (conj eq_refl Hb)) (proj1 Hp) Htb l x a y b z qa qb Htl Hl Ha Hbq).
Qed.

Lemma tier_sub_keys : forall ts pre g post d0 c,
  dominating_tiers p = inl ts -> ts = pre ++ g :: post -> borda_scores p = inl d0 ->
  In c g -> exists q, In (c, q) d0.
Proof.
  intros ts pre g post d0 c Ht Hts Hb Hc. destruct (rp_tiers _ Ht) as [Hperm _]. rewrite Hts in Hperm.
  assert (Hk : In c (map fst d0)).
  { rewrite (borda_keys cand ceqb p d0 Hb). eapply Permutation_in; [exact Hperm|].
    rewrite flat_app, flat_cons. apply in_or_app. right. apply in_or_app. left. exact Hc. }
  apply in_map_iff in Hk. destruct Hk as [[c' q] [E Hin]]. cbn [fst] in E. subst c'. exists q. exact Hin.
Qed.

(* shape of every successful run (the statement of Properties/C06.v, c06_condoborda, on the larger domain) *)
Theorem condo_shape : forall m (s s' : mstate) sts,
  run_condo m p s = inl (sts, s') ->
  exists ts d0 s1,
    dominating_tiers p = inl ts /\ borda_scores p = inl d0 /\
    sts = [state_of_scores cand 0 ng ng [] d0; s1] /\
    rnd s1 = 1%Z /\ eliminated s1 = ng /\
    (1 <= m <= Z.of_nat (length (cands p)))%Z /\
    Z.of_nat (length (flat (elected s1))) = m /\
    Permutation (flat (elected s1) ++ flat (remaining s1)) (cands p) /\
    ((tiebreaks s1 = [] /\ s' = s /\ elected s1 ++ remaining s1 = ts)
     \/
     (exists pre g post l k,
        ts = pre ++ g :: post /\ (0 < k < length g)%nat /\ Z.of_nat (k + length (flat pre)) = m /\
        Permutation l g /\
        elected s1 = pre ++ singletons (firstn k l) /\
        remaining s1 = singletons (skipn k l) ++ post /\
        tiebreaks s1 = [(g, singletons l)] /\
        (forall x a y b z qa qb, l = x ++ a :: y ++ b :: z ->
           In (a, qa) d0 -> In (b, qb) d0 -> qb <= qa))).
Proof.
  intros m s s' sts H. unfold Rules.run_condo, mbind, mlift in H.
  rewrite (tied_ranking_validate cand p Hp) in H. unfold ok in H. cbv beta iota in H.
  destruct (round0 cand ceqb SKBorda p) as [s0|e] eqn:H0; [|discriminate].
  destruct (condo_step cand ceqb m p s) as [[[np s1] s2]|e] eqn:Hc; [|discriminate].
  unfold mret, ok in H. injection H as <- <-.
  unfold round0, score_fn, rbind in H0.
  destruct (borda_scores p) as [d0|e] eqn:Hb; [|discriminate]. unfold ok in H0. injection H0 as <-.
  unfold condo_step, mbind, mlift in Hc.
  destruct (dominating_tiers p) as [ts|e] eqn:Ht; [|discriminate]. unfold ok in Hc. cbv beta iota in Hc.
  destruct (elect_top_m ts m (Some p) (Some TBBorda) s) as [[[[el rem] tbi] s3]|e] eqn:He; [|discriminate].
  destruct (remove_cand_prof (flat el) true false p) as [np'|e]; [|discriminate].
  destruct (borda_scores np') as [d1|e]; [|discriminate].
  unfold mret, ok in Hc. injection Hc as <- <- <-.
  destruct (rp_tiers ts Ht) as [Hflat [Hne' Hnd]].
  assert (Hok : tb_profile_ok cand (Some p) (Some TBBorda) (flat ts)).
  { cbn [tb_profile_ok]. intros pr Hpr. injection Hpr as <-. split; [apply Hp|].
    intros c Hc. eapply Permutation_in; [exact Hflat|exact Hc]. }
  destruct (elect_top_m_count_perm cand ceqb ceqb_spec ts m (Some p) (Some TBBorda) s s3 el rem tbi Hnd Hne' Hok He)
    as [Hcount [Hpart Hlin]].
  destruct (elect_top_m_shape cand ceqb ts m (Some p) (Some TBBorda) s s3 el rem tbi He) as [Hrange Hshape].
  exists ts, d0. eexists. split; [reflexivity|]. split; [reflexivity|]. split; [reflexivity|].
  cbn [rnd eliminated elected remaining tiebreaks].
  split; [reflexivity|]. split; [reflexivity|].
  split; [rewrite <- (Permutation_length Hflat); exact Hrange|].
  split; [exact Hcount|].
  split; [eapply Permutation_trans; [exact Hpart|exact Hflat]|].
  destruct Hshape as [[-> [-> [Hr _]]]|Hshape].
  - left. repeat split. exact Hr.
  - right. destruct Hshape as [pre [g [post [t [kind [k [Hkind [Hr [Hk [Hk0 [Hkg [Htb [Hel [Hrem Htbi]]]]]]]]]]]]]].
    injection Hkind as <-.
    destruct (Hlin g t Htbi) as [l [Htl Hpl]].
    exists pre, g, post, l, k. rewrite Htbi. subst t.
    rewrite (firstn_singletons cand) in Hel. rewrite (skipn_singletons cand) in Hrem.
    repeat split; try assumption.
    intros x a y b z qa qb Hl Ha Hbq.
    apply (tiebreak_set_order cand ceqb ceqb_spec g p TBBorda s s3 (singletons l) d0
             (or_intror (conj eq_refl Hb)) (proj1 Hp) Htb l x a y b z qa qb eq_refl Hl Ha Hbq).
Qed.

(* ---------- 1. whole tiers ---------- *)
Theorem condo_whole_tiers_succeed : forall m (s : mstate) ts pre rest,
  score_free (ballots p) ->
  dominating_tiers p = inl ts -> ts = pre ++ rest -> (1 <= m)%Z ->
  Z.of_nat (length (flat pre)) = m ->
  exists d0 np d1,
    borda_scores p = inl d0 /\
    remove_cand_prof (flat pre) true false p = inl np /\ borda_scores np = inl d1 /\
    run_condo m p s =
      inl ([state_of_scores cand 0 ng ng [] d0; mkState 1 rest pre ng [] d1], s).
Proof.
  intros m s ts pre rest Hsf Ht Hts H1 Hm. destruct rp_borda as [d0 Hb].
  destruct (rp_after Hsf (flat pre)) as [np [d1 [Hnp Hd1]]].
  exists d0, np, d1. repeat split; try assumption.
  eapply condo_whole_run; eassumption.
Qed.

(* ---------- 2. no Borda tie inside the straddling tier ---------- *)
Theorem condo_distinct_succeed : forall m (s : mstate) ts pre g post d0,
  score_free (ballots p) ->
  dominating_tiers p = inl ts -> ts = pre ++ g :: post ->
  (Z.of_nat (length (flat pre)) < m)%Z -> (m < Z.of_nat (length (flat pre) + length g))%Z ->
  borda_scores p = inl d0 ->
  (forall a b qa qb, In a g -> In b g -> a <> b -> In (a, qa) d0 -> In (b, qb) d0 -> ~ qa == qb) ->
  exists l d1,
    Permutation l g /\
    (forall x a y b z, l = x ++ a :: y ++ b :: z -> score_gt d0 a b) /\
    run_condo m p s =
      inl ([state_of_scores cand 0 ng ng [] d0;
            mkState 1 (singletons (skipn (Z.to_nat m - length (flat pre)) l) ++ post)
                      (pre ++ singletons (firstn (Z.to_nat m - length (flat pre)) l))
                      ng [(g, singletons l)] d1], s).
Proof.
  intros m s ts pre g post d0 Hsf Ht Hts H1 H2 Hb Hdist.
  pose proof (tiebreak_borda_nodraw p d0 g Hb (proj1 Hp) Hdist s) as Htb.
  destruct (tier_tiebreak_order ts pre g post d0 s s _ Ht Hts Hb Htb) as [l [Htl [Hpl Hord]]].
  rewrite (condo_straddle_run m s ts pre g post d0 Ht Hts H1 H2 Hb), Htb. cbv zeta.
  rewrite Htl, (firstn_singletons cand), (skipn_singletons cand).
  destruct (rp_after Hsf (flat (pre ++ singletons (firstn (Z.to_nat m - length (flat pre)) l))))
    as [np [d1 [Hnp Hd1]]].
  exists l, d1. split; [exact Hpl|]. split.
  - intros x a y b z Hl qa qb Ha Hbq.
    assert (Hag : In a g).
    { eapply Permutation_in; [exact Hpl|]. rewrite Hl. apply in_or_app. right. left. reflexivity. }
    assert (Hbg : In b g).
    { eapply Permutation_in; [exact Hpl|]. rewrite Hl. apply in_or_app. right. right.
      apply in_or_app. right. left. reflexivity. }
    assert (Hab : a <> b).
    { intros ->. assert (Hndl : NoDup l).
      { eapply Permutation_NoDup; [apply Permutation_sym; exact Hpl|].
        destruct (rp_tiers _ Ht) as [_ [_ Hnd]]. rewrite Hts, flat_app, flat_cons in Hnd.
        apply Lib_sets.NoDup_app_inv in Hnd. destruct Hnd as [_ [Hnd _]].
        apply Lib_sets.NoDup_app_inv in Hnd. tauto. }
      rewrite Hl in Hndl. apply Lib_sets.NoDup_app_inv in Hndl. destruct Hndl as [_ [Hndl _]].
      inversion Hndl as [|? ? Hx _]; subst. apply Hx. apply in_or_app. right. left. reflexivity. }
    pose proof (Hord x a y b z qa qb Hl Ha Hbq) as Hle.
    destruct (Qlt_le_dec qb qa) as [Hlt|Hge]; [exact Hlt|].
    exfalso. apply (Hdist a b qa qb Hag Hbg Hab Ha Hbq). apply Qle_antisym; assumption.
  - rewrite Hnp, Hd1. reflexivity.
Qed.

(* ---------- 2'. boundary separated: the elected set does not depend on the script ---------- *)
Theorem condo_separated_elects : forall m (s s' : mstate) sts ts pre g post d0 (H : cset),
  dominating_tiers p = inl ts -> ts = pre ++ g :: post ->
  borda_scores p = inl d0 ->
  NoDup H -> incl H g -> (0 < length H < length g)%nat ->
  Z.of_nat (length H + length (flat pre)) = m ->
  (forall a b, In a H -> In b g -> ~ In b H -> score_gt d0 a b) ->
  run_condo m p s = inl (sts, s') ->
  exists s0 s1 l,
    sts = [s0; s1] /\ Permutation l g /\
    elected s1 = pre ++ singletons (firstn (length H) l) /\
    remaining s1 = singletons (skipn (length H) l) ++ post /\
    tiebreaks s1 = [(g, singletons l)] /\
    Permutation (firstn (length H) l) H /\
    Permutation (flat (elected s1)) (flat pre ++ H).
Proof.
  intros m s s' sts ts pre g post d0 H Ht Hts Hb HH Hincl Hlen Hm Hsep Hrun.
  assert (H1 : (Z.of_nat (length (flat pre)) < m)%Z) by lia.
  assert (H2 : (m < Z.of_nat (length (flat pre) + length g))%Z) by lia.
  rewrite (condo_straddle_run m s ts pre g post d0 Ht Hts H1 H2 Hb) in Hrun.
  destruct (tiebreak_set g (Some p) TBBorda s) as [[t s1]|e] eqn:Htb; [|discriminate].
  cbv zeta in Hrun. replace (Z.to_nat m - length (flat pre))%nat with (length H) in Hrun by lia.
  destruct (remove_cand_prof (flat (pre ++ firstn (length H) t)) true false p) as [np|e]; [|discriminate].
  destruct (borda_scores np) as [d1|e]; [|discriminate]. injection Hrun as <- <-.
  destruct (tier_tiebreak_order ts pre g post d0 s s1 t Ht Hts Hb Htb) as [l [Htl [Hpl Hord]]].
  assert (Hndl : NoDup l).
  { eapply Permutation_NoDup; [apply Permutation_sym; exact Hpl|].
    destruct (rp_tiers _ Ht) as [_ [_ Hnd]]. rewrite Hts, flat_app, flat_cons in Hnd.
    apply Lib_sets.NoDup_app_inv in Hnd. destruct Hnd as [_ [Hnd _]].
    apply Lib_sets.NoDup_app_inv in Hnd. tauto. }
  assert (Htop : Permutation (firstn (length H) l) H).
  { apply top_k_set; [exact Hndl|exact HH| |].
    - intros c Hc. eapply Permutation_in; [apply Permutation_sym; exact Hpl|apply Hincl; exact Hc].
    - intros x a y b z Hl Hbin.
      destruct (in_dec (cand_eq_dec cand ceqb ceqb_spec) a H) as [Ha|Hna]; [exact Ha|exfalso].
      assert (Hag : In a g).
      { eapply Permutation_in; [exact Hpl|]. rewrite Hl. apply in_or_app. right. left. reflexivity. }
      destruct (tier_sub_keys ts pre g post d0 a Ht Hts Hb Hag) as [qa Hqa].
      destruct (tier_sub_keys ts pre g post d0 b Ht Hts Hb (Hincl b Hbin)) as [qb Hqb].
      pose proof (Hord x a y b z qa qb Hl Hqa Hqb) as Hle.
      pose proof (Hsep b a Hbin Hag Hna qb qa Hqb Hqa) as Hlt.
      exact (Qlt_not_le _ _ Hlt Hle). }
  eexists. eexists. exists l. split; [reflexivity|]. cbn [elected remaining tiebreaks].
  rewrite Htl, (firstn_singletons cand), (skipn_singletons cand).
  repeat split; try assumption; try reflexivity.
  rewrite flat_app, flat_singletons. apply Permutation_app_head. exact Htop.
Qed.

(* ---------- 2''. a Borda tie inside the straddling tier needs a draw ---------- *)
Theorem condo_tie_needs_draw : forall m ts pre g post d0 a b qa qb lg0,
  dominating_tiers p = inl ts -> ts = pre ++ g :: post ->
  (Z.of_nat (length (flat pre)) < m)%Z -> (m < Z.of_nat (length (flat pre) + length g))%Z ->
  borda_scores p = inl d0 ->
  In a g -> In b g -> a <> b -> In (a, qa) d0 -> In (b, qb) d0 -> qa == qb ->
  run_condo m p (mkM [] lg0) = inr EScript.
Proof.
  intros m ts pre g post d0 a b qa qb lg0 Ht Hts H1 H2 Hb Ha Hbg Hab Hqa Hqb Heq.
  rewrite (condo_straddle_run m _ ts pre g post d0 Ht Hts H1 H2 Hb).
  rewrite (tiebreak_borda_noscript p d0 g Hb (proj1 Hp) a b qa qb Ha Hbg Hab Hqa Hqb Heq lg0).
  reflexivity.
Qed.

(* ---------- 3. seat range, and every error ---------- *)
Theorem condo_m_range : score_free (ballots p) -> forall m (s : mstate),
  ((m < 1 \/ Z.of_nat (length (cands p)) < m)%Z -> run_condo m p s = inr EValue) /\
  ((1 <= m <= Z.of_nat (length (cands p)))%Z ->
     (exists sts s', run_condo m p s = inl (sts, s')) \/ run_condo m p s = inr EScript).
Proof.
  intros Hsf m s. split; [apply condo_range_error|]. intros Hm.
  destruct rp_borda as [d0 Hb].
  destruct (tied_tiers_top_exists cand ceqb ceqb_spec p Hp) as [T0 [rest0 Ht]].
  destruct (rp_tiers _ Ht) as [Hperm _]. pose proof (Permutation_length Hperm) as Hlen.
  destruct (seat_split (T0 :: rest0) (Z.to_nat m)) as [[pre [rest [Hts Hl]]]|[pre [g [post [Hts [H1 H2]]]]]]; [lia| |].
  - left. destruct (condo_whole_tiers_succeed m s _ pre rest Hsf Ht Hts) as [d0' [np [d1 [_ [_ [_ Hrun]]]]]]; [lia|lia|].
    eexists. eexists. exact Hrun.
  - rewrite (condo_straddle_run m s _ pre g post d0 Ht Hts); [|lia|lia|exact Hb].
    destruct (tiebreak_set g (Some p) TBBorda s) as [[t s']|e] eqn:Htb.
    + left. cbv zeta.
      destruct (rp_after Hsf (flat (pre ++ firstn (Z.to_nat m - length (flat pre)) t))) as [np [d1 [Hnp Hd1]]].
      rewrite Hnp, Hd1. eexists. eexists. reflexivity.
    + right. rewrite (tiebreak_borda_err p d0 g Hb s e Htb). reflexivity.
Qed.

End Run.

(* ------------------------------------------------------------------ *)
(** * ballots of weight zero *)

Lemma pos_filter_sum : forall (f : ballot -> Q) (bs : list ballot),
  (forall x, In x bs -> 0 <= wt x) -> (forall x, wt x == 0 -> f x == 0) ->
  qsum (map f bs) == qsum (map f (positive_ballots bs)).
Proof.
  intros f bs Hnn Hz. induction bs as [|x bs IH]; [reflexivity|].
  assert (IH' : qsum (map f bs) == qsum (map f (positive_ballots bs))).
  { apply IH. intros y Hy. apply Hnn. right. exact Hy. }
  unfold PairwiseTiedSpec.positive_ballots in *. cbn [map filter].
  destruct (Qlt_bool 0 (wt x)) eqn:E.
  - cbn [map]. rewrite !Lib_sets.qsum_cons, IH'. reflexivity.
  - rewrite Lib_sets.qsum_cons, IH'. apply Lib_rk.Qlt_bool_false_iff in E.
    rewrite (Hz x); [ring|]. apply Qle_antisym; [exact E|apply Hnn; left; reflexivity].
Qed.

Lemma spref_share_zero : forall a b (x : ballot), wt x == 0 -> spref_share cand ceqb a b x == 0.
Proof.
  intros a b x Hw. unfold PairwiseTiedSpec.spref_share.
  destruct (above cand ceqb a b (rk x)); [exact Hw|].
  destruct (memb a (flat (rk x)) || memb b (flat (rk x))); [reflexivity|]. rewrite Hw. reflexivity.
Qed.

Lemma tie_share_zero : forall a b (x : ballot), wt x == 0 -> tie_share cand ceqb a b x == 0.
Proof.
  intros a b x Hw. unfold PairwiseTiedSpec.tie_share.
  destruct (together cand ceqb a b (rk x)); [exact Hw|reflexivity].
Qed.

Lemma tied_nonneg : forall p, tied_profile p -> forall x, In x (ballots p) -> 0 <= wt x.
Proof. intros p [_ [Hall _]] x Hx. rewrite Forall_forall in Hall. apply (Hall x Hx). Qed.

(* completions of a ballot that is not of positive weight are not of positive weight *)
Lemma fillF_nonpos : forall cs (x y : ballot), Qlt_bool 0 (wt x) = false ->
  In y (fillF cand ceqb cs x) -> Qlt_bool 0 (wt y) = false.
Proof.
  intros cs x y Hx Hy. unfold C08_pairwise.fillF in Hy.
  destruct (Nat.ltb (length (rk x)) (length cs)).
  - apply in_map_iff in Hy. destruct Hy as [o [<- _]]. cbn [wt Core.plain_ballot].
    apply Lib_rk.Qlt_bool_false_iff in Hx. apply Lib_rk.Qlt_bool_false_iff.
    set (n := Qnat (length (perms cand (missing_singletons cand ceqb cs (rk x))))).
    assert (Hn : 0 < n) by (apply Lib_sets.Qnat_pos, (C06_pairwise.perms_length_pos cand)).
    apply Qle_shift_div_r; [exact Hn|]. rewrite Qmult_0_l. exact Hx.
  - destruct Hy as [<-|[]]. exact Hx.
Qed.

Lemma cast_cands_positive : forall cs (bs : list ballot),
  cast_cands cand ceqb (concat (map (fillF cand ceqb cs) bs)) =
  cast_cands cand ceqb (concat (map (fillF cand ceqb cs) (positive_ballots bs))).
Proof.
  intros cs bs. unfold Core.cast_cands. f_equal.
  induction bs as [|x bs IH]; [reflexivity|].
  unfold PairwiseTiedSpec.positive_ballots in *. cbn [map concat filter].
  destruct (Qlt_bool 0 (wt x)) eqn:E.
  - cbn [map concat]. rewrite !map_app, !concat_app, IH. reflexivity.
  - rewrite map_app, concat_app, IH.
    assert (Hnil : concat (map (fun b : ballot => if Qlt_bool 0 (wt b) then ballot_cands cand b else [])
                               (fillF cand ceqb cs x)) = []).
    { assert (Hall : forall y, In y (fillF cand ceqb cs x) -> Qlt_bool 0 (wt y) = false)
        by (intros y Hy; eapply fillF_nonpos; eassumption).
      induction (fillF cand ceqb cs x) as [|y ys IHy]; [reflexivity|].
      cbn [map concat]. rewrite (Hall y (or_introl eq_refl)). cbn [app]. apply IHy.
      intros z Hz. apply Hall. right. exact Hz. }
    rewrite Hnil. reflexivity.
Qed.

Lemma tiers_of_ext : forall (es es' : list (cand * cand * Q)) (cs : cset),
  (forall a b, edge cand ceqb es a b = edge cand ceqb es' a b) ->
  tiers_of cand ceqb es cs = tiers_of cand ceqb es' cs.
Proof.
  intros es es' cs He. unfold Pairwise.tiers_of.
  assert (Hbs : forall c, beat_size cand ceqb es cs c = beat_size cand ceqb es' cs c).
  { intros c. apply (beat_size_agree cand ceqb ceqb_spec es es' cs cs He (Permutation_refl cs)). }
  rewrite (map_ext _ _ Hbs). apply map_ext. intros k. apply filter_ext. intros c. rewrite Hbs. reflexivity.
Qed.

Section ZeroWeight.
Variables p q : profile.
Hypothesis Hp : tied_profile p.
Hypothesis Hq : tied_profile q.
Hypothesis Hc : cands q = cands p.
Hypothesis Hpos : positive_ballots (ballots q) = positive_ballots (ballots p).

Lemma zw_spref : forall a b, spref_weight (ballots q) a b == spref_weight (ballots p) a b.
Proof.
  intros a b. unfold PairwiseTiedSpec.spref_weight.
  rewrite (pos_filter_sum _ (ballots q) (tied_nonneg q Hq) (spref_share_zero a b)).
  rewrite (pos_filter_sum _ (ballots p) (tied_nonneg p Hp) (spref_share_zero a b)).
  rewrite Hpos. reflexivity.
Qed.

Lemma zw_tie : forall a b, tie_weight (ballots q) a b == tie_weight (ballots p) a b.
Proof.
  intros a b. unfold PairwiseTiedSpec.tie_weight.
  rewrite (pos_filter_sum _ (ballots q) (tied_nonneg q Hq) (tie_share_zero a b)).
  rewrite (pos_filter_sum _ (ballots p) (tied_nonneg p Hp) (tie_share_zero a b)).
  rewrite Hpos. reflexivity.
Qed.

Lemma zw_tiers : dominating_tiers q = dominating_tiers p.
Proof.
  destruct (tied_fill_total cand ceqb p Hp) as [fp Hfp]. destruct (tied_fill_total cand ceqb q Hq) as [fq Hfq].
  rewrite (dt_unfold cand ceqb p fp Hfp), (dt_unfold cand ceqb q fq Hfq). f_equal.
  assert (Hcs : cands fq = cands fp).
  { rewrite (fp_eq cand ceqb p fp Hp Hfp), (fp_eq cand ceqb q fq Hq Hfq). cbn [cands].
    unfold filledT. rewrite (cast_cands_positive (cands q)), (cast_cands_positive (cands p)), Hc, Hpos.
    reflexivity. }
  rewrite Hcs. apply tiers_of_ext. intros a b. rewrite <- Hcs at 1.
  apply eq_true_iff_eq.
  rewrite (tied_edge_iff cand ceqb ceqb_spec q fq Hq Hfq), (tied_edge_iff cand ceqb ceqb_spec p fp Hp Hfp).
  rewrite Hc, (zw_spref a b), (zw_spref b a). reflexivity.
Qed.

Lemma zw_dominating : forall s : mstate, run_dominating q s = run_dominating p s.
Proof.
  intros s. destruct (tied_dominating cand ceqb ceqb_spec p s Hp) as [top [rest [Ht Hr]]].
  destruct (tied_dominating cand ceqb ceqb_spec q s Hq) as [top' [rest' [Ht' Hr']]].
  rewrite Hr, Hr'. rewrite zw_tiers, Ht in Ht'. injection Ht' as <- <-.
  unfold all_tied_state. rewrite Hc. reflexivity.
Qed.

Lemma zw_wsum : forall (f : ballot -> bool) (bs : list ballot), (forall x, In x bs -> 0 <= wt x) ->
  qsum (map wt (filter f bs)) == qsum (map wt (filter f (positive_ballots bs))).
Proof.
  intros f bs Hnn. induction bs as [|x bs IH]; [reflexivity|].
  assert (IH' : qsum (map wt (filter f bs)) == qsum (map wt (filter f (positive_ballots bs)))).
  { apply IH. intros y Hy. apply Hnn. right. exact Hy. }
  unfold PairwiseTiedSpec.positive_ballots in *. cbn [filter].
  destruct (Qlt_bool 0 (wt x)) eqn:E; destruct (f x) eqn:Ef; cbn [filter map]; rewrite ?Ef; cbn [map];
    rewrite ?Lib_sets.qsum_cons, ?IH'; try reflexivity.
  apply Lib_rk.Qlt_bool_false_iff in E.
  assert (Hz : wt x == 0) by (apply Qle_antisym; [exact E|apply Hnn; left; reflexivity]).
  rewrite Hz. ring.
Qed.

Lemma zw_equiv : profile_equiv cand ceqb q p.
Proof.
  split; [|rewrite Hc; apply Permutation_refl].
  intros k. unfold Content.wtof.
  rewrite (zw_wsum _ (ballots q) (tied_nonneg q Hq)), (zw_wsum _ (ballots p) (tied_nonneg p Hp)), Hpos.
  reflexivity.
Qed.

Lemma zw_condo : score_free (ballots p) -> score_free (ballots q) -> forall m (s : mstate),
  mres_equiv_log cand ceqb (Forall2 (state_equiv cand)) (run_condo m q s) (run_condo m p s).
Proof.
  intros Hsp Hsq m s.
  apply (condo_script_anonymous cand ceqb ceqb_spec m q p s).
  - split; [apply Forall_forall; apply (tied_nonneg q Hq)|]. split; [apply (tied_wf cand); exact Hq|exact Hsq].
  - split; [apply Forall_forall; apply (tied_nonneg p Hp)|]. split; [apply (tied_wf cand); exact Hp|exact Hsp].
  - exact zw_equiv.
Qed.

End ZeroWeight.

Theorem zero_weight_irrelevant : forall p q : profile,
  tied_profile p -> tied_profile q -> cands q = cands p ->
  positive_ballots (ballots q) = positive_ballots (ballots p) ->
  (forall a b, spref_weight (ballots q) a b == spref_weight (ballots p) a b /\
               tie_weight (ballots q) a b == tie_weight (ballots p) a b /\
               smargin cand ceqb (ballots q) a b == smargin cand ceqb (ballots p) a b) /\
  dominating_tiers q = dominating_tiers p /\
  (forall s : mstate, run_dominating q s = run_dominating p s) /\
  (score_free (ballots p) -> score_free (ballots q) -> forall m (s : mstate),
     mres_equiv_log cand ceqb (Forall2 (state_equiv cand)) (run_condo m q s) (run_condo m p s)).
Proof.
  intros p q Hp Hq Hc Hpos. split; [|split; [|split]].
  - intros a b. split; [apply zw_spref; assumption|]. split; [apply zw_tie; assumption|].
    unfold PairwiseTiedSpec.smargin. rewrite (zw_spref p q Hp Hq Hpos a b), (zw_spref p q Hp Hq Hpos b a).
    reflexivity.
  - apply zw_tiers; assumption.
  - apply zw_dominating; assumption.
  - apply zw_condo; assumption.
Qed.

(* dropping the weight-zero ballots stays in the domain *)
Lemma drop_zero_tied : forall p, tied_profile p ->
  tied_profile (mkProfile (positive_ballots (ballots p)) (cands p)).
Proof.
  intros p [Hcs [Hall Hex]]. split; [exact Hcs|]. cbn [ballots cands]. split.
  - apply Forall_forall. intros x Hx. unfold PairwiseTiedSpec.positive_ballots in Hx.
    apply filter_In in Hx. rewrite Forall_forall in Hall. apply Hall. apply Hx.
  - apply Exists_exists in Hex. destruct Hex as [x [Hx Hw]]. apply Exists_exists. exists x.
    split; [|exact Hw]. unfold PairwiseTiedSpec.positive_ballots. apply filter_In. split; [exact Hx|].
    apply Lib_rk.Qlt_bool_iff. exact Hw.
Qed.

Lemma positive_idem : forall bs : list ballot, positive_ballots (positive_ballots bs) = positive_ballots bs.
Proof.
  intros bs. unfold PairwiseTiedSpec.positive_ballots. induction bs as [|x bs IH]; [reflexivity|].
  cbn [filter]. destruct (Qlt_bool 0 (wt x)) eqn:E; [cbn [filter]; rewrite E, IH; reflexivity|exact IH].
Qed.

Theorem drop_zero_weight : forall p, tied_profile p ->
  tied_profile (mkProfile (positive_ballots (ballots p)) (cands p)) /\
  cands (mkProfile (positive_ballots (ballots p)) (cands p)) = cands p /\
  positive_ballots (ballots (mkProfile (positive_ballots (ballots p)) (cands p))) =
  positive_ballots (ballots p).
Proof.
  intros p Hp. split; [apply drop_zero_tied; exact Hp|]. split; [reflexivity|].
  cbn [ballots]. apply positive_idem.
Qed.

End Condo.

(* ------------------------------------------------------------------ *)
(** * "boundary separated => no draw" is false: a Borda tie elsewhere in the tier still draws *)
Local Open Scope positive_scope.

Definition UB (l : list positive) (w : Q) : Core.ballot positive :=
  plain_ballot positive (Core.singletons positive l) w.

(* 1 ~ 2 (mirror ballots), 1 and 2 beat 3, candidate 4 ties 1, 2 and 3: one tier {1,2,3,4};
   Borda 12, 12, 6, 10 *)
Definition sep_witness : Core.profile positive :=
  mkProfile [UB [1;2;3;4] 1; UB [2;1;3;4] 1; UB [4;1;2;3] 1; UB [4;2;1;3] 1] [1;2;3;4].

Lemma sep_witness_tied : PairwiseTiedSpec.tied_profile positive sep_witness.
Proof.
  split; [repeat (constructor; [cbn; intuition discriminate|]); constructor|]. split.
  - repeat (constructor; [split; [split; [discriminate|split; [repeat (constructor; [discriminate|]); constructor|
      split; [repeat (constructor; [cbn; intuition discriminate|]); constructor|
              intros x Hx; cbn in Hx |- *; intuition]]]|split; [intros x []|vm_compute; discriminate]]|]).
    constructor.
  - apply Exists_cons_hd. vm_compute. reflexivity.
Qed.

Theorem separated_succeed_refuted :
  exists (p : Core.profile positive) (m : Z) (ts pre : Core.ranking positive) (g : list positive)
         (post : Core.ranking positive) (d0 : Core.scores positive) (H : list positive),
    PairwiseTiedSpec.tied_profile positive p /\ EditSpec.score_free positive (ballots p) /\
    Pairwise.dominating_tiers positive Pos.eqb p = inl ts /\ ts = pre ++ g :: post /\
    Core.borda_scores positive Pos.eqb p = inl d0 /\
    NoDup H /\ incl H g /\ (0 < length H < length g)%nat /\
    Z.of_nat (length H + length (Core.flat positive pre)) = m /\
    (forall a b, In a H -> In b g -> ~ In b H -> PairwiseTiedSpec.score_gt positive d0 a b) /\
    Rules.run_condo positive Pos.eqb m p (mkM [] []) = inr EScript.
Proof.
  exists sep_witness, 2%Z, [[4;2;1;3]], [], [4;2;1;3], [], [(1, 12%Q); (2, 12%Q); (3, 6%Q); (4, 10%Q)], [1;2].
  split; [exact sep_witness_tied|]. split; [repeat constructor|].
  split; [vm_compute; reflexivity|]. split; [reflexivity|].
  split; [vm_compute; reflexivity|].
  split; [repeat (constructor; [cbn; intuition discriminate|]); constructor|].
  split; [intros x Hx; cbn in Hx |- *; intuition|].
  split; [cbn; lia|]. split; [reflexivity|]. split.
  - intros a b Ha Hb Hn q q' Hq Hq'. cbn in Ha, Hb.
    assert (Hb' : b = 3 \/ b = 4).
    { destruct Hb as [<-|[<-|[<-|[<-|[]]]]]; [right; reflexivity|exfalso; apply Hn; cbn; tauto|exfalso; apply Hn; cbn; tauto|left; reflexivity]. }
    assert (Hqv : q == 12).
    { destruct Ha as [<-|[<-|[]]]; cbn in Hq;
        repeat (destruct Hq as [Hq|Hq]; [inversion Hq; subst; try reflexivity; try discriminate|]); destruct Hq. }
    assert (Hq'v : q' == 6 \/ q' == 10).
    { destruct Hb' as [-> | ->]; cbn in Hq';
        repeat (destruct Hq' as [Hq'|Hq']; [inversion Hq'; subst; try (left; reflexivity); try (right; reflexivity); try discriminate|]); destruct Hq'. }
    rewrite Hqv. destruct Hq'v as [-> | ->]; reflexivity.
  - vm_compute. reflexivity.
Qed.
