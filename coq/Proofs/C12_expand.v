(* Proofs/C12_expand.v — C12, tie expansion: insert_all, perms, expand_ranking, tie_divisor,
   expand_tied_ballot, resolve_profile_ties. *)
From VK Require Import Base Core EditSpec Lib_rk Lib_condense12.
From Coq Require Import Permutation Lia Lqa Setoid Morphisms.

(* ---------- generic list facts ---------- *)

Lemma NoDup_app_intro : forall (A : Type) (l1 l2 : list A),
  NoDup l1 -> NoDup l2 -> (forall x, In x l1 -> ~ In x l2) -> NoDup (l1 ++ l2).
Proof.
  intros A l1 l2 H1 H2 Hd. induction H1 as [|a l1 Ha _ IH]; cbn [app].
  - exact H2.
  - constructor.
    + intros Hin. apply in_app_or in Hin. destruct Hin as [Hin|Hin]; [contradiction|].
      apply (Hd a (or_introl eq_refl)). exact Hin.
    + apply IH. intros x Hx. apply Hd. right. exact Hx.
Qed.

Lemma NoDup_app_inv : forall (A : Type) (l1 l2 : list A),
  NoDup (l1 ++ l2) -> NoDup l1 /\ NoDup l2.
Proof.
  intros A l1 l2. induction l1 as [|a l1 IH]; cbn [app]; intros H.
  - split; [constructor|exact H].
  - inversion H as [|x l Ha Hrest]; subst. destruct (IH Hrest) as [H1 H2]. split; [|exact H2].
    constructor; [|exact H1]. intros Hin. apply Ha. apply in_or_app. left. exact Hin.
Qed.

Lemma NoDup_map_inj : forall (A B : Type) (f : A -> B) (l : list A),
  (forall a b, In a l -> In b l -> f a = f b -> a = b) -> NoDup l -> NoDup (map f l).
Proof.
  intros A B f l Hinj H. induction H as [|a l Ha _ IH]; cbn [map].
  - constructor.
  - constructor.
    + intros Hin. apply in_map_iff in Hin. destruct Hin as (b & Hfb & Hb).
      assert (b = a) by (apply Hinj; [right; exact Hb|left; reflexivity|exact Hfb]).
      subst. contradiction.
    + apply IH. intros x y Hx Hy. apply Hinj; right; assumption.
Qed.

Lemma NoDup_concat_map : forall (A B : Type) (f : A -> list B) (l : list A),
  NoDup l -> (forall a, In a l -> NoDup (f a)) ->
  (forall a a' b, In a l -> In a' l -> In b (f a) -> In b (f a') -> a = a') ->
  NoDup (concat (map f l)).
Proof.
  intros A B f l H. induction H as [|a l Ha _ IH]; intros Hnd Hdisj; cbn [map concat].
  - constructor.
  - apply NoDup_app_intro.
    + apply Hnd. left. reflexivity.
    + apply IH.
      * intros x Hx. apply Hnd. right. exact Hx.
      * intros x y b Hx Hy. apply Hdisj; right; assumption.
    + intros b Hb Hin. apply in_concat in Hin. destruct Hin as (lb & Hlb & Hbl).
      apply in_map_iff in Hlb. destruct Hlb as (a' & <- & Ha').
      assert (a = a') by (apply (Hdisj a a' b); [left; reflexivity|right; exact Ha'|exact Hb|exact Hbl]).
      subst. contradiction.
Qed.

Lemma length_concat_const : forall (A : Type) (k : nat) (L : list (list A)),
  (forall y, In y L -> length y = k) -> length (concat L) = (length L * k)%nat.
Proof.
  intros A k L. induction L as [|y L IH]; intros H; cbn [concat length].
  - reflexivity.
  - rewrite app_length, (H y (or_introl eq_refl)), IH; [lia|].
    intros z Hz. apply H. right. exact Hz.
Qed.

Lemma app_cons_uniq : forall (A : Type) (x : A) (l1 l1' l2 l2' : list A),
  ~ In x l1 -> ~ In x l1' -> l1 ++ x :: l2 = l1' ++ x :: l2' -> l1 = l1' /\ l2 = l2'.
Proof.
  intros A x l1. induction l1 as [|a l1 IH]; intros [|a' l1'] l2 l2' H1 H1' E; cbn [app] in E.
  - injection E as <-. split; reflexivity.
  - injection E as <- _. contradiction H1'. left. reflexivity.
  - injection E as -> _. contradiction H1. left. reflexivity.
  - injection E as <- E.
    destruct (IH l1' l2 l2') as [-> ->]; [| |exact E|split; reflexivity].
    + intros H. apply H1. right. exact H.
    + intros H. apply H1'. right. exact H.
Qed.

Lemma app_eq_length_inv : forall (A : Type) (a a' b b' : list A),
  length a = length a' -> a ++ b = a' ++ b' -> a = a' /\ b = b'.
Proof.
  intros A a. induction a as [|x a IH]; intros [|x' a'] b b' Hl E; cbn in Hl; try discriminate.
  - split; [reflexivity|exact E].
  - cbn [app] in E. injection E as <- E. injection Hl as Hl.
    destruct (IH a' b b' Hl E) as [-> ->]. split; reflexivity.
Qed.

Lemma fact_pos : forall n, (0 < fact n)%nat.
Proof. induction n as [|n IH]; cbn [fact]; lia. Qed.

Section WithCand.
Variable cand : Type.
Variable ceqb : cand -> cand -> bool.
Hypothesis ceqb_spec : forall a b, reflect (a = b) (ceqb a b).

Notation ranking := (ranking cand).
Notation ballot := (ballot cand).
Notation profile := (profile cand).
Notation ranking_eqb := (ranking_eqb cand ceqb).
Notation flat := (flat cand).
Notation insert_all := (insert_all cand).
Notation perms := (perms cand).
Notation singletons := (singletons cand).
Notation expand_ranking := (expand_ranking cand).
Notation tie_divisor := (tie_divisor cand).
Notation expand_tied_ballot := (expand_tied_ballot cand).
Notation resolve_profile_ties := (resolve_profile_ties cand ceqb).
Notation condense_bs := (condense_bs cand ceqb).
Notation total_wt := (total_wt cand).
Notation wtof_rk := (wtof_rk cand ceqb).
Notation score_free := (score_free cand).
Notation linear_refinement := (linear_refinement cand).

(* ====================== insert_all ====================== *)

Lemma insert_all_spec : forall x l p,
  In p (insert_all x l) <-> exists l1 l2, l = l1 ++ l2 /\ p = l1 ++ x :: l2.
Proof.
  intros x l. induction l as [|y l IH]; intros p; cbn [Core.insert_all].
  - split.
    + intros [<-|[]]. exists [], []. split; reflexivity.
    + intros (l1 & l2 & E & ->). symmetry in E. apply app_eq_nil in E. destruct E as [-> ->].
      left. reflexivity.
  - split.
    + intros [<-|H].
      * exists [], (y :: l). split; reflexivity.
      * apply in_map_iff in H. destruct H as (q & <- & Hq). apply IH in Hq.
        destruct Hq as (l1 & l2 & -> & ->). exists (y :: l1), l2. split; reflexivity.
    + intros (l1 & l2 & E & ->). destruct l1 as [|y' l1]; cbn [app] in *.
      * left. rewrite E. reflexivity.
      * injection E as <- E. right. apply in_map. apply IH. exists l1, l2. split; [exact E|reflexivity].
Qed.

Lemma insert_all_perm : forall x l p, In p (insert_all x l) -> Permutation p (x :: l).
Proof.
  intros x l p H. apply insert_all_spec in H. destruct H as (l1 & l2 & -> & ->).
  apply Permutation_sym. apply Permutation_middle.
Qed.

Lemma insert_all_length : forall x l, length (insert_all x l) = S (length l).
Proof.
  intros x l. induction l as [|y l IH]; cbn [Core.insert_all length]; [reflexivity|].
  rewrite map_length, IH. reflexivity.
Qed.

Lemma insert_all_NoDup : forall x l, ~ In x l -> NoDup (insert_all x l).
Proof.
  intros x l. induction l as [|y l IH]; intros Hx; cbn [Core.insert_all].
  - constructor; [intros []|constructor].
  - constructor.
    + intros Hin. apply in_map_iff in Hin. destruct Hin as (q & E & _). injection E as E _.
      apply Hx. left. exact E.
    + apply NoDup_map_inj.
      * intros a b _ _ E. injection E as E. exact E.
      * apply IH. intros H. apply Hx. right. exact H.
Qed.

Lemma insert_all_disjoint : forall x q q' p, ~ In x q -> ~ In x q' ->
  In p (insert_all x q) -> In p (insert_all x q') -> q = q'.
Proof.
  intros x q q' p Hq Hq' H H'. apply insert_all_spec in H, H'.
  destruct H as (l1 & l2 & -> & ->). destruct H' as (l1' & l2' & -> & E).
  apply app_cons_uniq in E.
  - destruct E as [-> ->]. reflexivity.
  - intros Hin. apply Hq. apply in_or_app. left. exact Hin.
  - intros Hin. apply Hq'. apply in_or_app. left. exact Hin.
Qed.

(* ====================== perms ====================== *)

Theorem perms_spec : forall l p, In p (perms l) <-> Permutation p l.
Proof.
  induction l as [|x l IH]; intros p; cbn [Core.perms].
  - split.
    + intros [<-|[]]. constructor.
    + intros H. apply Permutation_sym, Permutation_nil in H. left. symmetry. exact H.
  - rewrite in_concat. split.
    + intros (lp & Hlp & Hp). apply in_map_iff in Hlp. destruct Hlp as (q & <- & Hq).
      apply IH in Hq. apply insert_all_perm in Hp.
      eapply Permutation_trans; [exact Hp|]. apply perm_skip. exact Hq.
    + intros H.
      assert (Hin : In x p) by (eapply Permutation_in; [apply Permutation_sym; exact H|left; reflexivity]).
      apply in_split in Hin. destruct Hin as (l1 & l2 & ->).
      apply Permutation_sym, Permutation_cons_app_inv, Permutation_sym in H.
      exists (insert_all x (l1 ++ l2)). split.
      * apply in_map. apply IH. exact H.
      * apply insert_all_spec. exists l1, l2. split; reflexivity.
Qed.

Theorem perms_length : forall l, length (perms l) = fact (length l).
Proof.
  induction l as [|x l IH]; cbn [Core.perms length fact]; [reflexivity|].
  rewrite (length_concat_const _ (S (length l))).
  - rewrite map_length, IH. lia.
  - intros y Hy. apply in_map_iff in Hy. destruct Hy as (q & <- & Hq).
    rewrite insert_all_length. f_equal. apply Permutation_length. apply perms_spec. exact Hq.
Qed.

Theorem perms_NoDup : forall l, NoDup l -> NoDup (perms l).
Proof.
  intros l H. induction H as [|x l Hx _ IH]; cbn [Core.perms].
  - constructor; [intros []|constructor].
  - assert (Hnot : forall q, In q (perms l) -> ~ In x q).
    { intros q Hq Hin. apply perms_spec in Hq. apply Hx. eapply Permutation_in; eassumption. }
    apply NoDup_concat_map.
    + exact IH.
    + intros q Hq. apply insert_all_NoDup. apply Hnot. exact Hq.
    + intros q q' p Hq Hq' Hp Hp'. apply (insert_all_disjoint x q q' p); auto.
Qed.

Lemma perms_single : forall c, perms [c] = [[c]].
Proof. reflexivity. Qed.

(* ====================== expand_ranking ====================== *)

Lemma singletons_app : forall a b, singletons (a ++ b) = singletons a ++ singletons b.
Proof. intros a b. unfold Core.singletons. apply map_app. Qed.

Lemma singletons_inj : forall a b, singletons a = singletons b -> a = b.
Proof.
  induction a as [|x a IH]; intros [|y b] E; cbn in E; try discriminate; [reflexivity|].
  injection E as <- E. f_equal. apply IH. exact E.
Qed.

Lemma singletons_length : forall a, length (singletons a) = length a.
Proof. intros a. unfold Core.singletons. apply map_length. Qed.

Lemma expand_ranking_cons : forall s r l,
  In l (expand_ranking (s :: r)) <->
  exists o t, In o (perms s) /\ In t (expand_ranking r) /\ l = singletons o ++ t.
Proof.
  intros s r l. cbn [Core.expand_ranking]. rewrite in_concat. split.
  - intros (L & HL & Hl). apply in_map_iff in HL. destruct HL as (o & <- & Ho).
    apply in_map_iff in Hl. destruct Hl as (t & <- & Ht). exists o, t. repeat split; assumption.
  - intros (o & t & Ho & Ht & ->).
    exists (map (fun t0 => singletons o ++ t0) (expand_ranking r)). split.
    + apply in_map_iff. exists o. split; [reflexivity|exact Ho].
    + apply in_map. exact Ht.
Qed.

Theorem expand_ranking_spec : forall r l, In l (expand_ranking r) <-> linear_refinement r l.
Proof.
  unfold EditSpec.linear_refinement.
  induction r as [|s r IH]; intros l.
  - cbn [Core.expand_ranking]. split.
    + intros [<-|[]]. exists []. split; [constructor|reflexivity].
    + intros (segs & H & ->). inversion H; subst. left. reflexivity.
  - rewrite expand_ranking_cons. split.
    + intros (o & t & Ho & Ht & ->). apply IH in Ht. destruct Ht as (segs & Hsegs & ->).
      exists (o :: segs). split.
      * constructor; [apply Permutation_sym; apply perms_spec; exact Ho|exact Hsegs].
      * cbn [concat]. rewrite singletons_app. reflexivity.
    + intros (segs & H & ->). inversion H as [|g seg r' segs' Hp Hrest]; subst.
      exists seg, (singletons (concat segs')). split; [|split].
      * apply perms_spec. apply Permutation_sym. exact Hp.
      * apply IH. exists segs'. split; [exact Hrest|reflexivity].
      * cbn [concat]. apply singletons_app.
Qed.

Lemma flat_singletons : forall x, flat (singletons x) = x.
Proof.
  induction x as [|a x IH]; [reflexivity|]. unfold Core.flat, Core.singletons in *.
  cbn [map concat app]. rewrite IH. reflexivity.
Qed.

(* a linear refinement is a strict order on exactly the candidates of r *)
Theorem linear_refinement_props : forall r l, linear_refinement r l ->
  Forall (fun g => length g = 1%nat) l /\ Permutation (flat r) (flat l).
Proof.
  intros r l (segs & H & ->). split.
  - apply Forall_forall. intros g Hg. unfold Core.singletons in Hg. apply in_map_iff in Hg.
    destruct Hg as (x & <- & _). reflexivity.
  - rewrite flat_singletons. unfold Core.flat.
    induction H as [|g seg r segs Hp _ IH]; cbn [concat]; [constructor|].
    apply Permutation_app; assumption.
Qed.

Theorem expand_ranking_length : forall r, length (expand_ranking r) = tie_divisor r.
Proof.
  induction r as [|s r IH]; cbn [Core.expand_ranking Core.tie_divisor]; [reflexivity|].
  rewrite (length_concat_const _ (length (expand_ranking r))).
  - rewrite map_length, perms_length, IH. reflexivity.
  - intros y Hy. apply in_map_iff in Hy. destruct Hy as (o & <- & _). apply map_length.
Qed.

Theorem expand_ranking_NoDup : forall r, NoDup (flat r) -> NoDup (expand_ranking r).
Proof.
  induction r as [|s r IH]; intros H.
  - cbn. constructor; [intros []|constructor].
  - unfold Core.flat in H. cbn [concat] in H.
    apply NoDup_app_inv in H. destruct H as [Hs Hr]. fold (flat r) in Hr.
    cbn [Core.expand_ranking]. apply NoDup_concat_map.
    + apply perms_NoDup. exact Hs.
    + intros o _. apply NoDup_map_inj; [|apply IH; exact Hr].
      intros a b _ _ E. apply app_inv_head in E. exact E.
    + intros o o' l Ho Ho' Hl Hl'.
      apply in_map_iff in Hl, Hl'. destruct Hl as (t & <- & _). destruct Hl' as (t' & E & _).
      apply perms_spec in Ho, Ho'.
      apply app_eq_length_inv in E.
      * destruct E as [E _]. apply singletons_inj in E. symmetry. exact E.
      * rewrite !singletons_length. rewrite (Permutation_length Ho), (Permutation_length Ho').
        reflexivity.
Qed.

Lemma tie_divisor_pos : forall r, (0 < tie_divisor r)%nat.
Proof.
  induction r as [|s r IH]; cbn [Core.tie_divisor]; [lia|].
  pose proof (fact_pos (length s)). nia.
Qed.

(* an untied ranking has exactly one refinement: itself *)
Lemma expand_ranking_untied : forall r,
  forallb (fun s => Nat.eqb (length s) 1) r = true ->
  expand_ranking r = [r] /\ tie_divisor r = 1%nat.
Proof.
  induction r as [|s r IH]; intros H.
  - split; reflexivity.
  - cbn [forallb] in H. apply andb_true_iff in H. destruct H as [Hs Hr].
    destruct (IH Hr) as [E1 E2]. apply Nat.eqb_eq in Hs.
    destruct s as [|c [|c' s]]; cbn in Hs; try discriminate.
    cbn [Core.expand_ranking Core.tie_divisor]. rewrite E1, E2, perms_single. split; reflexivity.
Qed.

(* ====================== expand_tied_ballot ====================== *)

Lemma Qnat_pos : forall n, (0 < n)%nat -> 0 < Qnat n.
Proof.
  intros n H. unfold Qnat. change 0 with (inject_Z 0). rewrite <- Zlt_Qlt. lia.
Qed.

Lemma qsum_const_eq : forall (q : Q) (l : list ballot),
  Forall (fun b => wt b == q) l -> total_wt l == Qnat (length l) * q.
Proof.
  intros q l H. unfold Core.total_wt. rewrite <- qsum_map_const.
  apply qsum_map_ext_eq. intros b Hb. rewrite Forall_forall in H. apply H. exact Hb.
Qed.

Theorem expand_tied_ballot_ok : forall b out,
  expand_tied_ballot b = inl out ->
  rk b <> [] /\
  map rk out = expand_ranking (rk b) /\
  Forall (fun b' => wt b' == wt b / Qnat (tie_divisor (rk b)) /\
                    bid b' = bid b /\ vs b' = vs b /\ (sc b = [] -> sc b' = [])) out /\
  total_wt out == wt b.
Proof.
  intros b out. unfold Core.expand_tied_ballot.
  destruct (rk b) as [|g r] eqn:Erk; [discriminate|].
  destruct (forallb (fun s => Nat.eqb (length s) 1) (g :: r)) eqn:Eu; unfold ok; intros H;
    apply (f_equal (fun x : res (list ballot) => match x with inl a => a | inr _ => [] end)) in H;
    cbv beta iota in H; subst out.
  - destruct (expand_ranking_untied _ Eu) as [E1 E2]. split; [discriminate|].
    split; [cbn [map]; rewrite Erk, E1; reflexivity|]. split.
    + constructor; [|constructor]. rewrite E2. split; [|repeat split; auto].
      change (Qnat 1) with 1. field.
    + unfold Core.total_wt. cbn [map]. rewrite qsum_cons, qsum_nil. lra.
  - split; [discriminate|]. split.
    + rewrite map_map. cbn [rk]. apply map_id.
    + assert (HF : Forall (fun b' : ballot => wt b' == wt b / Qnat (tie_divisor (g :: r)) /\
                    bid b' = bid b /\ vs b' = vs b /\ (sc b = [] -> sc b' = []))
                 (map (fun r' => mkBallot r' (wt b / Qnat (tie_divisor (g :: r))) [] (bid b) (vs b))
                      (expand_ranking (g :: r)))).
      { apply Forall_forall. intros b' Hb'. apply in_map_iff in Hb'. destruct Hb' as (r' & <- & _).
        cbn [wt bid vs sc]. repeat split; reflexivity. }
      split; [exact HF|].
      rewrite (qsum_const_eq (wt b / Qnat (tie_divisor (g :: r)))).
      * rewrite map_length, expand_ranking_length.
        pose proof (Qnat_pos _ (tie_divisor_pos (g :: r))) as Hp. field. lra.
      * eapply Forall_impl; [|exact HF]. intros a Ha. apply Ha.
Qed.

Theorem expand_tied_ballot_err : forall b e,
  expand_tied_ballot b = inr e <-> (rk b = [] /\ e = EType).
Proof.
  intros b e. unfold Core.expand_tied_ballot. destruct (rk b) as [|g r].
  - split; [intros H; injection H as <-; split; reflexivity|intros [_ ->]; reflexivity].
  - destruct (forallb _ _); (split; [discriminate|intros [H _]; discriminate]).
Qed.

(* weight carried by a ranking inside one expansion *)
Lemma wtof_rk_uniform : forall l q (e : list ballot),
  Forall (fun b => wt b == q) e ->
  wtof_rk l e == q * Qnat (length (filter (ranking_eqb l) (map rk e))).
Proof.
  intros l q e H. induction H as [|b e Hb _ IH].
  - rewrite wtof_rk_nil. cbn [map filter length]. change (Qnat 0) with 0. lra.
  - rewrite wtof_rk_cons, IH. cbn [map filter].
    destruct (ranking_eqb l (rk b)); cbn [length].
    + unfold Qnat. rewrite Nat2Z.inj_succ. unfold Z.succ. rewrite inject_Z_plus, Hb.
      change (inject_Z 1) with 1. ring.
    + lra.
Qed.

(* ====================== resolve_profile_ties ====================== *)

Lemma expand_all_props : forall l (bs : list ballot) bss,
  Forall2 (fun b e => expand_tied_ballot b = inl e) bs bss ->
  total_wt (concat bss) == total_wt bs /\
  (score_free bs -> score_free (concat bss)) /\
  wtof_rk l (concat bss) ==
    qsum (map (fun b => wt b / Qnat (tie_divisor (rk b)) *
                        Qnat (length (filter (ranking_eqb l) (expand_ranking (rk b))))) bs).
Proof.
  intros l bs bss H. induction H as [|b e bs bss Hbe _ IH].
  - split; [reflexivity|]. split; [intros _; constructor|reflexivity].
  - destruct IH as (IH1 & IH2 & IH3).
    apply expand_tied_ballot_ok in Hbe. destruct Hbe as (_ & Hrk & HF & Ht).
    cbn [concat map]. split; [|split].
    + rewrite total_wt_app, total_wt_cons, Ht, IH1. reflexivity.
    + intros Hsf. unfold EditSpec.score_free in *. inversion Hsf as [|x y Hb Hrest]; subst.
      apply Forall_app. split; [|apply IH2; exact Hrest].
      eapply Forall_impl; [|exact HF]. intros a Ha. apply Ha. exact Hb.
    + rewrite wtof_rk_app, qsum_cons, IH3.
      rewrite (wtof_rk_uniform l (wt b / Qnat (tie_divisor (rk b))) e).
      * rewrite Hrk. reflexivity.
      * eapply Forall_impl; [|exact HF]. intros a Ha. apply Ha.
Qed.

(* the candidate list of the result: the profile's own list (which must be duplicate-free), the
   candidates cast on the positive-weight expanded ballots only when that list is empty *)
Theorem resolve_ok : forall (p p' : profile),
  resolve_profile_ties p = inl p' ->
  exists bss,
    Forall2 (fun b e => expand_tied_ballot b = inl e) (ballots p) bss /\
    ballots p' = condense_bs (concat bss) /\
    cands p' = match cands p with [] => cast_cands cand ceqb (concat bss) | _ => cands p end /\
    total_wt (ballots p') == total_wt (ballots p) /\
    (score_free (ballots p) -> forall l,
       wtof_rk l (ballots p') ==
       qsum (map (fun b => wt b / Qnat (tie_divisor (rk b)) *
                           Qnat (length (filter (ranking_eqb l) (expand_ranking (rk b)))))
                 (ballots p))).
Proof.
  intros p p'. unfold Core.resolve_profile_ties, rbind.
  destruct (rmap expand_tied_ballot (ballots p)) as [bss|e] eqn:E; [|discriminate].
  unfold mk_profile. destruct (has_dup cand ceqb (cands p)); [discriminate|].
  unfold ok, condense. cbn [ballots cands].
  intros H. injection H as <-. cbn [ballots cands].
  apply rmap_ok_inv in E. exists bss. split; [exact E|]. split; [reflexivity|].
  split; [reflexivity|]. split.
  - rewrite condense_total. destruct (expand_all_props [] _ _ E) as (Ht & _). exact Ht.
  - intros Hsf l. destruct (expand_all_props l _ _ E) as (_ & Hs & Hw).
    rewrite (condense_wtof cand ceqb ceqb_spec l _ (Hs Hsf)). exact Hw.
Qed.

(* a successful call: the given candidate list is duplicate-free, and so is the returned one *)
Theorem resolve_cands_NoDup : forall (p p' : profile),
  resolve_profile_ties p = inl p' -> NoDup (cands p) /\ NoDup (cands p').
Proof.
  intros p p' H.
  assert (Hnd : NoDup (cands p)).
  { unfold Core.resolve_profile_ties, rbind in H.
    destruct (rmap expand_tied_ballot (ballots p)) as [bss|e]; [|discriminate].
    unfold mk_profile in H. destruct (has_dup cand ceqb (cands p)) eqn:Ed; [discriminate|].
    apply (has_dup_false_iff cand ceqb ceqb_spec). exact Ed. }
  split; [exact Hnd|].
  destruct (resolve_ok p p' H) as (bss & _ & _ & Hc & _). rewrite Hc.
  destruct (cands p) as [|x cs] eqn:Ec; [|exact Hnd].
  unfold Core.cast_cands. apply (dedup_NoDup cand ceqb ceqb_spec).
Qed.

(* a non-empty candidate list is kept as it is (same candidates, same order) *)
Theorem resolve_keeps_candidates : forall (p p' : profile),
  resolve_profile_ties p = inl p' -> cands p <> [] -> cands p' = cands p.
Proof.
  intros p p' H Hne. destruct (resolve_ok p p' H) as (bss & _ & _ & Hc & _). rewrite Hc.
  destruct (cands p) as [|x cs]; [contradiction Hne; reflexivity|reflexivity].
Qed.

(* two ways to fail: a ballot without ranking (TypeError, raised first), or -- model level only, a
   Python profile cannot hold a candidate twice -- a candidate list with a repeated name *)
Theorem resolve_error : forall (p : profile) e,
  resolve_profile_ties p = inr e <->
  (e = EType /\ exists b, In b (ballots p) /\ rk b = []) \/
  (e = EValue /\ (forall b, In b (ballots p) -> rk b <> []) /\ ~ NoDup (cands p)).
Proof.
  intros p e. unfold Core.resolve_profile_ties, rbind.
  destruct (rmap expand_tied_ballot (ballots p)) as [bss|e'] eqn:E.
  - apply rmap_ok_inv in E.
    assert (Hne : forall b, In b (ballots p) -> rk b <> []).
    { clear -E. induction E as [|x y l l' Hxy _ IH]; intros b Hb; [destruct Hb|].
      destruct Hb as [<-|Hb]; [|apply IH; exact Hb].
      apply expand_tied_ballot_ok in Hxy. exact (proj1 Hxy). }
    unfold mk_profile. destruct (has_dup cand ceqb (cands p)) eqn:Ed; unfold ok, err.
    + assert (Ed' : ~ NoDup (cands p)).
      { intros Hn. apply (has_dup_false_iff cand ceqb ceqb_spec) in Hn. congruence. }
      clear Ed. rename Ed' into Ed. split.
      * intros H. injection H as <-. right. split; [reflexivity|]. split; [exact Hne|exact Ed].
      * intros [[_ (b & Hb & Hr)]|[-> _]]; [exfalso; exact (Hne b Hb Hr)|reflexivity].
    + apply (has_dup_false_iff cand ceqb ceqb_spec) in Ed. split; [discriminate|].
      intros [[_ (b & Hb & Hr)]|[_ [_ Hd]]]; exfalso; [exact (Hne b Hb Hr)|exact (Hd Ed)].
  - apply rmap_err_inv in E. destruct E as (l1 & b & l2 & Hl & Hb & _).
    apply expand_tied_ballot_err in Hb. destruct Hb as [Hr ->].
    assert (Hin : In b (ballots p)) by (rewrite Hl; apply in_or_app; right; left; reflexivity).
    split.
    + intros H. injection H as <-. left. split; [reflexivity|]. exists b. split; [exact Hin|exact Hr].
    + intros [[-> _]|[_ [Hne _]]]; [reflexivity|exfalso; exact (Hne b Hin Hr)].
Qed.

End WithCand.
