(* Proofs/C15_compose.v — C15, the closed-form tables composed with the construction of their
   arguments: the name-Bradley-Terry table starting from the USER's supports (through mk_interval)
   and from per-slate supports and a cohesion row (through combine_intervals); the keys of the
   slate-Bradley-Terry table for any sizes and the sizes read off intervals built from supports;
   the one-bloc case of slate_BradleyTerry.__init__.
   Statements are collected in Properties/C15_compose.v. *)
From VK Require Import Base Core GenValidation PrefInterval Generators.
From VK.Spec Require Import BTSpec GenSpec.
From VK.Proofs Require Import Lib_rk Lib_sets C12_expand C15_interval C15_bt C15_slate C15_blocs C14_gen2 C20_blocs.
From VK Require Dispatch.
From Coq Require Import Permutation Lia Lqa Setoid Morphisms.

(* ------------------------------------------------------------------ *)
(** * 1. Bradley-Terry weights do not depend on the scale of the supports *)

Lemma frac_scale : forall k a b, ~ k == 0 -> (k * a) / (k * a + k * b) == a / (a + b).
Proof.
  intros k a b Hk. destruct (Qeq_dec (a + b) 0) as [E|E].
  - assert (E' : k * a + k * b == 0).
    { setoid_replace (k * a + k * b) with (k * (a + b)) by ring. rewrite E. ring. }
    unfold Qdiv. rewrite E, E'. change (/ 0) with 0. ring.
  - assert (E' : ~ k * a + k * b == 0).
    { intros H. apply E. setoid_replace (k * a + k * b) with (k * (a + b)) in H by ring.
      apply Qmult_integral in H. destruct H as [H|H]; [contradiction|exact H]. }
    field. split; assumption.
Qed.

Lemma Pfrac_scale : forall k x l, ~ k == 0 -> Pfrac (k * x) (map (Qmult k) l) == Pfrac x l.
Proof.
  intros k x l Hk. induction l as [|y l IH]; cbn [map Pfrac]; [reflexivity|].
  rewrite (frac_scale k x y Hk), IH. reflexivity.
Qed.

Lemma cp_scale : forall k l, ~ k == 0 -> cp (map (Qmult k) l) == cp l.
Proof.
  intros k l Hk. induction l as [|x l IH]; cbn [map cp]; [reflexivity|].
  rewrite (Pfrac_scale k x l Hk), IH. reflexivity.
Qed.

Lemma Pfrac_ext : forall x x' l l', x == x' -> Forall2 Qeq l l' -> Pfrac x l == Pfrac x' l'.
Proof.
  intros x x' l l' Hx H. induction H as [|y y' l l' Hy _ IH]; cbn [Pfrac]; [reflexivity|].
  rewrite IH, Hx, Hy. reflexivity.
Qed.

Lemma cp_ext : forall l l', Forall2 Qeq l l' -> cp l == cp l'.
Proof.
  intros l l' H. induction H as [|x x' l l' Hx Hl IH]; cbn [cp]; [reflexivity|].
  rewrite IH, (Pfrac_ext x x' l l' Hx Hl). reflexivity.
Qed.

Lemma Forall2_map_in : forall (A : Type) (f g : A -> Q) (l : list A),
  (forall a, In a l -> f a == g a) -> Forall2 Qeq (map f l) (map g l).
Proof.
  intros A f g l. induction l as [|a l IH]; intros H; cbn [map]; constructor.
  - apply H. left. reflexivity.
  - apply IH. intros a' Ha'. apply H. right. exact Ha'.
Qed.

(* supports that agree (up to ==) on the candidates of the ranking give the same weight *)
Lemma bt_weight_ext : forall (x y : pcand -> Q) r,
  (forall c, In c r -> y c == x c) -> bt_weight y r == bt_weight x r.
Proof.
  intros x y r H. rewrite !bt_weight_cp. apply cp_ext. apply Forall2_map_in. exact H.
Qed.

Lemma bt_weight_scale_gen : forall (x y : pcand -> Q) (k : Q) r,
  ~ k == 0 -> (forall c, In c r -> y c == k * x c) -> bt_weight y r == bt_weight x r.
Proof.
  intros x y k r Hk H. rewrite !bt_weight_cp.
  rewrite <- (cp_scale k (map x r) Hk). apply cp_ext. rewrite map_map.
  apply Forall2_map_in. exact H.
Qed.

(* every ranking, any supports (no sign condition), any non-zero factor *)
Theorem bt_weight_scale : forall (x : pcand -> Q) (k : Q) r,
  ~ k == 0 -> bt_weight (fun c => k * x c) r == bt_weight x r.
Proof.
  intros x k r Hk. apply (bt_weight_scale_gen x _ k r Hk). intros c _. reflexivity.
Qed.

(* ------------------------------------------------------------------ *)
(** * 2. The table of a dictionary that is a multiple of the supports [x] *)

Lemma enumerates_transport : forall (A : Type) (L : list (list A)) l l',
  Permutation l l' -> enumerates L l -> enumerates L l'.
Proof.
  intros A L l l' HP [H1 H2]. split; [exact H1|]. intros t. rewrite H2. split; intros H.
  - apply (Permutation_trans H HP).
  - apply (Permutation_trans H (Permutation_sym HP)).
Qed.

Lemma bt_pdf_scaled : forall (d : list (pcand * Q)) (x : pcand -> Q) (k : Q)
    (pos : list pcand) (all : list (list pcand)),
  NoDup (map fst d) -> (forall c s, In (c, s) d -> 0 < s) ->
  ~ k == 0 -> (forall c s, In (c, s) d -> s == k * x c) ->
  NoDup pos -> (forall c, In c pos <-> In c (map fst d)) ->
  enumerates all pos ->
  (forall r, In r (map fst (bt_pdf d)) <-> Permutation r pos) /\
  NoDup (map fst (bt_pdf d)) /\
  qsum (map snd (bt_pdf d)) == 1 /\
  (forall r v, In (r, v) (bt_pdf d) ->
     0 < v /\ v == bt_weight x r / qsum (map (bt_weight x) all)).
Proof.
  intros d x k pos all Hnd Hpos Hk Hx Hndp Hin Hall.
  assert (HP : Permutation pos (map fst d)) by (apply NoDup_Permutation; assumption).
  pose proof (enumerates_transport _ all pos (map fst d) HP Hall) as Hall'.
  destruct (bt_sums_to_one d Hpos) as (S1 & S2 & _ & S4 & S5).
  destruct (bt_pdf_correct d (lookupP d) all Hnd Hpos
              (fun c s H => lookupP_spec d c s Hnd H) Hall') as [_ C2].
  assert (Hw : forall r, Permutation r (map fst d) -> bt_weight (lookupP d) r == bt_weight x r).
  { intros r Hr. apply (bt_weight_scale_gen x (lookupP d) k r Hk). intros c Hc.
    apply (Hx c). apply lookupP_in. apply (Permutation_in _ Hr Hc). }
  split; [|split; [exact (S5 Hnd)|split; [exact S1|]]].
  - intros r. rewrite S2. rewrite (C12_expand.perms_spec pcand). split; intros H.
    + apply (Permutation_trans H (Permutation_sym HP)).
    + apply (Permutation_trans H HP).
  - intros r v Hrv. split; [exact (S4 r v Hrv)|].
    destruct (C2 r v Hrv) as [Hr Hv]. rewrite Hv.
    apply Qdiv_comp; [exact (Hw r Hr)|].
    apply qsum_map_ext_in. intros t Ht. apply Hw. apply (proj2 Hall'). exact Ht.
Qed.

(* ------------------------------------------------------------------ *)
(** * 3. From the user's supports *)

Theorem bt_pdf_from_supports : forall (d : list (pcand * Q)) (iv : pinterval) (x : pcand -> Q)
    (pos : list pcand) (all : list (list pcand)),
  NoDup (map fst d) -> (forall c s, In (c, s) d -> 0 <= s) ->
  (forall c s, In (c, s) d -> x c == s) ->
  mk_interval d = inl iv ->
  NoDup pos -> (forall c, In c pos <-> exists s, In (c, s) d /\ 0 < s) ->
  enumerates all pos ->
  (forall r, In r (map fst (bt_pdf (pi_int iv))) <-> Permutation r pos) /\
  NoDup (map fst (bt_pdf (pi_int iv))) /\
  qsum (map snd (bt_pdf (pi_int iv))) == 1 /\
  (forall r v, In (r, v) (bt_pdf (pi_int iv)) ->
     0 < v /\ v == bt_weight x r / qsum (map (bt_weight x) all)) /\
  (forall c s, In (c, s) d -> s == 0 ->
     In c (pi_zero iv) /\ forall r, In r (map fst (bt_pdf (pi_int iv))) -> ~ In c r).
Proof.
  intros d iv x pos all Hnd Hnn Hx Hmk Hndp Hpos Hall.
  destruct (interval_normalised d iv Hnn Hmk)
    as (Htot & _ & _ & Hz & Hp & Hv & _ & Hvpos & _ & Hnd').
  destruct (Hnd' Hnd) as (Hndi & _ & _).
  assert (Hk : ~ / qsum (map snd d) == 0).
  { intros E. assert (0 < / qsum (map snd d)) by (apply Qinv_lt_0_compat; exact Htot).
    rewrite E in H. apply (Qlt_irrefl 0). exact H. }
  destruct (bt_pdf_scaled (pi_int iv) x (/ qsum (map snd d)) pos all Hndi Hvpos Hk)
    as (K1 & K2 & K3 & K4).
  - intros c v Hcv. destruct (Hv c v Hcv) as (s & Hin & _ & E). rewrite E, (Hx c s Hin).
    unfold Qdiv. ring.
  - exact Hndp.
  - intros c. rewrite Hpos, Hp. reflexivity.
  - exact Hall.
  - split; [exact K1|]. split; [exact K2|]. split; [exact K3|]. split; [exact K4|].
    intros c s Hin Hs. split.
    + apply Hz. exists s. split; assumption.
    + intros r Hr Hc. apply K1 in Hr. apply (Permutation_in _ Hr) in Hc. apply Hpos in Hc.
      destruct Hc as (s' & Hin' & Hs').
      rewrite (NoDup_keys_functional d c s s' Hnd Hin Hin') in Hs. rewrite Hs in Hs'.
      apply (Qlt_irrefl 0). exact Hs'.
Qed.

(* ------------------------------------------------------------------ *)
(** * 4. From a voter bloc's intervals and its cohesion row *)

Lemma rounds_to_one_neq0 : forall q, rounds_to_one q = true -> 0 < q.
Proof.
  intros q H. apply rounds_to_one_iff in H. destruct H as [H _].
  assert (0 < 1 - (5 # 1000000000)) by reflexivity. lra.
Qed.

Lemma combine_success_inv : forall is props r,
  Forall wf_interval is -> length is = length props -> Forall (fun p => 0 <= p) props ->
  combine_intervals is props = inl r ->
  NoDup (concat (map pi_cands is)) /\ rounds_to_one (qsum props) = true.
Proof.
  intros is props r Hwf Hlen Hnn Hc. split.
  - destruct (C20_blocs.nodup_pos_dec (concat (map pi_cands is))) as [H|H]; [exact H|].
    rewrite (combine_error_overlap is props H) in Hc. discriminate Hc.
  - destruct (rounds_to_one (qsum props)) eqn:E; [reflexivity|].
    rewrite (combine_error_props is props E) in Hc. discriminate Hc.
Qed.

Theorem bt_pdf_from_combined : forall (is : list pinterval) (props : list Q) (r : pinterval)
    (x : pcand -> Q) (pos : list pcand) (all : list (list pcand)),
  Forall wf_interval is -> length is = length props -> Forall (fun p => 0 <= p) props ->
  combine_intervals is props = inl r ->
  (forall i p c v, In (i, p) (combine is props) -> In (c, v) (pi_int i) -> x c == p * v) ->
  NoDup pos ->
  (forall c, In c pos <->
     exists i p v, In (i, p) (combine is props) /\ In (c, v) (pi_int i) /\ 0 < p) ->
  enumerates all pos ->
  (forall t, In t (map fst (bt_pdf (pi_int r))) <-> Permutation t pos) /\
  NoDup (map fst (bt_pdf (pi_int r))) /\
  qsum (map snd (bt_pdf (pi_int r))) == 1 /\
  (forall t v, In (t, v) (bt_pdf (pi_int r)) ->
     0 < v /\ v == bt_weight x t / qsum (map (bt_weight x) all)) /\
  (forall c, In c (pi_zero r) -> forall t, In t (map fst (bt_pdf (pi_int r))) -> ~ In c t) /\
  (forall i p c v, In (i, p) (combine is props) -> In (c, v) (pi_int i) -> p == 0 ->
     In c (pi_zero r)) /\
  (forall i c, In i is -> In c (pi_zero i) -> In c (pi_zero r)).
Proof.
  intros is props r x pos all Hwf Hlen Hnn Hc Hx Hndp Hpos Hall.
  destruct (combine_success_inv is props r Hwf Hlen Hnn Hc) as [Hnd Hr].
  destruct (combine_ok is props Hwf Hlen Hnn Hnd Hr)
    as (r' & Hc' & C1 & C2 & C3 & C4 & _ & [Cpos _] & C7 & _).
  rewrite Hc in Hc'. injection Hc' as <-.
  destruct (combine_cands is props r Hwf Hlen Hnn Hnd Hr Hc) as (Hdisj & _ & _).
  pose proof (rounds_to_one_neq0 _ Hr) as Hq.
  assert (Hk : ~ / qsum props == 0).
  { intros E. assert (0 < / qsum props) by (apply Qinv_lt_0_compat; exact Hq).
    rewrite E in H. apply (Qlt_irrefl 0). exact H. }
  destruct (bt_pdf_scaled (pi_int r) x (/ qsum props) pos all C7 Cpos Hk)
    as (K1 & K2 & K3 & K4).
  - intros c w Hcw. destruct (C2 c w Hcw) as (i & p & v & Hip & Hcv & _ & E).
    rewrite E, (Hx i p c v Hip Hcv). unfold Qdiv. ring.
  - exact Hndp.
  - intros c. rewrite Hpos. split.
    + intros (i & p & v & Hip & Hcv & Hp). destruct (C1 i p c v Hip Hcv Hp) as (w & Hw & _).
      apply in_map_iff. exists (c, w). split; [reflexivity|exact Hw].
    + intros Hin. apply in_map_iff in Hin. destruct Hin as ([c' w] & E & Hcw). cbn [fst] in E.
      subst c'. destruct (C2 c w Hcw) as (i & p & v & Hip & Hcv & Hp & _).
      exists i, p, v. split; [exact Hip|]. split; [exact Hcv|exact Hp].
  - exact Hall.
  - split; [exact K1|]. split; [exact K2|]. split; [exact K3|]. split; [exact K4|].
    split; [|split; [exact C3|exact C4]].
    intros c Hz t Ht Hct. apply K1 in Ht. apply (Permutation_in _ Ht) in Hct.
    apply Hpos in Hct. destruct Hct as (i & p & v & Hip & Hcv & Hp).
    destruct (C1 i p c v Hip Hcv Hp) as (w & Hw & _).
    apply (Hdisj c); [|exact Hz]. apply in_map_iff. exists (c, w). split; [reflexivity|exact Hw].
Qed.

(* the intervals themselves built from supports *)
Lemma combine_Forall2_r : forall (A B C : Type) (R : A -> B -> Prop) (la : list A) (lb : list B),
  Forall2 R la lb -> forall (lc : list C) b c, In (b, c) (combine lb lc) ->
  exists a, In (a, c) (combine la lc) /\ R a b.
Proof.
  intros A B C R la lb H. induction H as [|a b la lb Hab _ IH]; intros lc b' c Hin.
  - destruct Hin.
  - destruct lc as [|c0 lc]; [destruct Hin|]. cbn [combine] in Hin |- *. destruct Hin as [E|Hin].
    + injection E as <- <-. exists a. split; [left; reflexivity|exact Hab].
    + destruct (IH lc b' c Hin) as (a' & Ha' & HR). exists a'. split; [right; exact Ha'|exact HR].
Qed.

Lemma combine_Forall2_l : forall (A B C : Type) (R : A -> B -> Prop) (la : list A) (lb : list B),
  Forall2 R la lb -> forall (lc : list C) a c, In (a, c) (combine la lc) ->
  exists b, In (b, c) (combine lb lc) /\ R a b.
Proof.
  intros A B C R la lb H. induction H as [|a b la lb Hab _ IH]; intros lc a' c Hin.
  - destruct Hin.
  - destruct lc as [|c0 lc]; [destruct Hin|]. cbn [combine] in Hin |- *. destruct Hin as [E|Hin].
    + injection E as <- <-. exists b. split; [left; reflexivity|exact Hab].
    + destruct (IH lc a' c Hin) as (b' & Hb' & HR). exists b'. split; [right; exact Hb'|exact HR].
Qed.

Lemma Forall2_len : forall (A B : Type) (R : A -> B -> Prop) la lb,
  Forall2 R la lb -> length la = length lb.
Proof.
  intros A B R la lb H. induction H as [|a b la lb _ _ IH]; [reflexivity|].
  cbn [length]. rewrite IH. reflexivity.
Qed.

Theorem bt_pdf_from_combined_supports : forall (ds : list (list (pcand * Q))) (is : list pinterval)
    (props : list Q) (r : pinterval) (x : pcand -> Q) (pos : list pcand) (all : list (list pcand)),
  Forall2 (fun d i => mk_interval d = inl i) ds is ->
  (forall d c s, In d ds -> In (c, s) d -> 0 <= s) ->
  length ds = length props -> Forall (fun p => 0 <= p) props ->
  combine_intervals is props = inl r ->
  (forall d p c s, In (d, p) (combine ds props) -> In (c, s) d ->
     x c == p * (s / qsum (map snd d))) ->
  NoDup pos ->
  (forall c, In c pos <->
     exists d p s, In (d, p) (combine ds props) /\ In (c, s) d /\ 0 < p /\ 0 < s) ->
  enumerates all pos ->
  (forall t, In t (map fst (bt_pdf (pi_int r))) <-> Permutation t pos) /\
  NoDup (map fst (bt_pdf (pi_int r))) /\
  qsum (map snd (bt_pdf (pi_int r))) == 1 /\
  (forall t v, In (t, v) (bt_pdf (pi_int r)) ->
     0 < v /\ v == bt_weight x t / qsum (map (bt_weight x) all)) /\
  (forall d p c s, In (d, p) (combine ds props) -> In (c, s) d -> p == 0 \/ s == 0 ->
     In c (pi_zero r) /\ forall t, In t (map fst (bt_pdf (pi_int r))) -> ~ In c t).
Proof.
  intros ds is props r x pos all HF Hnn Hlen Hpn Hc Hx Hndp Hpos Hall.
  assert (Hwf : Forall wf_interval is).
  { clear - HF. induction HF as [|d i ds is Hdi _ IH]; constructor; [|exact IH].
    apply (mk_interval_wf d i Hdi). }
  assert (Hlen' : length is = length props).
  { rewrite <- Hlen. symmetry. apply (Forall2_len _ _ _ _ _ HF). }
  assert (Hnn' : forall d p, In (d, p) (combine ds props) -> forall c s, In (c, s) d -> 0 <= s).
  { intros d p Hdp c s Hcs. apply (Hnn d c s); [|exact Hcs]. apply (in_combine_l _ _ _ _ Hdp). }
  destruct (bt_pdf_from_combined is props r x pos all Hwf Hlen' Hpn Hc)
    as (K1 & K2 & K3 & K4 & K5 & K6 & K7).
  - intros i p c v Hip Hcv.
    destruct (combine_Forall2_r _ _ _ _ ds is HF props i p Hip) as (d & Hdp & Hmk).
    destruct (interval_normalised d i (Hnn' d p Hdp) Hmk) as (_ & _ & _ & _ & _ & Hv & _).
    destruct (Hv c v Hcv) as (s & Hin & _ & E). rewrite E. apply (Hx d p c s Hdp Hin).
  - exact Hndp.
  - intros c. rewrite Hpos. split.
    + intros (d & p & s & Hdp & Hcs & Hp & Hs).
      destruct (combine_Forall2_l _ _ _ _ ds is HF props d p Hdp) as (i & Hip & Hmk).
      destruct (interval_normalised d i (Hnn' d p Hdp) Hmk) as (_ & _ & _ & _ & _ & _ & Hv & _).
      destruct (Hv c s Hcs Hs) as (v & Hcv & _). exists i, p, v. repeat split; assumption.
    + intros (i & p & v & Hip & Hcv & Hp).
      destruct (combine_Forall2_r _ _ _ _ ds is HF props i p Hip) as (d & Hdp & Hmk).
      destruct (interval_normalised d i (Hnn' d p Hdp) Hmk) as (_ & _ & _ & _ & _ & Hv & _).
      destruct (Hv c v Hcv) as (s & Hin & Hs & _). exists d, p, s. repeat split; assumption.
  - exact Hall.
  - split; [exact K1|]. split; [exact K2|]. split; [exact K3|]. split; [exact K4|].
    intros d p c s Hdp Hcs Hcase.
    destruct (combine_Forall2_l _ _ _ _ ds is HF props d p Hdp) as (i & Hip & Hmk).
    destruct (interval_normalised d i (Hnn' d p Hdp) Hmk)
      as (_ & _ & _ & Hz & _ & _ & Hv & _).
    assert (Hzr : In c (pi_zero r)).
    { destruct (Qlt_le_dec 0 s) as [Hs|Hs].
      - destruct Hcase as [Hp|Hs0]; [|rewrite Hs0 in Hs; exfalso; apply (Qlt_irrefl 0); exact Hs].
        destruct (Hv c s Hcs Hs) as (v & Hcv & _). apply (K6 i p c v Hip Hcv Hp).
      - apply (K7 i c); [apply (in_combine_l _ _ _ _ Hip)|]. apply Hz. exists s.
        split; [exact Hcs|]. pose proof (Hnn' d p Hdp c s Hcs). lra. }
    split; [exact Hzr|]. intros t Ht. apply (K5 c Hzr t Ht).
Qed.

(* ------------------------------------------------------------------ *)
(** * 5. slate-Bradley-Terry: keys for any size list; sizes read off intervals built from supports *)

Theorem slate_bt_keys_full : forall (sizes : list (bloc * nat)) (own opp : bloc) (c : Q),
  map fst (slate_bt_pdf sizes own opp c) =
    arrangements_ms (concat (map (fun bn : bloc * nat => repeat (fst bn) (snd bn)) sizes)) /\
  (forall t, In t (map fst (slate_bt_pdf sizes own opp c)) <->
     Permutation t (concat (map (fun bn : bloc * nat => repeat (fst bn) (snd bn)) sizes))) /\
  NoDup (map fst (slate_bt_pdf sizes own opp c)).
Proof.
  intros sizes own opp c. pose proof (slate_keys sizes own opp c) as E. unfold to_sample in E.
  split; [exact E|]. rewrite E. split; [intros t; apply arrangements_spec|apply arrangements_NoDup].
Qed.

Lemma Forall2_in_l : forall (A B : Type) (R : A -> B -> Prop) la lb a,
  Forall2 R la lb -> In a la -> exists b, In b lb /\ R a b.
Proof.
  intros A B R la lb a H. induction H as [|a0 b0 la lb Hab _ IH]; intros Hin; [destruct Hin|].
  destruct Hin as [<-|Hin].
  - exists b0. split; [left; reflexivity|exact Hab].
  - destruct (IH Hin) as (b & Hb & HR). exists b. split; [right; exact Hb|exact HR].
Qed.

Theorem slate_bt_sizes_from_supports :
  forall (sup : list (bloc * list (pcand * Q))) (ivs : list (bloc * pinterval)),
  Forall2 (fun s i => fst s = fst i /\ mk_interval (snd s) = inl (snd i)) sup ivs ->
  map (fun x : bloc * pinterval => (fst x, length (pi_int (snd x)))) ivs =
  map (fun s : bloc * list (pcand * Q) =>
         (fst s, length (filter (fun p => Qlt_bool 0 (snd p)) (snd s)))) sup.
Proof.
  intros sup ivs H. induction H as [|[b d] [b' iv] sup ivs [Hb Hmk] _ IH]; [reflexivity|].
  cbn [map fst snd] in *. rewrite IH. subst b'. f_equal. f_equal.
  destruct (mk_interval_inl d iv Hmk) as (_ & _ & ->). rewrite map_length. reflexivity.
Qed.

Theorem slate_bt_counts_from_supports :
  forall (sup : list (bloc * list (pcand * Q))) (ivs : list (bloc * pinterval)) own opp c t v,
  Forall2 (fun s i => fst s = fst i /\ mk_interval (snd s) = inl (snd i)) sup ivs ->
  NoDup (map fst sup) ->
  In (t, v) (slate_bt_pdf (map (fun x : bloc * pinterval => (fst x, length (pi_int (snd x)))) ivs)
                          own opp c) ->
  (forall b, In b t -> In b (map fst sup)) /\
  (forall b d pos, In (b, d) sup -> NoDup (map fst d) -> NoDup pos ->
     (forall k, In k pos <-> exists s, In (k, s) d /\ 0 < s) ->
     count_bloc b t = length pos).
Proof.
  intros sup ivs own opp c t v HF Hnd Hin.
  assert (Hkeys : map fst ivs = map fst sup).
  { clear - HF. induction HF as [|s i sup ivs [Hs _] _ IH]; [reflexivity|].
    cbn [map]. rewrite IH, Hs. reflexivity. }
  assert (Hnd' : NoDup (map fst ivs)) by (rewrite Hkeys; exact Hnd).
  destruct (slate_bt_type_counts ivs own opp c t v Hnd' Hin) as (T1 & T2 & _).
  split; [intros b Hb; rewrite <- Hkeys; apply T1; exact Hb|].
  intros b d pos Hbd Hndd Hndp Hpos.
  destruct (Forall2_in_l _ _ _ sup ivs (b, d) HF Hbd) as ([b' iv] & Hbi & Hb & Hmk).
  cbn [fst snd] in Hb, Hmk. subst b'. rewrite (T2 b iv Hbi).
  destruct (mk_interval_inl d iv Hmk) as (_ & _ & ->). rewrite map_length.
  rewrite <- (map_length fst). apply Permutation_length. apply NoDup_Permutation.
  - apply map_fst_filter_NoDup. exact Hndd.
  - exact Hndp.
  - intros k. rewrite Hpos, in_map_iff. split.
    + intros ([k' s] & E & Hks). cbn [fst] in E. subst k'. exists s. apply posf_in. exact Hks.
    + intros (s & Hks). exists (k, s). split; [reflexivity|]. apply posf_in. exact Hks.
Qed.

(* ------------------------------------------------------------------ *)
(** * 6. One bloc: the model's table function against the code's constant table *)

(* the model: a single bloc with at least one candidate at cohesion 1 (the only cohesion a single
   bloc can have) has no positive entry, so the membership test of op_gen_slate_bt fails for
   every requested ballot type *)
Theorem slate_one_bloc_no_positive : forall (own opp : bloc) (a : nat) (c : Q),
  own <> opp -> c == 1 -> (0 < a)%nat ->
  (forall t v, In (t, v) (slate_bt_pdf [(own, a)] own opp c) -> v == 0) /\
  (forall t, existsb (fun e : list bloc * Q => type_eqb (fst e) t && Qlt_bool 0 (snd e))
                     (slate_bt_pdf [(own, a)] own opp c) = false).
Proof.
  intros own opp a c Hne Hc Ha.
  destruct (slate_one_bloc own opp a c Hne) as (v0 & E & _ & H0). specialize (H0 Hc Ha).
  rewrite E. split.
  - intros t v [Ein|[]]. injection Ein as _ <-. exact H0.
  - intros t. cbn [existsb fst snd].
    assert (Hlt : Qlt_bool 0 v0 = false).
    { apply Qlt_bool_false_iff. rewrite H0. apply Qle_refl. }
    rewrite Hlt, andb_false_r. reflexivity.
Qed.

(* the code's constant table {(bloc,)*a : 1} *)
Definition one_bloc_table (own : bloc) (a : nat) : list (list bloc * Q) := [(repeat own a, 1)].

Theorem one_bloc_table_ok : forall (own : bloc) (a : nat),
  map fst (one_bloc_table own a) = arrangements_ms (repeat own a) /\
  (forall t, In t (map fst (one_bloc_table own a)) <-> Permutation t (repeat own a)) /\
  qsum (map snd (one_bloc_table own a)) == 1 /\
  (forall t v, In (t, v) (one_bloc_table own a) -> 0 < v).
Proof.
  intros own a. unfold one_bloc_table. cbn [map fst snd]. rewrite arrangements_repeat.
  split; [reflexivity|]. split; [|split].
  - intros t. rewrite <- (arrangements_spec (repeat own a) t), arrangements_repeat. reflexivity.
  - rewrite qsum_cons, qsum_nil. ring.
  - intros t v [E|[]]. injection E as _ <-. reflexivity.
Qed.

(* the finding, on a concrete single bloc (bloc 1 with two candidates, cohesion 1): the model's
   table has no positive entry although the code's table is {(1, 1): 1}; and the generator op of
   the model, asked to replay the only possible ballot type, answers EScript *)
Theorem slate_one_bloc_finding :
  exists (own opp : bloc) (a : nat),
    own <> opp /\
    slate_bt_pdf [(own, a)] own opp 1 = [(repeat own a, 0)] /\
    one_bloc_table own a = [(repeat own a, 1)] /\
    Dispatch.op_gen_slate_bt
      (VL [VL [VZ 1;
               VL [VL [VZ 1; VL [VS [VL [VZ 1; VQ (1 # 2)]; VL [VZ 2; VQ (1 # 2)]]; VS []]]];
               VL [VL [VZ 1; VZ 2]]; VZ 1; VZ 2; VQ 1; VL [];
               VL [VL [VL [VZ 1; VZ 1]; VL [VL [VZ 1; VL [VZ 2; VZ 1]]]]]]]) = VE EScript /\
    (* the same script is well-formed: below cohesion 1 it is replayed without error *)
    match Dispatch.op_gen_slate_bt
      (VL [VL [VZ 1;
               VL [VL [VZ 1; VL [VS [VL [VZ 1; VQ (1 # 2)]; VL [VZ 2; VQ (1 # 2)]]; VS []]]];
               VL [VL [VZ 1; VZ 2]]; VZ 1; VZ 2; VQ (3 # 4); VL [];
               VL [VL [VL [VZ 1; VZ 1]; VL [VL [VZ 1; VL [VZ 2; VZ 1]]]]]]])
    with VE _ => False | _ => True end.
Proof.
  exists 1%positive, 2%positive, 2%nat. split; [discriminate|].
  split; [vm_compute; reflexivity|]. split; [reflexivity|].
  split; [vm_compute; reflexivity|]. vm_compute. exact I.
Qed.
