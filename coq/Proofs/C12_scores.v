(* Proofs/C12_scores.v — C12: expanding ties leaves every positional score unchanged.
   Averaging the positional points over all orders of a tied group gives each member the mean of
   the positions the group occupies, which is what [group_allocs] awards to the tied group. *)
From VK Require Import Base Core EditSpec Lib_rk Lib_condense12 C12_expand.
From Coq Require Import Permutation Lia Lqa Setoid Morphisms.

(* ---------- sums over the first n naturals, in "shift" style ---------- *)

Definition shiftf (f : nat -> Q) : nat -> Q := fun j => f (S j).

Fixpoint sumf (n : nat) (f : nat -> Q) : Q :=
  match n with O => 0 | S n' => f O + sumf n' (shiftf f) end.

Lemma sumf_ext : forall n f g, (forall i, f i == g i) -> sumf n f == sumf n g.
Proof.
  induction n as [|n IH]; intros f g H; cbn [sumf]; [reflexivity|].
  rewrite (H O), (IH (shiftf f) (shiftf g)); [reflexivity|]. intros i. apply H.
Qed.

Lemma sumf_plus : forall n f g, sumf n (fun i => f i + g i) == sumf n f + sumf n g.
Proof.
  induction n as [|n IH]; intros f g; cbn [sumf]; [lra|].
  rewrite (sumf_ext n (shiftf (fun i => f i + g i)) (fun i => shiftf f i + shiftf g i))
    by (intros i; reflexivity).
  rewrite IH. lra.
Qed.

Lemma sumf_zero : forall n, sumf n (fun _ => 0) == 0.
Proof.
  induction n as [|n IH]; cbn [sumf]; [reflexivity|].
  rewrite (sumf_ext n (shiftf (fun _ => 0)) (fun _ => 0)) by (intros i; reflexivity).
  rewrite IH. lra.
Qed.

(* weight each position receives when one more element is inserted at every place *)
Definition Uf (n : nat) (f : nat -> Q) : nat -> Q :=
  fun i => (Qnat n - Qnat i) * f i + (Qnat i + 1) * f (S i).

Lemma Qnat_S : forall n, Qnat (S n) == Qnat n + 1.
Proof.
  intros n. unfold Qnat. rewrite Nat2Z.inj_succ. unfold Z.succ. rewrite inject_Z_plus.
  change (inject_Z 1) with 1. reflexivity.
Qed.

Lemma Qnat_0 : Qnat 0 == 0.
Proof. reflexivity. Qed.

Lemma Qnat_mul : forall a b, Qnat (a * b) == Qnat a * Qnat b.
Proof. intros a b. unfold Qnat. rewrite Nat2Z.inj_mul, inject_Z_mult. reflexivity. Qed.

Lemma Uf_shift : forall n f i, shiftf (Uf (S n) f) i == Uf n (shiftf f) i + shiftf (shiftf f) i.
Proof.
  intros n f i. unfold shiftf, Uf. rewrite !Qnat_S. ring.
Qed.

Lemma sumf_Uf : forall n f, sumf n (Uf n f) == Qnat n * sumf (S n) f.
Proof.
  induction n as [|n IH]; intros f.
  - cbn [sumf]. rewrite Qnat_0. lra.
  - cbn [sumf].
    rewrite (sumf_ext n (shiftf (Uf (S n) f))
                      (fun i => Uf n (shiftf f) i + shiftf (shiftf f) i)) by (apply Uf_shift).
    rewrite sumf_plus, IH. cbn [sumf]. unfold Uf at 1. unfold shiftf at 1 2 3.
    rewrite !Qnat_S, Qnat_0. unfold shiftf. ring.
Qed.

(* qsum over a concat of mapped lists *)
Lemma qsum_concat_map : forall (A B : Type) (F : B -> Q) (g : A -> list B) (L : list A),
  qsum (map F (concat (map g L))) == qsum (map (fun a => qsum (map F (g a))) L).
Proof.
  intros A B F g L. induction L as [|a L IH]; cbn [map concat].
  - reflexivity.
  - rewrite map_app, qsum_app, qsum_cons, IH. reflexivity.
Qed.

Lemma Qnat_fact_S : forall n, Qnat (fact (S n)) == Qnat (S n) * Qnat (fact n).
Proof. intros n. cbn [fact]. apply Qnat_mul. Qed.

Section WithCand.
Variable cand : Type.
Variable ceqb : cand -> cand -> bool.

Notation ranking := (ranking cand).
Notation ballot := (ballot cand).
Notation insert_all := (insert_all cand).
Notation perms := (perms cand).
Notation singletons := (singletons cand).
Notation expand_ranking := (expand_ranking cand).
Notation tie_divisor := (tie_divisor cand).
Notation expand_tied_ballot := (expand_tied_ballot cand).
Notation group_allocs := (group_allocs cand).
Notation alloc_of := (alloc_of cand ceqb).
Notation score_of := (score_of cand ceqb).

Variable c : cand.

Definition ind (y : cand) : Q := if ceqb c y then 1 else 0.
Definition cntq (s : list cand) : Q := qsum (map ind s).

(* points candidate c collects from the linear order o when position j is worth f j *)
Fixpoint posf (o : list cand) (f : nat -> Q) : Q :=
  match o with [] => 0 | y :: o' => ind y * f O + posf o' (shiftf f) end.

Lemma posf_ext : forall o f g, (forall i, f i == g i) -> posf o f == posf o g.
Proof.
  induction o as [|y o IH]; intros f g H; cbn [posf]; [reflexivity|].
  rewrite (H O), (IH (shiftf f) (shiftf g)); [reflexivity|]. intros i. apply H.
Qed.

Lemma posf_plus : forall o f g, posf o (fun i => f i + g i) == posf o f + posf o g.
Proof.
  induction o as [|y o IH]; intros f g; cbn [posf]; [lra|].
  rewrite (posf_ext o (shiftf (fun i => f i + g i)) (fun i => shiftf f i + shiftf g i))
    by (intros i; reflexivity).
  rewrite IH. ring.
Qed.

(* inserting x at every place of p *)
Lemma posf_insert_all : forall x p f,
  qsum (map (fun q => posf q f) (insert_all x p)) ==
  ind x * sumf (S (length p)) f + posf p (Uf (length p) f).
Proof.
  intros x p. induction p as [|y p IH]; intros f.
  - cbn [Core.insert_all map length sumf posf]. rewrite qsum_cons, qsum_nil. cbn [posf]. lra.
  - cbn [Core.insert_all map length]. rewrite qsum_cons, map_map.
    rewrite (qsum_map_ext_eq _ (fun q => posf (y :: q) f)
                             (fun q => ind y * f O + posf q (shiftf f)))
      by (intros q _; reflexivity).
    rewrite qsum_map_plus, qsum_map_const, insert_all_length, (IH (shiftf f)).
    cbn [posf sumf].
    rewrite (posf_ext p (shiftf (Uf (S (length p)) f))
                      (fun i => Uf (length p) (shiftf f) i + shiftf (shiftf f) i))
      by (apply Uf_shift).
    rewrite posf_plus. unfold Uf at 2. rewrite !Qnat_S, Qnat_0. unfold shiftf. cbv beta.
    ring.
Qed.

(* summed over all orders of s, c collects (|s|-1)! times its multiplicity times the sum of the
   positions *)
Lemma posf_perms : forall s f,
  qsum (map (fun o => posf o f) (perms s)) ==
  Qnat (fact (length s - 1)) * cntq s * sumf (length s) f.
Proof.
  induction s as [|x s IH]; intros f.
  - cbn [Core.perms map length posf sumf]. unfold cntq. cbn [map]. rewrite qsum_cons, !qsum_nil. ring.
  - cbn [Core.perms]. rewrite qsum_concat_map.
    rewrite (qsum_map_ext_eq _ (fun p => qsum (map (fun o => posf o f) (insert_all x p)))
               (fun p => ind x * sumf (S (length s)) f + posf p (Uf (length s) f))).
    + rewrite qsum_map_plus, qsum_map_const, perms_length, (IH (Uf (length s) f)), sumf_Uf.
      unfold cntq. cbn [map length]. rewrite qsum_cons. fold (cntq s).
      replace (S (length s) - 1)%nat with (length s) by lia.
      destruct s as [|x' s'].
      * unfold cntq. cbn [map length]. rewrite qsum_nil. ring.
      * cbn [length]. replace (S (length s') - 1)%nat with (length s') by lia.
        rewrite Qnat_fact_S. ring.
    + intros p Hp. rewrite posf_insert_all.
      assert (Hl : length p = length s) by (apply Permutation_length; apply perms_spec; exact Hp).
      rewrite Hl. reflexivity.
Qed.

(* ---------- link with group_allocs ---------- *)

Lemma alloc_of_app : forall A B, alloc_of c (A ++ B) == alloc_of c A + alloc_of c B.
Proof.
  intros A B. unfold Core.alloc_of. rewrite filter_app, map_app, qsum_app. reflexivity.
Qed.

Lemma alloc_of_cons : forall y (a : Q) X,
  alloc_of c ((y, a) :: X) == ind y * a + alloc_of c X.
Proof.
  intros y a X. unfold Core.alloc_of, ind. cbn [filter fst].
  destruct (ceqb c y); cbn [map snd]; rewrite ?qsum_cons; ring.
Qed.

Lemma alloc_of_const : forall (a : Q) s, alloc_of c (map (fun x => (x, a)) s) == cntq s * a.
Proof.
  intros a s. unfold Core.alloc_of, cntq. induction s as [|y s IH]; cbn [map filter fst].
  - rewrite !qsum_nil. ring.
  - unfold ind at 1. destruct (ceqb c y); cbn [map snd]; rewrite ?qsum_cons, IH; ring.
Qed.

Definition posv (v : list Q) : nat -> Q := fun i => nth i v 0.

Lemma posv_shift : forall v i, shiftf (posv v) i == posv (skipn 1 v) i.
Proof.
  intros v i. unfold shiftf, posv. destruct v as [|x v]; cbn [skipn nth]; [|reflexivity].
  destruct i; reflexivity.
Qed.

Lemma skipn_skipn_1 : forall (n : nat) (v : list Q), skipn n (skipn 1 v) = skipn (S n) v.
Proof. intros n v. destruct v as [|x v]; cbn [skipn]; [apply skipn_nil|reflexivity]. Qed.

Lemma mean1 : forall v : list Q, qsum (firstn 1 v) / Qnat 1 == posv v 0.
Proof.
  intros v. unfold posv. change (Qnat 1) with 1. destruct v as [|x v]; cbn [firstn nth].
  - rewrite qsum_nil. field.
  - rewrite qsum_cons, qsum_nil. field.
Qed.

Lemma alloc_singletons_app : forall o v t,
  alloc_of c (group_allocs v (singletons o ++ t)) ==
  posf o (posv v) + alloc_of c (group_allocs (skipn (length o) v) t).
Proof.
  induction o as [|y o IH]; intros v t.
  - cbn [Core.singletons map app posf length skipn]. lra.
  - cbn [Core.singletons map app Core.group_allocs length posf].
    fold (singletons o). rewrite alloc_of_cons, (IH (skipn 1 v) t), skipn_skipn_1, mean1.
    rewrite (posf_ext o (shiftf (posv v)) (posv (skipn 1 v))) by (apply posv_shift).
    ring.
Qed.

Lemma sumf_posv : forall k v, sumf k (posv v) == qsum (firstn k v).
Proof.
  induction k as [|k IH]; intros v; cbn [sumf firstn].
  - destruct v; reflexivity.
  - rewrite (sumf_ext k (shiftf (posv v)) (posv (skipn 1 v))) by (apply posv_shift).
    rewrite IH. destruct v as [|x v]; cbn [skipn firstn].
    + unfold posv. cbn [nth]. rewrite firstn_nil, qsum_nil. lra.
    + unfold posv. cbn [nth]. rewrite qsum_cons. reflexivity.
Qed.

(* the heart: summed over all linear refinements, c's allocation is (number of refinements) times
   its allocation in the tied ranking *)
Theorem alloc_expand : forall r v,
  qsum (map (fun l => alloc_of c (group_allocs v l)) (expand_ranking r)) ==
  Qnat (tie_divisor r) * alloc_of c (group_allocs v r).
Proof.
  induction r as [|s r IH]; intros v.
  - cbn [Core.expand_ranking Core.tie_divisor map Core.group_allocs].
    rewrite qsum_cons, qsum_nil. unfold Core.alloc_of. cbn [filter map]. rewrite qsum_nil.
    change (Qnat 1) with 1. ring.
  - cbn [Core.expand_ranking]. rewrite qsum_concat_map.
    set (k := length s).
    set (A' := alloc_of c (group_allocs (skipn k v) r)).
    rewrite (qsum_map_ext_eq _
               (fun o => qsum (map (fun l => alloc_of c (group_allocs v l))
                                   (map (fun t => singletons o ++ t) (expand_ranking r))))
               (fun o => Qnat (tie_divisor r) * posf o (posv v) + Qnat (tie_divisor r) * A')).
    + rewrite qsum_map_plus, qsum_map_scale, qsum_map_const, posf_perms, perms_length.
      fold k. rewrite sumf_posv.
      cbn [Core.tie_divisor Core.group_allocs]. fold k. rewrite alloc_of_app, alloc_of_const.
      fold A'. rewrite Qnat_mul.
      destruct s as [|x s'].
      * unfold cntq. cbn [map]. rewrite qsum_nil. ring.
      * subst k. cbn [length]. replace (S (length s') - 1)%nat with (length s') by lia.
        rewrite Qnat_fact_S.
        assert (Hk : ~ Qnat (S (length s')) == 0).
        { rewrite Qnat_S. unfold Qnat. intros H.
          assert (H0 : 0 <= inject_Z (Z.of_nat (length s'))).
          { change 0 with (inject_Z 0). rewrite <- Zle_Qle. lia. }
          lra. }
        field. exact Hk.
    + intros o Ho. rewrite map_map.
      assert (Hl : length o = k) by (apply Permutation_length; apply perms_spec; exact Ho).
      rewrite (qsum_map_ext_eq _ (fun t => alloc_of c (group_allocs v (singletons o ++ t)))
                 (fun t => posf o (posv v) + alloc_of c (group_allocs (skipn k v) t))).
      * rewrite (qsum_map_plus _ (fun _ => posf o (posv v))
                                 (fun t => alloc_of c (group_allocs (skipn k v) t))).
        rewrite (qsum_map_const _ (posf o (posv v))), (expand_ranking_length cand r).
        rewrite (IH (skipn k v)). fold A'. ring.
      * intros t _. rewrite alloc_singletons_app, Hl. reflexivity.
Qed.

End WithCand.

Section Scores.
Variable cand : Type.
Variable ceqb : cand -> cand -> bool.

Notation ballot := (ballot cand).
Notation expand_ranking := (expand_ranking cand).
Notation tie_divisor := (tie_divisor cand).
Notation expand_tied_ballot := (expand_tied_ballot cand).
Notation group_allocs := (group_allocs cand).
Notation alloc_of := (alloc_of cand ceqb).
Notation score_of := (score_of cand ceqb).

Lemma score_of_cons : forall v (b : ballot) bs c,
  score_of v (b :: bs) c = wt b * alloc_of c (group_allocs v (rk b)) + score_of v bs c.
Proof. reflexivity. Qed.

Lemma score_of_app : forall v (l1 l2 : list ballot) c,
  score_of v (l1 ++ l2) c == score_of v l1 c + score_of v l2 c.
Proof. intros v l1 l2 c. unfold Core.score_of. rewrite map_app, qsum_app. reflexivity. Qed.

Lemma score_of_uniform : forall v c q (e : list ballot),
  Forall (fun b => wt b == q) e ->
  score_of v e c == q * qsum (map (fun l => alloc_of c (group_allocs v l)) (map rk e)).
Proof.
  intros v c q e H. induction H as [|b e Hb _ IH].
  - unfold Core.score_of. cbn [map]. rewrite qsum_nil. ring.
  - rewrite score_of_cons, IH. cbn [map]. rewrite qsum_cons, Hb. ring.
Qed.

Theorem expand_preserves_scores : forall v (b : ballot) out c,
  expand_tied_ballot b = inl out -> score_of v out c == score_of v [b] c.
Proof.
  intros v b out c H. apply expand_tied_ballot_ok in H. destruct H as (_ & Hrk & HF & _).
  rewrite (score_of_uniform v c (wt b / Qnat (tie_divisor (rk b))) out).
  - rewrite Hrk, alloc_expand. rewrite score_of_cons. unfold Core.score_of at 1. cbn [map].
    rewrite qsum_nil.
    pose proof (Qnat_pos _ (tie_divisor_pos cand (rk b))) as Hp. field. lra.
  - eapply Forall_impl; [|exact HF]. intros a Ha. apply Ha.
Qed.

(* the whole list of expansions, before [resolve_profile_ties] condenses it *)
Theorem expand_all_preserves_scores : forall v (bs : list ballot) bss c,
  Forall2 (fun b e => expand_tied_ballot b = inl e) bs bss ->
  score_of v (concat bss) c == score_of v bs c.
Proof.
  intros v bs bss c H. induction H as [|b e bs bss Hbe _ IH].
  - reflexivity.
  - cbn [concat]. rewrite score_of_app, IH, (expand_preserves_scores v b e c Hbe).
    rewrite !score_of_cons. unfold Core.score_of at 1. cbn [map]. rewrite qsum_nil. lra.
Qed.

End Scores.
