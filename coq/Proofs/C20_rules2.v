(* Proofs/C20_rules2.v — C20, second complement: forward error theorems at the level of the RUN
   ([run_rule R p s = inr e] for every script s) for preconditions not yet covered:
   1. BlocPlurality's budget k (non-positive; the fall-back to m for None / 0);
   2. Alaska with an unknown quota name: raised when the STV stage is constructed, i.e. AFTER the
      Plurality stage (whose own error wins, and whose draws have been consumed);
   3. a tied ballot reaching Alaska's STV stage: TypeError when the tie survives the cut;
   4. a non-positive seat count, rule by rule;
   5. an empty score vector for Borda = the default vector;
   6. run-level characterisations of the rating family's argument checks (GeneralRating, Limited,
      BlocPlurality). *)
From VK Require Import Base Core STV Pairwise Rules PV Election.
From VK.Spec Require Import ScoreSpec EditSpec RatingSpec TopMSpec STVSpec Anon TieSpec PairwiseSpec RunSpec
  OneShotSpec UpfrontSpec.
From VK.Proofs Require Import Lib_sets Lib_content Lib_condense12 C04_scoring Elect C11_profile C12_edit
  C20_validation C05_rating C13_composite STV_threshold STV_inv C01_lib C01_composite C20_more.
From Coq Require Import Permutation Lia Lqa.

Section Rules2.
Variable cand : Type.
Variable ceqb : cand -> cand -> bool.
Hypothesis ceqb_spec : forall a b, reflect (a = b) (ceqb a b).

Notation cset := (cset cand).
Notation ranking := (ranking cand).
Notation ballot := (ballot cand).
Notation profile := (profile cand).
Notation estate := (estate cand).
Notation mstate := (mstate cand).
Notation flat := (flat cand).
Notation wf_profile := (wf_profile cand).
Notation wf_stv0 := (wf_stv0 cand).
Notation integral_weights := (integral_weights cand).
Notation score_ballot_ok := (score_ballot_ok cand).
Notation score_ballot_bad := (score_ballot_bad cand).
Notation first_place_votes := (first_place_votes cand ceqb).
Notation borda_scores := (borda_scores cand ceqb).
Notation score_rankings := (score_rankings cand ceqb).
Notation dominating_tiers := (dominating_tiers cand ceqb).
Notation ranking_validate := (ranking_validate cand).
Notation stv_validate := (stv_validate cand).
Notation rating_validate := (rating_validate cand).
Notation dictator_args := (dictator_args cand).
Notation stv_init := (stv_init cand).
Notation run_plurality := (run_plurality cand ceqb).
Notation plurality_stage := (plurality_stage cand ceqb).
Notation run_alaska := (run_alaska cand ceqb).
Notation run_stv := (run_stv cand ceqb).
Notation run_rating := (run_rating cand ceqb).
Notation run_one_shot := (run_one_shot cand ceqb).
Notation run_dictator := (run_dictator cand ceqb).
Notation run_rule := (run_rule cand ceqb).
Notation round0 := (round0 cand ceqb).
Notation remove_cand_prof := (remove_cand_prof cand ceqb).
Notation remove_cand_bs := (remove_cand_bs cand ceqb).
Notation acc_add := (acc_add cand ceqb).
Notation condense_bs := (condense_bs cand ceqb).

(* ================================================================== *)
(** * 6. the rating family: argument checks at run level *)

Lemma rating_args_err_iff : forall m L k e,
  rating_args m L k = inr e <->
  e = EValue /\ ((m <= 0)%Z \/ L <= 0 \/ exists k', k = Some k' /\ (k' <= 0 \/ k' < L)).
Proof.
  intros m L k e. destruct (rating_args_iff m L k) as [H1 [H2 _]]. split.
  - intros H. pose proof (H2 e H) as He. subst e. split; [reflexivity|exact (proj1 H1 H)].
  - intros [He Hb]. subst e. exact (proj2 H1 Hb).
Qed.

Lemma args_ok_not_bad : forall m L k, rating_args_ok m L k -> ~ rating_args_bad m L k.
Proof.
  intros m L k Hok Hbad. destruct (rating_args_iff m L k) as [H1 [_ H3]].
  apply H1 in Hbad. apply H3 in Hok. congruence.
Qed.

Lemma args_ok_or_bad : forall m L k, rating_args_ok m L k \/ rating_args_bad m L k.
Proof.
  intros m L k. destruct (rating_args_iff m L k) as [H1 [H2 H3]].
  destruct (rating_args m L k) as [[]|e] eqn:Ea.
  - left. apply H3. reflexivity.
  - right. apply H1. rewrite (H2 e eq_refl). reflexivity.
Qed.

(* each argument violated alone (or together with others): ValueError for every profile, script
   and tiebreak *)
Theorem rating_each_arg : forall m L k tb (p : profile) (s : mstate),
  ((m <= 0)%Z -> run_rule (RRating m L k tb) p s = inr EValue) /\
  (L <= 0 -> run_rule (RRating m L k tb) p s = inr EValue) /\
  (forall k', k = Some k' -> k' <= 0 -> run_rule (RRating m L k tb) p s = inr EValue) /\
  (forall k', k = Some k' -> k' < L -> run_rule (RRating m L k tb) p s = inr EValue).
Proof.
  intros m L k tb p s. cbn [Rules.run_rule].
  destruct (c20_rating_limits_proof cand ceqb m L k) as [_ [_ H]].
  split; [intros Hm; apply H; left; exact Hm|].
  split; [intros HL; apply H; right; left; exact HL|].
  split.
  - intros k' Hk Hle. apply H. right. right. exists k'. split; [exact Hk|left; exact Hle].
  - intros k' Hk Hlt. apply H. right. right. exists k'. split; [exact Hk|right; exact Hlt].
Qed.

(* every error of GeneralRating, classified by the check that raised it *)
Theorem rating_error_cases : forall m L k tb (p : profile) (s : mstate) e,
  run_rule (RRating m L k tb) p s = inr e <->
  (e = EValue /\ rating_args_bad m L k) \/
  (e = EType /\ rating_args_ok m L k /\ exists b, In b (ballots p) /\ score_ballot_bad L k b) \/
  (rating_args_ok m L k /\ Forall (score_ballot_ok L k) (ballots p) /\
   run_one_shot SKBallotScores m tb p s = inr e).
Proof.
  intros m L k tb p s e. cbn [Rules.run_rule]. rewrite (run_rating_prologue cand ceqb).
  destruct (rating_args_iff m L k) as [A1 [A2 A3]].
  destruct (rating_validate_iff cand L k p) as [V1 [V2 V3]].
  destruct (rating_args m L k) as [[]|e0] eqn:Ea.
  - pose proof (proj1 A3 eq_refl) as Hok. pose proof (args_ok_not_bad m L k Hok) as Hnb.
    destruct (rating_validate L k p) as [[]|e1] eqn:Ev.
    + pose proof (proj1 V3 eq_refl) as Hall. split.
      * intros H. right. right. split; [exact Hok|]. split; [exact Hall|exact H].
      * intros [[_ Hb]|[[_ [_ [b [Hb Hbad]]]]|[_ [_ H]]]]; [contradiction| |exact H].
        exfalso. pose proof (proj2 V1 (ex_intro _ b (conj Hb Hbad))) as Hx. discriminate.
    + pose proof (V2 e1 eq_refl) as He1. subst e1. pose proof (proj1 V1 eq_refl) as Hex. split.
      * intros H. inversion H; subst e. right. left. split; [reflexivity|]. split; [exact Hok|exact Hex].
      * intros [[_ Hb]|[[He _]|[_ [Hall _]]]]; [contradiction|subst e; reflexivity|].
        apply V3 in Hall. discriminate.
  - pose proof (A2 e0 eq_refl) as He0. subst e0. pose proof (proj1 A1 eq_refl) as Hbad. split.
    + intros H. inversion H; subst e. left. split; [reflexivity|exact Hbad].
    + intros [[He _]|[[_ [Hok _]]|[Hok _]]]; [subst e; reflexivity| |];
        exfalso; exact (args_ok_not_bad m L k Hok Hbad).
Qed.

Theorem rating_value_error_iff : forall m L k tb (p : profile) (s : mstate),
  run_rule (RRating m L k tb) p s = inr EValue <->
  rating_args_bad m L k \/
  (rating_args_ok m L k /\ Forall (score_ballot_ok L k) (ballots p) /\
   run_one_shot SKBallotScores m tb p s = inr EValue).
Proof.
  intros m L k tb p s. rewrite rating_error_cases. split.
  - intros [[_ Hb]|[[He _]|H]]; [left; exact Hb|discriminate|right; exact H].
  - intros [Hb|H]; [left; split; [reflexivity|exact Hb]|right; right; exact H].
Qed.

(* ---------- Limited ---------- *)

Definition limited_bad (m : Z) (k : Q) : Prop := inject_Z m < k \/ (m <= 0)%Z \/ k <= 0.

Lemma limited_bad_dec : forall m k, limited_bad m k \/ ~ limited_bad m k.
Proof.
  intros m k. unfold limited_bad.
  destruct (Qlt_le_dec (inject_Z m) k) as [H1|H1]; [left; left; exact H1|].
  destruct (Z_le_gt_dec m 0) as [H2|H2]; [left; right; left; exact H2|].
  destruct (Qlt_le_dec 0 k) as [H3|H3]; [|left; right; right; exact H3].
  right. intros [H|[H|H]].
  - exact (Qlt_not_le _ _ H H1).
  - lia.
  - exact (Qlt_not_le _ _ H3 H).
Qed.

Theorem limited_error_cases : forall m k tb (p : profile) (s : mstate) e,
  run_rule (RLimited m k tb) p s = inr e <->
  (e = EValue /\ (inject_Z m < k \/ (m <= 0)%Z \/ k <= 0)) \/
  (e = EType /\ ~ (inject_Z m < k \/ (m <= 0)%Z \/ k <= 0) /\
   exists b, In b (ballots p) /\ score_ballot_bad k (Some k) b) \/
  (~ (inject_Z m < k \/ (m <= 0)%Z \/ k <= 0) /\ Forall (score_ballot_ok k (Some k)) (ballots p) /\
   run_one_shot SKBallotScores m tb p s = inr e).
Proof.
  intros m k tb p s e.
  destruct (c20_limited_limits_proof cand ceqb m k tb p s) as [Hbad Hgood].
  destruct (rating_validate_iff cand k (Some k) p) as [V1 [V2 V3]].
  destruct (limited_bad_dec m k) as [Hb|Hnb]; unfold limited_bad in *.
  - rewrite (Hbad Hb). split.
    + intros H. inversion H; subst e. left. split; [reflexivity|exact Hb].
    + intros [[He _]|[[_ [Hn _]]|[Hn _]]]; [subst e; reflexivity|contradiction|contradiction].
  - rewrite (Hgood Hnb).
    destruct (rating_validate k (Some k) p) as [[]|e1] eqn:Ev.
    + pose proof (proj1 V3 eq_refl) as Hall. split.
      * intros H. right. right. split; [exact Hnb|]. split; [exact Hall|exact H].
      * intros [[_ Hb]|[[_ [_ [b [Hb Hbb]]]]|[_ [_ H]]]]; [contradiction| |exact H].
        exfalso. pose proof (proj2 V1 (ex_intro _ b (conj Hb Hbb))) as Hx. discriminate.
    + pose proof (V2 e1 eq_refl) as He1. subst e1. pose proof (proj1 V1 eq_refl) as Hex. split.
      * intros H. inversion H; subst e. right. left. split; [reflexivity|]. split; [exact Hnb|exact Hex].
      * intros [[_ Hb]|[[He _]|[_ [Hall _]]]]; [contradiction|subst e; reflexivity|].
        apply V3 in Hall. discriminate.
Qed.

Theorem limited_value_error_iff : forall m k tb (p : profile) (s : mstate),
  run_rule (RLimited m k tb) p s = inr EValue <->
  (inject_Z m < k \/ (m <= 0)%Z \/ k <= 0) \/
  (~ (inject_Z m < k \/ (m <= 0)%Z \/ k <= 0) /\ Forall (score_ballot_ok k (Some k)) (ballots p) /\
   run_one_shot SKBallotScores m tb p s = inr EValue).
Proof.
  intros m k tb p s. rewrite limited_error_cases. split.
  - intros [[_ Hb]|[[He _]|H]]; [left; exact Hb|discriminate|right; exact H].
  - intros [Hb|H]; [left; split; [reflexivity|exact Hb]|right; right; exact H].
Qed.

(* the guard k > m alone: ValueError for every profile, script and tiebreak *)
Theorem limited_guard : forall m k tb (p : profile) (s : mstate),
  inject_Z m < k -> run_rule (RLimited m k tb) p s = inr EValue.
Proof.
  intros m k tb p s H. apply (proj1 (c20_limited_limits_proof cand ceqb m k tb p s)). left. exact H.
Qed.

(* ================================================================== *)
(** * 1. BlocPlurality's budget *)

Notation bloc_budget := OneShotSpec.bloc_budget.

Lemma bloc_budget_cases : forall m k,
  (k = None \/ k = Some 0%Z -> bloc_budget m k = m) /\
  (forall x, k = Some x -> x <> 0%Z -> bloc_budget m k = x).
Proof.
  intros m k. unfold OneShotSpec.bloc_budget. split.
  - intros [Hk|Hk]; subst k; reflexivity.
  - intros x Hk Hx. subst k. destruct (Z.eqb_spec x 0); [contradiction|reflexivity].
Qed.

Lemma run_bloc_is_rating : forall m k tb (p : profile),
  run_rule (RBloc m k tb) p = run_rule (RRating m 1 (Some (inject_Z (bloc_budget m k))) tb) p.
Proof. reflexivity. Qed.

Lemma inject_Z_le0 : forall z, inject_Z z <= 0 <-> (z <= 0)%Z.
Proof. intros z. change 0 with (inject_Z 0). rewrite <- Zle_Qle. reflexivity. Qed.

Lemma inject_Z_lt1 : forall z, inject_Z z < 1 <-> (z <= 0)%Z.
Proof.
  intros z. change 1 with (inject_Z 1). rewrite <- Zlt_Qlt. lia.
Qed.

Lemma bloc_args_bad_iff : forall m k,
  rating_args_bad m 1 (Some (inject_Z (bloc_budget m k))) <-> (m <= 0 \/ bloc_budget m k <= 0)%Z.
Proof.
  intros m k. unfold RatingSpec.rating_args_bad. split.
  - intros [H|[H|[k' [Hk [H|H]]]]].
    + left. exact H.
    + exfalso. revert H. apply Qlt_not_le. reflexivity.
    + inversion Hk; subst k'. right. apply inject_Z_le0. exact H.
    + inversion Hk; subst k'. right. apply inject_Z_lt1. exact H.
  - intros [H|H]; [left; exact H|].
    right. right. eexists. split; [reflexivity|]. left. apply inject_Z_le0. exact H.
Qed.

Lemma bloc_args_ok_iff : forall m k,
  rating_args_ok m 1 (Some (inject_Z (bloc_budget m k))) <-> (1 <= m /\ 1 <= bloc_budget m k)%Z.
Proof.
  intros m k. split.
  - intros Hok. pose proof (args_ok_not_bad _ _ _ Hok) as Hnb. rewrite bloc_args_bad_iff in Hnb. lia.
  - intros Hm. destruct (args_ok_or_bad m 1 (Some (inject_Z (bloc_budget m k)))) as [H|H]; [exact H|].
    apply bloc_args_bad_iff in H. lia.
Qed.

Lemma bloc_budget_nonpos_iff : forall m k,
  (m <= 0 \/ bloc_budget m k <= 0)%Z <-> ((m <= 0)%Z \/ exists x, k = Some x /\ (x < 0)%Z).
Proof.
  intros m k. unfold OneShotSpec.bloc_budget. destruct k as [x|].
  - destruct (Z.eqb_spec x 0) as [E|E].
    + subst x. split; [intros [H|H]; left; exact H|intros [H|[x [Hx Hlt]]]; [left; exact H|]].
      inversion Hx; subst x. lia.
    + split.
      * intros [H|H]; [left; exact H|right; exists x; split; [reflexivity|lia]].
      * intros [H|[y [Hy Hlt]]]; [left; exact H|]. inversion Hy; subst y. right. lia.
  - split; [intros [H|H]; left; exact H|intros [H|[x [Hx _]]]; [left; exact H|discriminate]].
Qed.

(* the argument checks of BlocPlurality(m, k) *)
Theorem bloc_args : forall m k,
  (rating_args m 1 (Some (inject_Z (bloc_budget m k))) = inr EValue <->
     (m <= 0 \/ bloc_budget m k <= 0)%Z) /\
  ((m <= 0 \/ bloc_budget m k <= 0)%Z <-> ((m <= 0)%Z \/ exists x, k = Some x /\ (x < 0)%Z)) /\
  (forall e, rating_args m 1 (Some (inject_Z (bloc_budget m k))) = inr e -> e = EValue) /\
  (rating_args m 1 (Some (inject_Z (bloc_budget m k))) = inl tt <->
     (1 <= m /\ 1 <= bloc_budget m k)%Z) /\
  (* "inconsistent" (budget below the per-candidate limit 1) never happens on its own *)
  ((1 <= bloc_budget m k)%Z -> ~ inject_Z (bloc_budget m k) < 1).
Proof.
  intros m k. destruct (rating_args_iff m 1 (Some (inject_Z (bloc_budget m k)))) as [H1 [H2 H3]].
  split; [rewrite H1; apply bloc_args_bad_iff|]. split; [apply bloc_budget_nonpos_iff|].
  split; [exact H2|]. split; [rewrite H3; apply bloc_args_ok_iff|].
  intros Hb Hlt. apply inject_Z_lt1 in Hlt. lia.
Qed.

(* forward: a negative budget, or a non-positive seat count: ValueError for every profile, script,
   tiebreak *)
Theorem bloc_k_nonpositive : forall m k tb (p : profile) (s : mstate),
  ((m <= 0)%Z \/ exists x, k = Some x /\ (x < 0)%Z) ->
  run_rule (RBloc m k tb) p s = inr EValue.
Proof.
  intros m k tb p s H. rewrite run_bloc_is_rating. apply rating_value_error_iff. left.
  apply bloc_args_bad_iff. apply bloc_budget_nonpos_iff. exact H.
Qed.

(* k = None, k = 0 and k = m are the same election *)
Theorem bloc_k_fallback : forall m tb (p : profile),
  run_rule (RBloc m (Some 0%Z) tb) p = run_rule (RBloc m None tb) p /\
  run_rule (RBloc m (Some m) tb) p = run_rule (RBloc m None tb) p.
Proof.
  intros m tb p. split; [reflexivity|]. rewrite !run_bloc_is_rating.
  assert (E : bloc_budget m (Some m) = bloc_budget m None).
  { unfold OneShotSpec.bloc_budget. destruct (Z.eqb_spec m 0); reflexivity. }
  rewrite E. reflexivity.
Qed.

Theorem bloc_error_cases : forall m k tb (p : profile) (s : mstate) e,
  run_rule (RBloc m k tb) p s = inr e <->
  (e = EValue /\ (m <= 0 \/ bloc_budget m k <= 0)%Z) \/
  (e = EType /\ (1 <= m /\ 1 <= bloc_budget m k)%Z /\
   exists b, In b (ballots p) /\ score_ballot_bad 1 (Some (inject_Z (bloc_budget m k))) b) \/
  ((1 <= m /\ 1 <= bloc_budget m k)%Z /\
   Forall (score_ballot_ok 1 (Some (inject_Z (bloc_budget m k)))) (ballots p) /\
   run_one_shot SKBallotScores m tb p s = inr e).
Proof.
  intros m k tb p s e. rewrite run_bloc_is_rating, rating_error_cases.
  rewrite bloc_args_bad_iff, bloc_args_ok_iff. reflexivity.
Qed.

Theorem bloc_value_error_iff : forall m k tb (p : profile) (s : mstate),
  run_rule (RBloc m k tb) p s = inr EValue <->
  (m <= 0 \/ bloc_budget m k <= 0)%Z \/
  ((1 <= m /\ 1 <= bloc_budget m k)%Z /\
   Forall (score_ballot_ok 1 (Some (inject_Z (bloc_budget m k)))) (ballots p) /\
   run_one_shot SKBallotScores m tb p s = inr EValue).
Proof.
  intros m k tb p s. rewrite bloc_error_cases. split.
  - intros [[_ Hb]|[[He _]|H]]; [left; exact Hb|discriminate|right; exact H].
  - intros [Hb|H]; [left; split; [reflexivity|exact Hb]|right; right; exact H].
Qed.

(* ================================================================== *)
(** * 2. Alaska: an unknown quota name is found when the STV stage is constructed *)

(* the part of the run up to the construction of the STV object *)
Lemma run_alaska_stage_err : forall m1 m2 cfg (p : profile) (s : mstate) s0 e,
  alaska_args m1 m2 = inl tt -> ranking_validate p = inl tt -> round0 SKFpv p = inl s0 ->
  plurality_stage m1 (s_tiebreak cfg) p s0 s = inr e ->
  run_alaska m1 m2 cfg p s = inr e.
Proof.
  intros m1 m2 cfg p s s0 e Ha Hv H0 Hst. unfold Rules.run_alaska.
  rewrite mbind_mlift, Ha. rewrite mbind_mlift, Hv. rewrite mbind_mlift, H0.
  unfold mbind at 1. rewrite Hst. reflexivity.
Qed.

Lemma run_alaska_init_err : forall m1 m2 cfg (p : profile) (s sa : mstate) s0 p1 s1 e,
  alaska_args m1 m2 = inl tt -> ranking_validate p = inl tt -> round0 SKFpv p = inl s0 ->
  plurality_stage m1 (s_tiebreak cfg) p s0 s = inl ((p1, s1), sa) ->
  stv_init (with_m cfg m2) p1 = inr e ->
  run_alaska m1 m2 cfg p s = inr e.
Proof.
  intros m1 m2 cfg p s sa s0 p1 s1 e Ha Hv H0 Hst Hi. unfold Rules.run_alaska.
  rewrite mbind_mlift, Ha. rewrite mbind_mlift, Hv. rewrite mbind_mlift, H0.
  unfold mbind at 1. rewrite Hst. cbv zeta. rewrite mbind_mlift, Hi. reflexivity.
Qed.

(* the constructor of STV with an unknown quota name: TypeError for a bad ballot or (random
   transfer) a non-integral weight, otherwise ValueError — whatever the seat count *)
Lemma stv_init_bad_quota : forall cfg (p : profile), s_quota cfg = QBad ->
  stv_init cfg p =
  match stv_validate p with
  | inr e => inr e
  | inl _ =>
      if is_trandom (s_transfer cfg) && negb (forallb (fun b => is_integral (wt b)) (ballots p))
      then inr EType else inr EValue
  end.
Proof.
  intros cfg p Hq. unfold STV.stv_init, rbind. destruct (stv_validate p) as [[]|e]; [|reflexivity].
  destruct (is_trandom (s_transfer cfg) && negb (forallb (fun b => is_integral (wt b)) (ballots p)));
    [reflexivity|].
  destruct ((s_m cfg <=? 0) || (Z.of_nat (length (cands p)) <? s_m cfg))%Z; [reflexivity|].
  rewrite Hq. reflexivity.
Qed.

(* (i) exact: the stage has succeeded (its draws, if any, are consumed: the run goes on from sa),
   then STV's constructor refuses the reduced profile *)
Theorem alaska_bad_quota_after_stage : forall m1 m2 cfg (p : profile) (s sa : mstate) s0 p1 s1,
  s_quota cfg = QBad ->
  alaska_args m1 m2 = inl tt -> ranking_validate p = inl tt -> round0 SKFpv p = inl s0 ->
  plurality_stage m1 (s_tiebreak cfg) p s0 s = inl ((p1, s1), sa) ->
  run_alaska m1 m2 cfg p s =
  match stv_validate p1 with
  | inr e => inr e
  | inl _ =>
      if is_trandom (s_transfer cfg) && negb (forallb (fun b => is_integral (wt b)) (ballots p1))
      then inr EType else inr EValue
  end.
Proof.
  intros m1 m2 cfg p s sa s0 p1 s1 Hq Ha Hv H0 Hst.
  assert (Hq2 : s_quota (with_m cfg m2) = QBad) by exact Hq.
  pose proof (stv_init_bad_quota (with_m cfg m2) p1 Hq2) as Hi. cbn [with_m s_transfer] in Hi.
  destruct (stv_validate p1) as [[]|e] eqn:Ev.
  - destruct (is_trandom (s_transfer cfg) && negb (forallb (fun b => is_integral (wt b)) (ballots p1))).
    + apply (run_alaska_init_err m1 m2 cfg p s sa s0 p1 s1 EType Ha Hv H0 Hst Hi).
    + apply (run_alaska_init_err m1 m2 cfg p s sa s0 p1 s1 EValue Ha Hv H0 Hst Hi).
  - apply (run_alaska_init_err m1 m2 cfg p s sa s0 p1 s1 e Ha Hv H0 Hst Hi).
Qed.

Theorem alaska_bad_quota_value_error : forall m1 m2 cfg (p : profile) (s sa : mstate) s0 p1 s1,
  s_quota cfg = QBad ->
  alaska_args m1 m2 = inl tt -> ranking_validate p = inl tt -> round0 SKFpv p = inl s0 ->
  plurality_stage m1 (s_tiebreak cfg) p s0 s = inl ((p1, s1), sa) ->
  stv_validate p1 = inl tt ->
  ~ (s_transfer cfg = TRandom /\ exists b, In b (ballots p1) /\ is_integral (wt b) = false) ->
  run_alaska m1 m2 cfg p s = inr EValue.
Proof.
  intros m1 m2 cfg p s sa s0 p1 s1 Hq Ha Hv H0 Hst Hv1 Hn.
  rewrite (alaska_bad_quota_after_stage m1 m2 cfg p s sa s0 p1 s1 Hq Ha Hv H0 Hst), Hv1.
  destruct (is_trandom (s_transfer cfg) && negb (forallb (fun b => is_integral (wt b)) (ballots p1))) eqn:E;
    [|reflexivity].
  exfalso. apply Hn. apply andb_true_iff in E. destruct E as [E1 E2]. split.
  - destruct (s_transfer cfg); try discriminate. reflexivity.
  - apply negb_true_iff in E2. apply (forallb_integral_false_iff cand). exact E2.
Qed.

(* never a success, and the only errors are the stage's, TypeError and ValueError *)
Theorem alaska_bad_quota_never_runs : forall m1 m2 cfg (p : profile) (s : mstate),
  s_quota cfg = QBad -> forall sts s', run_alaska m1 m2 cfg p s <> inl (sts, s').
Proof.
  intros m1 m2 cfg p s Hq sts s' H.
  apply (c13_alaska_proof cand ceqb) in H.
  destruct H as [s0 [p1 [s1 [sa [t [ssts [sb [pf [_ [_ [_ [_ [Hi _]]]]]]]]]]]]].
  rewrite (stv_init_bad_quota (with_m cfg m2) p1 Hq) in Hi.
  destruct (stv_validate p1) as [[]|e]; [|discriminate].
  destruct (is_trandom (s_transfer (with_m cfg m2)) &&
            negb (forallb (fun b => is_integral (wt b)) (ballots p1))); discriminate.
Qed.

Lemma remove_prof_ballots : forall W (p p1 : profile),
  remove_cand_prof W true false p = inl p1 -> ballots p1 = remove_cand_bs W true false (ballots p).
Proof.
  intros W p p1 H. unfold Core.remove_cand_prof, Core.mk_profile in H.
  destruct (has_dup cand ceqb (set_diff cand ceqb (cands p) W)); [discriminate|].
  unfold ok in H. inversion H. reflexivity.
Qed.

Lemma stage_integral : forall W (p p1 : profile), integral_weights p ->
  remove_cand_prof W true false p = inl p1 -> integral_weights p1.
Proof.
  intros W p p1 Hint H. unfold STVSpec.integral_weights. rewrite (remove_prof_ballots W p p1 H).
  apply (remove_cand_bs_int cand ceqb). exact Hint.
Qed.

(* (iii) on a valid STV profile (with integral weights if the transfer is the random one) the
   whole run with an unknown quota name, as an equation *)
Theorem alaska_bad_quota_run : forall m1 m2 cfg (p : profile) (s : mstate),
  wf_stv0 p -> s_quota cfg = QBad -> (s_transfer cfg = TRandom -> integral_weights p) ->
  exists s0, round0 SKFpv p = inl s0 /\
    run_alaska m1 m2 cfg p s =
    match alaska_args m1 m2 with
    | inr e => inr e
    | inl _ =>
        match plurality_stage m1 (s_tiebreak cfg) p s0 s with
        | inr e => inr e
        | inl _ => inr EValue
        end
    end.
Proof.
  intros m1 m2 cfg p s Hwf Hq Hint.
  pose proof (wf_stv0_ranked cand p Hwf) as Hr. pose proof (proj1 Hr) as Hwfp.
  destruct (ranked_fpv cand ceqb ceqb_spec p Hwfp) as [d Hd].
  exists (state_of_scores cand 0 (no_group cand) (no_group cand) [] d).
  assert (H0 : round0 SKFpv p = inl (state_of_scores cand 0 (no_group cand) (no_group cand) [] d)).
  { unfold Rules.round0. cbn [Rules.score_fn]. rewrite Hd. reflexivity. }
  split; [exact H0|].
  pose proof (wf_profile_ranking_validate cand p Hwfp) as Hv.
  destruct (alaska_args m1 m2) as [[]|e] eqn:Ha.
  - destruct (plurality_stage m1 (s_tiebreak cfg) p _ s) as [[[p1 s1] sa]|e] eqn:Hst.
    + pose proof Hst as Hst'. apply (plurality_stage_iff cand ceqb) in Hst'.
      destruct Hst' as [q0 [q1 [d1 [_ [Hnp _]]]]].
      pose proof (stage_profile_wf_stv cand ceqb ceqb_spec _ p p1 Hwf Hnp) as Hwf1.
      apply (alaska_bad_quota_value_error m1 m2 cfg p s sa _ p1 s1 Hq Ha Hv H0 Hst).
      * apply (stv_validate_ok cand). exact Hwf1.
      * intros [Hk [b [Hb Hbad]]].
        pose proof (stage_integral _ p p1 (Hint Hk) Hnp) as Hint1.
        unfold STVSpec.integral_weights in Hint1. rewrite Forall_forall in Hint1.
        rewrite (Hint1 b Hb) in Hbad. discriminate.
    + apply (run_alaska_stage_err m1 m2 cfg p s _ e Ha Hv H0 Hst).
  - apply (proj1 (run_alaska_prologue cand ceqb m1 m2 cfg p s)). exact Ha.
Qed.

Theorem alaska_bad_quota_value_error_iff : forall m1 m2 cfg (p : profile) (s : mstate),
  wf_stv0 p -> s_quota cfg = QBad -> (s_transfer cfg = TRandom -> integral_weights p) ->
  exists s0, round0 SKFpv p = inl s0 /\
    (run_alaska m1 m2 cfg p s = inr EValue <->
       (m1 <= 0 \/ m2 <= 0 \/ m1 < m2)%Z \/
       ((1 <= m2 <= m1)%Z /\
        (plurality_stage m1 (s_tiebreak cfg) p s0 s = inr EValue \/
         exists p1 s1 sa, plurality_stage m1 (s_tiebreak cfg) p s0 s = inl ((p1, s1), sa)))).
Proof.
  intros m1 m2 cfg p s Hwf Hq Hint.
  destruct (alaska_bad_quota_run m1 m2 cfg p s Hwf Hq Hint) as [s0 [H0 Hrun]].
  exists s0. split; [exact H0|]. rewrite Hrun.
  destruct (alaska_args_iff m1 m2) as [A1 [A2 A3]].
  destruct (alaska_args m1 m2) as [[]|e] eqn:Ha.
  - pose proof (proj1 A3 eq_refl) as Hm.
    destruct (plurality_stage m1 (s_tiebreak cfg) p s0 s) as [[[p1 s1] sa]|e] eqn:Hst.
    + split; [intros _|reflexivity]. right. split; [exact Hm|]. right. exists p1, s1, sa. reflexivity.
    + split.
      * intros H. inversion H; subst e. right. split; [exact Hm|]. left. reflexivity.
      * intros [Hb|[_ [H|[p1 [s1 [sa H]]]]]]; [lia|inversion H; reflexivity|discriminate].
  - pose proof (A2 e eq_refl) as He. subst e. split; [intros _; left; apply A1; reflexivity|reflexivity].
Qed.

(* ================================================================== *)
(** * 3. a tied ballot reaching Alaska's STV stage *)

(* relative to the reduced profile p1: a ballot of p1 without ranking or with a tied position makes
   the constructor of the STV stage raise TypeError — before m_2 and the quota are looked at *)
Theorem alaska_stage_tied : forall m1 m2 cfg (p : profile) (s sa : mstate) s0 p1 s1,
  alaska_args m1 m2 = inl tt -> ranking_validate p = inl tt -> round0 SKFpv p = inl s0 ->
  plurality_stage m1 (s_tiebreak cfg) p s0 s = inl ((p1, s1), sa) ->
  (exists b, In b (ballots p1) /\ (rk b = [] \/ exists g, In g (rk b) /\ (1 < length g)%nat)) ->
  run_alaska m1 m2 cfg p s = inr EType.
Proof.
  intros m1 m2 cfg p s sa s0 p1 s1 Ha Hv H0 Hst Hb.
  destruct (c20_stv_no_ties_proof cand ceqb p1) as [_ [_ H]].
  destruct (H Hb (with_m cfg m2) sa) as [Hi _].
  apply (run_alaska_init_err m1 m2 cfg p s sa s0 p1 s1 EType Ha Hv H0 Hst Hi).
Qed.

(* a position holding two DIFFERENT candidates *)
Definition tied2 (r : ranking) : Prop :=
  exists g c1 c2, In g r /\ In c1 g /\ In c2 g /\ c1 <> c2.

Lemma tied2_long : forall r, tied2 r -> exists g, In g r /\ (1 < length g)%nat.
Proof.
  intros r [g [c1 [c2 [Hg [H1 [H2 Hne]]]]]]. exists g. split; [exact Hg|].
  pose proof (two_distinct_length cand g c1 c2 H1 H2 Hne). lia.
Qed.

Lemma ranking_eqb_tied2 : forall r1 r2 : ranking,
  ranking_eqb cand ceqb r1 r2 = true -> tied2 r2 -> tied2 r1.
Proof.
  intros r1 r2 H. apply (ranking_eqb_Forall2 cand ceqb ceqb_spec) in H.
  induction H as [|g1 g2 l1 l2 [Hab Hba] _ IH]; intros [g [c1 [c2 [Hg [H1 [H2 Hne]]]]]].
  - destruct Hg.
  - destruct Hg as [<-|Hg].
    + exists g1, c1, c2. split; [left; reflexivity|]. split; [apply Hba; exact H1|].
      split; [apply Hba; exact H2|exact Hne].
    + destruct IH as [g' [d1 [d2 [Hg' Hrest]]]]; [exists g, c1, c2; repeat split; assumption|].
      exists g', d1, d2. split; [right; exact Hg'|exact Hrest].
Qed.

Lemma acc_add_tied_new : forall (acc : list ballot) b, tied2 (rk b) ->
  exists k, In k (acc_add acc b) /\ tied2 (rk k).
Proof.
  induction acc as [|k0 acc IH]; intros b Hb; cbn [Core.acc_add].
  - eexists. split; [left; reflexivity|]. cbn [rk]. exact Hb.
  - destruct (key_match cand ceqb k0 b) eqn:Ek.
    + eexists. split; [left; reflexivity|]. cbn [rk].
      unfold Core.key_match in Ek. apply andb_true_iff in Ek. destruct Ek as [Ek _].
      apply (ranking_eqb_tied2 _ _ Ek Hb).
    + destruct (IH b Hb) as [k [Hk Ht]]. exists k. split; [right; exact Hk|exact Ht].
Qed.

Lemma fold_acc_tied : forall (bs acc : list ballot),
  (exists k, In k acc /\ tied2 (rk k)) \/ (exists b, In b bs /\ tied2 (rk b)) ->
  exists k, In k (fold_left acc_add bs acc) /\ tied2 (rk k).
Proof.
  induction bs as [|b0 bs IH]; intros acc H; cbn [fold_left].
  - destruct H as [H|[b [[] _]]]. exact H.
  - apply IH. destruct H as [[k [Hk Ht]]|[b [[<-|Hb] Ht]]].
    + left. destruct (acc_add_rk_keep cand ceqb acc b0 k Hk) as [k' [Hk' Hr]].
      exists k'. split; [exact Hk'|rewrite Hr; exact Ht].
    + left. apply acc_add_tied_new. exact Ht.
    + right. exists b. split; [exact Hb|exact Ht].
Qed.

(* removing W from every ballot keeps a tie between two candidates outside W on a ballot of
   positive weight *)
Lemma remove_keeps_tie : forall W (bs : list ballot) b g c1 c2,
  In b bs -> 0 < wt b -> In g (rk b) -> In c1 g -> In c2 g -> c1 <> c2 ->
  ~ In c1 W -> ~ In c2 W ->
  exists k, In k (remove_cand_bs W true false bs) /\ tied2 (rk k).
Proof.
  intros W bs b g c1 c2 Hb Hw Hg H1 H2 Hne Hn1 Hn2.
  rewrite (remove_cand_bs_unfold cand ceqb). unfold kept_of, Core.condense_bs.
  apply fold_acc_tied. right. exists (scrub cand ceqb W b).
  assert (Ht : tied2 (strip cand ceqb W (rk b))).
  { exists (filter (fun c => negb (memb cand ceqb c W)) g), c1, c2.
    assert (F1 : In c1 (filter (fun c => negb (memb cand ceqb c W)) g)).
    { apply filter_In. split; [exact H1|]. apply negb_true_iff.
      apply (Lib_sets.memb_false_iff cand ceqb ceqb_spec). exact Hn1. }
    assert (F2 : In c2 (filter (fun c => negb (memb cand ceqb c W)) g)).
    { apply filter_In. split; [exact H2|]. apply negb_true_iff.
      apply (Lib_sets.memb_false_iff cand ceqb ceqb_spec). exact Hn2. }
    split; [|split; [exact F1|split; [exact F2|exact Hne]]].
    apply (strip_groups cand ceqb). split.
    - intros E. rewrite E in F1. destruct F1.
    - exists g. split; [exact Hg|reflexivity]. }
  split.
  - apply filter_In. split; [apply in_map; exact Hb|].
    rewrite (scrub_pos cand ceqb). apply andb_true_iff. split.
    + apply Qlt_bool_iff. exact Hw.
    + destruct Ht as [g' [_ [_ [Hg' _]]]].
      destruct (strip cand ceqb W (rk b)); [destruct Hg'|reflexivity].
  - rewrite (scrub_rk cand ceqb). exact Ht.
Qed.

(* a sufficient condition on p itself: a ballot of positive weight ties two different candidates
   that the Plurality stage does not eliminate *)
Theorem alaska_tie_survives : forall m1 m2 cfg (p : profile) (s sa : mstate) s0 p1 s1,
  alaska_args m1 m2 = inl tt -> ranking_validate p = inl tt -> round0 SKFpv p = inl s0 ->
  plurality_stage m1 (s_tiebreak cfg) p s0 s = inl ((p1, s1), sa) ->
  (exists b g c1 c2, In b (ballots p) /\ 0 < wt b /\ In g (rk b) /\ In c1 g /\ In c2 g /\ c1 <> c2 /\
     ~ In c1 (flat (eliminated s1)) /\ ~ In c2 (flat (eliminated s1))) ->
  run_alaska m1 m2 cfg p s = inr EType.
Proof.
  intros m1 m2 cfg p s sa s0 p1 s1 Ha Hv H0 Hst [b [g [c1 [c2 [Hb [Hw [Hg [H1 [H2 [Hne [Hn1 Hn2]]]]]]]]]]].
  apply (alaska_stage_tied m1 m2 cfg p s sa s0 p1 s1 Ha Hv H0 Hst).
  pose proof Hst as Hst'. apply (plurality_stage_iff cand ceqb) in Hst'.
  destruct Hst' as [q0 [q1 [d1 [_ [Hnp [_ Hs1]]]]]]. subst s1. cbn [eliminated] in Hn1, Hn2.
  destruct (remove_keeps_tie (flat (remaining q1)) (ballots p) b g c1 c2 Hb Hw Hg H1 H2 Hne Hn1 Hn2)
    as [k [Hk Ht]].
  exists k. split; [rewrite (remove_prof_ballots _ p p1 Hnp); exact Hk|].
  right. apply tied2_long. exact Ht.
Qed.

(* the same with "both survive" read on the survivors' list, for duplicate-free candidates *)
Theorem alaska_tie_survives_remaining : forall m1 m2 cfg (p : profile) (s sa : mstate) s0 p1 s1,
  NoDup (cands p) ->
  alaska_args m1 m2 = inl tt -> ranking_validate p = inl tt -> round0 SKFpv p = inl s0 ->
  plurality_stage m1 (s_tiebreak cfg) p s0 s = inl ((p1, s1), sa) ->
  (exists b g c1 c2, In b (ballots p) /\ 0 < wt b /\ In g (rk b) /\ In c1 g /\ In c2 g /\ c1 <> c2 /\
     In c1 (flat (remaining s1)) /\ In c2 (flat (remaining s1))) ->
  run_alaska m1 m2 cfg p s = inr EType.
Proof.
  intros m1 m2 cfg p s sa s0 p1 s1 Hnd Ha Hv H0 Hst [b [g [c1 [c2 [Hb [Hw [Hg [H1 [H2 [Hne [Hr1 Hr2]]]]]]]]]]].
  destruct (plurality_stage_spec cand ceqb ceqb_spec m1 _ p s0 s p1 s1 sa Hnd Hst)
    as (d & el & rem & t & q0 & q1 & _ & _ & _ & _ & _ & Hkeys & _ & _ & Hfacts & _ & _ & _ & Hrem & _ & Helim & _).
  destruct Hfacts as [_ [Hperm _]].
  assert (Hndall : NoDup (flat el ++ flat rem)).
  { eapply Permutation_NoDup; [apply Permutation_sym; exact Hperm|]. rewrite Hkeys. exact Hnd. }
  destruct (Lib_sets.NoDup_app_inv _ _ Hndall) as [_ [_ Hdisj]].
  apply (alaska_tie_survives m1 m2 cfg p s sa s0 p1 s1 Ha Hv H0 Hst).
  exists b, g, c1, c2. rewrite Helim. rewrite Hrem in Hr1, Hr2.
  repeat (split; [assumption|]). split; apply Hdisj; assumption.
Qed.

(* ================================================================== *)
(** * 4. a non-positive seat count, rule by rule *)

(* raised by the constructor's own argument check: for EVERY profile and script *)
Theorem m_nonpositive_upfront : forall m, (m <= 0)%Z ->
  forall (p : profile) (s : mstate),
  (forall L k tb, run_rule (RRating m L k tb) p s = inr EValue) /\
  (forall k tb, run_rule (RLimited m k tb) p s = inr EValue) /\
  (forall k tb, run_rule (RBloc m k tb) p s = inr EValue) /\
  (forall m2 cfg, run_rule (RAlaska m m2 cfg) p s = inr EValue) /\
  (forall m1 cfg, run_rule (RAlaska m1 m cfg) p s = inr EValue) /\
  run_rule (RRandomDictator m) p s = inr EValue /\
  run_rule (RBoosted m) p s = inr EValue.
Proof.
  intros m Hm p s.
  split; [intros L k tb; apply (proj1 (rating_each_arg m L k tb p s)); exact Hm|].
  split; [intros k tb; apply limited_value_error_iff; left; right; left; exact Hm|].
  split; [intros k tb; apply bloc_k_nonpositive; left; exact Hm|].
  split; [intros m2 cfg; apply (proj1 (alaska_sizes cand ceqb ceqb_spec m m2 cfg p s)); left; exact Hm|].
  split; [intros m1 cfg; apply (proj1 (alaska_sizes cand ceqb ceqb_spec m1 m cfg p s)); right; left; exact Hm|].
  assert (Hd : dictator_args m p = inr EValue).
  { apply (proj1 (dictator_args_iff cand m p)). left. exact Hm. }
  split; cbn [Rules.run_rule]; apply (proj1 (run_dictator_prologue cand ceqb _ m p s)); exact Hd.
Qed.

(* (Boosted)RandomDictator: the seat count is checked before the profile, both bounds *)
Theorem dictator_m_range : forall boosted m (p : profile) (s : mstate),
  (m <= 0 \/ Z.of_nat (length (cands p)) < m)%Z -> run_dictator boosted m p s = inr EValue.
Proof.
  intros boosted m p s Hm. apply (proj1 (run_dictator_prologue cand ceqb boosted m p s)).
  apply (proj1 (dictator_args_iff cand m p)). exact Hm.
Qed.

(* raised later (after the profile check, by the seat-count test of the constructor for STV, by
   elect_cands_from_set_ranking for the one-shot rules): exact outcome for EVERY profile *)
Theorem stv_m_nonpositive : forall cfg (p : profile) (s : mstate), (s_m cfg <= 0)%Z ->
  run_rule (RSTV cfg) p s =
  match stv_validate p with
  | inr e => inr e
  | inl _ =>
      if is_trandom (s_transfer cfg) && negb (forallb (fun b => is_integral (wt b)) (ballots p))
      then inr EType else inr EValue
  end.
Proof.
  intros cfg p s Hm. cbn [Rules.run_rule]. unfold STV.run_stv. rewrite mbind_mlift.
  unfold STV.stv_init, rbind. destruct (stv_validate p) as [[]|e]; [|reflexivity].
  destruct (is_trandom (s_transfer cfg) && negb (forallb (fun b => is_integral (wt b)) (ballots p)));
    [reflexivity|].
  assert (E : (s_m cfg <=? 0)%Z = true) by (apply Z.leb_le; exact Hm). rewrite E. reflexivity.
Qed.

Theorem plurality_m_nonpositive : forall m tb (p : profile) (s : mstate), (m <= 0)%Z ->
  run_rule (RPlurality m tb) p s =
  match ranking_validate p with
  | inr e => inr e
  | inl _ => match first_place_votes p with inl _ => inr EValue | inr e => inr e end
  end.
Proof.
  intros m tb p s Hm. cbn [Rules.run_rule]. rewrite (run_plurality_prologue cand ceqb).
  destruct (ranking_validate p) as [[]|e]; [|reflexivity].
  apply (c20_elect_m_range_proof cand ceqb SKFpv). left. lia.
Qed.

Theorem borda_m_nonpositive : forall m v tb (p : profile) (s : mstate), (m <= 0)%Z ->
  run_rule (RBorda m v tb) p s =
  match validate_vector (match v with Some (x :: l) => x :: l | _ => default_borda cand p end) with
  | inr e => inr e
  | inl _ =>
      match ranking_validate p with
      | inr e => inr e
      | inl _ =>
          match score_rankings p (match v with Some (x :: l) => x :: l | _ => default_borda cand p end) with
          | inl _ => inr EValue
          | inr e => inr e
          end
      end
  end.
Proof.
  intros m v tb p s Hm. rewrite (run_borda_prologue cand ceqb). unfold borda_vec.
  destruct (validate_vector _) as [[]|e]; [|reflexivity].
  destruct (ranking_validate p) as [[]|e]; [|reflexivity].
  apply (c20_elect_m_range_proof cand ceqb (SKVector _)). left. lia.
Qed.

Theorem condoborda_m_nonpositive : forall m (p : profile) (s : mstate), (m <= 0)%Z ->
  run_rule (RCondoBorda m) p s =
  match ranking_validate p with
  | inr e => inr e
  | inl _ =>
      match borda_scores p with
      | inr e => inr e
      | inl _ => match dominating_tiers p with inr e => inr e | inl _ => inr EValue end
      end
  end.
Proof.
  intros m p s Hm. cbn [Rules.run_rule]. unfold Rules.run_condo. rewrite mbind_mlift.
  destruct (ranking_validate p) as [[]|e]; [|reflexivity].
  unfold Rules.round0. cbn [Rules.score_fn]. rewrite mbind_mlift.
  destruct (borda_scores p) as [d|e]; [|reflexivity]. cbn [rbind ok].
  unfold mbind at 1. unfold Rules.condo_step. rewrite mbind_mlift.
  destruct (dominating_tiers p) as [t|e]; [|reflexivity].
  unfold mbind at 1. rewrite (elect_top_m_range cand ceqb); [reflexivity|]. left. lia.
Qed.

(* on well-formed inputs: ValueError outright *)
Theorem m_nonpositive_wf : forall m (p : profile) (s : mstate), (m <= 0)%Z ->
  (forall cfg, s_m cfg = m -> wf_stv0 p -> (s_transfer cfg = TRandom -> integral_weights p) ->
     run_rule (RSTV cfg) p s = inr EValue) /\
  (forall tb, wf_profile p -> run_rule (RPlurality m tb) p s = inr EValue) /\
  (forall v tb, wf_profile p ->
     validate_vector (match v with Some (x :: l) => x :: l | _ => default_borda cand p end) = inl tt ->
     run_rule (RBorda m v tb) p s = inr EValue).
Proof.
  intros m p s Hm. split; [|split].
  - intros cfg Hcfg Hwf Hint. rewrite stv_m_nonpositive by lia.
    rewrite (stv_validate_ok cand p Hwf).
    destruct (is_trandom (s_transfer cfg) && negb (forallb (fun b => is_integral (wt b)) (ballots p))) eqn:E;
      [|reflexivity].
    exfalso. apply andb_true_iff in E. destruct E as [E1 E2]. apply negb_true_iff in E2.
    assert (Hk : s_transfer cfg = TRandom) by (destruct (s_transfer cfg); try discriminate; reflexivity).
    apply (integral_weights_forallb cand) in Hint; [|exact Hk]. congruence.
  - intros tb Hwf. cbn [Rules.run_rule].
    apply (c20_plurality_m_range_proof cand ceqb ceqb_spec m tb p s Hwf). left. lia.
  - intros v tb Hwf Hvec. rewrite borda_m_nonpositive by exact Hm. rewrite Hvec.
    rewrite (wf_profile_ranking_validate cand p Hwf).
    destruct (score_rankings_succeeds cand ceqb ceqb_spec p _ Hwf Hvec) as [d Hd]. rewrite Hd. reflexivity.
Qed.

(* ================================================================== *)
(** * 5. an empty score vector for Borda *)

Theorem borda_empty_vector : forall m tb (p : profile),
  run_rule (RBorda m (Some []) tb) p = run_rule (RBorda m None tb) p /\
  run_rule (RBorda m (Some (default_borda cand p)) tb) p = run_rule (RBorda m None tb) p /\
  UpfrontSpec.upfront cand (RBorda m (Some []) tb) p = UpfrontSpec.upfront cand (RBorda m None tb) p.
Proof.
  intros m tb p. split; [reflexivity|]. split; [|reflexivity].
  cbn [Rules.run_rule]. destruct (default_borda cand p) as [|x l]; reflexivity.
Qed.

End Rules2.
