(* Proofs/ParamBridge.v — bridging lemmas between Paramcoq's relational vocabulary and the rename
   functions of Spec/Rename.v.  The candidate relation is instantiated with the graph of [f],
   [G f a b := b = f a]; every generated relation [T_R A B (G f)] then IS the graph of [rn_T f]:
       [bridges R g] :=  (forall x, R x (g x))  *  (forall x y, R x y -> y = g x). *)
From Param Require Import Param.
From VK Require Import Base Core STV Pairwise Rules ParamArith ParamModel Rename.

Definition bridges {X Y : Type} (R : X -> Y -> Type) (g : X -> Y) : Type :=
  ((forall x, R x (g x)) * (forall x y, R x y -> y = g x))%type.

Definition G {A B : Type} (f : A -> B) : A -> B -> Type := fun a b => b = f a.

Lemma bridges_G : forall A B (f : A -> B), bridges (G f) f.
Proof. intros A B f; split; [intros x; reflexivity|intros x y H; exact H]. Qed.

Lemma bridges_ext : forall X Y (R : X -> Y -> Type) g g',
  bridges R g -> (forall x, g x = g' x) -> bridges R g'.
Proof.
  intros X Y R g g' [Hi He] Hext; split.
  - intros x; rewrite <- Hext; apply Hi.
  - intros x y H; rewrite <- Hext; apply He; exact H.
Qed.

(* ---- ground types: the relation is equality ---- *)
Lemma bridges_ground : forall X (R : X -> X -> Type),
  (forall x, R x x) -> (forall x y, R x y -> x = y) -> bridges R (fun x => x).
Proof. intros X R Hr He; split; [exact Hr|intros x y H; symmetry; apply He; exact H]. Qed.

Lemma bridges_positive : bridges positive_R (fun x => x).
Proof. apply bridges_ground; [exact positive_R_refl|exact positive_R_eq]. Qed.
Lemma bridges_Z : bridges Z_R (fun x => x).
Proof. apply bridges_ground; [exact Z_R_refl|exact Z_R_eq]. Qed.
Lemma bridges_Q : bridges Q_R (fun x => x).
Proof. apply bridges_ground; [exact Q_R_refl|exact Q_R_eq]. Qed.
Lemma bridges_nat : bridges nat_R (fun x => x).
Proof. apply bridges_ground; [exact nat_R_refl|exact nat_R_eq]. Qed.
Lemma bridges_bool : bridges bool_R (fun x => x).
Proof. apply bridges_ground; [exact bool_R_refl|exact bool_R_eq]. Qed.
Lemma bridges_unit : bridges unit_R (fun x => x).
Proof. apply bridges_ground; [exact unit_R_refl|intros [] [] _; reflexivity]. Qed.
Lemma bridges_exn : bridges exn_R (fun x => x).
Proof.
  apply bridges_ground; [intros []; constructor|intros x y H; destruct H; reflexivity].
Qed.
Lemma bridges_tb_kind : bridges tb_kind_R (fun x => x).
Proof.
  apply bridges_ground; [intros []; constructor|intros x y H; destruct H; reflexivity].
Qed.
Lemma bridges_quota_kind : bridges quota_kind_R (fun x => x).
Proof.
  apply bridges_ground; [intros []; constructor|intros x y H; destruct H; reflexivity].
Qed.
Lemma bridges_transfer_kind : bridges transfer_kind_R (fun x => x).
Proof.
  apply bridges_ground; [intros []; constructor|intros x y H; destruct H; reflexivity].
Qed.

(* ---- type constructors ---- *)
Lemma bridges_list : forall X Y (R : X -> Y -> Type) g,
  bridges R g -> bridges (list_R X Y R) (map g).
Proof.
  intros X Y R g [Hi He]; split.
  - intros l; induction l as [|a l IH]; cbn [map]; constructor; [apply Hi|exact IH].
  - intros l l' H; induction H as [|a b Hab l l' Hl IH]; [reflexivity|].
    cbn [map]. rewrite (He _ _ Hab), IH. reflexivity.
Qed.
Lemma bridges_list_id : forall X (R : X -> X -> Type),
  bridges R (fun x => x) -> bridges (list_R X X R) (fun l => l).
Proof.
  intros X R H. apply (bridges_ext _ _ _ (map (fun x => x))); [apply bridges_list; exact H|].
  intros l; apply map_id.
Qed.
Lemma bridges_prod : forall X Y (R : X -> Y -> Type) g X' Y' (R' : X' -> Y' -> Type) g',
  bridges R g -> bridges R' g' ->
  bridges (prod_R X Y R X' Y' R') (fun p => (g (fst p), g' (snd p))).
Proof.
  intros X Y R g X' Y' R' g' [Hi He] [Hi' He']; split.
  - intros [a b]; constructor; [apply Hi|apply Hi'].
  - intros p q H; destruct H as [a b Hab a' b' Hab']. cbn [fst snd].
    rewrite (He _ _ Hab), (He' _ _ Hab'). reflexivity.
Qed.
Lemma bridges_prod_id : forall X (R : X -> X -> Type) X' (R' : X' -> X' -> Type),
  bridges R (fun x => x) -> bridges R' (fun x => x) ->
  bridges (prod_R X X R X' X' R') (fun p => p).
Proof.
  intros X R X' R' H H'.
  apply (bridges_ext _ _ _ _ _ (bridges_prod _ _ _ _ _ _ _ _ H H')). intros [a b]; reflexivity.
Qed.
Lemma bridges_option : forall X Y (R : X -> Y -> Type) g,
  bridges R g -> bridges (option_R X Y R) (option_map g).
Proof.
  intros X Y R g [Hi He]; split.
  - intros [a|]; constructor; apply Hi.
  - intros o o' H; destruct H as [a b Hab|]; [|reflexivity].
    cbn [option_map]. rewrite (He _ _ Hab). reflexivity.
Qed.
Lemma bridges_option_id : forall X (R : X -> X -> Type),
  bridges R (fun x => x) -> bridges (option_R X X R) (fun o => o).
Proof.
  intros X R H. apply (bridges_ext _ _ _ _ _ (bridges_option _ _ _ _ H)).
  intros [a|]; reflexivity.
Qed.
Definition sum_map {X Y X' Y'} (g : X -> Y) (g' : X' -> Y') (s : X + X') : Y + Y' :=
  match s with inl x => inl (g x) | inr x => inr (g' x) end.
Lemma bridges_sum : forall X Y (R : X -> Y -> Type) g X' Y' (R' : X' -> Y' -> Type) g',
  bridges R g -> bridges R' g' -> bridges (sum_R X Y R X' Y' R') (sum_map g g').
Proof.
  intros X Y R g X' Y' R' g' [Hi He] [Hi' He']; split.
  - intros [a|b]; constructor; [apply Hi|apply Hi'].
  - intros p q H; destruct H as [a b Hab|a b Hab]; cbn [sum_map];
      [rewrite (He _ _ Hab)|rewrite (He' _ _ Hab)]; reflexivity.
Qed.
Lemma bridges_res : forall X Y (R : X -> Y -> Type) g,
  bridges R g -> bridges (res_R X Y R) (rn_res g).
Proof.
  intros X Y R g H. unfold res_R.
  apply (bridges_ext _ _ _ _ _ (bridges_sum _ _ _ _ _ _ _ _ H bridges_exn)).
  intros [x|e]; reflexivity.
Qed.

(* ---- model types, at the graph of [f] ---- *)
Section Model.
Variables A B : Type.
Variable f : A -> B.
Notation Gf := (G f).

Lemma bridges_cset : bridges (cset_R A B Gf) (rn_cset f).
Proof. apply bridges_list, bridges_G. Qed.
Lemma bridges_ranking : bridges (ranking_R A B Gf) (rn_ranking f).
Proof. apply bridges_list, bridges_cset. Qed.
Lemma bridges_scores : bridges (scores_R A B Gf) (rn_scores f).
Proof. apply bridges_list. apply (bridges_prod _ _ _ _ _ _ _ _ (bridges_G _ _ f) bridges_Q). Qed.

Lemma bridges_ballot : bridges (ballot_R A B Gf) (rn_ballot f).
Proof.
  pose proof bridges_ranking as [Ri Re]. pose proof bridges_scores as [Si Se].
  pose proof bridges_Q as [Qi Qe].
  pose proof (bridges_option_id _ _ bridges_positive) as [Oi Oe].
  pose proof (bridges_option_id _ _ (bridges_list_id _ _ bridges_positive)) as [Vi Ve].
  split.
  - intros [r w d i v]. unfold rn_ballot; cbn [rk wt sc bid vs].
    constructor; [apply Ri|apply Qi|apply Si|apply Oi|apply Vi].
  - intros b b' H. destruct H as [r r' Hr w w' Hw d d' Hd i i' Hi v v' Hv].
    unfold rn_ballot; cbn [rk wt sc bid vs].
    rewrite (Re _ _ Hr), (Qe _ _ Hw), (Se _ _ Hd), (Oe _ _ Hi), (Ve _ _ Hv). reflexivity.
Qed.
Lemma bridges_ballots : bridges (list_R _ _ (ballot_R A B Gf)) (rn_ballots f).
Proof. apply bridges_list, bridges_ballot. Qed.

Lemma bridges_profile : bridges (profile_R A B Gf) (rn_profile f).
Proof.
  pose proof bridges_ballots as [Bi Be]. pose proof bridges_cset as [Ci Ce].
  split.
  - intros [bs cs]. unfold rn_profile; cbn [ballots cands]. constructor; [apply Bi|apply Ci].
  - intros p p' H. destruct H as [bs bs' Hb cs cs' Hc].
    unfold rn_profile; cbn [ballots cands]. rewrite (Be _ _ Hb), (Ce _ _ Hc). reflexivity.
Qed.

Lemma bridges_tiebreak :
  bridges (prod_R _ _ (cset_R A B Gf) _ _ (ranking_R A B Gf)) (rn_tiebreak f).
Proof. apply bridges_prod; [apply bridges_cset|apply bridges_ranking]. Qed.

Lemma bridges_state : bridges (estate_R A B Gf) (rn_state f).
Proof.
  pose proof bridges_ranking as [Ri Re]. pose proof bridges_scores as [Si Se].
  pose proof bridges_Z as [Zi Ze]. pose proof (bridges_list _ _ _ _ bridges_tiebreak) as [Ti Te].
  split.
  - intros [n r e x t d]. unfold rn_state; cbn [rnd remaining elected eliminated tiebreaks escores].
    constructor; [apply Zi|apply Ri|apply Ri|apply Ri|apply Ti|apply Si].
  - intros s s' H. destruct H as [n n' Hn r r' Hr e e' He x x' Hx t t' Ht d d' Hd].
    unfold rn_state; cbn [rnd remaining elected eliminated tiebreaks escores].
    rewrite (Ze _ _ Hn), (Re _ _ Hr), (Re _ _ He), (Re _ _ Hx), (Te _ _ Ht), (Se _ _ Hd).
    reflexivity.
Qed.
Lemma bridges_states : bridges (list_R _ _ (estate_R A B Gf)) (rn_states f).
Proof. apply bridges_list, bridges_state. Qed.

Lemma bridges_pop :
  bridges (list_R _ _ (prod_R _ _ (ranking_R A B Gf) Q Q Q_R)) (rn_pop f).
Proof. apply bridges_list. apply (bridges_prod _ _ _ _ _ _ _ _ bridges_ranking bridges_Q). Qed.

Lemma bridges_draw : bridges (draw_R A B Gf) (rn_draw f).
Proof.
  pose proof bridges_cset as [Ci Ce]. pose proof bridges_ranking as [Ri Re].
  pose proof (bridges_list _ _ _ _ bridges_ranking) as [Li Le].
  pose proof bridges_Q as [Qi Qe]. pose proof (bridges_list_id _ _ bridges_nat) as [Ni Ne].
  split.
  - intros [l|r|l|q|c|l]; cbn [rn_draw]; constructor;
      [apply Ci|apply Ri|apply Li|apply Qi|reflexivity|apply Ni].
  - intros d d' H. destruct H as [l l' H|r r' H|l l' H|q q' H|c c' H|l l' H]; cbn [rn_draw].
    + rewrite (Ce _ _ H); reflexivity.
    + rewrite (Re _ _ H); reflexivity.
    + rewrite (Le _ _ H); reflexivity.
    + rewrite (Qe _ _ H); reflexivity.
    + unfold G in H; rewrite H; reflexivity.
    + rewrite (Ne _ _ H); reflexivity.
Qed.

Lemma bridges_call : bridges (call_R A B Gf) (rn_call f).
Proof.
  pose proof bridges_cset as [Ci Ce]. pose proof bridges_pop as [Pi Pe].
  pose proof bridges_scores as [Si Se].
  pose proof bridges_Z as [Zi Ze]. pose proof bridges_nat as [Ni Ne].
  split.
  - intros [pop|pop|pop k| |pop|n]; cbn [rn_call]; constructor;
      first [apply Ci|apply Pi|apply Si|apply Zi|apply Ni].
  - intros c c' H.
    destruct H as [p p' H|p p' H|p p' H k k' Hk| |p p' H|n n' H]; cbn [rn_call].
    + rewrite (Ce _ _ H); reflexivity.
    + rewrite (Pe _ _ H); reflexivity.
    + rewrite (Pe _ _ H), (Ze _ _ Hk); reflexivity.
    + reflexivity.
    + rewrite (Se _ _ H); reflexivity.
    + rewrite (Ne _ _ H); reflexivity.
Qed.

Lemma bridges_mstate : bridges (mstate_R A B Gf) (rn_mstate f).
Proof.
  pose proof (bridges_list _ _ _ _ bridges_draw) as [Di De].
  pose proof (bridges_list _ _ _ _ bridges_call) as [Ci Ce].
  split.
  - intros [s l]. unfold rn_mstate; cbn [scr lg]. constructor; [apply Di|apply Ci].
  - intros s s' H. destruct H as [d d' Hd l l' Hl]. unfold rn_mstate; cbn [scr lg].
    rewrite (De _ _ Hd), (Ce _ _ Hl). reflexivity.
Qed.

(* a monadic result *)
Lemma bridges_mres : forall X Y (R : X -> Y -> Type) g,
  bridges R g ->
  bridges (res_R _ _ (prod_R X Y R _ _ (mstate_R A B Gf))) (rn_mres f g).
Proof.
  intros X Y R g H.
  apply (bridges_ext _ _ _ _ _ (bridges_res _ _ _ _ (bridges_prod _ _ _ _ _ _ _ _ H bridges_mstate))).
  intros [[x s]|e]; reflexivity.
Qed.

Lemma bridges_edges :
  bridges (list_R _ _ (prod_R _ _ (prod_R A B Gf A B Gf) Q Q Q_R)) (rn_edges f).
Proof.
  apply bridges_list.
  apply (bridges_prod _ _ _ _ _ _ _ _
           (bridges_prod _ _ _ _ _ _ _ _ (bridges_G _ _ f) (bridges_G _ _ f)) bridges_Q).
Qed.

Lemma bridges_pwc : bridges (pwc_R A B Gf) (rn_pwc f).
Proof.
  pose proof bridges_cset as [Ci Ce]. pose proof bridges_edges as [Ei Ee].
  pose proof bridges_ranking as [Ri Re].
  split.
  - intros [c e t]. unfold rn_pwc; cbn [pw_cands pw_dict pw_tiers].
    constructor; [apply Ci|apply Ei|apply Ri].
  - intros g g' H. destruct H as [c c' Hc e e' He t t' Ht].
    unfold rn_pwc; cbn [pw_cands pw_dict pw_tiers].
    rewrite (Ce _ _ Hc), (Ee _ _ He), (Re _ _ Ht). reflexivity.
Qed.

Lemma bridges_elect :
  bridges (prod_R _ _ (prod_R _ _ (ranking_R A B Gf) _ _ (ranking_R A B Gf)) _ _
             (option_R _ _ (prod_R _ _ (cset_R A B Gf) _ _ (ranking_R A B Gf))))
          (rn_elect f).
Proof.
  apply (bridges_prod _ _ _ _ _ _ _ _
           (bridges_prod _ _ _ _ _ _ _ _ bridges_ranking bridges_ranking)
           (bridges_option _ _ _ _ bridges_tiebreak)).
Qed.

End Model.

(* ---- configuration types do not mention candidates ---- *)
Lemma bridges_stv_cfg : bridges stv_cfg_R (fun x => x).
Proof.
  apply bridges_ground.
  - intros [m q s t tb]. constructor;
      [apply Z_R_refl|apply (fst bridges_quota_kind)|apply bool_R_refl
      |apply (fst bridges_transfer_kind)|apply (fst (bridges_option_id _ _ bridges_tb_kind))].
  - intros c c' H. destruct H as [m m' Hm q q' Hq s s' Hs t t' Ht tb tb' Htb].
    rewrite <- (snd bridges_Z _ _ Hm), <- (snd bridges_quota_kind _ _ Hq),
      <- (snd bridges_bool _ _ Hs), <- (snd bridges_transfer_kind _ _ Ht),
      <- (snd (bridges_option_id _ _ bridges_tb_kind) _ _ Htb). reflexivity.
Qed.

Lemma bridges_rule : bridges rule_R (fun x => x).
Proof.
  pose proof bridges_Z as [Zi Ze]. pose proof bridges_Q as [Qi Qe].
  pose proof bridges_stv_cfg as [Ci Ce].
  pose proof (bridges_option_id _ _ bridges_tb_kind) as [Ti Te].
  pose proof (bridges_option_id _ _ (bridges_list_id _ _ bridges_Q)) as [Vi Ve].
  pose proof (bridges_option_id _ _ bridges_Q) as [OQi OQe].
  pose proof (bridges_option_id _ _ bridges_Z) as [OZi OZe].
  apply bridges_ground.
  - intros [cfg|m tb|m v tb|m L k tb|m k tb|m k tb| |m|tb|m1 m2 cfg|m|m]; constructor;
      first [apply Zi|apply Qi|apply Ci|apply Ti|apply Vi|apply OQi|apply OZi].
  - intros r r' H; destruct H;
      repeat match goal with
      | H : Z_R _ _ |- _ => apply Ze in H
      | H : Q_R _ _ |- _ => apply Qe in H
      | H : stv_cfg_R _ _ |- _ => apply Ce in H
      | H : option_R tb_kind _ _ _ _ |- _ => apply Te in H
      | H : option_R (list Q) _ _ _ _ |- _ => apply Ve in H
      | H : option_R Q _ _ _ _ |- _ => apply OQe in H
      | H : option_R Z _ _ _ _ |- _ => apply OZe in H
      end; subst; reflexivity.
Qed.

(* the premise on the equality tests *)
Lemma ceqb_G : forall A B (ea : A -> A -> bool) (eb : B -> B -> bool) (f : A -> B),
  (forall x y, eb (f x) (f y) = ea x y) ->
  forall (a : A) (b : B), G f a b -> forall (a' : A) (b' : B), G f a' b' ->
  bool_R (ea a a') (eb b b').
Proof.
  intros A B ea eb f H a b Hab a' b' Hab'. unfold G in Hab, Hab'. subst b b'.
  rewrite H. apply bool_R_refl.
Qed.
