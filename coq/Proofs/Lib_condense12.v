(* Proofs/Lib_condense12.v — what C12/C03 need to know about [condense_bs]:
   it preserves total weight, and on score-free ballots the weight carried by every ranking;
   every output ranking is the ranking of an input ballot and every input ranking is matched. *)
From VK Require Import Base Core EditSpec Lib_rk.
From Coq Require Import Permutation Lia Lqa Setoid Morphisms.

Section WithCand.
Variable cand : Type.
Variable ceqb : cand -> cand -> bool.
Hypothesis ceqb_spec : forall a b, reflect (a = b) (ceqb a b).

Notation ranking := (ranking cand).
Notation ballot := (ballot cand).
Notation ranking_eqb := (ranking_eqb cand ceqb).
Notation wtof_rk := (wtof_rk cand ceqb).
Notation acc_add := (acc_add cand ceqb).
Notation condense_bs := (condense_bs cand ceqb).
Notation key_match := (key_match cand ceqb).
Notation total_wt := (total_wt cand).
Notation score_free := (score_free cand).
Notation all_pos := (all_pos cand).

Lemma key_match_sf : forall k b : ballot,
  sc k = [] -> sc b = [] -> key_match k b = ranking_eqb (rk k) (rk b).
Proof.
  intros k b Hk Hb. unfold Core.key_match. rewrite Hk, Hb. cbn. apply andb_true_r.
Qed.

Lemma total_wt_cons : forall (b : ballot) bs, total_wt (b :: bs) = wt b + total_wt bs.
Proof. reflexivity. Qed.

Lemma total_wt_app : forall l1 l2 : list ballot, total_wt (l1 ++ l2) == total_wt l1 + total_wt l2.
Proof. intros l1 l2. unfold Core.total_wt. rewrite map_app, qsum_app. reflexivity. Qed.

(* ---------- one insertion ---------- *)

Lemma acc_add_total : forall acc b, total_wt (acc_add acc b) == total_wt acc + wt b.
Proof.
  induction acc as [|k acc IH]; intros b; cbn [Core.acc_add].
  - rewrite total_wt_cons. cbn [wt]. unfold Core.total_wt. cbn [map]. rewrite qsum_nil. lra.
  - destruct (key_match k b).
    + rewrite !total_wt_cons. cbn [wt]. lra.
    + rewrite !total_wt_cons, IH. lra.
Qed.

Lemma acc_add_sf : forall acc b, score_free acc -> sc b = [] -> score_free (acc_add acc b).
Proof.
  unfold EditSpec.score_free.
  induction acc as [|k acc IH]; intros b Hacc Hb; cbn [Core.acc_add].
  - constructor; [exact Hb|constructor].
  - inversion Hacc as [|x l Hk Hrest]; subst. destruct (key_match k b).
    + constructor; [exact Hk|exact Hrest].
    + constructor; [exact Hk|]. apply IH; assumption.
Qed.

Lemma acc_add_pos : forall acc b, all_pos acc -> 0 < wt b -> all_pos (acc_add acc b).
Proof.
  unfold EditSpec.all_pos.
  induction acc as [|k acc IH]; intros b Hacc Hb; cbn [Core.acc_add].
  - constructor; [exact Hb|constructor].
  - inversion Hacc as [|x l Hk Hrest]; subst. destruct (key_match k b).
    + constructor; [cbn [wt]; lra|exact Hrest].
    + constructor; [exact Hk|]. apply IH; assumption.
Qed.

Lemma acc_add_wtof : forall r acc b, score_free acc -> sc b = [] ->
  wtof_rk r (acc_add acc b) == wtof_rk r acc + (if ranking_eqb r (rk b) then wt b else 0).
Proof.
  unfold EditSpec.score_free.
  intros r. induction acc as [|k acc IH]; intros b Hacc Hb; cbn [Core.acc_add].
  - rewrite wtof_rk_cons, wtof_rk_nil. cbn [rk wt]. lra.
  - inversion Hacc as [|x l Hk Hrest]; subst.
    rewrite (key_match_sf k b Hk Hb).
    destruct (ranking_eqb (rk k) (rk b)) eqn:E.
    + rewrite !wtof_rk_cons. cbn [rk wt].
      rewrite <- (ranking_eqb_compat_r cand ceqb ceqb_spec r _ _ E).
      destruct (ranking_eqb r (rk k)); lra.
    + rewrite !wtof_rk_cons, (IH b Hrest Hb). lra.
Qed.

(* where the rankings of the accumulator come from *)
Lemma acc_add_rk_in : forall acc b k,
  In k (acc_add acc b) -> (exists k0, In k0 acc /\ rk k = rk k0) \/ rk k = rk b.
Proof.
  induction acc as [|k0 acc IH]; intros b k; cbn [Core.acc_add].
  - intros [<-|[]]. right. reflexivity.
  - destruct (key_match k0 b).
    + intros [Hk|H].
      * left. exists k0. split; [left; reflexivity|rewrite <- Hk; reflexivity].
      * left. exists k. split; [right; exact H|reflexivity].
    + intros [Hk|H].
      * left. exists k. split; [left; exact Hk|reflexivity].
      * destruct (IH b k H) as [(k1 & Hk1 & Hr)|Hr].
        -- left. exists k1. split; [right; exact Hk1|exact Hr].
        -- right. exact Hr.
Qed.

Lemma acc_add_rk_keep : forall acc b k0,
  In k0 acc -> exists k, In k (acc_add acc b) /\ rk k = rk k0.
Proof.
  induction acc as [|k1 acc IH]; intros b k0; cbn [Core.acc_add].
  - intros [].
  - destruct (key_match k1 b).
    + intros [<-|H].
      * eexists. split; [left; reflexivity|reflexivity].
      * exists k0. split; [right; exact H|reflexivity].
    + intros [<-|H].
      * exists k1. split; [left; reflexivity|reflexivity].
      * destruct (IH b k0 H) as (k & Hk & Hr). exists k. split; [right; exact Hk|exact Hr].
Qed.

Lemma acc_add_rk_new : forall acc b, score_free acc -> sc b = [] ->
  exists k, In k (acc_add acc b) /\ ranking_eqb (rk k) (rk b) = true.
Proof.
  unfold EditSpec.score_free.
  induction acc as [|k1 acc IH]; intros b Hacc Hb; cbn [Core.acc_add].
  - eexists. split; [left; reflexivity|]. cbn [rk]. apply ranking_eqb_refl. exact ceqb_spec.
  - inversion Hacc as [|x l Hk Hrest]; subst.
    rewrite (key_match_sf k1 b Hk Hb).
    destruct (ranking_eqb (rk k1) (rk b)) eqn:E.
    + eexists. split; [left; reflexivity|]. cbn [rk]. exact E.
    + destruct (IH b Hrest Hb) as (k & Hk' & Hr). exists k. split; [right; exact Hk'|exact Hr].
Qed.

(* ---------- the fold ---------- *)

Lemma fold_acc_total : forall bs acc,
  total_wt (fold_left acc_add bs acc) == total_wt acc + total_wt bs.
Proof.
  induction bs as [|b bs IH]; intros acc; cbn [fold_left].
  - unfold Core.total_wt at 3. cbn [map]. rewrite qsum_nil. lra.
  - rewrite IH, acc_add_total, total_wt_cons. lra.
Qed.

Lemma fold_acc_sf : forall bs acc, score_free acc -> score_free bs ->
  score_free (fold_left acc_add bs acc).
Proof.
  induction bs as [|b bs IH]; intros acc Hacc Hbs; cbn [fold_left].
  - exact Hacc.
  - inversion Hbs as [|x l Hb Hrest]; subst. apply IH; [|exact Hrest].
    apply acc_add_sf; assumption.
Qed.

Lemma fold_acc_pos : forall bs acc, all_pos acc -> all_pos bs ->
  all_pos (fold_left acc_add bs acc).
Proof.
  induction bs as [|b bs IH]; intros acc Hacc Hbs; cbn [fold_left].
  - exact Hacc.
  - inversion Hbs as [|x l Hb Hrest]; subst. apply IH; [|exact Hrest].
    apply acc_add_pos; assumption.
Qed.

Lemma fold_acc_wtof : forall r bs acc, score_free acc -> score_free bs ->
  wtof_rk r (fold_left acc_add bs acc) == wtof_rk r acc + wtof_rk r bs.
Proof.
  intros r. induction bs as [|b bs IH]; intros acc Hacc Hbs; cbn [fold_left].
  - rewrite wtof_rk_nil. lra.
  - inversion Hbs as [|x l Hb Hrest]; subst.
    rewrite (IH _ (acc_add_sf acc b Hacc Hb) Hrest).
    rewrite (acc_add_wtof r acc b Hacc Hb), wtof_rk_cons. lra.
Qed.

Lemma fold_acc_rk_in : forall bs acc k,
  In k (fold_left acc_add bs acc) ->
  (exists k0, In k0 acc /\ rk k = rk k0) \/ (exists b, In b bs /\ rk k = rk b).
Proof.
  induction bs as [|b bs IH]; intros acc k; cbn [fold_left].
  - intros H. left. exists k. split; [exact H|reflexivity].
  - intros H. destruct (IH _ _ H) as [(k0 & Hk0 & Hr)|(b' & Hb' & Hr)].
    + destruct (acc_add_rk_in acc b k0 Hk0) as [(k1 & Hk1 & Hr1)|Hr1].
      * left. exists k1. split; [exact Hk1|congruence].
      * right. exists b. split; [left; reflexivity|congruence].
    + right. exists b'. split; [right; exact Hb'|exact Hr].
Qed.

Lemma fold_acc_rk_keep : forall bs acc k0,
  In k0 acc -> exists k, In k (fold_left acc_add bs acc) /\ rk k = rk k0.
Proof.
  induction bs as [|b bs IH]; intros acc k0 H; cbn [fold_left].
  - exists k0. split; [exact H|reflexivity].
  - destruct (acc_add_rk_keep acc b k0 H) as (k1 & Hk1 & Hr1).
    destruct (IH _ _ Hk1) as (k & Hk & Hr). exists k. split; [exact Hk|congruence].
Qed.

Lemma fold_acc_rk_matched : forall bs acc b, score_free acc -> score_free bs -> In b bs ->
  exists k, In k (fold_left acc_add bs acc) /\ ranking_eqb (rk k) (rk b) = true.
Proof.
  induction bs as [|b0 bs IH]; intros acc b Hacc Hbs Hin; cbn [fold_left].
  - destruct Hin.
  - inversion Hbs as [|x l Hb0 Hrest]; subst. destruct Hin as [<-|Hin].
    + destruct (acc_add_rk_new acc b0 Hacc Hb0) as (k1 & Hk1 & Hr1).
      destruct (fold_acc_rk_keep bs _ k1 Hk1) as (k & Hk & Hr).
      exists k. split; [exact Hk|]. rewrite Hr. exact Hr1.
    + apply IH; [apply acc_add_sf; assumption|exact Hrest|exact Hin].
Qed.

(* ---------- condense_bs ---------- *)

Theorem condense_total : forall bs, total_wt (condense_bs bs) == total_wt bs.
Proof.
  intros bs. unfold Core.condense_bs. rewrite fold_acc_total.
  unfold Core.total_wt at 1. cbn [map]. rewrite qsum_nil. lra.
Qed.

Theorem condense_sf : forall bs, score_free bs -> score_free (condense_bs bs).
Proof. intros bs H. apply fold_acc_sf; [constructor|exact H]. Qed.

Theorem condense_pos : forall bs, all_pos bs -> all_pos (condense_bs bs).
Proof. intros bs H. apply fold_acc_pos; [constructor|exact H]. Qed.

Theorem condense_wtof : forall r bs, score_free bs -> wtof_rk r (condense_bs bs) == wtof_rk r bs.
Proof.
  intros r bs H. unfold Core.condense_bs. rewrite fold_acc_wtof; [|constructor|exact H].
  rewrite wtof_rk_nil. lra.
Qed.

(* every output ranking IS the ranking of some input ballot (the first of its class) *)
Theorem condense_rk_in : forall bs k, In k (condense_bs bs) -> exists b, In b bs /\ rk k = rk b.
Proof.
  intros bs k H. destruct (fold_acc_rk_in bs [] k H) as [(k0 & [] & _)|Hb]. exact Hb.
Qed.

(* every input ranking is matched by an output ballot *)
Theorem condense_rk_matched : forall bs b, score_free bs -> In b bs ->
  exists k, In k (condense_bs bs) /\ ranking_eqb (rk k) (rk b) = true.
Proof. intros bs b H Hin. apply fold_acc_rk_matched; [constructor|exact H|exact Hin]. Qed.

Lemma condense_single : forall b : ballot,
  condense_bs [b] = [mkBallot (rk b) (wt b) (sc b) None None].
Proof. reflexivity. Qed.

End WithCand.
