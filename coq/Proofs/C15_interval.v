(* Proofs/C15_interval.v — C15, preference intervals: mk_interval (PreferenceInterval.__init__) and
   combine_intervals (combine_preference_intervals). *)
From VK Require Import Base Core GenValidation PrefInterval BTSpec Lib_rk Lib_sets.
From Coq Require Import Permutation Lia Lqa Setoid Morphisms.

(* ---------- generic rational-sum facts ---------- *)

Lemma qsum_map_div : forall (A : Type) (f : A -> Q) (k : Q) (l : list A),
  qsum (map (fun a => f a / k) l) == qsum (map f l) / k.
Proof.
  intros A f k l. induction l as [|a l IH]; cbn [map].
  - rewrite Lib_sets.qsum_nil. unfold Qdiv. ring.
  - rewrite !Lib_sets.qsum_cons, IH. unfold Qdiv. ring.
Qed.

Lemma qsum_pos_list : forall l : list Q, (forall q, In q l -> 0 < q) -> l <> [] -> 0 < qsum l.
Proof.
  induction l as [|a l IH]; intros Hp Hne; [contradiction Hne; reflexivity|].
  rewrite Lib_sets.qsum_cons.
  assert (Ha : 0 < a) by (apply Hp; left; reflexivity).
  destruct l as [|b l].
  - rewrite Lib_sets.qsum_nil. lra.
  - assert (0 < qsum (b :: l)).
    { apply IH; [|discriminate]. intros q Hq. apply Hp. right. exact Hq. }
    lra.
Qed.

Lemma qsum_nonneg_in : forall l : list Q, (forall q, In q l -> 0 <= q) -> 0 <= qsum l.
Proof.
  intros l H. apply qsum_nonneg. apply Forall_forall. exact H.
Qed.

Lemma qsum_ge_member : forall (l : list Q) (q : Q),
  (forall r, In r l -> 0 <= r) -> In q l -> q <= qsum l.
Proof.
  induction l as [|a l IH]; intros q Hn Hq; [destruct Hq|].
  rewrite Lib_sets.qsum_cons.
  assert (Ha : 0 <= a) by (apply Hn; left; reflexivity).
  assert (Hl : 0 <= qsum l) by (apply qsum_nonneg_in; intros r Hr; apply Hn; right; exact Hr).
  destruct Hq as [<-|Hq].
  - lra.
  - assert (q <= qsum l) by (apply IH; [intros r Hr; apply Hn; right; exact Hr|exact Hq]). lra.
Qed.

(* normalising a non-degenerate weight table gives a table that sums to one *)
Lemma normalise_sums_to_one : forall (A : Type) (raw : list (A * Q)),
  ~ qsum (map snd raw) == 0 ->
  qsum (map snd (map (fun tw => (fst tw, Qred (snd tw / Qred (qsum (map snd raw))))) raw)) == 1.
Proof.
  intros A raw Hz. rewrite map_map. cbn [snd].
  rewrite (qsum_map_ext_in _ (fun tw : A * Q => snd tw / qsum (map snd raw))).
  - rewrite qsum_map_div. field. exact Hz.
  - intros a _. rewrite !Qred_correct. reflexivity.
Qed.

(* ---------- mk_interval ---------- *)

Definition posf (p : pcand * Q) : bool := Qlt_bool 0 (snd p).
Definition zerof (p : pcand * Q) : bool := Qeq_bool (snd p) 0.
Definition possum (d : list (pcand * Q)) : Q := qsum (map snd (filter posf d)).

Lemma mk_interval_unfold : forall d,
  mk_interval d =
  if Qeq_bool (possum d) 0 then err EZeroDiv
  else ok (mkPI (map (fun p => (fst p, Qred (snd p / possum d))) (filter posf d))
                (map fst (filter zerof d))).
Proof. reflexivity. Qed.

Lemma posf_in : forall d c s, In (c, s) (filter posf d) <-> In (c, s) d /\ 0 < s.
Proof.
  intros d c s. rewrite filter_In. unfold posf. cbn [snd]. rewrite Qlt_bool_iff. reflexivity.
Qed.

Lemma zerof_in : forall d c s, In (c, s) (filter zerof d) <-> In (c, s) d /\ s == 0.
Proof.
  intros d c s. rewrite filter_In. unfold zerof. cbn [snd]. rewrite Qeq_bool_iff. reflexivity.
Qed.

Lemma possum_nonneg : forall d, 0 <= possum d.
Proof.
  intros d. unfold possum. apply qsum_nonneg_in. intros q Hq.
  apply in_map_iff in Hq. destruct Hq as ([c s] & <- & Hin). apply posf_in in Hin. cbn [snd].
  apply Qlt_le_weak. apply Hin.
Qed.

Lemma possum_zero_iff : forall d, possum d == 0 <-> (forall c s, In (c, s) d -> s <= 0).
Proof.
  intros d. split.
  - intros Hz c s Hin. destruct (Qlt_le_dec 0 s) as [Hs|Hs]; [|exact Hs]. exfalso.
    assert (Hne : map snd (filter posf d) <> []).
    { intros E. assert (Hi : In s (map snd (filter posf d))).
      { apply in_map_iff. exists (c, s). split; [reflexivity|]. apply posf_in. split; assumption. }
      rewrite E in Hi. destruct Hi. }
    assert (Hp : 0 < possum d).
    { unfold possum. apply qsum_pos_list; [|exact Hne]. intros q Hq.
      apply in_map_iff in Hq. destruct Hq as ([c' s'] & <- & Hin'). apply posf_in in Hin'. apply Hin'. }
    rewrite Hz in Hp. apply (Qlt_irrefl 0). exact Hp.
  - intros H. unfold possum. rewrite (filter_all_false posf d); [reflexivity|].
    intros [c s] Hin. unfold posf. cbn [snd]. apply Qlt_bool_false_iff. apply (H c s). exact Hin.
Qed.

(* with non-negative supports the positive part carries the whole sum *)
Lemma possum_total : forall d, (forall c s, In (c, s) d -> 0 <= s) -> possum d == qsum (map snd d).
Proof.
  unfold possum. induction d as [|[c s] d IH]; intros Hn; [reflexivity|].
  assert (IH' : qsum (map snd (filter posf d)) == qsum (map snd d)).
  { apply IH. intros c' s' Hin. apply (Hn c' s'). right. exact Hin. }
  cbn [filter map snd]. unfold posf at 1. cbn [snd].
  destruct (Qlt_bool 0 s) eqn:E.
  - cbn [map snd]. rewrite !Lib_sets.qsum_cons, IH'. reflexivity.
  - apply Qlt_bool_false_iff in E. rewrite Lib_sets.qsum_cons, IH'.
    assert (0 <= s) by (apply (Hn c s); left; reflexivity). lra.
Qed.

(* success: the exact shape of the result *)
Lemma mk_interval_inl : forall d i, mk_interval d = inl i ->
  0 < possum d /\
  pi_zero i = map fst (filter zerof d) /\
  pi_int i = map (fun p => (fst p, Qred (snd p / possum d))) (filter posf d).
Proof.
  intros d i. rewrite mk_interval_unfold. destruct (Qeq_bool (possum d) 0) eqn:E.
  - discriminate.
  - unfold ok. intros H. injection H as <-. cbn [pi_int pi_zero].
    apply Qeq_bool_false_iff in E. pose proof (possum_nonneg d) as Hn.
    split; [|split; reflexivity].
    destruct (Qlt_le_dec 0 (possum d)) as [Hp|Hp]; [exact Hp|].
    exfalso. apply E. lra.
Qed.

Lemma mk_interval_inr : forall d e,
  mk_interval d = inr e <-> (e = EZeroDiv /\ forall c s, In (c, s) d -> s <= 0).
Proof.
  intros d e. rewrite mk_interval_unfold. destruct (Qeq_bool (possum d) 0) eqn:E.
  - apply Qeq_bool_iff in E. unfold err. split.
    + intros H. injection H as <-. split; [reflexivity|]. apply possum_zero_iff. exact E.
    + intros [-> _]. reflexivity.
  - unfold ok. split; [discriminate|]. intros [_ H]. apply possum_zero_iff in H.
    apply Qeq_bool_false_iff in E. contradiction.
Qed.

Lemma mk_interval_succeeds : forall d, 0 < possum d -> exists i, mk_interval d = inl i.
Proof.
  intros d Hp. rewrite mk_interval_unfold. destruct (Qeq_bool (possum d) 0) eqn:E.
  - apply Qeq_bool_iff in E. rewrite E in Hp. exfalso. apply (Qlt_irrefl 0). exact Hp.
  - eexists. reflexivity.
Qed.

Lemma mk_interval_int_in : forall d i, mk_interval d = inl i ->
  forall c v, In (c, v) (pi_int i) <->
              exists s, In (c, s) d /\ 0 < s /\ v = Qred (s / possum d).
Proof.
  intros d i H c v. destruct (mk_interval_inl d i H) as (_ & _ & ->).
  rewrite in_map_iff. split.
  - intros ([c' s] & E & Hin). injection E as -> <-. apply posf_in in Hin. cbn [snd].
    exists s. split; [apply Hin|]. split; [apply Hin|reflexivity].
  - intros (s & Hin & Hs & ->). exists (c, s). split; [reflexivity|]. apply posf_in. split; assumption.
Qed.

Lemma mk_interval_sum_one : forall d i, mk_interval d = inl i -> qsum (map snd (pi_int i)) == 1.
Proof.
  intros d i H. destruct (mk_interval_inl d i H) as (Hp & _ & ->).
  rewrite map_map. cbn [snd].
  rewrite (qsum_map_ext_in _ (fun p : pcand * Q => snd p / possum d)).
  - rewrite qsum_map_div. fold (possum d). field. intros E. rewrite E in Hp.
    apply (Qlt_irrefl 0). exact Hp.
  - intros a _. apply Qred_correct.
Qed.

Lemma Qdiv_pos : forall a b, 0 < a -> 0 < b -> 0 < a / b.
Proof.
  intros a b Ha Hb. unfold Qdiv. apply Qmult_lt_0_compat; [exact Ha|]. apply Qinv_lt_0_compat. exact Hb.
Qed.

Lemma mk_interval_wf : forall d i, mk_interval d = inl i -> wf_interval i.
Proof.
  intros d i H. split.
  - intros c v Hin. apply (mk_interval_int_in d i H) in Hin. destruct Hin as (s & _ & Hs & ->).
    rewrite Qred_correct. apply Qdiv_pos; [exact Hs|]. apply (mk_interval_inl d i H).
  - apply (mk_interval_sum_one d i H).
Qed.

Lemma map_fst_filter_NoDup : forall (f : pcand * Q -> bool) d,
  NoDup (map fst d) -> NoDup (map fst (filter f d)).
Proof.
  intros f d. induction d as [|[c s] d IH]; intros H; cbn [filter map].
  - constructor.
  - cbn [map fst] in H. inversion H as [|x l Hx Hd]; subst.
    destruct (f (c, s)); [|apply IH; exact Hd].
    cbn [map fst]. constructor; [|apply IH; exact Hd].
    intros Hin. apply Hx. apply in_map_iff in Hin. destruct Hin as (p & Ep & Hp).
    apply filter_In in Hp. apply in_map_iff. exists p. split; [exact Ep|apply Hp].
Qed.

(* I1: the full statement *)
Theorem interval_normalised : forall d i,
  (forall c s, In (c, s) d -> 0 <= s) ->
  mk_interval d = inl i ->
  0 < qsum (map snd d) /\
  pi_zero i = map fst (filter (fun p => Qeq_bool (snd p) 0) d) /\
  map fst (pi_int i) = map fst (filter (fun p => Qlt_bool 0 (snd p)) d) /\
  (forall c, In c (pi_zero i) <-> exists s, In (c, s) d /\ s == 0) /\
  (forall c, In c (map fst (pi_int i)) <-> exists s, In (c, s) d /\ 0 < s) /\
  (forall c v, In (c, v) (pi_int i) ->
     exists s, In (c, s) d /\ 0 < s /\ v == s / qsum (map snd d)) /\
  (forall c s, In (c, s) d -> 0 < s ->
     exists v, In (c, v) (pi_int i) /\ v == s / qsum (map snd d)) /\
  (forall c v, In (c, v) (pi_int i) -> 0 < v) /\
  qsum (map snd (pi_int i)) == 1 /\
  (NoDup (map fst d) -> NoDup (map fst (pi_int i)) /\ NoDup (pi_zero i) /\
                        forall c, In c (map fst (pi_int i)) -> ~ In c (pi_zero i)).
Proof.
  intros d i Hn H. destruct (mk_interval_inl d i H) as (Hp & Hz & Hi).
  pose proof (possum_total d Hn) as Ht.
  assert (Hfst : map fst (pi_int i) = map fst (filter posf d)).
  { rewrite Hi, map_map. cbn [fst]. reflexivity. }
  assert (Hzin : forall c, In c (pi_zero i) <-> exists s, In (c, s) d /\ s == 0).
  { intros c. rewrite Hz, in_map_iff. split.
    - intros ([c' s] & E & Hin). cbn [fst] in E. subst c'. exists s. apply zerof_in. exact Hin.
    - intros (s & Hin). exists (c, s). split; [reflexivity|]. apply zerof_in. exact Hin. }
  assert (Hpin : forall c, In c (map fst (pi_int i)) <-> exists s, In (c, s) d /\ 0 < s).
  { intros c. rewrite Hfst, in_map_iff. split.
    - intros ([c' s] & E & Hin). cbn [fst] in E. subst c'. exists s. apply posf_in. exact Hin.
    - intros (s & Hin). exists (c, s). split; [reflexivity|]. apply posf_in. exact Hin. }
  split; [rewrite <- Ht; exact Hp|].
  split; [exact Hz|]. split; [exact Hfst|]. split; [exact Hzin|]. split; [exact Hpin|].
  split; [|split; [|split; [|split]]].
  - intros c v Hin. apply (mk_interval_int_in d i H) in Hin. destruct Hin as (s & Hin & Hs & ->).
    exists s. split; [exact Hin|]. split; [exact Hs|]. rewrite Qred_correct, Ht. reflexivity.
  - intros c s Hin Hs. exists (Qred (s / possum d)). split.
    + apply (mk_interval_int_in d i H). exists s. split; [exact Hin|]. split; [exact Hs|reflexivity].
    + rewrite Qred_correct, Ht. reflexivity.
  - apply (mk_interval_wf d i H).
  - apply (mk_interval_sum_one d i H).
  - intros Hnd. split; [|split].
    + rewrite Hfst. apply map_fst_filter_NoDup. exact Hnd.
    + rewrite Hz. apply map_fst_filter_NoDup. exact Hnd.
    + intros c Hc Hc'. apply Hpin in Hc. apply Hzin in Hc'.
      destruct Hc as (s & Hin & Hs). destruct Hc' as (s' & Hin' & Hs').
      assert (E : s = s').
      { clear - Hnd Hin Hin'. induction d as [|[c0 s0] d IH]; [destruct Hin|].
        cbn [map fst] in Hnd. inversion Hnd as [|x l Hx Hd]; subst.
        destruct Hin as [E|Hin]; destruct Hin' as [E'|Hin'].
        - congruence.
        - injection E as -> ->. exfalso. apply Hx. apply in_map_iff. exists (c, s'). split; [reflexivity|exact Hin'].
        - injection E' as -> ->. exfalso. apply Hx. apply in_map_iff. exists (c, s). split; [reflexivity|exact Hin].
        - apply IH; assumption. }
      subst s'. rewrite Hs' in Hs. apply (Qlt_irrefl 0). exact Hs.
Qed.

(* the error case, for all inputs *)
Theorem interval_error : forall d e,
  mk_interval d = inr e <-> (e = EZeroDiv /\ forall c s, In (c, s) d -> s <= 0).
Proof. exact mk_interval_inr. Qed.

Theorem interval_error_nonneg : forall d,
  (forall c s, In (c, s) d -> 0 <= s) ->
  (mk_interval d = inr EZeroDiv <-> forall c s, In (c, s) d -> s == 0).
Proof.
  intros d Hn. rewrite mk_interval_inr. split.
  - intros [_ H] c s Hin. pose proof (H c s Hin). pose proof (Hn c s Hin). lra.
  - intros H. split; [reflexivity|]. intros c s Hin. rewrite (H c s Hin). lra.
Qed.

(* ---------- combine_intervals ---------- *)

Definition scaled (is : list pinterval) (props : list Q) : list (pcand * Q) :=
  concat (map (fun ip : pinterval * Q => map (fun p : pcand * Q => (fst p, snd p * snd ip)) (pi_int (fst ip)))
              (combine is props)).

Lemma scaled_in : forall is props c w,
  In (c, w) (scaled is props) <->
  exists i p v, In (i, p) (combine is props) /\ In (c, v) (pi_int i) /\ w = v * p.
Proof.
  intros is props c w. unfold scaled. rewrite in_concat. split.
  - intros (L & HL & Hin). apply in_map_iff in HL. destruct HL as ([i p] & <- & Hip).
    apply in_map_iff in Hin. destruct Hin as ([c' v] & E & Hcv). cbn [fst snd] in E.
    injection E as -> <-. exists i, p, v. repeat split; assumption.
  - intros (i & p & v & Hip & Hcv & ->).
    exists (map (fun q : pcand * Q => (fst q, snd q * p)) (pi_int i)). split.
    + apply in_map_iff. exists (i, p). split; [reflexivity|exact Hip].
    + apply in_map_iff. exists (c, v). split; [reflexivity|exact Hcv].
Qed.

Lemma scaled_sum : forall is props,
  Forall (fun i => qsum (map snd (pi_int i)) == 1) is -> length is = length props ->
  qsum (map snd (scaled is props)) == qsum props.
Proof.
  unfold scaled. induction is as [|i is IH]; intros [|p props] HF Hl; cbn [length] in Hl; try discriminate.
  - reflexivity.
  - inversion HF as [|x l Hi HF']; subst. cbn [combine map concat fst snd].
    rewrite map_app, Lib_sets.qsum_app, IH; [|exact HF'|lia].
    rewrite map_map. cbn [snd]. rewrite Lib_sets.qsum_cons.
    rewrite (qsum_map_ext_in _ (fun q : pcand * Q => p * snd q)).
    + rewrite qsum_map_scal, Hi. ring.
    + intros a _. ring.
Qed.

Lemma has_dup_pos_false_iff : forall l, has_dup_pos l = false <-> NoDup l.
Proof.
  induction l as [|x l IH]; cbn [has_dup_pos].
  - split; [constructor|reflexivity].
  - rewrite orb_false_iff, IH. split.
    + intros [Hx Hl]. constructor; [|exact Hl]. intros Hin.
      assert (Ht : existsb (Pos.eqb x) l = true).
      { apply existsb_exists. exists x. split; [exact Hin|apply Pos.eqb_refl]. }
      congruence.
    + intros H. inversion H as [|y l' Hx Hl]; subst. split; [|exact Hl].
      destruct (existsb (Pos.eqb x) l) eqn:E; [|reflexivity]. exfalso. apply Hx.
      apply existsb_exists in E. destruct E as (y & Hy & Exy). apply Pos.eqb_eq in Exy. subst. exact Hy.
Qed.

Lemma existsb_pos_in : forall c l, existsb (Pos.eqb c) l = true <-> In c l.
Proof.
  intros c l. rewrite existsb_exists. split.
  - intros (y & Hy & E). apply Pos.eqb_eq in E. subst. exact Hy.
  - intros H. exists c. split; [exact H|apply Pos.eqb_refl].
Qed.

Lemma union_zero_in : forall (A Z : list pcand) c,
  In c (A ++ filter (fun c => negb (existsb (Pos.eqb c) A)) Z) <-> In c A \/ In c Z.
Proof.
  intros A Z c. rewrite in_app_iff, filter_In. split.
  - intros [H|[H _]]; [left|right]; exact H.
  - intros [H|H]; [left; exact H|].
    destruct (existsb (Pos.eqb c) A) eqn:E.
    + left. apply existsb_pos_in. exact E.
    + right. split; [exact H|]. reflexivity.
Qed.

Lemma union_zero_NoDup : forall (A Z : list pcand), NoDup A -> NoDup Z ->
  NoDup (A ++ filter (fun c => negb (existsb (Pos.eqb c) A)) Z).
Proof.
  intros A Z HA HZ. apply Lib_sets.NoDup_app_intro; [exact HA|apply NoDup_filter; exact HZ|].
  intros a Ha Hf. apply filter_In in Hf. destruct Hf as [_ Hf].
  apply negb_true_iff in Hf. apply (proj2 (existsb_pos_in a A)) in Ha. congruence.
Qed.

Lemma rounds_to_one_iff : forall q,
  rounds_to_one q = true <-> 1 - (5 # 1000000000) < q /\ q < 1 + (5 # 1000000000).
Proof.
  intros q. unfold rounds_to_one. rewrite andb_true_iff, !Qlt_bool_iff. reflexivity.
Qed.

Lemma rounds_to_one_exact : forall q, q == 1 -> rounds_to_one q = true.
Proof.
  intros q H. apply rounds_to_one_iff. rewrite H. split; reflexivity.
Qed.

Lemma combine_intervals_unfold : forall is props,
  combine_intervals is props =
  if has_dup_pos (concat (map pi_cands is)) then err EValue
  else if negb (rounds_to_one (qsum props)) then err EValue
  else match mk_interval (scaled is props) with
       | inl s => ok (mkPI (pi_int s)
                       (pi_zero s ++ filter (fun c => negb (existsb (Pos.eqb c) (pi_zero s)))
                                            (concat (map pi_zero is))))
       | inr e => inr e
       end.
Proof.
  intros is props. unfold combine_intervals, combine_checks, rbind, scaled, pcand.
  destruct (has_dup_pos _); [reflexivity|].
  destruct (negb (rounds_to_one (qsum props))); reflexivity.
Qed.

Section Combine.
Variable is : list pinterval.
Variable props : list Q.
Hypothesis Hwf : Forall wf_interval is.
Hypothesis Hlen : length is = length props.
Hypothesis Hnn : Forall (fun p => 0 <= p) props.

Lemma combine_in_props : forall i p, In (i, p) (combine is props) -> 0 <= p /\ wf_interval i.
Proof.
  intros i p H. split.
  - rewrite Forall_forall in Hnn. apply Hnn. eapply in_combine_r. exact H.
  - rewrite Forall_forall in Hwf. apply Hwf. eapply in_combine_l. exact H.
Qed.

Lemma scaled_nonneg : forall c w, In (c, w) (scaled is props) -> 0 <= w.
Proof.
  intros c w H. apply scaled_in in H. destruct H as (i & p & v & Hip & Hcv & ->).
  destruct (combine_in_props i p Hip) as [Hp [Hv _]]. specialize (Hv c v Hcv).
  apply Qmult_le_0_compat; [apply Qlt_le_weak; exact Hv|exact Hp].
Qed.

Lemma scaled_possum : possum (scaled is props) == qsum props.
Proof.
  rewrite (possum_total _ scaled_nonneg). apply scaled_sum; [|exact Hlen].
  eapply Forall_impl; [|exact Hwf]. intros i Hi. apply Hi.
Qed.

Lemma zero_sub_NoDup : NoDup (concat (map pi_cands is)) -> NoDup (concat (map pi_zero is)).
Proof.
  clear. induction is as [|i l IH]; cbn [map concat]; intros H; [constructor|].
  unfold pi_cands at 1 in H. rewrite <- app_assoc in H.
  apply Lib_sets.NoDup_app_inv in H. destruct H as (_ & H & _).
  apply Lib_sets.NoDup_app_inv in H. destruct H as (H1 & H2 & H3).
  apply Lib_sets.NoDup_app_intro; [exact H1|apply IH; exact H2|].
  intros a Ha Hin. apply (H3 a Ha). apply in_concat in Hin. destruct Hin as (L & HL & HaL).
  apply in_map_iff in HL. destruct HL as (j & <- & Hj). apply in_concat.
  exists (pi_cands j). split; [apply in_map; exact Hj|]. unfold pi_cands. apply in_or_app. right. exact HaL.
Qed.

(* I2, general form *)
Theorem combine_ok :
  NoDup (concat (map pi_cands is)) ->
  rounds_to_one (qsum props) = true ->
  exists r, combine_intervals is props = inl r /\
    (forall i p c v, In (i, p) (combine is props) -> In (c, v) (pi_int i) -> 0 < p ->
       exists w, In (c, w) (pi_int r) /\ w == p * v / qsum props) /\
    (forall c w, In (c, w) (pi_int r) ->
       exists i p v, In (i, p) (combine is props) /\ In (c, v) (pi_int i) /\ 0 < p /\
                     w == p * v / qsum props) /\
    (forall i p c v, In (i, p) (combine is props) -> In (c, v) (pi_int i) -> p == 0 ->
       In c (pi_zero r)) /\
    (forall i c, In i is -> In c (pi_zero i) -> In c (pi_zero r)) /\
    (forall c, In c (pi_zero r) ->
       (exists i, In i is /\ In c (pi_zero i)) \/
       (exists i p v, In (i, p) (combine is props) /\ In (c, v) (pi_int i) /\ p == 0)) /\
    wf_interval r /\
    NoDup (map fst (pi_int r)) /\ NoDup (pi_zero r).
Proof.
  intros Hnd Hr. pose proof scaled_possum as HS.
  apply rounds_to_one_iff in Hr.
  assert (Hpos : 0 < possum (scaled is props)) by (rewrite HS; lra).
  destruct (mk_interval_succeeds _ Hpos) as [s Hs].
  rewrite combine_intervals_unfold.
  rewrite (proj2 (has_dup_pos_false_iff _) Hnd).
  rewrite (proj2 (rounds_to_one_iff (qsum props)) Hr). cbn [negb]. rewrite Hs.
  eexists. split; [reflexivity|]. cbn [pi_int pi_zero].
  pose proof (interval_normalised _ s scaled_nonneg Hs) as
    (_ & _ & _ & Hzin & _ & _ & _ & _ & _ & HndS).
  pose proof (mk_interval_int_in _ s Hs) as Hint.
  assert (Hkeys : NoDup (map fst (scaled is props))).
  { revert Hnd. clear. unfold scaled. revert props.
    induction is as [|i l IH]; intros [|p props] H; cbn [combine map concat]; try constructor.
    cbn [map concat] in H. rewrite map_app. cbn [fst snd]. rewrite map_map. cbn [fst].
    unfold pi_cands at 1 in H. rewrite <- app_assoc in H.
    apply Lib_sets.NoDup_app_inv in H. destruct H as (H1 & H2 & H3).
    apply Lib_sets.NoDup_app_inv in H2. destruct H2 as (_ & H2 & _).
    apply Lib_sets.NoDup_app_intro; [exact H1|apply IH; exact H2|].
    intros a Ha Hin. apply (H3 a Ha). apply in_or_app. right.
    apply in_map_iff in Hin. destruct Hin as ([c w] & <- & Hcw).
    apply in_concat in Hcw. destruct Hcw as (L & HL & HcL).
    apply in_map_iff in HL. destruct HL as ([j q] & <- & Hj).
    apply in_map_iff in HcL. destruct HcL as ([c' v] & E & Hcv). cbn [fst snd] in E. injection E as -> _.
    cbn [fst]. apply in_concat. exists (pi_cands j). split.
    - apply in_map. eapply in_combine_l. exact Hj.
    - unfold pi_cands. apply in_or_app. left. apply in_map_iff. exists (c, v). split; [reflexivity|exact Hcv]. }
  destruct (HndS Hkeys) as (HndI & HndZ & _).
  split; [|split; [|split; [|split; [|split; [|split; [|split]]]]]].
  - intros i p c v Hip Hcv Hp. destruct (combine_in_props i p Hip) as [_ [Hv _]].
    specialize (Hv c v Hcv).
    exists (Qred (v * p / possum (scaled is props))). split.
    + apply Hint. exists (v * p). split; [|split; [|reflexivity]].
      * apply scaled_in. exists i, p, v. repeat split; assumption.
      * apply Qmult_lt_0_compat; assumption.
    + rewrite Qred_correct, HS. field. lra.
  - intros c w Hin. apply Hint in Hin. destruct Hin as (x & Hx & Hxp & ->).
    apply scaled_in in Hx. destruct Hx as (i & p & v & Hip & Hcv & ->).
    destruct (combine_in_props i p Hip) as [Hp0 [Hv _]]. specialize (Hv c v Hcv).
    exists i, p, v. split; [exact Hip|]. split; [exact Hcv|]. split.
    + destruct (Qlt_le_dec 0 p) as [Hp|Hp]; [exact Hp|]. exfalso.
      assert (Ep : p == 0) by lra. rewrite Ep in Hxp.
      assert (E0 : v * 0 == 0) by ring. rewrite E0 in Hxp. apply (Qlt_irrefl 0). exact Hxp.
    + rewrite Qred_correct, HS. field. lra.
  - intros i p c v Hip Hcv Hp. apply union_zero_in. left. apply Hzin.
    exists (v * p). split.
    + apply scaled_in. exists i, p, v. repeat split; assumption.
    + rewrite Hp. ring.
  - intros i c Hi Hc. apply union_zero_in. right. apply in_concat.
    exists (pi_zero i). split; [apply in_map; exact Hi|exact Hc].
  - intros c Hc. apply union_zero_in in Hc. destruct Hc as [Hc|Hc].
    + right. apply Hzin in Hc. destruct Hc as (x & Hx & Hx0).
      apply scaled_in in Hx. destruct Hx as (i & p & v & Hip & Hcv & ->).
      destruct (combine_in_props i p Hip) as [Hp0 [Hv _]]. specialize (Hv c v Hcv).
      exists i, p, v. split; [exact Hip|]. split; [exact Hcv|].
      destruct (Qeq_dec p 0) as [E|E]; [exact E|]. exfalso.
      assert (Hp : 0 < p) by (destruct (Qlt_le_dec 0 p) as [Hp|Hp]; [exact Hp|exfalso; apply E; lra]).
      pose proof (Qmult_lt_0_compat v p Hv Hp) as Hm. rewrite Hx0 in Hm. apply (Qlt_irrefl 0). exact Hm.
    + left. apply in_concat in Hc. destruct Hc as (L & HL & HcL).
      apply in_map_iff in HL. destruct HL as (i & <- & Hi). exists i. split; assumption.
  - apply (mk_interval_wf _ s Hs).
  - exact HndI.
  - apply union_zero_NoDup; [exact HndZ|]. apply zero_sub_NoDup. exact Hnd.
Qed.

(* errors: overlapping candidate sets, or proportions that do not round to one *)
Theorem combine_error : forall e,
  combine_intervals is props = inr e <->
  (e = EValue /\ (~ NoDup (concat (map pi_cands is)) \/ rounds_to_one (qsum props) = false)).
Proof.
  intros e. rewrite combine_intervals_unfold.
  destruct (has_dup_pos (concat (map pi_cands is))) eqn:Ed.
  - unfold err. split.
    + intros H. injection H as <-. split; [reflexivity|]. left. intros Hnd.
      apply has_dup_pos_false_iff in Hnd. congruence.
    + intros [-> _]. reflexivity.
  - apply has_dup_pos_false_iff in Ed. destruct (rounds_to_one (qsum props)) eqn:Er; cbn [negb].
    + destruct (combine_ok Ed Er) as (r & Hr & _). rewrite combine_intervals_unfold in Hr.
      rewrite (proj2 (has_dup_pos_false_iff _) Ed), Er in Hr. cbn [negb] in Hr. rewrite Hr.
      split; [discriminate|]. intros [_ [H|H]]; [contradiction|discriminate].
    + unfold err. split.
      * intros H. injection H as <-. split; [reflexivity|]. right. reflexivity.
      * intros [-> _]. reflexivity.
Qed.

End Combine.

(* error cases that need no hypothesis on the intervals *)
Theorem combine_error_overlap : forall is props,
  ~ NoDup (concat (map pi_cands is)) -> combine_intervals is props = inr EValue.
Proof.
  intros is props H. rewrite combine_intervals_unfold.
  destruct (has_dup_pos (concat (map pi_cands is))) eqn:E; [reflexivity|].
  apply has_dup_pos_false_iff in E. contradiction.
Qed.

Theorem combine_error_props : forall is props,
  rounds_to_one (qsum props) = false -> combine_intervals is props = inr EValue.
Proof.
  intros is props H. rewrite combine_intervals_unfold. rewrite H. cbn [negb].
  destruct (has_dup_pos (concat (map pi_cands is))); reflexivity.
Qed.

(* I2 with proportions summing to exactly one: values are multiplied by the share *)
Theorem combine_exact : forall is props,
  Forall wf_interval is -> length is = length props -> Forall (fun p => 0 <= p) props ->
  NoDup (concat (map pi_cands is)) -> qsum props == 1 ->
  exists r, combine_intervals is props = inl r /\
    (forall i p c v, In (i, p) (combine is props) -> In (c, v) (pi_int i) -> 0 < p ->
       exists w, In (c, w) (pi_int r) /\ w == p * v) /\
    (forall i p c v, In (i, p) (combine is props) -> In (c, v) (pi_int i) -> p == 0 ->
       In c (pi_zero r)) /\
    (forall i c, In i is -> In c (pi_zero i) -> In c (pi_zero r)) /\
    qsum (map snd (pi_int r)) == 1.
Proof.
  intros is props Hwf Hlen Hnn Hnd H1.
  destruct (combine_ok is props Hwf Hlen Hnn Hnd (rounds_to_one_exact _ H1))
    as (r & Hr & Ha & _ & Hb & Hc & _ & Hw & _).
  exists r. split; [exact Hr|]. split; [|split; [exact Hb|split; [exact Hc|apply Hw]]].
  intros i p c v Hip Hcv Hp. destruct (Ha i p c v Hip Hcv Hp) as (w & Hw1 & Hw2).
  exists w. split; [exact Hw1|]. rewrite Hw2, H1. field.
Qed.
