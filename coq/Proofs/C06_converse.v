(* Proofs/C06_converse.v — C06: "the top tier ... is a single candidate exactly when a Condorcet
   winner exists", both directions with the SAME candidate, uniqueness of the Condorcet winner, and the
   link to has_condorcet_winner / get_condorcet_winner.  Built on C06_tiers (c06_smith_proof,
   c06_condorcet_iff_proof, c06_tiers_partition_proof). *)
From VK Require Import Base Core STV Pairwise Rules.
From VK.Spec Require Import PairwiseSpec CondorcetWinnerFn.
From VK.Proofs Require Import C06_pairwise C06_tiers.
From Coq Require Import Permutation Lia Lqa.

Section Converse.
Variable cand : Type.
Variable ceqb : cand -> cand -> bool.
Hypothesis ceqb_spec : forall a b, reflect (a = b) (ceqb a b).

Notation profile := (profile cand).
Notation ranking := (ranking cand).
Notation cset := (cset cand).
Notation pref_weight := (pref_weight cand ceqb).
Notation margin := (margin cand ceqb).
Notation untied_profile := (untied_profile cand).
Notation dominating_tiers := (dominating_tiers cand ceqb).
Notation has_condorcet_winner := (has_condorcet_winner cand ceqb).
Notation get_condorcet_winner := (get_condorcet_winner cand ceqb).
Notation condorcet_winner := (condorcet_winner cand ceqb).

(* the spec-level Condorcet winner, spelled with strictly positive margins *)
Definition cw_margin (p : profile) (c : cand) : Prop :=
  In c (cands p) /\ forall d, In d (cands p) -> d <> c -> 0 < margin (ballots p) c d.

Lemma margin_pos_iff : forall (bs : list (ballot cand)) a b,
  0 < margin bs a b <-> pref_weight bs b a < pref_weight bs a b.
Proof. intros bs a b. unfold PairwiseSpec.margin. split; intros H; lra. Qed.

Lemma cw_margin_iff : forall p c, cw_margin p c <-> condorcet_winner (ballots p) (cands p) c.
Proof.
  intros p c. unfold cw_margin, PairwiseSpec.condorcet_winner, PairwiseSpec.beats.
  split; intros [Hin H]; (split; [exact Hin|]); intros d Hd Hne; apply margin_pos_iff; apply H; assumption.
Qed.

(* uniqueness needs nothing about the profile *)
Lemma cw_margin_unique : forall p c c', cw_margin p c -> cw_margin p c' -> c = c'.
Proof.
  intros p c c' [Hc H] [Hc' H']. destruct (ceqb_spec c c') as [E|N]; [exact E|exfalso].
  assert (H1 := H c' Hc' (fun e => N (eq_sym e))). assert (H2 := H' c Hc N).
  apply margin_pos_iff in H1. apply margin_pos_iff in H2. lra.
Qed.

Lemma perm_single : forall (T : cset) c, Permutation T [c] <-> T = [c].
Proof.
  intros T c. split; [intros H|intros ->; apply Permutation_refl].
  apply Permutation_sym in H. apply Permutation_length_1_inv in H. exact H.
Qed.

Lemma single_char : forall (T : cset) c, (length T = 1%nat /\ In c T) <-> T = [c].
Proof.
  intros T c. split.
  - intros [Hl Hin]. destruct T as [|x [|y T']]; try discriminate. destruct Hin as [->|[]]. reflexivity.
  - intros ->. split; [reflexivity|left; reflexivity].
Qed.

Section WithProfile.
Variable p : profile.
Hypothesis Hp : untied_profile p.

(* 1. converse: a singleton top tier is a Condorcet winner *)
Lemma top_single_cw : forall (T0 : cset) (rest : ranking) c,
  dominating_tiers p = inl (T0 :: rest) -> T0 = [c] -> cw_margin p c.
Proof.
  intros T0 rest c Ht ->.
  destruct (c06_smith_proof cand ceqb ceqb_spec p Hp [c] rest Ht) as [[Hincl Hdom] _].
  split; [apply Hincl; left; reflexivity|].
  intros d Hd Hne. apply margin_pos_iff. apply (Hdom c d); [left; reflexivity|exact Hd|].
  intros [E|[]]. apply Hne. symmetry. exact E.
Qed.

(* 2. forward: a Condorcet winner is the whole top tier *)
Lemma cw_top_single : forall (T0 : cset) (rest : ranking) c,
  dominating_tiers p = inl (T0 :: rest) -> cw_margin p c -> T0 = [c].
Proof.
  intros T0 rest c Ht Hc. apply cw_margin_iff in Hc.
  destruct (c06_condorcet_iff_proof cand ceqb ceqb_spec p Hp) as [_ [_ H]].
  destruct (H c Hc) as [rest' Ht']. rewrite Ht in Ht'. injection Ht' as -> _. reflexivity.
Qed.

Theorem c06_top_singleton_is_cw_proof : forall (T0 : cset) (rest : ranking) (c : cand),
  dominating_tiers p = inl (T0 :: rest) -> Permutation T0 [c] ->
  In c (cands p) /\ forall d, In d (cands p) -> d <> c -> 0 < margin (ballots p) c d.
Proof. intros T0 rest c Ht Hperm. apply perm_single in Hperm. exact (top_single_cw T0 rest c Ht Hperm). Qed.

Theorem c06_top_singleton_is_cw_pw_proof : forall (T0 : cset) (rest : ranking) (c : cand),
  dominating_tiers p = inl (T0 :: rest) -> length T0 = 1%nat -> In c T0 ->
  In c (cands p) /\
  forall d, In d (cands p) -> d <> c -> pref_weight (ballots p) d c < pref_weight (ballots p) c d.
Proof.
  intros T0 rest c Ht Hl Hin. assert (E : T0 = [c]) by (apply single_char; split; assumption).
  apply (proj1 (cw_margin_iff p c)). exact (top_single_cw T0 rest c Ht E).
Qed.

Theorem c06_cw_is_top_singleton_proof : forall (T0 : cset) (rest : ranking) (c : cand),
  dominating_tiers p = inl (T0 :: rest) ->
  In c (cands p) -> (forall d, In d (cands p) -> d <> c -> 0 < margin (ballots p) c d) ->
  Permutation T0 [c] /\ length T0 = 1%nat /\ In c T0.
Proof.
  intros T0 rest c Ht Hin H. rewrite (cw_top_single T0 rest c Ht (conj Hin H)).
  split; [apply Permutation_refl|]. split; [reflexivity|left; reflexivity].
Qed.

(* 3. the iff, same candidate on both sides *)
Theorem c06_top_singleton_iff_cw_proof : forall (T0 : cset) (rest : ranking),
  dominating_tiers p = inl (T0 :: rest) ->
  (forall c, Permutation T0 [c] <->
     (In c (cands p) /\ forall d, In d (cands p) -> d <> c -> 0 < margin (ballots p) c d)) /\
  (length T0 = 1%nat <->
     exists c, In c (cands p) /\ forall d, In d (cands p) -> d <> c -> 0 < margin (ballots p) c d) /\
  ((2 <= length T0)%nat <->
     ~ exists c, In c (cands p) /\ forall d, In d (cands p) -> d <> c -> 0 < margin (ballots p) c d).
Proof.
  intros T0 rest Ht.
  assert (Hsame : forall c, Permutation T0 [c] <-> cw_margin p c).
  { intros c. split.
    - intros H. apply perm_single in H. exact (top_single_cw T0 rest c Ht H).
    - intros H. apply perm_single. exact (cw_top_single T0 rest c Ht H). }
  assert (Hlen : length T0 = 1%nat <-> exists c, cw_margin p c).
  { split.
    - intros Hl. destruct T0 as [|c [|c' T']]; try discriminate. exists c. apply Hsame. apply Permutation_refl.
    - intros [c Hc]. rewrite (cw_top_single T0 rest c Ht Hc). reflexivity. }
  split; [exact Hsame|]. split; [exact Hlen|].
  destruct (c06_tiers_partition_proof cand ceqb ceqb_spec p Hp _ Ht) as [_ [Hne _]].
  assert (Hn : T0 <> []) by (apply Hne; left; reflexivity).
  split.
  - intros H2 Hex. apply Hlen in Hex. lia.
  - intros Hno. destruct T0 as [|c [|c' T']]; [congruence| |cbn [length]; lia].
    exfalso. apply Hno. apply Hlen. reflexivity.
Qed.

Theorem c06_cw_exists_iff_proof :
  (exists c rest, dominating_tiers p = inl ([c] :: rest)) <->
  (exists c, In c (cands p) /\ forall d, In d (cands p) -> d <> c -> 0 < margin (ballots p) c d).
Proof.
  split.
  - intros [c [rest Ht]]. exists c. exact (top_single_cw [c] rest c Ht eq_refl).
  - intros [c Hc]. exists c.
    destruct (c06_tiers_top_exists_proof cand ceqb ceqb_spec p Hp) as [T0 [rest Ht]].
    exists rest. rewrite Ht, (cw_top_single T0 rest c Ht Hc). reflexivity.
Qed.

(* 4. the model's query functions *)
Lemma has_cw_value : forall (T0 : cset) (rest : ranking), dominating_tiers p = inl (T0 :: rest) ->
  has_condorcet_winner p = inl (Nat.eqb (length T0) 1).
Proof. intros T0 rest Ht. unfold Pairwise.has_condorcet_winner. rewrite Ht. reflexivity. Qed.

Theorem c06_has_cw_model_proof :
  (has_condorcet_winner p = inl true <-> exists c rest, dominating_tiers p = inl ([c] :: rest)) /\
  (has_condorcet_winner p = inl true <->
     exists c, In c (cands p) /\ forall d, In d (cands p) -> d <> c -> 0 < margin (ballots p) c d) /\
  (has_condorcet_winner p = inl false <->
     ~ exists c, In c (cands p) /\ forall d, In d (cands p) -> d <> c -> 0 < margin (ballots p) c d).
Proof.
  destruct (c06_tiers_top_exists_proof cand ceqb ceqb_spec p Hp) as [T0 [rest Ht]].
  assert (Hhas := has_cw_value T0 rest Ht).
  destruct (c06_top_singleton_iff_cw_proof T0 rest Ht) as [_ [Hlen _]].
  assert (H2 : has_condorcet_winner p = inl true <-> exists c, cw_margin p c).
  { rewrite Hhas. rewrite <- Hlen. split.
    - intros H. injection H as H. apply Nat.eqb_eq. exact H.
    - intros H. rewrite H. reflexivity. }
  split; [|split].
  - rewrite H2. symmetry. exact c06_cw_exists_iff_proof.
  - exact H2.
  - split.
    + intros Hf Hex. apply H2 in Hex. rewrite Hex in Hf. discriminate.
    + intros Hno. rewrite Hhas. destruct (Nat.eqb (length T0) 1) eqn:E; [|reflexivity].
      exfalso. apply Hno. apply Hlen. apply Nat.eqb_eq. exact E.
Qed.

Theorem c06_get_cw_model_proof :
  (forall c, get_condorcet_winner p = inl c <->
     (In c (cands p) /\ forall d, In d (cands p) -> d <> c -> 0 < margin (ballots p) c d)) /\
  (get_condorcet_winner p = inr EValue <->
     ~ exists c, In c (cands p) /\ forall d, In d (cands p) -> d <> c -> 0 < margin (ballots p) c d) /\
  ((exists c, get_condorcet_winner p = inl c) \/ get_condorcet_winner p = inr EValue).
Proof.
  destruct (c06_tiers_top_exists_proof cand ceqb ceqb_spec p Hp) as [T0 [rest Ht]].
  assert (Hhas := has_cw_value T0 rest Ht).
  destruct (c06_top_singleton_iff_cw_proof T0 rest Ht) as [Hsame [Hlen _]].
  unfold CondorcetWinnerFn.get_condorcet_winner. rewrite Hhas, Ht. cbn [rbind].
  destruct (Nat.eqb (length T0) 1) eqn:E.
  - apply Nat.eqb_eq in E. destruct T0 as [|c0 [|c1 T']]; try discriminate.
    assert (Hc0 : cw_margin p c0) by (apply Hsame; apply Permutation_refl).
    split; [|split].
    + intros c. unfold ok. split.
      * intros H. injection H as <-. exact Hc0.
      * intros H. rewrite (cw_margin_unique p c c0 H Hc0). reflexivity.
    + split; [discriminate|]. intros Hno. exfalso. apply Hno. exists c0. exact Hc0.
    + left. exists c0. reflexivity.
  - assert (Hno : ~ exists c, cw_margin p c).
    { intros Hex. apply Hlen in Hex. rewrite Hex in E. discriminate. }
    split; [|split].
    + intros c. split; [discriminate|]. intros H. exfalso. apply Hno. exists c. exact H.
    + split; [intros _; exact Hno|reflexivity].
    + right. reflexivity.
Qed.

End WithProfile.

Theorem c06_cw_unique_proof : forall (p : profile) (c c' : cand),
  (In c (cands p) /\ forall d, In d (cands p) -> d <> c -> 0 < margin (ballots p) c d) ->
  (In c' (cands p) /\ forall d, In d (cands p) -> d <> c' -> 0 < margin (ballots p) c' d) ->
  c = c'.
Proof. exact cw_margin_unique. Qed.

Theorem c06_margin_pos_iff_proof : forall (bs : list (ballot cand)) (a b : cand),
  0 < margin bs a b <-> pref_weight bs b a < pref_weight bs a b.
Proof. exact margin_pos_iff. Qed.

End Converse.

(* ------------------------------------------------------------------ *)
(* Outside the domain: "every weight positive" cannot be weakened to "every weight non-negative".
   One candidate, one ballot of weight 0: the candidate is (vacuously) a Condorcet winner, but the
   profile built by ballot_fill drops the zero-weight ballot and with it every candidate, so there is
   no tier at all and has_condorcet_winner raises IndexError (as the Python code does). *)
Lemma c06_cw_iff_zero_weight_refuted_proof :
  exists (p : Core.profile positive) (c : positive),
    NoDup (cands p) /\ ballots p <> [] /\
    Forall (fun x => rk x <> [] /\ Forall (fun g => length g = 1%nat) (rk x) /\
                     NoDup (listing positive x) /\ incl (listing positive x) (cands p) /\
                     incl (map fst (sc x)) (cands p) /\ 0 <= wt x) (ballots p) /\
    (In c (cands p) /\
     forall d, In d (cands p) -> d <> c -> 0 < PairwiseSpec.margin positive Pos.eqb (ballots p) c d) /\
    Pairwise.dominating_tiers positive Pos.eqb p = inl [] /\
    Pairwise.has_condorcet_winner positive Pos.eqb p = inr EIndex /\
    CondorcetWinnerFn.get_condorcet_winner positive Pos.eqb p = inr EIndex.
Proof.
  exists (mkProfile [plain_ballot positive [[1%positive]] 0] [1%positive]), 1%positive.
  split; [repeat constructor; intros []|]. split; [discriminate|].
  split.
  { constructor; [|constructor]. split; [discriminate|]. split; [repeat constructor|].
    split; [repeat constructor; intros []|]. split; [intros x Hx; exact Hx|].
    split; [intros x []|]. vm_compute. discriminate. }
  split.
  { split; [left; reflexivity|]. intros d [<-|[]] Hne. congruence. }
  split; [vm_compute; reflexivity|]. split; vm_compute; reflexivity.
Qed.
