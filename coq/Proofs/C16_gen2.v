(* Proofs/C16_gen2.v — property C16, laws of the table samplers over all complete rankings:
   the uniform law (Impartial Culture), the categorical law of a full table (what
   BallotSimplex(alpha) draws from, given the Dirichlet draw), the case of equal entries, and
   BallotSimplex.from_point (whose table is always the uniform one, as coded).
   The Plackett-Luce laws are in Proofs/C16_gen2_pl.v, the slate-type laws in
   Proofs/C16_gen2_types.v; statements are collected in Properties/C16_gen2.v. *)
From VK Require Import Base Core GenValidation PrefInterval Generators Generators2 Laws.
From VK.Spec Require Import GenSpec Gen2Spec GenLaws BTSpec.
From VK.Proofs Require Import Lib_rk Lib_sets Dist C12_expand C15_bt C15_interval C14_wf C14_kernels C16_laws
  C14_gen2 C16_gen2_pl.
From Coq Require Import Permutation Lia Lqa Setoid Morphisms.

Lemma list_peqb_reflect : forall a b : list pcand, reflect (a = b) (list_peqb a b).
Proof.
  intros a b. destruct (list_peqb a b) eqn:E; constructor.
  - apply list_peqb_true_iff. exact E.
  - apply list_peqb_false_iff. exact E.
Qed.

Lemma existsb_peqb_perms : forall cands r,
  existsb (list_peqb r) (perms pcand cands) = true <-> Permutation r cands.
Proof.
  intros cands r. rewrite existsb_exists. split.
  - intros (x & Hx & E). apply list_peqb_true_iff in E. subst x. apply (perms_spec pcand). exact Hx.
  - intros H. exists r. split; [apply (perms_spec pcand); exact H|apply list_peqb_refl].
Qed.

(* ---------- the uniform law over the complete rankings ---------- *)
Theorem uniform_rankings_law : forall cands, NoDup cands ->
  mass (uniform_of (perms pcand cands)) == 1 /\
  length (perms pcand cands) = fact (length cands) /\
  (forall r, Permutation r cands ->
     prob (list_peqb r) (uniform_of (perms pcand cands)) == 1 / Qnat (fact (length cands))) /\
  (forall r, ~ Permutation r cands -> prob (list_peqb r) (uniform_of (perms pcand cands)) == 0).
Proof.
  intros cands Hnd. split; [apply mass_uniform_of; apply perms_nonempty|].
  split; [apply (perms_length pcand)|].
  pose proof (perms_NoDup pcand cands Hnd) as HN.
  split; intros r Hr; rewrite (prob_uniform_of_point list_peqb list_peqb_reflect r _ HN).
  - rewrite (proj2 (existsb_peqb_perms cands r) Hr), (perms_length pcand). reflexivity.
  - destruct (existsb (list_peqb r) (perms pcand cands)) eqn:E; [|reflexivity].
    exfalso. apply Hr. apply existsb_peqb_perms. exact E.
Qed.

(* ---------- the categorical law of a table over the complete rankings ---------- *)
Section Table.
Variable cands : list pcand.
Variable tbl : list (list pcand * Q).
Hypothesis Hnd : NoDup cands.
Hypothesis Hkeys : NoDup (map fst tbl).
Hypothesis Hrows : forall r, In r (map fst tbl) <-> Permutation r cands.
Hypothesis Hlen : length tbl = fact (length cands).

Lemma table_prob_entry : forall r v, In (r, v) tbl ->
  prob (list_peqb r) (categorical tbl) == v / qsum (map snd tbl).
Proof.
  intros r v Hin. rewrite prob_categorical, (select_table tbl r v Hkeys Hin). reflexivity.
Qed.

Lemma table_prob_outside : forall r, ~ Permutation r cands -> prob (list_peqb r) (categorical tbl) == 0.
Proof.
  intros r Hr. rewrite prob_categorical, filter_all_false.
  - cbn [map]. rewrite qsum_nil. unfold Qdiv. ring.
  - intros [r' v] Hin. cbn [fst]. apply list_peqb_false_iff. intros <-. apply Hr. apply Hrows.
    apply in_map_iff. exists (r, v). split; [reflexivity|exact Hin].
Qed.

Lemma table_equal_entries : forall v, ~ v == 0 -> (forall r w, In (r, w) tbl -> w == v) ->
  mass (categorical tbl) == 1 /\
  (forall r, Permutation r cands ->
     prob (list_peqb r) (categorical tbl) == 1 / Qnat (fact (length cands))) /\
  (forall r, prob (list_peqb r) (categorical tbl) ==
             prob (list_peqb r) (uniform_of (perms pcand cands))).
Proof.
  intros v Hv Heq.
  assert (Hf : ~ Qnat (fact (length cands)) == 0) by (apply Qnat_neq0; apply fact_pos).
  assert (Hs : qsum (map snd tbl) == Qnat (fact (length cands)) * v).
  { rewrite (qsum_map_ext_in snd (fun _ => v)).
    - rewrite qsum_map_const, Hlen. reflexivity.
    - intros [r w] Hin. cbn [snd]. apply (Heq r w Hin). }
  assert (Hnz : ~ qsum (map snd tbl) == 0).
  { rewrite Hs. intros E. apply Qmult_integral in E. tauto. }
  assert (Hin : forall r, Permutation r cands ->
            prob (list_peqb r) (categorical tbl) == 1 / Qnat (fact (length cands))).
  { intros r Hr. apply Hrows in Hr. apply in_map_iff in Hr. destruct Hr as ([r' w] & <- & Hw).
    cbn [fst]. rewrite (table_prob_entry r' w Hw), Hs, (Heq r' w Hw). field. split; assumption. }
  split; [apply mass_categorical; exact Hnz|]. split; [exact Hin|].
  intros r. destruct (uniform_rankings_law cands Hnd) as (_ & _ & U1 & U2).
  destruct (existsb (list_peqb r) (perms pcand cands)) eqn:E.
  - apply existsb_peqb_perms in E. rewrite (Hin r E), (U1 r E). reflexivity.
  - assert (Hr : ~ Permutation r cands).
    { intros H. apply existsb_peqb_perms in H. congruence. }
    rewrite (table_prob_outside r Hr), (U2 r Hr). reflexivity.
Qed.
End Table.

(* BallotSimplex(alpha): given the Dirichlet draw [tbl], every complete ranking is drawn with
   probability its table entry (over the total, which is 1 for a Dirichlet draw) *)
Theorem alpha_table_law : forall cands tbl,
  NoDup cands -> full_table cands tbl = true -> ~ qsum (map snd tbl) == 0 ->
  mass (categorical tbl) == 1 /\
  (forall r v, In (r, v) tbl -> prob (list_peqb r) (categorical tbl) == v / qsum (map snd tbl)) /\
  (forall r, ~ Permutation r cands -> prob (list_peqb r) (categorical tbl) == 0).
Proof.
  intros cands tbl Hnd Hf Hnz. destruct (full_table_spec cands tbl Hnd Hf) as (F1 & F2 & F3 & _).
  split; [apply mass_categorical; exact Hnz|]. split.
  - intros r v Hin. apply (table_prob_entry tbl F2 r v Hin).
  - intros r Hr. apply (table_prob_outside cands tbl F3 r Hr).
Qed.

(* Impartial Culture is the case of equal entries (the mean of the Dirichlet distribution, which the
   draw approaches as alpha grows; the code uses alpha = 1e20): the uniform law *)
Theorem alpha_table_equal_uniform : forall cands tbl v,
  NoDup cands -> full_table cands tbl = true -> ~ v == 0 -> (forall r w, In (r, w) tbl -> w == v) ->
  mass (categorical tbl) == 1 /\
  (forall r, Permutation r cands ->
     prob (list_peqb r) (categorical tbl) == 1 / Qnat (fact (length cands))) /\
  (forall r, prob (list_peqb r) (categorical tbl) ==
             prob (list_peqb r) (uniform_of (perms pcand cands))).
Proof.
  intros cands tbl v Hnd Hf Hv Heq. destruct (full_table_spec cands tbl Hnd Hf) as (F1 & F2 & F3 & _).
  apply (table_equal_entries cands tbl Hnd F2 F3 F1 v Hv Heq).
Qed.

(* BallotSimplex.from_point: the table is the uniform one whatever the point (every complete ranking
   has the same product of point values), provided no declared candidate has point value 0 *)
Theorem point_table_law : forall cands point,
  NoDup cands -> ~ fold_left (fun a c => a * lookupP point c) cands 1 == 0 ->
  mass (categorical (point_table cands point)) == 1 /\
  (forall r, Permutation r cands ->
     prob (list_peqb r) (categorical (point_table cands point)) == 1 / Qnat (fact (length cands))) /\
  (forall r, prob (list_peqb r) (categorical (point_table cands point)) ==
             prob (list_peqb r) (uniform_of (perms pcand cands))).
Proof.
  intros cands point Hnd Hnz. destruct (point_table_rows cands point) as (_ & R2 & R3 & R4).
  destruct (R4 Hnd) as [R5 _].
  assert (Hf : ~ Qnat (fact (length cands)) == 0) by (apply Qnat_neq0; apply fact_pos).
  apply (table_equal_entries cands (point_table cands point) Hnd R5 R3 R2 (1 / Qnat (fact (length cands)))).
  - intros E. apply Hf.
    assert (E' : 1 == (1 / Qnat (fact (length cands))) * Qnat (fact (length cands))) by (field; exact Hf).
    rewrite E in E'. exfalso. revert E'. clear. intros E'.
    assert (H : 0 * Qnat (fact (length cands)) == 0) by ring. rewrite H in E'. discriminate E'.
  - intros r w Hin. apply (proj2 (point_table_uniform cands point r w Hnz Hin)).
Qed.

(* ------------------------------------------------------------------ *)
(** * CambridgeSampler: the law of one slate's candidates on the ballot *)

Section CambridgeBallot.
Variable is : list pinterval.
Variable props : list Q.
Hypothesis Hwf : Forall wf_interval is.
Hypothesis Hlen : length is = length props.
Hypothesis Hnn : Forall (fun p => 0 <= p) props.
Hypothesis Hnd : NoDup (concat (map pi_cands is)).
Hypothesis Hr : rounds_to_one (qsum props) = true.
Variable r : pinterval.
Hypothesis Hcomb : combine_intervals is props = inl r.
Variable i : pinterval.
Variable p : Q.
Hypothesis Hip : In (i, p) (combine is props).
Hypothesis Hp : 0 < p.
Hypothesis HndI : NoDup (map fst (pi_int i)).
Variable slate : list pcand.
Hypothesis Hslate : forall c, In c (map fst (pi_int r)) ->
  (pmem c slate = true <-> In c (map fst (pi_int i))).

(* every possible draw contains the slate's supported candidates exactly once *)
Lemma cam_filtered_perm : forall d w,
  In (d, w) (law_pl (pi_int r) (length (pi_int r))) ->
  Permutation (filter (fun c => pmem c slate) d) (map fst (pi_int i)).
Proof.
  intros d w Hin.
  destruct (combine_ok is props Hwf Hlen Hnn Hnd Hr) as (r' & Hr' & H1 & _ & _ & _ & _ & _ & HndR & _).
  rewrite Hcomb in Hr'. injection Hr' as <-.
  destruct (law_pl_support _ _ d w HndR Hin) as (L & N & I).
  assert (Hcov : incl (map fst (pi_int r)) d).
  { apply NoDup_length_incl; [exact N|rewrite map_length; lia|exact I]. }
  apply NoDup_Permutation; [apply NoDup_filter; exact N|exact HndI|].
  intros c. rewrite filter_In. split.
  - intros [Hc Hs]. apply (Hslate c (I c Hc)). exact Hs.
  - intros Hc. apply in_map_iff in Hc. destruct Hc as ([c' v] & <- & Hv). cbn [fst].
    destruct (H1 i p c' v Hip Hv Hp) as (w' & Hw' & _).
    assert (Hk : In c' (map fst (pi_int r))).
    { apply in_map_iff. exists (c', w'). split; [reflexivity|exact Hw']. }
    split; [apply Hcov; exact Hk|]. apply (Hslate c' Hk).
    apply in_map_iff. exists (c', v). split; [reflexivity|exact Hv].
Qed.

(* any number k of slots: the candidates placed are a min(k, |slate|)-draw *)
Theorem cambridge_slate_prefix_min : forall (o : list pcand) k,
  prob (fun d => list_peqb o (firstn k (filter (fun c => pmem c slate) d)))
       (law_pl (pi_int r) (length (pi_int r)))
  == prob (list_peqb o) (law_pl (pi_int i) (Nat.min k (length (pi_int i)))).
Proof.
  intros o k. destruct (Nat.le_ge_cases k (length (pi_int i))) as [Hk|Hk].
  - rewrite (Nat.min_l _ _ Hk).
    exact (cambridge_slate_prefix_pl is props Hwf Hlen Hnn Hnd Hr r Hcomb i p Hip Hp HndI slate Hslate o k Hk).
  - rewrite (Nat.min_r _ _ Hk).
    rewrite <- (cambridge_slate_order_pl is props Hwf Hlen Hnn Hnd Hr r Hcomb i p Hip Hp HndI slate Hslate o).
    apply prob_ext_in. intros d w Hin. pose proof (cam_filtered_perm d w Hin) as HP.
    rewrite firstn_all2; [reflexivity|]. rewrite (Permutation_length HP), map_length. exact Hk.
Qed.

(* the own-slate candidates of a CambridgeSampler ballot ([slate] is the voter's own slate, [sp]
   any disjoint opposing slate, [t] the historical type, [own] the voter's historical label) *)
Theorem cambridge_ballot_own_law : forall (sp : list pcand) own t (o : list pcand),
  (forall c, pmem c slate = true -> pmem c sp = true -> False) ->
  prob (fun d => list_peqb o (filter (fun c => pmem c slate)
                  (cam_fill own t (filter (fun c => pmem c slate) d) (filter (fun c => pmem c sp) d))))
       (law_pl (pi_int r) (length (pi_int r)))
  == prob (list_peqb o) (law_pl (pi_int i) (Nat.min (count_bloc own t) (length (pi_int i)))).
Proof.
  intros sp own t o Hdis. rewrite <- cambridge_slate_prefix_min. apply prob_ext_in. intros d w _.
  destruct (cam_fill_filter (fun c => pmem c slate) own t
              (filter (fun c => pmem c slate) d) (filter (fun c => pmem c sp) d)) as [F _].
  - intros c Hc. apply filter_In in Hc. tauto.
  - intros c Hc. apply filter_In in Hc. destruct Hc as [_ Hc].
    destruct (pmem c slate) eqn:E; [exfalso; apply (Hdis c E Hc)|reflexivity].
  - rewrite F. reflexivity.
Qed.

(* the opposing-slate candidates ([slate] is the opposing slate, [so] any disjoint own slate) *)
Theorem cambridge_ballot_opp_law : forall (so : list pcand) own t (o : list pcand),
  (forall c, pmem c so = true -> pmem c slate = true -> False) ->
  prob (fun d => list_peqb o (filter (fun c => pmem c slate)
                  (cam_fill own t (filter (fun c => pmem c so) d) (filter (fun c => pmem c slate) d))))
       (law_pl (pi_int r) (length (pi_int r)))
  == prob (list_peqb o) (law_pl (pi_int i) (Nat.min (count_other own t) (length (pi_int i)))).
Proof.
  intros so own t o Hdis. rewrite <- cambridge_slate_prefix_min. apply prob_ext_in. intros d w _.
  destruct (cam_fill_filter (fun c => negb (pmem c slate)) own t
              (filter (fun c => pmem c so) d) (filter (fun c => pmem c slate) d)) as [_ F].
  - intros c Hc. apply filter_In in Hc. destruct Hc as [_ Hc].
    destruct (pmem c slate) eqn:E; [exfalso; apply (Hdis c Hc E)|reflexivity].
  - intros c Hc. apply filter_In in Hc. destruct Hc as [_ Hc]. rewrite Hc. reflexivity.
  - rewrite <- F. f_equal. apply filter_ext. intros c. rewrite negb_involutive. reflexivity.
Qed.

End CambridgeBallot.
