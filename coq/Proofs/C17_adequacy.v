(* Proofs/C17_adequacy.v — C17, adequacy of the laws for the executable run: the sequence laws
   [law_rd_sequence] (Model/Laws.v) and [law_brd_sequence] / [law_brd_run] (Spec/BRDSpec.v) are
   recursions of their own; here they are tied to [run_dictator] (Model/Rules.v).
     Soundness: the winners of a successful run have positive probability under the law (for
     BoostedRandomDictator: provided the script is one the primitives can produce).
     Completeness: every sequence of positive probability is produced by some script.
   Builds on Proofs/C17_laws.v, Proofs/C17_brd.v (laws, run chain) and Proofs/C01_dictator.v
   (shape of a finished run). *)
From VK Require Import Base Core STV Rules Laws.
From VK.Spec Require Import EditSpec ScoreSpec STVSpec LawSpec RunSpec BRDSpec RunLawSpec.
From VK.Proofs Require Import Lib_condense12 C12_edit C12_expand C06_pairwise C04_scoring Elect Lib_sets Dist
  C17_laws C17_brd.
From VK.Proofs Require C10_quiet C01_lib C08_anon C08_rules C01_dictator C20_validation.
From Coq Require Import Permutation Lia Lqa Setoid Morphisms.

(* ------------------------------------------------------------------ *)
(** * generic list / rational facts *)

Lemma Forall2_app_split : forall {A B} (R : A -> B -> Prop) (a a' : list A) (b b' : list B),
  length a = length b -> Forall2 R (a ++ a') (b ++ b') -> Forall2 R a b /\ Forall2 R a' b'.
Proof.
  intros A B R a. induction a as [|x a IH]; intros a' b b' Hlen H.
  - destruct b as [|y b]; [|discriminate Hlen]. split; [constructor|exact H].
  - destruct b as [|y b]; [discriminate Hlen|]. cbn [app] in H.
    inversion H as [|x0 y0 l0 l0' Hxy Hrest]; subst.
    cbn [length] in Hlen. injection Hlen as Hlen.
    destruct (IH a' b b' Hlen Hrest) as [H1 H2]. split; [constructor; assumption|exact H2].
Qed.

Lemma rev_inj : forall {A} (a b : list A), rev a = rev b -> a = b.
Proof. intros A a b H. rewrite <- (rev_involutive a), <- (rev_involutive b), H. reflexivity. Qed.

Lemma Qmult_pos_split : forall a b : Q, 0 <= a -> 0 <= b -> 0 < a * b -> 0 < a /\ 0 < b.
Proof.
  intros a b Ha Hb H. split.
  - destruct (Qlt_le_dec 0 a) as [Hl|Hl]; [exact Hl|exfalso].
    assert (E : a == 0) by (apply Qle_antisym; assumption).
    rewrite E, Qmult_0_l in H. exact (Qlt_irrefl 0 H).
  - destruct (Qlt_le_dec 0 b) as [Hl|Hl]; [exact Hl|exfalso].
    assert (E : b == 0) by (apply Qle_antisym; assumption).
    rewrite E, Qmult_0_r in H. exact (Qlt_irrefl 0 H).
Qed.

Lemma Qsq_pos : forall v : Q, ~ v == 0 -> 0 < v * v.
Proof.
  intros v Hv. destruct (Qlt_le_dec 0 v) as [Hp|Hn].
  - apply Qmult_lt_0_compat; exact Hp.
  - assert (Hlt : v < 0).
    { destruct (Qlt_le_dec v 0) as [Hl|Hl]; [exact Hl|]. exfalso. apply Hv. apply Qle_antisym; assumption. }
    setoid_replace (v * v) with ((- v) * (- v)) by ring. apply Qmult_lt_0_compat; lra.
Qed.

Section Adequacy.
Variable cand : Type.
Variable ceqb : cand -> cand -> bool.
Hypothesis ceqb_spec : forall a b, reflect (a = b) (ceqb a b).

Notation cset := (cset cand).
Notation ranking := (ranking cand).
Notation ballot := (ballot cand).
Notation profile := (profile cand).
Notation scores := (scores cand).
Notation mstate := (mstate cand).
Notation estate := (estate cand).
Notation draw := (draw cand).
Notation call := (call cand).
Notation memb := (memb cand ceqb).
Notation flat := (flat cand).
Notation total_wt := (total_wt cand).
Notation choices_pop := (choices_pop cand).
Notation law_pick := (law_pick cand).
Notation law_rd_winner := (law_rd_winner cand).
Notation law_brd_winner := (law_brd_winner cand).
Notation law_rd_sequence := (law_rd_sequence cand ceqb).
Notation law_brd_sequence := (law_brd_sequence cand ceqb).
Notation law_brd_run := (law_brd_run cand ceqb).
Notation law_random_tiebreak := (law_random_tiebreak cand).
Notation first_share := (first_share cand ceqb).
Notation rd_closed_form := (rd_closed_form cand ceqb).
Notation squares_closed_form := (squares_closed_form cand ceqb).
Notation squares := (squares cand).
Notation lookup0 := (lookup0 cand ceqb).
Notation list_eqb := (list_eqb cand ceqb).
Notation rd_domain := (rd_domain cand).
Notation nonneg_weights := (nonneg_weights cand).
Notation some_first := (some_first cand).
Notation rd_path_prob := (rd_path_prob cand ceqb).
Notation rd_path_ok := (rd_path_ok cand ceqb).
Notation brd_next := (brd_next cand ceqb).
Notation brd_lambda := (brd_lambda cand).
Notation brd_closed_form := (brd_closed_form cand ceqb).
Notation brd_path_prob := (brd_path_prob cand ceqb).
Notation brd_domain := (brd_domain cand).
Notation brd_path_ok := (brd_path_ok cand ceqb).
Notation dict_chain := (dict_chain cand ceqb).
Notation ranked_profile := (ranked_profile cand).
Notation wf_profile := (wf_profile cand).
Notation first_place_votes := (first_place_votes cand ceqb).
Notation remove_cand_prof := (remove_cand_prof cand ceqb).
Notation remove_cand_bs := (remove_cand_bs cand ceqb).
Notation condense_bs := (condense_bs cand ceqb).
Notation scrub := (scrub cand ceqb).
Notation elected_in := (elected_in cand).
Notation all_elected := (all_elected cand).
Notation count_elected := (count_elected cand).
Notation no_group := (no_group cand).
Notation state_of_scores := (state_of_scores cand).
Notation singletons := (singletons cand).
Notation draw_ballot := (draw_ballot cand ceqb).
Notation dictator_pick := (dictator_pick cand ceqb).
Notation elect_one := (elect_one cand ceqb).
Notation rd_step := (rd_step cand ceqb).
Notation brd_step := (brd_step cand ceqb).
Notation dictator_loop := (dictator_loop cand ceqb).
Notation run_dictator := (run_dictator cand ceqb).
Notation draw_admissible := (draw_admissible cand).
Notation admissible_between := (admissible_between cand).

Local Lemma ceqb_refl3 : forall a, ceqb a a = true.
Proof. intros a. destruct (ceqb_spec a a) as [_|H]; [reflexivity|contradiction]. Qed.

Local Lemma memb_In3 : forall c s, memb c s = true <-> In c s.
Proof. exact (Lib_sets.memb_In cand ceqb ceqb_spec). Qed.

(* ------------------------------------------------------------------ *)
(** * 0. Reading the winners off the states; the profile after one seat *)

(* the winners of a chain of steps, seat by seat *)
Definition seq_of (chain : list (profile * estate)) : list cand :=
  concat (map (fun pe => elected_in (snd pe)) chain).

Lemma all_elected_app : forall a b : list estate, all_elected (a ++ b) = all_elected a ++ all_elected b.
Proof. intros a b. unfold STVSpec.all_elected. rewrite map_app, concat_app. reflexivity. Qed.

Lemma all_elected_chain : forall (s0 : estate) (chain : list (profile * estate)),
  elected s0 = [[]] -> all_elected (s0 :: map snd chain) = seq_of chain.
Proof.
  intros s0 chain H0. unfold STVSpec.all_elected, seq_of. cbn [map concat].
  rewrite (C01_dictator.elected_in_none cand s0 H0), map_map. reflexivity.
Qed.

Lemma seq_of_cons : forall np (e : estate) w rest, elected e = [[w]] ->
  seq_of ((np, e) :: rest) = w :: seq_of rest.
Proof.
  intros np e w rest He. unfold seq_of. cbn [map concat snd].
  rewrite (C01_dictator.elected_in_one cand e w He). reflexivity.
Qed.

(* after a removal (ballots condensed, zero-weight ballots dropped) every weight is positive *)
Lemma remove_all_pos : forall W (p np : profile),
  remove_cand_prof W true false p = inl np -> all_pos cand (ballots np).
Proof.
  intros W p np H. rewrite (remove_prof_ballots cand ceqb W p np H), remove_cand_bs_unfold.
  apply condense_pos. apply Forall_forall. intros b Hb. cbn [kept_of] in Hb.
  apply filter_In in Hb. apply pos_wt_iff. apply Hb.
Qed.

Lemma all_pos_nonneg : forall p : profile, all_pos cand (ballots p) -> nonneg_weights p.
Proof.
  intros p H. unfold LawSpec.nonneg_weights. eapply Forall_impl; [|exact H].
  intros b Hb. apply Qlt_le_weak. exact Hb.
Qed.

Lemma remove_nonneg : forall W (p np : profile),
  remove_cand_prof W true false p = inl np -> nonneg_weights np.
Proof. intros W p np H. apply all_pos_nonneg. exact (remove_all_pos W p np H). Qed.

Lemma total_nonneg : forall p : profile, nonneg_weights p -> 0 <= total_wt (ballots p).
Proof.
  intros p H. unfold Core.total_wt. apply qsum_map_nonneg. intros b Hb.
  unfold LawSpec.nonneg_weights in H. rewrite Forall_forall in H. apply H. exact Hb.
Qed.

(* electing a listed candidate of a ranked profile leaves exactly one candidate less *)
Lemma remove_one_length : forall (p np : profile) w, ranked_profile p -> In w (cands p) ->
  remove_cand_prof [w] true false p = inl np -> length (cands p) = S (length (cands np)).
Proof.
  intros p np w Hr Hw H.
  assert (Hp : Permutation ([w] ++ cands np) (cands p)).
  { apply (C01_lib.ranked_remove_perm cand ceqb ceqb_spec [w] p np Hr H).
    - constructor; [intros []|constructor].
    - intros c [<-|[]]. exact Hw. }
  apply Permutation_length in Hp. cbn [app length] in Hp. lia.
Qed.

(* a candidate listed first on a ballot of a well-formed profile is a declared candidate *)
Lemma some_first_cands : forall (p : profile) w, wf_profile p -> some_first p w -> In w (cands p).
Proof.
  intros p w [_ Hbs] (b & s & r' & Hb & Hrk & Hw). rewrite Forall_forall in Hbs.
  destruct (Hbs b Hb) as (_ & _ & _ & Hincl). apply Hincl. rewrite Hrk, (flat_cons cand).
  apply in_or_app. left. exact Hw.
Qed.

(* ------------------------------------------------------------------ *)
(** * 1. RandomDictator: soundness *)

Lemma rd_closed_form_pos_of_step : forall (p : profile) (prev : estate) (st st' : mstate) np e,
  ranked_profile p -> nonneg_weights p -> rd_step p prev st = inl ((np, e), st') ->
  exists w, elected e = [[w]] /\ remove_cand_prof [w] true false p = inl np /\
            rd_domain p /\ 0 < rd_closed_form p w.
Proof.
  intros p prev st st' np e Hr Hnn H.
  destruct (rd_step_inv cand ceqb ceqb_spec _ _ _ _ _ _ H) as (w & Hel & Hrem & Htot & _).
  pose proof (wf_rd_domain cand p (proj1 Hr) Htot) as Hdom.
  destruct (rd_script_sound cand ceqb ceqb_spec p prev st st' np e Hdom Hnn H) as (w' & Hel' & Hpos).
  rewrite Hel in Hel'. injection Hel' as <-.
  exists w. split; [exact Hel|]. split; [exact Hrem|]. split; [exact Hdom|].
  rewrite <- (proj2 (rd_step_law cand ceqb ceqb_spec p Hdom) w). exact Hpos.
Qed.

Lemma rd_chain_sound : forall (chain : list (profile * estate)) (p : profile) (prev : estate)
    (st st' : mstate),
  ranked_profile p -> nonneg_weights p -> dict_chain false p prev st chain st' ->
  rd_path_ok (seq_of chain) p /\ 0 < rd_path_prob (seq_of chain) p /\
  length (seq_of chain) = length chain.
Proof.
  induction chain as [|[np e] rest IH]; intros p prev st st' Hr Hnn H.
  - cbn. split; [exact I|]. split; [reflexivity|reflexivity].
  - cbn [BRDSpec.dict_chain] in H. destruct H as (st1 & Hstep & Hrest).
    destruct (rd_closed_form_pos_of_step p prev st st1 np e Hr Hnn Hstep) as (w & Hel & Hrem & Hdom & Hpos).
    rewrite (seq_of_cons np e w rest Hel).
    pose proof (C01_lib.ranked_remove cand ceqb ceqb_spec [w] p np Hr Hrem) as Hr'.
    pose proof (remove_nonneg [w] p np Hrem) as Hnn'.
    destruct (IH np e st1 st' Hr' Hnn' Hrest) as (Hok & Hpp & Hlen).
    cbn [LawSpec.rd_path_ok LawSpec.rd_path_prob length]. rewrite Hrem.
    split; [split; assumption|]. split; [|rewrite Hlen; reflexivity].
    apply Qmult_lt_0_compat; assumption.
Qed.

Theorem rd_run_sound : forall m (p : profile) (st st' : mstate) sts,
  ranked_profile p -> nonneg_weights p ->
  run_dictator false m p st = inl (sts, st') ->
  length (all_elected sts) = Z.to_nat m /\
  0 < prob (list_eqb (all_elected sts)) (law_rd_sequence (Z.to_nat m) p) /\
  prob (list_eqb (all_elected sts)) (law_rd_sequence (Z.to_nat m) p) == rd_path_prob (all_elected sts) p.
Proof.
  intros m p st st' sts Hr Hnn H.
  destruct (run_dictator_linked cand ceqb false m p st st' sts H) as (s0 & chain & Hsts & _ & Hch & _).
  destruct (C01_dictator.dictator_run_outcome cand ceqb ceqb_spec false m p st sts st' Hr H)
    as (_ & Hlen & _ & (s0' & rest' & Hsts' & Hel0 & _) & _).
  rewrite Hsts in Hsts'. injection Hsts' as <- _.
  rewrite Hsts, (all_elected_chain s0 chain Hel0).
  destruct (rd_chain_sound chain p s0 st st' Hr Hnn Hch) as (Hok & Hpp & Hl).
  assert (Hk : length (seq_of chain) = Z.to_nat m).
  { rewrite Hl. rewrite Hsts in Hlen. cbn [length] in Hlen. rewrite map_length in Hlen. lia. }
  rewrite <- Hk. split; [reflexivity|].
  pose proof (rd_sequence_path cand ceqb ceqb_spec (seq_of chain) p Hok) as E.
  split; [rewrite E; exact Hpp|exact E].
Qed.

(* ------------------------------------------------------------------ *)
(** * 2. RandomDictator: completeness *)

(* the outcomes of the law for at least one seat are non-empty sequences *)
Lemma rd_sequence_nil_zero : forall k (p : profile),
  prob (list_eqb []) (law_rd_sequence (S k) p) == 0.
Proof.
  intros k p. cbn [Laws.law_rd_sequence]. rewrite prob_dbind. apply qsum_map_zero.
  intros [w q] _. cbn [fst snd].
  destruct (remove_cand_prof [w] true false p) as [np|e0].
  - rewrite prob_dbind_dret. rewrite (prob_ext_in _ (fun _ => false)).
    + rewrite prob_false. ring.
    + intros l q' _. reflexivity.
  - rewrite prob_nil. ring.
Qed.

Lemma rd_sequence_prob_nonneg : forall k ws (p : profile), nonneg_weights p ->
  0 <= prob (list_eqb ws) (law_rd_sequence k p).
Proof.
  induction k as [|k IH]; intros ws p Hnn.
  - cbn [Laws.law_rd_sequence]. rewrite prob_dret. destruct (list_eqb ws []); lra.
  - destruct ws as [|w ws].
    + rewrite rd_sequence_nil_zero. apply Qle_refl.
    + rewrite (rd_sequence_rec cand ceqb ceqb_spec). apply Qmult_le_0_compat.
      * apply (rd_step_prob_range cand p (ceqb w) Hnn).
      * destruct (remove_cand_prof [w] true false p) as [np|e0] eqn:Hrem; [|apply Qle_refl].
        apply IH. exact (remove_nonneg [w] p np Hrem).
Qed.

Lemma rd_sequence_pos_inv : forall k ws (p : profile), nonneg_weights p ->
  0 < prob (list_eqb ws) (law_rd_sequence (S k) p) ->
  exists w ws' np, ws = w :: ws' /\ 0 < prob (ceqb w) (law_rd_winner p) /\
    remove_cand_prof [w] true false p = inl np /\
    0 < prob (list_eqb ws') (law_rd_sequence k np).
Proof.
  intros k [|w ws] p Hnn H.
  - rewrite rd_sequence_nil_zero in H. exfalso. exact (Qlt_irrefl 0 H).
  - rewrite (rd_sequence_rec cand ceqb ceqb_spec) in H.
    destruct (remove_cand_prof [w] true false p) as [np|e0] eqn:Hrem.
    + apply Qmult_pos_split in H.
      * exists w, ws, np. split; [reflexivity|]. split; [apply H|]. split; [exact Hrem|apply H].
      * apply (rd_step_prob_range cand p (ceqb w) Hnn).
      * apply rd_sequence_prob_nonneg. exact (remove_nonneg [w] p np Hrem).
    + rewrite Qmult_0_r in H. exfalso. exact (Qlt_irrefl 0 H).
Qed.

(* a candidate of positive one-step probability is listed first on some ballot *)
Lemma rd_winner_pos_first : forall (p : profile) w,
  0 < prob (ceqb w) (law_rd_winner p) -> some_first p w.
Proof.
  intros p w H. apply prob_pos_inv in H. destruct H as (a & q & Hin & Hev & _).
  destruct (ceqb_spec w a) as [->|]; [|discriminate].
  exact (law_rd_winner_support cand p a q Hin).
Qed.

(* a sequence of positive probability is no longer than the candidate list *)
Lemma rd_sequence_pos_length : forall k ws (p : profile), ranked_profile p -> nonneg_weights p ->
  0 < prob (list_eqb ws) (law_rd_sequence k p) -> (k <= length (cands p))%nat.
Proof.
  induction k as [|k IH]; intros ws p Hr Hnn H; [lia|].
  destruct (rd_sequence_pos_inv k ws p Hnn H) as (w & ws' & np & _ & Hw & Hrem & Hrest).
  pose proof (some_first_cands p w (proj1 Hr) (rd_winner_pos_first p w Hw)) as Hin.
  rewrite (remove_one_length p np w Hr Hin Hrem).
  pose proof (IH ws' np (C01_lib.ranked_remove cand ceqb ceqb_spec [w] p np Hr Hrem)
                (remove_nonneg [w] p np Hrem) Hrest). lia.
Qed.

(* the script of one step, followed by anything: the step reduces to electing the candidate *)
Lemma rd_step_script : forall (p : profile) c, rd_domain p ->
  0 < prob (ceqb c) (law_rd_winner p) ->
  exists (sc : list draw) tbs (cs : list call), length sc = length cs /\
    forall prev rest l0,
      rd_step p prev (mkM (sc ++ rest) l0) = elect_one c tbs p prev (mkM rest (rev cs ++ l0)).
Proof.
  intros p c Hdom Hpos. destruct (rd_step_law cand ceqb ceqb_spec p Hdom) as [_ Hlaw].
  rewrite Hlaw in Hpos. destruct Hdom as [Hall Htot]. rewrite Forall_forall in Hall.
  unfold Laws.rd_closed_form in Hpos.
  assert (Hnum : 0 < qsum (map (fun b => wt b * first_share c (rk b)) (ballots p))).
  { apply (Qmult_lt_r _ _ (/ total_wt (ballots p))); [apply Qinv_lt_0_compat; exact Htot|].
    rewrite Qmult_0_l. exact Hpos. }
  apply qsum_map_pos_inv in Hnum. destruct Hnum as (b & Hb & Hterm).
  destruct (Hall b Hb) as (s & r' & Hrk & Hne & Hnd).
  assert (Hfs : 0 <= first_share c (rk b)) by apply (first_share_nonneg cand ceqb).
  assert (Hfs_pos : 0 < first_share c (rk b)).
  { destruct (Qlt_le_dec 0 (first_share c (rk b))) as [Hl|Hl]; [exact Hl|].
    assert (E : first_share c (rk b) == 0) by (apply Qle_antisym; assumption).
    rewrite E, Qmult_0_r in Hterm. exfalso. apply (Qlt_irrefl 0). exact Hterm. }
  assert (Hwb : 0 < wt b).
  { destruct (Qlt_le_dec 0 (wt b)) as [Hl|Hl]; [exact Hl|]. exfalso.
    assert (wt b * first_share c (rk b) <= 0); [|lra].
    rewrite <- (Qmult_0_l (first_share c (rk b))). apply Qmult_le_compat_r; assumption. }
  assert (Hcs : In c s).
  { rewrite Hrk in Hfs_pos. cbn [Laws.first_share] in Hfs_pos.
    destruct (memb c s) eqn:Hm; [apply memb_In3; exact Hm|].
    exfalso. apply (Qlt_irrefl 0). exact Hfs_pos. }
  destruct s as [|x [|y s']]; [contradiction| |].
  - destruct Hcs as [->|[]].
    exists [DRank (rk b)], [], [CChoices (choices_pop p)]. split; [reflexivity|].
    intros prev rest l0. unfold Rules.rd_step, mbind. cbn [app].
    rewrite (draw_ballot_run cand ceqb ceqb_spec p b rest l0 Htot Hb Hwb).
    rewrite Hrk. reflexivity.
  - set (s := x :: y :: s') in *.
    apply in_split in Hcs. destruct Hcs as (l1 & l2 & Hs).
    assert (Hperm : Permutation (c :: l1 ++ l2) s) by (rewrite Hs; apply Permutation_middle).
    exists [DRank (rk b); DPerm (c :: l1 ++ l2)], [(s, singletons (c :: l1 ++ l2))],
           [CChoices (choices_pop p); CSample s]. split; [reflexivity|].
    intros prev rest l0. unfold Rules.rd_step, mbind. cbn [app].
    rewrite (draw_ballot_run cand ceqb ceqb_spec p b _ l0 Htot Hb Hwb).
    rewrite Hrk. unfold s at 1. cbn [Rules.dictator_pick]. fold s.
    cbn [Core.tiebreak_set]. unfold Core.draw_perm, mbind, Core.next_draw. cbn [scr lg]. unfold ok.
    rewrite (is_perm_of_intro cand ceqb ceqb_spec _ s Hnd Hperm). reflexivity.
Qed.

Lemma count_elected_one : forall (st : estate) sts w, elected st = [[w]] ->
  count_elected (st :: sts) = (1 + count_elected sts)%Z.
Proof.
  intros st sts w H. rewrite (STV_inv.count_elected_cons cand), (C01_dictator.elected_in_one cand st w H).
  reflexivity.
Qed.

Lemma all_elected_rev_cons : forall (st : estate) sts w, elected st = [[w]] ->
  all_elected (rev (st :: sts)) = all_elected (rev sts) ++ [w].
Proof.
  intros st sts w H. cbn [rev]. rewrite all_elected_app. unfold STVSpec.all_elected at 2.
  cbn [map concat]. rewrite (C01_dictator.elected_in_one cand st w H), app_nil_r. reflexivity.
Qed.

(* the loop can be driven along any sequence of positive probability *)
Lemma rd_loop_complete : forall k fuel m (p : profile) (prev : estate) older ws l0,
  (k <= fuel)%nat -> ranked_profile p -> nonneg_weights p ->
  count_elected (prev :: older) = (m - Z.of_nat k)%Z ->
  0 < prob (list_eqb ws) (law_rd_sequence k p) ->
  exists sc out l1,
    dictator_loop fuel false m p (prev :: older) (mkM sc l0) = inl (out, mkM [] l1) /\
    all_elected out = all_elected (rev (prev :: older)) ++ ws.
Proof.
  induction k as [|k IH]; intros fuel m p prev older ws l0 Hfuel Hr Hnn Hcnt H.
  - assert (Hws : ws = []).
    { cbn [Laws.law_rd_sequence] in H. rewrite prob_dret in H.
      destruct (list_eqb_spec cand ceqb ceqb_spec ws []) as [E|_]; [exact E|].
      exfalso. exact (Qlt_irrefl 0 H). }
    subst ws. exists [], (rev (prev :: older)), l0.
    assert (Hm : (m <=? count_elected (prev :: older))%Z = true) by (apply Z.leb_le; lia).
    split; [|rewrite app_nil_r; reflexivity].
    destruct fuel; cbn [Rules.dictator_loop]; rewrite Hm; reflexivity.
  - destruct (rd_sequence_pos_inv k ws p Hnn H) as (w & ws' & np & -> & Hw & Hrem & Hrest).
    destruct fuel as [|fuel]; [lia|].
    assert (Hdom : rd_domain p).
    { apply (wf_rd_domain cand p (proj1 Hr)).
      destruct (rd_winner_pos_first p w Hw) as (b & s & r' & Hb & _).
      destruct (Qlt_le_dec 0 (total_wt (ballots p))) as [Hl|Hl]; [exact Hl|exfalso].
      (* total weight 0: the law is empty *)
      apply prob_pos_inv in Hw. destruct Hw as (a & q & Hin & _ & Hq).
      unfold Laws.law_rd_winner in Hin. apply dbind_support in Hin.
      destruct Hin as (r & q1 & q2 & Hr1 & Hr2 & ->).
      unfold Laws.law_draw_ballot, categorical in Hr1. rewrite (choices_pop_total cand) in Hr1.
      apply in_map_iff in Hr1. destruct Hr1 as ([r0 w0] & E & Hin0). cbn [fst snd] in E.
      injection E as _ <-.
      assert (E0 : total_wt (ballots p) == 0) by (apply Qle_antisym; [exact Hl|apply total_nonneg; exact Hnn]).
      rewrite E0 in Hq. unfold Qdiv in Hq. change (/ 0) with 0 in Hq.
      rewrite Qmult_0_r, Qmult_0_l in Hq. exact (Qlt_irrefl 0 Hq). }
    destruct (rd_step_script p w Hdom Hw) as (sc1 & tbs & cs1 & _ & Hstep).
    destruct (C01_dictator.elect_one_total cand ceqb ceqb_spec w tbs p prev Hr)
      as (np' & d & Hnp' & Hd & Hel).
    rewrite Hrem in Hnp'. injection Hnp' as <-.
    set (st1 := state_of_scores (rnd prev + 1) [[w]] no_group tbs d) in *.
    assert (Hel1 : elected st1 = [[w]]) by reflexivity.
    destruct (IH fuel m np st1 (prev :: older) ws' (rev cs1 ++ l0)) as (sc2 & out & l1 & Hloop & Hout).
    + lia.
    + exact (C01_lib.ranked_remove cand ceqb ceqb_spec [w] p np Hr Hrem).
    + exact (remove_nonneg [w] p np Hrem).
    + rewrite (count_elected_one st1 (prev :: older) w Hel1), Hcnt. lia.
    + exact Hrest.
    + exists (sc1 ++ sc2), out, l1. split.
      * cbn [Rules.dictator_loop].
        assert (Hm : (m <=? count_elected (prev :: older))%Z = false) by (apply Z.leb_gt; lia).
        rewrite Hm. unfold mbind. rewrite (Hstep prev sc2 l0), Hel. exact Hloop.
      * rewrite Hout, (all_elected_rev_cons st1 (prev :: older) w Hel1), <- app_assoc. reflexivity.
Qed.

Theorem rd_run_complete : forall k (p : profile) ws l0,
  ranked_profile p -> nonneg_weights p -> (1 <= k)%nat ->
  0 < prob (list_eqb ws) (law_rd_sequence k p) ->
  exists sc sts l1,
    run_dictator false (Z.of_nat k) p (mkM sc l0) = inl (sts, mkM [] l1) /\ all_elected sts = ws.
Proof.
  intros k p ws l0 Hr Hnn Hk H.
  pose proof (rd_sequence_pos_length k ws p Hr Hnn H) as Hlen.
  destruct (C01_dictator.run_dictator_start cand ceqb ceqb_spec false (Z.of_nat k) p Hr) as (d & Hd & Hrun);
    [lia|].
  set (s0 := state_of_scores 0 no_group no_group [] d) in *.
  destruct (rd_loop_complete k (length (cands p) + 2) (Z.of_nat k) p s0 [] ws l0) as (sc & out & l1 & Hloop & Hout).
  - lia.
  - exact Hr.
  - exact Hnn.
  - rewrite (STV_inv.count_elected_cons cand). cbn. lia.
  - exact H.
  - exists sc, out, l1. split; [rewrite Hrun; exact Hloop|]. rewrite Hout. reflexivity.
Qed.

(* ------------------------------------------------------------------ *)
(** * 3. Ties in first place: the run and the even split *)

(* a positive-weight ballot whose first position [s] holds at least two candidates: answering
   random.choices with that ballot and random.sample with ANY order of [s] headed by [c] elects
   [c]; the law gives every such order probability 1/|s|! and every member of [s] the share
   1/|s| of the ballot *)
Theorem rd_tie_consistent : forall (p : profile) (b : ballot) s r' c l,
  0 < total_wt (ballots p) -> In b (ballots p) -> 0 < wt b -> rk b = s :: r' ->
  NoDup s -> (2 <= length s)%nat -> Permutation (c :: l) s ->
  (forall prev rest l0,
     rd_step p prev (mkM (DRank (rk b) :: DPerm (c :: l) :: rest) l0) =
     elect_one c [(s, singletons (c :: l))] p prev
       (mkM rest (CSample s :: CChoices (choices_pop p) :: l0))) /\
  prob (ceqb c) (law_pick (rk b)) == 1 / Qnat (length s) /\
  prob (list_eqb (c :: l)) (law_random_tiebreak s) == 1 / Qnat (fact (length s)).
Proof.
  intros p b s r' c l Htot Hb Hwb Hrk Hnd Hlen Hperm. split; [|split].
  - intros prev rest l0. unfold Rules.rd_step, mbind.
    rewrite (draw_ballot_run cand ceqb ceqb_spec p b _ l0 Htot Hb Hwb). rewrite Hrk.
    destruct s as [|x [|y s']]; [cbn [length] in Hlen; lia|cbn [length] in Hlen; lia|].
    set (s := x :: y :: s') in *. unfold s at 1. cbn [Rules.dictator_pick]. fold s.
    cbn [Core.tiebreak_set]. unfold Core.draw_perm, mbind, Core.next_draw. cbn [scr lg]. unfold ok.
    rewrite (is_perm_of_intro cand ceqb ceqb_spec _ s Hnd Hperm). reflexivity.
  - assert (Hfg : first_group_ok cand (rk b)).
    { exists s, r'. split; [exact Hrk|]. split; [|exact Hnd].
      intros E. rewrite E in Hlen. cbn [length] in Hlen. lia. }
    rewrite (law_pick_prob cand ceqb ceqb_spec (rk b) c Hfg), Hrk. cbn [Laws.first_share].
    assert (Hc : In c s) by (eapply Permutation_in; [exact Hperm|left; reflexivity]).
    apply memb_In3 in Hc. rewrite Hc. reflexivity.
  - exact (uperm_order_perm cand ceqb ceqb_spec s (c :: l) Hnd Hperm).
Qed.

(* ------------------------------------------------------------------ *)
(** * 4. BoostedRandomDictator: the support of one step is the positive tallies *)

Lemma rd_closed_form_nonneg : forall (p : profile) w, wf_profile p -> nonneg_weights p ->
  0 < total_wt (ballots p) -> 0 <= rd_closed_form p w.
Proof.
  intros p w Hwf Hnn Ht. pose proof (wf_rd_domain cand p Hwf Ht) as Hdom.
  rewrite <- (proj2 (rd_step_law cand ceqb ceqb_spec p Hdom) w).
  apply (rd_step_prob_range cand p (ceqb w) Hnn).
Qed.

Lemma brd_cf_unfold : forall (p : profile) (d : scores) w, (2 <= length (cands p))%nat ->
  brd_closed_form p d w =
  brd_lambda p * squares_closed_form d w + (1 - brd_lambda p) * rd_closed_form p w.
Proof.
  intros p d w Hc. unfold BRDSpec.brd_closed_form.
  destruct (cands p) as [|c1 [|c2 cs]]; cbn [length] in Hc; [lia|lia|reflexivity].
Qed.

(* with at least two candidates and the score list being the first-place tally of the profile,
   a candidate has positive probability iff its tally is positive *)
Lemma brd_cf_pos_iff : forall (p : profile) (d : scores) w, wf_profile p -> nonneg_weights p ->
  first_place_votes p = inl d -> (2 <= length (cands p))%nat -> 0 < total_wt (ballots p) ->
  0 <= lookup0 w d /\ (0 < brd_closed_form p d w <-> 0 < lookup0 w d).
Proof.
  intros p d w Hwf Hnn Hd Hc Ht.
  assert (Ht' : ~ total_wt (ballots p) == 0) by (apply (total_pos_neq0 cand); exact Ht).
  pose proof (fpv_lookup_share cand ceqb ceqb_spec p d w Hwf Hd Ht') as EV.
  pose proof (rd_closed_form_nonneg p w Hwf Hnn Ht) as HR.
  assert (Hc1 : (1 <= length (cands p))%nat) by lia.
  pose proof (fpv_sumsq_pos cand ceqb ceqb_spec p d Hwf Hd Hc1 Ht) as HS.
  destruct (brd_lambda_range _ Hc) as [HL0 HL1].
  rewrite (brd_cf_unfold p d w Hc). unfold Laws.squares_closed_form. fold (sumsq cand d).
  unfold BRDSpec.brd_lambda.
  set (V := lookup0 w d) in *. set (R := rd_closed_form p w) in *.
  set (T := total_wt (ballots p)) in *. set (S := sumsq cand d) in *.
  set (L := 1 / (Qnat (length (cands p)) - 1)) in *.
  assert (HV : 0 <= V).
  { rewrite EV. apply Qmult_le_0_compat; [exact HR|apply Qlt_le_weak; exact Ht]. }
  split; [exact HV|]. split.
  - intros Hcf. destruct (Qlt_le_dec 0 V) as [Hp|Hn]; [exact Hp|exfalso].
    assert (EV0 : V == 0) by (apply Qle_antisym; assumption).
    assert (ER : R == 0).
    { rewrite EV0 in EV. symmetry in EV. apply Qmult_integral in EV.
      destruct EV as [E|E]; [exact E|contradiction]. }
    assert (E : L * (V * V / S) + (1 - L) * R == 0).
    { rewrite EV0, ER. unfold Qdiv. ring. }
    rewrite E in Hcf. exact (Qlt_irrefl 0 Hcf).
  - intros Hp.
    assert (H1 : 0 < V * V / S).
    { apply Qlt_shift_div_l; [exact HS|]. rewrite Qmult_0_l. apply Qmult_lt_0_compat; exact Hp. }
    assert (H2 : 0 < L * (V * V / S)) by (apply Qmult_lt_0_compat; assumption).
    assert (H3 : 0 <= (1 - L) * R) by (apply Qmult_le_0_compat; [lra|exact HR]).
    lra.
Qed.

(* an entry of positive probability of the squares population has a non-zero tally *)
Lemma squares_entry_nonzero : forall (d : scores) (t : Q) w q, NoDup (map fst d) ->
  In (w, q) (squares d t) -> 0 < q -> ~ lookup0 w d == 0.
Proof.
  intros d t w q Hnd Hin Hq. unfold Rules.squares in Hin. cbv zeta in Hin.
  rewrite !map_map in Hin. cbn [fst snd] in Hin. apply in_map_iff in Hin.
  destruct Hin as ([c v] & E & Hin). cbn [fst snd] in E. injection E as E1 E2. subst c.
  rewrite (C08_anon.lookup0_in cand ceqb ceqb_spec d w v Hnd Hin). intros E0.
  rewrite <- E2 in Hq.
  set (z := qsum (map (fun x : cand * Q => snd x / t * (snd x / t)) d)) in *.
  assert (E : v / t * (v / t) / z == 0) by (rewrite E0; unfold Qdiv; ring).
  rewrite E in Hq. exact (Qlt_irrefl 0 Hq).
Qed.

(* a wrong total weight (0): every probability of the one-step law is 0 *)
Lemma brd_zero_total : forall (p : profile) (d : scores) (ev : cand -> bool),
  not_single cand p -> total_wt (ballots p) == 0 -> prob ev (law_brd_winner p d) == 0.
Proof.
  intros p d ev Hns Ht.
  assert (Hdiv0 : forall x : Q, x / total_wt (ballots p) == 0).
  { intros x. rewrite Ht. unfold Qdiv. change (/ 0) with 0. ring. }
  assert (E1 : prob ev (categorical (squares d (total_wt (ballots p)))) == 0).
  { rewrite prob_categorical.
    assert (E : qsum (map snd (filter (fun aw => ev (fst aw)) (squares d (total_wt (ballots p))))) == 0).
    { apply qsum_map_zero. intros [c q] Hin. apply filter_In in Hin. destruct Hin as [Hin _].
      unfold Rules.squares in Hin. cbv zeta in Hin. rewrite !map_map in Hin. cbn [fst snd] in Hin.
      apply in_map_iff in Hin. destruct Hin as ([c0 v] & E & _). cbn [fst snd] in E.
      injection E as _ <-. cbn [snd]. rewrite !Hdiv0. unfold Qdiv. ring. }
    rewrite E. unfold Qdiv. ring. }
  assert (E2 : prob ev (law_rd_winner p) == 0).
  { unfold Laws.law_rd_winner. rewrite prob_dbind. apply qsum_map_zero. intros [r q] Hin.
    cbn [fst snd]. unfold Laws.law_draw_ballot, categorical in Hin.
    rewrite (choices_pop_total cand) in Hin. apply in_map_iff in Hin.
    destruct Hin as ([r0 w0] & E & _). cbn [fst snd] in E. injection E as _ <-.
    rewrite Hdiv0. ring. }
  unfold Laws.law_brd_winner.
  destruct (cands p) as [|c1 [|c2 cs]] eqn:Hc; [|exfalso; exact (Hns c1 Hc)|];
    rewrite prob_dmix, E1, E2; ring.
Qed.

Lemma single_or_not : forall p : profile, (exists c, cands p = [c]) \/ not_single cand p.
Proof.
  intros p. destruct (cands p) as [|c1 [|c2 cs]] eqn:Hc.
  - right. intros c E. rewrite Hc in E. discriminate.
  - left. exists c1. reflexivity.
  - right. intros c E. rewrite Hc in E. discriminate.
Qed.

Lemma two_cands : forall p : profile, wf_profile p -> not_single cand p ->
  0 < total_wt (ballots p) -> (2 <= length (cands p))%nat.
Proof.
  intros p Hwf Hns Ht. destruct (cands p) as [|c1 [|c2 cs]] eqn:Hc.
  - exfalso. rewrite (wf_no_cands_no_ballots cand p Hwf Hc) in Ht. exact (Qlt_irrefl 0 Ht).
  - exfalso. exact (Hns c1 Hc).
  - cbn [length]. lia.
Qed.

Lemma brd_winner_prob_nonneg : forall (p : profile) (d : scores) (ev : cand -> bool),
  wf_profile p -> nonneg_weights p -> 0 <= prob ev (law_brd_winner p d).
Proof.
  intros p d ev Hwf Hnn. destruct (single_or_not p) as [(c & Hc)|Hns].
  - destruct (brd_single_law cand ceqb ceqb_spec p d c Hc) as (-> & _). rewrite prob_dret.
    destruct (ev c); lra.
  - destruct (Qlt_le_dec 0 (total_wt (ballots p))) as [Ht|Ht].
    + apply prob_nonneg. apply (brd_step_nonneg cand p d Hnn (two_cands p Hwf Hns Ht) Ht).
    + rewrite (brd_zero_total p d ev Hns); [apply Qle_refl|].
      apply Qle_antisym; [exact Ht|apply total_nonneg; exact Hnn].
Qed.

(* who has positive probability in one step: the only candidate left; or, with at least two
   candidates and a positive total weight, exactly the candidates of positive tally *)
Lemma brd_winner_pos_cases : forall (p : profile) (d : scores) w,
  wf_profile p -> nonneg_weights p -> first_place_votes p = inl d ->
  0 < prob (ceqb w) (law_brd_winner p d) ->
  cands p = [w] \/
  ((2 <= length (cands p))%nat /\ 0 < total_wt (ballots p) /\ 0 < lookup0 w d).
Proof.
  intros p d w Hwf Hnn Hd H. destruct (single_or_not p) as [(c & Hc)|Hns].
  - left. destruct (brd_single_law cand ceqb ceqb_spec p d c Hc) as (E & _). rewrite E, prob_dret in H.
    destruct (ceqb_spec w c) as [->|_]; [exact Hc|]. exfalso. exact (Qlt_irrefl 0 H).
  - right. destruct (Qlt_le_dec 0 (total_wt (ballots p))) as [Ht|Ht].
    + pose proof (two_cands p Hwf Hns Ht) as Hc. split; [exact Hc|]. split; [exact Ht|].
      assert (Hc1 : (1 <= length (cands p))%nat) by lia.
      pose proof (fpv_brd_domain cand ceqb ceqb_spec p d Hwf Hd Hc1 Ht) as Hdom.
      rewrite (proj2 (brd_step_closed cand ceqb ceqb_spec p d Hdom) w) in H.
      apply (proj2 (brd_cf_pos_iff p d w Hwf Hnn Hd Hc Ht)). exact H.
    + exfalso. rewrite (brd_zero_total p d (ceqb w) Hns) in H; [exact (Qlt_irrefl 0 H)|].
      apply Qle_antisym; [exact Ht|apply total_nonneg; exact Hnn].
Qed.

(* ------------------------------------------------------------------ *)
(** * 5. BoostedRandomDictator: soundness under script admissibility *)

Lemma rd_step_consumed : forall (p : profile) (prev : estate) (st st' : mstate) np e,
  rd_step p prev st = inl ((np, e), st') ->
  exists (ds : list draw) (cs : list call), length ds = length cs /\
    scr st = ds ++ scr st' /\ lg st' = rev cs ++ lg st.
Proof.
  intros p prev st st' np e H. unfold Rules.rd_step, mbind in H.
  destruct (draw_ballot p st) as [[r st1]|e0] eqn:Hd; [|discriminate].
  destruct (dictator_pick r st1) as [[[w tbs] st2]|e0] eqn:Hp; [|discriminate].
  destruct (elect_one_inv cand ceqb _ _ _ _ _ _ _ _ H) as (-> & _).
  destruct (draw_ballot_inv cand ceqb _ _ _ _ Hd) as (_ & (rest & Hscr & ->) & _).
  destruct (dictator_pick_inv cand ceqb ceqb_spec _ _ _ _ _ Hp) as (s & r' & -> & _ & Hcase).
  destruct Hcase as [[_ ->]|(rest' & l & Hscr' & _ & ->)].
  - exists [DRank (s :: r')], [CChoices (choices_pop p)]. cbn [scr lg].
    split; [reflexivity|]. split; [exact Hscr|reflexivity].
  - cbn [scr lg] in Hscr' |- *.
    exists [DRank (s :: r'); DPerm (w :: l)], [CChoices (choices_pop p); CSample s].
    split; [reflexivity|]. split; [rewrite Hscr, Hscr'; reflexivity|reflexivity].
Qed.

(* one successful step from a state that carries the first-place tally of the profile *)
Lemma brd_step_sound : forall (p : profile) (prev : estate) (st st' : mstate) np e,
  ranked_profile p -> nonneg_weights p -> first_place_votes p = inl (escores prev) ->
  brd_step p prev st = inl ((np, e), st') ->
  exists w (ds : list draw) (cs : list call),
    elected e = [[w]] /\ remove_cand_prof [w] true false p = inl np /\
    length ds = length cs /\ scr st = ds ++ scr st' /\ lg st' = rev cs ++ lg st /\
    brd_domain p (escores prev) /\
    (Forall2 draw_admissible cs ds -> 0 < brd_closed_form p (escores prev) w).
Proof.
  intros p prev st st' np e Hr Hnn Hd H. pose proof (proj1 Hr) as Hwf.
  destruct (brd_step_first cand ceqb _ _ _ _ _ H) as (u & rest & Hscr).
  destruct (single_or_not p) as [(c & Hc)|Hns].
  - rewrite (brd_single_script cand ceqb p prev st u rest c Hscr Hc) in H.
    destruct (elect_one_inv cand ceqb _ _ _ _ _ _ _ _ H) as (-> & Hel & _ & Hrem).
    exists c, [DUnit u], [CUniform]. cbn [scr lg]. split; [exact Hel|]. split; [exact Hrem|].
    split; [reflexivity|]. split; [exact Hscr|]. split; [reflexivity|].
    split; [left; exists c; exact Hc|]. intros _.
    unfold BRDSpec.brd_closed_form. rewrite Hc, ceqb_refl3. reflexivity.
  - assert (Hgo : forall w, 0 < total_wt (ballots p) -> ~ lookup0 w (escores prev) == 0 ->
              brd_domain p (escores prev) /\ 0 < brd_closed_form p (escores prev) w).
    { intros w Ht Hv. pose proof (two_cands p Hwf Hns Ht) as Hc.
      assert (Hc1 : (1 <= length (cands p))%nat) by lia.
      split; [exact (fpv_brd_domain cand ceqb ceqb_spec p _ Hwf Hd Hc1 Ht)|].
      destruct (brd_cf_pos_iff p (escores prev) w Hwf Hnn Hd Hc Ht) as [H0 Hiff].
      apply Hiff. destruct (Qlt_le_dec 0 (lookup0 w (escores prev))) as [Hl|Hl]; [exact Hl|].
      exfalso. apply Hv. apply Qle_antisym; assumption. }
    destruct (Qle_bool u (1 / (Qnat (length (cands p)) - 1))) eqn:Hle.
    + destruct (brd_squares_branch cand ceqb ceqb_spec p prev st st' u rest np e Hscr Hns Hle H)
        as (Ht & _ & w & rest' & -> & Hkey & Hel & Hrem & ->).
      assert (Htot : 0 < total_wt (ballots p)).
      { destruct (Qlt_le_dec 0 (total_wt (ballots p))) as [Hl|Hl]; [exact Hl|exfalso].
        apply Ht. apply Qle_antisym; [exact Hl|apply total_nonneg; exact Hnn]. }
      assert (Hnd : NoDup (map fst (escores prev))).
      { rewrite (C01_dictator.fpv_keys cand ceqb p _ Hd). apply Hwf. }
      exists w, [DUnit u; DCand w],
             [CUniform; CNpChoice (squares (escores prev) (total_wt (ballots p)))].
      cbn [scr lg]. split; [exact Hel|]. split; [exact Hrem|]. split; [reflexivity|].
      split; [exact Hscr|]. split; [reflexivity|].
      assert (Hdom : brd_domain p (escores prev)).
      { pose proof (two_cands p Hwf Hns Htot) as Hc.
        assert (Hc1 : (1 <= length (cands p))%nat) by lia.
        exact (fpv_brd_domain cand ceqb ceqb_spec p _ Hwf Hd Hc1 Htot). }
      split; [exact Hdom|]. intros Hadm.
      inversion Hadm as [|c1 d1 lc ld _ Hadm2]; subst.
      inversion Hadm2 as [|c2 d2 lc2 ld2 Hnp _]; subst.
      cbn [RunLawSpec.draw_admissible] in Hnp. destruct Hnp as (q & Hin & Hq).
      apply (Hgo w Htot). exact (squares_entry_nonzero _ _ w q Hnd Hin Hq).
    + rewrite (brd_else_branch cand ceqb p prev st u rest Hscr Hns Hle) in H.
      destruct (rd_closed_form_pos_of_step p prev _ st' np e Hr Hnn H) as (w & Hel & Hrem & Hdom & Hpos).
      destruct (rd_step_consumed p prev _ st' np e H) as (ds & cs & Hlen & Hs & Hl).
      cbn [scr lg] in Hs, Hl. pose proof (proj2 Hdom) as Htot.
      exists w, (DUnit u :: ds), (CUniform :: cs). split; [exact Hel|]. split; [exact Hrem|].
      split; [cbn [length]; rewrite Hlen; reflexivity|].
      split; [rewrite Hscr, Hs; reflexivity|].
      split; [rewrite Hl; cbn [rev]; rewrite <- app_assoc; reflexivity|].
      assert (Hv : ~ lookup0 w (escores prev) == 0).
      { rewrite (fpv_lookup_share cand ceqb ceqb_spec p _ w Hwf Hd (total_pos_neq0 cand p Htot)).
        intros E. apply Qmult_integral in E. destruct E as [E|E].
        - rewrite E in Hpos. exact (Qlt_irrefl 0 Hpos).
        - rewrite E in Htot. exact (Qlt_irrefl 0 Htot). }
      destruct (Hgo w Htot Hv) as [Hd1 Hd2]. split; [exact Hd1|]. intros _. exact Hd2.
Qed.

Lemma brd_chain_sound : forall (chain : list (profile * estate)) (p : profile) (prev : estate)
    (st st' : mstate),
  ranked_profile p -> nonneg_weights p -> first_place_votes p = inl (escores prev) ->
  dict_chain true p prev st chain st' ->
  exists (ds : list draw) (cs : list call),
    length ds = length cs /\ scr st = ds ++ scr st' /\ lg st' = rev cs ++ lg st /\
    brd_path_ok (seq_of chain) p (escores prev) /\ length (seq_of chain) = length chain /\
    (Forall2 draw_admissible cs ds -> 0 < brd_path_prob (seq_of chain) p (escores prev)).
Proof.
  induction chain as [|[np e] rest IH]; intros p prev st st' Hr Hnn Hd H.
  - cbn [BRDSpec.dict_chain] in H. subst st'. exists [], []. cbn.
    split; [reflexivity|]. split; [reflexivity|]. split; [reflexivity|]. split; [exact I|].
    split; [reflexivity|]. intros _. reflexivity.
  - cbn [BRDSpec.dict_chain] in H. destruct H as (st1 & Hstep & Hrest).
    destruct (brd_step_sound p prev st st1 np e Hr Hnn Hd Hstep)
      as (w & ds1 & cs1 & Hel & Hrem & Hl1 & Hs1 & Hg1 & Hdom & Hpos1).
    pose proof (brd_step_escores cand ceqb _ _ _ _ _ _ Hstep) as Hd'.
    pose proof (C01_lib.ranked_remove cand ceqb ceqb_spec [w] p np Hr Hrem) as Hr'.
    pose proof (remove_nonneg [w] p np Hrem) as Hnn'.
    destruct (IH np e st1 st' Hr' Hnn' Hd' Hrest) as (ds2 & cs2 & Hl2 & Hs2 & Hg2 & Hok & Hlen & Hpos2).
    exists (ds1 ++ ds2), (cs1 ++ cs2).
    split; [rewrite !app_length; lia|]. split; [rewrite Hs1, Hs2, app_assoc; reflexivity|].
    split; [rewrite Hg2, Hg1, rev_app_distr, app_assoc; reflexivity|].
    rewrite (seq_of_cons np e w rest Hel).
    cbn [BRDSpec.brd_path_ok BRDSpec.brd_path_prob length].
    rewrite (brd_next_intro cand ceqb w p np (escores e) Hrem Hd').
    split; [split; assumption|]. split; [rewrite Hlen; reflexivity|]. intros Hadm.
    apply Forall2_app_split in Hadm; [|symmetry; exact Hl1]. destruct Hadm as [Ha1 Ha2].
    apply Qmult_lt_0_compat; [exact (Hpos1 Ha1)|exact (Hpos2 Ha2)].
Qed.

(* the whole run: the law of its winners is the product of the one-step closed forms along the
   run (no admissibility needed), and positive when the script is admissible *)
Theorem brd_run_sound : forall m (p : profile) (st st' : mstate) sts,
  ranked_profile p -> nonneg_weights p ->
  run_dictator true m p st = inl (sts, st') ->
  length (all_elected sts) = Z.to_nat m /\
  (exists d, first_place_votes p = inl d /\ brd_path_ok (all_elected sts) p d /\
     prob (list_eqb (all_elected sts)) (law_brd_run (Z.to_nat m) p) ==
     brd_path_prob (all_elected sts) p d) /\
  (admissible_between st st' ->
   0 < prob (list_eqb (all_elected sts)) (law_brd_run (Z.to_nat m) p)).
Proof.
  intros m p st st' sts Hr Hnn H.
  destruct (run_dictator_linked cand ceqb true m p st st' sts H) as (s0 & chain & Hsts & Hl0 & Hch & _).
  unfold BRDSpec.tally_linked in Hl0. cbn [fst snd] in Hl0.
  destruct (C01_dictator.dictator_run_outcome cand ceqb ceqb_spec true m p st sts st' Hr H)
    as (_ & Hlen & _ & (s0' & rest' & Hsts' & Hel0 & _) & _).
  rewrite Hsts in Hsts'. injection Hsts' as <- _.
  rewrite Hsts, (all_elected_chain s0 chain Hel0).
  destruct (brd_chain_sound chain p s0 st st' Hr Hnn Hl0 Hch)
    as (ds & cs & Hdc & Hs & Hg & Hok & Hl & Hpos).
  assert (Hk : length (seq_of chain) = Z.to_nat m).
  { rewrite Hl. rewrite Hsts in Hlen. cbn [length] in Hlen. rewrite map_length in Hlen. lia. }
  rewrite <- Hk. split; [reflexivity|].
  assert (E : prob (list_eqb (seq_of chain)) (law_brd_run (length (seq_of chain)) p) ==
              brd_path_prob (seq_of chain) p (escores s0)).
  { unfold BRDSpec.law_brd_run. rewrite Hl0.
    exact (brd_sequence_path cand ceqb ceqb_spec (seq_of chain) p (escores s0) Hok). }
  split; [exists (escores s0); split; [exact Hl0|split; [exact Hok|exact E]]|].
  intros (ds' & cs' & Hs' & Hg' & Hadm). rewrite E. apply Hpos.
  rewrite Hs in Hs'. apply app_inv_tail in Hs'. rewrite Hg in Hg'. apply app_inv_tail in Hg'.
  apply rev_inj in Hg'. subst ds' cs'. exact Hadm.
Qed.

(* ------------------------------------------------------------------ *)
(** * 6. BoostedRandomDictator: what the scripts of the model can reach in one step *)

Lemma brd_step_not_single : forall (p : profile) (prev : estate) u rest l0, not_single cand p ->
  brd_step p prev (mkM (DUnit u :: rest) l0) =
  (if Qle_bool u (1 / (Qnat (length (cands p)) - 1))
   then C01_dictator.brd_np cand ceqb p prev (mkM rest (CUniform :: l0))
   else rd_step p prev (mkM rest (CUniform :: l0))).
Proof.
  intros p prev u rest l0 Hns. rewrite (C01_dictator.brd_step_unfold cand ceqb). cbn [scr lg]. cbv zeta.
  destruct (cands p) as [|c1 [|c2 cs]] eqn:Hc; [reflexivity|exfalso; exact (Hns c1 Hc)|reflexivity].
Qed.

(* the squares branch of the model accepts ANY key of the score list, whatever its tally *)
Lemma brd_step_squares_any : forall (p : profile) (prev : estate) w u rest l0,
  ranked_profile p -> first_place_votes p = inl (escores prev) ->
  (2 <= length (cands p))%nat -> 0 < total_wt (ballots p) -> In w (cands p) ->
  Qle_bool u (1 / (Qnat (length (cands p)) - 1)) = true ->
  brd_step p prev (mkM (DUnit u :: DCand w :: rest) l0) =
  elect_one w [] p prev
    (mkM rest (CNpChoice (squares (escores prev) (total_wt (ballots p))) :: CUniform :: l0)).
Proof.
  intros p prev w u rest l0 Hr Hd Hc Ht Hw Hle.
  assert (Hns : not_single cand p).
  { intros c E. rewrite E in Hc. cbn [length] in Hc. lia. }
  rewrite (brd_step_not_single p prev u _ l0 Hns), Hle. unfold C01_dictator.brd_np.
  destruct (Qeq_bool (total_wt (ballots p)) 0) eqn:E1.
  { apply Qeq_bool_iff in E1. rewrite E1 in Ht. exfalso. exact (Qlt_irrefl 0 Ht). }
  destruct (Qeq_bool (squares_mass cand (escores prev) (total_wt (ballots p))) 0) eqn:E2.
  { apply Qeq_bool_iff in E2. exfalso.
    exact (fpv_squares_mass_nonzero cand ceqb ceqb_spec p _ (proj1 Hr) Hd Ht E2). }
  unfold mbind, Core.next_draw. cbn [scr lg]. unfold ok.
  assert (Hm : memb w (map fst (escores prev)) = true).
  { apply memb_In3. rewrite (C01_dictator.fpv_keys cand ceqb p _ Hd). exact Hw. }
  rewrite Hm. reflexivity.
Qed.

Lemma lambda_le_true : forall n, (2 <= n)%nat -> Qle_bool 0 (1 / (Qnat n - 1)) = true.
Proof. intros n Hn. apply Qle_bool_iff. apply Qlt_le_weak. apply (brd_lambda_range n Hn). Qed.

(* the entry of the squares population for a key of positive tally has positive probability *)
Lemma squares_entry_pos : forall (p : profile) (d : scores) w, wf_profile p ->
  first_place_votes p = inl d -> (1 <= length (cands p))%nat -> 0 < total_wt (ballots p) ->
  0 < lookup0 w d -> exists q, In (w, q) (squares d (total_wt (ballots p))) /\ 0 < q.
Proof.
  intros p d w Hwf Hd Hc Ht Hv.
  assert (Hnd : NoDup (map fst d)) by (rewrite (C01_dictator.fpv_keys cand ceqb p d Hd); apply Hwf).
  assert (Hk : In w (map fst d)).
  { destruct (memb w (map fst d)) eqn:Hm; [apply memb_In3; exact Hm|exfalso].
    rewrite (C08_anon.lookup0_notin cand ceqb ceqb_spec d w) in Hv; [exact (Qlt_irrefl 0 Hv)|].
    intros Hin. apply memb_In3 in Hin. congruence. }
  apply in_map_iff in Hk. destruct Hk as ([w' v] & E & Hin). cbn [fst] in E. subst w'.
  rewrite (C08_anon.lookup0_in cand ceqb ceqb_spec d w v Hnd Hin) in Hv.
  set (t := total_wt (ballots p)) in *.
  set (sq := map (fun q : cand * Q => (fst q, (snd q / t) * (snd q / t))) d).
  exists ((v / t) * (v / t) / qsum (map snd sq)). split.
  - unfold Rules.squares. cbv zeta. fold sq. apply in_map_iff.
    exists (w, (v / t) * (v / t)). split; [reflexivity|].
    unfold sq. apply in_map_iff. exists (w, v). split; [reflexivity|exact Hin].
  - assert (Ht' : ~ t == 0) by (apply (total_pos_neq0 cand); exact Ht).
    assert (Hz : 0 < qsum (map snd sq)).
    { unfold sq. rewrite (squares_z cand d t Ht'). apply Qlt_shift_div_l.
      - apply Qmult_lt_0_compat; exact Ht.
      - rewrite Qmult_0_l. exact (fpv_sumsq_pos cand ceqb ceqb_spec p d Hwf Hd Hc Ht). }
    apply Qlt_shift_div_l; [exact Hz|]. rewrite Qmult_0_l.
    assert (Hvt : 0 < v / t) by (apply Qlt_shift_div_l; [exact Ht|rewrite Qmult_0_l; exact Hv]).
    apply Qmult_lt_0_compat; exact Hvt.
Qed.

(* ------------------------------------------------------------------ *)
(** * 7. BoostedRandomDictator: completeness (with an admissible script) *)

Lemma brd_sequence_nil_zero : forall k (p : profile) (d : scores),
  prob (list_eqb []) (law_brd_sequence (S k) p d) == 0.
Proof.
  intros k p d. cbn [BRDSpec.law_brd_sequence]. rewrite prob_dbind. apply qsum_map_zero.
  intros [w q] _. cbn [fst snd].
  destruct (brd_next w p) as [[np d']|e0].
  - rewrite prob_dbind_dret. rewrite (prob_ext_in _ (fun _ => false)).
    + rewrite prob_false. ring.
    + intros l q' _. reflexivity.
  - rewrite prob_nil. ring.
Qed.

Lemma brd_sequence_prob_nonneg : forall k ws (p : profile) (d : scores),
  ranked_profile p -> nonneg_weights p -> 0 <= prob (list_eqb ws) (law_brd_sequence k p d).
Proof.
  induction k as [|k IH]; intros ws p d Hr Hnn.
  - cbn [BRDSpec.law_brd_sequence]. rewrite prob_dret. destruct (list_eqb ws []); lra.
  - destruct ws as [|w ws].
    + rewrite brd_sequence_nil_zero. apply Qle_refl.
    + rewrite (brd_sequence_rec cand ceqb ceqb_spec). apply Qmult_le_0_compat.
      * apply (brd_winner_prob_nonneg p d (ceqb w) (proj1 Hr) Hnn).
      * destruct (brd_next w p) as [[np d']|e0] eqn:Hn; [|apply Qle_refl].
        destruct (brd_next_inv cand ceqb w p np d' Hn) as [Hrem _].
        apply IH; [exact (C01_lib.ranked_remove cand ceqb ceqb_spec [w] p np Hr Hrem)|
                   exact (remove_nonneg [w] p np Hrem)].
Qed.

Lemma brd_sequence_pos_inv : forall k ws (p : profile) (d : scores),
  ranked_profile p -> nonneg_weights p ->
  0 < prob (list_eqb ws) (law_brd_sequence (S k) p d) ->
  exists w ws' np d', ws = w :: ws' /\ 0 < prob (ceqb w) (law_brd_winner p d) /\
    remove_cand_prof [w] true false p = inl np /\ first_place_votes np = inl d' /\
    0 < prob (list_eqb ws') (law_brd_sequence k np d').
Proof.
  intros k [|w ws] p d Hr Hnn H.
  - rewrite brd_sequence_nil_zero in H. exfalso. exact (Qlt_irrefl 0 H).
  - rewrite (brd_sequence_rec cand ceqb ceqb_spec) in H.
    destruct (brd_next w p) as [[np d']|e0] eqn:Hn.
    + destruct (brd_next_inv cand ceqb w p np d' Hn) as [Hrem Hd'].
      apply Qmult_pos_split in H.
      * exists w, ws, np, d'. split; [reflexivity|]. split; [apply H|]. split; [exact Hrem|].
        split; [exact Hd'|apply H].
      * apply (brd_winner_prob_nonneg p d (ceqb w) (proj1 Hr) Hnn).
      * apply brd_sequence_prob_nonneg;
          [exact (C01_lib.ranked_remove cand ceqb ceqb_spec [w] p np Hr Hrem)|
           exact (remove_nonneg [w] p np Hrem)].
    + rewrite Qmult_0_r in H. exfalso. exact (Qlt_irrefl 0 H).
Qed.

(* a winner of positive probability is a declared candidate *)
Lemma brd_winner_pos_cands : forall (p : profile) (d : scores) w,
  wf_profile p -> nonneg_weights p -> first_place_votes p = inl d ->
  0 < prob (ceqb w) (law_brd_winner p d) -> In w (cands p).
Proof.
  intros p d w Hwf Hnn Hd H.
  destruct (brd_winner_pos_cases p d w Hwf Hnn Hd H) as [Hc|(_ & _ & Hv)].
  - rewrite Hc. left. reflexivity.
  - rewrite <- (C01_dictator.fpv_keys cand ceqb p d Hd).
    destruct (memb w (map fst d)) eqn:Hm; [apply memb_In3; exact Hm|exfalso].
    rewrite (C08_anon.lookup0_notin cand ceqb ceqb_spec d w) in Hv; [exact (Qlt_irrefl 0 Hv)|].
    intros Hin. apply memb_In3 in Hin. congruence.
Qed.

Lemma brd_sequence_pos_length : forall k ws (p : profile) (d : scores),
  ranked_profile p -> nonneg_weights p -> first_place_votes p = inl d ->
  0 < prob (list_eqb ws) (law_brd_sequence k p d) -> (k <= length (cands p))%nat.
Proof.
  induction k as [|k IH]; intros ws p d Hr Hnn Hd H; [lia|].
  destruct (brd_sequence_pos_inv k ws p d Hr Hnn H) as (w & ws' & np & d' & _ & Hw & Hrem & Hd' & Hrest).
  pose proof (brd_winner_pos_cands p d w (proj1 Hr) Hnn Hd Hw) as Hin.
  rewrite (remove_one_length p np w Hr Hin Hrem).
  pose proof (IH ws' np d' (C01_lib.ranked_remove cand ceqb ceqb_spec [w] p np Hr Hrem)
                (remove_nonneg [w] p np Hrem) Hd' Hrest). lia.
Qed.

(* an admissible script for one step electing a candidate of positive probability *)
Lemma brd_step_script : forall (p : profile) (prev : estate) w,
  ranked_profile p -> nonneg_weights p -> first_place_votes p = inl (escores prev) ->
  0 < prob (ceqb w) (law_brd_winner p (escores prev)) ->
  exists (sc : list draw) (cs : list call), Forall2 draw_admissible cs sc /\
    forall rest l0,
      brd_step p prev (mkM (sc ++ rest) l0) = elect_one w [] p prev (mkM rest (rev cs ++ l0)).
Proof.
  intros p prev w Hr Hnn Hd H. pose proof (proj1 Hr) as Hwf.
  assert (Hu : draw_admissible CUniform (DUnit 0)) by (cbn; split; lra).
  destruct (brd_winner_pos_cases p _ w Hwf Hnn Hd H) as [Hc|(Hc & Ht & Hv)].
  - exists [DUnit 0], [CUniform]. split; [constructor; [exact Hu|constructor]|].
    intros rest l0. cbn [app rev].
    exact (brd_single_script cand ceqb p prev (mkM (DUnit 0 :: rest) l0) 0 rest w eq_refl Hc).
  - assert (Hc1 : (1 <= length (cands p))%nat) by lia.
    destruct (squares_entry_pos p _ w Hwf Hd Hc1 Ht Hv) as (q & Hin & Hq).
    exists [DUnit 0; DCand w], [CUniform; CNpChoice (squares (escores prev) (total_wt (ballots p)))].
    split.
    + constructor; [exact Hu|]. constructor; [|constructor]. exists q. split; assumption.
    + intros rest l0. cbn [app rev].
      apply (brd_step_squares_any p prev w 0 rest l0 Hr Hd Hc Ht).
      * exact (brd_winner_pos_cands p _ w Hwf Hnn Hd H).
      * exact (lambda_le_true _ Hc).
Qed.

Lemma brd_loop_complete : forall k fuel m (p : profile) (prev : estate) older ws l0,
  (k <= fuel)%nat -> ranked_profile p -> nonneg_weights p ->
  first_place_votes p = inl (escores prev) ->
  count_elected (prev :: older) = (m - Z.of_nat k)%Z ->
  0 < prob (list_eqb ws) (law_brd_sequence k p (escores prev)) ->
  exists (sc : list draw) out (cs : list call),
    dictator_loop fuel true m p (prev :: older) (mkM sc l0) = inl (out, mkM [] (rev cs ++ l0)) /\
    Forall2 draw_admissible cs sc /\
    all_elected out = all_elected (rev (prev :: older)) ++ ws.
Proof.
  induction k as [|k IH]; intros fuel m p prev older ws l0 Hfuel Hr Hnn Hd Hcnt H.
  - assert (Hws : ws = []).
    { cbn [BRDSpec.law_brd_sequence] in H. rewrite prob_dret in H.
      destruct (list_eqb_spec cand ceqb ceqb_spec ws []) as [E|_]; [exact E|].
      exfalso. exact (Qlt_irrefl 0 H). }
    subst ws. exists [], (rev (prev :: older)), [].
    assert (Hm : (m <=? count_elected (prev :: older))%Z = true) by (apply Z.leb_le; lia).
    split; [|split; [constructor|rewrite app_nil_r; reflexivity]].
    destruct fuel; cbn [Rules.dictator_loop]; rewrite Hm; reflexivity.
  - destruct (brd_sequence_pos_inv k ws p _ Hr Hnn H) as (w & ws' & np & d' & -> & Hw & Hrem & Hd' & Hrest).
    destruct fuel as [|fuel]; [lia|].
    destruct (brd_step_script p prev w Hr Hnn Hd Hw) as (sc1 & cs1 & Hadm1 & Hstep).
    destruct (C01_dictator.elect_one_total cand ceqb ceqb_spec w [] p prev Hr)
      as (np' & d & Hnp' & Hdd & Hel).
    rewrite Hrem in Hnp'. injection Hnp' as <-.
    rewrite Hd' in Hdd. injection Hdd as <-.
    set (st1 := state_of_scores (rnd prev + 1) [[w]] no_group [] d') in *.
    assert (Hel1 : elected st1 = [[w]]) by reflexivity.
    destruct (IH fuel m np st1 (prev :: older) ws' (rev cs1 ++ l0))
      as (sc2 & out & cs2 & Hloop & Hadm2 & Hout).
    + lia.
    + exact (C01_lib.ranked_remove cand ceqb ceqb_spec [w] p np Hr Hrem).
    + exact (remove_nonneg [w] p np Hrem).
    + exact Hd'.
    + rewrite (count_elected_one st1 (prev :: older) w Hel1), Hcnt. lia.
    + exact Hrest.
    + exists (sc1 ++ sc2), out, (cs1 ++ cs2). split; [|split].
      * cbn [Rules.dictator_loop].
        assert (Hm : (m <=? count_elected (prev :: older))%Z = false) by (apply Z.leb_gt; lia).
        rewrite Hm. unfold mbind. rewrite (Hstep sc2 l0), Hel.
        rewrite rev_app_distr, <- app_assoc. exact Hloop.
      * apply Forall2_app; assumption.
      * rewrite Hout, (all_elected_rev_cons st1 (prev :: older) w Hel1), <- app_assoc. reflexivity.
Qed.

Theorem brd_run_complete : forall k (p : profile) ws l0,
  ranked_profile p -> nonneg_weights p -> (1 <= k)%nat ->
  0 < prob (list_eqb ws) (law_brd_run k p) ->
  exists sc sts l1,
    run_dictator true (Z.of_nat k) p (mkM sc l0) = inl (sts, mkM [] l1) /\
    all_elected sts = ws /\ admissible_between (mkM sc l0) (mkM [] l1).
Proof.
  intros k p ws l0 Hr Hnn Hk H.
  destruct (C01_lib.ranked_fpv cand ceqb ceqb_spec p (proj1 Hr)) as [d0 Hd0].
  unfold BRDSpec.law_brd_run in H. rewrite Hd0 in H.
  pose proof (brd_sequence_pos_length k ws p d0 Hr Hnn Hd0 H) as Hlen.
  destruct (C01_dictator.run_dictator_start cand ceqb ceqb_spec true (Z.of_nat k) p Hr) as (d & Hd & Hrun);
    [lia|].
  rewrite Hd0 in Hd. injection Hd as <-.
  set (s0 := state_of_scores 0 no_group no_group [] d0) in *.
  destruct (brd_loop_complete k (length (cands p) + 2) (Z.of_nat k) p s0 [] ws l0)
    as (sc & out & cs & Hloop & Hadm & Hout).
  - lia.
  - exact Hr.
  - exact Hnn.
  - exact Hd0.
  - rewrite (STV_inv.count_elected_cons cand). cbn. lia.
  - exact H.
  - exists sc, out, (rev cs ++ l0). split; [rewrite Hrun; exact Hloop|]. split; [rewrite Hout; reflexivity|].
    exists sc, cs. cbn [scr lg]. split; [rewrite app_nil_r; reflexivity|]. split; [reflexivity|exact Hadm].
Qed.

(* ------------------------------------------------------------------ *)
(** * 8. One Boosted step: support of the law vs script-reachable set *)

(* the support of the one-step law: exactly the candidates of positive first-place tally *)
Theorem brd_step_support_iff : forall (p : profile) (d : scores) w,
  wf_profile p -> nonneg_weights p -> first_place_votes p = inl d ->
  (2 <= length (cands p))%nat -> 0 < total_wt (ballots p) ->
  (0 < prob (ceqb w) (law_brd_winner p d) <-> 0 < lookup0 w d).
Proof.
  intros p d w Hwf Hnn Hd Hc Ht. assert (Hc1 : (1 <= length (cands p))%nat) by lia.
  pose proof (fpv_brd_domain cand ceqb ceqb_spec p d Hwf Hd Hc1 Ht) as Hdom.
  rewrite (proj2 (brd_step_closed cand ceqb ceqb_spec p d Hdom) w).
  exact (proj2 (brd_cf_pos_iff p d w Hwf Hnn Hd Hc Ht)).
Qed.

(* the script-reachable set of the model: every declared candidate, whatever its tally *)
Theorem brd_step_reach_iff : forall (p : profile) (prev : estate) w,
  ranked_profile p -> first_place_votes p = inl (escores prev) ->
  (2 <= length (cands p))%nat -> 0 < total_wt (ballots p) ->
  ((exists (st st' : mstate) np e, brd_step p prev st = inl ((np, e), st') /\ elected e = [[w]])
   <-> In w (cands p)).
Proof.
  intros p prev w Hr Hd Hc Ht. split.
  - intros (st & st' & np & e & H & Hel).
    assert (Hkeys : incl (map fst (escores prev)) (cands p)).
    { rewrite (C01_dictator.fpv_keys cand ceqb p _ Hd). apply incl_refl. }
    destruct (C01_dictator.brd_step_ok cand ceqb ceqb_spec p prev st st' np e Hr Hkeys H)
      as (w' & tbs & d & Hin & _ & _ & ->).
    cbn [elected STV.state_of_scores] in Hel. injection Hel as <-. exact Hin.
  - intros Hw.
    destruct (C01_dictator.elect_one_total cand ceqb ceqb_spec w [] p prev Hr) as (np & d & _ & _ & Hel).
    exists (mkM [DUnit 0; DCand w] []). eexists. exists np. eexists. split.
    + rewrite (brd_step_squares_any p prev w 0 [] [] Hr Hd Hc Ht Hw (lambda_le_true _ Hc)).
      apply Hel.
    + reflexivity.
Qed.

End Adequacy.
