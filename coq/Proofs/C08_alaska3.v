(* Proofs/C08_alaska3.v — property C08, Alaska with EVERY tiebreak setting and EVERY draw script,
   the case left open by Proofs/C08_scripts2_alaska.v: simultaneous mode + Hare quota + fractional
   transfer, where the threshold can be ZERO (total weight < seats).

   The get_profile replay of the STV stage draws again from the script and could leave the recorded
   run; after that a simultaneous election with a zero threshold could meet, in one tied group, a
   candidate absent from the replayed profile (KeyError) and one with a zero tally
   (ZeroDivisionError) in an order depending on the listing.  Here it is shown that this never
   happens: with a threshold t <= 0 in simultaneous mode EVERY round of the STV stage is an election
   (all tallies are >= 0 >= t) or the default round or fails, so no STV round records a tiebreak,
   the STV stage consumes no draw, and its replay repeats the very calls of the run: it consumes
   nothing and succeeds.  With t > 0 the winners of a replayed simultaneous election have positive
   tallies and the existing replay lemma applies. *)
From Coq Require Import List ZArith QArith Bool Permutation Lia Lqa Setoid Morphisms.
From VK Require Import Base Core STV Pairwise Rules.
From VK.Spec Require Import Content ScoreSpec EditSpec Anon AnonRules TieSpec AnonRules2.
From VK.Proofs Require Import Lib_sets Lib_content Lib_condense C11_condense C04_scoring C12_edit Elect
  STV_threshold C08_anon C08_stv C08_pairwise C08_rules C08_dictator C08_scripts
  C08_candorder C08_scripts2 C08_scripts2_alaska C08_scripts2_rating C08_scripts2_quiet.
From VK.Proofs Require C10_script C10_quiet.
Import ListNotations.
Open Scope Q_scope.

Section Alaska3.
Variable cand : Type.
Variable ceqb : cand -> cand -> bool.
Hypothesis ceqb_spec : forall a b, reflect (a = b) (ceqb a b).

Notation cset := (cset cand).
Notation ranking := (ranking cand).
Notation scores := (scores cand).
Notation profile := (profile cand).
Notation mstate := (mstate cand).
Notation estate := (estate cand).
Notation flat := (flat cand).
Notation state_equiv := (state_equiv cand).
Notation profile_equiv := (profile_equiv cand ceqb).
Notation stv_domain := (stv_domain cand).
Notation stv_state_ok := (stv_state_ok cand).
Notation mstate_equiv := (mstate_equiv cand ceqb).
Notation mres_equiv_log := (mres_equiv_log cand ceqb).
Notation mbind_log := (mbind_log cand ceqb).
Notation mret_log := (mret_log cand ceqb).
Notation mlift_log := (mlift_log cand ceqb).
Notation st_rel := (st_rel cand).
Notation step_rel := (step_rel cand ceqb).
Notation no_tiebreak := (no_tiebreak cand).
Notation anon_domain := (anon_domain cand).
Notation rated_tiebreak_ok := (rated_tiebreak_ok cand).
Notation run_rule := (run_rule cand ceqb).
Notation steps := (C10_quiet.steps cand ceqb).

(* ------------------------------------------------------------------ *)
(** * Tallies of a profile of the domain are non-negative *)

Definition scores_nonneg (d : scores) : Prop := forall c q, In (c, q) d -> 0 <= q.

Lemma fpv_nonneg : forall (p : profile) d, stv_domain p ->
  first_place_votes cand ceqb p = inl d -> scores_nonneg d.
Proof.
  intros p d Hd H c q Hin.
  rewrite (first_place_votes_special cand ceqb ceqb_spec p d (domain_wf cand p Hd) H c q Hin).
  apply Lib_sets.qsum_nonneg. apply Forall_forall. intros x Hx. apply in_map_iff in Hx.
  destruct Hx as [b [<- Hb]].
  destruct (memb cand ceqb c (hd [] (rk b))); [|apply Qle_refl].
  pose proof (domain_nonneg cand p Hd) as Hn. unfold Anon.nonneg_wts in Hn. rewrite Forall_forall in Hn.
  unfold Qdiv. apply Qmult_le_0_compat; [apply Hn, Hb|].
  apply Qinv_le_0_compat. apply Qnat_nonneg.
Qed.

Lemma above_all : forall (d : scores) t, scores_nonneg d -> t <= 0 ->
  filter (fun q : cand * Q => Qle_bool t (snd q)) d = d.
Proof.
  induction d as [|[c q] d IH]; intros t Hn Ht; [reflexivity|]. cbn [filter snd].
  assert (Hq : Qle_bool t q = true).
  { apply Qle_bool_iff. apply Qle_trans with 0; [exact Ht|]. apply (Hn c q). left. reflexivity. }
  rewrite Hq. f_equal. apply IH; [|exact Ht]. intros c' q' H. apply (Hn c' q'). right. exact H.
Qed.

(* ------------------------------------------------------------------ *)
(** * Threshold <= 0, simultaneous mode: no round records a tiebreak *)

Lemma zero_step_quiet : forall cfg t p0 n (p : profile) (prev : estate) (s s' : mstate) np st,
  s_transfer cfg <> TRandom -> s_simul cfg = true -> t <= 0 ->
  stv_domain p0 -> stv_domain p -> stv_state_ok p prev -> scores_nonneg (escores prev) ->
  stv_step cand ceqb cfg t p0 n p prev s = inl ((np, st), s') ->
  tiebreaks st = [] /\ stv_domain np /\ stv_state_ok np st /\ scores_nonneg (escores st).
Proof.
  intros cfg t p0 n p prev s s' np st Htr Hsim Ht Hd0 Hd Hok Hn H.
  (* the next profile and round stay in the domain: the every-script step theorem, read reflexively *)
  assert (Hnd : NoDup (map fst (escores prev))) by (rewrite (proj1 Hok); apply Hd).
  pose proof (stv_step_script_anonymous cand ceqb ceqb_spec cfg t p0 p0 n p p prev prev s s Htr
                (mstate_equiv_refl cand ceqb s) Hd0 Hd0 (profile_equiv_refl cand ceqb p0)
                Hd Hd (profile_equiv_refl cand ceqb p) Hok Hok (state_equiv_refl cand prev Hnd)) as Hstep.
  rewrite H in Hstep. unfold AnonRules.mres_equiv_log, Anon.res_equiv, Anon.stv_step_equiv in Hstep.
  cbn [fst snd] in Hstep. destruct Hstep as [[_ [_ [Hdn [_ [Hokn _]]]]] _].
  destruct (C10_quiet.stv_step_inv cand ceqb _ _ _ _ _ _ _ _ _ _ Htr H) as [el [elim [tbs [d [Hfpv [Est Hc]]]]]].
  assert (Habove : C10_quiet.above_quota cand t prev = escores prev).
  { unfold C10_quiet.above_quota. apply above_all; assumption. }
  split; [|split; [exact Hdn|split; [exact Hokn|]]].
  - subst st. cbn [STV.state_of_scores tiebreaks].
    destruct Hc as [Hc|[Hc|[Hc|Hc]]].
    + apply Hc.
    + destruct Hc as [_ [Hx _]]. congruence.
    + apply Hc.
    + destruct Hc as [Hab [_ [lowest [rest [x [Hrev [_ [_ Hcase]]]]]]]].
      rewrite Habove in Hab. destruct Hok as [_ Hrem]. rewrite Hab in Hrem.
      cbn [Core.score_to_ranking] in Hrem. rewrite Hrem in Hrev. cbn [rev app] in Hrev.
      inversion Hrev; subst lowest rest.
      destruct Hcase as [[Hx _]|[Hlen _]]; [discriminate|cbn [length] in Hlen; lia].
  - subst st. cbn [STV.state_of_scores escores]. apply (fpv_nonneg np d Hdn Hfpv).
Qed.

Lemma zero_steps_quiet : forall cfg t p0 (p : profile) sts (s s' : mstate) newer,
  s_transfer cfg <> TRandom -> s_simul cfg = true -> t <= 0 -> stv_domain p0 ->
  steps cfg t p0 p sts s newer s' ->
  forall prev older, sts = prev :: older ->
  stv_domain p -> stv_state_ok p prev -> scores_nonneg (escores prev) ->
  Forall no_tiebreak newer.
Proof.
  intros cfg t p0 p sts s s' newer Htr Hsim Ht Hd0 H.
  induction H as [p sts s Hc|p prev0 sts s np st s1 newer s' Hc Hs Hrest IH];
    intros prev older Heq Hd Hok Hn; [constructor|].
  inversion Heq; subst prev0 sts. clear Heq.
  destruct (zero_step_quiet _ _ _ _ _ _ _ _ _ _ Htr Hsim Ht Hd0 Hd Hok Hn Hs) as [Hq [Hdn [Hokn Hnn]]].
  constructor; [exact Hq|]. apply (IH st (prev :: older) eq_refl Hdn Hokn Hnn).
Qed.

Lemma initial_state_ok : forall (p : profile) s0, stv_domain p -> initial_state cand ceqb p = inl s0 ->
  stv_state_ok p s0 /\ scores_nonneg (escores s0).
Proof.
  intros p s0 Hd H. unfold STV.initial_state in H.
  destruct (first_place_votes cand ceqb p) as [d|e] eqn:E; [|discriminate].
  cbn [rbind] in H. unfold ok in H. inversion H; subst s0. clear H.
  cbn [STV.state_of_scores escores]. split; [|apply (fpv_nonneg p d Hd E)].
  split; cbn [escores remaining]; [|reflexivity].
  unfold Core.first_place_votes in E. apply (score_rankings_keys cand ceqb p _ d E).
Qed.

(* a whole STV stage with a threshold <= 0 in simultaneous mode records no tiebreak *)
Theorem zero_run_quiet : forall cfg (p : profile) (s s' : mstate) sts t,
  s_transfer cfg <> TRandom -> s_simul cfg = true -> stv_domain p ->
  stv_init cand cfg p = inl t -> t <= 0 ->
  run_stv cand ceqb cfg p s = inl (sts, s') -> Forall no_tiebreak sts /\ s' = s.
Proof.
  intros cfg p s s' sts t Htr Hsim Hd Ht Hle Hrun.
  assert (Hq : Forall no_tiebreak sts).
  { destruct (C10_quiet.run_stv_inv cand ceqb _ _ _ _ _ Hrun) as [t0 [s0 [newer [Ht0 [H0 [-> Hsteps]]]]]].
    rewrite Ht in Ht0. inversion Ht0; subst t0.
    destruct (initial_state_ok p s0 Hd H0) as [Hok Hn].
    constructor; [apply (C10_quiet.initial_state_no_tiebreak cand ceqb p s0 H0)|].
    apply (zero_steps_quiet _ _ _ _ _ _ _ _ Htr Hsim Hle Hd Hsteps s0 [] eq_refl Hd Hok Hn). }
  split; [exact Hq|]. apply (C10_quiet.run_stv_quiet cand ceqb cfg p s s' sts Htr Hrun Hq).
Qed.

(* hence its get_profile replay consumes nothing and succeeds, from every source state *)
Lemma zero_replay : forall cfg (p : profile) (s s' : mstate) sts t,
  s_transfer cfg <> TRandom -> s_simul cfg = true -> stv_domain p ->
  stv_init cand cfg p = inl t -> t <= 0 ->
  run_stv cand ceqb cfg p s = inl (sts, s') ->
  forall s2 : mstate, exists pf,
    stv_replay cand ceqb cfg t p [] p (removelast sts) s2 = inl (pf, s2).
Proof.
  intros cfg p s s' sts t Htr Hsim Hd Ht Hle Hrun s2.
  destruct (zero_run_quiet cfg p s s' sts t Htr Hsim Hd Ht Hle Hrun) as [Hq _].
  destruct (C10_quiet.run_stv_inv cand ceqb _ _ _ _ _ Hrun) as [t0 [s0 [newer [Ht0 [H0 [-> Hsteps]]]]]].
  rewrite Ht in Ht0. inversion Ht0; subst t0.
  inversion Hq as [|x y _ Hqn]; subst.
  apply (C10_quiet.steps_replay cand ceqb _ _ _ _ _ _ _ _ Htr Hsteps Hqn s0 [] eq_refl s2).
Qed.

(* ------------------------------------------------------------------ *)
(** * Alaska, every configuration with a non-random transfer *)

Theorem alaska_log_full : forall m1 m2 cfg p p' (s s' : mstate),
  s_transfer cfg <> TRandom -> mstate_equiv s s' ->
  stv_domain p -> stv_domain p' -> profile_equiv p p' ->
  mres_equiv_log (Forall2 state_equiv) (run_rule (RAlaska m1 m2 cfg) p s)
                                       (run_rule (RAlaska m1 m2 cfg) p' s').
Proof.
  intros m1 m2 cfg p p' s s' Htr Hs Hd Hd' He. cbn [Rules.run_rule].
  pose proof (stv_domain_dom cand p Hd) as Hdo.
  pose proof (stv_domain_dom cand p' Hd') as Hdo'.
  unfold Rules.run_alaska. apply (eq_bind_log cand ceqb); [reflexivity|]. intros [] _.
  apply (eq_bind_log cand ceqb).
  { rewrite (ranking_validate_wf cand p (proj1 (proj2 Hdo))), (ranking_validate_wf cand p' (proj1 (proj2 Hdo'))).
    reflexivity. }
  intros [] _. apply (mbind_log state_equiv).
  { apply mlift_log; [|exact Hs]. apply (round0_anonymous cand ceqb ceqb_spec); assumption. }
  intros s0 s0' s2 s2' H0 Hs2. apply (mbind_log_eq cand ceqb (step_rel SKFpv)).
  { apply (plurality_stage_log cand ceqb ceqb_spec); try assumption. apply H0. }
  intros [p1 a1] [p1' a1'] s3 s3' E1 E1' [Hp1 [Ha1 _]] Hs3. cbn [fst snd] in Hp1, Ha1.
  pose proof (plurality_stage_domain cand ceqb ceqb_spec _ _ _ _ _ _ _ _ Hd E1) as Hd1.
  pose proof (plurality_stage_domain cand ceqb ceqb_spec _ _ _ _ _ _ _ _ Hd' E1') as Hd1'.
  cbv zeta.
  assert (Htr2 : s_transfer (with_m cfg m2) <> TRandom) by exact Htr.
  pose proof (stv_init_anonymous cand ceqb ceqb_spec (with_m cfg m2) p1 p1' Hd1 Hd1' Hp1
                (fun H => False_ind _ (Htr2 H))) as Einit.
  apply (eq_bind_log cand ceqb); [exact Einit|]. intros t Et.
  assert (Et1 : stv_init cand (with_m cfg m2) p1 = inl t) by (rewrite Einit; exact Et).
  apply (mbind_log_eq cand ceqb (Forall2 st_rel)).
  { apply (run_stv_log cand ceqb ceqb_spec); assumption. }
  intros sts sts' s4 s4' Hrun Hrun' Hsts Hs4.
  apply (mbind_log (fun _ _ => True)).
  2: { intros _ _ s5 s5' _ Hs5. apply mret_log; [|exact Hs5].
       constructor; [exact H0|constructor; [exact Ha1|]].
       apply (Forall2_map2 state_equiv state_equiv); [apply (bump_equiv cand)|].
       apply Forall2_tl. apply (st_rel_equiv cand). exact Hsts. }
  (* the replay *)
  assert (Hgen : (s_simul (with_m cfg m2) = true -> no_zero_transfer (with_m cfg m2) t) ->
            mres_equiv_log (fun _ _ : profile => True)
              (stv_replay cand ceqb (with_m cfg m2) t p1 [] p1 (removelast sts) s4)
              (stv_replay cand ceqb (with_m cfg m2) t p1' [] p1' (removelast sts') s4')).
  { intros Hsafe. apply (stv_replay_log cand ceqb ceqb_spec); try assumption.
    - apply Forall2_removelast. exact Hsts.
    - constructor. }
  destruct (s_simul cfg) eqn:Hsim.
  - destruct (Qlt_le_dec 0 t) as [Hpos|Hle].
    + apply Hgen. intros _. left. exact Hpos.
    + assert (Hsim2 : s_simul (with_m cfg m2) = true) by exact Hsim.
      destruct (zero_replay (with_m cfg m2) p1 s3 s4 sts t Htr2 Hsim2 Hd1 Et1 Hle Hrun s4) as [pf Hrep].
      destruct (zero_replay (with_m cfg m2) p1' s3' s4' sts' t Htr2 Hsim2 Hd1' Et Hle Hrun' s4') as [pf' Hrep'].
      rewrite Hrep, Hrep'. cbn. split; [exact I|exact Hs4].
  - apply Hgen. intros Hx. cbn [with_m s_simul] in Hx. congruence.
Qed.

Theorem alaska_script_anonymous_full : forall m1 m2 cfg p p' (s : mstate),
  s_transfer cfg <> TRandom -> stv_domain p -> stv_domain p' -> profile_equiv p p' ->
  mres_equiv_log (Forall2 state_equiv) (run_rule (RAlaska m1 m2 cfg) p s)
                                       (run_rule (RAlaska m1 m2 cfg) p' s).
Proof.
  intros m1 m2 cfg p p' s Htr Hd Hd' He. apply alaska_log_full; try assumption.
  apply (mstate_equiv_refl cand ceqb).
Qed.

(* listing the candidates in a different order *)
Theorem alaska_script_cand_order_full : forall m1 m2 cfg (bs : list (ballot cand)) cs cs' (s : mstate),
  s_transfer cfg <> TRandom -> stv_domain (mkProfile bs cs) -> Permutation cs cs' ->
  mres_equiv_log (Forall2 state_equiv) (run_rule (RAlaska m1 m2 cfg) (mkProfile bs cs) s)
                                       (run_rule (RAlaska m1 m2 cfg) (mkProfile bs cs') s).
Proof.
  intros m1 m2 cfg bs cs cs' s Htr Hd Hp. apply alaska_script_anonymous_full; try assumption.
  - apply (stv_domain_perm cand bs cs cs' Hd Hp).
  - apply (cand_order_equiv cand ceqb). exact Hp.
Qed.

(* every deterministic rule: the only caveat left is the one of the rating family *)
Theorem rule_script_anonymous_full : forall (r : rule) (p p' : profile) (s : mstate),
  deterministic r -> anon_domain r p -> anon_domain r p' -> profile_equiv p p' ->
  match r with
  | RRating _ _ _ tb | RLimited _ _ tb | RBloc _ _ tb => rated_tiebreak_ok tb p p'
  | _ => True
  end ->
  mres_equiv_log (Forall2 state_equiv) (run_rule r p s) (run_rule r p' s).
Proof.
  intros r p p' s Hdet Hd Hd' He Hc.
  destruct r; try (apply (rule_script_anonymous cand ceqb ceqb_spec); try assumption; exact Hc).
  cbn [AnonRules2.anon_domain TieSpec.deterministic] in *.
  apply alaska_script_anonymous_full; assumption.
Qed.

End Alaska3.
